import SafeC.Models.Sort
import SafeC.Proofs.SortSafe
/-!
# `cycle` of `qsort_s.c`: the byte program is the element rotation

`cycleBytes` (Models/Sort.lean) is the C `cycle(width, ar, n)`: the elements at `ar[0..n)` are rotated through
`unsigned char tmp[256]` in chunks of at most 256 bytes, every `ar[i]` advanced by the chunk length after each chunk.
`cycle` / `cycleGo` is the rotation of whole elements the sort model uses.

* `cycle_eq_cycleElems`: `cycle` = the `ar[]` capacity check + `cycleElems` (the bare element rotation).
* `cycleBytes_eq_cycle` (MAIN): for every width, every element count, every position list inside the array (any length,
  repeated positions allowed) and enough fuel, `cycleBytes` on `mem` with the pointers `position * w` returns `mem'` of the
  same size and `cycleElems (elems mem w n) ar = .ok (elems mem' w n)`, `elems` = the memory cut into `w`-byte elements.
  `cycleBytes_eq_cycle'` is the same with the sort's `cycle` (at most 112 positions).
* `cycle_fault`: a position outside the array among at least two: both programs fault.

Proof, column-wise (namespace `Cyc`): memory is described by a function `F element column` (`Rep2`); `rotF` is the
rotation on functions; one `copyBytes` on the column range `[off, off+l)` of element `x` from element `y` is `F x k := F y k`
on these columns (for `x = y` it is the identity, byte by byte; no disjointness is needed because the bytes read by the
step `l` are the column `off + l`, not yet written); one chunk rotates every column of `[off, off+l)` (`chunkGo_rep2`);
the `while (width)` loop rotates every column `≥ off` (`cycleBytes_rep2`, induction on the fuel); `rotF` commutes with
taking a column (`rotF_map`), so all columns rotated = rows rotated.
-/
namespace SafeC.Sort

/-- the element rotation of `cycle`, without the `ar[]` capacity check -/
def cycleElems (a : Array α) (ar : List Nat) : M (Array α) :=
  match ar with
  | [] => .ok a
  | [_] => .ok a
  | x :: _ :: _ => do
    let tmp ← getE a x
    cycleGo a tmp ar

theorem cycle_eq_cycleElems (s : St α) (ar : List Nat) :
    cycle s ar = if 2 ≤ ar.length ∧ ar.length > 112 then .error .arIdx
      else (cycleElems s.a ar).map (fun a => { s with a := a }) := by
  match ar with
  | [] => simp [cycle, cycleElems, Except.map]
  | [_] => simp [cycle, cycleElems, Except.map]
  | x :: y :: rest =>
    unfold cycle cycleElems
    by_cases h : (x :: y :: rest).length > 112
    · have h2 : 2 ≤ (x :: y :: rest).length := by simp
      simp only [h, h2, and_self, if_true]
    · simp only [h, and_false, if_false]
      cases hg : getE s.a x with
      | error e => simp [bind, Except.bind, Except.map]
      | ok t =>
        cases hc : cycleGo s.a t (x :: y :: rest) with
        | error e => simp [bind, Except.bind, Except.map, hc]
        | ok r => simp [bind, Except.bind, Except.map, hc, pure, Except.pure]

/-- element view of the byte memory: element `i` = bytes `[i*w, i*w + w)` -/
def elems (mem : Array UInt8) (w n : Nat) : Array (Array UInt8) :=
  Array.ofFn (n := n) fun i => mem.extract (i.val * w) (i.val * w + w)

namespace Cyc

def upd (f : Nat → β) (x : Nat) (v : β) : Nat → β := fun i => if i = x then v else f i

def rotF (f : Nat → β) (tmp : β) : List Nat → Nat → β
  | [] => f
  | [x] => upd f x tmp
  | x :: y :: rest => rotF (upd f x (f y)) tmp (y :: rest)

theorem rotF_map (h : β → γ) (tmp : β) : ∀ (ar : List Nat) (f : Nat → β) (i : Nat),
    rotF (fun j => h (f j)) (h tmp) ar i = h (rotF f tmp ar i)
  | [], f, i => rfl
  | [x], f, i => by
    simp only [rotF, upd]; split <;> rfl
  | x :: y :: rest, f, i => by
    simp only [rotF]
    rw [← rotF_map h tmp (y :: rest)]
    congr 1
    funext j
    simp only [upd]; split <;> rfl

def Rep (a : Array β) (n : Nat) (f : Nat → β) : Prop :=
  a.size = n ∧ ∀ i, i < n → a[i]? = some (f i)

theorem Rep.ext {a b : Array β} {n : Nat} {f : Nat → β} (ha : Rep a n f) (hb : Rep b n f) : a = b := by
  apply Array.ext
  · rw [ha.1, hb.1]
  · intro i h1 h2
    have e1 := ha.2 i (by rw [← ha.1]; exact h1)
    have e2 := hb.2 i (by rw [← ha.1]; exact h1)
    rw [Array.getElem?_eq_getElem h1] at e1
    rw [Array.getElem?_eq_getElem h2] at e2
    injection e1 with e1; injection e2 with e2
    rw [e1, e2]

theorem getE_rep {a : Array β} {n : Nat} {f : Nat → β} (h : Rep a n f) {x : Nat} (hx : x < n) :
    getE a x = .ok (f x) := by
  have hx' : x < a.size := by rw [h.1]; exact hx
  have e := h.2 x hx
  rw [Array.getElem?_eq_getElem hx'] at e
  injection e with e
  unfold getE; simp only [hx', dite_true, e]

theorem setE_rep {a : Array β} {n : Nat} {f : Nat → β} (h : Rep a n f) {x : Nat} (hx : x < n) (v : β) :
    ∃ a', setE a x v = .ok a' ∧ Rep a' n (upd f x v) := by
  have hx' : x < a.size := by rw [h.1]; exact hx
  refine ⟨a.set x v hx', by unfold setE; simp only [hx', dite_true], by simp [h.1], ?_⟩
  intro i hi
  rw [Array.getElem?_set]
  simp only [upd]
  by_cases hxi : x = i
  · subst hxi; simp
  · have : ¬ i = x := fun e => hxi e.symm
    simp only [hxi, this, if_false]; exact h.2 i hi

theorem cycleGo_rep (tmp : β) {n : Nat} : ∀ (ar : List Nat) (a : Array β) (f : Nat → β) (x : Nat),
    Rep a n f → x < n → (∀ y ∈ ar, y < n) →
    ∃ r, cycleGo a tmp (x :: ar) = .ok r ∧ Rep r n (rotF f tmp (x :: ar))
  | [], a, f, x, h, hx, _ => by
    unfold cycleGo
    exact setE_rep h hx tmp
  | y :: rest, a, f, x, h, hx, har => by
    have hy : y < n := har y (by simp)
    unfold cycleGo
    rw [getE_rep h hy]
    obtain ⟨a1, e1, h1⟩ := setE_rep h hx (f y)
    simp only [bind, Except.bind, e1]
    exact cycleGo_rep tmp rest a1 _ y h1 hy (fun z hz => har z (by simp [hz]))

/-! ## byte memory as a function of (element, column) -/

theorem addr_lt {i n k w : Nat} (hi : i < n) (hk : k < w) : i * w + k < n * w :=
  calc i * w + k < i * w + w := by omega
    _ = (i + 1) * w := by rw [Nat.succ_mul]
    _ ≤ n * w := Nat.mul_le_mul_right w hi

theorem addr_inj {i i' k k' w : Nat} (hk : k < w) (hk' : k' < w) (e : i * w + k = i' * w + k') :
    i = i' ∧ k = k' := by
  rcases Nat.lt_trichotomy i i' with h | h | h
  · have := addr_lt (w := w) h hk
    omega
  · subst h; omega
  · have := addr_lt (w := w) h hk'
    omega

def Rep2 (mem : Array UInt8) (w n : Nat) (F : Nat → Nat → UInt8) : Prop :=
  mem.size = n * w ∧ ∀ i k, i < n → k < w → mem[i * w + k]? = some (F i k)

theorem Rep2.congr {mem : Array UInt8} {w n : Nat} {F G : Nat → Nat → UInt8} (h : Rep2 mem w n F)
    (e : ∀ i k, i < n → k < w → F i k = G i k) : Rep2 mem w n G :=
  ⟨h.1, fun i k hi hk => by rw [← e i k hi hk]; exact h.2 i k hi hk⟩

def upd2 (F : Nat → Nat → UInt8) (x k0 : Nat) (v : UInt8) : Nat → Nat → UInt8 :=
  fun i k => if i = x ∧ k = k0 then v else F i k

theorem getE_rep2 {mem : Array UInt8} {w n : Nat} {F : Nat → Nat → UInt8} (h : Rep2 mem w n F)
    {i k : Nat} (hi : i < n) (hk : k < w) : getE mem (i * w + k) = .ok (F i k) := by
  have hx' : i * w + k < mem.size := by rw [h.1]; exact addr_lt hi hk
  have e := h.2 i k hi hk
  rw [Array.getElem?_eq_getElem hx'] at e
  injection e with e
  unfold getE; simp only [hx', dite_true, e]

theorem setE_rep2 {mem : Array UInt8} {w n : Nat} {F : Nat → Nat → UInt8} (h : Rep2 mem w n F)
    {x k0 : Nat} (hx : x < n) (hk0 : k0 < w) (v : UInt8) :
    ∃ mem', setE mem (x * w + k0) v = .ok mem' ∧ Rep2 mem' w n (upd2 F x k0 v) := by
  have hx' : x * w + k0 < mem.size := by rw [h.1]; exact addr_lt hx hk0
  refine ⟨mem.set (x * w + k0) v hx', by unfold setE; simp only [hx', dite_true], by simp [h.1], ?_⟩
  intro i k hi hk
  rw [Array.getElem?_set]
  simp only [upd2]
  by_cases hxi : x * w + k0 = i * w + k
  · obtain ⟨rfl, rfl⟩ := addr_inj hk0 hk hxi
    simp
  · have : ¬ (i = x ∧ k = k0) := fun ⟨e1, e2⟩ => hxi (by rw [e1, e2])
    simp only [hxi, this, if_false]; exact h.2 i k hi hk

/-- `memcpy(base + x*w + off, base + y*w + off, l)`, forward byte by byte, `x = y` allowed -/
theorem copyBytes_rep2 {w n x y off : Nat} (hx : x < n) (hy : y < n) : ∀ (l : Nat) (mem : Array UInt8)
    (F : Nat → Nat → UInt8), Rep2 mem w n F → off + l ≤ w →
    ∃ mem', copyBytes mem (x * w + off) (y * w + off) l = .ok mem' ∧
      Rep2 mem' w n (fun i k => if i = x ∧ off ≤ k ∧ k < off + l then F y k else F i k)
  | 0, mem, F, h, _ => by
    refine ⟨mem, rfl, h.congr ?_⟩
    intro i k _ _
    have : ¬ (i = x ∧ off ≤ k ∧ k < off + 0) := by omega
    simp only [this, if_false]
  | l + 1, mem, F, h, hl => by
    obtain ⟨m1, e1, h1⟩ := copyBytes_rep2 (off := off) hx hy l mem F h (by omega)
    unfold copyBytes
    simp only [bind, Except.bind, e1]
    rw [Nat.add_assoc, getE_rep2 h1 hy (by omega : off + l < w)]
    simp only []
    rw [Nat.add_assoc]
    obtain ⟨m2, e2, h2⟩ := setE_rep2 h1 hx (by omega : off + l < w)
      (if y = x ∧ off ≤ off + l ∧ off + l < off + l then F y (off + l) else F y (off + l))
    refine ⟨m2, e2, h2.congr ?_⟩
    intro i k _ _
    simp only [upd2]
    grind

/-- `memcpy(base + x*w + off, tmp, l)`; `T k` = the byte `tmp` holds for column `k` -/
theorem storeTmp_rep2 {w n x : Nat} (hx : x < n) (T : Nat → UInt8) : ∀ (bs : List UInt8) (off : Nat)
    (mem : Array UInt8) (F : Nat → Nat → UInt8), Rep2 mem w n F → off + bs.length ≤ w →
    (∀ j, j < bs.length → bs[j]? = some (T (off + j))) →
    ∃ mem', storeTmp mem (x * w + off) bs = .ok mem' ∧
      Rep2 mem' w n (fun i k => if i = x ∧ off ≤ k ∧ k < off + bs.length then T k else F i k)
  | [], off, mem, F, h, _, _ => by
    refine ⟨mem, rfl, h.congr ?_⟩
    intro i k _ _
    have : ¬ (i = x ∧ off ≤ k ∧ k < off + ([] : List UInt8).length) := by simp
    simp only [this, if_false]
  | b :: bs, off, mem, F, h, hl, hT => by
    simp only [List.length_cons] at hl
    have hb : b = T off := by
      have := hT 0 (by simp)
      simpa using this
    obtain ⟨m1, e1, h1⟩ := setE_rep2 h hx (by omega : off < w) b
    unfold storeTmp
    simp only [bind, Except.bind, e1]
    obtain ⟨m2, e2, h2⟩ := storeTmp_rep2 hx T bs (off + 1) m1 _ h1 (by omega) (by
      intro j hj
      have := hT (j + 1) (by simp; omega)
      rw [List.getElem?_cons_succ] at this
      rw [this, Nat.add_assoc, Nat.add_comm 1 j])
    refine ⟨m2, e2, h2.congr ?_⟩
    intro i k _ _
    simp only [upd2, List.length_cons, hb]
    grind

theorem mapM_ok {α β : Type} (f : α → M β) (g : α → β) : ∀ (xs : List α), (∀ x ∈ xs, f x = .ok (g x)) →
    xs.mapM f = .ok (xs.map g)
  | [], _ => rfl
  | x :: xs, h => by
    rw [List.mapM_cons, h x (by simp), mapM_ok f g xs (fun z hz => h z (by simp [hz]))]
    rfl

theorem loadTmp_rep2 {mem : Array UInt8} {w n : Nat} {F : Nat → Nat → UInt8} (h : Rep2 mem w n F)
    {x off l : Nat} (hx : x < n) (hl : off + l ≤ w) (hl2 : l ≤ 256) :
    loadTmp mem (x * w + off) l = .ok ((List.range l).map fun j => F x (off + j)) := by
  unfold loadTmp
  have : ¬ l > 256 := by omega
  simp only [this, if_false]
  apply mapM_ok
  intro j hj
  have hj' : j < l := by simpa using hj
  rw [Nat.add_assoc]
  exact getE_rep2 h hx (by omega)

/-- the inner `for` of one chunk: every column of `[off, off+l)` is rotated, the others are untouched -/
theorem chunkGo_rep2 {w n off l : Nat} (hl : off + l ≤ w) (T : Nat → UInt8) (tmp : List UInt8)
    (htl : tmp.length = l) (hT : ∀ j, j < l → tmp[j]? = some (T (off + j))) :
    ∀ (ar : List Nat) (x : Nat) (mem : Array UInt8) (F : Nat → Nat → UInt8), Rep2 mem w n F →
    x < n → (∀ y ∈ ar, y < n) →
    ∃ mem', chunkGo mem tmp l ((x :: ar).map (· * w + off)) = .ok mem' ∧
      Rep2 mem' w n (fun i k => if off ≤ k ∧ k < off + l then rotF (fun j => F j k) (T k) (x :: ar) i else F i k)
  | [], x, mem, F, h, hx, _ => by
    simp only [List.map_cons, List.map_nil]
    unfold chunkGo
    obtain ⟨m1, e1, h1⟩ := storeTmp_rep2 hx T tmp off mem F h (by omega) (by rw [htl]; exact hT)
    refine ⟨m1, e1, h1.congr ?_⟩
    intro i k _ _
    simp only [rotF, upd, htl]
    grind
  | y :: rest, x, mem, F, h, hx, har => by
    have hy : y < n := har y (by simp)
    simp only [List.map_cons]
    unfold chunkGo
    obtain ⟨m1, e1, h1⟩ := copyBytes_rep2 (off := off) hx hy l mem F h hl
    simp only [bind, Except.bind, e1]
    obtain ⟨m2, e2, h2⟩ := chunkGo_rep2 hl T tmp htl hT rest y m1 _ h1 hy (fun z hz => har z (by simp [hz]))
    simp only [List.map_cons] at e2
    refine ⟨m2, e2, h2.congr ?_⟩
    intro i k _ _
    simp only [rotF]
    by_cases hk : off ≤ k ∧ k < off + l
    · simp only [hk, and_self, if_true]
      congr 1
      funext j
      simp only [upd, and_true]
    · simp only [hk, if_false]
      simp only [and_false, if_false]

/-- the `while (width)` loop from byte offset `off` on (`wr` = bytes of every element still to move):
    every column `k ≥ off` is rotated exactly once, the columns below `off` are untouched -/
theorem cycleBytes_rep2 {w n : Nat} (x y : Nat) (rest : List Nat) (hx : x < n) (har : ∀ z ∈ y :: rest, z < n) :
    ∀ (fuel off wr : Nat) (mem : Array UInt8) (F : Nat → Nat → UInt8), Rep2 mem w n F → off + wr = w →
    wr ≤ 256 * fuel →
    ∃ mem', cycleBytes fuel mem wr ((x :: y :: rest).map (· * w + off)) = .ok mem' ∧
      Rep2 mem' w n (fun i k => if off ≤ k then rotF (fun j => F j k) (F x k) (x :: y :: rest) i else F i k)
  | 0, off, wr, mem, F, h, hw, hf => by
    have h0 : wr = 0 := by omega
    unfold cycleBytes
    simp only [h0, if_true]
    refine ⟨mem, rfl, h.congr ?_⟩
    intro i k _ hk
    have : ¬ off ≤ k := by omega
    simp only [this, if_false]
  | f + 1, off, wr, mem, F, h, hw, hf => by
    unfold cycleBytes
    have h2 : ¬ ((x :: y :: rest).map (· * w + off)).length < 2 := by simp
    simp only [h2, if_false]
    by_cases h0 : wr = 0
    · simp only [h0, if_true]
      refine ⟨mem, rfl, h.congr ?_⟩
      intro i k _ hk
      have : ¬ off ≤ k := by omega
      simp only [this, if_false]
    · simp only [h0, if_false]
      obtain ⟨l, hl⟩ : ∃ l, l = if 256 < wr then 256 else wr := ⟨_, rfl⟩
      rw [← hl]
      have hl1 : l ≤ 256 := by rw [hl]; split <;> omega
      have hl2 : off + l ≤ w := by rw [hl]; split <;> omega
      have hl3 : wr - l ≤ 256 * f := by rw [hl]; split <;> omega
      have hl4 : l ≤ wr := by rw [hl]; split <;> omega
      have hhd : ((x :: y :: rest).map (· * w + off)).head! = x * w + off := rfl
      rw [hhd, loadTmp_rep2 h hx hl2 hl1]
      obtain ⟨m1, e1, h1⟩ := chunkGo_rep2 hl2 (F x) ((List.range l).map fun j => F x (off + j)) (by simp)
        (by intro j hj; simp [hj]) (y :: rest) x mem F h hx har
      simp only [bind, Except.bind, e1]
      have hm : ((x :: y :: rest).map (· * w + off)).map (· + l) = (x :: y :: rest).map (· * w + (off + l)) := by
        rw [List.map_map]
        apply List.map_congr_left
        intro a _
        simp [Nat.add_assoc]
      rw [hm]
      obtain ⟨m2, e2, h2⟩ := cycleBytes_rep2 x y rest hx har f (off + l) (wr - l) m1 _ h1 (by omega) hl3
      refine ⟨m2, e2, h2.congr ?_⟩
      intro i k _ _
      by_cases hk1 : off + l ≤ k
      · have a1 : off ≤ k := by omega
        have a2 : ¬ k < off + l := by omega
        simp only [hk1, a1, a2, and_false, if_true, if_false]
      · have a2 : k < off + l := by omega
        simp only [hk1, a2, and_true, if_false]

/-! ## element view of the byte memory -/

def row (w : Nat) (f : Nat → UInt8) : Array UInt8 := Array.ofFn (n := w) fun k => f k.val

theorem elems_rep {mem : Array UInt8} {w n : Nat} {F : Nat → Nat → UInt8} (h : Rep2 mem w n F) :
    Rep (elems mem w n) n (fun i => row w (F i)) := by
  refine ⟨by simp [elems], ?_⟩
  intro i hi
  simp only [elems, Array.getElem?_ofFn, hi, dite_true]
  congr 1
  have hle : i * w + w ≤ mem.size := by
    rw [h.1]
    calc i * w + w = (i + 1) * w := by rw [Nat.succ_mul]
      _ ≤ n * w := Nat.mul_le_mul_right w hi
  apply Array.ext
  · simp only [row, Array.size_extract, Array.size_ofFn]; omega
  · intro k h1 h2
    have hk : k < w := by simpa [row] using h2
    have e := h.2 i k hi hk
    have hlt : i * w + k < mem.size := by omega
    rw [Array.getElem?_eq_getElem hlt] at e
    injection e with e
    simp only [row, Array.getElem_extract, Array.getElem_ofFn, e]

theorem rep2_self {mem : Array UInt8} {w n : Nat} (hm : mem.size = n * w) :
    Rep2 mem w n (fun i k => mem[i * w + k]?.getD 0) := by
  refine ⟨hm, ?_⟩
  intro i k hi hk
  have hlt : i * w + k < mem.size := by rw [hm]; exact addr_lt hi hk
  simp [hlt]

end Cyc

open Cyc

/-- MAIN THEOREM.  `cycle(width, ar, n)` of the C on bytes (rotation through `unsigned char tmp[256]` in chunks of at
most 256 bytes, `ar[i] += l` after every chunk) is the element rotation `cycleElems` (= `cycle` without the `ar[]`
capacity check, see `cycle_eq_cycleElems`): every width (`w ≤ 256`, `w > 256`, multiple of 256 or not; the statement
also holds for the degenerate `w = 0`), every number of elements, every list of positions inside the array — any length,
repeated positions allowed.  Byte pointers are `position * w` (`base + i*width`). -/
theorem cycleBytes_eq_cycle (w n : Nat) (mem : Array UInt8) (hm : mem.size = n * w)
    (ar : List Nat) (har : ∀ x ∈ ar, x < n) (fuel : Nat) (hf : w ≤ 256 * fuel) :
    ∃ mem', cycleBytes fuel mem w (ar.map (· * w)) = .ok mem' ∧ mem'.size = n * w ∧
      cycleElems (elems mem w n) ar = .ok (elems mem' w n) := by
  have short : ∀ ptrs : List Nat, ptrs.length < 2 → cycleBytes fuel mem w ptrs = .ok mem := by
    intro ptrs hp
    cases fuel with
    | zero =>
      have : w = 0 := by omega
      unfold cycleBytes; simp only [this, if_true]
    | succ f => unfold cycleBytes; simp only [hp, if_true]
  match ar, har with
  | [], _ => exact ⟨mem, short _ (by simp), hm, rfl⟩
  | [_], _ => exact ⟨mem, short _ (by simp), hm, rfl⟩
  | x :: y :: rest, har =>
    have hx : x < n := har x (by simp)
    have har' : ∀ z ∈ y :: rest, z < n := fun z hz => har z (by simp [hz])
    have h0 := rep2_self hm
    obtain ⟨mem', e, h'⟩ := cycleBytes_rep2 x y rest hx har' fuel 0 w mem _ h0 (by omega) hf
    have ep : (x :: y :: rest).map (· * w + 0) = (x :: y :: rest).map (· * w) := rfl
    rw [ep] at e
    refine ⟨mem', e, h'.1, ?_⟩
    have hE := elems_rep h0
    have hE' := elems_rep h'
    show (do let tmp ← getE (elems mem w n) x; cycleGo (elems mem w n) tmp (x :: y :: rest)) = _
    rw [getE_rep hE hx]
    obtain ⟨r, er, hr⟩ := cycleGo_rep (row w fun k => mem[x * w + k]?.getD 0) (y :: rest) _ _ x hE hx har'
    simp only [bind, Except.bind, er]
    congr 1
    apply Rep.ext hr
    have : (fun i => row w ((fun i k => if 0 ≤ k then rotF (fun j => (fun i k => mem[i * w + k]?.getD 0) j k)
          ((fun i k => mem[i * w + k]?.getD 0) x k) (x :: y :: rest) i
          else (fun i k => mem[i * w + k]?.getD 0) i k) i)) =
        rotF (fun i => row w ((fun i k => mem[i * w + k]?.getD 0) i))
          (row w fun k => mem[x * w + k]?.getD 0) (x :: y :: rest) := by
      funext i
      rw [rotF_map (row w)]
      congr 1
      funext k
      simp only [Nat.zero_le, if_true]
      exact rotF_map (fun (f : Nat → UInt8) => f k) (fun k => mem[x * w + k]?.getD 0) (x :: y :: rest)
        (fun i k => mem[i * w + k]?.getD 0) i
    rw [← this]
    exact hE'

/-- with `cycle_eq_cycleElems`: the sort's `cycle` on the element view, at most 112 positions -/
theorem cycleBytes_eq_cycle' (w n : Nat) (mem : Array UInt8) (hm : mem.size = n * w)
    (ar : List Nat) (har : ∀ x ∈ ar, x < n) (hlen : ar.length ≤ 112) (fuel : Nat) (hf : w ≤ 256 * fuel)
    (s : St (Array UInt8)) (hs : s.a = elems mem w n) :
    ∃ mem', cycleBytes fuel mem w (ar.map (· * w)) = .ok mem' ∧ mem'.size = n * w ∧
      cycle s ar = .ok { s with a := elems mem' w n } := by
  obtain ⟨mem', e, hsz, h⟩ := cycleBytes_eq_cycle w n mem hm ar har fuel hf
  refine ⟨mem', e, hsz, ?_⟩
  have : ¬ (2 ≤ ar.length ∧ ar.length > 112) := by omega
  rw [cycle_eq_cycleElems, if_neg this, hs, h]
  rfl

/-! ## a position outside the array: both programs fault -/

namespace Cyc

theorem cycleGo_fault (tmp : β) : ∀ (ar : List Nat) (a : Array β) (x : Nat), (∃ z ∈ x :: ar, a.size ≤ z) →
    ∃ e, cycleGo a tmp (x :: ar) = .error e
  | [], a, x, ⟨z, hz, hle⟩ => by
    have : z = x := by simpa using hz
    subst this
    have : ¬ z < a.size := by omega
    unfold cycleGo setE
    simp only [this, dite_false]
    exact ⟨_, rfl⟩
  | y :: rest, a, x, ⟨z, hz, hle⟩ => by
    unfold cycleGo getE
    by_cases hy : y < a.size
    · simp only [hy, dite_true]
      unfold setE
      by_cases hx : x < a.size
      · simp only [hx, dite_true]
        show ∃ e, cycleGo (a.set x a[y]) tmp (y :: rest) = .error e
        apply cycleGo_fault tmp rest
        refine ⟨z, ?_, by simpa using hle⟩
        rcases List.mem_cons.mp hz with h | h
        · omega
        · exact h
      · simp only [hx, dite_false]
        exact ⟨_, rfl⟩
    · simp only [hy, dite_false]
      exact ⟨_, rfl⟩

end Cyc

theorem cycleElems_fault (a : Array β) (ar : List Nat) (hlen : 2 ≤ ar.length) (hbad : ∃ z ∈ ar, a.size ≤ z) :
    ∃ e, cycleElems a ar = .error e := by
  match ar, hlen, hbad with
  | x :: y :: rest, _, hbad =>
    show ∃ e, (do let tmp ← getE a x; cycleGo a tmp (x :: y :: rest)) = .error e
    cases hg : getE a x with
    | error e => exact ⟨e, rfl⟩
    | ok t => exact cycleGo_fault t (y :: rest) a x hbad

namespace Cyc

theorem copyBytes_size : ∀ (l : Nat) (mem : Array UInt8) (d s : Nat) (m : Array UInt8),
    copyBytes mem d s l = .ok m → m.size = mem.size
  | 0, mem, d, s, m, h => by
    unfold copyBytes at h
    injection h with h
    rw [h]
  | l + 1, mem, d, s, m, h => by
    unfold copyBytes at h
    cases hc : copyBytes mem d s l with
    | error e => simp [hc, bind, Except.bind] at h
    | ok m1 =>
      have := copyBytes_size l mem d s m1 hc
      simp only [hc, bind, Except.bind, getE, setE] at h
      by_cases h1 : s + l < m1.size
      · simp only [h1, dite_true] at h
        by_cases h2 : d + l < m1.size
        · simp only [h2, dite_true] at h
          injection h with h
          rw [← h, Array.size_set, this]
        · simp only [h2, dite_false] at h
          cases h
      · simp only [h1, dite_false] at h
        cases h

theorem copyBytes_fault (l : Nat) (mem : Array UInt8) (d s : Nat) (hbad : mem.size ≤ s ∨ mem.size ≤ d) :
    ∃ e, copyBytes mem d s (l + 1) = .error e := by
  unfold copyBytes
  cases hc : copyBytes mem d s l with
  | error e => exact ⟨e, rfl⟩
  | ok m1 =>
    have hsz := copyBytes_size l mem d s m1 hc
    simp only [bind, Except.bind, getE, setE]
    by_cases h1 : s + l < m1.size
    · simp only [h1, dite_true]
      have h2 : ¬ d + l < m1.size := by omega
      simp only [h2, dite_false]
      exact ⟨_, rfl⟩
    · simp only [h1, dite_false]
      exact ⟨_, rfl⟩

theorem chunkGo_fault {w n l : Nat} (tmp : List UInt8) (htl : tmp.length = l + 1) :
    ∀ (ar : List Nat) (x : Nat) (mem : Array UInt8), mem.size = n * w → (∃ z ∈ x :: ar, n ≤ z) →
    ∃ e, chunkGo mem tmp (l + 1) ((x :: ar).map (· * w)) = .error e
  | [], x, mem, hm, ⟨z, hz, hle⟩ => by
    have : z = x := by simpa using hz
    subst this
    have hle' : n * w ≤ z * w := Nat.mul_le_mul_right w hle
    match tmp, htl with
    | b :: bs, _ =>
      simp only [List.map_cons, List.map_nil]
      unfold chunkGo storeTmp setE
      have : ¬ z * w < mem.size := by omega
      simp only [this, dite_false]
      exact ⟨_, rfl⟩
  | y :: rest, x, mem, hm, ⟨z, hz, hle⟩ => by
    simp only [List.map_cons]
    unfold chunkGo
    by_cases hxy : x < n ∧ y < n
    · cases hc : copyBytes mem (x * w) (y * w) (l + 1) with
      | error e => exact ⟨e, rfl⟩
      | ok m1 =>
        have hsz := copyBytes_size _ _ _ _ _ hc
        have := chunkGo_fault tmp htl rest y m1 (by rw [hsz, hm]) ⟨z, (by
          rcases List.mem_cons.mp hz with h | h
          · omega
          · exact h), hle⟩
        simpa only [List.map_cons, bind, Except.bind] using this
    · have hbad : mem.size ≤ y * w ∨ mem.size ≤ x * w := by
        rw [hm]
        by_cases hx : x < n
        · left; exact Nat.mul_le_mul_right w (by omega)
        · right; exact Nat.mul_le_mul_right w (by omega)
      obtain ⟨e, he⟩ := copyBytes_fault l mem (x * w) (y * w) hbad
      exact ⟨e, by simp only [bind, Except.bind, he]⟩

end Cyc

/-- some position of `ar[]` outside the array (`n ≥ 2` positions, so that the C moves anything):
    the byte program and the element rotation both fault -/
theorem cycle_fault (w n : Nat) (hw : 0 < w) (mem : Array UInt8) (hm : mem.size = n * w)
    (ar : List Nat) (hlen : 2 ≤ ar.length) (hbad : ∃ z ∈ ar, n ≤ z) (fuel : Nat) (hf : w ≤ 256 * fuel) :
    (∃ e, cycleBytes fuel mem w (ar.map (· * w)) = .error e) ∧
    (∃ e, cycleElems (elems mem w n) ar = .error e) := by
  refine ⟨?_, cycleElems_fault _ ar hlen (by simpa [elems] using hbad)⟩
  match ar, hlen, hbad with
  | x :: y :: rest, _, hbad =>
    obtain ⟨f, rfl⟩ : ∃ f, fuel = f + 1 := ⟨fuel - 1, by omega⟩
    unfold cycleBytes
    have h2 : ¬ ((x :: y :: rest).map (· * w)).length < 2 := by simp
    have h0 : ¬ w = 0 := by omega
    simp only [h2, h0, if_false]
    obtain ⟨l, hl⟩ : ∃ l, l + 1 = if 256 < w then 256 else w := ⟨(if 256 < w then 256 else w) - 1, by split <;> omega⟩
    rw [← hl]
    cases ht : loadTmp mem ((x :: y :: rest).map (· * w)).head! (l + 1) with
    | error e => exact ⟨e, rfl⟩
    | ok tmp =>
      have htl : tmp.length = l + 1 := by
        by_cases hx : x < n
        · have hl2 : 0 + (l + 1) ≤ w := by rw [hl]; split <;> omega
          have hl1 : l + 1 ≤ 256 := by rw [hl]; split <;> omega
          have := loadTmp_rep2 (rep2_self hm) hx hl2 hl1
          have hhd : ((x :: y :: rest).map (· * w)).head! = x * w + 0 := rfl
          rw [hhd, this] at ht
          injection ht with ht
          rw [← ht]; simp
        · exfalso
          have hhd : ((x :: y :: rest).map (· * w)).head! = x * w := rfl
          have hle : n * w ≤ x * w := Nat.mul_le_mul_right w (by omega)
          have hg : ¬ x * w + 0 < mem.size := by omega
          rw [hhd] at ht
          unfold loadTmp at ht
          split at ht
          · cases ht
          · rw [List.range_succ_eq_map, List.mapM_cons] at ht
            simp only [getE, hg, dite_false, bind, Except.bind] at ht
            cases ht
      obtain ⟨e, he⟩ := chunkGo_fault (w := w) tmp htl (y :: rest) x mem hm hbad
      exact ⟨e, by simp only [bind, Except.bind, he]⟩

/-! ## examples (NOT the general claim: they only show that the hypotheses of `cycleBytes_eq_cycle` are satisfiable
by non-trivial inputs, and what the programs compute on two small memories) -/

/-- EXAMPLE: width 300 (> 256, not a multiple of 256: chunks of 256 and 44 bytes), 3 elements, the rotation `[2, 0, 1]`,
2 rounds of fuel: the hypotheses of the main theorem hold -/
example : ∃ mem', cycleBytes 2 (Array.ofFn (n := 900) fun i => i.val.toUInt8) 300 ([2, 0, 1].map (· * 300)) = .ok mem' ∧
    mem'.size = 3 * 300 ∧
    cycleElems (elems (Array.ofFn (n := 900) fun i => i.val.toUInt8) 300 3) [2, 0, 1] = .ok (elems mem' 300 3) :=
  cycleBytes_eq_cycle 300 3 _ (by simp) [2, 0, 1] (by decide) 2 (by decide)

/-- EXAMPLE: a concrete run, width 3, 3 elements -/
example : cycleBytes 1 #[1, 2, 3, 4, 5, 6, 7, 8, 9] 3 ([2, 0, 1].map (· * 3)) = .ok #[4, 5, 6, 7, 8, 9, 1, 2, 3] := rfl
example : cycleElems (elems #[1, 2, 3, 4, 5, 6, 7, 8, 9] 3 3) [2, 0, 1] = .ok (elems #[4, 5, 6, 7, 8, 9, 1, 2, 3] 3 3) := rfl

/-- EXAMPLE: a concrete run with a repeated position -/
example : cycleBytes 1 #[1, 2, 3, 4, 5, 6, 7, 8, 9] 3 ([0, 1, 0, 2].map (· * 3)) = .ok #[7, 8, 9, 4, 5, 6, 1, 2, 3] := rfl
example : cycleElems (elems #[1, 2, 3, 4, 5, 6, 7, 8, 9] 3 3) [0, 1, 0, 2] = .ok (elems #[7, 8, 9, 4, 5, 6, 1, 2, 3] 3 3) := rfl

/-- EXAMPLE: position 3 of a 3-element array: both fault -/
example : cycleBytes 1 #[1, 2, 3, 4, 5, 6, 7, 8, 9] 3 ([0, 3].map (· * 3)) = .error (.idx 9) := rfl
example : cycleElems (elems #[1, 2, 3, 4, 5, 6, 7, 8, 9] 3 3) [0, 3] = .error (.idx 3) := rfl

end SafeC.Sort

import SafeC.Proofs.NormIdemTables
import SafeC.Proofs.NormRoom
/-! C17 — when does the NFC call succeed (sufficient room), and: with that room the second NFC call succeeds too and changes nothing -/
namespace SafeC.Norm
open SafeC.Gen

attribute [local irreducible] cell UniCanon.main UniCanon.planes UniCanon.rows UniCombin.main UniCombin.planes UniCombin.rows
  UniCanon.tbl1 UniCanon.tbl2 UniCanon.tbl3 UniCanon.tbl4 UniCompos.main UniCompos.planes UniCompos.rows UniCompos.pairs

/-- **sufficient room for NFC**: `dmax ≤ RSIZE_MAX_WSTR` and five cells more than the NFD text ⇒ `wcsnorm_s(…NFC…)` returns EOK
(with `wcsnormS_nfc_spec`: and dest is the NFC), as is and repaired -/
theorem wcsnormS_nfc_succeeds (fx : Fixes) (dmax : Nat) (src : List Nat) (hs : ∀ c ∈ src, c ≠ 0 ∧ c ≤ UniCompos.unicodeMax)
    (hmax : dmax ≤ RSIZE_MAX_WSTR) (hroom : (nfdPure src).length + 5 ≤ dmax) : (wcsnormS fx 1 dmax src).ret = 0 := by
  have hlen : (nfdPure src).length = (src.flatMap decompose1).length := by unfold nfdPure; exact reorderPure_length _ _
  have hroom' := hroom
  rw [hlen] at hroom
  obtain ⟨d, hd⟩ := decLoop_ok_of_room dmax src dmax hs hroom
  have h0 : ∀ c ∈ src, c ≠ 0 := fun c hc => (hs c hc).1
  obtain ⟨n1, n2, n3⟩ := decLoop_spec dmax src dmax h0
  obtain ⟨e1, e2, e3, e4⟩ := n3 _ d hd
  have hdec : decomposeS dmax src false = ⟨0, dmax - d, src.flatMap decompose1, false, false⟩ := by
    unfold decomposeS
    have a1 : ¬ dmax = 0 := by omega
    have a2 : ¬ dmax < 5 := by omega
    have a3 : ¬ dmax > RSIZE_MAX_WSTR := by omega
    simp only [a1, a2, a3, ↓reduceIte, Bool.false_eq_true, hd, Res.ofStep]
  have hle := flatMap_decompose1_le (xs := src) (fun c hc => ⟨(hs c hc).2, (hs c hc).1⟩)
  have hst := reorderS_stage fx (src.flatMap decompose1) (dmax - d) (fun c hc => (hle c hc).1) (by omega)
  have hbig : ¬ (dmax - d + 2 > RSIZE_MAX_WSTR) := by omega
  have hmem : ∀ c ∈ nfdPure src, c ≤ UniCompos.unicodeMax := nfdPure_le (fun c hc => (hs c hc).2)
  have hcs := composeS_eq_pure_kcc fx (nfdPure src) dmax hmem (by omega) hmax
  have hnfd : reorderPure kcc (src.flatMap decompose1) = nfdPure src := rfl
  unfold wcsnormS
  have h12 : ((1 : Nat) = 2) = False := by simp
  have h10 : ((1 : Nat) = 0 ∨ (1 : Nat) = 4) = False := by simp
  simp only [show (1 / 4 % 2 == 1) = false from rfl, hdec, Bool.or_self, Bool.false_eq_true, ne_eq, not_true_eq_false,
    decide_false, ↓reduceIte, h12, hst, hbig, h10, hnfd, show ((1 : Nat) == 3) = false from rfl, hcs]

/-- **with that room, normalizing the result again succeeds and changes nothing** (both calls return EOK; the second needs no
more room than the first because NFD (NFC x) = NFD x) -/
theorem wcsnormS_nfc_twice_ok (fx : Fixes) (hfx : fx.compCast = true) (dmax dmax' : Nat) (src : List Nat)
    (hs : ∀ c ∈ src, c ≠ 0 ∧ c ≤ UniCompos.unicodeMax)
    (hmax : dmax ≤ RSIZE_MAX_WSTR) (hroom : (nfdPure src).length + 5 ≤ dmax)
    (hmax' : dmax' ≤ RSIZE_MAX_WSTR) (hroom' : (nfdPure src).length + 5 ≤ dmax') :
    (wcsnormS fx 1 dmax src).ret = 0 ∧ (wcsnormS fx 1 dmax' (wcsnormS fx 1 dmax src).out).ret = 0 ∧
    (wcsnormS fx 1 dmax' (wcsnormS fx 1 dmax src).out).out = (wcsnormS fx 1 dmax src).out := by
  have h0 : ∀ c ∈ src, c ≠ 0 := fun c hc => (hs c hc).1
  have h1 := wcsnormS_nfc_succeeds fx dmax src hs hmax hroom
  obtain ⟨e1, _, _, _⟩ := wcsnormS_nfc_spec fx dmax src h0 h1
  have hne := nfcPure_le src (fun c hc => ⟨(hs c hc).2, (hs c hc).1⟩)
  have h2 : (wcsnormS fx 1 dmax' (wcsnormS fx 1 dmax src).out).ret = 0 := by
    rw [e1, nfcPure_compCast hfx]
    apply wcsnormS_nfc_succeeds fx dmax' _ (fun c hc => ⟨(hne c hc).2, (hne c hc).1⟩) hmax'
    rw [nfdPure_nfcPure src (fun c hc => (hs c hc).2)]
    exact hroom'
  exact ⟨h1, h2, wcsnormS_nfc_twice fx hfx dmax dmax' src h0 h1 h2⟩

#print axioms wcsnormS_nfc_succeeds
#print axioms wcsnormS_nfc_twice_ok
end SafeC.Norm

import SafeC.Proofs.CopyLoop
/-!
# The bumper copy loop: functional behaviour when the source is disjoint from dest

`copyLoop_disjoint_gen` is the single induction; `copyLoop_disjoint` (unbounded) and
`copyLoop_disjoint_bounded` are its two instances.
-/
namespace SafeC
open Gen

/-- a NUL-terminated string of length `n` at `s`, mapped and declared readable -/
structure SrcStr (st : St) (s n : Nat) : Prop where
  nz : ∀ j, j < n → st.data (s+j) ≠ 0
  nul : st.data (s+n) = 0
  rd : ∀ j, j ≤ n → st.mapped (s+j) = true ∧ st.rd (s+j) = true

/-- what the disjoint copy loop guarantees (`m` = number of non-NUL characters copied) -/
def DisjPost (cfg : Cfg) (oD oM k d s m : Nat) (st st' : St) (code : Nat) : Prop :=
  st'.mapped = st.mapped ∧ st'.rd = st.rd ∧ st'.wr = st.wr ∧ st'.strays = st.strays ∧
  (∀ a, ¬ (oD ≤ a ∧ a < oD + oM) → st'.data a = st.data a) ∧
  (m < k → code = EOK ∧ st'.events = st.events ∧
    (∀ i, i < m → st'.data (d+i) = st.data (s+i)) ∧ st'.data (d+m) = 0 ∧
    (cfg.slack = true → ∀ i, m ≤ i → i < k → st'.data (d+i) = 0) ∧
    (∀ a, oD ≤ a → a < d → st'.data a = st.data a)) ∧
  (k ≤ m → code = ESNOSPC ∧ st'.events = st.events ++ [.handler .str ESNOSPC] ∧ st'.data oD = 0 ∧
    (cfg.slack = true → ∀ i, i < oM → st'.data (oD+i) = 0))

/-- the EOK exits (`m = 0`): the final state has a NUL at `d`, zeros on `[d, d+k)` with
null-slack, and is otherwise `st` -/
theorem disjPost_term (cfg : Cfg) (oD oM k d s : Nat) (st st' : St)
    (hinv : oD ≤ d ∧ d + (k+1) = oD + oM)
    (hmeta : SameMeta st' st)
    (h0 : st'.data d = 0)
    (hout : ∀ a, ¬ (d ≤ a ∧ a < d + (k+1)) → st'.data a = st.data a)
    (hslack : cfg.slack = true → ∀ a, d ≤ a → a < d + (k+1) → st'.data a = 0) :
    DisjPost cfg oD oM (k+1) d s 0 st st' EOK := by
  refine ⟨hmeta.mapped, hmeta.rd, hmeta.wr, hmeta.strays, ?_, ?_, ?_⟩
  · intro a ha; exact hout a (by omega)
  · intro _
    refine ⟨rfl, hmeta.events, ?_, ?_, ?_, ?_⟩
    · intro i hi; omega
    · simpa using h0
    · intro hs i _ hi; exact hslack hs (d+i) (by omega) (by omega)
    · intro a _ h2; exact hout a (by omega)
  · intro h; omega

/-- the single induction behind both theorems -/
theorem copyLoop_disjoint_gen (cfg : Cfg) (onDest bounded : Bool) (B oD oM : Nat) (hoM : 0 < oM)
    (k d s m slen : Nat) (st : St)
    (hrw : RW st oD oM) (hinv : oD ≤ d ∧ d + k = oD + oM)
    (hnz : ∀ j, j < m → st.data (s+j) ≠ 0)
    (hrd : ∀ j, j < m → st.mapped (s+j) = true ∧ st.rd (s+j) = true)
    (hfin : ((bounded = true → m < slen) ∧ st.data (s+m) = 0 ∧ st.mapped (s+m) = true ∧
              st.rd (s+m) = true) ∨ (bounded = true ∧ slen = m))
    (hdisj : ∀ j, j ≤ m → ¬ (oD ≤ s + j ∧ s + j < oD + oM))
    (hbump : ∀ i, i ≤ m → (if onDest then d + i else s + i) ≠ B) :
    ∃ code st', exec (copyLoop cfg onDest bounded B oD oM k d s slen) st = .ok (code, st') ∧
      DisjPost cfg oD oM k d s m st st' code := by
  induction k generalizing d s m slen st with
  | zero =>
    unfold copyLoop
    obtain ⟨st', he, hp⟩ := copy_fail_post cfg oD oM ESNOSPC st hrw hoM (Or.inr rfl)
    refine ⟨ESNOSPC, st', he, hp.mapped, hp.rd, hp.wr, hp.strays, hp.frame, ?_, ?_⟩
    · intro h; omega
    · intro _
      exact ⟨rfl, hp.fail_events ESNOSPC_ne_EOK, hp.fail_first ESNOSPC_ne_EOK,
        hp.fail_clear ESNOSPC_ne_EOK⟩
  | succ k ih =>
    unfold copyLoop
    have hb : ¬ (if onDest then d else s) = B := by
      have := hbump 0 (Nat.zero_le _)
      simpa using this
    simp only [hb, if_false]
    have hsub : RW st d (k+1) := by
      intro i hi
      have := hrw (d - oD + i) (by omega)
      have e : oD + (d - oD + i) = d + i := by omega
      rwa [e] at this
    have hdm : st.mapped d = true ∧ st.wr d = true ∧ st.rd d = true := hsub.head
    by_cases hsl : bounded = true ∧ slen = 0
    · -- truncation exit: nothing is read
      have hm0 : m = 0 := by
        rcases hfin with ⟨h, _⟩ | ⟨_, h⟩
        · have := h hsl.1; omega
        · omega
      subst hm0
      simp only [hsl, and_self, if_true]
      cases hcs : cfg.slack with
      | true =>
        obtain ⟨st', he, hm, hd⟩ := nullSlack_ok d (k+1) st hsub
        refine ⟨EOK, st', by simp [exec_bind, he], ?_⟩
        refine disjPost_term cfg oD oM k d s st st' hinv hm ?_ ?_ ?_
        · rw [hd d]; simp
        · intro a ha; rw [hd a]; simp only [ha, if_false]
        · intro _ a h1 h2; rw [hd a]
          have : d ≤ a ∧ a < d + (k+1) := ⟨h1, h2⟩
          simp only [this, and_self, if_true]
      | false =>
        refine ⟨EOK, st.upd d 0, by simp [exec_bind, exec_store_ok _ _ _ hdm.1 hdm.2.1], ?_⟩
        refine disjPost_term cfg oD oM k d s st _ hinv (SameMeta.upd _ _ _) (by simp) ?_ ?_
        · intro a ha; exact St.upd_data_ne _ _ _ _ (by omega)
        · intro h; rw [hcs] at h; cases h
    · simp only [hsl, if_false]
      have hs_m : st.mapped s = true ∧ st.rd s = true := by
        by_cases hm0 : m = 0
        · subst hm0
          rcases hfin with ⟨_, _, h2, h3⟩ | ⟨h1, h2⟩
          · exact ⟨by simpa using h2, by simpa using h3⟩
          · exact absurd ⟨h1, h2⟩ hsl
        · simpa using hrd 0 (by omega)
      simp only [exec_bind, exec_load_ok _ _ hs_m.1 hs_m.2, exec_store_ok _ _ _ hdm.1 hdm.2.1]
      by_cases hc : st.data s = 0
      · -- the terminator was copied
        have hm0 : m = 0 := by
          by_cases hm0 : m = 0
          · exact hm0
          · exact absurd hc (by simpa using hnz 0 (by omega))
        subst hm0
        simp only [hc, if_true]
        cases hcs : cfg.slack with
        | true =>
          simp only [if_true]
          obtain ⟨st', he, hm, hd⟩ :=
            nullSlack_ok d (k+1) (st.upd d 0) (RW.of_sameMeta (SameMeta.upd _ _ _) hsub)
          refine ⟨EOK, st', by simp [exec_bind, he], ?_⟩
          refine disjPost_term cfg oD oM k d s st st' hinv (hm.trans (SameMeta.upd st d 0)) ?_ ?_ ?_
          · rw [hd d]; simp
          · intro a ha; rw [hd a]; simp only [ha, if_false]
            exact St.upd_data_ne _ _ _ _ (by omega)
          · intro _ a h1 h2; rw [hd a]
            have : d ≤ a ∧ a < d + (k+1) := ⟨h1, h2⟩
            simp only [this, and_self, if_true]
        | false =>
          refine ⟨EOK, st.upd d 0, by simp, ?_⟩
          refine disjPost_term cfg oD oM k d s st _ hinv (SameMeta.upd _ _ _) (by simp) ?_ ?_
          · intro a ha; exact St.upd_data_ne _ _ _ _ (by omega)
          · intro h; rw [hcs] at h; cases h
      · -- a non-NUL character was copied: one more round
        simp only [hc, if_false]
        have hmpos : 0 < m := by
          apply Nat.pos_of_ne_zero
          intro hm0; subst hm0
          rcases hfin with ⟨_, h1, _, _⟩ | ⟨h1, h2⟩
          · exact hc (by simpa using h1)
          · exact hsl ⟨h1, h2⟩
        -- source cells are outside dest, `d` is inside: the store at `d` does not touch them
        have hsd : ∀ j, j ≤ m → s + j ≠ d := by
          intro j hj h
          have := hdisj j hj
          omega
        have hdata : ∀ j, j ≤ m - 1 → (st.upd d (st.data s)).data (s+1+j) = st.data (s+(j+1)) := by
          intro j hj
          have e : s + 1 + j = s + (j+1) := by omega
          rw [e]
          exact St.upd_data_ne _ _ _ _ (hsd (j+1) (by omega))
        obtain ⟨code, st', he, hp⟩ := ih (d+1) (s+1) (m-1) (slen-1) (st.upd d (st.data s))
          (RW.of_sameMeta (SameMeta.upd _ _ _) hrw) (by omega)
          (by intro j hj; rw [hdata j (by omega)]; exact hnz (j+1) (by omega))
          (by
            intro j hj
            have e : s + 1 + j = s + (j+1) := by omega
            rw [e]; exact hrd (j+1) (by omega))
          (by
            have e : s + 1 + (m-1) = s + m := by omega
            rcases hfin with ⟨h1, h2, h3, h4⟩ | ⟨h1, h2⟩
            · left
              refine ⟨fun hb => ?_, ?_, ?_, ?_⟩
              · have := h1 hb; omega
              · rw [hdata (m-1) (Nat.le_refl _)]
                have e' : s + (m - 1 + 1) = s + m := by omega
                rw [e']; exact h2
              · rw [e]; exact h3
              · rw [e]; exact h4
            · right; exact ⟨h1, by omega⟩)
          (by
            intro j hj
            have e : s + 1 + j = s + (j+1) := by omega
            rw [e]; exact hdisj (j+1) (by omega))
          (by
            intro i hi
            have e1 : d + 1 + i = d + (i+1) := by omega
            have e2 : s + 1 + i = s + (i+1) := by omega
            rw [e1, e2]; exact hbump (i+1) (by omega))
        obtain ⟨pm, pr, pw, ps, pframe, pok, pfail⟩ := hp
        refine ⟨code, st', he, pm, pr, pw, ps, ?_, ?_, ?_⟩
        · intro a ha
          rw [pframe a ha]
          exact St.upd_data_ne _ _ _ _ (by omega)
        · intro hmk
          obtain ⟨c1, c2, c3, c4, c5, c6⟩ := pok (by omega)
          refine ⟨c1, c2, ?_, ?_, ?_, ?_⟩
          · intro i hi
            by_cases hi0 : i = 0
            · subst hi0
              rw [Nat.add_zero, Nat.add_zero, c6 d hinv.1 (by omega)]
              simp
            · have := c3 (i-1) (by omega)
              have e1 : d + 1 + (i-1) = d + i := by omega
              rw [e1, hdata (i-1) (by omega)] at this
              have e2 : s + (i - 1 + 1) = s + i := by omega
              rw [e2] at this
              exact this
          · have e1 : d + 1 + (m-1) = d + m := by omega
            rw [e1] at c4; exact c4
          · intro hs i h1 h2
            have := c5 hs (i-1) (by omega) (by omega)
            have e1 : d + 1 + (i-1) = d + i := by omega
            rw [e1] at this; exact this
          · intro a h1 h2
            rw [c6 a h1 (by omega)]
            exact St.upd_data_ne _ _ _ _ (by omega)
        · intro hkm
          obtain ⟨c1, c2, c3, c4⟩ := pfail (by omega)
          exact ⟨c1, c2, c3, c4⟩

/-- unbounded loop (strcpy_s / strcat_s / wcscpy_s / wcscat_s): source string disjoint from dest -/
theorem copyLoop_disjoint (cfg : Cfg) (onDest : Bool) (B oD oM : Nat) (hoM : 0 < oM)
    (k d s n slen : Nat) (st : St)
    (hrw : RW st oD oM) (hinv : oD ≤ d ∧ d + k = oD + oM)
    (hsrc : SrcStr st s n)
    (hdisj : ∀ j, j ≤ n → ¬ (oD ≤ s + j ∧ s + j < oD + oM))
    (hbump : ∀ i, i ≤ n → (if onDest then d + i else s + i) ≠ B) :
    ∃ code st', exec (copyLoop cfg onDest false B oD oM k d s slen) st = .ok (code, st') ∧
      st'.mapped = st.mapped ∧ st'.rd = st.rd ∧ st'.wr = st.wr ∧ st'.strays = st.strays ∧
      (∀ a, ¬ (oD ≤ a ∧ a < oD + oM) → st'.data a = st.data a) ∧
      (n < k → code = EOK ∧ st'.events = st.events ∧
        (∀ i, i < n → st'.data (d+i) = st.data (s+i)) ∧ st'.data (d+n) = 0 ∧
        (cfg.slack = true → ∀ i, n ≤ i → i < k → st'.data (d+i) = 0) ∧
        (∀ a, oD ≤ a → a < d → st'.data a = st.data a)) ∧
      (k ≤ n → code = ESNOSPC ∧ st'.events = st.events ++ [.handler .str ESNOSPC] ∧ st'.data oD = 0 ∧
        (cfg.slack = true → ∀ i, i < oM → st'.data (oD+i) = 0)) :=
  copyLoop_disjoint_gen cfg onDest false B oD oM hoM k d s n slen st hrw hinv hsrc.nz
    (fun j hj => hsrc.rd j (Nat.le_of_lt hj))
    (Or.inl ⟨fun h => (by cases h), hsrc.nul, (hsrc.rd n (Nat.le_refl _)).1, (hsrc.rd n (Nat.le_refl _)).2⟩)
    hdisj hbump

/-- bounded loop (strncpy_s / strncat_s / wcsncpy_s / wcsncat_s): at most `slen` characters are
read; `m` = number of characters copied; either a NUL follows them before `slen` runs out
(`hfin` left) or `slen = m` (right) and then the cell `s+m` is NOT read (it need not even be mapped).
`hbump` covers index `m` too because the loop tests the bumper before it tests `slen == 0`. -/
theorem copyLoop_disjoint_bounded (cfg : Cfg) (onDest : Bool) (B oD oM : Nat) (hoM : 0 < oM)
    (k d s m slen : Nat) (st : St)
    (hrw : RW st oD oM) (hinv : oD ≤ d ∧ d + k = oD + oM)
    (hnz : ∀ j, j < m → st.data (s+j) ≠ 0)
    (hrd : ∀ j, j < m → st.mapped (s+j) = true ∧ st.rd (s+j) = true)
    (hfin : (m < slen ∧ st.data (s+m) = 0 ∧ st.mapped (s+m) = true ∧ st.rd (s+m) = true) ∨ slen = m)
    (hdisj : ∀ j, j ≤ m → ¬ (oD ≤ s + j ∧ s + j < oD + oM))
    (hbump : ∀ i, i ≤ m → (if onDest then d + i else s + i) ≠ B) :
    ∃ code st', exec (copyLoop cfg onDest true B oD oM k d s slen) st = .ok (code, st') ∧
      st'.mapped = st.mapped ∧ st'.rd = st.rd ∧ st'.wr = st.wr ∧ st'.strays = st.strays ∧
      (∀ a, ¬ (oD ≤ a ∧ a < oD + oM) → st'.data a = st.data a) ∧
      (m < k → code = EOK ∧ st'.events = st.events ∧
        (∀ i, i < m → st'.data (d+i) = st.data (s+i)) ∧ st'.data (d+m) = 0 ∧
        (cfg.slack = true → ∀ i, m ≤ i → i < k → st'.data (d+i) = 0) ∧
        (∀ a, oD ≤ a → a < d → st'.data a = st.data a)) ∧
      (k ≤ m → code = ESNOSPC ∧ st'.events = st.events ++ [.handler .str ESNOSPC] ∧ st'.data oD = 0 ∧
        (cfg.slack = true → ∀ i, i < oM → st'.data (oD+i) = 0)) :=
  copyLoop_disjoint_gen cfg onDest true B oD oM hoM k d s m slen st hrw hinv hnz hrd
    (hfin.elim (fun h => Or.inl ⟨fun _ => h.1, h.2⟩) (fun h => Or.inr ⟨rfl, h⟩))
    hdisj hbump

end SafeC

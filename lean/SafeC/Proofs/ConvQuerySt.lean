import SafeC.Proofs.ConvQuery
/-! C15: the query form of `mbsrtowcs` entered with a NON-initial (genuine) conversion state, on any terminated source -/
namespace SafeC.Conv.Libc

theorem body_incomplete_len (loc : Locale) (l : List Nat) (h : body loc l = .incomplete) : l.length < 6 := by
  cases l with
  | nil => simp
  | cons b rest =>
    cases loc
    · simp only [body, asciiBody] at h; split at h <;> cases h
    · simp only [body, utf8Body] at h
      split at h
      · cases h
      · split at h
        · cases h
        · rename_i cnt hi hl
          have hc : cnt ≤ 6 := by
            unfold lead at hl
            repeat' split at hl
            all_goals first | (cases hl; omega) | cases hl
          split at h
          · cases h
          · split at h
            · rename_i hlen
              simp only [List.length_take] at hlen
              simp only [List.length_cons]; omega
            · split at h <;> cases h

/-- completing a genuine pending state takes at least one more byte -/
theorem body_extend_ok (loc : Locale) (ps t : List Nat) (ch n : Nat) (hp : body loc ps = .incomplete) (hne : ps ≠ [])
    (h : body loc (ps ++ t) = .ok ch n) : ps.length < n := by
  cases ps with
  | nil => exact absurd rfl hne
  | cons b r =>
    cases loc
    · simp only [body, asciiBody] at hp; split at hp <;> cases hp
    · simp only [body, utf8Body, List.cons_append] at hp h
      split at hp
      · cases hp
      · rename_i hb
        rw [if_neg hb] at h
        split at hp
        · cases hp
        · rename_i cnt hi hl
          rw [hl] at h
          simp only at h
          have hrl : r.length < cnt - 1 := by
            split at hp
            · cases hp
            · split at hp
              · rename_i hlen; simp only [List.length_take] at hlen; omega
              · split at hp <;> cases hp
          split at h
          · cases h
          · split at h
            · cases h
            · split at h
              · cases h
              · cases h
                simp only [List.length_cons]; omega

/-- **query ⇒ valid, any genuine entry state** (`ps` initial or an incomplete sequence): if `mbsrtowcs(NULL, &src, _, ps)`
does not report an illegal sequence then `ps ++ source` is the encoding of some `ws` followed by the NUL, `ps` is a proper
prefix of the first character's encoding, and the value returned is `|ws|`; `*src` and `*ps` are not changed -/
theorem mbs_query_valid_st (loc : Locale) (mem : List Nat) (len : Nat) (ps : List Nat) (h0 : 0 ∈ mem)
    (hgen : ps = [] ∨ body loc ps = .incomplete)
    (hq : (mbsrtowcs loc true mem len ps).eilseq = false) :
    ∃ ws bs tail, ps ++ mem = bs ++ 0 :: tail ∧ encodeAll loc ws = some bs ∧ (∀ c ∈ ws, c ≠ 0) ∧ PendOK loc ps ws ∧
      mbsrtowcs loc true mem len ps = ⟨[], ws.length, some 0, ps, false⟩ := by
  by_cases hps : ps = []
  · subst hps
    obtain ⟨ws, bs, tail, h1, h2, h3, h4⟩ := mbs_query_valid loc mem len h0 hq
    exact ⟨ws, bs, tail, by simpa using h1, h2, h3, Or.inl rfl, h4⟩
  have hinc : body loc ps = .incomplete := hgen.resolve_left hps
  have hpsnz := body_incomplete_nz loc ps hinc hps
  have hps6 := body_incomplete_len loc ps hinc
  obtain ⟨s, tail, rfl, hs⟩ := mem_split_zero mem h0
  have hw : (s ++ 0 :: tail).take (strlen (s ++ 0 :: tail) + 1) = s ++ [0] := by
    rw [strlen_term s tail hs, take_term s tail _ (Nat.le_refl _), List.take_of_length_le (by simp)]
  have hpe : ps.isEmpty = false := by cases ps <;> simp_all
  obtain ⟨w, hwdef⟩ : ∃ w, w = s ++ [0] := ⟨_, rfl⟩
  have hwl : w.getLast? = some 0 := by rw [hwdef]; simp
  have hw0 : (0 : Nat) ∈ w := by rw [hwdef]; simp
  simp only [mbsrtowcs, ↓reduceIte, hw, ← hwdef] at hq ⊢
  have hsp : ¬ w.length + 1 = 0 := by omega
  cases hb : body loc (ps ++ w.take (6 - ps.length)) with
  | illegal =>
    simp [gconvMb, hpe, hb] at hq
  | incomplete =>
    exfalso
    have h6 := body_incomplete_len loc _ hb
    have htk : w.take (6 - ps.length) = w := by
      apply List.take_of_length_le
      simp only [List.length_append, List.length_take] at h6; omega
    rw [htk] at hb
    exact body_incomplete_nz loc _ hb (by simp [hps]) 0 (by simp [hw0]) rfl
  | ok ch n =>
    have hn := body_extend_ok loc ps _ ch n hinc hps hb
    obtain ⟨he, hnle, _⟩ := body_ok loc _ ch n hb
    obtain ⟨u, hu⟩ : ∃ u, u = n - ps.length := ⟨_, rfl⟩
    have hupos : 0 < u := by omega
    have hule : u ≤ w.length := by
      simp only [List.length_append, List.length_take] at hnle; omega
    have htake : (ps ++ w.take (6 - ps.length)).take n = ps ++ w.take u := by
      have hn' : n = ps.length + u := by omega
      rw [hn', List.take_append, List.take_of_length_le (by omega), List.take_take]
      have : ps.length + u - ps.length = u := by omega
      rw [this]
      have hm : min u (6 - ps.length) = u := by
        simp only [List.length_append, List.length_take] at hnle; omega
      rw [hm]
    rw [htake] at he
    have hg : gconvMb loc ps w (w.length + 1) =
        ⟨ch :: (mbMain loc (w.length + 1) (w.drop u) w.length).out, u + (mbMain loc (w.length + 1) (w.drop u) w.length).used,
          (mbMain loc (w.length + 1) (w.drop u) w.length).st, (mbMain loc (w.length + 1) (w.drop u) w.length).status⟩ := by
      simp [gconvMb, hpe, hb, ← hu]
    rw [hg] at hq ⊢
    obtain ⟨i1, i2, i3, i4⟩ := mbMain_sound loc (w.length + 1) (w.drop u) w.length (by simp only [List.length_drop]; omega)
    generalize mbMain loc (w.length + 1) (w.drop u) w.length = r at *
    simp only at hq ⊢
    have hst : r.status = .empty := by
      cases hr : r.status with
      | empty => rfl
      | full => have := i2 hr; simp only [List.length_drop] at i3; omega
      | illegal => simp [hr] at hq
      | incomplete =>
        obtain ⟨pre, suf, h1, h2, h3⟩ := i4 hr
        have hnz := body_incomplete_nz loc suf h3 h1
        obtain ⟨b, hb'⟩ : ∃ b, suf.getLast? = some b := by
          cases h : suf.getLast? with
          | none => exact absurd (List.getLast?_eq_none_iff.mp h) h1
          | some b => exact ⟨b, rfl⟩
        have hl : (w.take u ++ w.drop u).getLast? = some 0 := by rw [List.take_append_drop]; exact hwl
        rw [h2, ← List.append_assoc, List.getLast?_append, hb'] at hl
        have : b = 0 := by simpa [Option.or] using hl
        subst this
        exact absurd rfl (hnz 0 (List.mem_of_getLast? hb'))
    have henc : encodeAll loc (ch :: r.out) = some ((ps ++ s) ++ [0]) := by
      rw [encodeAll_cons loc ch r.out _ _ he (i1 hst), List.append_assoc, List.take_append_drop, hwdef, List.append_assoc]
    have hnzps : ∀ b ∈ ps ++ s, b ≠ 0 := by
      intro b hb'
      rcases List.mem_append.mp hb' with h | h
      · exact hpsnz b h
      · exact hs b h
    obtain ⟨ws, hout, hws, hnz⟩ := encodeAll_term_inv loc (ch :: r.out) (ps ++ s) henc hnzps
    have hpend : PendOK loc ps ws := by
      cases ws with
      | nil =>
        exfalso
        have : ps ++ s = [] := by simpa [encodeAll] using hws.symm
        simp at this; exact hps this.1
      | cons c cs =>
        have hc : c = ch := by simp at hout; exact hout.1.symm
        subst hc
        refine Or.inr ⟨c, cs, w.take u, rfl, he, hps, ?_⟩
        intro h
        have := congrArg List.length h
        simp only [List.length_take, List.length_nil] at this; omega
    refine ⟨ws, ps ++ s, tail, by simp, hws, hnz, hpend, ?_⟩
    have hlen : (ch :: r.out).length = ws.length + 1 := by rw [hout]; simp
    simp only [List.length_cons] at hlen
    simp [hst]; omega

end SafeC.Conv.Libc

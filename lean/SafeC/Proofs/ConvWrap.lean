import SafeC.Models.Conv
/-! C15: the destination object and what libc stores into it -/
namespace SafeC.Conv
open SafeC.Gen

theorem overlay_length (old new : List Nat) : (overlay old new).length = old.length := by
  simp only [overlay, List.length_append, List.length_take, List.length_drop]; omega

theorem D.write_length (d : D) (off : Nat) (vs : List Nat) : (d.write off vs).cells.length = d.cells.length := by
  unfold D.write
  split
  · rfl
  · simp only [List.length_append, List.length_take, overlay_length, List.length_drop]; omega

theorem D.write_fault (d : D) (off : Nat) (vs : List Nat) (hf : d.fault = false) (h : off + vs.length ≤ d.cells.length) :
    (d.write off vs).fault = false := by
  unfold D.write
  split
  · exact hf
  · simp [hf]; omega

theorem D.write_hi (d : D) (off : Nat) (vs : List Nat) (n : Nat) (hh : d.hi ≤ n) (h : off + vs.length ≤ n) :
    (d.write off vs).hi ≤ n := by
  unfold D.write
  split
  · exact hh
  · simp; omega

/-- cells of a store that stays inside the object -/
theorem D.write_cells (d : D) (off : Nat) (vs : List Nat) (h : off + vs.length ≤ d.cells.length) :
    (d.write off vs).cells = d.cells.take off ++ vs ++ d.cells.drop (off + vs.length) := by
  unfold D.write
  split
  · rename_i he
    have : vs = [] := by simpa using he
    subst this; simp
  · simp only [overlay, List.length_drop]
    have : List.take (d.cells.length - off) vs = vs := by
      apply List.take_of_length_le; omega
    rw [this, List.drop_drop]
    simp [List.append_assoc]

theorem D.zero_fault (d : D) (off n : Nat) (hf : d.fault = false) (h : off + n ≤ d.cells.length) : (d.zero off n).fault = false := by
  unfold D.zero; exact D.write_fault d off _ hf (by simpa using h)

theorem D.zero_hi (d : D) (off n m : Nat) (hh : d.hi ≤ m) (h : off + n ≤ m) : (d.zero off n).hi ≤ m := by
  unfold D.zero; exact D.write_hi d off _ m hh (by simpa using h)

theorem D.zero_length (d : D) (off n : Nat) : (d.zero off n).cells.length = d.cells.length := by
  unfold D.zero; exact D.write_length d off _

theorem D.zero_cells (d : D) (off n : Nat) (h : off + n ≤ d.cells.length) :
    (d.zero off n).cells = d.cells.take off ++ List.replicate n 0 ++ d.cells.drop (off + n) := by
  unfold D.zero
  rw [D.write_cells d off _ (by simpa using h)]; simp


/-- cells after "libc stored `out` at dest[0..), then the wrapper zeroed `n ≥ 1` cells from index `k`" -/
theorem stored_then_zeroed (cells out : List Nat) (k n : Nat) (hk : k ≤ out.length) (ho : out.length ≤ k + 1)
    (hn : 1 ≤ n) (hfit : k + n ≤ cells.length) :
    let d := (({ cells := cells } : D).write 0 out).zero k n
    d.fault = false ∧ d.hi ≤ k + n ∧ d.cells.length = cells.length ∧ d.cells.take k = out.take k ∧
      (∀ i, k ≤ i → i < k + n → d.cells[i]? = some 0) := by
  intro d
  have h1 : 0 + out.length ≤ ({ cells := cells } : D).cells.length := by simp; omega
  have hw := D.write_cells { cells := cells } 0 out h1
  have hwl := D.write_length { cells := cells } 0 out
  have hwf := D.write_fault { cells := cells } 0 out rfl h1
  have hwh := D.write_hi { cells := cells } 0 out (k + n) (by simp) (by omega)
  have h2 : k + n ≤ (({ cells := cells } : D).write 0 out).cells.length := by rw [hwl]; exact hfit
  refine ⟨D.zero_fault _ k n hwf h2, D.zero_hi _ k n (k + n) hwh (Nat.le_refl _), ?_, ?_, ?_⟩
  · rw [D.zero_length, hwl]
  · rw [D.zero_cells _ k n h2, hw]
    simp only [List.take_zero, List.nil_append, Nat.zero_add]
    have hl : (List.take k (out ++ List.drop out.length cells)).length = k := by
      simp only [List.length_take, List.length_append, List.length_drop]; omega
    rw [List.append_assoc, List.take_append_of_le_length (by omega)]
    rw [List.take_take, Nat.min_self, List.take_append_of_le_length hk]
  · intro i hi1 hi2
    rw [D.zero_cells _ k n h2]
    have hl : (List.take k (({ cells := cells } : D).write 0 out).cells).length = k := by
      rw [List.length_take, hwl]; simp; omega
    rw [List.append_assoc, List.getElem?_append_right (by omega), hl]
    rw [List.getElem?_append_left (by simp; omega)]
    rw [List.getElem?_replicate]
    split
    · rfl
    · omega


/-- cells after "libc stored `out` (possibly beyond the object), then the wrapper cleared" -/
theorem stored_then_cleared (slack : Bool) (cells out : List Nat) (dmax : Nat) (h0 : 0 < dmax) (hfit : dmax ≤ cells.length) :
    let d := clearCells slack (({ cells := cells } : D).write 0 out) dmax
    d.cells.length = cells.length ∧ d.cells[0]? = some 0 ∧ (slack = true → ∀ i, i < dmax → d.cells[i]? = some 0) := by
  intro d
  have hwl := D.write_length { cells := cells } 0 out
  cases slack with
  | true =>
    have h2 : 0 + dmax ≤ (({ cells := cells } : D).write 0 out).cells.length := by rw [hwl]; simpa using hfit
    have hc : d.cells = List.replicate dmax 0 ++ List.drop dmax (({ cells := cells } : D).write 0 out).cells := by
      show (D.zero _ 0 dmax).cells = _
      rw [D.zero_cells _ 0 dmax h2]; simp
    refine ⟨?_, ?_, ?_⟩
    · show (D.zero _ 0 dmax).cells.length = _
      rw [D.zero_length, hwl]
    · rw [hc, List.getElem?_append_left (by simpa using h0), List.getElem?_replicate]; simp [h0]
    · intro _ i hi
      rw [hc, List.getElem?_append_left (by simpa using hi), List.getElem?_replicate]; simp [hi]
  | false =>
    have h2 : 0 + 1 ≤ (({ cells := cells } : D).write 0 out).cells.length := by rw [hwl]; simp; omega
    have hc : d.cells = List.replicate 1 0 ++ List.drop 1 (({ cells := cells } : D).write 0 out).cells := by
      show (D.zero _ 0 1).cells = _
      rw [D.zero_cells _ 0 1 h2]; simp
    refine ⟨?_, ?_, ?_⟩
    · show (D.zero _ 0 1).cells.length = _
      rw [D.zero_length, hwl]
    · rw [hc]; simp
    · intro h; cases h

/-- `Delivered o cells dmax r`: the call succeeded and dest holds exactly what libc produced, terminated, nothing
stored outside `dest[0..dmax)` -/
structure Delivered (o : Out) (cells : List Nat) (dmax : Nat) (r : Libc.LR) (term : Bool) : Prop where
  ret : o.ret = EOK
  retval : o.retval = some r.ret
  noHandler : o.ev = []
  dest : ∃ d, o.dest = some d ∧ d.fault = false ∧ d.hi ≤ dmax ∧ d.cells.length = cells.length ∧
    d.cells.take r.ret = r.out.take r.ret ∧ (term = true → d.cells[r.ret]? = some 0)

/-- `Reported o cells dmax slack`: failure: handler called once with the code returned, dest cleared -/
structure Reported (o : Out) (cells : List Nat) (dmax : Nat) (slack : Bool) : Prop where
  handler : o.ev = [o.ret]
  cleared : ∃ d, o.dest = some d ∧ d.cells.length = cells.length ∧ d.cells[0]? = some 0 ∧
    (slack = true → ∀ i, i < dmax → d.cells[i]? = some 0)

theorem tailW_ok (cfg : Cfg) (a : SArgs) (r : Libc.LR) (e : Nat) (q : Unit → Nat × Bool) (cells : List Nat)
    (hd : a.dest = some cells) (hdm : a.dmax ≤ cells.length) (hlt : r.ret < a.dmax)
    (hge : r.ret ≤ r.out.length) (hle : r.out.length ≤ r.ret + 1) :
    Delivered (tailW cfg a r e q) cells a.dmax r true ∧ (tailW cfg a r e q).src = r.src ∧ (tailW cfg a r e q).st = r.st := by
  have hmk : mkD a = some { cells := cells } := by simp [mkD, hd]
  have htail : tailW cfg a r e q =
      { ret := EOK, retval := some r.ret, src := r.src, st := r.st,
        dest := some ((({ cells := cells } : D).write 0 r.out).zero r.ret (if cfg.slack then a.dmax - r.ret else 1)) } := by
    cases hs : cfg.slack <;> simp [tailW, hlt, hmk, hs]
  rw [htail]
  obtain ⟨n, hn, hn1, hn2⟩ : ∃ n, (if cfg.slack then a.dmax - r.ret else 1) = n ∧ 1 ≤ n ∧ r.ret + n ≤ a.dmax :=
    ⟨_, rfl, by split <;> omega, by split <;> omega⟩
  rw [hn]
  have key := stored_then_zeroed cells r.out r.ret n hge hle hn1 (by omega)
  have := key.2.1
  exact ⟨⟨rfl, rfl, rfl, _, rfl, key.1, by omega, key.2.2.1, key.2.2.2.1, fun _ => key.2.2.2.2 r.ret (Nat.le_refl _) (by omega)⟩, rfl, rfl⟩

theorem tailW_err (cfg : Cfg) (a : SArgs) (r : Libc.LR) (e : Nat) (q : Unit → Nat × Bool) (cells : List Nat)
    (hd : a.dest = some cells) (h0 : 0 < a.dmax) (hdm : a.dmax ≤ cells.length) (hlt : ¬ r.ret < a.dmax) :
    Reported (tailW cfg a r e q) cells a.dmax cfg.slack ∧ (tailW cfg a r e q).retval = some r.ret ∧
      (cfg.fx.rc = true → (tailW cfg a r e q).ret = if r.ret = SIZE_MAX then EILSEQ else ESNOSPC) := by
  have hmk : mkD a = some { cells := cells } := by simp [mkD, hd]
  have key := stored_then_cleared cfg.slack cells r.out a.dmax h0 hdm
  obtain ⟨rc, hrc, hfx⟩ : ∃ rc, tailW cfg a r e q =
      { ret := rc, retval := some r.ret, src := r.src, st := r.st, ev := [rc],
        dest := some (clearCells cfg.slack (({ cells := cells } : D).write 0 r.out) a.dmax) } ∧
      (cfg.fx.rc = true → rc = if r.ret = SIZE_MAX then EILSEQ else ESNOSPC) := by
    refine ⟨_, by simp only [tailW, hlt, ↓reduceIte, hmk, Option.map_some]; rfl, ?_⟩
    intro h; simp [h]
  rw [hrc]
  exact ⟨⟨rfl, _, rfl, key.1, key.2.1, key.2.2⟩, rfl, hfx⟩

theorem tailB_ok (cfg : Cfg) (a : SArgs) (r : Libc.LR) (term : Bool) (cells : List Nat)
    (hd : a.dest = some cells) (hdm : a.dmax ≤ cells.length) (hlt : r.ret < a.dmax) (hpos : 0 < r.ret ∨ cfg.fx.zero = true)
    (hge : r.ret ≤ r.out.length) (hle : r.out.length ≤ r.ret + 1) :
    Delivered (tailB cfg a r term) cells a.dmax r (cfg.slack || term) ∧ (tailB cfg a r term).src = r.src := by
  have hmk : mkD a = some { cells := cells } := by simp [mkD, hd]
  have hc : (decide (r.ret > 0) || cfg.fx.zero) = true := by
    cases hpos with
    | inl h => simp [h]
    | inr h => simp [h]
  by_cases hz : (cfg.slack || term) = true
  · have htail : tailB cfg a r term =
        { ret := EOK, retval := some r.ret, src := r.src, st := [],
          dest := some ((({ cells := cells } : D).write 0 r.out).zero r.ret (if cfg.slack then a.dmax - r.ret else 1)) } := by
      cases hs : cfg.slack <;> cases ht : term <;> simp_all [tailB]
    rw [htail]
    obtain ⟨n, hn, hn1, hn2⟩ : ∃ n, (if cfg.slack then a.dmax - r.ret else 1) = n ∧ 1 ≤ n ∧ r.ret + n ≤ a.dmax :=
      ⟨_, rfl, by split <;> omega, by split <;> omega⟩
    rw [hn]
    have key := stored_then_zeroed cells r.out r.ret n hge hle hn1 (by omega)
    have := key.2.1
    exact ⟨⟨rfl, rfl, rfl, _, rfl, key.1, by omega, key.2.2.1, key.2.2.2.1, fun _ => key.2.2.2.2 r.ret (Nat.le_refl _) (by omega)⟩, rfl⟩
  · have hs : cfg.slack = false := by cases h : cfg.slack <;> simp_all
    have ht : term = false := by cases h : term <;> simp_all
    have h1 : 0 + r.out.length ≤ ({ cells := cells } : D).cells.length := by simp; omega
    have hw := D.write_cells { cells := cells } 0 r.out h1
    have htail : tailB cfg a r term =
        { ret := EOK, retval := some r.ret, src := r.src, st := [], dest := some (({ cells := cells } : D).write 0 r.out) } := by
      simp [tailB, hlt, hc, hmk, hs, ht]
    rw [htail]
    refine ⟨⟨rfl, rfl, rfl, _, rfl, D.write_fault _ 0 _ rfl h1, D.write_hi _ 0 _ _ (by simp) (by omega), D.write_length _ 0 _, ?_, ?_⟩, rfl⟩
    · rw [hw]; simp only [List.take_zero, List.nil_append, Nat.zero_add]
      rw [List.take_append_of_le_length hge]
    · intro h; simp [hs, ht] at h

theorem tailB_err (cfg : Cfg) (a : SArgs) (r : Libc.LR) (term : Bool) (cells : List Nat)
    (hd : a.dest = some cells) (h0 : 0 < a.dmax) (hdm : a.dmax ≤ cells.length)
    (hlt : ¬ ((0 < r.ret ∨ cfg.fx.zero = true) ∧ r.ret < a.dmax)) :
    Reported (tailB cfg a r term) cells a.dmax cfg.slack ∧ (tailB cfg a r term).retval = some r.ret ∧
      (cfg.fx.rc = true → (tailB cfg a r term).ret = if r.ret = SIZE_MAX then EILSEQ else ESNOSPC) := by
  have hmk : mkD a = some { cells := cells } := by simp [mkD, hd]
  have key := stored_then_cleared cfg.slack cells r.out a.dmax h0 hdm
  have hc : ((decide (r.ret > 0) || cfg.fx.zero) && decide (r.ret < a.dmax)) = false := by
    cases hb : ((decide (r.ret > 0) || cfg.fx.zero) && decide (r.ret < a.dmax)) with
    | false => rfl
    | true =>
      exfalso; apply hlt
      simp only [Bool.and_eq_true, Bool.or_eq_true, decide_eq_true_eq] at hb
      exact ⟨hb.1, hb.2⟩
  obtain ⟨rc, hrc, hfx⟩ : ∃ rc, tailB cfg a r term =
      { ret := rc, retval := some r.ret, src := r.src, ev := [rc],
        dest := some (clearCells cfg.slack (({ cells := cells } : D).write 0 r.out) a.dmax) } ∧
      (cfg.fx.rc = true → rc = if r.ret = SIZE_MAX then EILSEQ else ESNOSPC) := by
    refine ⟨_, by simp only [tailB, hc, Bool.false_eq_true, ↓reduceIte, hmk, Option.map_some]; rfl, ?_⟩
    intro h; simp [h]
  rw [hrc]
  exact ⟨⟨rfl, _, rfl, key.1, key.2.1, key.2.2⟩, rfl, hfx⟩


/-- nothing stored outside `dest[0..dmax)`, no fault -/
def NoOverflow (o : Out) (dmax : Nat) : Prop := ∃ d, o.dest = some d ∧ d.fault = false ∧ d.hi ≤ dmax

theorem clearCells_safe (slack : Bool) (d : D) (dmax : Nat) (h0 : 0 < dmax) (hf : d.fault = false) (hh : d.hi ≤ dmax)
    (hl : dmax ≤ d.cells.length) : (clearCells slack d dmax).fault = false ∧ (clearCells slack d dmax).hi ≤ dmax := by
  cases slack with
  | true => exact ⟨D.zero_fault d 0 dmax hf (by omega), D.zero_hi d 0 dmax dmax hh (by omega)⟩
  | false => exact ⟨D.zero_fault d 0 1 hf (by omega), D.zero_hi d 0 1 dmax hh (by omega)⟩

theorem tailW_safe (cfg : Cfg) (a : SArgs) (r : Libc.LR) (e : Nat) (q : Unit → Nat × Bool) (cells : List Nat)
    (hd : a.dest = some cells) (h0 : 0 < a.dmax) (hdm : a.dmax ≤ cells.length) (hout : r.out.length ≤ a.dmax) :
    NoOverflow (tailW cfg a r e q) a.dmax := by
  have hmk : mkD a = some { cells := cells } := by simp [mkD, hd]
  have h1 : 0 + r.out.length ≤ ({ cells := cells } : D).cells.length := by simp; omega
  have hwf := D.write_fault { cells := cells } 0 r.out rfl h1
  have hwh := D.write_hi { cells := cells } 0 r.out a.dmax (by simp) (by omega)
  have hwl := D.write_length { cells := cells } 0 r.out
  by_cases hlt : r.ret < a.dmax
  · cases hs : cfg.slack with
    | true =>
      refine ⟨_, by simp [tailW, hlt, hmk, hs]; rfl, D.zero_fault _ _ _ hwf (by rw [hwl]; simp; omega), D.zero_hi _ _ _ _ hwh (by omega)⟩
    | false =>
      refine ⟨_, by simp [tailW, hlt, hmk, hs]; rfl, D.zero_fault _ _ _ hwf (by rw [hwl]; simp; omega), D.zero_hi _ _ _ _ hwh (by omega)⟩
  · have key := clearCells_safe cfg.slack _ a.dmax h0 hwf hwh (by rw [hwl]; simpa using hdm)
    exact ⟨_, by simp only [tailW, hlt, ↓reduceIte, hmk, Option.map_some], key.1, key.2⟩

theorem tailB_safe (cfg : Cfg) (a : SArgs) (r : Libc.LR) (term : Bool) (cells : List Nat)
    (hd : a.dest = some cells) (h0 : 0 < a.dmax) (hdm : a.dmax ≤ cells.length) (hout : r.out.length ≤ a.dmax) :
    NoOverflow (tailB cfg a r term) a.dmax := by
  have hmk : mkD a = some { cells := cells } := by simp [mkD, hd]
  have h1 : 0 + r.out.length ≤ ({ cells := cells } : D).cells.length := by simp; omega
  have hwf := D.write_fault { cells := cells } 0 r.out rfl h1
  have hwh := D.write_hi { cells := cells } 0 r.out a.dmax (by simp) (by omega)
  have hwl := D.write_length { cells := cells } 0 r.out
  by_cases hc : ((decide (r.ret > 0) || cfg.fx.zero) && decide (r.ret < a.dmax)) = true
  · have hlt : r.ret < a.dmax := by
      simp only [Bool.and_eq_true, decide_eq_true_eq] at hc; exact hc.2
    cases hs : cfg.slack with
    | true =>
      refine ⟨_, by simp only [tailB, hc, ↓reduceIte, hmk, Option.map_some, hs]; rfl, D.zero_fault _ _ _ hwf (by rw [hwl]; simp; omega), D.zero_hi _ _ _ _ hwh (by omega)⟩
    | false =>
      cases ht : term with
      | true =>
        refine ⟨_, by simp only [tailB, hc, ↓reduceIte, hmk, Option.map_some, hs, Bool.false_eq_true]; rfl, D.zero_fault _ _ _ hwf (by rw [hwl]; simp; omega), D.zero_hi _ _ _ _ hwh (by omega)⟩
      | false =>
        exact ⟨_, by simp only [tailB, hc, ↓reduceIte, hmk, Option.map_some, hs, Bool.false_eq_true], hwf, hwh⟩
  · have key := clearCells_safe cfg.slack _ a.dmax h0 hwf hwh (by rw [hwl]; simpa using hdm)
    exact ⟨_, by simp only [tailB, hc, Bool.false_eq_true, ↓reduceIte, hmk, Option.map_some], key.1, key.2⟩

end SafeC.Conv

import SafeC.Proofs.ConvDecode
/-! C15: string-level facts shared by the window-loop proofs: `encodeAll` over `++`/`take`, encodings of non-zero
characters contain no zero byte, `strnlen`/`strlen` of a terminated string. -/
namespace SafeC.Conv.Libc

theorem encodeAll_cons (loc : Locale) (c : Nat) (cs : List Nat) (a b : List Nat) (ha : enc loc c = some a)
    (hb : encodeAll loc cs = some b) : encodeAll loc (c :: cs) = some (a ++ b) := by
  simp [encodeAll, ha, hb]

theorem encodeAll_cons_inv (loc : Locale) (c : Nat) (cs : List Nat) (e : List Nat) (h : encodeAll loc (c :: cs) = some e) :
    ∃ a b, enc loc c = some a ∧ encodeAll loc cs = some b ∧ e = a ++ b := by
  simp only [encodeAll] at h
  split at h
  · rename_i a b ha hb; cases h; exact ⟨a, b, ha, hb, rfl⟩
  · cases h

theorem encodeAll_append (loc : Locale) (a b ea eb : List Nat) (ha : encodeAll loc a = some ea)
    (hb : encodeAll loc b = some eb) : encodeAll loc (a ++ b) = some (ea ++ eb) := by
  induction a generalizing ea with
  | nil => cases ha; simpa using hb
  | cons c cs ih =>
    obtain ⟨x, y, hx, hy, rfl⟩ := encodeAll_cons_inv loc c cs ea ha
    rw [List.cons_append, encodeAll_cons loc c (cs ++ b) x (y ++ eb) hx (ih y hy), List.append_assoc]

theorem encodeAll_append_inv (loc : Locale) (a b e : List Nat) (h : encodeAll loc (a ++ b) = some e) :
    ∃ ea eb, encodeAll loc a = some ea ∧ encodeAll loc b = some eb ∧ e = ea ++ eb := by
  induction a generalizing e with
  | nil => exact ⟨[], e, rfl, by simpa using h, rfl⟩
  | cons c cs ih =>
    rw [List.cons_append] at h
    obtain ⟨x, y, hx, hy, rfl⟩ := encodeAll_cons_inv loc c _ e h
    obtain ⟨ea, eb, h1, h2, rfl⟩ := ih y hy
    exact ⟨x ++ ea, eb, encodeAll_cons loc c cs x ea hx h1, h2, by simp⟩

/-- the encoding of a prefix is a prefix of the encoding -/
theorem encodeAll_take (loc : Locale) (ws E : List Nat) (h : encodeAll loc ws = some E) (k : Nat) :
    ∃ p q, encodeAll loc (ws.take k) = some p ∧ encodeAll loc (ws.drop k) = some q ∧ E = p ++ q := by
  rw [← List.take_append_drop k ws] at h
  exact encodeAll_append_inv loc _ _ E h

theorem enc_zero (loc : Locale) : enc loc 0 = some [0] := by cases loc <;> rfl

theorem enc_length_le (loc : Locale) (c : Nat) (e : List Nat) (h : enc loc c = some e) : e.length ≤ 6 := by
  cases loc
  · simp only [enc, asciiEnc] at h; split at h <;> cases h; simp
  · simp only [enc, utf8Enc] at h
    repeat' split at h
    all_goals first | (cases h; simp) | cases h

/-- the encoding of a non-zero character contains no zero byte -/
theorem enc_no_zero (loc : Locale) (c : Nat) (e : List Nat) (h : enc loc c = some e) (hc : c ≠ 0) : ∀ b ∈ e, b ≠ 0 := by
  cases loc
  · simp only [enc, asciiEnc] at h; split at h <;> cases h; simpa using hc
  · simp only [enc, utf8Enc] at h
    repeat' split at h
    all_goals first | (cases h; done) | (cases h; simp; try omega)

theorem encodeAll_no_zero (loc : Locale) (ws E : List Nat) (h : encodeAll loc ws = some E) (hz : ∀ c ∈ ws, c ≠ 0) :
    ∀ b ∈ E, b ≠ 0 := by
  induction ws generalizing E with
  | nil => cases h; simp
  | cons c cs ih =>
    obtain ⟨x, y, hx, hy, rfl⟩ := encodeAll_cons_inv loc c cs E h
    intro b hb
    rcases List.mem_append.mp hb with hb | hb
    · exact enc_no_zero loc c x hx (hz c (by simp)) b hb
    · exact ih y hy (fun d hd => hz d (by simp [hd])) b hb

theorem encodeAll_length_ge (loc : Locale) (ws E : List Nat) (h : encodeAll loc ws = some E) : ws.length ≤ E.length := by
  induction ws generalizing E with
  | nil => simp
  | cons c cs ih =>
    obtain ⟨x, y, hx, hy, rfl⟩ := encodeAll_cons_inv loc c cs E h
    have := enc_length_pos loc c x hx
    have := ih y hy
    simp only [List.length_cons, List.length_append]; omega

theorem encodeAll_length_le (loc : Locale) (ws E : List Nat) (h : encodeAll loc ws = some E) : E.length ≤ 6 * ws.length := by
  induction ws generalizing E with
  | nil => cases h; simp
  | cons c cs ih =>
    obtain ⟨x, y, hx, hy, rfl⟩ := encodeAll_cons_inv loc c cs E h
    have := enc_length_le loc c x hx
    have := ih y hy
    simp only [List.length_cons, List.length_append]; omega

/-! ### `strlen` / `strnlen` of `s ++ 0 :: tail` with no zero in `s` -/

theorem takeWhile_nz (s tail : List Nat) (hz : ∀ b ∈ s, b ≠ 0) : (s ++ 0 :: tail).takeWhile (· != 0) = s := by
  induction s with
  | nil => simp
  | cons x xs ih =>
    have hx : (x != 0) = true := by simpa using hz x (by simp)
    rw [List.cons_append, List.takeWhile_cons, if_pos hx, ih (fun b hb => hz b (by simp [hb]))]

theorem takeWhile_nz_all (s : List Nat) (hz : ∀ b ∈ s, b ≠ 0) : s.takeWhile (· != 0) = s := by
  induction s with
  | nil => simp
  | cons x xs ih =>
    have hx : (x != 0) = true := by simpa using hz x (by simp)
    rw [List.takeWhile_cons, if_pos hx, ih (fun b hb => hz b (by simp [hb]))]

theorem strlen_term (s tail : List Nat) (hz : ∀ b ∈ s, b ≠ 0) : strlen (s ++ 0 :: tail) = s.length := by
  unfold strlen; rw [takeWhile_nz s tail hz]

theorem strnlen_term (s tail : List Nat) (hz : ∀ b ∈ s, b ≠ 0) (n : Nat) :
    strnlen (s ++ 0 :: tail) n = min n s.length := by
  unfold strnlen
  by_cases h : n ≤ s.length
  · rw [List.take_append_of_le_length h, takeWhile_nz_all _ (fun b hb => hz b (List.mem_of_mem_take hb))]
    simp
  · have h' : s.length < n := by omega
    obtain ⟨k, rfl⟩ : ∃ k, n = s.length + (k + 1) := ⟨n - s.length - 1, by omega⟩
    rw [List.take_append, List.take_of_length_le (by omega)]
    have : s.length + (k + 1) - s.length = k + 1 := by omega
    rw [this, List.take_succ_cons, takeWhile_nz s _ hz]
    omega

/-- the window `take (k+1)` of a terminated string, `k ≤ |s|` -/
theorem take_term (s tail : List Nat) (k : Nat) (hk : k ≤ s.length) :
    (s ++ 0 :: tail).take (k + 1) = (s ++ [0]).take (k + 1) := by
  have : s ++ 0 :: tail = (s ++ [0]) ++ tail := by simp
  rw [this, List.take_append_of_le_length (by simp; omega)]

end SafeC.Conv.Libc

import SafeC.Models.Timing
/-!
# Reentrancy: disjoint footprints commute under every interleaving (C12)

Two `Prog`s are run as two threads whose atomic steps (`step`: one `load`, `store` or `emit`) are
interleaved by an arbitrary schedule on ONE shared memory.  `interleave_disjoint`: if the cells the
two runs touch (`Within`) are disjoint, every schedule that lets both finish gives each thread the
result it has when run alone (`runT`) and leaves in each cell what the thread owning it leaves when
run alone.

The bridge to the guarded semantics (`exec`, with faults and stray recording) is `within_of_clean`:
a run that neither faults nor records a new stray touches declared cells only, so the footprint
hypothesis of `interleave_disjoint` is discharged by the existing "no stray access" theorems
(`strcpyG_disjoint`, …); `exec_eq_runT` identifies the guarded run with the total one.

Values, `Within` and `runT` depend on a state through `St.data` only: the congruence lemmas relate
states by `AgreeOn` (agreement of `data` on a set of cells) and say nothing about
`mapped/rd/wr/events/strays`.
-/
namespace SafeC

/-- one atomic step of a thread (total semantics: mapping ignored, as in `runT`) -/
def step : Prog α → St → Prog α × St
  | .ret x, s => (.ret x, s)
  | .load a k, s => (k (s.data a), s)
  | .store a v k, s => (k, s.upd a v)
  | .emit e k, s => (k, { s with events := s.events ++ [e] })

def done : Prog α → Bool
  | .ret _ => true
  | _ => false

/-- every access of the run of `p` from `s` is at a cell in `F` -/
def Within (F : Nat → Prop) : Prog α → St → Prop
  | .ret _, _ => True
  | .load a k, s => F a ∧ Within F (k (s.data a)) s
  | .store a v k, s => F a ∧ Within F k (s.upd a v)
  | .emit e k, s => Within F k { s with events := s.events ++ [e] }

/-- schedule: `true` = thread A takes a step, `false` = thread B -/
def runSched : List Bool → Prog α → Prog β → St → Prog α × Prog β × St
  | [], pa, pb, s => (pa, pb, s)
  | true :: sch, pa, pb, s => let (pa', s') := step pa s; runSched sch pa' pb s'
  | false :: sch, pa, pb, s => let (pb', s') := step pb s; runSched sch pa pb' s'

/-! ## states related through `data` only -/

/-- the two memories agree on the cells of `F` (nothing is said about permissions, events, strays) -/
def AgreeOn (F : Nat → Prop) (s s' : St) : Prop := ∀ a, F a → s.data a = s'.data a

theorem AgreeOn.refl (F : Nat → Prop) (s : St) : AgreeOn F s s := fun _ _ => rfl

theorem AgreeOn.of_data_eq {F : Nat → Prop} {s s' : St} (h : s.data = s'.data) : AgreeOn F s s' :=
  fun a _ => by rw [h]

theorem AgreeOn.upd {F : Nat → Prop} {s s' : St} (h : AgreeOn F s s') (a v : Nat) :
    AgreeOn F (s.upd a v) (s'.upd a v) := by
  intro x hx
  simp only [St.upd_data]
  split
  · rfl
  · exact h x hx

/-- a store outside `F` is invisible on `F` -/
theorem AgreeOn.upd_left {F : Nat → Prop} (s : St) (a v : Nat) (ha : ¬ F a) :
    AgreeOn F (s.upd a v) s := by
  intro x hx
  simp only [St.upd_data]
  split
  · next h => subst h; exact absurd hx ha
  · rfl

theorem within_mono {F G : Nat → Prop} (hFG : ∀ a, F a → G a) (p : Prog α) (s : St) :
    Within F p s → Within G p s := by
  induction p generalizing s with
  | ret x => intro _; trivial
  | load a k ih => intro ⟨hf, hw⟩; exact ⟨hFG a hf, ih _ s hw⟩
  | store a v k ih => intro ⟨hf, hw⟩; exact ⟨hFG a hf, ih _ hw⟩
  | emit e k ih => intro hw; exact ih _ hw

/-- the footprint of a run depends only on the `F`-part of the initial memory -/
theorem within_congr {F : Nat → Prop} (p : Prog α) (s s' : St) (h : AgreeOn F s s') :
    Within F p s → Within F p s' := by
  induction p generalizing s s' with
  | ret x => intro _; trivial
  | load a k ih =>
    intro ⟨hf, hw⟩
    refine ⟨hf, ?_⟩
    rw [← h a hf]
    exact ih (s.data a) s s' h hw
  | store a v k ih =>
    intro ⟨hf, hw⟩
    exact ⟨hf, ih _ _ (h.upd a v) hw⟩
  | emit e k ih =>
    intro hw
    exact ih { s with events := s.events ++ [e] } { s' with events := s'.events ++ [e] }
      (fun a ha => h a ha) hw

/-- outside its footprint a run leaves the memory alone -/
theorem runT_frame {F : Nat → Prop} (p : Prog α) (s : St) (hw : Within F p s) :
    ∀ a, ¬ F a → (runT p s).2.data a = s.data a := by
  induction p generalizing s with
  | ret x => intro a _; rfl
  | load a k ih => intro x hx; exact ih (s.data a) s hw.2 x hx
  | store a v k ih =>
    intro x hx
    have := ih (s.upd a v) hw.2 x hx
    simp only [runT]
    rw [this]
    exact AgreeOn.upd_left (F := fun y => ¬ F y) s a v (fun h => h hw.1) x hx
  | emit e k ih => intro x hx; exact ih _ hw x hx

/-- result and `F`-part of the final memory depend only on the `F`-part of the initial memory -/
theorem runT_congr {F : Nat → Prop} (p : Prog α) (s s' : St) (h : AgreeOn F s s')
    (hw : Within F p s) :
    (runT p s).1 = (runT p s').1 ∧ AgreeOn F (runT p s).2 (runT p s').2 := by
  induction p generalizing s s' with
  | ret x => exact ⟨rfl, h⟩
  | load a k ih =>
    simp only [runT]
    rw [← h a hw.1]
    exact ih (s.data a) s s' h hw.2
  | store a v k ih =>
    simp only [runT]
    exact ih (s.upd a v) (s'.upd a v) (h.upd a v) hw.2
  | emit e k ih =>
    simp only [runT]
    exact ih _ _ (fun a ha => h a ha) hw

/-- `runT` looks at `data` only: replacing `mapped/rd/wr/events/strays` changes neither the result
nor the final memory -/
theorem runT_data_congr (p : Prog α) (s s' : St) (h : s.data = s'.data) :
    (runT p s).1 = (runT p s').1 ∧ (runT p s).2.data = (runT p s').2.data := by
  induction p generalizing s s' with
  | ret x => exact ⟨rfl, h⟩
  | load a k ih =>
    simp only [runT]
    rw [h]
    exact ih _ s s' h
  | store a v k ih =>
    simp only [runT]
    refine ih (s.upd a v) (s'.upd a v) ?_
    funext x; simp only [St.upd_data, h]
  | emit e k ih =>
    simp only [runT]
    exact ih _ _ h

/-- `Within` looks at `data` only -/
theorem within_data_congr {F : Nat → Prop} (p : Prog α) (s s' : St) (h : s.data = s'.data) :
    Within F p s → Within F p s' :=
  within_congr p s s' (AgreeOn.of_data_eq h)

/-! ## the interleaving theorem -/

/-- **Reentrancy.** Two programs whose footprints FA, FB have no common cell, run under ANY
schedule that lets both finish: each returns what it returns when run alone, and each cell of the
final memory is what the program owning it leaves when run alone (cells of neither are untouched). -/
theorem interleave_disjoint {FA FB : Nat → Prop} (hdisj : ∀ a, FA a → FB a → False)
    (sch : List Bool) (pa : Prog α) (pb : Prog β) (s : St)
    (ha : Within FA pa s) (hb : Within FB pb s)
    (hfin : done (runSched sch pa pb s).1 = true ∧ done (runSched sch pa pb s).2.1 = true) :
    ∃ ra rb, (runSched sch pa pb s).1 = .ret ra ∧ (runSched sch pa pb s).2.1 = .ret rb ∧
      ra = (runT pa s).1 ∧ rb = (runT pb s).1 ∧
      (∀ a, FA a → (runSched sch pa pb s).2.2.data a = (runT pa s).2.data a) ∧
      (∀ a, FB a → (runSched sch pa pb s).2.2.data a = (runT pb s).2.data a) ∧
      (∀ a, ¬ FA a → ¬ FB a → (runSched sch pa pb s).2.2.data a = s.data a) := by
  induction sch generalizing pa pb s with
  | nil =>
    simp only [runSched] at hfin ⊢
    cases pa with
    | ret ra =>
      cases pb with
      | ret rb =>
        exact ⟨ra, rb, rfl, rfl, rfl, rfl, fun _ _ => rfl, fun _ _ => rfl, fun _ _ _ => trivial⟩
      | load _ _ => simp [done] at hfin
      | store _ _ _ => simp [done] at hfin
      | emit _ _ => simp [done] at hfin
    | load _ _ => simp [done] at hfin
    | store _ _ _ => simp [done] at hfin
    | emit _ _ => simp [done] at hfin
  | cons b sch ih =>
    cases b with
    | true =>
      cases pa with
      | ret ra =>
        simp only [runSched, step] at hfin ⊢
        exact ih (.ret ra) pb s ha hb hfin
      | load a k =>
        simp only [runSched, step] at hfin ⊢
        exact ih (k (s.data a)) pb s ha.2 hb hfin
      | store a v k =>
        simp only [runSched, step] at hfin ⊢
        -- A's store is outside FB: invisible to B
        have hag : AgreeOn FB (s.upd a v) s := AgreeOn.upd_left s a v (fun h => hdisj a ha.1 h)
        have hb' : Within FB pb (s.upd a v) :=
          within_congr pb s _ (fun x hx => (hag x hx).symm) hb
        obtain ⟨ra, rb, e1, e2, e3, e4, e5, e6, e7⟩ := ih k pb (s.upd a v) ha.2 hb' hfin
        have hc := runT_congr pb _ _ hag hb'
        refine ⟨ra, rb, e1, e2, e3, ?_, e5, ?_, ?_⟩
        · rw [e4]; exact hc.1
        · intro x hx; rw [e6 x hx]; exact hc.2 x hx
        · intro x hxa hxb
          rw [e7 x hxa hxb]
          exact AgreeOn.upd_left (F := fun y => ¬ FA y) s a v (fun h => h ha.1) x hxa
      | emit e k =>
        simp only [runSched, step] at hfin ⊢
        have hag : AgreeOn FB { s with events := s.events ++ [e] } s := fun _ _ => rfl
        have hb' : Within FB pb { s with events := s.events ++ [e] } :=
          within_congr pb s _ (fun _ _ => rfl) hb
        obtain ⟨ra, rb, e1, e2, e3, e4, e5, e6, e7⟩ :=
          ih k pb { s with events := s.events ++ [e] } ha hb' hfin
        have hc := runT_congr pb _ _ hag hb'
        refine ⟨ra, rb, e1, e2, e3, ?_, e5, ?_, e7⟩
        · rw [e4]; exact hc.1
        · intro x hx; rw [e6 x hx]; exact hc.2 x hx
    | false =>
      cases pb with
      | ret rb =>
        simp only [runSched, step] at hfin ⊢
        exact ih pa (.ret rb) s ha hb hfin
      | load a k =>
        simp only [runSched, step] at hfin ⊢
        exact ih pa (k (s.data a)) s ha hb.2 hfin
      | store a v k =>
        simp only [runSched, step] at hfin ⊢
        have hag : AgreeOn FA (s.upd a v) s := AgreeOn.upd_left s a v (fun h => hdisj a h hb.1)
        have ha' : Within FA pa (s.upd a v) :=
          within_congr pa s _ (fun x hx => (hag x hx).symm) ha
        obtain ⟨ra, rb, e1, e2, e3, e4, e5, e6, e7⟩ := ih pa k (s.upd a v) ha' hb.2 hfin
        have hc := runT_congr pa _ _ hag ha'
        refine ⟨ra, rb, e1, e2, ?_, e4, ?_, e6, ?_⟩
        · rw [e3]; exact hc.1
        · intro x hx; rw [e5 x hx]; exact hc.2 x hx
        · intro x hxa hxb
          rw [e7 x hxa hxb]
          exact AgreeOn.upd_left (F := fun y => ¬ FB y) s a v (fun h => h hb.1) x hxb
      | emit e k =>
        simp only [runSched, step] at hfin ⊢
        have hag : AgreeOn FA { s with events := s.events ++ [e] } s := fun _ _ => rfl
        have ha' : Within FA pa { s with events := s.events ++ [e] } :=
          within_congr pa s _ (fun _ _ => rfl) ha
        obtain ⟨ra, rb, e1, e2, e3, e4, e5, e6, e7⟩ :=
          ih pa k { s with events := s.events ++ [e] } ha' hb hfin
        have hc := runT_congr pa _ _ hag ha'
        refine ⟨ra, rb, e1, e2, ?_, e4, ?_, e6, e7⟩
        · rw [e3]; exact hc.1
        · intro x hx; rw [e5 x hx]; exact hc.2 x hx

/-! ## bridge from the guarded semantics -/

theorem St.noteRd_data (s : St) (a : Nat) : (s.noteRd a).data = s.data := by
  simp only [St.noteRd]; split <;> rfl

theorem St.noteWr_data (s : St) (a : Nat) : (s.noteWr a).data = s.data := by
  simp only [St.noteWr]; split <;> rfl

/-- a list does not equal itself with something non-empty appended -/
theorem strays_grow_absurd {l : List Access} {x : Access} {e : List Access}
    (h : (l ++ [x]) ++ e = l) : False := by
  have := congrArg List.length h
  simp at this

/-- generalised form of `within_of_clean` for the induction: the permission fields are constant
along a run, so they are named once and for all -/
theorem within_of_clean_aux (rd wr : Nat → Bool) (p : Prog α) (s : St) {r : α} {s' : St}
    (hrd : s.rd = rd) (hwr : s.wr = wr)
    (h : exec p s = .ok (r, s')) (hs : s'.strays = s.strays) :
    Within (fun a => rd a = true ∨ wr a = true) p s := by
  induction p generalizing s with
  | ret x => trivial
  | load a k ih =>
    simp only [exec] at h
    split at h
    · by_cases hr : s.rd a = true
      · have e : s.noteRd a = s := by simp [St.noteRd, hr]
        rw [e] at h
        exact ⟨Or.inl (by rw [← hrd]; exact hr), ih _ s hrd hwr h hs⟩
      · exfalso
        have e : s.noteRd a = s.stray (.rd a) := by simp [St.noteRd, hr]
        rw [e] at h
        obtain ⟨ex, hex⟩ := exec_strays_mono _ _ h
        simp only [St.stray] at hex
        rw [hs] at hex
        exact strays_grow_absurd hex.symm
    · cases h
  | store a v k ih =>
    simp only [exec] at h
    split at h
    · by_cases hw : s.wr a = true
      · have e : s.noteWr a = s := by simp [St.noteWr, hw]
        rw [e] at h
        exact ⟨Or.inr (by rw [← hwr]; exact hw), ih (s.upd a v) hrd hwr h hs⟩
      · exfalso
        have e : s.noteWr a = s.stray (.wr a) := by simp [St.noteWr, hw]
        rw [e] at h
        obtain ⟨ex, hex⟩ := exec_strays_mono _ _ h
        simp only [St.stray, St.upd_strays] at hex
        rw [hs] at hex
        exact strays_grow_absurd hex.symm
    · cases h
  | emit e k ih =>
    simp only [exec] at h
    exact ih _ hrd hwr h hs

/-- bridge from the guarded semantics: a run that faults nowhere and records no new stray access
touches only cells the caller declared (readable or writable) -/
theorem within_of_clean (p : Prog α) (s : St) {r : α} {s' : St}
    (h : exec p s = .ok (r, s')) (hs : s'.strays = s.strays) :
    Within (fun a => s.rd a = true ∨ s.wr a = true) p s :=
  within_of_clean_aux s.rd s.wr p s rfl rfl h hs

/-- the guarded run from `s` and the total run from any `t` with the same memory agree -/
theorem exec_eq_runT_aux (p : Prog α) (s t : St) {r : α} {s' : St} (hd : s.data = t.data)
    (h : exec p s = .ok (r, s')) :
    (runT p t).1 = r ∧ (runT p t).2.data = s'.data := by
  induction p generalizing s t with
  | ret x =>
    simp [exec] at h
    obtain ⟨rfl, rfl⟩ := h
    exact ⟨rfl, hd.symm⟩
  | load a k ih =>
    simp only [exec] at h
    split at h
    · simp only [runT]
      rw [← hd]
      exact ih _ (s.noteRd a) t (by rw [St.noteRd_data]; exact hd) h
    · cases h
  | store a v k ih =>
    simp only [exec] at h
    split at h
    · simp only [runT]
      refine ih ((s.noteWr a).upd a v) (t.upd a v) ?_ h
      funext x
      simp only [St.upd_data, St.noteWr_data, hd]
    · cases h
  | emit e k ih =>
    simp only [exec] at h
    simp only [runT]
    exact ih { s with events := s.events ++ [e] } { t with events := t.events ++ [e] } hd h

/-- and then the guarded run and the total run agree on result and memory
(`hs` is not needed: a stray access is performed, it is only recorded) -/
theorem exec_eq_runT (p : Prog α) (s : St) {r : α} {s' : St} (h : exec p s = .ok (r, s'))
    (_hs : s'.strays = s.strays) :
    (runT p s).1 = r ∧ (runT p s).2.data = s'.data :=
  exec_eq_runT_aux p s s rfl h

end SafeC

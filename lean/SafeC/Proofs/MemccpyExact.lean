import SafeC.Proofs.MemccpyOverlap
/-!
# `memccpy_s`: the copy loop up to the stop character

`memccpyLoop_found`: the first `m` source bytes are not the stop character, byte `m < n` is: the loop returns EOK with
`dest[0..m) = src[0..m)`; WITHOUT null-slack `dest[m]` is the stop character and nothing else changed; WITH null-slack
the clear `mem_prim_set(dp, n, 0)` starts AT the copied stop character: `dest[m..n)` are zero (`memccpy-stop-char-zeroed`).
-/
namespace SafeC
open Gen Mem

theorem memccpyLoop_found (cfg : Cfg) (c : Int) (oD oM : Nat) (m : Nat) :
    ∀ (k dp sp n : Nat) (st : St), m < n → n ≤ k → n < U32 → RW st dp k → RD st sp n →
      (∀ i, i < n → ∀ j, j < k → sp + i ≠ dp + j) →
      (∀ i, i < m → ((st.data (sp+i) : Nat) : Int) ≠ c) → ((st.data (sp+m) : Nat) : Int) = c →
      ∃ st', exec (memccpyLoop cfg c oD oM k dp sp n) st = .ok (EOK, st') ∧ SameMeta st' st ∧
        (∀ i, i < m → st'.data (dp+i) = st.data (sp+i)) ∧
        (cfg.slack = false → st'.data (dp+m) = st.data (sp+m) ∧
          ∀ a, ¬ (dp ≤ a ∧ a ≤ dp + m) → st'.data a = st.data a) ∧
        (cfg.slack = true → (∀ i, m ≤ i → i < n → st'.data (dp+i) = 0) ∧
          ∀ a, ¬ (dp ≤ a ∧ a < dp + n) → st'.data a = st.data a) := by
  induction m with
  | zero =>
    intro k dp sp n st hmn hnk hn32 hw hr hdj _ hstop
    obtain ⟨k, rfl⟩ : ∃ k', k = k' + 1 := ⟨k - 1, by omega⟩
    have hn0 : n ≠ 0 := by omega
    have hs := hr 0 (by omega)
    have hd := hw 0 (by omega)
    simp only [Nat.add_zero] at hs hd hstop
    unfold memccpyLoop
    simp only [hn0, if_false, exec_bind, exec_load_ok _ _ hs.1 hs.2, exec_store_ok _ _ _ hd.1 hd.2.1]
    have hl : exec (load dp) (st.upd dp (st.data sp)) = .ok (st.data sp, st.upd dp (st.data sp)) := by
      rw [exec_load_ok _ _ (by simpa using hd.1) (by simpa using hd.2.2)]; simp
    simp only [hl, hstop, if_true]
    cases hcs : cfg.slack with
    | false =>
      refine ⟨st.upd dp (st.data sp), by simp, SameMeta.upd _ _ _, (fun i hi => by omega), ?_, (fun h => by cases h)⟩
      intro _
      exact ⟨by simp, fun a ha => St.upd_data_ne _ _ _ _ (by omega)⟩
    | true =>
      have hmod : n % U32 = n := Nat.mod_eq_of_lt hn32
      obtain ⟨s1, he, hf⟩ := mem_prim_set_ok dp n 0 (st.upd dp (st.data sp))
        (by rw [hmod]; exact RW.of_sameMeta (SameMeta.upd _ _ _) (hw.sub (Nat.le_refl _) (by omega)))
      rw [hmod] at hf
      refine ⟨s1, by simp [exec_bind, he], hf.same.trans (SameMeta.upd _ _ _), fun i hi => by omega, (fun h => by cases h), ?_⟩
      intro _
      refine ⟨fun i _ hi => ?_, fun a ha => ?_⟩
      · rw [hf.data, if_pos (by omega)]
      · rw [hf.data, if_neg ha]; exact St.upd_data_ne _ _ _ _ (by omega)
  | succ m ih =>
    intro k dp sp n st hmn hnk hn32 hw hr hdj hns hstop
    obtain ⟨k, rfl⟩ : ∃ k', k = k' + 1 := ⟨k - 1, by omega⟩
    have hn0 : n ≠ 0 := by omega
    have hs := hr 0 (by omega)
    have hd := hw 0 (by omega)
    have h0 := hns 0 (by omega)
    simp only [Nat.add_zero] at hs hd h0
    unfold memccpyLoop
    simp only [hn0, if_false, exec_bind, exec_load_ok _ _ hs.1 hs.2, exec_store_ok _ _ _ hd.1 hd.2.1]
    have hl : exec (load dp) (st.upd dp (st.data sp)) = .ok (st.data sp, st.upd dp (st.data sp)) := by
      rw [exec_load_ok _ _ (by simpa using hd.1) (by simpa using hd.2.2)]; simp
    simp only [hl, h0, if_false]
    have hdata : ∀ i, i < n - 1 → (st.upd dp (st.data sp)).data (sp + 1 + i) = st.data (sp + (i+1)) := by
      intro i hi
      have e : sp + 1 + i = sp + (i+1) := by omega
      rw [e]
      exact St.upd_data_ne _ _ _ _ (by have := hdj (i+1) (by omega) 0 (by omega); omega)
    obtain ⟨st', he, hm, hcp, hns', hsl'⟩ := ih k (dp+1) (sp+1) (n-1) (st.upd dp (st.data sp)) (by omega) (by omega) (by omega)
      (RW.of_sameMeta (SameMeta.upd _ _ _) hw.tail)
      (RD.of_sameMeta (SameMeta.upd _ _ _) (fun i hi => by
        have := hr (i+1) (by omega)
        have e : sp + 1 + i = sp + (i+1) := by omega
        rw [e]; exact this))
      (by intro i hi j hj; have := hdj (i+1) (by omega) (j+1) (by omega); omega)
      (by intro i hi; rw [hdata i (by omega)]; exact hns (i+1) (by omega))
      (by rw [hdata m (by omega)]; exact hstop)
    refine ⟨st', he, hm.trans (SameMeta.upd _ _ _), ?_, ?_, ?_⟩
    · intro i hi
      by_cases hi0 : i = 0
      · subst hi0
        have : st'.data dp = (st.upd dp (st.data sp)).data dp := by
          cases hcs : cfg.slack with
          | false => exact (hns' hcs).2 dp (by omega)
          | true => exact (hsl' hcs).2 dp (by omega)
        simpa using this
      · have := hcp (i-1) (by omega)
        have e1 : dp + 1 + (i-1) = dp + i := by omega
        rw [e1, hdata (i-1) (by omega)] at this
        have e2 : sp + (i - 1 + 1) = sp + i := by omega
        rw [e2] at this; exact this
    · intro hcs
      obtain ⟨a1, a2⟩ := hns' hcs
      have e1 : dp + 1 + m = dp + (m+1) := by omega
      rw [e1, hdata m (by omega)] at a1
      refine ⟨a1, fun a ha => ?_⟩
      rw [a2 a (by omega)]
      exact St.upd_data_ne _ _ _ _ (by omega)
    · intro hcs
      obtain ⟨a1, a2⟩ := hsl' hcs
      refine ⟨fun i h1 h2 => ?_, fun a ha => ?_⟩
      · have := a1 (i-1) (by omega) (by omega)
        have e1 : dp + 1 + (i-1) = dp + i := by omega
        rw [e1] at this; exact this
      · rw [a2 a (by omega)]
        exact St.upd_data_ne _ _ _ _ (by omega)

/-- `memccpy_s`, valid arguments, disjoint operands, the stop character first occurs at index `m < n` -/
theorem memccpy_s_found (cfg : Cfg) (dest dmax src c n m : Nat) (st : St)
    (hd : dest ≠ 0) (hs : src ≠ 0) (hmn : m < n) (hle : n ≤ dmax) (hmax : dmax ≤ RSIZE_MAX_MEM)
    (hw : RW st dest dmax) (hr : RD st src n) (ha1 : src + n < U64) (ha2 : dest + dmax < U64)
    (hno : ¬ ((src ≤ dest ∧ dest < src + n) ∨ (dest < src ∧ src < dest + dmax)))
    (hns : ∀ i, i < m → ((st.data (src+i) : Nat) : Int) ≠ asInt c) (hstop : ((st.data (src+m) : Nat) : Int) = asInt c) :
    ∃ st', exec (memccpy_s cfg dest dmax src c n none none) st = .ok (EOK, st') ∧ SameMeta st' st ∧
      (∀ i, i < m → st'.data (dest+i) = st.data (src+i)) ∧
      (cfg.slack = false → st'.data (dest+m) = st.data (src+m) ∧
        ∀ a, ¬ (dest ≤ a ∧ a ≤ dest + m) → st'.data a = st.data a) ∧
      (cfg.slack = true → (∀ i, m ≤ i → i < n → st'.data (dest+i) = 0) ∧
        ∀ a, ¬ (dest ≤ a ∧ a < dest + n) → st'.data a = st.data a) := by
  have hlt := RSIZE_MAX_MEM_lt_U32'
  have h1 : n ≠ 0 := by omega
  have h2 : dmax ≠ 0 := by omega
  have h3 : ¬ dmax > RSIZE_MAX_MEM := by omega
  have h4 : ¬ n > dmax := by omega
  have hov : ovrlp 1 dest dmax src n = false := by
    cases h : ovrlp 1 dest dmax src n with
    | false => rfl
    | true => exact absurd ((ovrlp_one dest dmax src n ha1 ha2).1 h) hno
  obtain ⟨st', he, rest⟩ := memccpyLoop_found cfg (asInt c) dest dmax m dmax dest src n st hmn hle (by omega) hw hr
    (by intro i hi j hj; omega) hns hstop
  refine ⟨st', ?_, rest⟩
  simp only [memccpy_s, hd, h2, chkDmaxMemB, h3, h1, hs, h4, hov, if_false, Bool.false_eq_true]
  exact he

end SafeC

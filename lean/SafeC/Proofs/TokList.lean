/-!
# The tokenizing specification on lists (C14)

Pure reference for `strtok_s` / `wcstok_s`, independent of the machine and of the models:

* `tokensP d s` — the maximal delimiter-free substrings of `s` (delimiter set `ds`), in order; its meaning is
  fixed by the four parsing equations `tokensP_nil`, `tokens_delim`, `tokens_last`, `tokens_cons` (every
  string over delimiters / non-delimiters is parsed by exactly one chain of them) and by `tokens_sound`;
* `refSeq dss off s` — what successive calls hand back, ONE DELIMITER SET PER CALL (`dss`), on the string `s`
  that starts at offset `off` of the original string: per call the token with its offset (or none), the
  offset of the continuation point, and the offset of the delimiter that is overwritten (or none);
* `refSeq_replicate` — with one delimiter set throughout, the tokens of `refSeq` are `tokens`, each once, in
  order, then `none` forever.
-/
namespace SafeC.TokSpec

/-! ## maximal delimiter-free substrings -/

/-- `cur`: the characters of the token being collected -/
def tokensFrom (d : Nat → Bool) : List Nat → List Nat → List (List Nat)
  | cur, [] => if cur = [] then [] else [cur]
  | cur, c :: s =>
    if d c then (if cur = [] then tokensFrom d [] s else cur :: tokensFrom d [] s)
    else tokensFrom d (cur ++ [c]) s

/-- the maximal delimiter-free substrings of `s`, in order -/
def tokensP (d : Nat → Bool) (s : List Nat) : List (List Nat) := tokensFrom d [] s

/-- `t` contains no delimiter -/
def Free (d : Nat → Bool) (t : List Nat) : Prop := ∀ c ∈ t, d c = false

theorem tokensFrom_free (d : Nat → Bool) (cur t rest : List Nat) (ht : Free d t) :
    tokensFrom d cur (t ++ rest) = tokensFrom d (cur ++ t) rest := by
  induction t generalizing cur with
  | nil => simp
  | cons c t ih =>
    have hc : d c = false := ht c (by simp)
    simp only [List.cons_append, tokensFrom, hc, Bool.false_eq_true, if_false]
    rw [ih _ (fun x hx => ht x (by simp [hx]))]
    simp

@[simp] theorem tokensP_nil (d : Nat → Bool) : tokensP d [] = [] := by simp [tokensP, tokensFrom]

/-- a leading delimiter is skipped -/
theorem tokensP_delim (d : Nat → Bool) (x : Nat) (s : List Nat) (hd : d x = true) :
    tokensP d (x :: s) = tokensP d s := by
  simp [tokensP, tokensFrom, hd]

/-- a non-empty delimiter-free string is one token -/
theorem tokensP_last (d : Nat → Bool) (t : List Nat) (hne : t ≠ []) (ht : Free d t) : tokensP d t = [t] := by
  have := tokensFrom_free d [] t [] ht
  simp only [List.append_nil, List.nil_append] at this
  simp [tokensP, this, tokensFrom, hne]

/-- a non-empty delimiter-free run followed by a delimiter is a token; parsing goes on behind the delimiter -/
theorem tokensP_cons (d : Nat → Bool) (t : List Nat) (x : Nat) (s : List Nat) (hne : t ≠ []) (ht : Free d t)
    (hd : d x = true) : tokensP d (t ++ x :: s) = t :: tokensP d s := by
  have := tokensFrom_free d [] t (x :: s) ht
  simp only [List.nil_append] at this
  simp [tokensP, this, tokensFrom, hd, hne]

theorem mem_takeWhile_true (p : Nat → Bool) (l : List Nat) : ∀ c ∈ l.takeWhile p, p c = true := by
  induction l with
  | nil => intro c hc; simp at hc
  | cons a l ih =>
    intro c hc
    by_cases ha : p a = true
    · rw [List.takeWhile_cons_of_pos ha] at hc
      rcases List.mem_cons.mp hc with rfl | hc
      · exact ha
      · exact ih c hc
    · rw [List.takeWhile_cons_of_neg ha] at hc; simp at hc

/-- the first element left by `dropWhile` fails the test -/
theorem dropWhile_head_false (p : Nat → Bool) (l : List Nat) (c : Nat) (r : List Nat)
    (h : l.dropWhile p = c :: r) : p c = false := by
  induction l with
  | nil => simp at h
  | cons a l ih =>
    by_cases ha : p a = true
    · rw [List.dropWhile_cons_of_pos ha] at h; exact ih h
    · rw [List.dropWhile_cons_of_neg ha] at h
      simp only [List.cons.injEq] at h
      rw [← h.1]; simpa using ha

theorem free_takeWhile (d : Nat → Bool) (s : List Nat) : Free d (s.takeWhile (fun c => !d c)) := by
  intro c hc
  have := mem_takeWhile_true (fun c => !d c) s c hc
  simpa using this

/-- skipping the leading delimiters does not change the tokens -/
theorem tokensP_dropWhile (d : Nat → Bool) (s : List Nat) : tokensP d (s.dropWhile d) = tokensP d s := by
  induction s with
  | nil => rfl
  | cons c s ih =>
    by_cases hc : d c = true
    · rw [List.dropWhile_cons_of_pos hc, ih, tokensP_delim d c s hc]
    · rw [List.dropWhile_cons_of_neg hc]

/-- the general parsing step: behind the leading delimiters, the next token is the longest delimiter-free
prefix; parsing goes on behind the delimiter that ends it -/
theorem tokensP_step (d : Nat → Bool) (s : List Nat) (hne : s.dropWhile d ≠ []) :
    tokensP d s =
      (s.dropWhile d).takeWhile (fun c => !d c) ::
        tokensP d (((s.dropWhile d).dropWhile (fun c => !d c)).drop 1) := by
  rw [← tokensP_dropWhile d s]
  generalize hs1 : s.dropWhile d = s1 at hne ⊢
  have hhead : ∀ c rest, s1 = c :: rest → d c = false := by
    intro c rest h
    exact dropWhile_head_false d s c rest (hs1.trans h)
  have hsplit := List.takeWhile_append_dropWhile (p := fun c => !d c) (l := s1)
  have hfree := free_takeWhile d s1
  have htne : s1.takeWhile (fun c => !d c) ≠ [] := by
    cases s1 with
    | nil => exact absurd rfl hne
    | cons c rest => simp [hhead c rest rfl]
  cases h2 : s1.dropWhile (fun c => !d c) with
  | nil =>
    rw [h2, List.append_nil] at hsplit
    rw [hsplit]
    simp [tokensP_last d s1 hne (hsplit ▸ hfree)]
  | cons x rest =>
    have hd : d x = true := by
      have := dropWhile_head_false (fun c => !d c) s1 x rest h2
      simpa using this
    conv => lhs; rw [← hsplit, h2]
    rw [tokensP_cons d _ x rest htne hfree hd]
    simp

/-- soundness of `tokens`: every token is non-empty and delimiter-free, and removing the delimiters from
`s` leaves exactly the characters of the tokens, in order, each once -/
theorem tokensP_sound (d : Nat → Bool) (s : List Nat) :
    (∀ t ∈ tokensP d s, t ≠ [] ∧ Free d t) ∧
    (tokensP d s).flatten = s.filter (fun c => !d c) := by
  suffices h : ∀ cur, Free d cur →
      (∀ t ∈ tokensFrom d cur s, t ≠ [] ∧ Free d t) ∧
      (tokensFrom d cur s).flatten = cur ++ s.filter (fun c => !d c) by
    simpa [tokensP] using h [] (by intro c hc; simp at hc)
  induction s with
  | nil =>
    intro cur hcur
    by_cases h : cur = []
    · simp [tokensFrom, h]
    · simp [tokensFrom, h, hcur]
  | cons c s ih =>
    intro cur hcur
    by_cases hc : d c = true
    · have ih0 := ih [] (by intro x hx; simp at hx)
      by_cases h : cur = []
      · simp only [tokensFrom, hc, h, if_true]
        simpa [List.filter_cons, hc] using ih0
      · simp only [tokensFrom, hc, h, if_true, if_false]
        refine ⟨?_, ?_⟩
        · intro t ht
          rcases List.mem_cons.mp ht with rfl | ht
          · exact ⟨h, hcur⟩
          · exact ih0.1 t ht
        · simp [hc, ih0.2]
    · have hc' : d c = false := by simpa using hc
      have ih1 := ih (cur ++ [c]) (by
        intro x hx
        rcases List.mem_append.mp hx with hx | hx
        · exact hcur x hx
        · simp at hx; subst hx; exact hc')
      simp only [tokensFrom, hc', Bool.false_eq_true, if_false]
      simpa [List.filter_cons, hc'] using ih1

/-! ## the delimiter set given as a list -/

/-- **the specification**: the maximal substrings of `s` that contain no character of `ds`, in order -/
def tokens (ds s : List Nat) : List (List Nat) := tokensP (fun c => ds.contains c) s

theorem tokens_nil (ds : List Nat) : tokens ds [] = [] := tokensP_nil _

/-- a leading delimiter is skipped -/
theorem tokens_delim (ds : List Nat) (x : Nat) (s : List Nat) (hx : x ∈ ds) : tokens ds (x :: s) = tokens ds s :=
  tokensP_delim _ x s (by simpa using hx)

/-- a non-empty delimiter-free string is one token -/
theorem tokens_last (ds t : List Nat) (hne : t ≠ []) (ht : ∀ c ∈ t, c ∉ ds) : tokens ds t = [t] :=
  tokensP_last _ t hne (fun c hc => by simpa using ht c hc)

/-- a non-empty delimiter-free run followed by a delimiter is a token; parsing goes on behind that delimiter -/
theorem tokens_cons (ds t : List Nat) (x : Nat) (s : List Nat) (hne : t ≠ []) (ht : ∀ c ∈ t, c ∉ ds) (hx : x ∈ ds) :
    tokens ds (t ++ x :: s) = t :: tokens ds s :=
  tokensP_cons _ t x s hne (fun c hc => by simpa using ht c hc) (by simpa using hx)

/-- every token is non-empty and delimiter-free; the tokens are exactly the non-delimiter characters of `s`,
in order, each once -/
theorem tokens_sound (ds s : List Nat) :
    (∀ t ∈ tokens ds s, t ≠ [] ∧ ∀ c ∈ t, c ∉ ds) ∧
    (tokens ds s).flatten = s.filter (fun c => !ds.contains c) := by
  obtain ⟨h1, h2⟩ := tokensP_sound (fun c => ds.contains c) s
  refine ⟨fun t ht => ⟨(h1 t ht).1, fun c hc => ?_⟩, h2⟩
  have := (h1 t ht).2 c hc
  simpa using this

/-- no delimiter in the string: the whole string is the one token -/
example : tokens [44, 59] [97, 98] = [[97, 98]] := by decide
/-- leading, repeated and trailing delimiters produce no empty token -/
example : tokens [44, 59] [44, 97, 98, 59, 44, 99, 44] = [[97, 98], [99]] := by decide
example : tokens [44] [44, 44] = [] := by decide
/-- the empty delimiter set: one token (the C code returns none: `tok-empty-delim-no-token`) -/
example : tokens [] [97, 98] = [[97, 98]] := by decide

/-! ## the reference call sequence -/

/-- what one call hands back, as offsets into the ORIGINAL string -/
structure RefCall where
  tok : Option (Nat × List Nat)   -- offset and characters of the returned token, `none` = NULL returned
  next : Nat                      -- offset of the continuation point stored through `ptr`
  cut : Option Nat                -- offset of the cell overwritten with NUL
  deriving Repr, DecidableEq

/-- successive calls on the string `s` that begins at offset `off` of the original string; one delimiter
set per call -/
def refSeq : List (Nat → Bool) → Nat → List Nat → List RefCall
  | [], _, _ => []
  | d :: rest, off, s =>
    let lead := (s.takeWhile d).length
    let s1 := s.dropWhile d
    let t := s1.takeWhile (fun c => !d c)
    let s2 := s1.dropWhile (fun c => !d c)
    if s1 = [] then
      { tok := none, next := off + lead, cut := none } :: refSeq rest (off + lead) []
    else if s2 = [] then
      { tok := some (off + lead, t), next := off + lead + t.length, cut := none } ::
        refSeq rest (off + lead + t.length) []
    else
      { tok := some (off + lead, t), next := off + lead + t.length + 1, cut := some (off + lead + t.length) } ::
        refSeq rest (off + lead + t.length + 1) (s2.drop 1)

/-- on the empty string: NULL forever, nothing moves -/
theorem refSeq_nil (dss : List (Nat → Bool)) (off : Nat) :
    refSeq dss off [] = dss.map (fun _ => { tok := none, next := off, cut := none }) := by
  induction dss with
  | nil => rfl
  | cons d rest ih => simp [refSeq, ih]

theorem lead_len (d : Nat → Bool) (s : List Nat) :
    (s.takeWhile d).length + (s.dropWhile d).length = s.length := by
  have := congrArg List.length (List.takeWhile_append_dropWhile (p := d) (l := s))
  rwa [List.length_append] at this

theorem tok_len (d : Nat → Bool) (s1 : List Nat) :
    (s1.takeWhile (fun c => !d c)).length + (s1.dropWhile (fun c => !d c)).length = s1.length := by
  have := congrArg List.length (List.takeWhile_append_dropWhile (p := fun c => !d c) (l := s1))
  rwa [List.length_append] at this

/-- **every offset handed back lies between the current position and the end of the string**; a cut lies
strictly inside the string, a token lies inside the string -/
theorem refSeq_bounds (dss : List (Nat → Bool)) (off : Nat) (s : List Nat) :
    ∀ r ∈ refSeq dss off s,
      off ≤ r.next ∧ r.next ≤ off + s.length ∧
      (∀ c, r.cut = some c → off ≤ c ∧ c < off + s.length ∧ c < r.next) ∧
      (∀ o t, r.tok = some (o, t) → off ≤ o ∧ t ≠ [] ∧ o + t.length ≤ r.next ∧ o + t.length ≤ off + s.length) := by
  induction dss generalizing off s with
  | nil => intro r hr; simp [refSeq] at hr
  | cons d rest ih =>
    intro r hr
    have hl := lead_len d s
    have ht := tok_len d (s.dropWhile d)
    simp only [refSeq] at hr
    by_cases h1 : s.dropWhile d = []
    · simp only [h1, if_true, List.mem_cons] at hr
      simp only [h1, List.length_nil] at hl
      rcases hr with rfl | hr
      · simp; omega
      · obtain ⟨a, b, c, d⟩ := ih _ _ r hr
        simp only [List.length_nil] at b c d
        refine ⟨by omega, by omega, ?_, ?_⟩
        · intro x hx; have := c x hx; omega
        · intro o t hx; have := d o t hx; exact ⟨by omega, this.2.1, this.2.2.1, by omega⟩
    · simp only [h1, if_false] at hr
      have htne : (s.dropWhile d).takeWhile (fun c => !d c) ≠ [] := by
        cases hs1 : s.dropWhile d with
        | nil => exact absurd hs1 h1
        | cons c rest' =>
          have := dropWhile_head_false d s c rest' hs1
          simp [this]
      have htpos : 0 < ((s.dropWhile d).takeWhile (fun c => !d c)).length :=
        List.length_pos_iff.mpr htne
      by_cases h2 : (s.dropWhile d).dropWhile (fun c => !d c) = []
      · simp only [h2, if_true, List.mem_cons] at hr
        simp only [h2, List.length_nil] at ht
        rcases hr with rfl | hr
        · refine ⟨by simp; omega, by simp; omega, by simp, ?_⟩
          intro o t hx
          simp only [Option.some.injEq, Prod.mk.injEq] at hx
          obtain ⟨rfl, rfl⟩ := hx
          exact ⟨by omega, htne, by simp, by omega⟩
        · obtain ⟨a, b, c, d⟩ := ih _ _ r hr
          simp only [List.length_nil] at b c d
          refine ⟨by omega, by omega, ?_, ?_⟩
          · intro x hx; have := c x hx; omega
          · intro o t hx; have := d o t hx; exact ⟨by omega, this.2.1, this.2.2.1, by omega⟩
      · simp only [h2, if_false, List.mem_cons] at hr
        have h2pos : 0 < ((s.dropWhile d).dropWhile (fun c => !d c)).length :=
          List.length_pos_iff.mpr h2
        rcases hr with rfl | hr
        · refine ⟨by simp; omega, by simp; omega, ?_, ?_⟩
          · intro x hx
            simp only [Option.some.injEq] at hx
            subst hx; simp only []; omega
          · intro o t hx
            simp only [Option.some.injEq, Prod.mk.injEq] at hx
            obtain ⟨rfl, rfl⟩ := hx
            exact ⟨by omega, htne, by simp, by omega⟩
        · obtain ⟨a, b, c, d⟩ := ih _ _ r hr
          simp only [List.length_drop] at b c d
          refine ⟨by omega, by omega, ?_, ?_⟩
          · intro x hx; have := c x hx; omega
          · intro o t hx; have := d o t hx; exact ⟨by omega, this.2.1, this.2.2.1, by omega⟩

theorem take_pad {α : Type} (l : List (Option α)) (k : Nat) :
    (l ++ none :: List.replicate k none).take k = (l ++ List.replicate k none).take k := by
  have : (none : Option α) :: List.replicate k none = List.replicate k none ++ [none] := by
    rw [← List.replicate_succ, List.replicate_succ']
  rw [this, ← List.append_assoc, List.take_append_of_le_length (by simp)]

/-- the tokens of a reference sequence -/
def toksOf (rs : List RefCall) : List (Option (List Nat)) := rs.map (fun r => r.tok.map Prod.snd)

/-- **with one delimiter set throughout: exactly the maximal delimiter-free substrings, in order, each once,
then NULL forever** (for any number `k` of calls) -/
theorem refSeq_replicate (d : Nat → Bool) (k off : Nat) (s : List Nat) :
    toksOf (refSeq (List.replicate k d) off s) =
      ((tokensP d s).map some ++ List.replicate k none).take k := by
  induction k generalizing off s with
  | zero => simp [toksOf, refSeq]
  | succ k ih =>
    simp only [List.replicate_succ, refSeq]
    by_cases h1 : s.dropWhile d = []
    · have ht : tokensP d s = [] := by rw [← tokensP_dropWhile, h1]; rfl
      simp only [h1, if_true, toksOf, List.map_cons, Option.map_none, ht, List.map_nil, List.nil_append]
      have := ih (off + (s.takeWhile d).length) []
      simp only [toksOf, tokensP_nil, List.map_nil, List.nil_append] at this
      rw [this]
      simp [List.take_replicate]
    · simp only [h1, if_false]
      rw [tokensP_step d s h1]
      by_cases h2 : (s.dropWhile d).dropWhile (fun c => !d c) = []
      · simp only [h2, if_true, toksOf, List.map_cons, Option.map_some, List.drop_nil, tokensP_nil,
          List.map_nil, List.cons_append, List.nil_append, List.take_succ_cons]
        have := ih (off + (s.takeWhile d).length +
          ((s.dropWhile d).takeWhile (fun c => !d c)).length) []
        simp only [toksOf, tokensP_nil, List.map_nil, List.nil_append] at this
        rw [this]
        exact congrArg _ (take_pad [] k).symm
      · simp only [h2, if_false, toksOf, List.map_cons, Option.map_some, List.cons_append, List.take_succ_cons]
        have := ih (off + (s.takeWhile d).length +
          ((s.dropWhile d).takeWhile (fun c => !d c)).length + 1)
          (((s.dropWhile d).dropWhile (fun c => !d c)).drop 1)
        simp only [toksOf] at this
        rw [this]
        -- one more `none` at the end makes no difference within the first k
        exact congrArg _ (take_pad _ k).symm

theorem takeWhile_length_le (d : Nat → Bool) (l : List Nat) : (l.takeWhile d).length ≤ l.length := by
  have := congrArg List.length (List.takeWhile_append_dropWhile (p := d) (l := l))
  rw [List.length_append] at this; omega

theorem dropWhile_eq_drop (d : Nat → Bool) (l : List Nat) : l.dropWhile d = l.drop (l.takeWhile d).length := by
  induction l with
  | nil => rfl
  | cons a l ih =>
    by_cases ha : d a = true
    · rw [List.dropWhile_cons_of_pos ha, List.takeWhile_cons_of_pos ha, ih]; rfl
    · rw [List.dropWhile_cons_of_neg ha, List.takeWhile_cons_of_neg ha]; rfl

/-- the three shapes of one reference call -/
def refHead (d : Nat → Bool) (off : Nat) (s : List Nat) : RefCall :=
  let lead := (s.takeWhile d).length
  let s1 := s.dropWhile d
  let t := s1.takeWhile (fun c => !d c)
  let s2 := s1.dropWhile (fun c => !d c)
  if s1 = [] then { tok := none, next := off + lead, cut := none }
  else if s2 = [] then { tok := some (off + lead, t), next := off + lead + t.length, cut := none }
  else { tok := some (off + lead, t), next := off + lead + t.length + 1, cut := some (off + lead + t.length) }

/-- the string the next call works on -/
def refRest (d : Nat → Bool) (s : List Nat) : List Nat :=
  ((s.dropWhile d).dropWhile (fun c => !d c)).drop 1

theorem refSeq_cons (d : Nat → Bool) (rest : List (Nat → Bool)) (off : Nat) (s : List Nat) :
    refSeq (d :: rest) off s = refHead d off s :: refSeq rest (refHead d off s).next (refRest d s) := by
  simp only [refSeq, refHead, refRest]
  by_cases h1 : s.dropWhile d = []
  · simp [h1]
  · by_cases h2 : (s.dropWhile d).dropWhile (fun c => !d c) = []
    · simp [h1, h2]
    · simp [h1, h2]


theorem refSeq_length (dss : List (Nat → Bool)) (off : Nat) (s : List Nat) : (refSeq dss off s).length = dss.length := by
  induction dss generalizing off s with
  | nil => rfl
  | cons d rest ih => rw [refSeq_cons, List.length_cons, ih, List.length_cons]

theorem getD_of_drop (l : List Nat) (k x : Nat) (r : List Nat) (h : l.drop k = x :: r) : l.getD k 0 = x := by
  have : (l.drop k)[0]? = some x := by rw [h]; rfl
  rw [List.getElem?_drop] at this
  simp only [Nat.add_zero] at this
  simp [this]

/-- everything the sequence lemmas need to know about ONE reference call -/
theorem refHead_facts (d : Nat → Bool) (off : Nat) (s : List Nat) :
    off ≤ (refHead d off s).next ∧ (refHead d off s).next ≤ off + s.length ∧
    refRest d s = s.drop ((refHead d off s).next - off) ∧
    (∀ c, (refHead d off s).cut = some c →
      off ≤ c ∧ c + 1 = (refHead d off s).next ∧ c - off < s.length ∧ d (s.getD (c - off) 0) = true) ∧
    (∀ o t, (refHead d off s).tok = some (o, t) →
      off ≤ o ∧ t ≠ [] ∧ (s.drop (o - off)).take t.length = t ∧ Free d t ∧ o + t.length ≤ (refHead d off s).next ∧
      (∀ j, j < o - off → d (s.getD j 0) = true) ∧
      ((refHead d off s).cut = some (o + t.length) ∨
        ((refHead d off s).cut = none ∧ o + t.length = off + s.length))) := by
  have hl := lead_len d s
  have ht := tok_len d (s.dropWhile d)
  have hs1 := dropWhile_eq_drop d s
  have hs2 := dropWhile_eq_drop (fun c => !d c) (s.dropWhile d)
  have hlead : ∀ j, j < (s.takeWhile d).length → d (s.getD j 0) = true := by
    intro j hj
    have hmem := mem_takeWhile_true d s ((s.takeWhile d)[j]) (List.getElem_mem hj)
    have hsplit := List.takeWhile_append_dropWhile (p := d) (l := s)
    have h := List.getElem?_append_left (l₂ := s.dropWhile d) hj
    rw [hsplit, List.getElem?_eq_getElem hj] at h
    have : s.getD j 0 = (s.takeWhile d)[j] := by simp [h]
    rw [this]; exact hmem
  unfold refHead refRest
  by_cases h1 : s.dropWhile d = []
  · simp only [h1, if_true, List.length_nil] at hl ⊢
    refine ⟨by omega, by omega, ?_, by simp, by simp⟩
    simp only [List.dropWhile_nil, List.drop_nil]
    rw [List.drop_eq_nil_of_le (by omega)]
  · have htne : (s.dropWhile d).takeWhile (fun c => !d c) ≠ [] := by
      cases hc : s.dropWhile d with
      | nil => exact absurd hc h1
      | cons c rest' =>
        have := dropWhile_head_false d s c rest' hc
        simp [this]
    have htake : (s.drop (s.takeWhile d).length).take ((s.dropWhile d).takeWhile (fun c => !d c)).length
        = (s.dropWhile d).takeWhile (fun c => !d c) := by
      rw [← hs1]
      conv => lhs; arg 2; rw [← List.takeWhile_append_dropWhile (p := fun c => !d c) (l := s.dropWhile d)]
      exact List.take_left' rfl
    simp only [h1, if_false]
    by_cases h2 : (s.dropWhile d).dropWhile (fun c => !d c) = []
    · simp only [h2, if_true, List.length_nil] at ht ⊢
      refine ⟨by omega, by omega, ?_, by simp, ?_⟩
      · rw [List.drop_nil, List.drop_eq_nil_of_le (by omega)]
      · intro o t hx
        simp only [Option.some.injEq, Prod.mk.injEq] at hx
        obtain ⟨rfl, rfl⟩ := hx
        refine ⟨by omega, htne, ?_, free_takeWhile d _, by omega, ?_, Or.inr ⟨trivial, by omega⟩⟩
        · rw [Nat.add_sub_cancel_left]; exact htake
        · rw [Nat.add_sub_cancel_left]; exact hlead
    · simp only [h2, if_false]
      have h2pos : 0 < ((s.dropWhile d).dropWhile (fun c => !d c)).length := List.length_pos_iff.mpr h2
      refine ⟨by omega, by omega, ?_, ?_, ?_⟩
      · rw [hs2, hs1, List.drop_drop, List.drop_drop]
        congr 1; omega
      · intro c hc
        simp only [Option.some.injEq] at hc
        subst hc
        refine ⟨by omega, by omega, by omega, ?_⟩
        cases h2c : (s.dropWhile d).dropWhile (fun c => !d c) with
        | nil => exact absurd h2c h2
        | cons x rest2 =>
          have hx := dropWhile_head_false (fun c => !d c) _ x rest2 h2c
          have hdrop : s.drop ((s.takeWhile d).length +
              ((s.dropWhile d).takeWhile (fun c => !d c)).length) = x :: rest2 := by
            rw [← h2c, hs2, hs1, List.drop_drop]
          have := getD_of_drop s _ x rest2 hdrop
          have e : off + (s.takeWhile d).length + ((s.dropWhile d).takeWhile (fun c => !d c)).length - off
              = (s.takeWhile d).length + ((s.dropWhile d).takeWhile (fun c => !d c)).length := by omega
          rw [e, this]; simpa using hx
      · intro o t hx
        simp only [Option.some.injEq, Prod.mk.injEq] at hx
        obtain ⟨rfl, rfl⟩ := hx
        refine ⟨by omega, htne, ?_, free_takeWhile d _, by omega, ?_, Or.inl rfl⟩
        · rw [Nat.add_sub_cancel_left]; exact htake
        · rw [Nat.add_sub_cancel_left]; exact hlead

/-- **each returned token is a substring of the original string at its offset, no call cuts inside it, and the
position behind it is cut (by the call that returned it) or is the end of the string** -/
theorem refSeq_tok_isolated (dss : List (Nat → Bool)) (off : Nat) (s : List Nat) :
    ∀ r ∈ refSeq dss off s, ∀ o t, r.tok = some (o, t) →
      off ≤ o ∧ (s.drop (o - off)).take t.length = t ∧
      (∀ r' ∈ refSeq dss off s, ∀ c, r'.cut = some c → c < o ∨ o + t.length ≤ c) ∧
      (o + t.length = off + s.length ∨ ∃ r' ∈ refSeq dss off s, r'.cut = some (o + t.length)) := by
  induction dss generalizing off s with
  | nil => intro r hr; simp [refSeq] at hr
  | cons d rest ih =>
    intro r hr o t htok
    obtain ⟨f1, f2, f3, f4, f5⟩ := refHead_facts d off s
    rw [refSeq_cons] at hr ⊢
    have hb := refSeq_bounds rest (refHead d off s).next (refRest d s)
    have hrl : (refHead d off s).next + (refRest d s).length = off + s.length := by
      rw [f3, List.length_drop]; omega
    rcases List.mem_cons.mp hr with rfl | hr
    · obtain ⟨g1, g2, g3, g4, g5, _, g6⟩ := f5 o t htok
      refine ⟨g1, g3, ?_, ?_⟩
      · intro r' hr' c hc
        rcases List.mem_cons.mp hr' with rfl | hr'
        · rcases g6 with g | g
          · rw [g] at hc; cases hc; exact Or.inr (Nat.le_refl _)
          · rw [g.1] at hc; cases hc
        · have := ((hb r' hr').2.2.1 c hc).1
          exact Or.inr (by omega)
      · rcases g6 with g | g
        · exact Or.inr ⟨_, List.mem_cons_self, g⟩
        · exact Or.inl g.2
    · obtain ⟨i1, i2, i3, i4⟩ := ih _ _ r hr o t htok
      refine ⟨by omega, ?_, ?_, ?_⟩
      · rw [f3, List.drop_drop] at i2
        have e : (refHead d off s).next - off + (o - (refHead d off s).next) = o - off := by omega
        rw [e] at i2; exact i2
      · intro r' hr' c hc
        rcases List.mem_cons.mp hr' with rfl | hr'
        · have := f4 c hc
          exact Or.inl (by omega)
        · exact i3 r' hr' c hc
      · rcases i4 with i | ⟨r', hr', hc⟩
        · exact Or.inl (by omega)
        · exact Or.inr ⟨r', List.mem_cons_of_mem _ hr', hc⟩

/-- **only delimiter positions are cut**: the cell a call overwrites lies inside the string and holds a character of
THAT call's delimiter set; the token a call returns contains no character of that call's delimiter set and everything
between the call's starting point and the token is a delimiter -/
theorem refSeq_call_facts (dss : List (Nat → Bool)) (off : Nat) (s : List Nat) :
    ∀ q ∈ List.zip dss (refSeq dss off s),
      (∀ c, q.2.cut = some c → off ≤ c ∧ c - off < s.length ∧ q.1 (s.getD (c - off) 0) = true) ∧
      (∀ o t, q.2.tok = some (o, t) → Free q.1 t) := by
  induction dss generalizing off s with
  | nil => intro q hq; simp [refSeq] at hq
  | cons d rest ih =>
    intro q hq
    obtain ⟨f1, f2, f3, f4, f5⟩ := refHead_facts d off s
    rw [refSeq_cons, List.zip_cons_cons] at hq
    rcases List.mem_cons.mp hq with rfl | hq
    · refine ⟨fun c hc => ?_, fun o t ht => (f5 o t ht).2.2.2.1⟩
      obtain ⟨a, _, b, c'⟩ := f4 c hc
      exact ⟨a, b, c'⟩
    · obtain ⟨j1, j2⟩ := ih _ _ q hq
      refine ⟨fun c hc => ?_, j2⟩
      obtain ⟨a, b, c'⟩ := j1 c hc
      rw [f3, List.length_drop] at b
      rw [f3] at c'
      refine ⟨by omega, by omega, ?_⟩
      have e : s.getD (c - off) 0 = (s.drop ((refHead d off s).next - off)).getD (c - (refHead d off s).next) 0 := by
        simp only [List.getD_eq_getElem?_getD, List.getElem?_drop]
        congr 2; omega
      rw [e]; exact c'

end SafeC.TokSpec

import SafeC.Proofs.CopyDisjoint
import SafeC.Proofs.CopyWrappers
import SafeC.Models.Os
/-!
# `getenv_s` and `strerror_s` on valid operands: exact results, exit by exit

Both functions call the `strcpy_s` / `strncpy_s` / `strcat_s` MODELS with the object size unknown; the
lemmas of `Proofs/CopyDisjoint.lean` are composed here.  Setting as there: only the declared extents are
mapped / readable / writable (`RW st dest dmax`, `SrcStr` for the strings the C reads), so
`exec … = .ok …` says nothing faulted and `st'.strays = st.strays` that nothing outside the declared
extents was touched.

`strlenP scanFuel` (libc `strlen`) is handled by `strlenP_ok`: on a `SrcStr st s n` it returns
`min n fuel` and leaves the state alone, so no theorem below needs a bound on the length of `name`, and the
"does not fit" exits need no `n < scanFuel` either (`dmax ≤ RSIZE_MAX_STR < scanFuel`).
-/
namespace SafeC
open Gen

/-! ## libc `strlen` -/

theorem SrcStr.tail {st : St} {s n : Nat} (h : SrcStr st s (n+1)) : SrcStr st (s+1) n := by
  refine ⟨?_, ?_, ?_⟩
  · intro j hj
    have e : s + 1 + j = s + (j+1) := by omega
    rw [e]; exact h.nz (j+1) (by omega)
  · have e : s + 1 + n = s + (n+1) := by omega
    rw [e]; exact h.nul
  · intro j hj
    have e : s + 1 + j = s + (j+1) := by omega
    rw [e]; exact h.rd (j+1) (by omega)

/-- a string is still that string in a state that differs only inside `[dest, dest+dmax)`, away from it -/
theorem SrcStr.of_frame {st st' : St} {s n dest dmax : Nat} (h : SrcStr st s n)
    (hm : st'.mapped = st.mapped) (hr : st'.rd = st.rd)
    (hf : ∀ a, ¬ (dest ≤ a ∧ a < dest + dmax) → st'.data a = st.data a)
    (hdisj : Disjoint dest dmax s n) : SrcStr st' s n := by
  unfold Disjoint at hdisj
  refine ⟨?_, ?_, ?_⟩
  · intro j hj
    rw [hf (s+j) (by omega)]; exact h.nz j hj
  · rw [hf (s+n) (by omega)]; exact h.nul
  · intro j hj
    rw [hm, hr]; exact h.rd j hj

/-- libc `strlen` with fuel on a readable string of length `n`: the state is unchanged (declared reads only), the
result is `n` when the fuel suffices and the fuel otherwise (the scan stops inside the string) -/
theorem strlenP_ok (fuel s n a : Nat) (st : St) (h : SrcStr st s n) :
    exec (strlenP fuel s a) st = .ok (if n < fuel then a + n else a + fuel, st) := by
  induction fuel generalizing s n a with
  | zero => simp [strlenP]
  | succ f ih =>
    unfold strlenP
    have h0 := h.rd 0 (Nat.zero_le _)
    simp only [Nat.add_zero] at h0
    simp only [exec_bind, exec_load_ok _ _ h0.1 h0.2]
    cases n with
    | zero =>
      have := h.nul
      simp only [Nat.add_zero] at this
      simp [this]
    | succ n =>
      have hnz := h.nz 0 (by omega)
      simp only [Nat.add_zero] at hnz
      simp only [hnz, if_false]
      rw [ih (s+1) n (a+1) h.tail]
      by_cases hlt : n < f
      · have : n + 1 < f + 1 := by omega
        simp only [hlt, this, if_true]
        congr 2; omega
      · have : ¬ n + 1 < f + 1 := by omega
        simp only [hlt, this, if_false]
        congr 2; omega

/-- `strlen(s)` as the models call it, on a string shorter than the fuel -/
theorem strlen_ok (s n : Nat) (st : St) (h : SrcStr st s n) (hn : n < scanFuel) :
    exec (strlenP scanFuel s 0) st = .ok (n, st) := by
  rw [strlenP_ok scanFuel s n 0 st h, if_pos hn, Nat.zero_add]

/-- … and in general: some `r` with `r = n` or both `r` and `n` at least `scanFuel` -/
theorem strlen_ok' (s n : Nat) (st : St) (h : SrcStr st s n) :
    ∃ r, exec (strlenP scanFuel s 0) st = .ok (r, st) ∧ (r = n ∨ (scanFuel ≤ r ∧ scanFuel ≤ n)) := by
  rw [strlenP_ok scanFuel s n 0 st h]
  by_cases hn : n < scanFuel
  · exact ⟨n, by rw [if_pos hn, Nat.zero_add], Or.inl rfl⟩
  · exact ⟨scanFuel, by rw [if_neg hn, Nat.zero_add], Or.inr ⟨Nat.le_refl _, by omega⟩⟩

theorem RSIZE_lt_scanFuel : RSIZE_MAX_STR < scanFuel := by decide

/-! ## the two clearing blocks -/

/-- `handle_error(dest, dmax, code)` on a usable dest: the first cell (every cell with null-slack) is cleared,
one handler event, nothing else changes -/
theorem herr_dest (cfg : Cfg) (dest dmax code : Nat) (st : St) (hrw : RW st dest dmax) (hpos : 0 < dmax) :
    ∃ st', exec (handleError cfg dest dmax code) st = .ok ((), st') ∧
      st'.mapped = st.mapped ∧ st'.rd = st.rd ∧ st'.wr = st.wr ∧ st'.strays = st.strays ∧
      (∀ a, ¬ (dest ≤ a ∧ a < dest + dmax) → st'.data a = st.data a) ∧
      st'.events = st.events ++ [.handler .str code] ∧ st'.data dest = 0 ∧
      (cfg.slack = true → ∀ i, i < dmax → st'.data (dest+i) = 0) := by
  obtain ⟨st', he, hm, hr, hw, hst, hev, h0, hsl, hns⟩ := handleError_ok cfg dest dmax code st hrw hpos
  refine ⟨st', he, hm, hr, hw, hst, ?_, hev, h0, ?_⟩
  · intro a ha
    cases hcs : cfg.slack with
    | true => rw [hsl hcs a]; simp [ha]
    | false => exact hns hcs a (by intro h; subst h; exact ha ⟨Nat.le_refl _, by omega⟩)
  · intro hcs i hi
    rw [hsl hcs (dest+i)]
    have : dest ≤ dest + i ∧ dest + i < dest + dmax := by omega
    simp [this]

/-- the `#ifdef SAFECLIB_STR_NULL_SLACK memset(dest, 0, dmax) #else *dest = 0` block of `getenv_s` -/
theorem clear_dest (cfg : Cfg) (dest dmax : Nat) (st : St) (hrw : RW st dest dmax) (hpos : 0 < dmax) :
    ∃ st', exec (if cfg.slack then memsetP 0 dmax dest else store dest 0) st = .ok ((), st') ∧
      st'.mapped = st.mapped ∧ st'.rd = st.rd ∧ st'.wr = st.wr ∧ st'.strays = st.strays ∧
      (∀ a, ¬ (dest ≤ a ∧ a < dest + dmax) → st'.data a = st.data a) ∧
      st'.events = st.events ∧ st'.data dest = 0 ∧
      (cfg.slack = true → ∀ i, i < dmax → st'.data (dest+i) = 0) := by
  cases hcs : cfg.slack with
  | true =>
    obtain ⟨s1, he, hm, hd⟩ := memsetP_ok 0 dmax dest st hrw
    refine ⟨s1, by simpa using he, hm.mapped, hm.rd, hm.wr, hm.strays, ?_, hm.events, ?_, ?_⟩
    · intro a ha; rw [hd a]; simp [ha]
    · rw [hd dest]
      have : dest ≤ dest ∧ dest < dest + dmax := by omega
      simp [this]
    · intro _ i hi
      rw [hd (dest+i)]
      have : dest ≤ dest + i ∧ dest + i < dest + dmax := by omega
      simp [this]
  | false =>
    have h0 := hrw 0 hpos
    simp only [Nat.add_zero] at h0
    refine ⟨st.upd dest 0, by simp [exec_store_ok _ _ _ h0.1 h0.2.1], rfl, rfl, rfl, rfl, ?_, rfl, by simp, ?_⟩
    · intro a ha
      exact St.upd_data_ne _ _ _ _ (by intro h; subst h; exact ha ⟨Nat.le_refl _, by omega⟩)
    · intro h; cases h

/-! ## `getenv_s` -/

/-- a known object size that contains `dmax ≤ RSIZE_MAX_STR` makes no difference to `strcpy_s` -/
theorem strcpy_s_bos_irrel (cfg : Cfg) (dest dmax src : Nat) (ib : Bos) (hd : dest ≠ 0) (hpos : 0 < dmax)
    (hle : dmax ≤ RSIZE_MAX_STR) (hbos : ∀ b, ib = some b → dmax ≤ b) :
    strcpy_s cfg dest dmax src ib = strcpy_s cfg dest dmax src none := by
  have hz : dmax ≠ 0 := by omega
  unfold strcpy_s strcpyG chkDmaxClear chkDmaxClearG
  rw [if_neg hd, if_neg hz, if_neg hd, if_neg hz]
  cases ib with
  | none => rfl
  | some b =>
    have h2 : ¬ dmax > b := by have := hbos b rfl; omega
    have h1 : ¬ dmax > RSIZE_MAX_STR := by omega
    simp only [h1, h2, if_false]

/-- what the closing `strcpy_s` of getenv_s / strerror_s is told about dest's size (switch `fixInnerBos`) -/
def innerBos (cfg : Cfg) (destbos : Bos) : Bos := if cfg.fixInnerBos then destbos else none

theorem strcpy_s_innerBos (cfg : Cfg) (dest dmax src : Nat) (destbos : Bos) (hd : dest ≠ 0) (hpos : 0 < dmax)
    (hle : dmax ≤ RSIZE_MAX_STR) (hbos : ∀ b, destbos = some b → dmax ≤ b) :
    strcpy_s cfg dest dmax src (innerBos cfg destbos) = strcpy_s cfg dest dmax src none := by
  unfold innerBos
  split
  · exact strcpy_s_bos_irrel cfg dest dmax src destbos hd hpos hle hbos
  · rfl


/-- what `getenv_s` runs once the entry checks on a usable dest have passed -/
def getenvBody (cfg : Cfg) (hasLen : Bool) (dest dmax name value : Nat) : Prog (Nat × Option Nat) :=
  if name = 0 then do
    handleError cfg dest dmax ESNULLP
    pure (ESNULLP, if hasLen then some 0 else none)
  else do
    let _ ← strlenP scanFuel name 0
    if value = 0 then do
      (if cfg.slack then memsetP 0 dmax dest else store dest 0)
      pure (NEG1, if hasLen then some 0 else none)
    else do
      let len1 ← strlenP scanFuel value 0
      if len1 ≥ dmax then do
        handleError cfg dest dmax ESNOSPC
        pure (ESNOSPC, if hasLen then some 0 else none)
      else do
        let _ ← strcpy_s cfg dest dmax value none
        pure (EOK, if hasLen then some len1 else none)

/-- `getenvBody` with the closing copy told `ib` about dest's size -/
def getenvBodyB (cfg : Cfg) (hasLen : Bool) (dest dmax name value : Nat) (ib : Bos) : Prog (Nat × Option Nat) :=
  if name = 0 then do
    handleError cfg dest dmax ESNULLP
    pure (ESNULLP, if hasLen then some 0 else none)
  else do
    let _ ← strlenP scanFuel name 0
    if value = 0 then do
      (if cfg.slack then memsetP 0 dmax dest else store dest 0)
      pure (NEG1, if hasLen then some 0 else none)
    else do
      let len1 ← strlenP scanFuel value 0
      if len1 ≥ dmax then do
        handleError cfg dest dmax ESNOSPC
        pure (ESNOSPC, if hasLen then some 0 else none)
      else do
        let _ ← strcpy_s cfg dest dmax value ib
        pure (EOK, if hasLen then some len1 else none)

theorem getenvBodyB_none (cfg : Cfg) (hasLen : Bool) (dest dmax name value : Nat) :
    getenvBodyB cfg hasLen dest dmax name value none = getenvBody cfg hasLen dest dmax name value := rfl

/-- entry checks of `getenv_s` with `dest ≠ NULL`, `0 < dmax`: passed when `dmax ≤ destbos` (object size known;
NOTE: `dmax` is then not compared with `RSIZE_MAX_STR` at all) resp. `dmax ≤ RSIZE_MAX_STR` (unknown) -/
theorem getenv_s_enter' (cfg : Cfg) (hasLen : Bool) (dest dmax name : Nat) (destbos : Bos) (value : Nat)
    (hd : dest ≠ 0) (hpos : 0 < dmax) (hnone : destbos = none → dmax ≤ RSIZE_MAX_STR)
    (hbos : ∀ b, destbos = some b → dmax ≤ b) :
    getenv_s cfg hasLen dest dmax name destbos value = getenvBodyB cfg hasLen dest dmax name value (innerBos cfg destbos) := by
  have hz : dmax ≠ 0 := by omega
  unfold getenv_s getenvBodyB innerBos
  cases destbos with
  | none =>
    have h1 : ¬ dmax > RSIZE_MAX_STR := by have := hnone rfl; omega
    simp only [h1, hd, hz, ne_eq, not_false_eq_true, if_true, true_and, and_self, decide_false,
      Bool.false_eq_true, if_false]
  | some b =>
    have h1 : ¬ dmax > b := by have := hbos b rfl; omega
    simp only [h1, hd, hz, ne_eq, not_false_eq_true, if_true, true_and, and_self, decide_false,
      Bool.false_eq_true, if_false]

theorem getenv_s_enter (cfg : Cfg) (hasLen : Bool) (dest dmax name : Nat) (destbos : Bos) (value : Nat)
    (hd : dest ≠ 0) (hpos : 0 < dmax) (hle : dmax ≤ RSIZE_MAX_STR) (hbos : ∀ b, destbos = some b → dmax ≤ b) :
    getenv_s cfg hasLen dest dmax name destbos value = getenvBody cfg hasLen dest dmax name value := by
  rw [getenv_s_enter' cfg hasLen dest dmax name destbos value hd hpos (fun _ => hle) hbos]
  unfold getenvBodyB getenvBody
  rw [strcpy_s_innerBos cfg dest dmax value destbos hd hpos hle hbos]

/-- **getenv_s, success.**  Usable dest, a readable name, the variable is set to a string of length `n < dmax`
that does not overlap dest: `EOK`, `*len = n`, no handler event, dest holds the value, its terminator and (null-slack)
zeros up to `dmax`; nothing outside dest changes, no stray access. -/
theorem getenv_s_ok (cfg : Cfg) (hasLen : Bool) (dest dmax name : Nat) (destbos : Bos) (value k n : Nat) (st : St)
    (hd : dest ≠ 0) (hpos : 0 < dmax) (hle : dmax ≤ RSIZE_MAX_STR) (hbos : ∀ b, destbos = some b → dmax ≤ b)
    (hrw : RW st dest dmax) (hname : name ≠ 0) (hnm : SrcStr st name k)
    (hv : value ≠ 0) (hval : SrcStr st value n) (hn : n < dmax) (hdisj : Disjoint dest dmax value n) :
    ∃ st', exec (getenv_s cfg hasLen dest dmax name destbos value) st
        = .ok ((EOK, if hasLen then some n else none), st') ∧
      st'.mapped = st.mapped ∧ st'.rd = st.rd ∧ st'.wr = st.wr ∧ st'.strays = st.strays ∧
      (∀ a, ¬ (dest ≤ a ∧ a < dest + dmax) → st'.data a = st.data a) ∧
      st'.events = st.events ∧
      (∀ i, i < n → st'.data (dest+i) = st.data (value+i)) ∧ st'.data (dest+n) = 0 ∧
      (cfg.slack = true → ∀ i, n ≤ i → i < dmax → st'.data (dest+i) = 0) := by
  rw [getenv_s_enter cfg hasLen dest dmax name destbos value hd hpos hle hbos]
  unfold getenvBody
  obtain ⟨r, hr, _⟩ := strlen_ok' name k st hnm
  have hfuel : n < scanFuel := by have := RSIZE_lt_scanFuel; omega
  have hl := strlen_ok value n st hval hfuel
  obtain ⟨code, st', he, pm, pr, pw, ps, pf, pok, _⟩ :=
    strcpyG_disjoint RSIZE_MAX_STR cfg dest dmax value n st hd hv hpos hle hrw hval hdisj
  obtain ⟨c1, c2, c3, c4, c5⟩ := pok hn
  have hnge : ¬ n ≥ dmax := by omega
  refine ⟨st', ?_, pm, pr, pw, ps, pf, c2, c3, c4, c5⟩
  rw [if_neg hname]
  simp only [exec_bind, hr]
  rw [if_neg hv]
  simp only [exec_bind, hl]
  rw [if_neg hnge]
  simp only [exec_bind, strcpy_s, he, exec_pure]

/-- **getenv_s, ESNOSPC exit.**  The value (length `n ≥ dmax`) does not fit: `ESNOSPC`, `*len = 0`, exactly one handler
event, dest[0] = 0 and (null-slack) all `dmax` cells zero; frame.  No bound on `n` is needed: libc `strlen` stops at
`scanFuel > RSIZE_MAX_STR ≥ dmax` at the latest. -/
theorem getenv_s_nospc (cfg : Cfg) (hasLen : Bool) (dest dmax name : Nat) (destbos : Bos) (value k n : Nat) (st : St)
    (hd : dest ≠ 0) (hpos : 0 < dmax) (hle : dmax ≤ RSIZE_MAX_STR) (hbos : ∀ b, destbos = some b → dmax ≤ b)
    (hrw : RW st dest dmax) (hname : name ≠ 0) (hnm : SrcStr st name k)
    (hv : value ≠ 0) (hval : SrcStr st value n) (hn : dmax ≤ n) :
    ∃ st', exec (getenv_s cfg hasLen dest dmax name destbos value) st
        = .ok ((ESNOSPC, if hasLen then some 0 else none), st') ∧
      st'.mapped = st.mapped ∧ st'.rd = st.rd ∧ st'.wr = st.wr ∧ st'.strays = st.strays ∧
      (∀ a, ¬ (dest ≤ a ∧ a < dest + dmax) → st'.data a = st.data a) ∧
      st'.events = st.events ++ [.handler .str ESNOSPC] ∧ st'.data dest = 0 ∧
      (cfg.slack = true → ∀ i, i < dmax → st'.data (dest+i) = 0) := by
  rw [getenv_s_enter cfg hasLen dest dmax name destbos value hd hpos hle hbos]
  unfold getenvBody
  obtain ⟨r, hr, _⟩ := strlen_ok' name k st hnm
  obtain ⟨l, hl, hlv⟩ := strlen_ok' value n st hval
  have hge : l ≥ dmax := by
    have := RSIZE_lt_scanFuel
    rcases hlv with h | h <;> omega
  obtain ⟨st', he, rest⟩ := herr_dest cfg dest dmax ESNOSPC st hrw hpos
  refine ⟨st', ?_, rest⟩
  rw [if_neg hname]
  simp only [exec_bind, hr]
  rw [if_neg hv]
  simp only [exec_bind, hl]
  rw [if_pos hge]
  simp only [exec_bind, he, exec_pure]

/-- **getenv_s, `name == NULL` exit** on a usable dest: `ESNULLP`, `*len = 0`, one handler event, dest cleared. -/
theorem getenv_s_nullname (cfg : Cfg) (hasLen : Bool) (dest dmax : Nat) (destbos : Bos) (value : Nat) (st : St)
    (hd : dest ≠ 0) (hpos : 0 < dmax) (hle : dmax ≤ RSIZE_MAX_STR) (hbos : ∀ b, destbos = some b → dmax ≤ b)
    (hrw : RW st dest dmax) :
    ∃ st', exec (getenv_s cfg hasLen dest dmax 0 destbos value) st
        = .ok ((ESNULLP, if hasLen then some 0 else none), st') ∧
      st'.mapped = st.mapped ∧ st'.rd = st.rd ∧ st'.wr = st.wr ∧ st'.strays = st.strays ∧
      (∀ a, ¬ (dest ≤ a ∧ a < dest + dmax) → st'.data a = st.data a) ∧
      st'.events = st.events ++ [.handler .str ESNULLP] ∧ st'.data dest = 0 ∧
      (cfg.slack = true → ∀ i, i < dmax → st'.data (dest+i) = 0) := by
  rw [getenv_s_enter cfg hasLen dest dmax 0 destbos value hd hpos hle hbos]
  unfold getenvBody
  obtain ⟨st', he, rest⟩ := herr_dest cfg dest dmax ESNULLP st hrw hpos
  refine ⟨st', ?_, rest⟩
  rw [if_pos rfl]
  simp only [exec_bind, he, exec_pure]

/-- **getenv_s, variable not set** (`getenv` returned NULL; `value = 0`): returns -1, `*len = 0`, NO handler event,
dest[0] = 0 and (null-slack) all `dmax` cells zero. -/
theorem getenv_s_unset (cfg : Cfg) (hasLen : Bool) (dest dmax name : Nat) (destbos : Bos) (k : Nat) (st : St)
    (hd : dest ≠ 0) (hpos : 0 < dmax) (hle : dmax ≤ RSIZE_MAX_STR) (hbos : ∀ b, destbos = some b → dmax ≤ b)
    (hrw : RW st dest dmax) (hname : name ≠ 0) (hnm : SrcStr st name k) :
    ∃ st', exec (getenv_s cfg hasLen dest dmax name destbos 0) st
        = .ok ((NEG1, if hasLen then some 0 else none), st') ∧
      st'.mapped = st.mapped ∧ st'.rd = st.rd ∧ st'.wr = st.wr ∧ st'.strays = st.strays ∧
      (∀ a, ¬ (dest ≤ a ∧ a < dest + dmax) → st'.data a = st.data a) ∧
      st'.events = st.events ∧ st'.data dest = 0 ∧
      (cfg.slack = true → ∀ i, i < dmax → st'.data (dest+i) = 0) := by
  rw [getenv_s_enter cfg hasLen dest dmax name destbos 0 hd hpos hle hbos]
  unfold getenvBody
  obtain ⟨r, hr, _⟩ := strlen_ok' name k st hnm
  obtain ⟨st', he, rest⟩ := clear_dest cfg dest dmax st hrw hpos
  refine ⟨st', ?_, rest⟩
  rw [if_neg hname]
  simp only [exec_bind, hr, if_true, he, exec_pure]

/-- **getenv_s with a known object size does not check `dmax ≤ RSIZE_MAX_STR`** (finding of session 4, repaired by abc5a20:
the statement is about the tree before it, switch `fixInnerBos` off): with
`destbos = some b` and `RSIZE_MAX_STR < dmax ≤ b`, a set variable whose value is shorter than `dmax`: `getenv_s`
returns `EOK` and `*len = n`, but the inner `strcpy_s(dest, dmax, buf)` (object size unknown there) rejects `dmax`:
the constraint handler IS invoked with `ESLEMAX` and dest is left exactly as it was (not terminated, not cleared). -/
theorem getenv_s_bos_lemax (cfg : Cfg) (hfx : cfg.fixInnerBos = false) (hasLen : Bool) (dest dmax name b value k n : Nat) (st : St)
    (hd : dest ≠ 0) (hgt : RSIZE_MAX_STR < dmax) (hb : dmax ≤ b)
    (hname : name ≠ 0) (hnm : SrcStr st name k)
    (hv : value ≠ 0) (hval : SrcStr st value n) (hn : n < dmax) (hfuel : n < scanFuel) :
    exec (getenv_s cfg hasLen dest dmax name (some b) value) st
      = .ok ((EOK, if hasLen then some n else none),
             { st with events := st.events ++ [.handler .str ESLEMAX] }) := by
  have hpos : 0 < dmax := by omega
  rw [getenv_s_enter' cfg hasLen dest dmax name (some b) value hd hpos (fun h => by cases h)
    (fun b' h => by cases h; exact hb)]
  have hib : innerBos cfg (some b) = none := by simp [innerBos, hfx]
  rw [hib, getenvBodyB_none]
  unfold getenvBody
  obtain ⟨r, hr, _⟩ := strlen_ok' name k st hnm
  have hl := strlen_ok value n st hval hfuel
  have hnge : ¬ n ≥ dmax := by omega
  have hz : dmax ≠ 0 := by omega
  rw [if_neg hname]
  simp only [exec_bind, hr]
  rw [if_neg hv]
  simp only [exec_bind, hl]
  rw [if_neg hnge]
  simp only [strcpy_s, strcpyG, chkDmaxClear, chkDmaxClearG]
  rw [if_neg hd, if_neg hz, if_pos hgt]
  simp [exec_bind, handlerS]

/-! ## `strerror_s` -/

/-- `strerrorlen_s` for an `errnum` outside the library's own range is libc `strlen` of the message -/
theorem strerrorlen_s_libc (errnum msg n : Nat) (st : St) (h : isSafeclibErr errnum = false)
    (hsrc : SrcStr st msg n) :
    ∃ r, exec (strerrorlen_s errnum msg) st = .ok (r, st) ∧ (r = n ∨ (scanFuel ≤ r ∧ scanFuel ≤ n)) := by
  unfold strerrorlen_s
  simp only [h, Bool.false_eq_true, if_false]
  exact strlen_ok' msg n st hsrc

/-- … and exactly the length when the message is shorter than the scan fuel (in particular when it fits `dmax`) -/
theorem strerrorlen_s_libc_eq (errnum msg n : Nat) (st : St) (h : isSafeclibErr errnum = false)
    (hsrc : SrcStr st msg n) (hn : n < scanFuel) :
    exec (strerrorlen_s errnum msg) st = .ok (n, st) := by
  unfold strerrorlen_s
  simp only [h, Bool.false_eq_true, if_false]
  exact strlen_ok msg n st hsrc hn

/-- what `strerror_s` runs once the entry checks have passed -/
def strerrorBody (cfg : Cfg) (dest dmax errnum msg dots : Nat) : Prog Nat := do
  let len ← strerrorlen_s errnum msg
  if len < dmax then do
    let _ ← strcpy_s cfg dest dmax msg none
    pure EOK
  else if dmax > 3 then do
    let _ ← strncpy_s cfg dest dmax msg (dmax - 4) none none
    let _ ← strcat_s cfg dest dmax dots none
    pure EOK
  else do
    handleError cfg dest dmax ESLEMIN
    pure ESLEMIN

theorem strerror_s_enter (cfg : Cfg) (dest dmax errnum : Nat) (destbos : Bos) (msg dots : Nat)
    (hd : dest ≠ 0) (hpos : 0 < dmax) (hle : dmax ≤ RSIZE_MAX_STR) (hbos : ∀ b, destbos = some b → dmax ≤ b) :
    strerror_s cfg dest dmax errnum destbos msg dots = strerrorBody cfg dest dmax errnum msg dots := by
  have hz : dmax ≠ 0 := by omega
  have h1 : ¬ dmax > RSIZE_MAX_STR := by omega
  have hi := strcpy_s_innerBos cfg dest dmax msg destbos hd hpos hle hbos
  unfold innerBos at hi
  unfold strerror_s strerrorBody chkDmax
  rw [if_neg hd, if_neg hz, hi]
  cases destbos with
  | none => simp only [h1, if_false]
  | some b =>
    have h2 : ¬ dmax > b := by have := hbos b rfl; omega
    simp only [h2, if_false]

/-- **strerror_s, the message fits.**  `hlen`: what `strerrorlen_s` answers (for the library's own codes the table value,
see `C06Os.strerrorlen_s_own`; otherwise `strlen msg`, see `strerrorlen_s_libc_eq`) is the length `n` of the message
text at `msg`; `n < dmax`: `EOK`, no event, dest = message, terminator, (null-slack) zeros behind; frame. -/
theorem strerror_s_fit (cfg : Cfg) (dest dmax errnum : Nat) (destbos : Bos) (msg dots n : Nat) (st : St)
    (hd : dest ≠ 0) (hpos : 0 < dmax) (hle : dmax ≤ RSIZE_MAX_STR) (hbos : ∀ b, destbos = some b → dmax ≤ b)
    (hrw : RW st dest dmax) (hlen : exec (strerrorlen_s errnum msg) st = .ok (n, st))
    (hm : msg ≠ 0) (hsrc : SrcStr st msg n) (hn : n < dmax) (hdisj : Disjoint dest dmax msg n) :
    ∃ st', exec (strerror_s cfg dest dmax errnum destbos msg dots) st = .ok (EOK, st') ∧
      st'.mapped = st.mapped ∧ st'.rd = st.rd ∧ st'.wr = st.wr ∧ st'.strays = st.strays ∧
      (∀ a, ¬ (dest ≤ a ∧ a < dest + dmax) → st'.data a = st.data a) ∧
      st'.events = st.events ∧
      (∀ i, i < n → st'.data (dest+i) = st.data (msg+i)) ∧ st'.data (dest+n) = 0 ∧
      (cfg.slack = true → ∀ i, n ≤ i → i < dmax → st'.data (dest+i) = 0) := by
  rw [strerror_s_enter cfg dest dmax errnum destbos msg dots hd hpos hle hbos]
  unfold strerrorBody
  obtain ⟨code, st', he, pm, pr, pw, ps, pf, pok, _⟩ :=
    strcpyG_disjoint RSIZE_MAX_STR cfg dest dmax msg n st hd hm hpos hle hrw hsrc hdisj
  obtain ⟨c1, c2, c3, c4, c5⟩ := pok hn
  refine ⟨st', ?_, pm, pr, pw, ps, pf, c2, c3, c4, c5⟩
  simp only [exec_bind, hlen]
  rw [if_pos hn]
  simp only [exec_bind, strcpy_s, he, exec_pure]

/-- `strncpy_s(dest, dmax, msg, dmax-4)` as `strerror_s` calls it (`3 < dmax`): the first `dmax-4` characters (all
non-NUL) are copied and terminated.  `dmax = 4` is the `slen == 0` shortcut (`*dest = 0`, slack NOT nulled: recorded
finding `strncpy-slen0-shortcut`), so nothing is claimed behind the terminator here. -/
theorem strncpy_prefix (cfg : Cfg) (dest dmax msg : Nat) (st : St)
    (hd : dest ≠ 0) (h3 : 3 < dmax) (hle : dmax ≤ RSIZE_MAX_STR) (hrw : RW st dest dmax) (hm : msg ≠ 0)
    (hnz : ∀ j, j < dmax - 4 → st.data (msg+j) ≠ 0)
    (hrd : ∀ j, j < dmax - 4 → st.mapped (msg+j) = true ∧ st.rd (msg+j) = true)
    (hdisj : dest + dmax ≤ msg ∨ msg + (dmax - 4) < dest) :
    ∃ code s1, exec (strncpy_s cfg dest dmax msg (dmax - 4) none none) st = .ok (code, s1) ∧
      s1.mapped = st.mapped ∧ s1.rd = st.rd ∧ s1.wr = st.wr ∧ s1.strays = st.strays ∧
      (∀ a, ¬ (dest ≤ a ∧ a < dest + dmax) → s1.data a = st.data a) ∧
      s1.events = st.events ∧
      (∀ i, i < dmax - 4 → s1.data (dest+i) = st.data (msg+i)) ∧ s1.data (dest+(dmax-4)) = 0 := by
  by_cases h4 : dmax = 4
  · subst h4
    have h0 := hrw 0 (by omega)
    simp only [Nat.add_zero] at h0
    refine ⟨EOK, st.upd dest 0, ?_, rfl, rfl, rfl, rfl, ?_, rfl, ?_, by simp⟩
    · unfold strncpy_s strncpyG
      have : (4 - 4 = 0 ∧ dest ≠ 0 ∧ 4 ≠ 0) := ⟨rfl, hd, by omega⟩
      rw [if_pos this]
      simp [exec_bind, exec_store_ok _ _ _ h0.1 h0.2.1]
    · intro a ha
      exact St.upd_data_ne _ _ _ _ (by intro h; subst h; exact ha ⟨Nat.le_refl _, by omega⟩)
    · intro i hi; omega
  · obtain ⟨code, s1, he, pm, pr, pw, ps, pf, pok, _⟩ :=
      strncpyG_disjoint RSIZE_MAX_STR cfg dest dmax msg (dmax - 4) (dmax - 4) st hd hm (by omega) hle
        (Nat.le_refl _) (by omega) (by omega) hrw hnz hrd (Or.inr rfl) hdisj
    obtain ⟨_, c2, c3, c4, _⟩ := pok (by omega)
    exact ⟨code, s1, he, pm, pr, pw, ps, pf, c2, c3, c4⟩

/-- **strerror_s, truncation.**  `strerrorlen_s` answers `len ≥ dmax`, `dmax > 3`, the first `dmax-4` characters of the
message are non-NUL and readable and away from dest (`msg + (dmax-4) < dest` strictly, the `bounded-copy-src-ends-at-dest`
class), `dots` is the literal `"..."`: `EOK`, no event, dest = the first `dmax-4` characters, `...`, NUL at
`dest[dmax-1]`; frame.  Holds for `dmax = 4` too (dest = `"..."`). -/
theorem strerror_s_trunc (cfg : Cfg) (dest dmax errnum : Nat) (destbos : Bos) (msg dots len : Nat) (st : St)
    (hd : dest ≠ 0) (h3 : 3 < dmax) (hle : dmax ≤ RSIZE_MAX_STR) (hbos : ∀ b, destbos = some b → dmax ≤ b)
    (hrw : RW st dest dmax) (hlen : exec (strerrorlen_s errnum msg) st = .ok (len, st)) (hge : dmax ≤ len)
    (hm : msg ≠ 0)
    (hnz : ∀ j, j < dmax - 4 → st.data (msg+j) ≠ 0)
    (hrd : ∀ j, j < dmax - 4 → st.mapped (msg+j) = true ∧ st.rd (msg+j) = true)
    (hdisj : dest + dmax ≤ msg ∨ msg + (dmax - 4) < dest)
    (hdots : dots ≠ 0) (hds : SrcStr st dots 3) (hdd : Disjoint dest dmax dots 3)
    (h46 : st.data dots = 46 ∧ st.data (dots+1) = 46 ∧ st.data (dots+2) = 46) :
    ∃ st', exec (strerror_s cfg dest dmax errnum destbos msg dots) st = .ok (EOK, st') ∧
      st'.mapped = st.mapped ∧ st'.rd = st.rd ∧ st'.wr = st.wr ∧ st'.strays = st.strays ∧
      (∀ a, ¬ (dest ≤ a ∧ a < dest + dmax) → st'.data a = st.data a) ∧
      st'.events = st.events ∧
      (∀ i, i < dmax - 4 → st'.data (dest+i) = st.data (msg+i)) ∧
      st'.data (dest + (dmax-4)) = 46 ∧ st'.data (dest + (dmax-3)) = 46 ∧ st'.data (dest + (dmax-2)) = 46 ∧
      st'.data (dest + (dmax-1)) = 0 := by
  have hpos : 0 < dmax := by omega
  rw [strerror_s_enter cfg dest dmax errnum destbos msg dots hd hpos hle hbos]
  unfold strerrorBody
  obtain ⟨c1, s1, he1, m1, r1, w1, t1, f1, e1, p1, z1⟩ :=
    strncpy_prefix cfg dest dmax msg st hd h3 hle hrw hm hnz hrd hdisj
  have hrw1 : RW s1 dest dmax := by intro i hi; rw [m1, w1, r1]; exact hrw i hi
  have hds1 : SrcStr s1 dots 3 := hds.of_frame m1 r1 f1 hdd
  obtain ⟨c2, s2, he2, m2, r2, w2, t2, f2, pok, _⟩ :=
    strcatG_disjoint RSIZE_MAX_STR cfg dest dmax dots (dmax - 4) 3 s1 hd hdots hpos hle hrw1 hds1 hdd
      (by omega) (by intro j hj; rw [p1 j hj]; exact hnz j hj) z1
  obtain ⟨_, e2, q1, q2, q3, _⟩ := pok (by omega)
  have hdf : ∀ j, j ≤ 3 → s1.data (dots + j) = st.data (dots + j) := by
    intro j hj; unfold Disjoint at hdd; exact f1 _ (by omega)
  have hnlt : ¬ len < dmax := by omega
  refine ⟨s2, ?_, m2.trans m1, r2.trans r1, w2.trans w1, t2.trans t1, ?_, e2.trans e1, ?_, ?_, ?_, ?_, ?_⟩
  · simp only [exec_bind, hlen]
    rw [if_neg hnlt, if_pos h3]
    simp only [exec_bind, he1, strcat_s, he2, exec_pure]
  · intro a ha; rw [f2 a ha, f1 a ha]
  · intro i hi; rw [q1 i hi, p1 i hi]
  · have := q2 0 (by omega)
    simp only [Nat.add_zero] at this
    have h0 := hdf 0 (by omega)
    simp only [Nat.add_zero] at h0
    rw [this, h0]; exact h46.1
  · have := q2 1 (by omega)
    have e : dest + (dmax - 4) + 1 = dest + (dmax - 3) := by omega
    rw [e] at this
    rw [this, hdf 1 (by omega)]; exact h46.2.1
  · have := q2 2 (by omega)
    have e : dest + (dmax - 4) + 2 = dest + (dmax - 2) := by omega
    rw [e] at this
    rw [this, hdf 2 (by omega)]; exact h46.2.2
  · have e : dest + (dmax - 4) + 3 = dest + (dmax - 1) := by omega
    rw [e] at q3; exact q3

/-- **strerror_s, `dmax ≤ 3` and the message does not fit**: `ESLEMIN`, exactly one handler event, dest[0] = 0 and
(null-slack) all `dmax` cells zero; frame. -/
theorem strerror_s_lemin (cfg : Cfg) (dest dmax errnum : Nat) (destbos : Bos) (msg dots len : Nat) (st : St)
    (hd : dest ≠ 0) (hpos : 0 < dmax) (h3 : dmax ≤ 3) (hbos : ∀ b, destbos = some b → dmax ≤ b)
    (hrw : RW st dest dmax) (hlen : exec (strerrorlen_s errnum msg) st = .ok (len, st)) (hge : dmax ≤ len) :
    ∃ st', exec (strerror_s cfg dest dmax errnum destbos msg dots) st = .ok (ESLEMIN, st') ∧
      st'.mapped = st.mapped ∧ st'.rd = st.rd ∧ st'.wr = st.wr ∧ st'.strays = st.strays ∧
      (∀ a, ¬ (dest ≤ a ∧ a < dest + dmax) → st'.data a = st.data a) ∧
      st'.events = st.events ++ [.handler .str ESLEMIN] ∧ st'.data dest = 0 ∧
      (cfg.slack = true → ∀ i, i < dmax → st'.data (dest+i) = 0) := by
  have h3' : (3 : Nat) ≤ RSIZE_MAX_STR := by decide
  have hle : dmax ≤ RSIZE_MAX_STR := Nat.le_trans h3 h3'
  rw [strerror_s_enter cfg dest dmax errnum destbos msg dots hd hpos hle hbos]
  unfold strerrorBody
  obtain ⟨st', he, rest⟩ := herr_dest cfg dest dmax ESLEMIN st hrw hpos
  have hnlt : ¬ len < dmax := by omega
  have hn3 : ¬ dmax > 3 := by omega
  refine ⟨st', ?_, rest⟩
  simp only [exec_bind, hlen]
  rw [if_neg hnlt, if_neg hn3]
  simp only [exec_bind, he, exec_pure]

/-- the three exits of `strerror_s` on valid operands in one statement.  `msg` holds a string of length `n`;
`strerrorlen_s` answers `len` with `len = n`, or both at least `dmax` (libc `strlen` running out of fuel on a message
longer than `scanFuel`; then the message does not fit either way). -/
theorem strerror_s_all (cfg : Cfg) (dest dmax errnum : Nat) (destbos : Bos) (msg dots n len : Nat) (st : St)
    (hd : dest ≠ 0) (hpos : 0 < dmax) (hle : dmax ≤ RSIZE_MAX_STR) (hbos : ∀ b, destbos = some b → dmax ≤ b)
    (hrw : RW st dest dmax) (hlen : exec (strerrorlen_s errnum msg) st = .ok (len, st))
    (hagree : len = n ∨ (dmax ≤ len ∧ dmax ≤ n))
    (hm : msg ≠ 0) (hsrc : SrcStr st msg n) (hdisj : Disjoint dest dmax msg n)
    (hdots : dots ≠ 0) (hds : SrcStr st dots 3) (hdd : Disjoint dest dmax dots 3)
    (h46 : st.data dots = 46 ∧ st.data (dots+1) = 46 ∧ st.data (dots+2) = 46) :
    ∃ code st', exec (strerror_s cfg dest dmax errnum destbos msg dots) st = .ok (code, st') ∧
      st'.mapped = st.mapped ∧ st'.rd = st.rd ∧ st'.wr = st.wr ∧ st'.strays = st.strays ∧
      (∀ a, ¬ (dest ≤ a ∧ a < dest + dmax) → st'.data a = st.data a) ∧
      (n < dmax → code = EOK ∧ st'.events = st.events ∧
        (∀ i, i < n → st'.data (dest+i) = st.data (msg+i)) ∧ st'.data (dest+n) = 0 ∧
        (cfg.slack = true → ∀ i, n ≤ i → i < dmax → st'.data (dest+i) = 0)) ∧
      (dmax ≤ n → 3 < dmax → code = EOK ∧ st'.events = st.events ∧
        (∀ i, i < dmax - 4 → st'.data (dest+i) = st.data (msg+i)) ∧
        st'.data (dest + (dmax-4)) = 46 ∧ st'.data (dest + (dmax-3)) = 46 ∧ st'.data (dest + (dmax-2)) = 46 ∧
        st'.data (dest + (dmax-1)) = 0) ∧
      (dmax ≤ n → dmax ≤ 3 → code = ESLEMIN ∧ st'.events = st.events ++ [.handler .str ESLEMIN] ∧
        st'.data dest = 0 ∧ (cfg.slack = true → ∀ i, i < dmax → st'.data (dest+i) = 0)) := by
  by_cases hn : n < dmax
  · have hl : len = n := by rcases hagree with h | h <;> omega
    subst hl
    obtain ⟨st', he, pm, pr, pw, ps, pf, c2, c3, c4, c5⟩ :=
      strerror_s_fit cfg dest dmax errnum destbos msg dots len st hd hpos hle hbos hrw hlen hm hsrc hn hdisj
    exact ⟨EOK, st', he, pm, pr, pw, ps, pf, fun _ => ⟨rfl, c2, c3, c4, c5⟩,
      fun h => absurd hn (by omega), fun h => absurd hn (by omega)⟩
  · have hge : dmax ≤ len := by rcases hagree with h | h <;> omega
    by_cases h3 : 3 < dmax
    · obtain ⟨st', he, pm, pr, pw, ps, pf, c2, c3, c4, c5, c6, c7⟩ :=
        strerror_s_trunc cfg dest dmax errnum destbos msg dots len st hd h3 hle hbos hrw hlen hge hm
          (fun j hj => hsrc.nz j (by omega)) (fun j hj => hsrc.rd j (by omega))
          (by unfold Disjoint at hdisj; omega) hdots hds hdd h46
      exact ⟨EOK, st', he, pm, pr, pw, ps, pf, fun h => absurd h hn,
        fun _ _ => ⟨rfl, c2, c3, c4, c5, c6, c7⟩, fun _ h => absurd h3 (by omega)⟩
    · obtain ⟨st', he, pm, pr, pw, ps, pf, c2, c3, c4⟩ :=
        strerror_s_lemin cfg dest dmax errnum destbos msg dots len st hd hpos (by omega) hbos hrw hlen hge
      exact ⟨ESLEMIN, st', he, pm, pr, pw, ps, pf, fun h => absurd h hn,
        fun _ h => absurd h h3, fun _ _ => ⟨rfl, c2, c3, c4⟩⟩

/-! ## a concrete state for the non-vacuity `example`s of `Props/C0{3,4,8}ExtOs.lean`

dest = 100 (8 cells, filled with 7), value = 200 `"aa"`, name = 300 `"A"`, msg = 400 (eleven `d`), dots = 500 `"..."`;
only these extents are mapped and readable, only dest is writable. -/
def osExSt : St :=
  { data := fun a =>
      if 100 ≤ a ∧ a < 108 then 7 else if 200 ≤ a ∧ a < 202 then 97 else if a = 300 then 65
      else if 400 ≤ a ∧ a < 411 then 100 else if 500 ≤ a ∧ a < 503 then 46 else 0
    mapped := fun a => decide (100 ≤ a ∧ a < 108 ∨ 200 ≤ a ∧ a < 203 ∨ 300 ≤ a ∧ a < 302 ∨ 400 ≤ a ∧ a < 412 ∨ 500 ≤ a ∧ a < 504)
    rd := fun a => decide (100 ≤ a ∧ a < 108 ∨ 200 ≤ a ∧ a < 203 ∨ 300 ≤ a ∧ a < 302 ∨ 400 ≤ a ∧ a < 412 ∨ 500 ≤ a ∧ a < 504)
    wr := fun a => decide (100 ≤ a ∧ a < 108) }

theorem osExSt_rw : RW osExSt 100 8 := by
  intro i hi
  simp only [osExSt, decide_eq_true_eq]
  omega

theorem osExSt_str (s n : Nat) (h : (s = 200 ∧ n = 2) ∨ (s = 300 ∧ n = 1) ∨ (s = 400 ∧ n = 11) ∨ (s = 500 ∧ n = 3)) :
    SrcStr osExSt s n := by
  refine ⟨?_, ?_, ?_⟩
  · intro j hj
    rcases h with ⟨rfl, rfl⟩ | ⟨rfl, rfl⟩ | ⟨rfl, rfl⟩ | ⟨rfl, rfl⟩
    · have h1 : ¬ (100 ≤ 200 + j ∧ 200 + j < 108) := by omega
      have h2 : 200 ≤ 200 + j ∧ 200 + j < 202 := by omega
      simp [osExSt, h1, h2]
    · have h0 : j = 0 := by omega
      subst h0; simp [osExSt]
    · have h1 : ¬ (100 ≤ 400 + j ∧ 400 + j < 108) := by omega
      have h2 : ¬ (200 ≤ 400 + j ∧ 400 + j < 202) := by omega
      have h3 : ¬ (400 + j = 300) := by omega
      have h4 : 400 ≤ 400 + j ∧ 400 + j < 411 := by omega
      simp [osExSt, h1, h2, h3, h4]
    · have h1 : ¬ (100 ≤ 500 + j ∧ 500 + j < 108) := by omega
      have h2 : ¬ (200 ≤ 500 + j ∧ 500 + j < 202) := by omega
      have h3 : ¬ (500 + j = 300) := by omega
      have h4 : ¬ (400 ≤ 500 + j ∧ 500 + j < 411) := by omega
      have h5 : 500 ≤ 500 + j ∧ 500 + j < 503 := by omega
      simp [osExSt, h1, h2, h3, h4, h5]
  · rcases h with ⟨rfl, rfl⟩ | ⟨rfl, rfl⟩ | ⟨rfl, rfl⟩ | ⟨rfl, rfl⟩ <;> simp [osExSt]
  · intro j hj
    simp only [osExSt, decide_eq_true_eq]
    rcases h with ⟨rfl, rfl⟩ | ⟨rfl, rfl⟩ | ⟨rfl, rfl⟩ | ⟨rfl, rfl⟩ <;> omega

theorem osExSt_dots : osExSt.data 500 = 46 ∧ osExSt.data (500+1) = 46 ∧ osExSt.data (500+2) = 46 := by
  simp [osExSt]

end SafeC

import SafeC.Proofs.ConvStr
/-! C15: glibc's multibyte → wide step (`mbMain`, `gconvMb` with its pending-byte state) on a WINDOW of a valid
string: it decodes whole characters, and what is left over is a proper prefix of the next character's encoding. -/
namespace SafeC.Conv.Libc

theorem utf8Body_incomplete (b : Nat) (rest : List Nat) (cnt hi : Nat) (hb : ¬ b < 0x80) (hl : lead b = some (cnt, hi))
    (hall : rest.all isCont = true) (hlen : rest.length < cnt - 1) : utf8Body (b :: rest) = .incomplete := by
  have ht : rest.take (cnt - 1) = rest := List.take_of_length_le (by omega)
  simp [utf8Body, hb, hl, ht, hall, hlen]

/-- a proper, non-empty prefix of an encoding is an incomplete (not an illegal) sequence -/
theorem body_prefix_incomplete (loc : Locale) (c : Nat) (e : List Nat) (h : enc loc c = some e) (k : Nat) (h0 : 0 < k)
    (hk : k < e.length) : body loc (e.take k) = .incomplete := by
  cases loc
  · simp only [enc, asciiEnc] at h; split at h <;> cases h; simp at hk; omega
  · simp only [enc, utf8Enc] at h
    split at h
    · cases h
    · split at h
      · cases h; simp at hk; omega
      · split at h
        · cases h
          have : k = 1 := by simp at hk; omega
          subst this
          exact utf8Body_incomplete _ _ 2 (c / 64) (by omega) (lead2 _ (by omega) (by omega)) (by simp) (by simp)
        · split at h
          · cases h
            have : k = 1 ∨ k = 2 := by simp at hk; omega
            rcases this with rfl | rfl <;>
              exact utf8Body_incomplete _ _ 3 (c / 4096) (by omega) (lead3 _ (by omega)) (by simp [isCont_mk]) (by simp)
          · split at h
            · cases h
              have : k = 1 ∨ k = 2 ∨ k = 3 := by simp at hk; omega
              rcases this with rfl | rfl | rfl <;>
                exact utf8Body_incomplete _ _ 4 (c / 262144) (by omega) (lead4 _ (by omega)) (by simp [isCont_mk]) (by simp)
            · split at h
              · cases h
                have : k = 1 ∨ k = 2 ∨ k = 3 ∨ k = 4 := by simp at hk; omega
                rcases this with rfl | rfl | rfl | rfl <;>
                  exact utf8Body_incomplete _ _ 5 (c / 16777216) (by omega) (lead5 _ (by omega)) (by simp [isCont_mk]) (by simp)
              · cases h
                have hc : c ≤ 0x7fffffff := by
                  rename_i hbad _ _ _ _ _
                  simp only [Bool.or_eq_true, decide_eq_true_eq, not_or, Nat.not_lt] at hbad; omega
                have : k = 1 ∨ k = 2 ∨ k = 3 ∨ k = 4 ∨ k = 5 := by simp at hk; omega
                rcases this with rfl | rfl | rfl | rfl | rfl <;>
                  exact utf8Body_incomplete _ _ 6 (c / 1073741824) (by omega) (lead6 _ (by omega)) (by simp [isCont_mk]) (by simp)

/-- what one conversion step does on a window `w` of a valid string whose characters are `cs`, entered with the pending
bytes `pend`: `m` whole characters are delivered and (E) the window is used up at a character boundary, or (I) used up
inside a character (the new pending bytes are a proper prefix of that character's encoding), or (F) the output is full
with input left -/
def StepOK (loc : Locale) (cs pend w : List Nat) (space : Nat) (r : GR) : Prop :=
  ∃ m p, m ≤ cs.length ∧ m ≤ space ∧ encodeAll loc (cs.take m) = some p ∧
    ((r = ⟨cs.take m, w.length, [], .empty⟩ ∧ pend ++ w = p)
     ∨ (∃ st c y, r = ⟨cs.take m, w.length, st, .incomplete⟩ ∧ pend ++ w = p ++ st ∧ m < space ∧ cs[m]? = some c ∧
          enc loc c = some (st ++ y) ∧ st ≠ [] ∧ y ≠ [])
     ∨ (∃ w1 y, r = ⟨cs.take m, w1.length, [], .full⟩ ∧ m = space ∧ w = w1 ++ y ∧ y ≠ [] ∧ pend ++ w1 = p))

theorem mbMain_window (loc : Locale) (cs B : List Nat) (hB : encodeAll loc cs = some B) (w x : List Nat)
    (hwx : w ++ x = B) (fuel : Nat) (hf : w.length < fuel) (space : Nat) :
    StepOK loc cs [] w space (mbMain loc fuel w space) := by
  induction cs generalizing B w x fuel space with
  | nil =>
    cases hB
    have hw : w = [] := by cases w <;> simp_all
    subst hw
    obtain ⟨fuel, rfl⟩ : ∃ f, fuel = f + 1 := ⟨fuel - 1, by omega⟩
    exact ⟨0, [], by simp, by simp, rfl, Or.inl ⟨by simp [mbMain], rfl⟩⟩
  | cons c cs ih =>
    obtain ⟨a, b, ha, hb, rfl⟩ := encodeAll_cons_inv loc c cs B hB
    obtain ⟨fuel, rfl⟩ : ∃ f, fuel = f + 1 := ⟨fuel - 1, by omega⟩
    have hapos := enc_length_pos loc c a ha
    by_cases hw : w = []
    · subst hw
      exact ⟨0, [], by simp, by simp, rfl, Or.inl ⟨by simp [mbMain], rfl⟩⟩
    have hwe : w.isEmpty = false := by cases w <;> simp_all
    by_cases hs : space = 0
    · subst hs
      exact ⟨0, [], by simp, by simp, rfl, Or.inr (Or.inr ⟨[], w, by simp [mbMain, hwe], rfl, by simp, hw, rfl⟩)⟩
    have hsplit : (∃ y, y ≠ [] ∧ a = w ++ y) ∨ (∃ w', w = a ++ w' ∧ b = w' ++ x) := by
      rcases List.append_eq_append_iff.mp hwx with ⟨y, hay, hxy⟩ | ⟨w', hw', hbw⟩
      · by_cases hy : y = []
        · subst hy; right; exact ⟨[], by simpa using hay.symm, by simpa using hxy.symm⟩
        · left; exact ⟨y, hy, hay⟩
      · right; exact ⟨w', hw', hbw⟩
    rcases hsplit with ⟨y, hy, hay⟩ | ⟨w', hw', hbw⟩
    · -- the window ends inside the first character
      have hlen : w.length < a.length := by
        rw [hay, List.length_append]; have : 0 < y.length := List.length_pos_iff.mpr hy; omega
      have hwt : a.take w.length = w := by rw [hay]; simp
      have hbody : body loc w = .incomplete := by
        rw [← hwt]; exact body_prefix_incomplete loc c a ha w.length (List.length_pos_iff.mpr hw) hlen
      refine ⟨0, [], by simp, by simp, rfl, Or.inr (Or.inl ⟨w, c, y, ?_, by simp, by omega, by simp, by rw [← hay]; exact ha, hw, hy⟩)⟩
      simp [mbMain, hwe, hs, hbody]
    · -- w = a ++ w'
      subst hw'
      have hbody : body loc (a ++ w') = .ok c a.length := body_enc loc c a w' ha
      have hrec := ih b hb w' x hbw.symm fuel (by simp only [List.length_append] at hf; omega) (space - 1)
      obtain ⟨m, p, hm, hms, hp, hcase⟩ := hrec
      have hstep : mbMain loc (fuel + 1) (a ++ w') space =
          ⟨c :: (mbMain loc fuel w' (space - 1)).out, a.length + (mbMain loc fuel w' (space - 1)).used,
            (mbMain loc fuel w' (space - 1)).st, (mbMain loc fuel w' (space - 1)).status⟩ := by
        simp [mbMain, hwe, hs, hbody]
      refine ⟨m + 1, a ++ p, by simp; omega, by omega, by rw [List.take_succ_cons]; exact encodeAll_cons loc c _ a p ha hp, ?_⟩
      rcases hcase with ⟨hr, hpw⟩ | ⟨st, d, y, hr, hpw, hmlt, hd, hed, hst, hy⟩ | ⟨w1, y, hr, hmeq, hwy, hy, hpw⟩
      · left
        rw [hstep, hr]
        simp only [List.nil_append] at hpw
        exact ⟨by simp, by simp [hpw]⟩
      · right; left
        refine ⟨st, d, y, ?_, ?_, by omega, by simpa using hd, hed, hst, hy⟩
        · rw [hstep, hr]; simp
        · simp only [List.nil_append] at hpw ⊢; rw [hpw, List.append_assoc]
      · right; right
        refine ⟨a ++ w1, y, ?_, by omega, by rw [hwy, List.append_assoc], hy, ?_⟩
        · rw [hstep, hr]; simp
        · simp only [List.nil_append] at hpw ⊢; rw [hpw]

/-- a genuine conversion state in front of the characters `cs`: initial, or a proper non-empty prefix of the encoding of
the first character -/
def PendOK (loc : Locale) (pend cs : List Nat) : Prop :=
  pend = [] ∨ ∃ c cs' y, cs = c :: cs' ∧ enc loc c = some (pend ++ y) ∧ pend ≠ [] ∧ y ≠ []

/-- one call of the step function with `consume_incomplete`, any genuine entry state -/
theorem gconvMb_window (loc : Locale) (cs B : List Nat) (hB : encodeAll loc cs = some B) (pend w x : List Nat)
    (hwx : pend ++ w ++ x = B) (hp : PendOK loc pend cs) (space : Nat) (hs : 0 < space) :
    StepOK loc cs pend w space (gconvMb loc pend w space) := by
  rcases hp with rfl | ⟨c, cs', y, rfl, he, hpe, hy⟩
  · have : gconvMb loc [] w space = mbMain loc (w.length + 1) w space := by simp [gconvMb]
    rw [this]
    exact mbMain_window loc cs B hB w x (by simpa using hwx) _ (by omega) space
  · obtain ⟨a, b, ha, hb, rfl⟩ := encodeAll_cons_inv loc c cs' B hB
    rw [he] at ha; cases ha
    have hpe' : pend.isEmpty = false := by cases pend <;> simp_all
    have hs0 : ¬ space = 0 := by omega
    have h6 := enc_length_le loc c _ he
    simp only [List.length_append] at h6
    have hwx' : w ++ x = y ++ b := by
      have : pend ++ (w ++ x) = pend ++ (y ++ b) := by simpa [List.append_assoc] using hwx
      exact List.append_cancel_left this
    have hsplit : (∃ z, z ≠ [] ∧ y = w ++ z) ∨ (∃ w', w = y ++ w' ∧ b = w' ++ x) := by
      rcases List.append_eq_append_iff.mp hwx' with ⟨z, hyz, hxz⟩ | ⟨w', hw', hbw⟩
      · by_cases hz : z = []
        · subst hz; right; exact ⟨[], by simpa using hyz.symm, by simpa using hxz.symm⟩
        · left; exact ⟨z, hz, hyz⟩
      · right; exact ⟨w', hw', hbw⟩
    rcases hsplit with ⟨z, hz, hyz⟩ | ⟨w', hw', hbw⟩
    · -- the window does not complete the pending character
      subst hyz
      have hzpos : 0 < z.length := List.length_pos_iff.mpr hz
      simp only [List.length_append] at h6
      have htk : w.take (6 - pend.length) = w := List.take_of_length_le (by omega)
      have hpre : (pend ++ (w ++ z)).take (pend.length + w.length) = pend ++ w := by
        rw [← List.append_assoc, List.take_append_of_le_length (by simp), List.take_of_length_le (by simp)]
      have hbody : body loc (pend ++ w) = .incomplete := by
        rw [← hpre]
        exact body_prefix_incomplete loc c _ he _ (by have := List.length_pos_iff.mpr hpe; omega)
          (by simp only [List.length_append]; omega)
      refine ⟨0, [], by simp, by omega, rfl, Or.inr (Or.inl ⟨pend ++ w, c, z, ?_, by simp, hs, by simp,
        by rw [List.append_assoc]; exact he, by simp [hpe], hz⟩)⟩
      simp [gconvMb, hpe', hs0, htk, hbody]
    · -- the window completes it: one character from the staging buffer, then the main loop
      subst hw'
      have htk : (y ++ w').take (6 - pend.length) = y ++ w'.take (6 - pend.length - y.length) := by
        rw [List.take_append, List.take_of_length_le (by omega)]
      have hbody : body loc (pend ++ (y ++ w'.take (6 - pend.length - y.length))) = .ok c (pend ++ y).length := by
        rw [← List.append_assoc]; exact body_enc loc c _ _ he
      have hu : (pend ++ y).length - pend.length = y.length := by simp
      have hrec := mbMain_window loc cs' b hb w' x hbw.symm ((y ++ w').length + 1)
        (by simp only [List.length_append]; omega) (space - 1)
      obtain ⟨m, p, hm, hms, hp, hcase⟩ := hrec
      have hstep : gconvMb loc pend (y ++ w') space =
          ⟨c :: (mbMain loc ((y ++ w').length + 1) w' (space - 1)).out,
            y.length + (mbMain loc ((y ++ w').length + 1) w' (space - 1)).used,
            (mbMain loc ((y ++ w').length + 1) w' (space - 1)).st,
            (mbMain loc ((y ++ w').length + 1) w' (space - 1)).status⟩ := by
        simp only [gconvMb, hpe', Bool.false_eq_true, ↓reduceIte, hs0, htk, hbody, hu, List.drop_left]
      refine ⟨m + 1, (pend ++ y) ++ p, by simp; omega, by omega,
        by rw [List.take_succ_cons]; exact encodeAll_cons loc c _ _ p he hp, ?_⟩
      rcases hcase with ⟨hr, hpw⟩ | ⟨st, d, y', hr, hpw, hmlt, hd, hed, hst, hy'⟩ | ⟨w1, y', hr, hmeq, hwy, hy', hpw⟩
      · left
        rw [hstep, hr]
        simp only [List.nil_append] at hpw
        exact ⟨by simp, by simp [hpw]⟩
      · right; left
        refine ⟨st, d, y', ?_, ?_, by omega, by simpa using hd, hed, hst, hy'⟩
        · rw [hstep, hr]; simp
        · simp only [List.nil_append] at hpw; rw [hpw]; simp [List.append_assoc]
      · right; right
        refine ⟨y ++ w1, y', ?_, by omega, by rw [hwy, List.append_assoc], hy', ?_⟩
        · rw [hstep, hr]; simp
        · simp only [List.nil_append] at hpw; rw [hpw]; simp [List.append_assoc]

end SafeC.Conv.Libc

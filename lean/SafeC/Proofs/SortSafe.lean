import SafeC.Models.Sort
/-!
# qsort_s model: bounds of the building blocks

`sift` never leaves the Leonardo tree it is called on: with `lp` holding the Leonardo numbers up to `pshift`
and the tree of order `pshift` rooted at `head` lying inside the array (`leo pshift ≤ head + 1`, `head < n`),
every position compared or moved is `< n`, no pointer goes below `base`, `ar[]` is not overrun, and the call
returns.  Every comparator.  (The corresponding statement for `trinkle` and the main loops needs the forest-shape
invariant tying `(p, pshift)` to `head`; see NOTES_C16.md §2 — not proved.)
-/
namespace SafeC.Sort

/-- Leonardo numbers -/
def leo : Nat → Nat
  | 0 => 1
  | 1 => 1
  | n + 2 => leo n + leo (n + 1) + 1

theorem leo_pos (k : Nat) : 1 ≤ leo k := by
  match k with
  | 0 => simp [leo]
  | 1 => simp [leo]
  | n + 2 => simp [leo]

/-- total correctness in the `Except Fault` monad -/
def Tot (x : M β) (Q : β → Prop) : Prop := ∃ r, x = .ok r ∧ Q r

theorem Tot.bind {x : M β} {f : β → M γ} {Q : γ → Prop} (P : β → Prop)
    (hx : Tot x P) (hf : ∀ y, P y → Tot (f y) Q) : Tot (x >>= f) Q := by
  obtain ⟨y, hy, py⟩ := hx
  obtain ⟨r, hr, qr⟩ := hf y py
  exact ⟨r, by rw [hy]; exact hr, qr⟩

theorem Tot.ok {y : β} {Q : β → Prop} (h : Q y) : Tot (.ok y : M β) Q := ⟨y, rfl, h⟩
theorem Tot.pure {y : β} {Q : β → Prop} (h : Q y) : Tot (pure y : M β) Q := ⟨y, rfl, h⟩

theorem Tot.ite {c : Prop} [Decidable c] {a b : M β} {Q : β → Prop}
    (ha : c → Tot a Q) (hb : ¬c → Tot b Q) : Tot (if c then a else b) Q := by
  split
  · exact ha ‹_›
  · exact hb ‹_›

/-- `lp[0..k]` are the Leonardo numbers -/
def LpOk (lp : Array Nat) (k : Nat) : Prop := ∀ i, i ≤ k → lp[i]? = some (leo i)

theorem sub_tot {x y : Nat} (h : y ≤ x) : Tot (sub x y) (fun r => r = x - y) := by
  unfold sub; simp only [h, if_true]; exact Tot.ok rfl

theorem lpAt_tot {lp : Array Nat} {k i : Nat} (h : LpOk lp k) (hi : i ≤ k) : Tot (lpAt lp i) (fun r => r = leo i) := by
  unfold lpAt; rw [h i hi]; exact Tot.ok rfl

theorem cmpAt_tot (e : Env α) (s : St α) {i j : Nat} (hi : i < s.a.size) (hj : j < s.a.size) :
    Tot (cmpAt e s i j) (fun r => r.2.a = s.a) := by
  unfold cmpAt; simp only [hi, hj, dite_true]; exact Tot.ok rfl

theorem cycleGo_tot (tmp : α) : ∀ (ar : List Nat) (a : Array α) (x : Nat), x < a.size → (∀ y ∈ ar, y < a.size) →
    Tot (cycleGo a tmp (x :: ar)) (fun r => r.size = a.size)
  | [], a, x, hx, _ => by
    unfold cycleGo setE; simp only [hx, dite_true]; exact Tot.ok (by simp)
  | y :: rest, a, x, hx, h => by
    have hy : y < a.size := h y (by simp)
    unfold cycleGo getE setE
    simp only [hy, hx, dite_true]
    show Tot (cycleGo (a.set x a[y]) tmp (y :: rest)) _
    obtain ⟨r, hr, hs⟩ := cycleGo_tot tmp rest (a.set x a[y]) y (by simpa using hy)
      (by intro z hz; have := h z (by simp [hz]); simpa using this)
    exact ⟨r, hr, by simpa using hs⟩

/-- `cycle` on positions inside the array, at most 112 of them: returns, size unchanged -/
theorem cycle_tot (s : St α) (ar : List Nat) (h : ∀ y ∈ ar, y < s.a.size) (hl : ar.length ≤ 112) :
    Tot (cycle s ar) (fun r => r.a.size = s.a.size) := by
  unfold cycle
  split
  · exact Tot.ok rfl
  · exact Tot.ok rfl
  · rename_i x y rest
    have hx : x < s.a.size := h x (by simp)
    have hl' : ¬ (x :: y :: rest).length > 112 := by omega
    simp only [hl', if_false]
    unfold getE
    simp only [hx, dite_true]
    obtain ⟨r, hr, hs⟩ := cycleGo_tot s.a[x] (y :: rest) s.a x hx (by intro z hz; exact h z (by simp [hz]))
    exact ⟨{ s with a := r }, by simp [bind, Except.bind, hr, pure, Except.pure], hs⟩

theorem siftLoop_safe (e : Env α) (n ar0 : Nat) (h0 : ar0 < n) : ∀ (room : Nat) (s : St α) (head pshift : Nat) (acc : List Nat),
    s.a.size = n → head < n → leo pshift ≤ head + 1 → LpOk e.lp pshift → pshift ≤ room + 1 → (∀ x ∈ acc, x < n) →
    Tot (siftLoop e room s ar0 head pshift acc)
      (fun r => r.1.a.size = n ∧ (∀ x ∈ r.2, x < n) ∧ r.2.length ≤ acc.length + pshift) := by
  intro room
  induction room with
  | zero =>
    intro s head pshift acc hs hh hl hlp hr hacc
    unfold siftLoop
    have : pshift ≤ 1 := by omega
    simp only [this, if_true]
    exact Tot.ok ⟨hs, hacc, Nat.le_add_right _ _⟩
  | succ room ih =>
    intro s head pshift acc hs hh hl hlp hr hacc
    unfold siftLoop
    by_cases hp : pshift ≤ 1
    · simp only [hp, if_true]
      exact Tot.ok ⟨hs, hacc, Nat.le_add_right _ _⟩
    · simp only [hp, if_false]
      obtain ⟨k, rfl⟩ : ∃ k, pshift = k + 2 := ⟨pshift - 2, by omega⟩
      have hleo : leo (k + 2) = leo k + leo (k + 1) + 1 := by simp [leo]
      have p0 := leo_pos k
      have p1 := leo_pos (k + 1)
      refine Tot.bind _ (sub_tot (by omega)) (fun rt hrt => ?_)
      refine Tot.bind _ (lpAt_tot hlp (by omega : k + 2 - 2 ≤ k + 2)) (fun l hl2 => ?_)
      have hl2' : l = leo k := by simpa using hl2
      subst hrt; subst hl2'
      refine Tot.bind _ (sub_tot (by omega)) (fun lf hlf => ?_)
      subst hlf
      have hlfn : head - 1 - leo k < s.a.size := by omega
      have hrtn : head - 1 < s.a.size := by omega
      have h0' : ar0 < s.a.size := by omega
      refine Tot.bind _ (cmpAt_tot e s h0' hlfn) (fun ⟨c1, s1⟩ h1 => ?_)
      have h1' : s1.a = s.a := h1
      refine Tot.bind (fun r => r.2.a = s.a) ?_ (fun ⟨stop, s2⟩ h2 => ?_)
      · refine Tot.ite (fun _ => ?_) (fun _ => Tot.pure h1')
        refine Tot.bind _ (cmpAt_tot e s1 (by rw [h1']; exact h0') (by rw [h1']; exact hrtn)) (fun ⟨c2, s'⟩ h' => ?_)
        exact Tot.pure (by simpa using (show s'.a = s1.a from h').trans h1')
      · have h2' : s2.a = s.a := h2
        refine Tot.ite (fun _ => Tot.ok ⟨by rw [h2', hs], hacc, Nat.le_add_right _ _⟩) (fun _ => ?_)
        refine Tot.bind _ (cmpAt_tot e s2 (by rw [h2']; exact hlfn) (by rw [h2']; exact hrtn)) (fun ⟨c3, s3⟩ h3 => ?_)
        have h3' : s3.a = s.a := (show s3.a = s2.a from h3).trans h2'
        refine Tot.ite (fun _ => ?_) (fun _ => ?_)
        · obtain ⟨r, hr1, q1, q2, q4⟩ := ih s3 (head - 1 - leo k) (k + 2 - 1) ((head - 1 - leo k) :: acc) (by rw [h3', hs]) (by omega)
            (by have : k + 2 - 1 = k + 1 := by omega
                rw [this]; omega)
            (fun i hi => hlp i (by omega)) (by omega)
            (by intro x hx; rcases List.mem_cons.mp hx with h | h
                · omega
                · exact hacc x h)
          exact ⟨r, hr1, q1, q2, by simp at q4 ⊢; omega⟩
        · obtain ⟨r, hr1, q1, q2, q4⟩ := ih s3 (head - 1) (k + 2 - 2) ((head - 1) :: acc) (by rw [h3', hs]) (by omega)
            (by have : k + 2 - 2 = k := by omega
                rw [this]; omega)
            (fun i hi => hlp i (by omega)) (by omega)
            (by intro x hx; rcases List.mem_cons.mp hx with h | h
                · omega
                · exact hacc x h)
          exact ⟨r, hr1, q1, q2, by simp at q4 ⊢; omega⟩

/-- `sift` inside a Leonardo tree that lies inside the array: returns, every position touched is `< n` -/
theorem sift_safe (e : Env α) (s : St α) (n head pshift : Nat) (hs : s.a.size = n) (hh : head < n)
    (hl : leo pshift ≤ head + 1) (hlp : LpOk e.lp pshift) (hp : pshift ≤ 111) :
    Tot (sift e s head pshift) (fun r => r.a.size = n) := by
  unfold sift
  refine Tot.bind _ (siftLoop_safe e n head hh 112 s head pshift [head] hs hh hl hlp (by omega) (by simp; exact hh)) (fun ⟨s1, acc⟩ h1 => ?_)
  obtain ⟨q1, q2, q4⟩ := h1
  obtain ⟨r, hr, hsz⟩ := cycle_tot s1 acc.reverse (by intro y hy; rw [q1]; exact q2 y (by simpa using hy)) (by simp at q4 ⊢; omega)
  exact ⟨r, hr, by show r.a.size = n; rw [hsz]; exact q1⟩

end SafeC.Sort

import SafeC.Proofs.AccWalk
import SafeC.Models.Fld
/-!
# Footprint of the field copies `strcpyfld_s strcpyfldin_s strcpyfldout_s` (value-independent: `Acc`)

All three loops test their counters before they dereference: `src` is read inside its first `slen` cells, `dest`
written (and, on the error exits, measured by `strnlen_s` and cleared) inside its `dmax` cells.
-/
namespace SafeC
open Gen

variable {R W : Nat → Prop}

theorem Acc_memsetP' (v n p : Nat) (hw : ∀ a, Cells p n a → W a) : Acc R W (memsetP v n p) (fun _ => True) := by
  induction n generalizing p with
  | zero => exact Acc.pure _ trivial
  | succ n ih =>
    unfold memsetP
    exact Acc.storeBind (hw _ ⟨by omega, by omega⟩) (ih _ (fun a ⟨h1, h2⟩ => hw a ⟨by omega, by omega⟩))

theorem Acc_zeroLoop' (n p : Nat) (hw : ∀ a, Cells p n a → W a) : Acc R W (zeroLoop n p) (fun _ => True) := by
  induction n generalizing p with
  | zero => exact Acc.pure _ trivial
  | succ n ih =>
    unfold zeroLoop
    exact Acc.storeBind (hw _ ⟨by omega, by omega⟩) (ih _ (fun a ⟨h1, h2⟩ => hw a ⟨by omega, by omega⟩))

theorem Acc_nullSlack' (p n : Nat) (hw : ∀ a, Cells p n a → W a) : Acc R W (nullSlack p n) (fun _ => True) := by
  unfold nullSlack
  split
  · exact Acc_memsetP' 0 n p hw
  · exact Acc_zeroLoop' n p hw

theorem Acc_handleError' (cfg : Cfg) (p len code : Nat) (hw : ∀ a, Cells p len a → W a) (h0 : W p) :
    Acc R W (handleError cfg p len code) (fun _ => True) := by
  unfold handleError
  split
  · exact Acc.bind (Acc_memsetP' 0 len p hw) (fun _ _ => Acc.handlerSBind _ (Acc.pure _ trivial))
  · exact Acc.storeBind h0 (Acc.handlerSBind _ (Acc.pure _ trivial))

theorem Acc_handleStrBosOverflow' (cfg : Cfg) (p n : Nat) (hr : ∀ a, Cells p n a → R a)
    (hw : ∀ a, Cells p (max n 1) a → W a) : Acc R W (handleStrBosOverflow cfg p n) (fun _ => True) := by
  unfold handleStrBosOverflow
  have h0 : W p := hw _ ⟨by omega, by omega⟩
  refine Acc.bind (Acc_strnlen_s_le p n none (fun _ => hr)) (fun len hlen => ?_)
  split
  · exact Acc.bind (Acc_handleError' cfg p 1 _ (fun a ⟨h1, h2⟩ => hw a ⟨h1, by omega⟩) h0) (fun _ _ => Acc.pure _ trivial)
  · exact Acc.bind (Acc_handleError' cfg p len _ (fun a ⟨h1, h2⟩ => hw a ⟨h1, by omega⟩) h0) (fun _ _ => Acc.pure _ trivial)

theorem Acc_chkDmax' (dmax : Nat) (b : Bos) (max : Nat) {k : Prog Nat} (hk : Acc R W k (fun _ => True)) :
    Acc R W (chkDmax dmax b max k) (fun _ => True) := by
  unfold chkDmax
  repeat (first | assumption | exact Acc_failS' _ trivial | split)

theorem Acc_chkDmaxClear' (cfg : Cfg) (dest dmax : Nat) (b : Bos) (max : Nat) {k : Prog Nat} (hd : dest ≠ 0) (hpos : dmax ≠ 0)
    (hr : ∀ a, Cells dest dmax a → R a) (hw : ∀ a, Cells dest dmax a → W a) (hk : Acc R W k (fun _ => True)) :
    Acc R W (chkDmaxClear cfg dest dmax b max k) (fun _ => True) := by
  unfold chkDmaxClear chkDmaxClearG
  have h0 : W dest := hw _ ⟨by omega, by omega⟩
  split
  · split
    · exact Acc.handlerSBind _ (Acc.pure _ trivial)
    · exact hk
  · rename_i bos
    split
    · rename_i hgt
      split
      · exact Acc.bind (Acc_handleError' cfg dest bos _ (fun a ⟨h1, h2⟩ => hw a ⟨h1, by omega⟩) h0) (fun _ _ => Acc.pure _ trivial)
      · exact Acc.bind (Acc_handleStrBosOverflow' cfg dest bos
            (fun a ⟨h1, h2⟩ => hr a ⟨h1, by omega⟩) (fun a ⟨h1, h2⟩ => hw a ⟨h1, by omega⟩)) (fun _ _ => Acc.pure _ trivial)
    · exact hk

theorem Acc_chkSlenNospcClear (cfg : Cfg) (dest dmax slen max : Nat) {k : Prog Nat} (hpos : dmax ≠ 0)
    (hr : ∀ a, Cells dest dmax a → R a) (hw : ∀ a, Cells dest dmax a → W a)
    (hk : slen ≤ dmax → Acc R W k (fun _ => True)) :
    Acc R W (chkSlenNospcClear cfg dest dmax slen max k) (fun _ => True) := by
  unfold chkSlenNospcClear
  have h0 : W dest := hw _ ⟨by omega, by omega⟩
  split
  · refine Acc.bind (Acc_strnlen_s_le dest dmax none (fun _ => hr)) (fun len hlen => ?_)
    exact Acc.bind (Acc_handleError' cfg dest len _ (fun a ⟨h1, h2⟩ => hw a ⟨h1, by omega⟩) h0) (fun _ _ => Acc.pure _ trivial)
  · exact hk (by omega)

/-- the twin copy loops: `src` inside its `slen` cells, `dest` inside its `dmax` cells (`slen ≤ dmax` on entry) -/
theorem Acc_fldLoop (cfg : Cfg) (kind : FldKind) (onDest : Bool) (bumper oD oM fuel dest src dmax slen : Nat)
    (hle : slen ≤ dmax) (hr : ∀ a, Cells src slen a → R a) (hw : ∀ a, Cells dest dmax a → W a)
    (hwo : ∀ a, Cells oD oM a → W a) (hwo0 : W oD) :
    Acc R W (fldLoop cfg kind onDest bumper oD oM fuel dest src dmax slen)
      (fun r => match r with | .inl _ => True | .inr (p, m) => ∀ a, Cells p m a → W a) := by
  induction fuel generalizing dest src dmax slen with
  | zero => unfold fldLoop; exact Acc.pure _ hw
  | succ n ih =>
    unfold fldLoop
    dsimp only
    have step : slen ≠ 0 → Acc R W (if (if onDest = true then dest else src) = bumper then do
          handleError cfg oD oM ESOVRLP
          pure (.inl ESOVRLP)
        else do
          let c ← load src
          store dest c
          let slen' := slen - 1
          fldLoop cfg kind onDest bumper oD oM n (dest+1) (src+1) (dmax - 1) slen')
        (fun r => match r with | .inl _ => True | .inr (p, m) => ∀ a, Cells p m a → W a) := by
      intro hs
      by_cases hb : (if onDest = true then dest else src) = bumper
      · rw [if_pos hb]
        exact Acc.bind (Acc_handleError' cfg oD oM _ hwo hwo0) (fun _ _ => Acc.pure _ trivial)
      · rw [if_neg hb]
        refine Acc.loadBind (hr _ ⟨by omega, by omega⟩) (fun c => ?_)
        refine Acc.storeBind (hw _ ⟨by omega, by omega⟩) ?_
        exact ih (dest+1) (src+1) (dmax-1) (slen-1) (by omega) (fun a ⟨h1, h2⟩ => hr a ⟨by omega, by omega⟩)
          (fun a ⟨h1, h2⟩ => hw a ⟨by omega, by omega⟩)
    cases kind with
    | fld =>
      dsimp only
      by_cases hs : slen = 0
      · simp only [hs, decide_true, Pure.pure]
        exact Acc.ret _ hw
      · refine Acc.bind (Q := fun b => b = false) (Acc.pure _ (by simp [hs])) (fun b hb => ?_)
        subst hb
        simpa using step hs
    | fldin =>
      dsimp only
      by_cases hs : dmax = 0 ∨ slen = 0
      · simp only [hs, if_true]
        exact Acc.pure _ hw
      · simp only [hs, if_false]
        have hs' : slen ≠ 0 := by omega
        refine Acc.loadBind (hr _ ⟨by omega, by omega⟩) (fun c => ?_)
        by_cases hc : c = 0
        · simp only [hc, decide_true]
          exact Acc.pure _ hw
        · simp only [hc, decide_false]
          simpa using step hs'
    | fldout =>
      dsimp only
      by_cases hs : dmax > 1 ∧ slen ≠ 0
      · refine Acc.bind (Q := fun b => b = false) (Acc.pure _ (by simp [hs])) (fun b hb => ?_)
        subst hb
        simpa using step hs.2
      · refine Acc.bind (Q := fun b => b = true) (Acc.pure _ (by simp [hs])) (fun b hb => ?_)
        subst hb
        simp only [if_true]
        exact Acc.pure _ hw

theorem Acc_fldG (kind : FldKind) (cfg : Cfg) (dest dmax src slen : Nat) (b : Bos)
    (hr : src ≠ 0 → ∀ a, Cells src slen a → R a)
    (hrd : dest ≠ 0 → ∀ a, Cells dest dmax a → R a) (hw : dest ≠ 0 → ∀ a, Cells dest dmax a → W a) :
    Acc R W (fldG kind cfg dest dmax src slen b) (fun _ => True) := by
  unfold fldG
  split
  · exact Acc.pure _ trivial
  · split
    · exact Acc_failS' _ trivial
    · rename_i hd
      split
      · exact Acc_failS' _ trivial
      · rename_i hm
        have h0 : W dest := hw hd _ ⟨by omega, by omega⟩
        have body : Acc R W (if src = 0 then do handleError cfg dest dmax ESNULLP; pure ESNULLP
            else chkSlenNospcClear cfg dest dmax slen RSIZE_MAX_STR <| do
              let fuel := (match kind with | .fld => slen | _ => dmax)
              let r ← (if dest < src then fldLoop cfg kind true src dest dmax fuel dest src dmax slen
                       else fldLoop cfg kind false dest dest dmax fuel dest src dmax slen)
              match r with
              | .inl code => pure code
              | .inr (d, m) => do
                nullSlack d m
                pure EOK) (fun _ => True) := by
          split
          · exact Acc.bind (Acc_handleError' cfg dest dmax _ (hw hd) h0) (fun _ _ => Acc.pure _ trivial)
          · rename_i hs
            refine Acc_chkSlenNospcClear cfg dest dmax slen _ hm (hrd hd) (hw hd) (fun hle => ?_)
            dsimp only
            refine Acc.bind (Q := fun r => match r with | .inl _ => True | .inr (p, m) => ∀ a, Cells p m a → W a) ?_ (fun r hq => ?_)
            · split
              · exact Acc_fldLoop cfg kind true _ dest dmax _ dest src dmax slen hle (hr hs) (hw hd) (hw hd) h0
              · exact Acc_fldLoop cfg kind false _ dest dmax _ dest src dmax slen hle (hr hs) (hw hd) (hw hd) h0
            · cases r with
              | inl c => exact Acc.pure _ trivial
              | inr pm =>
                obtain ⟨p, m⟩ := pm
                exact Acc.bind (Acc_nullSlack' p m hq) (fun _ _ => Acc.pure _ trivial)
        cases kind with
        | fld => exact Acc_chkDmaxClear' cfg dest dmax b _ hd hm (hrd hd) (hw hd) body
        | fldin => exact Acc_chkDmax' _ _ _ body
        | fldout => exact Acc_chkDmax' _ _ _ body

end SafeC

import SafeC.Proofs.CopyAll
import SafeC.Proofs.CatOverlap
/-!
# The concatenations `strcat_s strncat_s wcscat_s wcsncat_s`: the complete outcome for EVERY placement

On top of `findEnd` (three outcomes: the dest string is found — `findEnd_str` —, the scan runs into `src` —
`findEnd_hits` —, dest holds no NUL in its `dmax` cells — `findEnd_unterm`) and of `copyLoop_cases` started at the
terminator of dest with the `dmax - dl` cells left.  `catBody` is the part of the four entry points behind the entry
checks.  `catBody_cases` (dest holds a string of length `dl < dmax`, `m` = number of characters appended):
* ESOVRLP: `src` lies inside the dest string (terminator included), or in the room behind it and is reached by the
  `min (m+1) (dmax-dl)` cells appended, or at/below dest and its `min (m+1) (dmax-dl)` cells reach dest;
* EOK: `dl + m < dmax` and the cells appended do not meet the cells read: `dest[dl..dl+m) = src[0..m)`, `dest[dl+m] = 0`,
  `dest[0..dl)` untouched, null-slack zeros behind;
* ESNOSPC: otherwise (`dmax ≤ dl + m`, and the `dmax - dl` cells copied do not meet).
`catBody_unterm`: no NUL in dest: ESOVRLP when `dest < src < dest + dmax` (the scan runs into src), else ESUNTERM.
-/
namespace SafeC
open Gen

/-- dest holds no NUL in the `k` cells left and the scan does not meet the bumper: ESUNTERM, dest cleared -/
theorem findEnd_unterm (cfg : Cfg) (chk : Bool) (B oD oM : Nat) (hoM : 0 < oM) :
    ∀ (k d : Nat) (st : St), RW st oD oM → (oD ≤ d ∧ d + k = oD + oM) → 0 < k →
    (∀ j, j < k → st.data (d + j) ≠ 0) → (chk = true → ∀ j, j < k → d + j ≠ B) →
    ∃ st', exec (findEnd cfg chk B oD oM k d) st = .ok (.inl ESUNTERM, st') ∧
      ClearedPost cfg oD oM ESUNTERM st st' := by
  intro k
  induction k with
  | zero => intro d st _ _ h; omega
  | succ k ih =>
    intro d st hrw hinv _ hnz hnb
    have hdm : st.mapped d = true ∧ st.wr d = true ∧ st.rd d = true := by
      have := hrw (d - oD) (by omega)
      have e : oD + (d - oD) = d := by omega
      rwa [e] at this
    have hc : st.data d ≠ 0 := by simpa using hnz 0 (by omega)
    have hbb : ¬ (chk = true ∧ d = B) := by
      intro ⟨h1, h2⟩
      exact hnb h1 0 (by omega) (by simpa using h2)
    unfold findEnd
    simp only [exec_bind, exec_load_ok _ _ hdm.1 hdm.2.2, hc, if_false, hbb]
    by_cases hk : k = 0
    · subst hk
      obtain ⟨st', he, hp⟩ := handleError_cleared cfg oD oM ESUNTERM st hrw hoM
      refine ⟨st', ?_, hp⟩
      simp only [if_true, exec_bind, he]
      rfl
    · simp only [hk, if_false]
      exact ih (d+1) st hrw (by omega) (by omega)
        (by
          intro j hj
          have := hnz (j+1) (by omega)
          have e : d + 1 + j = d + (j+1) := by omega
          rw [e]; exact this)
        (by
          intro h j hj
          have := hnb h (j+1) (by omega)
          have e : d + 1 + j = d + (j+1) := by omega
          rw [e]; exact this)

def catBody (cfg : Cfg) (bounded : Bool) (dest dmax src slen : Nat) : Prog Nat :=
  if dest < src then do
    match ← findEnd cfg true src dest dmax dmax dest with
    | .inl code => pure code
    | .inr (d, m) => copyLoop cfg true bounded src dest dmax m d src slen
  else do
    match ← findEnd cfg false dest dest dmax dmax dest with
    | .inl code => pure code
    | .inr (d, m) => copyLoop cfg false bounded dest dest dmax m d src slen

structure CatAll (cfg : Cfg) (dest dmax dl src m : Nat) (st st' : St) (code : Nat) : Prop where
  hit : ((dest < src ∧ src ≤ dest + dl) ∨ (dest + dl < src ∧ src ≤ dest + dl + m ∧ src < dest + dmax) ∨
          (src ≤ dest ∧ dest ≤ src + m ∧ dest + dl < src + dmax)) →
        code = ESOVRLP ∧ ClearedPost cfg dest dmax ESOVRLP st st'
  done : dl + m < dmax → (dest + dl + m < src ∨ src + m < dest) →
        code = EOK ∧ StpDone cfg (dest + dl) (dmax - dl) src m st st'
  full : dmax ≤ dl + m → (dest + dmax ≤ src ∨ src + dmax ≤ dest + dl) →
        code = ESNOSPC ∧ ClearedPost cfg dest dmax ESNOSPC st st'

/-- **the body of the four concatenations, dest holds a string of length `dl < dmax`, any placement of the source** -/
theorem catBody_cases (cfg : Cfg) (bounded : Bool) (dest dmax src dl m slen : Nat) (st : St)
    (hall : ∀ a, st.mapped a = true ∧ st.rd a = true)
    (hpos : 0 < dmax) (hrw : RW st dest dmax)
    (hdl : dl < dmax) (hdnz : ∀ j, j < dl → st.data (dest + j) ≠ 0) (hdnul : st.data (dest + dl) = 0)
    (hnz : ∀ j, j < m → st.data (src+j) ≠ 0)
    (hfin : ((bounded = true → m < slen) ∧ st.data (src+m) = 0) ∨ (bounded = true ∧ slen = m)) :
    ∃ code st', exec (catBody cfg bounded dest dmax src slen) st = .ok (code, st') ∧
      CatAll cfg dest dmax dl src m st st' code := by
  unfold catBody
  by_cases hlt : dest < src
  · rw [if_pos hlt]
    by_cases hin : src < dest + dl
    · -- met while scanning dest
      obtain ⟨st', he, hp⟩ := findEnd_hits cfg src dest dmax hpos (src - dest) dmax dest st hrw ⟨Nat.le_refl _, rfl⟩
        (by omega) (fun j hj => hdnz j (by omega)) (by intro j hj; omega) (by omega)
      refine ⟨ESOVRLP, st', by simp only [exec_bind, he]; rfl, ?_⟩
      exact ⟨fun _ => ⟨rfl, hp⟩, fun h1 h2 => by omega, fun h1 h2 => by omega⟩
    · have hfe := findEnd_str cfg true src dest dmax dmax dest dl st hrw hdl hdnz hdnul (by intro _ j hj; omega)
      simp only [exec_bind, hfe]
      obtain ⟨code, st', he, hp⟩ := copyLoop_cases cfg true bounded src dest dmax hpos (dmax - dl) (dest + dl) src m
        (src - (dest + dl)) slen st hall hrw ⟨by omega, by omega⟩ (Or.inl ⟨rfl, by omega, rfl⟩) hnz hfin
      refine ⟨code, st', he, ?_⟩
      exact ⟨fun h => hp.hit (by omega) (by omega), fun h1 h2 => hp.done (by omega) (by omega),
        fun h1 h2 => hp.full (by omega) (by omega)⟩
  · rw [if_neg hlt]
    have hfe := findEnd_str cfg false dest dest dmax dmax dest dl st hrw hdl hdnz hdnul (by intro h; cases h)
    simp only [exec_bind, hfe]
    obtain ⟨code, st', he, hp⟩ := copyLoop_cases cfg false bounded dest dest dmax hpos (dmax - dl) (dest + dl) src m
      (dest - src) slen st hall hrw ⟨by omega, by omega⟩ (Or.inr ⟨rfl, by omega, by omega⟩) hnz hfin
    refine ⟨code, st', he, ?_⟩
    exact ⟨fun h => hp.hit (by omega) (by omega), fun h1 h2 => hp.done (by omega) (by omega),
      fun h1 h2 => hp.full (by omega) (by omega)⟩

/-- the unbounded concatenations on a source without a terminator in the first `min g (dmax - dl)` cells, `src` not
inside the dest string (that placement is ESOVRLP whatever the source holds: `findEnd_hits`) -/
theorem catBody_noterm (cfg : Cfg) (dest dmax src dl g : Nat) (st : St)
    (hall : ∀ a, st.mapped a = true ∧ st.rd a = true)
    (hpos : 0 < dmax) (hrw : RW st dest dmax)
    (hdl : dl < dmax) (hdnz : ∀ j, j < dl → st.data (dest + j) ≠ 0) (hdnul : st.data (dest + dl) = 0)
    (hg : (dest < src ∧ src = dest + dl + g) ∨ (src ≤ dest ∧ dest = src + g))
    (hnz : ∀ j, j < g → j < dmax - dl → st.data (src+j) ≠ 0) :
    ∃ code st', exec (catBody cfg false dest dmax src 0) st = .ok (code, st') ∧
      code = (if g < dmax - dl then ESOVRLP else ESNOSPC) ∧ ClearedPost cfg dest dmax code st st' := by
  unfold catBody
  rcases hg with ⟨hlt, he⟩ | ⟨hlt, he⟩
  · rw [if_pos hlt]
    have hfe := findEnd_str cfg true src dest dmax dmax dest dl st hrw hdl hdnz hdnul (by intro _ j hj; omega)
    simp only [exec_bind, hfe]
    exact copyLoop_noterm cfg true false src dest dmax hpos (dmax - dl) (dest + dl) src g 0 st hall hrw
      ⟨by omega, by omega⟩ (Or.inl ⟨rfl, he, rfl⟩) hnz (fun h => absurd h (by decide))
  · rw [if_neg (by omega)]
    have hfe := findEnd_str cfg false dest dest dmax dmax dest dl st hrw hdl hdnz hdnul (by intro h; cases h)
    simp only [exec_bind, hfe]
    exact copyLoop_noterm cfg false false dest dest dmax hpos (dmax - dl) (dest + dl) src g 0 st hall hrw
      ⟨by omega, by omega⟩ (Or.inr ⟨rfl, he, by omega⟩) hnz (fun h => absurd h (by decide))

/-- **dest holds no NUL within `dmax`**: ESOVRLP when the scan runs into `src`, else ESUNTERM; dest cleared -/
theorem catBody_unterm (cfg : Cfg) (bounded : Bool) (dest dmax src slen : Nat) (st : St)
    (hpos : 0 < dmax) (hrw : RW st dest dmax)
    (hdnz : ∀ j, j < dmax → st.data (dest + j) ≠ 0) :
    ∃ code st', exec (catBody cfg bounded dest dmax src slen) st = .ok (code, st') ∧
      (code = if dest < src ∧ src < dest + dmax then ESOVRLP else ESUNTERM) ∧
      ClearedPost cfg dest dmax code st st' := by
  unfold catBody
  by_cases hlt : dest < src
  · rw [if_pos hlt]
    by_cases hin : src < dest + dmax
    · obtain ⟨st', he, hp⟩ := findEnd_hits cfg src dest dmax hpos (src - dest) dmax dest st hrw ⟨Nat.le_refl _, rfl⟩
        (by omega) (fun j hj => hdnz j (by omega)) (by intro j hj; omega) (by omega)
      refine ⟨ESOVRLP, st', by simp only [exec_bind, he]; rfl, by rw [if_pos ⟨hlt, hin⟩], hp⟩
    · obtain ⟨st', he, hp⟩ := findEnd_unterm cfg true src dest dmax hpos dmax dest st hrw ⟨Nat.le_refl _, rfl⟩ hpos
        hdnz (by intro _ j hj; omega)
      refine ⟨ESUNTERM, st', by simp only [exec_bind, he]; rfl, by rw [if_neg (by omega)], hp⟩
  · rw [if_neg hlt]
    obtain ⟨st', he, hp⟩ := findEnd_unterm cfg false dest dest dmax hpos dmax dest st hrw ⟨Nat.le_refl _, rfl⟩ hpos
      hdnz (by intro h; cases h)
    refine ⟨ESUNTERM, st', by simp only [exec_bind, he]; rfl, by rw [if_neg (by omega)], hp⟩

/-! ## the entry checks on usable arguments -/

theorem strcatG_eq_body (max : Nat) (cfg : Cfg) (dest dmax src : Nat) (destbos : Bos)
    (hd : dest ≠ 0) (hs : src ≠ 0) (hpos : 0 < dmax) (hle : dmax ≤ max)
    (hb : ∀ b, destbos = some b → dmax ≤ b) :
    strcatG max cfg dest dmax src destbos = catBody cfg false dest dmax src 0 := by
  unfold strcatG catBody
  have hz : dmax ≠ 0 := by omega
  rw [if_neg hd, if_neg hz]
  unfold chkDmaxClear chkDmaxClearG
  cases destbos with
  | none => simp only; rw [if_neg (by omega), if_neg hs]; rfl
  | some b => simp only; rw [if_neg (by have := hb b rfl; omega), if_neg hs]; rfl

theorem wcscat_s_eq_body (cfg : Cfg) (dest dmax src : Nat) (destbos : Bos)
    (hd : dest ≠ 0) (hs : src ≠ 0) (hpos : 0 < dmax) (hle : dmax ≤ RSIZE_MAX_WSTR)
    (hb : ∀ b, destbos = some b → dmax * SIZEOF_WCHAR_T ≤ b) :
    wcscat_s cfg dest dmax src destbos = catBody cfg false dest dmax src 0 := by
  unfold wcscat_s catBody
  have hz : dmax ≠ 0 := by omega
  rw [if_neg hd, if_neg hz]
  unfold chkDmaxW
  cases destbos with
  | none => simp only; rw [if_neg (by omega), if_neg hs]; rfl
  | some b => simp only; rw [if_neg (by have := hb b rfl; omega), if_neg hs]; rfl

theorem strncatG_eq_body (max : Nat) (cfg : Cfg) (dest dmax src slen : Nat) (destbos srcbos : Bos)
    (hd : dest ≠ 0) (hs : src ≠ 0) (hpos : 0 < dmax) (hle : dmax ≤ max) (hslen : 0 < slen) (hslenle : slen ≤ max)
    (hb : ∀ b, destbos = some b → dmax ≤ b) (hsb : ∀ sb, srcbos = some sb → slen ≤ sb) :
    strncatG max cfg dest dmax src slen destbos srcbos = catBody cfg true dest dmax src slen := by
  unfold strncatG catBody
  have h0 : ¬ (slen = 0 ∧ dest = 0 ∧ dmax = 0) := by omega
  have hz : dmax ≠ 0 := by omega
  have hsx : ¬ slen > max := by omega
  have hs0 : slen ≠ 0 := by omega
  rw [if_neg h0, if_neg hd, if_neg hz]
  unfold chkDmaxClear chkDmaxClearG chkSlenMaxClear
  cases destbos with
  | none =>
    simp only
    rw [if_neg (by omega), if_neg hs, if_neg hsx, if_neg hs0]
    cases srcbos with
    | none => rfl
    | some sb => simp only; rw [if_neg (by have := hsb sb rfl; omega)]; rfl
  | some b =>
    simp only
    rw [if_neg (by have := hb b rfl; omega), if_neg hs, if_neg hsx, if_neg hs0]
    cases srcbos with
    | none => rfl
    | some sb => simp only; rw [if_neg (by have := hsb sb rfl; omega)]; rfl

theorem wcsncat_s_eq_body (cfg : Cfg) (dest dmax src slen : Nat) (destbos srcbos : Bos)
    (hd : dest ≠ 0) (hs : src ≠ 0) (hpos : 0 < dmax) (hle : dmax ≤ RSIZE_MAX_WSTR)
    (hslen : 0 < slen) (hslenle : slen ≤ RSIZE_MAX_WSTR)
    (hb : ∀ b, destbos = some b → dmax * SIZEOF_WCHAR_T ≤ b)
    (hsb : ∀ sb, srcbos = some sb → slen * SIZEOF_WCHAR_T ≤ sb) :
    wcsncat_s cfg dest dmax src slen destbos srcbos = catBody cfg true dest dmax src slen := by
  unfold wcsncat_s catBody
  have h0 : ¬ (slen = 0 ∧ dest = 0 ∧ dmax = 0) := by omega
  have hz : dmax ≠ 0 := by omega
  have hsx : ¬ slen > RSIZE_MAX_WSTR := by omega
  have hs0 : slen ≠ 0 := by omega
  rw [if_neg h0, if_neg hd, if_neg hz]
  unfold chkDmaxW
  cases destbos with
  | none =>
    simp only
    rw [if_neg (by omega), if_neg hs, if_neg hsx]
    cases srcbos with
    | none => simp only; rw [if_neg hs0]; rfl
    | some sb => simp only; rw [if_neg (by have := hsb sb rfl; omega), if_neg hs0]; rfl
  | some b =>
    simp only
    rw [if_neg (by have := hb b rfl; omega), if_neg hs, if_neg hsx]
    cases srcbos with
    | none => simp only; rw [if_neg hs0]; rfl
    | some sb => simp only; rw [if_neg (by have := hsb sb rfl; omega), if_neg hs0]; rfl

end SafeC

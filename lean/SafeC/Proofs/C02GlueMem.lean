import SafeC.Proofs.AccMem
import SafeC.Proofs.C02Glue
/-!
# Glue for `Props/C02Ext4.lean` (memory family): write-only extents, the no-load bridge, and the fact about `copyFwd`
used by the `2^32` witnesses.  No property statement here.
-/
namespace SafeC.Props.C02
open SafeC Gen Mem

/-- cells `[d, d+k)` are mapped and declared writable (nothing said about reading) -/
def WO (st : St) (d k : Nat) : Prop := ∀ i, i < k → st.mapped (d+i) = true ∧ st.wr (d+i) = true

theorem Wr_of_WO {st : St} {p n : Nat} (h : WO st p n) : ∀ a, Cells p n a → Wr st a := by
  intro a ⟨h1, h2⟩
  have := h (a - p) (by omega)
  rwa [show p + (a - p) = a by omega] at this

theorem WO.of_RW {st : St} {p n : Nat} (h : RW st p n) : WO st p n := fun i hi => ⟨(h i hi).1, (h i hi).2.1⟩

/-- a program with an empty read footprint runs where only its write footprint is mapped and writable -/
theorem runs_of_Acc_noload {α} {p : Prog α} {Q : α → Prop} {st : St} (h : Acc (fun _ => False) (Wr st) p Q) :
    Runs p st := runs_of_Acc (h.mono (fun _ hf => hf.elim) (fun _ hw => hw))

theorem exec_bind_ok {α β} {p : Prog α} {f : α → Prog β} {s : St} {x : β × St} (h : exec (p >>= f) s = .ok x) :
    ∃ a s', exec p s = .ok (a, s') := by
  rw [exec_bind] at h
  cases hp : exec p s with
  | ok v => exact ⟨v.1, v.2, rfl⟩
  | error e => rw [hp] at h; cases h

theorem noteRd_mapped (s : St) (a : Nat) : (s.noteRd a).mapped = s.mapped := by
  unfold St.noteRd; split <;> rfl
theorem noteWr_mapped (s : St) (a : Nat) : (s.noteWr a).mapped = s.mapped := by
  unfold St.noteWr; split <;> rfl

/-- a `copyFwd` of `n` cells that returns found all `n` source cells mapped -/
theorem copyFwd_ok_mapped (n dp sp : Nat) (st : St) {r : Nat × Nat} {st' : St}
    (h : exec (copyFwd n dp sp) st = .ok (r, st')) : ∀ k, k < n → st.mapped (sp + k) = true := by
  induction n generalizing dp sp st with
  | zero => intro k hk; omega
  | succ n ih =>
    intro k hk
    simp only [copyFwd, exec_bind, exec_load, exec_store] at h
    by_cases hm : st.mapped sp = true
    · simp only [hm, if_true] at h
      by_cases hm2 : (st.noteRd sp).mapped dp = true
      · simp only [hm2, if_true] at h
        cases k with
        | zero => exact hm
        | succ k =>
          have := ih _ _ _ h k (by omega)
          rw [St.upd_mapped, noteWr_mapped, noteRd_mapped] at this
          rw [show sp + (k + 1) = sp + 1 + k by omega]; exact this
      · simp [hm2] at h
    · simp [hm] at h

end SafeC.Props.C02

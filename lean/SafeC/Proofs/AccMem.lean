import SafeC.Proofs.AccWalk
import SafeC.Proofs.MemMove
import SafeC.Models.Mem
/-!
# `Acc` footprints of the memory family (`Models/Mem.lean`): primitives, then one lemma per entry point

Every lemma is parametric in the readable set `R` and the writable set `W`; the footprints are hypotheses
(`hr : ∀ a, Cells sp n a → R a`), the postconditions carry the returned pointers so that the next phase of a
primitive can be bounded.  Nothing here depends on the values in memory: `Acc` quantifies over every loaded value.
-/
namespace SafeC
open Gen Mem

variable {R W : Nat → Prop}

namespace Acc
/-- sequencing with a phase whose result is irrelevant -/
theorem bindT {α β} {p : Prog α} {f : α → Prog β} {S : β → Prop}
    (hp : Acc R W p (fun _ => True)) (hf : ∀ x, Acc R W (f x) S) : Acc R W (p >>= f) S :=
  Acc.bind hp (fun x _ => hf x)
end Acc

/-! ## shared combinators -/

theorem Acc_memsetP (v n d : Nat) (hw : ∀ a, Cells d n a → W a) : Acc R W (memsetP v n d) (fun _ => True) := by
  induction n generalizing d with
  | zero => unfold memsetP; exact Acc.pure _ trivial
  | succ n ih =>
    have h0 : W d := hw _ ⟨by omega, by omega⟩
    unfold memsetP
    acc_walk [assumption] using ih _ (fun a ⟨h1, h2⟩ => hw a ⟨by omega, by omega⟩)

theorem Acc_zeroLoop (n d : Nat) (hw : ∀ a, Cells d n a → W a) : Acc R W (zeroLoop n d) (fun _ => True) := by
  rw [zeroLoop_eq_memsetP]; exact Acc_memsetP 0 n d hw

theorem Acc_nullSlack (dest dmax : Nat) (hw : ∀ a, Cells dest dmax a → W a) :
    Acc R W (nullSlack dest dmax) (fun _ => True) := by
  unfold nullSlack
  split
  · exact Acc_memsetP _ _ _ hw
  · exact Acc_zeroLoop _ _ hw

/-- `handle_error`: the `len` cells at `dest` with null-slack, the first cell without (`0 < len`) -/
theorem Acc_handleError (cfg : Cfg) (dest len code : Nat) (hpos : 0 < len) (hw : ∀ a, Cells dest len a → W a) :
    Acc R W (handleError cfg dest len code) (fun _ => True) := by
  have h0 : W dest := hw _ ⟨by omega, by omega⟩
  unfold handleError
  split
  · exact Acc.bindT (Acc_memsetP _ _ _ hw) (fun _ => Acc.handlerS _)
  · exact Acc.storeBind h0 (Acc.handlerS _)

/-! ## byte stores into `w`-byte cells -/

/-- one byte store at byte address `a`: a store to cell `a / w`; for `w > 1` possibly a read-modify-write of it -/
theorem Acc_storeByte (w v a rem : Nat) (h0 : 0 < w) (hw : W (a / w)) (hr : 1 < w → R (a / w)) :
    Acc R W (storeByte w v a rem) (fun _ => True) := by
  unfold storeByte
  split
  · have e : w = 1 := by omega
    subst e
    rw [Nat.div_one] at hw
    exact Acc.storeP _ _ hw
  · have hr' := hr (by omega)
    dsimp only
    split
    · split
      · exact Acc.storeP _ _ hw
      · exact Acc.pure _ trivial
    · exact Acc.loadBind hr' (fun _ => Acc.storeP _ _ hw)

/-- `memset(dest, v, n)` (`n` BYTES on `w`-byte cells): the `n / w` whole cells are stored; a partially covered
last cell is read and written -/
theorem Acc_memsetBytes (w v dest n : Nat) (hw : ∀ a, Cells dest (n / w) a → W a)
    (hp : n % w ≠ 0 → R (dest + n / w) ∧ W (dest + n / w)) :
    Acc R W (memsetBytes w v dest n) (fun _ => True) := by
  unfold memsetBytes
  refine Acc.bindT (Acc_memsetP _ _ _ hw) (fun _ => ?_)
  split
  · exact Acc.pure _ trivial
  · obtain ⟨h1, h2⟩ := hp ‹_›
    exact Acc.loadBind h1 (fun _ => Acc.storeP _ _ h2)

theorem Acc_handleMemErrorB (w dest len code : Nat) (hw : ∀ a, Cells dest (len / w) a → W a)
    (hp : len % w ≠ 0 → R (dest + len / w) ∧ W (dest + len / w)) :
    Acc R W (handleMemErrorB w dest len code) (fun _ => True) := by
  unfold handleMemErrorB
  exact Acc.bindT (Acc_memsetBytes w 0 dest len hw hp) (fun _ => Acc.handlerM _)

/-- byte cells: no read, the `len` cells at `dest` -/
theorem Acc_handleMemErrorB_one (dest len code : Nat) (hw : ∀ a, Cells dest len a → W a) :
    Acc R W (handleMemErrorB 1 dest len code) (fun _ => True) :=
  Acc_handleMemErrorB 1 dest len code (by rw [Nat.div_one]; exact hw) (fun h => absurd (Nat.mod_one _) h)

/-! ## `mem_prim_set` (`dest` a BYTE address): stores to the cells `b / w` of the addressed bytes `b`; reads
(read-modify-write of a partially covered cell) only when `w > 1` -/

theorem Acc_setPrologue (w v count dp : Nat) (h0 : 0 < w) (hw : ∀ b, Cells dp count b → W (b / w))
    (hr : 1 < w → ∀ b, Cells dp count b → R (b / w)) :
    Acc R W (setPrologue w v count dp) (fun r => ∃ k, k ≤ count ∧ r = (count - k, dp + k)) := by
  induction count generalizing dp with
  | zero => unfold setPrologue; exact Acc.pure _ ⟨0, Nat.le_refl _, rfl⟩
  | succ n ih =>
    unfold setPrologue
    split
    · exact Acc.pure _ ⟨0, Nat.zero_le _, rfl⟩
    · refine Acc.bindT (Acc_storeByte w v dp (n+1) h0 (hw _ ⟨by omega, by omega⟩)
        (fun h => hr h _ ⟨by omega, by omega⟩)) (fun _ => ?_)
      refine (ih (dp+1) (fun b ⟨h1, h2⟩ => hw b ⟨by omega, by omega⟩)
        (fun h b ⟨h1, h2⟩ => hr h b ⟨by omega, by omega⟩)).conseq ?_
      rintro r ⟨k, hk, rfl⟩
      refine ⟨k+1, by omega, ?_⟩
      rw [Prod.mk.injEq]; omega

theorem Acc_setTail (w v count dp : Nat) (h0 : 0 < w) (hw : ∀ b, Cells dp count b → W (b / w))
    (hr : 1 < w → ∀ b, Cells dp count b → R (b / w)) :
    Acc R W (setTail w v count dp) (fun _ => True) := by
  induction count generalizing dp with
  | zero => unfold setTail; exact Acc.pure _ trivial
  | succ n ih =>
    unfold setTail
    refine Acc.bindT (Acc_storeByte w v dp (n+1) h0 (hw _ ⟨by omega, by omega⟩)
      (fun h => hr h _ ⟨by omega, by omega⟩)) (fun _ => ?_)
    exact ih (dp+1) (fun b ⟨h1, h2⟩ => hw b ⟨by omega, by omega⟩)
      (fun h b ⟨h1, h2⟩ => hr h b ⟨by omega, by omega⟩)

/-- one 64-bit word store = `8 / w` cell stores from cell `lp / w` -/
theorem word_cells (w lp c : Nat) (h3 : w = 1 ∨ w = 2 ∨ w = 4) (hc : Cells (lp / w) (8 / w) c) :
    ∃ b, Cells lp 8 b ∧ b / w = c := by
  obtain ⟨h1, h2⟩ := hc
  rcases h3 with rfl | rfl | rfl
  · exact ⟨lp + (c - lp / 1) * 1, ⟨by omega, by omega⟩, by omega⟩
  · exact ⟨lp + (c - lp / 2) * 2, ⟨by omega, by omega⟩, by omega⟩
  · exact ⟨lp + (c - lp / 4) * 4, ⟨by omega, by omega⟩, by omega⟩

theorem Acc_setWords (w v k lp : Nat) (h3 : w = 1 ∨ w = 2 ∨ w = 4) (hw : ∀ b, Cells lp (8 * k) b → W (b / w)) :
    Acc R W (setWords w v k lp) (fun r => r = lp + 8 * k) := by
  induction k generalizing lp with
  | zero => unfold setWords; exact Acc.pure _ rfl
  | succ k ih =>
    unfold setWords
    refine Acc.bindT (Acc_memsetP _ _ _ (fun c hc => ?_)) (fun _ => ?_)
    · obtain ⟨b, ⟨hb1, hb2⟩, rfl⟩ := word_cells w lp c h3 hc
      exact hw b ⟨hb1, by omega⟩
    · exact (ih (lp+8) (fun b ⟨h1, h2⟩ => hw b ⟨by omega, by omega⟩)).conseq (fun r hr => by omega)

theorem Acc_setBlocks (w v q lp : Nat) (h3 : w = 1 ∨ w = 2 ∨ w = 4) (hw : ∀ b, Cells lp (128 * q) b → W (b / w)) :
    Acc R W (setBlocks w v q lp) (fun r => r = lp + 128 * q) := by
  induction q generalizing lp with
  | zero => unfold setBlocks; exact Acc.pure _ rfl
  | succ q ih =>
    unfold setBlocks
    refine Acc.bind (Acc_setWords w v 16 lp h3 (fun b ⟨h1, h2⟩ => hw b ⟨by omega, by omega⟩)) (fun r hr => ?_)
    subst hr
    exact (ih _ (fun b ⟨h1, h2⟩ => hw b ⟨by omega, by omega⟩)).conseq (fun r hr => by omega)

/-- **`mem_prim_set(dest, len, value)`**: the cells of the `len mod 2^32` addressed bytes; a load happens only for
`w > 1` (the read-modify-write of a partially covered last cell) -/
theorem Acc_mem_prim_set (w dest len value : Nat) (h3 : w = 1 ∨ w = 2 ∨ w = 4)
    (hw : ∀ b, Cells dest (len % U32) b → W (b / w)) (hr : 1 < w → ∀ b, Cells dest (len % U32) b → R (b / w)) :
    Acc R W (mem_prim_set w dest len value) (fun _ => True) := by
  have h0 : 0 < w := by omega
  generalize hn : len % U32 = n at hw hr
  unfold mem_prim_set
  simp only [hn]
  refine Acc.bind (Acc_setPrologue w _ n dest h0 hw hr) (fun r hr' => ?_)
  obtain ⟨k, hk, rfl⟩ := hr'
  dsimp only
  refine Acc.bind (Acc_setBlocks w _ ((n - k) / 8 / 16) (dest + k) h3
    (fun b ⟨h1, h2⟩ => hw b ⟨by omega, by omega⟩)) (fun r hr' => ?_)
  subst hr'
  refine Acc.bind (Acc_setWords w _ ((n - k) / 8 % 16) _ h3
    (fun b ⟨h1, h2⟩ => hw b ⟨by omega, by omega⟩)) (fun r hr' => ?_)
  subst hr'
  exact Acc_setTail w _ ((n - k) % 8) _ h0 (fun b ⟨h1, h2⟩ => hw b ⟨by omega, by omega⟩)
    (fun h b ⟨h1, h2⟩ => hr h b ⟨by omega, by omega⟩)

/-- byte cells: NO load, stores in the `len mod 2^32` cells at `dest` -/
theorem Acc_mem_prim_set_one (dest len value : Nat) (hw : ∀ a, Cells dest (len % U32) a → W a) :
    Acc R W (mem_prim_set 1 dest len value) (fun _ => True) :=
  Acc_mem_prim_set 1 dest len value (Or.inl rfl) (fun b hb => by rw [Nat.div_one]; exact hw b hb)
    (fun h => absurd h (by decide))

/-! ## `mem_prim_set16/32` -/

theorem Acc_setElems (v k dp : Nat) (hw : ∀ a, Cells dp k a → W a) :
    Acc R W (setElems v k dp) (fun r => r = dp + k) := by
  induction k generalizing dp with
  | zero => unfold setElems; exact Acc.pure _ rfl
  | succ k ih =>
    have h0 : W dp := hw _ ⟨by omega, by omega⟩
    unfold setElems
    refine Acc.storeBind h0 ?_
    exact (ih (dp+1) (fun a ⟨h1, h2⟩ => hw a ⟨by omega, by omega⟩)).conseq (fun r hr => by omega)

theorem Acc_setElemBlocks (v q dp : Nat) (hw : ∀ a, Cells dp (16 * q) a → W a) :
    Acc R W (setElemBlocks v q dp) (fun r => r = dp + 16 * q) := by
  induction q generalizing dp with
  | zero => unfold setElemBlocks; exact Acc.pure _ rfl
  | succ q ih =>
    unfold setElemBlocks
    refine Acc.bind (Acc_setElems v 16 dp (fun a ⟨h1, h2⟩ => hw a ⟨by omega, by omega⟩)) (fun r hr => ?_)
    subst hr
    exact (ih _ (fun a ⟨h1, h2⟩ => hw a ⟨by omega, by omega⟩)).conseq (fun r hr => by omega)

/-- NO load; stores in the `len mod 2^32` elements at `dest` -/
theorem Acc_primSetElems (dest len value : Nat) (hw : ∀ a, Cells dest (len % U32) a → W a) :
    Acc R W (primSetElems dest len value) (fun _ => True) := by
  generalize hn : len % U32 = n at hw
  unfold primSetElems
  simp only [hn]
  refine Acc.bind (Acc_setElemBlocks value (n / 16) dest (fun a ⟨h1, h2⟩ => hw a ⟨by omega, by omega⟩)) (fun r hr => ?_)
  subst hr
  exact Acc.bind (Acc_setElems value (n % 16) (dest + 16 * (n / 16)) (fun a ⟨h1, h2⟩ => hw a ⟨by omega, by omega⟩))
    (fun _ _ => Acc.pure _ trivial)

theorem Acc_mem_prim_set16 (dest len value : Nat) (hw : ∀ a, Cells dest (len % U32) a → W a) :
    Acc R W (mem_prim_set16 dest len value) (fun _ => True) := Acc_primSetElems _ _ _ hw
theorem Acc_mem_prim_set32 (dest len value : Nat) (hw : ∀ a, Cells dest (len % U32) a → W a) :
    Acc R W (mem_prim_set32 dest len value) (fun _ => True) := Acc_primSetElems _ _ _ hw

/-! ## element copies -/

theorem Acc_copyFwd (n dp sp : Nat) (hr : ∀ a, Cells sp n a → R a) (hw : ∀ a, Cells dp n a → W a) :
    Acc R W (copyFwd n dp sp) (fun r => r = (dp + n, sp + n)) := by
  induction n generalizing dp sp with
  | zero => unfold copyFwd; exact Acc.pure _ rfl
  | succ n ih =>
    have h0 : R sp := hr _ ⟨by omega, by omega⟩
    have h1 : W dp := hw _ ⟨by omega, by omega⟩
    unfold copyFwd
    refine Acc.loadBind h0 (fun c => Acc.storeBind h1 ?_)
    refine (ih (dp+1) (sp+1) (fun a ⟨e1, e2⟩ => hr a ⟨by omega, by omega⟩)
      (fun a ⟨e1, e2⟩ => hw a ⟨by omega, by omega⟩)).conseq (fun r hr' => ?_)
    rw [hr', Prod.mk.injEq]; omega

/-- `n` times `*--dp = *--sp;`: the `n` cells BELOW each pointer -/
theorem Acc_copyBwd (n dp sp : Nat) (hd : n ≤ dp) (hs : n ≤ sp)
    (hr : ∀ a, Cells (sp - n) n a → R a) (hw : ∀ a, Cells (dp - n) n a → W a) :
    Acc R W (copyBwd n dp sp) (fun r => r = (dp - n, sp - n)) := by
  induction n generalizing dp sp with
  | zero => unfold copyBwd; exact Acc.pure _ rfl
  | succ n ih =>
    have h0 : R (sp - 1) := hr _ ⟨by omega, by omega⟩
    have h1 : W (dp - 1) := hw _ ⟨by omega, by omega⟩
    unfold copyBwd
    refine Acc.loadBind h0 (fun c => Acc.storeBind h1 ?_)
    refine (ih (dp-1) (sp-1) (by omega) (by omega) (fun a ⟨e1, e2⟩ => hr a ⟨by omega, by omega⟩)
      (fun a ⟨e1, e2⟩ => hw a ⟨by omega, by omega⟩)).conseq (fun r hr' => ?_)
    rw [hr', Prod.mk.injEq]; omega

theorem Acc_loadCells (n a : Nat) (hr : ∀ x, Cells a n x → R x) :
    Acc R W (loadCells n a) (fun cs => cs.length = n) := by
  induction n generalizing a with
  | zero => unfold loadCells; exact Acc.pure _ rfl
  | succ n ih =>
    have h0 : R a := hr _ ⟨by omega, by omega⟩
    unfold loadCells
    refine Acc.loadBind h0 (fun c => ?_)
    refine Acc.bind (ih (a+1) (fun x ⟨e1, e2⟩ => hr x ⟨by omega, by omega⟩)) (fun cs hcs => ?_)
    exact Acc.pure _ (by rw [List.length_cons, hcs])

theorem Acc_storeCells (cs : List Nat) (a : Nat) (hw : ∀ x, Cells a cs.length x → W x) :
    Acc R W (storeCells cs a) (fun _ => True) := by
  induction cs generalizing a with
  | nil => unfold storeCells; exact Acc.pure _ trivial
  | cons c cs ih =>
    have h0 : W a := hw _ ⟨by omega, by simp⟩
    unfold storeCells
    refine Acc.storeBind h0 ?_
    exact ih (a+1) (fun x ⟨e1, e2⟩ => hw x ⟨by omega, by rw [List.length_cons]; omega⟩)

/-- a 64-bit word copy: 8 loads at `sp`, then 8 stores at `dp` -/
theorem Acc_copyWord (dp sp : Nat) (hr : ∀ a, Cells sp 8 a → R a) (hw : ∀ a, Cells dp 8 a → W a) :
    Acc R W (copyWord dp sp) (fun _ => True) := by
  unfold copyWord
  exact Acc.bind (Acc_loadCells 8 sp hr) (fun cs hcs => Acc_storeCells cs dp (by rw [hcs]; exact hw))

theorem Acc_wordsFwd (n dp sp : Nat) (hr : ∀ a, Cells sp (8 * n) a → R a) (hw : ∀ a, Cells dp (8 * n) a → W a) :
    Acc R W (wordsFwd n dp sp) (fun r => r = (dp + 8 * n, sp + 8 * n)) := by
  induction n generalizing dp sp with
  | zero => unfold wordsFwd; exact Acc.pure _ rfl
  | succ n ih =>
    unfold wordsFwd
    refine Acc.bindT (Acc_copyWord dp sp (fun a ⟨e1, e2⟩ => hr a ⟨by omega, by omega⟩)
      (fun a ⟨e1, e2⟩ => hw a ⟨by omega, by omega⟩)) (fun _ => ?_)
    refine (ih (dp+8) (sp+8) (fun a ⟨e1, e2⟩ => hr a ⟨by omega, by omega⟩)
      (fun a ⟨e1, e2⟩ => hw a ⟨by omega, by omega⟩)).conseq (fun r hr' => ?_)
    rw [hr', Prod.mk.injEq]; omega

theorem Acc_wordsBwd (n dp sp : Nat) (hd : 8 * n ≤ dp) (hs : 8 * n ≤ sp)
    (hr : ∀ a, Cells (sp - 8 * n) (8 * n) a → R a) (hw : ∀ a, Cells (dp - 8 * n) (8 * n) a → W a) :
    Acc R W (wordsBwd n dp sp) (fun r => r = (dp - 8 * n, sp - 8 * n)) := by
  induction n generalizing dp sp with
  | zero => unfold wordsBwd; exact Acc.pure _ rfl
  | succ n ih =>
    unfold wordsBwd
    refine Acc.bindT (Acc_copyWord (dp-8) (sp-8) (fun a ⟨e1, e2⟩ => hr a ⟨by omega, by omega⟩)
      (fun a ⟨e1, e2⟩ => hw a ⟨by omega, by omega⟩)) (fun _ => ?_)
    refine (ih (dp-8) (sp-8) (by omega) (by omega) (fun a ⟨e1, e2⟩ => hr a ⟨by omega, by omega⟩)
      (fun a ⟨e1, e2⟩ => hw a ⟨by omega, by omega⟩)).conseq (fun r hr' => ?_)
    rw [hr', Prod.mk.injEq]; omega

/-! ## `mem_prim_move` -/

/-- forward alignment prologue (`0 < len`): copies `t ≤ len` bytes (`1 ≤ tsp ≤ len` in every branch that copies, so the
`do … while (--tsp)` loop does not wrap) -/
theorem Acc_moveFwdAlign (dest src len : Nat) (hpos : 0 < len)
    (hr : ∀ a, Cells src len a → R a) (hw : ∀ a, Cells dest len a → W a) :
    Acc R W (moveFwdAlign dest src len) (fun r => ∃ t, t ≤ len ∧ r = (dest + t, src + t, len - t)) := by
  unfold moveFwdAlign
  split
  · have key : ∀ tsp, 1 ≤ tsp → tsp ≤ len → Acc R W (do
        let (dp, sp) ← copyFwd (doWhileCount tsp) dest src
        pure (dp, sp, len - tsp)) (fun r => ∃ t, t ≤ len ∧ r = (dest + t, src + t, len - t)) := by
      intro tsp h1 h2
      have hc : doWhileCount tsp = tsp := by simp [doWhileCount]; omega
      rw [hc]
      refine Acc.bind (Acc_copyFwd tsp dest src (fun a ⟨e1, e2⟩ => hr a ⟨by omega, by omega⟩)
        (fun a ⟨e1, e2⟩ => hw a ⟨by omega, by omega⟩)) (fun r hr' => ?_)
      subst hr'
      exact Acc.pure _ ⟨tsp, h2, rfl⟩
    by_cases hc : (src ^^^ dest) % 8 ≠ 0 ∨ len < 8
    · simp only [if_pos hc]
      exact key len hpos (Nat.le_refl _)
    · simp only [if_neg hc]
      have hm8 : src % 8 < 8 := Nat.mod_lt _ (by decide)
      exact key (8 - src % 8) (by omega) (by omega)
  · exact Acc.pure _ ⟨0, Nat.zero_le _, rfl⟩

/-- backward alignment prologue, `dp`/`sp` at the END of the `len` bytes -/
theorem Acc_moveBwdAlign (dp sp len : Nat) (hpos : 0 < len) (hd : len ≤ dp) (hs : len ≤ sp)
    (hr : ∀ a, Cells (sp - len) len a → R a) (hw : ∀ a, Cells (dp - len) len a → W a) :
    Acc R W (moveBwdAlign dp sp len) (fun r => ∃ t, t ≤ len ∧ r = (dp - t, sp - t, len - t)) := by
  unfold moveBwdAlign
  split
  · rename_i ha
    have key : ∀ tsp, 1 ≤ tsp → tsp ≤ len → Acc R W (do
        let (dp', sp') ← copyBwd (doWhileCount tsp) dp sp
        pure (dp', sp', len - tsp)) (fun r => ∃ t, t ≤ len ∧ r = (dp - t, sp - t, len - t)) := by
      intro tsp h1 h2
      have hc : doWhileCount tsp = tsp := by simp [doWhileCount]; omega
      rw [hc]
      refine Acc.bind (Acc_copyBwd tsp dp sp (by omega) (by omega) (fun a ⟨e1, e2⟩ => hr a ⟨by omega, by omega⟩)
        (fun a ⟨e1, e2⟩ => hw a ⟨by omega, by omega⟩)) (fun r hr' => ?_)
      subst hr'
      exact Acc.pure _ ⟨tsp, h2, rfl⟩
    by_cases hc : (sp ^^^ dp) % 8 ≠ 0 ∨ len ≤ 8
    · simp only [if_pos hc]
      exact key len hpos (Nat.le_refl _)
    · simp only [if_neg hc]
      have hm8 : sp % 8 < 8 := Nat.mod_lt _ (by decide)
      have hnz : sp % 8 ≠ 0 := or_xor_mod8 _ _ ha (fun h => hc (Or.inl h))
      exact key (sp % 8) (by omega) (by omega)
  · exact Acc.pure _ ⟨0, Nat.zero_le _, rfl⟩

/-- **`mem_prim_move(dest, src, len)`**, `n = len mod 2^32 ≠ 0` (with `n = 0` and unaligned pointers the prologue's
`do … while (--tsp)` is entered with `tsp = 0` and runs 2^64 times): loads in the `n` cells at `src`, stores in the `n`
cells at `dest` — both directions, every alignment -/
theorem Acc_mem_prim_move (dest src len : Nat) (hpos : 0 < len % U32)
    (hr : ∀ a, Cells src (len % U32) a → R a) (hw : ∀ a, Cells dest (len % U32) a → W a) :
    Acc R W (mem_prim_move dest src len) (fun _ => True) := by
  generalize hn : len % U32 = n at hpos hr hw
  unfold mem_prim_move
  simp only [hn]
  split
  · refine Acc.bind (Acc_moveFwdAlign dest src n hpos hr hw) (fun r hr' => ?_)
    obtain ⟨t, ht, rfl⟩ := hr'
    dsimp only
    refine Acc.bind (Acc_wordsFwd ((n - t) / 8) (dest + t) (src + t) (fun a ⟨e1, e2⟩ => hr a ⟨by omega, by omega⟩)
      (fun a ⟨e1, e2⟩ => hw a ⟨by omega, by omega⟩)) (fun r hr' => ?_)
    subst hr'
    dsimp only
    exact Acc.bind (Acc_copyFwd ((n - t) % 8) (dest + t + 8 * ((n - t) / 8)) (src + t + 8 * ((n - t) / 8))
      (fun a ⟨e1, e2⟩ => hr a ⟨by omega, by omega⟩) (fun a ⟨e1, e2⟩ => hw a ⟨by omega, by omega⟩))
      (fun _ _ => Acc.pure _ trivial)
  · refine Acc.bind (Acc_moveBwdAlign (dest + n) (src + n) n hpos (by omega) (by omega)
      (fun a ⟨e1, e2⟩ => hr a ⟨by omega, by omega⟩) (fun a ⟨e1, e2⟩ => hw a ⟨by omega, by omega⟩)) (fun r hr' => ?_)
    obtain ⟨t, ht, rfl⟩ := hr'
    dsimp only
    refine Acc.bind (Acc_wordsBwd ((n - t) / 8) (dest + n - t) (src + n - t) (by omega) (by omega)
      (fun a ⟨e1, e2⟩ => hr a ⟨by omega, by omega⟩) (fun a ⟨e1, e2⟩ => hw a ⟨by omega, by omega⟩)) (fun r hr' => ?_)
    subst hr'
    dsimp only
    exact Acc.bind (Acc_copyBwd ((n - t) % 8) (dest + n - t - 8 * ((n - t) / 8)) (src + n - t - 8 * ((n - t) / 8))
      (by omega) (by omega)
      (fun a ⟨e1, e2⟩ => hr a ⟨by omega, by omega⟩) (fun a ⟨e1, e2⟩ => hw a ⟨by omega, by omega⟩))
      (fun _ _ => Acc.pure _ trivial)

/-! ## `mem_prim_move8/16/32` -/

theorem Acc_moveBlocksFwd (q dp sp : Nat) (hr : ∀ a, Cells sp (16 * q) a → R a) (hw : ∀ a, Cells dp (16 * q) a → W a) :
    Acc R W (moveBlocksFwd q dp sp) (fun r => r = (dp + 16 * q, sp + 16 * q)) := by
  induction q generalizing dp sp with
  | zero => unfold moveBlocksFwd; exact Acc.pure _ rfl
  | succ q ih =>
    unfold moveBlocksFwd
    refine Acc.bind (Acc_copyFwd 16 dp sp (fun a ⟨e1, e2⟩ => hr a ⟨by omega, by omega⟩)
      (fun a ⟨e1, e2⟩ => hw a ⟨by omega, by omega⟩)) (fun r hr' => ?_)
    subst hr'
    dsimp only
    refine (ih (dp+16) (sp+16) (fun a ⟨e1, e2⟩ => hr a ⟨by omega, by omega⟩)
      (fun a ⟨e1, e2⟩ => hw a ⟨by omega, by omega⟩)).conseq (fun r hr' => ?_)
    rw [hr', Prod.mk.injEq]; omega

theorem Acc_moveBlocksBwd (q dp sp : Nat) (hd : 16 * q ≤ dp) (hs : 16 * q ≤ sp)
    (hr : ∀ a, Cells (sp - 16 * q) (16 * q) a → R a) (hw : ∀ a, Cells (dp - 16 * q) (16 * q) a → W a) :
    Acc R W (moveBlocksBwd q dp sp) (fun r => r = (dp - 16 * q, sp - 16 * q)) := by
  induction q generalizing dp sp with
  | zero => unfold moveBlocksBwd; exact Acc.pure _ rfl
  | succ q ih =>
    unfold moveBlocksBwd
    refine Acc.bind (Acc_copyBwd 16 dp sp (by omega) (by omega) (fun a ⟨e1, e2⟩ => hr a ⟨by omega, by omega⟩)
      (fun a ⟨e1, e2⟩ => hw a ⟨by omega, by omega⟩)) (fun r hr' => ?_)
    subst hr'
    dsimp only
    refine (ih (dp-16) (sp-16) (by omega) (by omega) (fun a ⟨e1, e2⟩ => hr a ⟨by omega, by omega⟩)
      (fun a ⟨e1, e2⟩ => hw a ⟨by omega, by omega⟩)).conseq (fun r hr' => ?_)
    rw [hr', Prod.mk.injEq]; omega

/-- **`mem_prim_move8/16/32`**: loads in the `len mod 2^32` elements at `src`, stores in those at `dest` -/
theorem Acc_primMoveElems (dest src len : Nat)
    (hr : ∀ a, Cells src (len % U32) a → R a) (hw : ∀ a, Cells dest (len % U32) a → W a) :
    Acc R W (primMoveElems dest src len) (fun _ => True) := by
  generalize hn : len % U32 = n at hr hw
  unfold primMoveElems
  simp only [hn]
  split
  · refine Acc.bind (Acc_moveBlocksFwd (n / 16) dest src (fun a ⟨e1, e2⟩ => hr a ⟨by omega, by omega⟩)
      (fun a ⟨e1, e2⟩ => hw a ⟨by omega, by omega⟩)) (fun r hr' => ?_)
    subst hr'
    dsimp only
    exact Acc.bind (Acc_copyFwd (n % 16) (dest + 16 * (n / 16)) (src + 16 * (n / 16))
      (fun a ⟨e1, e2⟩ => hr a ⟨by omega, by omega⟩) (fun a ⟨e1, e2⟩ => hw a ⟨by omega, by omega⟩))
      (fun _ _ => Acc.pure _ trivial)
  · refine Acc.bind (Acc_moveBlocksBwd (n / 16) (dest + n) (src + n) (by omega) (by omega)
      (fun a ⟨e1, e2⟩ => hr a ⟨by omega, by omega⟩) (fun a ⟨e1, e2⟩ => hw a ⟨by omega, by omega⟩)) (fun r hr' => ?_)
    subst hr'
    dsimp only
    exact Acc.bind (Acc_copyBwd (n % 16) (dest + n - 16 * (n / 16)) (src + n - 16 * (n / 16)) (by omega) (by omega)
      (fun a ⟨e1, e2⟩ => hr a ⟨by omega, by omega⟩) (fun a ⟨e1, e2⟩ => hw a ⟨by omega, by omega⟩))
      (fun _ _ => Acc.pure _ trivial)

theorem Acc_mem_prim_move16 (dest src len : Nat)
    (hr : ∀ a, Cells src (len % U32) a → R a) (hw : ∀ a, Cells dest (len % U32) a → W a) :
    Acc R W (mem_prim_move16 dest src len) (fun _ => True) := Acc_primMoveElems _ _ _ hr hw
theorem Acc_mem_prim_move32 (dest src len : Nat)
    (hr : ∀ a, Cells src (len % U32) a → R a) (hw : ∀ a, Cells dest (len % U32) a → W a) :
    Acc R W (mem_prim_move32 dest src len) (fun _ => True) := Acc_primMoveElems _ _ _ hr hw

/-! ## shared macros, arithmetic of the size conversions -/

theorem U32_eq : U32 = 4294967296 := rfl
theorem U64_eq : U64 = 18446744073709551616 := rfl

/-- `chkDmaxMemB`: the continuation runs on `destbos` itself, and only when `dmax` passed the check -/
theorem Acc_chkDmaxMemB (dmax : Nat) (db : Bos) (max : Nat) (k : Option Nat → Prog Nat)
    (hk : (db = none → dmax ≤ max) → (∀ bos, db = some bos → dmax ≤ bos) → Acc R W (k db) (fun _ => True)) :
    Acc R W (chkDmaxMemB dmax db max k) (fun _ => True) := by
  unfold chkDmaxMemB
  cases db with
  | none =>
    dsimp only
    split
    · exact Acc_failM' _ trivial
    · exact hk (fun _ => by omega) (fun bos h => by cases h)
  | some bos =>
    dsimp only
    split
    · split <;> exact Acc_failM' _ trivial
    · exact hk (fun h => by cases h) (fun b h => by cases h; omega)

/-- the `uint32_t` element count times the element size does not exceed the `size_t` byte size -/
theorem elems2_le (c : Nat) : 2 * (c % U32) ≤ (c * 2) % U64 := by rw [U32_eq, U64_eq]; omega
theorem elems4_le (c : Nat) : 4 * (c % U32) ≤ (c * 4) % U64 := by rw [U32_eq, U64_eq]; omega
theorem bytes4 (x : Nat) : (x * 4 % U64) / 4 ≤ x ∧ (x * 4 % U64) % 4 = 0 := by rw [U64_eq]; omega

/-! ## entry points, byte cells -/

/-- `mem_prim_move(dest, src, slen)` copies `slen mod 2^32` bytes and must not be entered with `slen mod 2^32 = 0`.
Without a known object size `dmax ≤ RSIZE_MAX_MEM < 2^32` excludes that; with a known one the only bound on `dmax` is
`destbos`, hence the hypothesis `hU`. -/
theorem Acc_memcpy_s (dest dmax src slen : Nat) (db sb : Bos) (hU : db = none ∨ slen % U32 ≠ 0)
    (hr : src ≠ 0 → slen ≤ dmax → ∀ a, Cells src slen a → R a) (hw : dest ≠ 0 → ∀ a, Cells dest dmax a → W a) :
    Acc R W (memcpy_s dest dmax src slen db sb) (fun _ => True) := by
  unfold memcpy_s
  split
  · exact Acc.pure _ trivial
  rename_i hsl
  split
  · exact Acc_failM' _ trivial
  rename_i hd
  split
  · exact Acc_failM' _ trivial
  refine Acc_chkDmaxMemB _ _ _ _ (fun h1 h2 => ?_)
  have hw' := hw hd
  have hE : ∀ e, Acc R W (do handleMemErrorB 1 dest dmax e; pure e : Prog Nat) (fun _ => True) :=
    fun e => Acc.bindT (Acc_handleMemErrorB_one dest dmax e hw') (fun _ => Acc.pure _ trivial)
  dsimp only
  split
  · exact hE _
  rename_i hs
  split
  · exact hE _
  rename_i hle
  split
  · exact Acc_failM' _ trivial
  split
  · exact Acc.bindT (Acc_mem_prim_set_one dest dmax 0
      (fun a ⟨e1, e2⟩ => hw' a ⟨e1, by have := Nat.mod_le dmax U32; omega⟩))
      (fun _ => Acc.handlerMBind _ (Acc.pure _ trivial))
  · have hpos : 0 < slen % U32 := by
      rcases hU with h | h
      · have := h1 h
        simp only [RSIZE_MAX_MEM] at this
        rw [U32_eq]; omega
      · omega
    have hm := Nat.mod_le slen U32
    exact Acc.bindT (Acc_mem_prim_move dest src slen hpos
      (fun a ⟨e1, e2⟩ => hr hs (by omega) a ⟨e1, by omega⟩) (fun a ⟨e1, e2⟩ => hw' a ⟨e1, by omega⟩))
      (fun _ => Acc.pure _ trivial)

theorem Acc_memmove_s (dest dmax src slen : Nat) (db sb : Bos) (hU : db = none ∨ slen % U32 ≠ 0)
    (hr : src ≠ 0 → slen ≤ dmax → ∀ a, Cells src slen a → R a) (hw : dest ≠ 0 → ∀ a, Cells dest dmax a → W a) :
    Acc R W (memmove_s dest dmax src slen db sb) (fun _ => True) := by
  unfold memmove_s
  split
  · exact Acc.pure _ trivial
  rename_i hsl
  split
  · exact Acc_failM' _ trivial
  rename_i hd
  split
  · exact Acc_failM' _ trivial
  refine Acc_chkDmaxMemB _ _ _ _ (fun h1 h2 => ?_)
  have hw' := hw hd
  have hE : ∀ e, Acc R W (do handleMemErrorB 1 dest dmax e; pure e : Prog Nat) (fun _ => True) :=
    fun e => Acc.bindT (Acc_handleMemErrorB_one dest dmax e hw') (fun _ => Acc.pure _ trivial)
  dsimp only
  split
  · exact hE _
  rename_i hs
  split
  · exact hE _
  rename_i hle
  split
  · exact Acc_failM' _ trivial
  · have hpos : 0 < slen % U32 := by
      rcases hU with h | h
      · have := h1 h
        simp only [RSIZE_MAX_MEM] at this
        rw [U32_eq]; omega
      · omega
    have hm := Nat.mod_le slen U32
    exact Acc.bindT (Acc_mem_prim_move dest src slen hpos
      (fun a ⟨e1, e2⟩ => hr hs (by omega) a ⟨e1, by omega⟩) (fun a ⟨e1, e2⟩ => hw' a ⟨e1, by omega⟩))
      (fun _ => Acc.pure _ trivial)

/-- `memset_s` does `dmax = destbos` when the object size is known: the footprint is the `destbos.getD dmax` bytes at
`dest`.  `R` is arbitrary: with `R := fun _ => False` this says that there is NO load. -/
theorem Acc_memset_s (dest dmax value n : Nat) (db : Bos) (hw : dest ≠ 0 → ∀ a, Cells dest (db.getD dmax) a → W a) :
    Acc R W (memset_s dest dmax value n db) (fun _ => True) := by
  unfold memset_s
  split
  · exact Acc_failM' _ trivial
  rename_i hd
  split
  · exact Acc.pure _ trivial
  refine Acc_chkDmaxMemB _ _ _ _ (fun h1 h2 => ?_)
  have hw' := hw hd
  dsimp only
  split
  · exact Acc_failM' _ trivial
  split
  · have hm := Nat.mod_le (db.getD dmax) U32
    exact Acc.handlerMBind _ (Acc.bindT (Acc_mem_prim_set_one dest _ value
      (fun a ⟨e1, e2⟩ => hw' a ⟨e1, by omega⟩)) (fun _ => Acc.pure _ trivial))
  · have hm := Nat.mod_le n U32
    exact Acc.bindT (Acc_mem_prim_set_one dest n value
      (fun a ⟨e1, e2⟩ => hw' a ⟨e1, by omega⟩)) (fun _ => Acc.pure _ trivial)

theorem Acc_memzero_s (dest len : Nat) (db : Bos) (hw : dest ≠ 0 → ∀ a, Cells dest len a → W a) :
    Acc R W (memzero_s dest len db) (fun _ => True) := by
  unfold memzero_s
  dsimp only
  split
  · exact Acc_failM' _ trivial
  rename_i hd
  split
  · exact Acc_failM' _ trivial
  refine Acc_chkDmaxMemB _ _ _ _ (fun h1 h2 => ?_)
  exact Acc.bindT (Acc_memsetBytes 1 0 dest len (by rw [Nat.div_one]; exact hw hd)
    (fun h => absurd (Nat.mod_one _) h)) (fun _ => Acc.pure _ trivial)

theorem Acc_memccpyLoop (cfg : Cfg) (c : Int) (od odm dmax dp sp n : Nat) (hn : n ≤ dmax)
    (hE : Acc R W (handleError cfg od odm ESNOSPC) (fun _ => True))
    (hrs : ∀ a, Cells sp n a → R a) (hrd : ∀ a, Cells dp dmax a → R a) (hw : ∀ a, Cells dp dmax a → W a) :
    Acc R W (memccpyLoop cfg c od odm dmax dp sp n) (fun _ => True) := by
  induction dmax generalizing dp sp n with
  | zero => unfold memccpyLoop; exact Acc.bindT hE (fun _ => Acc.pure _ trivial)
  | succ m ih =>
    have w0 : W dp := hw _ ⟨by omega, by omega⟩
    have r0 : R dp := hrd _ ⟨by omega, by omega⟩
    unfold memccpyLoop
    split
    · exact Acc.storeBind w0 (Acc.pure _ trivial)
    · rename_i hn0
      have s0 : R sp := hrs _ ⟨by omega, by omega⟩
      refine Acc.loadBind s0 (fun v => Acc.storeBind w0 (Acc.loadBind r0 (fun v' => ?_)))
      split
      · split
        · have hm := Nat.mod_le n U32
          exact Acc.bindT (Acc_mem_prim_set_one dp n 0 (fun a ⟨e1, e2⟩ => hw a ⟨e1, by omega⟩))
            (fun _ => Acc.pure _ trivial)
        · exact Acc.bindT (Acc.pure _ trivial) (fun _ => Acc.pure _ trivial)
      · exact ih (dp+1) (sp+1) (n-1) (by omega) (fun a ⟨e1, e2⟩ => hrs a ⟨by omega, by omega⟩)
          (fun a ⟨e1, e2⟩ => hrd a ⟨by omega, by omega⟩) (fun a ⟨e1, e2⟩ => hw a ⟨by omega, by omega⟩)

/-- `memccpy_s` re-reads every byte it stored (`if (*dp == c)`): loads in the `n` source cells and in dest's cells -/
theorem Acc_memccpy_s (cfg : Cfg) (dest dmax src c n : Nat) (db sb : Bos)
    (hrs : src ≠ 0 → n ≤ dmax → ∀ a, Cells src n a → R a) (hrd : dest ≠ 0 → ∀ a, Cells dest dmax a → R a)
    (hw : dest ≠ 0 → ∀ a, Cells dest dmax a → W a) :
    Acc R W (memccpy_s cfg dest dmax src c n db sb) (fun _ => True) := by
  unfold memccpy_s
  split
  · exact Acc_failM' _ trivial
  rename_i hd
  split
  · exact Acc_failM' _ trivial
  rename_i hdm
  refine Acc_chkDmaxMemB _ _ _ _ (fun h1 h2 => ?_)
  have hw' := hw hd
  have hE : ∀ e, Acc R W (do handleMemErrorB 1 dest dmax e; pure e : Prog Nat) (fun _ => True) :=
    fun e => Acc.bindT (Acc_handleMemErrorB_one dest dmax e hw') (fun _ => Acc.pure _ trivial)
  dsimp only
  split
  · exact Acc.storeBind (hw' _ ⟨by omega, by omega⟩) (Acc.pure _ trivial)
  split
  · exact hE _
  rename_i hs
  split
  · exact hE _
  rename_i hle
  split
  · exact Acc.bindT (Acc_mem_prim_set_one dest dmax 0
      (fun a ⟨e1, e2⟩ => hw' a ⟨e1, by have := Nat.mod_le dmax U32; omega⟩))
      (fun _ => Acc.handlerMBind _ (Acc.pure _ trivial))
  · exact Acc_memccpyLoop cfg _ dest dmax dmax dest src n (by omega)
      (Acc_handleError cfg dest dmax _ (by omega) hw') (hrs hs (by omega)) (hrd hd) hw'

/-! ## entry points, 16/32-bit elements and `wchar_t` -/

theorem Acc_memzero16_s (dest len : Nat) (db : Bos) (hw : dest ≠ 0 → ∀ a, Cells dest len a → W a) :
    Acc R W (memzero16_s dest len db) (fun _ => True) := by
  unfold memzero16_s
  dsimp only
  split
  · exact Acc_failM' _ trivial
  rename_i hd
  split
  · exact Acc_failM' _ trivial
  refine Acc_chkDmaxMemB _ _ _ _ (fun h1 h2 => ?_)
  have hm := Nat.mod_le len U32
  exact Acc.bindT (Acc_mem_prim_set16 dest len 0 (fun a ⟨e1, e2⟩ => hw hd a ⟨e1, by omega⟩))
    (fun _ => Acc.pure _ trivial)

theorem Acc_memzero32_s (dest len : Nat) (db : Bos) (hw : dest ≠ 0 → ∀ a, Cells dest len a → W a) :
    Acc R W (memzero32_s dest len db) (fun _ => True) := by
  unfold memzero32_s
  dsimp only
  split
  · exact Acc_failM' _ trivial
  rename_i hd
  split
  · exact Acc_failM' _ trivial
  refine Acc_chkDmaxMemB _ _ _ _ (fun h1 h2 => ?_)
  have hm := Nat.mod_le len U32
  exact Acc.bindT (Acc_mem_prim_set32 dest len 0 (fun a ⟨e1, e2⟩ => hw hd a ⟨e1, by omega⟩))
    (fun _ => Acc.pure _ trivial)

/-- `dmax = destbos` when known: stores in the `destbos.getD dmax / 2` elements at `dest`; no load (`R` arbitrary) -/
theorem Acc_memset16_s (dest dmax value n : Nat) (db : Bos)
    (hw : dest ≠ 0 → ∀ a, Cells dest (db.getD dmax / 2) a → W a) :
    Acc R W (memset16_s dest dmax value n db) (fun _ => True) := by
  unfold memset16_s
  split
  · exact Acc_failM' _ trivial
  rename_i hd
  split
  · exact Acc.pure _ trivial
  refine Acc_chkDmaxMemB _ _ _ _ (fun h1 h2 => ?_)
  have hw' := hw hd
  dsimp only
  split
  · have hm := Nat.mod_le (db.getD dmax / 2) U32
    exact Acc.handlerMBind _ (Acc.bindT (Acc_mem_prim_set16 dest _ value
      (fun a ⟨e1, e2⟩ => hw' a ⟨e1, by omega⟩)) (fun _ => Acc.pure _ trivial))
  · have hm := Nat.mod_le n U32
    exact Acc.bindT (Acc_mem_prim_set16 dest n value
      (fun a ⟨e1, e2⟩ => hw' a ⟨e1, by omega⟩)) (fun _ => Acc.pure _ trivial)

/-- `dmax = destbos` when known: stores in the `destbos.getD dmax / 4` elements at `dest`; no load (`R` arbitrary) -/
theorem Acc_memset32_s (dest dmax value n : Nat) (db : Bos)
    (hw : dest ≠ 0 → ∀ a, Cells dest (db.getD dmax / 4) a → W a) :
    Acc R W (memset32_s dest dmax value n db) (fun _ => True) := by
  unfold memset32_s
  split
  · exact Acc_failM' _ trivial
  rename_i hd
  split
  · exact Acc.pure _ trivial
  refine Acc_chkDmaxMemB _ _ _ _ (fun h1 h2 => ?_)
  have hw' := hw hd
  dsimp only
  split
  · have hm := Nat.mod_le (db.getD dmax / 4) U32
    exact Acc.handlerMBind _ (Acc.bindT (Acc_mem_prim_set32 dest _ value
      (fun a ⟨e1, e2⟩ => hw' a ⟨e1, by omega⟩)) (fun _ => Acc.pure _ trivial))
  · have hm := Nat.mod_le n U32
    exact Acc.bindT (Acc_mem_prim_set32 dest n value
      (fun a ⟨e1, e2⟩ => hw' a ⟨e1, by omega⟩)) (fun _ => Acc.pure _ trivial)

/-- `dmax = destbos` when known.  Dest footprint: the cells that hold the `destbos.getD dmax` BYTES at `dest` (the last
one partially when that is not a multiple of 2: the byte-wise clearing of the error paths read-modify-writes it, hence
`hrd`); source: the `slen` elements at `src`. -/
theorem Acc_memcpy16_s (dest dmax src slen : Nat) (db sb : Bos)
    (hrs : src ≠ 0 → ∀ a, Cells src slen a → R a)
    (hrd : dest ≠ 0 → ∀ a, Cells dest ((db.getD dmax + 1) / 2) a → R a)
    (hw : dest ≠ 0 → ∀ a, Cells dest ((db.getD dmax + 1) / 2) a → W a) :
    Acc R W (memcpy16_s dest dmax src slen db sb) (fun _ => True) := by
  unfold memcpy16_s
  split
  · exact Acc.pure _ trivial
  rename_i hsl
  split
  · exact Acc_failM' _ trivial
  rename_i hd
  split
  · exact Acc_failM' _ trivial
  refine Acc_chkDmaxMemB _ _ _ _ (fun h1 h2 => ?_)
  have hw' := hw hd
  have hE : ∀ e, Acc R W (do handleMemErrorB 2 dest (db.getD dmax) e; pure e : Prog Nat) (fun _ => True) :=
    fun e => Acc.bindT (Acc_handleMemErrorB 2 dest (db.getD dmax) e (fun a ⟨e1, e2⟩ => hw' a ⟨e1, by omega⟩)
      (fun h => ⟨hrd hd _ ⟨by omega, by omega⟩, hw' _ ⟨by omega, by omega⟩⟩)) (fun _ => Acc.pure _ trivial)
  dsimp only
  split
  · exact hE _
  rename_i hs
  split
  · exact hE _
  rename_i hle
  split
  · exact Acc_failM' _ trivial
  split
  · have hm := Nat.mod_le (db.getD dmax) U32
    exact Acc.bindT (Acc_mem_prim_set 2 (dest * 2) (db.getD dmax) 0 (by decide)
      (fun b ⟨e1, e2⟩ => hw' _ ⟨by omega, by omega⟩) (fun _ b ⟨e1, e2⟩ => hrd hd _ ⟨by omega, by omega⟩))
      (fun _ => Acc.handlerMBind _ (Acc.pure _ trivial))
  · have hm := Nat.mod_le slen U32
    have hm2 := elems2_le slen
    exact Acc.bindT (Acc_mem_prim_move16 dest src slen
      (fun a ⟨e1, e2⟩ => hrs hs a ⟨e1, by omega⟩) (fun a ⟨e1, e2⟩ => hw' a ⟨e1, by omega⟩))
      (fun _ => Acc.pure _ trivial)

/-- `dmax = destbos` when known.  Dest footprint: the cells that hold the `destbos.getD dmax` BYTES at `dest` (the last
one partially when that is not a multiple of 4: the byte-wise clearing of the error paths read-modify-writes it, hence
`hrd`); source: the `slen` elements at `src`. -/
theorem Acc_memcpy32_s (dest dmax src slen : Nat) (db sb : Bos)
    (hrs : src ≠ 0 → ∀ a, Cells src slen a → R a)
    (hrd : dest ≠ 0 → ∀ a, Cells dest ((db.getD dmax + 3) / 4) a → R a)
    (hw : dest ≠ 0 → ∀ a, Cells dest ((db.getD dmax + 3) / 4) a → W a) :
    Acc R W (memcpy32_s dest dmax src slen db sb) (fun _ => True) := by
  unfold memcpy32_s
  split
  · exact Acc.pure _ trivial
  rename_i hsl
  split
  · exact Acc_failM' _ trivial
  rename_i hd
  split
  · exact Acc_failM' _ trivial
  refine Acc_chkDmaxMemB _ _ _ _ (fun h1 h2 => ?_)
  have hw' := hw hd
  have hE : ∀ e, Acc R W (do handleMemErrorB 4 dest (db.getD dmax) e; pure e : Prog Nat) (fun _ => True) :=
    fun e => Acc.bindT (Acc_handleMemErrorB 4 dest (db.getD dmax) e (fun a ⟨e1, e2⟩ => hw' a ⟨e1, by omega⟩)
      (fun h => ⟨hrd hd _ ⟨by omega, by omega⟩, hw' _ ⟨by omega, by omega⟩⟩)) (fun _ => Acc.pure _ trivial)
  dsimp only
  split
  · exact hE _
  rename_i hs
  split
  · exact hE _
  rename_i hle
  split
  · exact Acc_failM' _ trivial
  split
  · have hm := Nat.mod_le (db.getD dmax) U32
    exact Acc.bindT (Acc_mem_prim_set 4 (dest * 4) (db.getD dmax) 0 (by decide)
      (fun b ⟨e1, e2⟩ => hw' _ ⟨by omega, by omega⟩) (fun _ b ⟨e1, e2⟩ => hrd hd _ ⟨by omega, by omega⟩))
      (fun _ => Acc.handlerMBind _ (Acc.pure _ trivial))
  · have hm := Nat.mod_le slen U32
    have hm2 := elems4_le slen
    exact Acc.bindT (Acc_mem_prim_move32 dest src slen
      (fun a ⟨e1, e2⟩ => hrs hs a ⟨e1, by omega⟩) (fun a ⟨e1, e2⟩ => hw' a ⟨e1, by omega⟩))
      (fun _ => Acc.pure _ trivial)

/-- `dmax = destbos` when known.  Dest footprint: the cells that hold the `destbos.getD dmax` BYTES at `dest` (the last
one partially when that is not a multiple of 2: the byte-wise clearing of the error paths read-modify-writes it, hence
`hrd`); source: the `slen` elements at `src`. -/
theorem Acc_memmove16_s (dest dmax src slen : Nat) (db sb : Bos)
    (hrs : src ≠ 0 → ∀ a, Cells src slen a → R a)
    (hrd : dest ≠ 0 → ∀ a, Cells dest ((db.getD dmax + 1) / 2) a → R a)
    (hw : dest ≠ 0 → ∀ a, Cells dest ((db.getD dmax + 1) / 2) a → W a) :
    Acc R W (memmove16_s dest dmax src slen db sb) (fun _ => True) := by
  unfold memmove16_s
  split
  · exact Acc.pure _ trivial
  rename_i hsl
  split
  · exact Acc_failM' _ trivial
  rename_i hd
  split
  · exact Acc_failM' _ trivial
  refine Acc_chkDmaxMemB _ _ _ _ (fun h1 h2 => ?_)
  have hw' := hw hd
  have hE : ∀ e, Acc R W (do handleMemErrorB 2 dest (db.getD dmax) e; pure e : Prog Nat) (fun _ => True) :=
    fun e => Acc.bindT (Acc_handleMemErrorB 2 dest (db.getD dmax) e (fun a ⟨e1, e2⟩ => hw' a ⟨e1, by omega⟩)
      (fun h => ⟨hrd hd _ ⟨by omega, by omega⟩, hw' _ ⟨by omega, by omega⟩⟩)) (fun _ => Acc.pure _ trivial)
  dsimp only
  split
  · exact hE _
  rename_i hs
  split
  · exact hE _
  rename_i hle
  split
  · exact Acc_failM' _ trivial
  · have hm := Nat.mod_le slen U32
    have hm2 := elems2_le slen
    exact Acc.bindT (Acc_mem_prim_move16 dest src slen
      (fun a ⟨e1, e2⟩ => hrs hs a ⟨e1, by omega⟩) (fun a ⟨e1, e2⟩ => hw' a ⟨e1, by omega⟩))
      (fun _ => Acc.pure _ trivial)

/-- `dmax = destbos` when known.  Dest footprint: the cells that hold the `destbos.getD dmax` BYTES at `dest` (the last
one partially when that is not a multiple of 4: the byte-wise clearing of the error paths read-modify-writes it, hence
`hrd`); source: the `slen` elements at `src`. -/
theorem Acc_memmove32_s (dest dmax src slen : Nat) (db sb : Bos)
    (hrs : src ≠ 0 → ∀ a, Cells src slen a → R a)
    (hrd : dest ≠ 0 → ∀ a, Cells dest ((db.getD dmax + 3) / 4) a → R a)
    (hw : dest ≠ 0 → ∀ a, Cells dest ((db.getD dmax + 3) / 4) a → W a) :
    Acc R W (memmove32_s dest dmax src slen db sb) (fun _ => True) := by
  unfold memmove32_s
  split
  · exact Acc.pure _ trivial
  rename_i hsl
  split
  · exact Acc_failM' _ trivial
  rename_i hd
  split
  · exact Acc_failM' _ trivial
  refine Acc_chkDmaxMemB _ _ _ _ (fun h1 h2 => ?_)
  have hw' := hw hd
  have hE : ∀ e, Acc R W (do handleMemErrorB 4 dest (db.getD dmax) e; pure e : Prog Nat) (fun _ => True) :=
    fun e => Acc.bindT (Acc_handleMemErrorB 4 dest (db.getD dmax) e (fun a ⟨e1, e2⟩ => hw' a ⟨e1, by omega⟩)
      (fun h => ⟨hrd hd _ ⟨by omega, by omega⟩, hw' _ ⟨by omega, by omega⟩⟩)) (fun _ => Acc.pure _ trivial)
  dsimp only
  split
  · exact hE _
  rename_i hs
  split
  · exact hE _
  rename_i hle
  split
  · exact Acc_failM' _ trivial
  · have hm := Nat.mod_le slen U32
    have hm2 := elems4_le slen
    exact Acc.bindT (Acc_mem_prim_move32 dest src slen
      (fun a ⟨e1, e2⟩ => hrs hs a ⟨e1, by omega⟩) (fun a ⟨e1, e2⟩ => hw' a ⟨e1, by omega⟩))
      (fun _ => Acc.pure _ trivial)

/-- sizes in ELEMENTS (`wchar_t`, 4 bytes); `dlen * 4` is a multiple of 4, no partial cell -/
theorem Acc_wmemcpy_s (dest dlen src count : Nat) (db sb : Bos)
    (hrs : src ≠ 0 → ∀ a, Cells src count a → R a) (hw : dest ≠ 0 → ∀ a, Cells dest dlen a → W a) :
    Acc R W (wmemcpy_s dest dlen src count db sb) (fun _ => True) := by
  unfold wmemcpy_s
  rw [show SIZEOF_WCHAR_T = 4 from rfl]
  dsimp only
  split
  · exact Acc.pure _ trivial
  rename_i hsl
  split
  · exact Acc_failM' _ trivial
  rename_i hd
  split
  · exact Acc_failM' _ trivial
  refine Acc_chkDmaxMemB _ _ _ _ (fun h1 h2 => ?_)
  have hw' := hw hd
  obtain ⟨hb1, hb2⟩ := bytes4 dlen
  have hE : ∀ e, Acc R W (do handleMemErrorB 4 dest (dlen * 4 % U64) e; pure e : Prog Nat) (fun _ => True) :=
    fun e => Acc.bindT (Acc_handleMemErrorB 4 dest _ e (fun a ⟨e1, e2⟩ => hw' a ⟨e1, by omega⟩)
      (fun h => absurd hb2 h)) (fun _ => Acc.pure _ trivial)
  have hS : ∀ e, Acc R W (do mem_prim_set32 dest dlen 0; handlerM e; pure e : Prog Nat) (fun _ => True) :=
    fun e => Acc.bindT (Acc_mem_prim_set32 dest dlen 0
      (fun a ⟨e1, e2⟩ => hw' a ⟨e1, by have := Nat.mod_le dlen U32; omega⟩))
      (fun _ => Acc.handlerMBind _ (Acc.pure _ trivial))
  split
  · exact hE _
  rename_i hs
  split
  · exact hE _
  rename_i hle
  split
  · exact hS _
  split
  · exact hS _
  · have hm := Nat.mod_le count U32
    have hm2 := elems4_le count
    have hm3 : dlen * 4 % U64 ≤ dlen * 4 := Nat.mod_le _ _
    exact Acc.bindT (Acc_mem_prim_move32 dest src count
      (fun a ⟨e1, e2⟩ => hrs hs a ⟨e1, by omega⟩) (fun a ⟨e1, e2⟩ => hw' a ⟨e1, by omega⟩))
      (fun _ => Acc.pure _ trivial)

/-- sizes in ELEMENTS (`wchar_t`, 4 bytes); `dlen * 4` is a multiple of 4, no partial cell -/
theorem Acc_wmemmove_s (dest dlen src count : Nat) (db sb : Bos)
    (hrs : src ≠ 0 → ∀ a, Cells src count a → R a) (hw : dest ≠ 0 → ∀ a, Cells dest dlen a → W a) :
    Acc R W (wmemmove_s dest dlen src count db sb) (fun _ => True) := by
  unfold wmemmove_s
  rw [show SIZEOF_WCHAR_T = 4 from rfl]
  dsimp only
  split
  · exact Acc.pure _ trivial
  rename_i hsl
  split
  · exact Acc_failM' _ trivial
  rename_i hd
  split
  · exact Acc_failM' _ trivial
  refine Acc_chkDmaxMemB _ _ _ _ (fun h1 h2 => ?_)
  have hw' := hw hd
  obtain ⟨hb1, hb2⟩ := bytes4 dlen
  have hE : ∀ e, Acc R W (do handleMemErrorB 4 dest (dlen * 4 % U64) e; pure e : Prog Nat) (fun _ => True) :=
    fun e => Acc.bindT (Acc_handleMemErrorB 4 dest _ e (fun a ⟨e1, e2⟩ => hw' a ⟨e1, by omega⟩)
      (fun h => absurd hb2 h)) (fun _ => Acc.pure _ trivial)
  have hS : ∀ e, Acc R W (do mem_prim_set32 dest dlen 0; handlerM e; pure e : Prog Nat) (fun _ => True) :=
    fun e => Acc.bindT (Acc_mem_prim_set32 dest dlen 0
      (fun a ⟨e1, e2⟩ => hw' a ⟨e1, by have := Nat.mod_le dlen U32; omega⟩))
      (fun _ => Acc.handlerMBind _ (Acc.pure _ trivial))
  split
  · exact hE _
  rename_i hs
  split
  · exact hE _
  rename_i hle
  split
  · exact hS _
  · have hm := Nat.mod_le count U32
    have hm2 := elems4_le count
    have hm3 : dlen * 4 % U64 ≤ dlen * 4 := Nat.mod_le _ _
    exact Acc.bindT (Acc_mem_prim_move32 dest src count
      (fun a ⟨e1, e2⟩ => hrs hs a ⟨e1, by omega⟩) (fun a ⟨e1, e2⟩ => hw' a ⟨e1, by omega⟩))
      (fun _ => Acc.pure _ trivial)

end SafeC

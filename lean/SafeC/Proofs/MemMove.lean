import SafeC.Proofs.MemSet
/-!
# The move primitives: `mem_prim_move` (bytes, 64-bit word variant) and `mem_prim_move8/16/32`

`Moved st st' d s n`: `st'` is `st` with cell `d+i` holding what cell `s+i` held in `st`, for every `i < n`
(all `n` source cells are taken from the ORIGINAL memory: the result of copying through a temporary,
i.e. C `memmove`); every other cell, the mapping, permissions, events and strays are those of `st`.

For all lengths, both directions, every relative placement of the operands (any overlap) and every
alignment.  The phases of the C code are separate lemmas: alignment prologue (`do … while (--tsp)`
byte loop), the 8-byte word loop (a word copy = 8 loads then 8 stores), the byte tail; the
16-way unrolled element loops of `mem_prim_move8/16/32` by induction on the block count.
-/
namespace SafeC
open Gen Mem

structure Moved (st st' : St) (d s n : Nat) : Prop where
  same : SameMeta st' st
  data : ∀ a, st'.data a = if d ≤ a ∧ a < d + n then st.data (s + (a - d)) else st.data a

theorem Moved.nil (st : St) (d s : Nat) : Moved st st d s 0 :=
  ⟨SameMeta.refl _, fun a => by rw [if_neg]; omega⟩

theorem Moved.cast {st st' : St} {d s n m : Nat} (h : Moved st st' d s n) (e : n = m) :
    Moved st st' d s m := e ▸ h

/-- one cell -/
theorem Moved.upd (st : St) (d s : Nat) : Moved st (st.upd d (st.data s)) d s 1 :=
  ⟨SameMeta.upd _ _ _, fun a => by
    by_cases h : a = d
    · subst h; rw [St.upd_data_same, if_pos (by omega), Nat.sub_self, Nat.add_zero]
    · rw [St.upd_data_ne _ _ _ _ h, if_neg (by omega)]⟩

/-- ascending composition: first the low part, then the high part; sound when `d ≤ s` (the part
already written lies below every source cell still to be read) -/
theorem Moved.append_fwd {st s1 s2 : St} {d s n m : Nat} (hle : d ≤ s)
    (h1 : Moved st s1 d s n) (h2 : Moved s1 s2 (d+n) (s+n) m) : Moved st s2 d s (n+m) := by
  refine ⟨h2.same.trans h1.same, fun a => ?_⟩
  rw [h2.data a]
  by_cases c1 : d + n ≤ a ∧ a < d + n + m
  · rw [if_pos c1, if_pos (by omega), h1.data, if_neg (by omega)]
    congr 1; omega
  · rw [if_neg c1, h1.data a]
    by_cases c2 : d ≤ a ∧ a < d + n
    · rw [if_pos c2, if_pos (by omega)]
    · rw [if_neg c2, if_neg (by omega)]

/-- descending composition: first the high part, then the low part; sound when `s ≤ d` -/
theorem Moved.append_bwd {st s1 s2 : St} {d s n m : Nat} (hle : s ≤ d)
    (h1 : Moved st s1 (d+n) (s+n) m) (h2 : Moved s1 s2 d s n) : Moved st s2 d s (n+m) := by
  refine ⟨h2.same.trans h1.same, fun a => ?_⟩
  rw [h2.data a]
  by_cases c2 : d ≤ a ∧ a < d + n
  · rw [if_pos c2, if_pos (by omega), h1.data, if_neg (by omega)]
  · rw [if_neg c2, h1.data a]
    by_cases c1 : d + n ≤ a ∧ a < d + n + m
    · rw [if_pos c1, if_pos (by omega)]
      congr 1; omega
    · rw [if_neg c1, if_neg (by omega)]

theorem RD.sub {st : St} {d n x m : Nat} (h : RD st d n) (h1 : d ≤ x) (h2 : x + m ≤ d + n) :
    RD st x m := by
  intro i hi
  have := h (x - d + i) (by omega)
  have e : d + (x - d + i) = x + i := by omega
  rw [e] at this; exact this

theorem RD.of_moved {st st' : St} {d s n x k : Nat} (h : Moved st st' d s n) (hr : RD st x k) :
    RD st' x k := RD.of_sameMeta h.same hr

theorem RW.of_moved {st st' : St} {d s n x k : Nat} (h : Moved st st' d s n) (hr : RW st x k) :
    RW st' x k := RW.of_sameMeta h.same hr

/-! ## element loops -/

/-- `n` times `*dp++ = *sp++;` with the destination not above the source -/
theorem copyFwd_ok (n dp sp : Nat) (st : St) (hle : dp ≤ sp) (hw : RW st dp n) (hr : RD st sp n) :
    ∃ st', exec (copyFwd n dp sp) st = .ok ((dp + n, sp + n), st') ∧ Moved st st' dp sp n := by
  induction n generalizing dp sp st with
  | zero => exact ⟨st, rfl, Moved.nil _ _ _⟩
  | succ n ih =>
    obtain ⟨hm, hwr, _⟩ := hw.head
    have hs0 := hr 0 (by omega)
    simp only [Nat.add_zero] at hs0
    have hr' : RD st (sp+1) n := hr.sub (by omega) (by omega)
    obtain ⟨st', he, hmv⟩ := ih (dp+1) (sp+1) (st.upd dp (st.data sp)) (by omega)
      (RW.of_sameMeta (SameMeta.upd _ _ _) hw.tail) (RD.of_sameMeta (SameMeta.upd _ _ _) hr')
    refine ⟨st', ?_, ((Moved.upd st dp sp).append_fwd hle hmv).cast (by omega)⟩
    simp only [copyFwd, exec_bind, exec_load_ok _ _ hs0.1 hs0.2, exec_store_ok _ _ _ hm hwr]
    rw [show dp + (n+1) = dp + 1 + n by omega, show sp + (n+1) = sp + 1 + n by omega]
    exact he

/-- `n` times `*--dp = *--sp;` entered at the END of both operands, the destination not below the source -/
theorem copyBwd_ok (n d s : Nat) (st : St) (hle : s ≤ d) (hw : RW st d n) (hr : RD st s n) :
    ∃ st', exec (copyBwd n (d + n) (s + n)) st = .ok ((d, s), st') ∧ Moved st st' d s n := by
  induction n generalizing st with
  | zero => exact ⟨st, rfl, Moved.nil _ _ _⟩
  | succ n ih =>
    have hd := hw n (by omega)
    have hs := hr n (by omega)
    have hw' : RW st d n := hw.sub (Nat.le_refl _) (by omega)
    have hr' : RD st s n := hr.sub (Nat.le_refl _) (by omega)
    obtain ⟨st', he, hmv⟩ := ih (st.upd (d+n) (st.data (s+n)))
      (RW.of_sameMeta (SameMeta.upd _ _ _) hw') (RD.of_sameMeta (SameMeta.upd _ _ _) hr')
    have h1 : Moved st (st.upd (d+n) (st.data (s+n))) (d+n) (s+n) 1 := Moved.upd st (d+n) (s+n)
    refine ⟨st', ?_, Moved.append_bwd hle h1 hmv⟩
    have e1 : d + (n+1) - 1 = d + n := by omega
    have e2 : s + (n+1) - 1 = s + n := by omega
    simp only [copyBwd, e1, e2, exec_bind, exec_load_ok _ _ hs.1 hs.2, exec_store_ok _ _ _ hd.1 hd.2.1]
    exact he

/-! ## word copies: 8 loads, then 8 stores -/

/-- the cells `[a, a+n)` of `st` as a list -/
def cellsOf (st : St) : Nat → Nat → List Nat
  | 0, _ => []
  | n+1, a => st.data a :: cellsOf st n (a+1)

theorem loadCells_ok (n a : Nat) (st : St) (hr : RD st a n) :
    exec (loadCells n a) st = .ok (cellsOf st n a, st) := by
  induction n generalizing a with
  | zero => rfl
  | succ n ih =>
    have h0 := hr 0 (by omega)
    simp only [Nat.add_zero] at h0
    simp only [loadCells, exec_bind, exec_load_ok _ _ h0.1 h0.2, ih (a+1) (hr.sub (by omega) (by omega)), cellsOf]
    rfl

/-- storing the cells that `st0` held at `[s, s+n)` to `[d, d+n)` of `st` -/
theorem storeCells_ok (n d s : Nat) (st0 st : St) (hw : RW st d n) :
    ∃ st', exec (storeCells (cellsOf st0 n s) d) st = .ok ((), st') ∧ SameMeta st' st ∧
      ∀ a, st'.data a = if d ≤ a ∧ a < d + n then st0.data (s + (a - d)) else st.data a := by
  induction n generalizing d s st with
  | zero => exact ⟨st, rfl, SameMeta.refl _, fun a => by rw [if_neg]; omega⟩
  | succ n ih =>
    obtain ⟨hm, hwr, _⟩ := hw.head
    obtain ⟨st', he, hsm, hd⟩ := ih (d+1) (s+1) (st.upd d (st0.data s))
      (RW.of_sameMeta (SameMeta.upd _ _ _) hw.tail)
    refine ⟨st', ?_, hsm.trans (SameMeta.upd _ _ _), fun a => ?_⟩
    · simp only [cellsOf, storeCells, exec_bind, exec_store_ok _ _ _ hm hwr]
      exact he
    · rw [hd a]
      by_cases c1 : d + 1 ≤ a ∧ a < d + 1 + n
      · rw [if_pos c1, if_pos (by omega)]
        congr 1; omega
      · rw [if_neg c1]
        by_cases c2 : a = d
        · subst c2; rw [St.upd_data_same, if_pos (by omega), Nat.sub_self, Nat.add_zero]
        · rw [St.upd_data_ne _ _ _ _ c2, if_neg (by omega)]

/-- `*(uint64_t *)dp = *(uint64_t *)sp;` — any overlap of the two words -/
theorem copyWord_ok (dp sp : Nat) (st : St) (hw : RW st dp 8) (hr : RD st sp 8) :
    ∃ st', exec (copyWord dp sp) st = .ok ((), st') ∧ Moved st st' dp sp 8 := by
  obtain ⟨st', he, hsm, hd⟩ := storeCells_ok 8 dp sp st st hw
  refine ⟨st', ?_, hsm, hd⟩
  simp only [copyWord, exec_bind, loadCells_ok 8 sp st hr]
  exact he

theorem wordsFwd_ok (k dp sp : Nat) (st : St) (hle : dp ≤ sp) (hw : RW st dp (8*k)) (hr : RD st sp (8*k)) :
    ∃ st', exec (wordsFwd k dp sp) st = .ok ((dp + 8*k, sp + 8*k), st') ∧ Moved st st' dp sp (8*k) := by
  induction k generalizing dp sp st with
  | zero => exact ⟨st, rfl, Moved.nil _ _ _⟩
  | succ k ih =>
    have hw0 : RW st dp 8 := hw.sub (Nat.le_refl _) (by omega)
    have hr0 : RD st sp 8 := hr.sub (Nat.le_refl _) (by omega)
    obtain ⟨s1, he1, hm1⟩ := copyWord_ok dp sp st hw0 hr0
    have hw1 : RW st (dp+8) (8*k) := hw.sub (by omega) (by omega)
    have hr1 : RD st (sp+8) (8*k) := hr.sub (by omega) (by omega)
    obtain ⟨s2, he2, hm2⟩ := ih (dp+8) (sp+8) s1 (by omega) (RW.of_moved hm1 hw1) (RD.of_moved hm1 hr1)
    refine ⟨s2, ?_, (Moved.append_fwd hle hm1 hm2).cast (by omega)⟩
    simp only [wordsFwd, exec_bind, he1]
    rw [show dp + 8 * (k+1) = dp + 8 + 8 * k by omega, show sp + 8 * (k+1) = sp + 8 + 8 * k by omega]
    exact he2

theorem wordsBwd_ok (k d s : Nat) (st : St) (hle : s ≤ d) (hw : RW st d (8*k)) (hr : RD st s (8*k)) :
    ∃ st', exec (wordsBwd k (d + 8*k) (s + 8*k)) st = .ok ((d, s), st') ∧ Moved st st' d s (8*k) := by
  induction k generalizing st with
  | zero => exact ⟨st, rfl, Moved.nil _ _ _⟩
  | succ k ih =>
    have hw0 : RW st (d + 8*k) 8 := hw.sub (by omega) (by omega)
    have hr0 : RD st (s + 8*k) 8 := hr.sub (by omega) (by omega)
    obtain ⟨s1, he1, hm1⟩ := copyWord_ok (d + 8*k) (s + 8*k) st hw0 hr0
    have hw1 : RW st d (8*k) := hw.sub (Nat.le_refl _) (by omega)
    have hr1 : RD st s (8*k) := hr.sub (Nat.le_refl _) (by omega)
    obtain ⟨s2, he2, hm2⟩ := ih s1 (RW.of_moved hm1 hw1) (RD.of_moved hm1 hr1)
    refine ⟨s2, ?_, (Moved.append_bwd hle hm1 hm2).cast (by omega)⟩
    have e1 : d + 8 * (k+1) - 8 = d + 8 * k := by omega
    have e2 : s + 8 * (k+1) - 8 = s + 8 * k := by omega
    simp only [wordsBwd, e1, e2, exec_bind, he1]
    exact he2

/-! ## `mem_prim_move` -/

/-- the two pointers agree mod 8 and are not both aligned: neither is aligned -/
theorem or_xor_mod8 (a b : Nat) (h1 : (a ||| b) % 8 ≠ 0) (h2 : ¬ (a ^^^ b) % 8 ≠ 0) : a % 8 ≠ 0 := by
  have key : ∀ x y : Fin 8, (x.val ||| y.val) % 8 ≠ 0 → (x.val ^^^ y.val) % 8 = 0 → x.val ≠ 0 := by decide
  have ha : a % 8 < 8 := Nat.mod_lt _ (by decide)
  have hb : b % 8 < 8 := Nat.mod_lt _ (by decide)
  have e1 : (a ||| b) % 8 = ((a % 8) ||| (b % 8)) % 8 := by
    have := Nat.or_mod_two_pow (a := a) (b := b) (n := 3)
    simp only [show (2:Nat)^3 = 8 by decide] at this
    rw [this]
    exact (Nat.mod_eq_of_lt (Nat.or_lt_two_pow (n := 3) ha hb)).symm
  have e2 : (a ^^^ b) % 8 = ((a % 8) ^^^ (b % 8)) % 8 := by
    have := Nat.xor_mod_two_pow (a := a) (b := b) (n := 3)
    simp only [show (2:Nat)^3 = 8 by decide] at this
    rw [this]
    exact (Nat.mod_eq_of_lt (Nat.xor_lt_two_pow (n := 3) ha hb)).symm
  have h2' : (a ^^^ b) % 8 = 0 := by
    by_cases h : (a ^^^ b) % 8 = 0
    · exact h
    · exact absurd h h2
  exact key ⟨a % 8, ha⟩ ⟨b % 8, hb⟩ (by rw [← e1]; exact h1) (by rw [← e2]; exact h2')

/-- forward alignment prologue: copies `t ≤ len` bytes (`t ≥ 1` when it copies at all) -/
theorem moveFwdAlign_ok (dest src len : Nat) (st : St) (hlt : dest ≤ src) (hpos : 0 < len)
    (hw : RW st dest len) (hr : RD st src len) :
    ∃ t st', t ≤ len ∧ exec (moveFwdAlign dest src len) st = .ok ((dest + t, src + t, len - t), st') ∧
      Moved st st' dest src t := by
  unfold moveFwdAlign
  by_cases ha : (src ||| dest) % 8 ≠ 0
  · rw [if_pos ha]
    -- in every case 1 ≤ tsp ≤ len
    have htsp : ∀ tsp, 1 ≤ tsp → tsp ≤ len →
        ∃ st', exec (do
          let (dp, sp) ← copyFwd (doWhileCount tsp) dest src
          pure (dp, sp, len - tsp)) st = .ok ((dest + tsp, src + tsp, len - tsp), st') ∧
          Moved st st' dest src tsp := by
      intro tsp h1 h2
      have hc : doWhileCount tsp = tsp := by simp [doWhileCount]; omega
      obtain ⟨st', he, hm⟩ := copyFwd_ok tsp dest src st hlt (hw.sub (Nat.le_refl _) (by omega))
        (hr.sub (Nat.le_refl _) (by omega))
      refine ⟨st', ?_, hm⟩
      simp only [hc, exec_bind, he]
      rfl
    by_cases hc : (src ^^^ dest) % 8 ≠ 0 ∨ len < 8
    · simp only [if_pos hc]
      obtain ⟨st', he, hm⟩ := htsp len hpos (Nat.le_refl _)
      exact ⟨len, st', Nat.le_refl _, he, hm⟩
    · simp only [if_neg hc]
      have h8 : 8 ≤ len := by omega
      have hm8 : src % 8 < 8 := Nat.mod_lt _ (by decide)
      obtain ⟨st', he, hm⟩ := htsp (8 - src % 8) (by omega) (by omega)
      exact ⟨8 - src % 8, st', by omega, he, hm⟩
  · rw [if_neg ha]
    exact ⟨0, st, Nat.zero_le _, rfl, Moved.nil _ _ _⟩

/-- backward alignment prologue, entered with both pointers at the END of their operands -/
theorem moveBwdAlign_ok (dest src len : Nat) (st : St) (hge : src ≤ dest) (hpos : 0 < len)
    (hw : RW st dest len) (hr : RD st src len) :
    ∃ t st', t ≤ len ∧
      exec (moveBwdAlign (dest + len) (src + len) len) st =
        .ok ((dest + (len - t), src + (len - t), len - t), st') ∧
      Moved st st' (dest + (len - t)) (src + (len - t)) t := by
  unfold moveBwdAlign
  by_cases ha : ((src + len) ||| (dest + len)) % 8 ≠ 0
  · rw [if_pos ha]
    have htsp : ∀ tsp, 1 ≤ tsp → tsp ≤ len →
        ∃ st', exec (do
          let (dp', sp') ← copyBwd (doWhileCount tsp) (dest + len) (src + len)
          pure (dp', sp', len - tsp)) st = .ok ((dest + (len - tsp), src + (len - tsp), len - tsp), st') ∧
          Moved st st' (dest + (len - tsp)) (src + (len - tsp)) tsp := by
      intro tsp h1 h2
      have hc : doWhileCount tsp = tsp := by simp [doWhileCount]; omega
      obtain ⟨st', he, hm⟩ := copyBwd_ok tsp (dest + (len - tsp)) (src + (len - tsp)) st (by omega)
        (hw.sub (by omega) (by omega)) (hr.sub (by omega) (by omega))
      refine ⟨st', ?_, hm⟩
      have e1 : dest + len = dest + (len - tsp) + tsp := by omega
      have e2 : src + len = src + (len - tsp) + tsp := by omega
      simp only [hc, exec_bind]
      rw [e1, e2, he]
      rfl
    by_cases hc : ((src + len) ^^^ (dest + len)) % 8 ≠ 0 ∨ len ≤ 8
    · simp only [if_pos hc]
      obtain ⟨st', he, hm⟩ := htsp len hpos (Nat.le_refl _)
      exact ⟨len, st', Nat.le_refl _, he, hm⟩
    · simp only [if_neg hc]
      have h8 : 8 < len := by omega
      have hm8 : (src + len) % 8 < 8 := Nat.mod_lt _ (by decide)
      have hnz : (src + len) % 8 ≠ 0 := or_xor_mod8 _ _ ha (fun h => hc (Or.inl h))
      obtain ⟨st', he, hm⟩ := htsp ((src + len) % 8) (by omega) (by omega)
      exact ⟨(src + len) % 8, st', by omega, he, hm⟩
  · rw [if_neg ha]
    refine ⟨0, st, Nat.zero_le _, ?_, Moved.nil _ _ _⟩
    simp

/-- **`mem_prim_move(dest, src, len)` = `memmove`, all lengths, placements, overlaps, alignments.**
`n = len mod 2^32` (the parameter is a `uint32_t`), `n ≠ 0` (with `n = 0` and unaligned pointers the
`do … while (--tsp)` prologue is entered with `tsp = 0` and runs 2^64 times: the callers never pass 0). -/
theorem mem_prim_move_ok (dest src len : Nat) (st : St) (hpos : 0 < len % U32)
    (hw : RW st dest (len % U32)) (hr : RD st src (len % U32)) :
    ∃ st', exec (mem_prim_move dest src len) st = .ok ((), st') ∧ Moved st st' dest src (len % U32) := by
  generalize hn : len % U32 = n at hpos hw hr
  unfold mem_prim_move
  simp only [hn]
  by_cases hlt : dest < src
  · simp only [if_pos hlt]
    obtain ⟨t, s1, ht, he1, hm1⟩ := moveFwdAlign_ok dest src n st (by omega) hpos hw hr
    have hw1 : RW s1 (dest + t) (8 * ((n - t) / 8)) := RW.of_moved hm1 (hw.sub (by omega) (by omega))
    have hr1 : RD s1 (src + t) (8 * ((n - t) / 8)) := RD.of_moved hm1 (hr.sub (by omega) (by omega))
    obtain ⟨s2, he2, hm2⟩ := wordsFwd_ok ((n - t) / 8) (dest + t) (src + t) s1 (by omega) hw1 hr1
    have hw2 : RW st (dest + t + 8 * ((n - t) / 8)) ((n - t) % 8) := hw.sub (by omega) (by omega)
    have hr2 : RD st (src + t + 8 * ((n - t) / 8)) ((n - t) % 8) := hr.sub (by omega) (by omega)
    obtain ⟨s3, he3, hm3⟩ := copyFwd_ok ((n - t) % 8) _ _ s2 (by omega)
      (RW.of_moved hm2 (RW.of_moved hm1 hw2)) (RD.of_moved hm2 (RD.of_moved hm1 hr2))
    have h12 := Moved.append_fwd (by omega) hm1 hm2
    have h123 := Moved.append_fwd (by omega) h12
      (show Moved s2 s3 (dest + (t + 8 * ((n - t) / 8))) (src + (t + 8 * ((n - t) / 8))) ((n - t) % 8) by
        rw [← Nat.add_assoc, ← Nat.add_assoc]; exact hm3)
    refine ⟨s3, ?_, h123.cast (by omega)⟩
    simp only [exec_bind, he1, he2, he3]
    rfl
  · simp only [if_neg hlt]
    obtain ⟨t, s1, ht, he1, hm1⟩ := moveBwdAlign_ok dest src n st (by omega) hpos hw hr
    -- L = n - t bytes remain below; they split into L % 8 (lowest) and 8 * (L / 8)
    have hw1 : RW st (dest + (n - t) % 8) (8 * ((n - t) / 8)) := hw.sub (by omega) (by omega)
    have hr1 : RD st (src + (n - t) % 8) (8 * ((n - t) / 8)) := hr.sub (by omega) (by omega)
    obtain ⟨s2, he2, hm2⟩ := wordsBwd_ok ((n - t) / 8) (dest + (n - t) % 8) (src + (n - t) % 8) s1 (by omega)
      (RW.of_moved hm1 hw1) (RD.of_moved hm1 hr1)
    have hw2 : RW st dest ((n - t) % 8) := hw.sub (Nat.le_refl _) (by omega)
    have hr2 : RD st src ((n - t) % 8) := hr.sub (Nat.le_refl _) (by omega)
    obtain ⟨s3, he3, hm3⟩ := copyBwd_ok ((n - t) % 8) dest src s2 (by omega)
      (RW.of_moved hm2 (RW.of_moved hm1 hw2)) (RD.of_moved hm2 (RD.of_moved hm1 hr2))
    -- high part first, then the words, then the low bytes
    have e : n - t = (n - t) % 8 + 8 * ((n - t) / 8) := by omega
    have h12 : Moved st s2 (dest + (n - t) % 8) (src + (n - t) % 8) (8 * ((n - t) / 8) + t) :=
      Moved.append_bwd (by omega)
        (show Moved st s1 (dest + (n - t) % 8 + 8 * ((n - t) / 8)) (src + (n - t) % 8 + 8 * ((n - t) / 8)) t by
          rw [Nat.add_assoc, Nat.add_assoc, ← e]; exact hm1) hm2
    have h123 := Moved.append_bwd (by omega) h12 hm3
    refine ⟨s3, ?_, h123.cast (by omega)⟩
    have e1 : dest + (n - t) = dest + (n - t) % 8 + 8 * ((n - t) / 8) := by omega
    have e2 : src + (n - t) = src + (n - t) % 8 + 8 * ((n - t) / 8) := by omega
    simp only [exec_bind, he1]
    rw [e1, e2, he2]
    simp only [he3]
    rfl

/-! ## `mem_prim_move8/16/32` -/

theorem moveBlocksFwd_ok (q dp sp : Nat) (st : St) (hle : dp ≤ sp) (hw : RW st dp (16*q)) (hr : RD st sp (16*q)) :
    ∃ st', exec (moveBlocksFwd q dp sp) st = .ok ((dp + 16*q, sp + 16*q), st') ∧ Moved st st' dp sp (16*q) := by
  induction q generalizing dp sp st with
  | zero => exact ⟨st, rfl, Moved.nil _ _ _⟩
  | succ q ih =>
    obtain ⟨s1, he1, hm1⟩ := copyFwd_ok 16 dp sp st hle (hw.sub (Nat.le_refl _) (by omega))
      (hr.sub (Nat.le_refl _) (by omega))
    have hw1 : RW st (dp+16) (16*q) := hw.sub (by omega) (by omega)
    have hr1 : RD st (sp+16) (16*q) := hr.sub (by omega) (by omega)
    obtain ⟨s2, he2, hm2⟩ := ih (dp+16) (sp+16) s1 (by omega) (RW.of_moved hm1 hw1) (RD.of_moved hm1 hr1)
    refine ⟨s2, ?_, (Moved.append_fwd hle hm1 hm2).cast (by omega)⟩
    simp only [moveBlocksFwd, exec_bind, he1]
    rw [show dp + 16 * (q+1) = dp + 16 + 16 * q by omega, show sp + 16 * (q+1) = sp + 16 + 16 * q by omega]
    exact he2

theorem moveBlocksBwd_ok (q d s : Nat) (st : St) (hle : s ≤ d) (hw : RW st d (16*q)) (hr : RD st s (16*q)) :
    ∃ st', exec (moveBlocksBwd q (d + 16*q) (s + 16*q)) st = .ok ((d, s), st') ∧ Moved st st' d s (16*q) := by
  induction q generalizing st with
  | zero => exact ⟨st, rfl, Moved.nil _ _ _⟩
  | succ q ih =>
    have hw0 : RW st (d + 16*q) 16 := hw.sub (by omega) (by omega)
    have hr0 : RD st (s + 16*q) 16 := hr.sub (by omega) (by omega)
    obtain ⟨s1, he1, hm1⟩ := copyBwd_ok 16 (d + 16*q) (s + 16*q) st (by omega) hw0 hr0
    have hw1 : RW st d (16*q) := hw.sub (Nat.le_refl _) (by omega)
    have hr1 : RD st s (16*q) := hr.sub (Nat.le_refl _) (by omega)
    obtain ⟨s2, he2, hm2⟩ := ih s1 (RW.of_moved hm1 hw1) (RD.of_moved hm1 hr1)
    refine ⟨s2, ?_, (Moved.append_bwd hle hm1 hm2).cast (by omega)⟩
    have e1 : d + 16 * (q+1) = d + 16 * q + 16 := by omega
    have e2 : s + 16 * (q+1) = s + 16 * q + 16 := by omega
    simp only [moveBlocksBwd, exec_bind]
    rw [e1, e2, he1]
    exact he2

/-- **`mem_prim_move8/16/32(dest, src, len)` = `memmove` on elements**, all lengths (`len mod 2^32`
elements), placements and overlaps -/
theorem primMoveElems_ok (dest src len : Nat) (st : St)
    (hw : RW st dest (len % U32)) (hr : RD st src (len % U32)) :
    ∃ st', exec (primMoveElems dest src len) st = .ok ((), st') ∧ Moved st st' dest src (len % U32) := by
  generalize hn : len % U32 = n at hw hr
  unfold primMoveElems
  simp only [hn]
  by_cases hlt : dest < src
  · simp only [if_pos hlt]
    have hw0 : RW st dest (16 * (n / 16)) := hw.sub (Nat.le_refl _) (by omega)
    have hr0 : RD st src (16 * (n / 16)) := hr.sub (Nat.le_refl _) (by omega)
    obtain ⟨s1, he1, hm1⟩ := moveBlocksFwd_ok (n / 16) dest src st (by omega) hw0 hr0
    have hw1 : RW st (dest + 16 * (n / 16)) (n % 16) := hw.sub (by omega) (by omega)
    have hr1 : RD st (src + 16 * (n / 16)) (n % 16) := hr.sub (by omega) (by omega)
    obtain ⟨s2, he2, hm2⟩ := copyFwd_ok (n % 16) _ _ s1 (by omega) (RW.of_moved hm1 hw1) (RD.of_moved hm1 hr1)
    refine ⟨s2, ?_, (Moved.append_fwd (by omega) hm1 hm2).cast (by omega)⟩
    simp only [exec_bind, he1, he2]
    rfl
  · simp only [if_neg hlt]
    have hw0 : RW st (dest + n % 16) (16 * (n / 16)) := hw.sub (by omega) (by omega)
    have hr0 : RD st (src + n % 16) (16 * (n / 16)) := hr.sub (by omega) (by omega)
    obtain ⟨s1, he1, hm1⟩ := moveBlocksBwd_ok (n / 16) (dest + n % 16) (src + n % 16) st (by omega) hw0 hr0
    have hw1 : RW st dest (n % 16) := hw.sub (Nat.le_refl _) (by omega)
    have hr1 : RD st src (n % 16) := hr.sub (Nat.le_refl _) (by omega)
    obtain ⟨s2, he2, hm2⟩ := copyBwd_ok (n % 16) dest src s1 (by omega) (RW.of_moved hm1 hw1) (RD.of_moved hm1 hr1)
    refine ⟨s2, ?_, (Moved.append_bwd (by omega) hm1 hm2).cast (by omega)⟩
    have e1 : dest + n = dest + n % 16 + 16 * (n / 16) := by omega
    have e2 : src + n = src + n % 16 + 16 * (n / 16) := by omega
    simp only [exec_bind]
    rw [e1, e2, he1]
    simp only [he2]
    rfl

end SafeC

import SafeC.Models.Conv
/-! driver glue for C15 (format: see tools/p15.py / harness/hconv.c) -/
namespace SafeC.DriverC15
open SafeC SafeC.Conv

private def get (m : List (String × String)) (k : String) : String :=
  ((m.find? (·.1 = k)).map (·.2)).getD ""
private def nat (m : List (String × String)) (k : String) : Nat := (get m k).toNat?.getD 0
private def flag (m : List (String × String)) (k : String) : Bool := get m k = "1"

def hexDigit (c : Char) : Option Nat :=
  if '0' ≤ c ∧ c ≤ '9' then some (c.toNat - 48)
  else if 'a' ≤ c ∧ c ≤ 'f' then some (c.toNat - 87)
  else none

def parseHex (s : String) : Option Nat :=
  if s.isEmpty then none else s.toList.foldl (fun a c => match a, hexDigit c with | some x, some d => some (16 * x + d) | _, _ => none) (some 0)

/-- "-" = NULL, "z" = empty, else comma separated hex cells -/
def parseCells (s : String) : Option (List Nat) :=
  if s = "-" ∨ s = "" then none
  else if s = "z" then some []
  else some ((s.splitOn ",").filterMap parseHex)

def showHexCells (l : List Nat) : String :=
  if l.isEmpty then "z" else ",".intercalate (l.map fun v => String.ofList (Nat.toDigits 16 v))

def parseFx (s : String) : Fixes :=
  match s.toList.map (· == '1') with
  | [a, b, c, d, e, f] => ⟨a, b, c, d, e, f⟩
  | _ => current

def showFx (f : Fixes) : String :=
  String.ofList ([f.clamp, f.stage, f.rc, f.zero, f.nullsrc, f.term].map fun b => if b then '1' else '0')

def showOut (o : Out) : String :=
  let rv := match o.retval with | none => "ns" | some v => toString v
  let (dc, hi, fl) := match o.dest with
    | none => ("-", 0, false)
    | some d => (showHexCells d.cells, d.hi, d.fault)
  let src := match o.src with | none => "-1" | some k => toString k
  s!"ret={o.ret} rv={rv} dest={dc} hi={hi} fault={if fl || o.nullw then 1 else 0} src={src} st={showHexCells o.st} ev={",".intercalate (o.ev.map toString)}"

def showLR (r : Libc.LR) : String :=
  let src := match r.src with | none => "-1" | some k => toString k
  s!"r={r.ret} out={showHexCells r.out} src={src} st={showHexCells r.st} e={if r.eilseq then 1 else 0}"

def convLine (id : String) (fn : String) (m : List (String × String)) : String :=
  let loc : Locale := if get m "loc" = "U" then .UTF8 else .C
  let cfg : Cfg := { slack := get m "slack" != "0", loc, fx := parseFx (get m "fx") }
  let bos := if get m "bos" = "-" ∨ get m "bos" = "" then none else some (nat m "bos")
  let sa : SArgs := { retvalNull := flag m "rvn", dest := parseCells (get m "dest"), dmax := nat m "dmax",
                      src := parseCells (get m "src") |>.map (· ++ [0]), srcpNull := flag m "spn", psNull := flag m "psn",
                      alias := flag m "alias", len := nat m "len", bos, ps := (parseCells (get m "ps")).getD [],
                      errno0 := nat m "errno" }
  let ca : CArgs := { retvalNull := flag m "rvn", dest := parseCells (get m "dest"), dmax := nat m "dmax",
                      wc := (parseHex (get m "wc")).getD 0, psNull := flag m "psn", bos, errno0 := nat m "errno" }
  let mem := ((parseCells (get m "src")).getD []) ++ [0]
  let dn := get m "dest" = "-"
  match fn with
  | "fixes" => s!"id={id} fx={showFx current}"
  | "mbstowcs_s" => s!"id={id} {showOut (mbstowcs_s cfg sa)}"
  | "mbsrtowcs_s" => s!"id={id} {showOut (mbsrtowcs_s cfg sa)}"
  | "wcstombs_s" => s!"id={id} {showOut (wcstombs_s cfg sa)}"
  | "wcsrtombs_s" => s!"id={id} {showOut (wcsrtombs_s cfg sa)}"
  | "wcrtomb_s" => s!"id={id} {showOut (wcrtomb_s cfg ca)}"
  | "wctomb_s" => s!"id={id} {showOut (wctomb_s cfg ca)}"
  | "L_mbsrtowcs" => s!"id={id} {showLR (Libc.mbsrtowcs loc dn mem sa.len sa.ps)}"
  | "L_mbstowcs" => s!"id={id} {showLR (Libc.mbstowcs loc dn mem sa.len)}"
  | "L_wcsrtombs" => s!"id={id} {showLR (Libc.wcsrtombs loc dn mem sa.len)}"
  | "L_wcstombs" => s!"id={id} {showLR (Libc.wcstombs loc dn mem sa.len)}"
  | "L_wcrtomb" =>
    let (bs, r, e) := Libc.wcrtomb loc dn ca.wc
    s!"id={id} r={r} out={showHexCells bs} e={if e then 1 else 0}"
  | "L_wctomb" =>
    let (bs, r, e) := Libc.wctomb loc dn ca.wc
    s!"id={id} r={match r with | some v => toString v | none => "-1"} out={showHexCells bs} e={if e then 1 else 0}"
  | "L_dec" =>
    -- one mbrtowc from the initial state over all the bytes given
    match Libc.body loc ((parseCells (get m "src")).getD []) with
    | .ok ch n => s!"id={id} r={if ch = 0 then 0 else n} wc={String.ofList (Nat.toDigits 16 ch)}"
    | .incomplete => s!"id={id} r=-2 wc=-"
    | .illegal => s!"id={id} r=-1 wc=-"
  | _ => s!"id={id} err=nomodel"

end SafeC.DriverC15

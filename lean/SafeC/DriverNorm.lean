import SafeC.Models.Norm
import SafeC.Models.Fold
/-! driver glue for C17 (protocol: see tools/p17.py) -/
namespace SafeC.Driver.Uni
open SafeC SafeC.Norm SafeC.Fold

private def get (m : List (String × String)) (k : String) : String :=
  ((m.find? (·.1 = k)).map (·.2)).getD ""
private def nat (m : List (String × String)) (k : String) : Nat := (get m k).toNat?.getD 0

def hexDigit (c : Char) : Option Nat :=
  if '0' ≤ c ∧ c ≤ '9' then some (c.toNat - '0'.toNat)
  else if 'a' ≤ c ∧ c ≤ 'f' then some (c.toNat - 'a'.toNat + 10)
  else if 'A' ≤ c ∧ c ≤ 'F' then some (c.toNat - 'A'.toNat + 10)
  else none

def parseHex (s : String) : Option Nat :=
  if s.isEmpty then none else
  s.toList.foldl (fun acc c => match acc, hexDigit c with
    | some a, some d => some (a * 16 + d)
    | _, _ => none) (some 0)

def parseCells (s : String) : List Nat :=
  if s = "" ∨ s = "-" then [] else (s.splitOn ",").filterMap parseHex

def toHex (n : Nat) : String := String.ofList (Nat.toDigits 16 n)

def showCells (l : List Nat) : String :=
  if l.isEmpty then "-" else ",".intercalate (l.map toHex)

def parseFx (s : String) : Fixes :=
  match s.toList.map (· == '1') with
  | [a, b, c] => ⟨a, b, c⟩
  | [a, b] => ⟨a, b, Norm.current.foldRoom⟩
  | _ => Norm.current

def showRes (r : Res) : String :=
  s!"ret={r.ret} len={r.len} out={showCells r.out} oob={if r.oob then 1 else 0} ovr={if r.overrun then 1 else 0}"

def sweepLine (fx : Fixes) (what : String) (cp : Nat) : Option String :=
  match what with
  | "tab" =>
    let d := match decompS 8 cp with
      | .seq [] => ""
      | .seq l => s!" d={showCells l}"
      | .err e => s!" derr={e}"
      | .oob => " doob=1"
    let c := match combinClass cp with
      | some 0 => ""
      | some k => s!" cc={k}"
      | none => " ccoob=1"
    let x := if isExcl cp then " x=1" else ""
    if d = "" ∧ c = "" ∧ x = "" then none else some s!"cp={toHex cp}{d}{c}{x}"
  | "nfd" | "nfc" | "fcd" | "fcc" =>
    let mode := if what = "nfd" then 0 else if what = "nfc" then 1 else if what = "fcd" then 2 else 3
    let r := wcsnormS fx mode 16 [cp]
    if r.ret = 0 ∧ r.len = 1 ∧ r.out = [cp] ∧ !r.oob ∧ !r.overrun then none else some s!"cp={toHex cp} {showRes r}"
  | "fold" =>
    let n := iswfc cp
    let t := towfcS 4 cp
    if n = 0 ∧ t.1 = ESNOTFND_neg ∧ t.2 = some [cp] then none
    else some s!"cp={toHex cp} n={n} ret={t.1} out={showCells (t.2.getD [])}"
  | "fc" =>
    let r := wcsfcS fx 16 [cp]
    if r.ret = 0 ∧ r.len = 1 ∧ r.out = [cp] ∧ !r.oob ∧ !r.overrun then none else some s!"cp={toHex cp} {showRes r}"
  | _ => none

def uniLine (id : String) (op : String) (m : List (String × String)) : String := Id.run do
  let fx := parseFx (get m "fx")
  let src := parseCells (get m "src")
  let dmax := nat m "dmax"
  match op with
  | "fixes" => return s!"id={id} fx={if Norm.current.compCast then 1 else 0}{if Norm.current.rangeChk then 1 else 0}{if Norm.current.foldRoom then 1 else 0}"
  | "norm" => return s!"id={id} {showRes (wcsnormS fx (nat m "mode") dmax src)}"
  | "reorder" => return s!"id={id} {showRes { reorderS fx dmax src with len := 0 }}"
  | "compose" =>
    let r := composeS fx dmax src (get m "contig" = "1")
    -- `*lenp` is in/out: a failing call leaves the caller's value (the source length) in place
    return s!"id={id} {showRes (if r.ret ≠ 0 then { r with len := src.length } else r)}"
  | "fc" => return s!"id={id} {showRes (wcsfcS fx dmax src)}"
  | "towfc" =>
    let c := (parseHex (get m "c")).getD 0
    let t := towfcS dmax c
    return s!"id={id} n={iswfc c} ret={t.1} out={match t.2 with | some l => showCells l | none => "untouched"}"
  | "composite" =>
    let a := (parseHex (get m "a")).getD 0
    let b := (parseHex (get m "b")).getD 0
    return s!"id={id} c={toHex (compositeCp fx a b)}"
  | "sweep" =>
    let what := get m "what"
    let lo := (parseHex (get m "lo")).getD 0
    let hi := (parseHex (get m "hi")).getD 0
    let mut out : Array String := #[]
    let mut n := 0
    for i in [0:hi - lo] do
      match sweepLine fx what (lo + i) with
      | some s => out := out.push s; n := n + 1
      | none => pure ()
    out := out.push s!"id={id} done=1 n={n}"
    return "\n".intercalate out.toList
  | _ => return s!"id={id} err=badop"

end SafeC.Driver.Uni

import SafeC.Common
/-!
# Helper lemmas about the shared combinators (no property statements here)
-/
namespace SafeC
open Gen

/-- cells `[d, d+k)` are mapped, declared readable and writable -/
def RW (st : St) (d k : Nat) : Prop :=
  ∀ i, i < k → st.mapped (d+i) = true ∧ st.wr (d+i) = true ∧ st.rd (d+i) = true

/-- cells `[d, d+k)` are mapped and declared readable -/
def RD (st : St) (d k : Nat) : Prop :=
  ∀ i, i < k → st.mapped (d+i) = true ∧ st.rd (d+i) = true

/-- same permissions, events and strays -/
structure SameMeta (a b : St) : Prop where
  mapped : a.mapped = b.mapped
  rd : a.rd = b.rd
  wr : a.wr = b.wr
  events : a.events = b.events
  strays : a.strays = b.strays

theorem SameMeta.refl (a : St) : SameMeta a a := ⟨rfl, rfl, rfl, rfl, rfl⟩
theorem SameMeta.trans {a b c : St} (h1 : SameMeta a b) (h2 : SameMeta b c) : SameMeta a c :=
  ⟨h1.mapped.trans h2.mapped, h1.rd.trans h2.rd, h1.wr.trans h2.wr, h1.events.trans h2.events,
   h1.strays.trans h2.strays⟩
theorem SameMeta.upd (s : St) (a v : Nat) : SameMeta (s.upd a v) s := ⟨rfl, rfl, rfl, rfl, rfl⟩

theorem RW.of_sameMeta {a b : St} (h : SameMeta a b) {d k : Nat} (hr : RW b d k) : RW a d k := by
  intro i hi; rw [h.mapped, h.wr, h.rd]; exact hr i hi

theorem RD.of_sameMeta {a b : St} (h : SameMeta a b) {d k : Nat} (hr : RD b d k) : RD a d k := by
  intro i hi; rw [h.mapped, h.rd]; exact hr i hi

theorem RW.tail {st : St} {d k : Nat} (h : RW st d (k+1)) : RW st (d+1) k := by
  intro i hi
  have := h (i+1) (by omega)
  have e : d + 1 + i = d + (i+1) := by omega
  rw [e]; exact this

theorem RW.head {st : St} {d k : Nat} (h : RW st d (k+1)) :
    st.mapped d = true ∧ st.wr d = true ∧ st.rd d = true := by
  simpa using h 0 (by omega)

/-- generic fill: `n` stores of `v` -/
theorem memsetP_ok (v n d : Nat) (st : St) (hw : RW st d n) :
    ∃ st', exec (memsetP v n d) st = .ok ((), st') ∧ SameMeta st' st ∧
      (∀ a, st'.data a = if d ≤ a ∧ a < d + n then v else st.data a) := by
  induction n generalizing d st with
  | zero => exact ⟨st, rfl, SameMeta.refl _, by intro a; simp; intro h1 h2; omega⟩
  | succ n ih =>
    obtain ⟨hm, hwr, _⟩ := hw.head
    obtain ⟨st', he, hmeta, hd⟩ := ih (d+1) (st.upd d v) (RW.of_sameMeta (SameMeta.upd _ _ _) hw.tail)
    refine ⟨st', ?_, hmeta.trans (SameMeta.upd _ _ _), ?_⟩
    · simp only [memsetP, exec_bind, exec_store_ok _ _ _ hm hwr]; exact he
    · intro a
      rw [hd a]
      by_cases h1 : d + 1 ≤ a ∧ a < d + 1 + n
      · have : d ≤ a ∧ a < d + (n+1) := by omega
        simp [h1, this]
      · simp only [h1, if_false]
        by_cases h2 : a = d
        · subst h2; simp [St.upd]
        · have : ¬ (d ≤ a ∧ a < d + (n+1)) := by omega
          simp [St.upd, h2, this]

theorem zeroLoop_eq_memsetP (n d : Nat) : zeroLoop n d = memsetP 0 n d := by
  induction n generalizing d with
  | zero => rfl
  | succ n ih => simp [zeroLoop, memsetP, ih]

/-- both strategies of the null-slack block fill `[dest, dest+dmax)` with zeros -/
theorem nullSlack_ok (dest dmax : Nat) (st : St) (hw : RW st dest dmax) :
    ∃ st', exec (nullSlack dest dmax) st = .ok ((), st') ∧ SameMeta st' st ∧
      (∀ a, st'.data a = if dest ≤ a ∧ a < dest + dmax then 0 else st.data a) := by
  unfold nullSlack
  split
  · exact memsetP_ok 0 dmax dest st hw
  · rw [zeroLoop_eq_memsetP]; exact memsetP_ok 0 dmax dest st hw

/-- `handle_error`: clears (all `len` cells with null-slack, the first one without) and reports once -/
theorem handleError_ok (cfg : Cfg) (dest len code : Nat) (st : St) (hw : RW st dest len) (hpos : 0 < len) :
    ∃ st', exec (handleError cfg dest len code) st = .ok ((), st') ∧
      st'.mapped = st.mapped ∧ st'.rd = st.rd ∧ st'.wr = st.wr ∧ st'.strays = st.strays ∧
      st'.events = st.events ++ [.handler .str code] ∧
      st'.data dest = 0 ∧
      (cfg.slack = true → ∀ a, st'.data a = if dest ≤ a ∧ a < dest + len then 0 else st.data a) ∧
      (cfg.slack = false → ∀ a, a ≠ dest → st'.data a = st.data a) := by
  unfold handleError handlerS
  cases hs : cfg.slack with
  | true =>
    obtain ⟨s1, he, hm, hd⟩ := memsetP_ok 0 len dest st hw
    refine ⟨{ s1 with events := s1.events ++ [.handler .str code] }, ?_, hm.mapped, hm.rd, hm.wr, hm.strays, ?_, ?_, ?_, ?_⟩
    · simp [exec_bind, he]
    · simp [hm.events]
    · show s1.data dest = 0
      rw [hd]; simp; omega
    · intro _ a; exact hd a
    · intro h; cases h
  | false =>
    have h0 := hw 0 hpos
    simp only [Nat.add_zero] at h0
    refine ⟨{ st.upd dest 0 with events := st.events ++ [.handler .str code] }, ?_, rfl, rfl, rfl, rfl, rfl, ?_, ?_, ?_⟩
    · simp [exec_bind, exec_store_ok _ _ _ h0.1 h0.2.1]
    · simp [St.upd]
    · intro h; cases h
    · intro _ a ha; simp [St.upd, ha]

end SafeC

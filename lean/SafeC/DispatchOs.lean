import SafeC.Dispatch
import SafeC.Models.Os
import SafeC.Models.Time
import SafeC.Models.Io
/-!
# name → model dispatch, os-string family (argument positions as in `tools/fnspec.py`)
-/
namespace SafeC.Driver
open SafeC

def showCode (r : Nat) : String := if r = NEG1 then "-1" else toString r

def dispatchOs (fn : String) (c : Ctx) : Option (Prog Out) :=
  match fn with
  | "getenv_s" => do
    let d ← c.p 1; let m ← c.n 2; let nm ← c.p 3; let b ← c.b 4; let v ← c.p 5
    pure (do
      let (r, l) ← getenv_s c.cfg true d m nm b v
      pure { ret := showCode r, outs := match l with | some x => [(0, toString x)] | none => [] })
  | "getenv_s_nl" => do
    let d ← c.p 0; let m ← c.n 1; let nm ← c.p 2; let b ← c.b 3; let v ← c.p 4
    pure (do
      let (r, _) ← getenv_s c.cfg false d m nm b v
      pure { ret := showCode r })
  | "strerror_s" => do
    let d ← c.p 0; let m ← c.n 1; let e ← c.n 2; let b ← c.b 3; let msg ← c.p 4; let dots ← c.p 5
    pure (errOut (strerror_s c.cfg d m e b msg dots))
  | "asctime_s" => do
    let d ← c.p 0; let m ← c.n 1; let tm ← c.p 2; let b ← c.b 3; let txt ← c.p 4
    pure (do let r ← asctime_s c.cfg d m tm b txt; pure { ret := showCode r })
  | "ctime_s" => do
    let d ← c.p 0; let m ← c.n 1; let t ← c.p 2; let b ← c.b 3; let txt ← c.p 4; let chk ← c.n 5
    pure (do let r ← ctime_s c.cfg d m t b txt (chk == 3); pure { ret := showCode r })
  | "gmtime_s" => do
    let t ← c.p 0; let d ← c.p 1; let r ← c.p 2
    pure (do let r ← gmtime_s t d r; pure { ret := showCode r })
  | "localtime_s" => do
    let t ← c.p 0; let d ← c.p 1; let r ← c.p 2
    pure (do let r ← localtime_s t d r; pure { ret := showCode r })
  | "gets_s" => do
    let d ← c.p 0; let m ← c.n 1; let b ← c.b 2; let i ← c.p 3; let l ← c.n 4
    pure (do let r ← gets_s c.cfg d m b i l; pure { ret := showCode r })
  | "strerrorlen_s" => do
    let e ← c.n 0; let msg ← c.p 1
    pure (errOut (strerrorlen_s e msg))
  | _ => none

end SafeC.Driver

import SafeC.Proofs.HandlersAbs
/-!
# C13, third part — the process-wide registration at the granularity of its load and its store

`set_{str,mem}_constraint_handler_s` is `prev = slot; slot = handler ?: default; return prev;` — a load
and a store of one aligned word, NOT one atomic exchange.  `Models/Handlers.lean` (and the harness, which
serialises whole calls with semaphores) takes a call as one step.  Here the two halves of a process-wide
registration are scheduled separately (`load t`, `store t h`; `pend t` is the thread's local `prev`), for
one kind (the kinds are independent, `C13R.kinds_product`; thread-local slots are touched by their own
thread only, so splitting `thrd_set_*` changes nothing).

* `micro_glob`, `micro_dispatch`: the slot — hence the handler every violation runs — is a function of the
  STORES only, in the order they happen: the dispatch clauses of C13 hold for every interleaving of the
  halves (what a violation runs is the most recently STORED handler);
* `micro_returns_prev_partial`: a registration returns the handler registered at the moment it stores,
  PROVIDED no other registration stores between its load and its store;
* `micro_returns_prev_witness`: without that proviso the clause "registering returns the previously
  registered handler" is FALSE: two overlapping registrations both return NULL, nobody is handed the
  handler `1` that was registered in between and then replaced.  (ISO C calls the unsynchronised accesses a
  data race; with the relaxed-atomic reading the design document assumes, this is the observable effect.)
-/
namespace SafeC.Props.C13M
open SafeC SafeC.Handlers

/-- the process-wide slot of one kind and, per thread, the value loaded by a registration in progress -/
structure M where
  glob : Option Hid
  pend : Tid → Option (Option Hid)

inductive MOp where
  | load (t : Tid)                      -- prev_handler = slot
  | store (t : Tid) (h : Option Hid)    -- slot = handler ?: default; return prev_handler
  | violate (t : Tid)                   -- a violation on a thread without a handler of its own
  deriving Repr, DecidableEq

def mstep (m : M) : MOp → M × Out
  | .load t => ({ m with pend := fun t' => if t' = t then some m.glob else m.pend t' }, .none)
  | .store t h =>
    ({ glob := some (reg h), pend := fun t' => if t' = t then none else m.pend t' },
     match m.pend t with
     | some p => .prev p
     | none => .none)
  | .violate _ => (m, .ran (m.glob.getD 0))

def mrun (m : M) : List MOp → M
  | [] => m
  | op :: rest => mrun (mstep m op).1 rest

def minit : M := { glob := none, pend := fun _ => none }

/-- the handler stored by the most recent `store` of a chronological list, if any -/
def lastStore : List MOp → Option Hid
  | [] => none
  | .store _ h :: rest => (lastStore rest).orElse fun _ => some (reg h)
  | _ :: rest => lastStore rest

def isStore : MOp → Bool
  | .store _ _ => true
  | _ => false

/-- the slot after any interleaving of halves = the most recently stored handler, else what it was -/
theorem micro_glob (m : M) (ops : List MOp) : (mrun m ops).glob = (lastStore ops).orElse fun _ => m.glob := by
  induction ops generalizing m with
  | nil => rfl
  | cons op rest ih =>
    cases op with
    | load t => simp only [mrun, mstep, lastStore, ih]
    | violate t => simp only [mrun, mstep, lastStore, ih]
    | store t h =>
      simp only [mrun, mstep, lastStore, ih]
      cases lastStore rest <;> rfl

/-- **dispatch is unaffected by the split**: a violation runs the most recently STORED handler, else the
default — whatever loads are pending -/
theorem micro_dispatch (ops : List MOp) (t : Tid) :
    (mstep (mrun minit ops) (.violate t)).2 = .ran ((lastStore ops).getD 0) := by
  simp only [mstep, micro_glob]
  cases lastStore ops <;> rfl

theorem glob_noStore (m : M) (ops : List MOp) (h : ∀ op ∈ ops, isStore op = false) : (mrun m ops).glob = m.glob := by
  have : lastStore ops = none := by
    induction ops with
    | nil => rfl
    | cons op rest ih =>
      have h1 := h op List.mem_cons_self
      cases op with
      | load t => exact ih (fun o ho => h o (List.mem_cons_of_mem _ ho))
      | violate t => exact ih (fun o ho => h o (List.mem_cons_of_mem _ ho))
      | store t x => simp [isStore] at h1
  rw [micro_glob, this]; rfl

theorem pend_keep (m : M) (ops : List MOp) (t : Tid)
    (h : ∀ op ∈ ops, op ≠ .load t ∧ ∀ x, op ≠ .store t x) : (mrun m ops).pend t = m.pend t := by
  induction ops generalizing m with
  | nil => rfl
  | cons op rest ih =>
    have h1 := h op List.mem_cons_self
    simp only [mrun]
    rw [ih _ (fun o ho => h o (List.mem_cons_of_mem _ ho))]
    cases op with
    | load t' =>
      have : ¬ t = t' := fun e => h1.1 (by rw [e])
      simp only [mstep, this, if_false]
    | violate t' => rfl
    | store t' x =>
      have : ¬ t = t' := fun e => h1.2 x (by rw [e])
      simp only [mstep, this, if_false]

-- FALSE for arbitrary `mid` (see the witness):
--   (mstep (mrun (mstep m (.load t)).1 mid) (.store t h)).2 = .prev (mrun (mstep m (.load t)).1 mid).glob
/-- a registration whose load and store are not separated by another registration's store (loads and
violations of other threads may fall in between) returns the handler registered at the moment it stores -/
theorem micro_returns_prev_partial (m : M) (t : Tid) (h : Option Hid) (mid : List MOp)
    (hns : ∀ op ∈ mid, isStore op = false) (hnt : ∀ op ∈ mid, op ≠ .load t) :
    (mstep (mrun (mstep m (.load t)).1 mid) (.store t h)).2 = .prev (mrun (mstep m (.load t)).1 mid).glob := by
  have hp : (mrun (mstep m (.load t)).1 mid).pend t = some m.glob := by
    rw [pend_keep _ mid t (fun op ho => ⟨hnt op ho, fun x e => by have := hns op ho; rw [e] at this; simp [isStore] at this⟩)]
    simp [mstep]
  rw [glob_noStore _ mid hns]
  show (match (mrun (mstep m (.load t)).1 mid).pend t with
    | some p => Out.prev p
    | none => Out.none) = _
  rw [hp]
  rfl

/-- threads 1 and 2 register handlers 1 and 2 concurrently; both load the empty slot before either stores.
Both calls return NULL; handler 1 was registered (a violation in between runs it) and is replaced by 2, but
no call ever returns it: thread 2 does NOT get "the previously registered handler". -/
theorem micro_returns_prev_witness :
    let ops := [MOp.load 1, .load 2, .store 1 (some 1)]
    (mstep (mrun minit ops) (.violate 0)).2 = .ran 1 ∧
    (mrun minit ops).glob = some 1 ∧
    (mstep (mrun minit ops) (.store 2 (some 2))).2 = .prev none ∧
    (mstep (mrun minit ops) (.store 2 (some 2))).2 ≠ .prev (mrun minit ops).glob := by
  decide

/-- when each registration's two halves are adjacent the micro machine is the atomic one: same slot, and the
store returns what the atomic `set` returns -/
theorem micro_atomic (m : M) (t : Tid) (h : Option Hid) :
    (mrun m [.load t, .store t h]).glob = some (reg h) ∧
    (mstep (mstep m (.load t)).1 (.store t h)).2 = .prev m.glob := by
  simp [mrun, mstep]

/-- non-vacuity of the partial theorem's hypotheses: another thread loads and a violation happens in between -/
example : (mstep (mrun (mstep minit (.load 1)).1 [.load 2, .violate 3]) (.store 1 (some 5))).2 = .prev none :=
  micro_returns_prev_partial minit 1 (some 5) [.load 2, .violate 3] (by decide) (by decide)

end SafeC.Props.C13M

import SafeC.Proofs.TokSeq
/-!
# C14, whole call sequences

`Inv st dls p n` is what a caller's tokenizing loop has before a call: everything readable, the
remaining extent `[p, p+n)` writable and holding a NUL, each delimiter string that will be used has
1..`STRTOK_DELIM_MAX_LEN` characters and lies outside the extent.

* `calls_eq_spec` — ANY number of successive calls, each with its own delimiter string, threading
  `*ptr` / `*dmaxp` as the caller does, never faults, and returns exactly `specSeq`, the pure call
  sequence computed from the memory contents;
* `specSeq_replicate` — with one delimiter string throughout, `specSeq` on the memory AS IT WAS
  BEFORE THE FIRST CALL is: the start addresses of `toks` (the maximal delimiter-free runs of the
  original string) in order, each once, then NULL for every further call;
* `toks_sound` / `toks_cover` — `toks` is exactly the set of maximal delimiter-free runs: inside a
  run no NUL and no delimiter, a run ends at a delimiter or the terminator, runs are separated by
  delimiters only, and every non-delimiter character in front of the terminator lies in some run;
* `strtok_sequence` — the three combined, for `strtok_s` and `wcstok_s`.
-/
namespace SafeC.Props.C14
open SafeC Gen

/-- **any call sequence = the pure call sequence**; no call faults -/
theorem calls_eq_spec (wide : Bool) (dls : List Nat) (p n : Nat) (st : St) (hI : Inv st dls p n) :
    ∃ st', exec (moreCalls wide dls p n) st = .ok (specSeq dls st.data p n, st') := by
  induction dls generalizing st p n with
  | nil => exact ⟨st, rfl⟩
  | cons dl rest ih =>
    obtain ⟨st1, he, hdata, hI'⟩ := hI.step wide
    obtain ⟨st2, he2⟩ := ih _ _ st1 hI'
    refine ⟨st2, ?_⟩
    simp only [moreCalls, exec_bind, he, Option.getD_some, he2, specSeq, hdata]
    rfl

/-- on the terminator: NULL forever (pure form) -/
theorem specSeq_at_nul (k dl : Nat) (m : Nat → Nat) (p n : Nat) (hn : 0 < n) (h0 : m p = 0) :
    specSeq (List.replicate k dl) m p n = List.replicate k 0 := by
  induction k with
  | zero => rfl
  | succ k ih =>
    have hs : skipD m dl n p = p := by
      cases n with
      | zero => omega
      | succ j => simp [skipD, h0]
    have hc : callSpec m dl p n = { ret := 0, ptr := p, rem := n, cut := none } := by
      unfold callSpec; simp [hs, h0]
    simp only [List.replicate_succ, specSeq, hc, afterCall]
    rw [ih]

theorem toks_congr (m m' : Nat → Nat) (dl fuel p n : Nat) (hd : DelimAgree m m' dl) (h : ∀ x, p ≤ x → m x = m' x) :
    toks m dl fuel p n = toks m' dl fuel p n := by
  induction fuel generalizing p n with
  | zero => rfl
  | succ f ih =>
    have e1 := skipD_congr m m' dl n p hd h
    have hb := skipD_bounds m' dl n p
    simp only [toks, e1, h (skipD m' dl n p) hb.1]
    split
    · rfl
    · have e2 := findE_congr m m' dl (n - (skipD m' dl n p - p) - 1) (skipD m' dl n p + 1) hd (fun x hx => h x (by omega))
      have hfb := findE_bounds m' dl (n - (skipD m' dl n p - p) - 1) (skipD m' dl n p + 1)
      simp only [e2, h _ (show p ≤ findE m' dl (n - (skipD m' dl n p - p) - 1) (skipD m' dl n p + 1) by omega)]
      split
      · rfl
      · rw [ih _ _ (fun x hx => h x (by omega))]

/-- **exactly the tokens, in order, each once, then NULL forever.** One delimiter string `dl` for all
`k` calls; `m` is the memory BEFORE the first call (the calls overwrite delimiters as they go — the
statement is about the original string). -/
theorem specSeq_replicate (k dl : Nat) (m : Nat → Nat) (p n : Nat) (hz : scanLen m p n < n)
    (hap : ∀ j, j ≤ STRTOK_DELIM_MAX_LEN → ¬ (p ≤ dl + j ∧ dl + j < p + n)) :
    specSeq (List.replicate k dl) m p n =
      (toks m dl k p n).map Prod.fst ++ List.replicate (k - (toks m dl k p n).length) 0 := by
  induction k generalizing m p n with
  | zero => rfl
  | succ k ih =>
    obtain ⟨h1, h2, h3⟩ := callSpec_facts m dl p n hz
    have hcons := tok_conserves m dl p n hz
    have hterm := term_after m dl p n hz
    have hagd := afterCall_agree_delim m dl dl p n hz hap
    have hagt := afterCall_agree_tail m dl p n hz
    simp only [List.replicate_succ, specSeq, toks]
    by_cases h0 : m (skipD m dl n p) = 0
    · -- no token: NULL now and forever
      have hc : callSpec m dl p n = { ret := 0, ptr := skipD m dl n p, rem := n - (skipD m dl n p - p), cut := none } := by
        unfold callSpec; simp [h0]
      simp only [hc, afterCall, h0, if_true, List.map_nil, List.length_nil, List.nil_append, Nat.sub_zero]
      rw [specSeq_at_nul k dl m _ _ (by omega) h0]
      rfl
    · obtain ⟨h4, h5, h6⟩ := h3 h0
      simp only [h0, if_false]
      by_cases hb0 : m (findE m dl (n - (skipD m dl n p - p) - 1) (skipD m dl n p + 1)) = 0
      · -- the last token, ended by the terminator
        have hc : callSpec m dl p n = CallSpec.mk (skipD m dl n p) (findE m dl (n - (skipD m dl n p - p) - 1) (skipD m dl n p + 1))
            (n - (skipD m dl n p - p) - 1 - (findE m dl (n - (skipD m dl n p - p) - 1) (skipD m dl n p + 1) - (skipD m dl n p + 1))) none := by
          unfold callSpec; simp [h0, hb0]
        simp only [hc, afterCall, hb0, if_true, List.map_cons, List.map_nil, List.length_cons, List.length_nil]
        rw [specSeq_at_nul k dl m _ _ (by omega) hb0]
        simp
      · -- a token ended by a delimiter: cut it, continue behind it
        have hc : callSpec m dl p n = CallSpec.mk (skipD m dl n p) (findE m dl (n - (skipD m dl n p - p) - 1) (skipD m dl n p + 1) + 1)
            (n - (skipD m dl n p - p) - 1 - (findE m dl (n - (skipD m dl n p - p) - 1) (skipD m dl n p + 1) - (skipD m dl n p + 1)) - 1) (some (findE m dl (n - (skipD m dl n p - p) - 1) (skipD m dl n p + 1))) := by
          unfold callSpec; simp [h0, hb0]
        rw [hc] at hterm hagd hagt hcons
        simp only [hc, hb0, if_false, List.map_cons, List.length_cons]
        have hap' : ∀ j, j ≤ STRTOK_DELIM_MAX_LEN →
            ¬ (findE m dl (n - (skipD m dl n p - p) - 1) (skipD m dl n p + 1) + 1 ≤ dl + j ∧
               dl + j < findE m dl (n - (skipD m dl n p - p) - 1) (skipD m dl n p + 1) + 1 +
                 (n - (skipD m dl n p - p) - 1 - (findE m dl (n - (skipD m dl n p - p) - 1) (skipD m dl n p + 1) - (skipD m dl n p + 1)) - 1)) := by
          intro j hj h
          exact hap j hj ⟨by omega, by omega⟩
        rw [ih _ _ _ hterm hap']
        rw [← toks_congr m _ dl k _ _ hagd hagt]
        simp only [List.cons_append, Nat.succ_sub_succ_eq_sub, Nat.add_sub_add_right]

/-! ## `toks` is exactly the set of maximal delimiter-free runs -/

/-- soundness: every listed run lies inside the extent, contains no NUL and no delimiter, is
preceded — back to the previous run or to the start — by delimiters only, and ends at a delimiter or
at the terminator; successive runs are strictly ordered. `lo` is where the scan for the run began. -/
theorem toks_sound (m : Nat → Nat) (dl fuel p n : Nat) (hz : scanLen m p n < n) :
    ∀ t ∈ toks m dl fuel p n,
      p ≤ t.1 ∧ t.1 < t.2 ∧ t.2 < p + n ∧
      (∀ j, t.1 ≤ j → j < t.2 → m j ≠ 0 ∧ isDelim m dl (m j) = false) ∧
      (m t.2 = 0 ∨ isDelim m dl (m t.2) = true) := by
  induction fuel generalizing p n with
  | zero => intro t ht; simp [toks] at ht
  | succ f ih =>
    intro t ht
    obtain ⟨h1, h2, h3⟩ := callSpec_facts m dl p n hz
    simp only [toks] at ht
    by_cases h0 : m (skipD m dl n p) = 0
    · simp [h0] at ht
    · obtain ⟨h4, h5, h6⟩ := h3 h0
      simp only [h0, if_false] at ht
      have hfirst : ∀ j, skipD m dl n p ≤ j → j < findE m dl (n - (skipD m dl n p - p) - 1) (skipD m dl n p + 1) →
          m j ≠ 0 ∧ isDelim m dl (m j) = false := by
        intro j hj1 hj2
        by_cases hje : j = skipD m dl n p
        · subst hje
          refine ⟨h0, ?_⟩
          rcases (skipD_stop m dl n p hz).2 with h | h
          · exact absurd h h0
          · exact h
        · exact findE_inside m dl _ _ j (by omega) hj2
      by_cases hb0 : m (findE m dl (n - (skipD m dl n p - p) - 1) (skipD m dl n p + 1)) = 0
      · simp only [hb0, if_true, List.mem_singleton] at ht
        subst ht
        exact ⟨h1, by omega, by omega, hfirst, h6⟩
      · simp only [hb0, if_false, List.mem_cons] at ht
        rcases ht with ht | ht
        · subst ht
          exact ⟨h1, by omega, by omega, hfirst, h6⟩
        · -- a later run: use the induction hypothesis behind the cut
          have hnz : ∀ j, p ≤ j → j < findE m dl (n - (skipD m dl n p - p) - 1) (skipD m dl n p + 1) + 1 → m j ≠ 0 := by
            intro j hj1 hj2
            by_cases hja : j < skipD m dl n p
            · exact (skipD_skipped m dl n p j hj1 hja).1
            · by_cases hjb : j = findE m dl (n - (skipD m dl n p - p) - 1) (skipD m dl n p + 1)
              · subst hjb; exact hb0
              · exact (hfirst j (by omega) (by omega)).1
          have hz' := scanLen_adv m p n (findE m dl (n - (skipD m dl n p - p) - 1) (skipD m dl n p + 1) + 1) hz (by omega) hnz (by omega)
          have e : n - (findE m dl (n - (skipD m dl n p - p) - 1) (skipD m dl n p + 1) + 1 - p) =
              n - (skipD m dl n p - p) - 1 - (findE m dl (n - (skipD m dl n p - p) - 1) (skipD m dl n p + 1) - (skipD m dl n p + 1)) - 1 := by omega
          rw [e] at hz'
          obtain ⟨i1, i2, i3, i4, i5⟩ := ih _ _ hz' t ht
          exact ⟨by omega, i2, by omega, i4, i5⟩

/-- completeness: with enough fuel every cell in front of the terminator is a delimiter or lies in
a listed run — no token is skipped, none is split. -/
theorem toks_cover (m : Nat → Nat) (dl fuel p n : Nat) (hz : scanLen m p n < n) (hf : n ≤ fuel) :
    ∀ x, p ≤ x → x < p + scanLen m p n →
      isDelim m dl (m x) = true ∨ ∃ t ∈ toks m dl fuel p n, t.1 ≤ x ∧ x < t.2 := by
  induction fuel generalizing p n with
  | zero => omega
  | succ f ih =>
    intro x hx1 hx2
    obtain ⟨h1, h2, h3⟩ := callSpec_facts m dl p n hz
    have hxnz : m x ≠ 0 := by
      have := scanLen_nonzero m p n (x - p) (by omega)
      have e : p + (x - p) = x := by omega
      rwa [e] at this
    simp only [toks]
    by_cases hxa : x < skipD m dl n p
    · exact Or.inl (skipD_skipped m dl n p x hx1 hxa).2
    · have h0 : m (skipD m dl n p) ≠ 0 := by
        intro h
        -- the scan stopped at a NUL at or before x: but cells up to x are non-NUL
        have hle : p + scanLen m p n ≤ skipD m dl n p := by
          apply Classical.byContradiction; intro hc
          have := scanLen_nonzero m p n (skipD m dl n p - p) (by omega)
          have e : p + (skipD m dl n p - p) = skipD m dl n p := by omega
          rw [e] at this; exact this h
        omega
      obtain ⟨h4, h5, h6⟩ := h3 h0
      simp only [h0, if_false]
      by_cases hxb : x < findE m dl (n - (skipD m dl n p - p) - 1) (skipD m dl n p + 1)
      · right
        by_cases hb0 : m (findE m dl (n - (skipD m dl n p - p) - 1) (skipD m dl n p + 1)) = 0
        · simp only [hb0, if_true]; exact ⟨_, List.mem_singleton.mpr rfl, by omega, hxb⟩
        · simp only [hb0, if_false]; exact ⟨_, List.mem_cons_self, by omega, hxb⟩
      · by_cases hb0 : m (findE m dl (n - (skipD m dl n p - p) - 1) (skipD m dl n p + 1)) = 0
        · -- the run ended at the terminator: x would lie at or behind a NUL
          have hle : p + scanLen m p n ≤ findE m dl (n - (skipD m dl n p - p) - 1) (skipD m dl n p + 1) := by
            apply Classical.byContradiction; intro hc
            have := scanLen_nonzero m p n (findE m dl (n - (skipD m dl n p - p) - 1) (skipD m dl n p + 1) - p) (by omega)
            have e : p + (findE m dl (n - (skipD m dl n p - p) - 1) (skipD m dl n p + 1) - p) = findE m dl (n - (skipD m dl n p - p) - 1) (skipD m dl n p + 1) := by omega
            rw [e] at this; exact this hb0
          omega
        · simp only [hb0, if_false]
          by_cases hxe : x = findE m dl (n - (skipD m dl n p - p) - 1) (skipD m dl n p + 1)
          · subst hxe
            rcases h6 with h | h
            · exact absurd h hb0
            · exact Or.inl h
          · -- behind the cut: induction hypothesis
            have hfirst : ∀ j, skipD m dl n p ≤ j → j < findE m dl (n - (skipD m dl n p - p) - 1) (skipD m dl n p + 1) → m j ≠ 0 := by
              intro j hj1 hj2
              by_cases hje : j = skipD m dl n p
              · subst hje; exact h0
              · exact (findE_inside m dl _ _ j (by omega) hj2).1
            have hnz : ∀ j, p ≤ j → j < findE m dl (n - (skipD m dl n p - p) - 1) (skipD m dl n p + 1) + 1 → m j ≠ 0 := by
              intro j hj1 hj2
              by_cases hja : j < skipD m dl n p
              · exact (skipD_skipped m dl n p j hj1 hja).1
              · by_cases hjb : j = findE m dl (n - (skipD m dl n p - p) - 1) (skipD m dl n p + 1)
                · subst hjb; exact hb0
                · exact hfirst j (by omega) (by omega)
            have hz' := scanLen_adv m p n (findE m dl (n - (skipD m dl n p - p) - 1) (skipD m dl n p + 1) + 1) hz (by omega) hnz (by omega)
            have e : n - (findE m dl (n - (skipD m dl n p - p) - 1) (skipD m dl n p + 1) + 1 - p) =
                n - (skipD m dl n p - p) - 1 - (findE m dl (n - (skipD m dl n p - p) - 1) (skipD m dl n p + 1) - (skipD m dl n p + 1)) - 1 := by omega
            rw [e] at hz'
            -- the NUL position is the same seen from behind the cut
            have hsl : findE m dl (n - (skipD m dl n p - p) - 1) (skipD m dl n p + 1) + 1 +
                scanLen m (findE m dl (n - (skipD m dl n p - p) - 1) (skipD m dl n p + 1) + 1)
                  (n - (skipD m dl n p - p) - 1 - (findE m dl (n - (skipD m dl n p - p) - 1) (skipD m dl n p + 1) - (skipD m dl n p + 1)) - 1)
                = p + scanLen m p n := by
              -- both sides are the address of the first NUL at or after p: it is a NUL on both, and all cells before are non-NUL
              have hA := scanLen_zero m p n hz
              have hB := scanLen_zero m _ _ hz'
              apply Classical.byContradiction; intro hne
              rcases Nat.lt_or_gt_of_ne hne with hlt | hgt
              · -- left NUL lies before the right one: contradicts non-zero cells before p + scanLen
                have := scanLen_nonzero m p n
                  (findE m dl (n - (skipD m dl n p - p) - 1) (skipD m dl n p + 1) + 1 +
                    scanLen m (findE m dl (n - (skipD m dl n p - p) - 1) (skipD m dl n p + 1) + 1)
                      (n - (skipD m dl n p - p) - 1 - (findE m dl (n - (skipD m dl n p - p) - 1) (skipD m dl n p + 1) - (skipD m dl n p + 1)) - 1) - p) (by omega)
                apply this
                have e2 : p + (findE m dl (n - (skipD m dl n p - p) - 1) (skipD m dl n p + 1) + 1 +
                    scanLen m (findE m dl (n - (skipD m dl n p - p) - 1) (skipD m dl n p + 1) + 1)
                      (n - (skipD m dl n p - p) - 1 - (findE m dl (n - (skipD m dl n p - p) - 1) (skipD m dl n p + 1) - (skipD m dl n p + 1)) - 1) - p)
                    = findE m dl (n - (skipD m dl n p - p) - 1) (skipD m dl n p + 1) + 1 +
                    scanLen m (findE m dl (n - (skipD m dl n p - p) - 1) (skipD m dl n p + 1) + 1)
                      (n - (skipD m dl n p - p) - 1 - (findE m dl (n - (skipD m dl n p - p) - 1) (skipD m dl n p + 1) - (skipD m dl n p + 1)) - 1) := by omega
                rw [e2]; exact hB
              · -- right NUL lies before the left one
                have hge : findE m dl (n - (skipD m dl n p - p) - 1) (skipD m dl n p + 1) + 1 ≤ p + scanLen m p n := by
                  apply Classical.byContradiction; intro hc
                  exact hnz (p + scanLen m p n) (by omega) (by omega) hA
                have := scanLen_nonzero m (findE m dl (n - (skipD m dl n p - p) - 1) (skipD m dl n p + 1) + 1) (n - (skipD m dl n p - p) - 1 - (findE m dl (n - (skipD m dl n p - p) - 1) (skipD m dl n p + 1) - (skipD m dl n p + 1)) - 1)
                  (p + scanLen m p n - (findE m dl (n - (skipD m dl n p - p) - 1) (skipD m dl n p + 1) + 1)) (by omega)
                apply this
                have e2 : findE m dl (n - (skipD m dl n p - p) - 1) (skipD m dl n p + 1) + 1 +
                    (p + scanLen m p n - (findE m dl (n - (skipD m dl n p - p) - 1) (skipD m dl n p + 1) + 1)) = p + scanLen m p n := by omega
                rw [e2]; exact hA
            rcases ih _ _ hz' (by omega) x (by omega) (by omega) with h | ⟨t, ht, ht1, ht2⟩
            · exact Or.inl h
            · exact Or.inr ⟨t, List.mem_cons_of_mem _ ht, ht1, ht2⟩

/-- **C14 for a whole call sequence** (`wide = false`: `strtok_s`, `true`: `wcstok_s`): `k` calls with
the delimiter string `dl` return the start addresses of the maximal delimiter-free runs of the
ORIGINAL string in order, each once, then NULL for every further call; no call faults. -/
theorem strtok_sequence (wide : Bool) (k dl p n : Nat) (st : St) (hI : Inv st (List.replicate k dl) p n)
    (hap : ∀ j, j ≤ STRTOK_DELIM_MAX_LEN → ¬ (p ≤ dl + j ∧ dl + j < p + n)) :
    ∃ st', exec (moreCalls wide (List.replicate k dl) p n) st =
      .ok ((toks st.data dl k p n).map Prod.fst ++ List.replicate (k - (toks st.data dl k p n).length) 0, st') := by
  obtain ⟨st', he⟩ := calls_eq_spec wide _ p n st hI
  rw [specSeq_replicate k dl st.data p n hI.term hap] at he
  exact ⟨st', he⟩

/-- non-vacuity: "a,b" at 100 (dmax 4), delimiters "," at 200: two tokens at 100 and 102, then NULL -/
example : toks exMem 200 5 100 4 = [(100, 101), (102, 103)] ∧
    specSeq (List.replicate 4 200) exMem 100 4 = [100, 102, 0, 0] := by
  constructor <;> decide

end SafeC.Props.C14

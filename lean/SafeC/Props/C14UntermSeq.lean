import SafeC.Props.C14Unterm
/-!
# C14, the unterminated clause for a whole call sequence (as far as it holds)

`UInv st dls p n`: the continuation point `p` with remaining length `n`, NO NUL in `p[0..n]` (the cell `p[n]` = the
original `dest[dmax]` included — with a NUL there the string is accepted as terminated, `tok-nul-at-dmax-accepted`),
`[p, p+n]` writable, every delimiter string valid, non-null and outside `[p, p+n]`.

`unterm_sequence_partial`: any number of continuation calls, one delimiter string per call.  The calls return some
tokens (each cut at a delimiter strictly inside the extent; at most `n / 2` of them), then NULL for every further call;
if there are more calls than tokens at least one constraint-handler report was made (the sequence ENDS WITH AN ERROR,
and stays there); no cell outside `[p, p+n]` changes, a changed cell holds NUL, and a changed cell other than `p[n]`
held a delimiter.  The one cell beyond the declared extent that IS touched is `p[n]` = `dest[dmax]` (witnesses in
`Props/C14Unterm.lean`).
-/
namespace SafeC.Props.C14
open SafeC Gen

structure UInv (wide : Bool) (st : St) (dls : List Nat) (p n : Nat) : Prop where
  all : AllRd st
  delim : ∀ dl ∈ dls, DelimOK st.data dl
  dne : ∀ dl ∈ dls, dl ≠ 0
  pne : p ≠ 0
  unterm : scanLen st.data p n = n
  endnz : st.data (p + n) ≠ 0
  wr : ∀ a, p ≤ a → a ≤ p + n → st.wr a = true
  apart : ∀ dl ∈ dls, ∀ j, j ≤ STRTOK_DELIM_MAX_LEN → ¬ (p ≤ dl + j ∧ dl + j ≤ p + n)
  lim : n ≤ tokLimit wide

theorem scanLen_eq_of_nonzero (m : Nat → Nat) (p n : Nat) (h : ∀ j, j < n → m (p + j) ≠ 0) : scanLen m p n = n := by
  induction n generalizing p with
  | zero => rfl
  | succ n ih =>
    have h0 := h 0 (by omega)
    simp only [Nat.add_zero] at h0
    simp only [scanLen, h0, if_false]
    rw [ih (p+1) (fun j hj => by have := h (j+1) (by omega); rwa [show p + (j + 1) = p + 1 + j by omega] at this)]
    omega

theorem map_zero {α : Type} (l : List α) : l.map (fun _ => (0 : Nat)) = List.replicate l.length 0 := by
  induction l with
  | nil => rfl
  | cons a l ih => simp [List.replicate_succ, ih]

theorem exec_tokFail (code : Nat) (st : St) :
    exec (tokFail code) st = .ok ({ ret := 0 }, { st with events := st.events ++ [.handler .str code] }) := by
  simp [tokFail, handlerS, exec_bind]

/-- remaining length 0 (a token cut at the very last cell of an unterminated extent): rejected with ESZEROL, nothing
stored, forever -/
theorem zeroLen_forever (wide : Bool) (db : Bos) (dls : List Nat) (p : Nat) (st : St) :
    ∃ st', exec (nextCalls wide db dls p 0) st = .ok (dls.map (fun _ => { ret := 0 }), st') ∧
      st'.data = st.data ∧ (dls ≠ [] → st.events.length < st'.events.length) := by
  induction dls generalizing st with
  | nil => exact ⟨st, rfl, rfl, fun h => absurd rfl h⟩
  | cons dl rest ih =>
    have he : tokFn wide 0 (some 0) dl (some p) db = tokFail ESZEROL := by
      cases wide <;> simp [tokFn, strtok_s, wcstok_s]
    obtain ⟨st', he', hd', _⟩ := ih { st with events := st.events ++ [.handler .str ESZEROL] }
    obtain ⟨extra, hx⟩ := exec_events_mono _ _ he'
    refine ⟨st', ?_, hd', fun _ => ?_⟩
    · simp only [nextCalls, exec_bind, he, exec_tokFail, Option.getD_none, he', List.map_cons]
      rfl
    · rw [hx]; simp

/-- **the unterminated clause for a call sequence, as far as it holds** -/
theorem unterm_sequence_partial (wide : Bool) (db : Bos) (dls : List Nat) (p n : Nat) (st : St)
    (hU : UInv wide st dls p n) :
    ∃ outs st' toks, exec (nextCalls wide db dls p n) st = .ok (outs, st') ∧
      outs.map (fun o => o.ret) = toks ++ List.replicate (dls.length - toks.length) 0 ∧
      toks.length ≤ dls.length ∧ 2 * toks.length ≤ n ∧ (∀ r ∈ toks, r ≠ 0) ∧
      (toks.length < dls.length → st.events.length < st'.events.length) ∧
      (∀ x, st'.data x = st.data x ∨
        (p ≤ x ∧ x ≤ p + n ∧ st'.data x = 0 ∧ (x = p + n ∨ ∃ dl ∈ dls, isDelim st.data dl (st.data x) = true))) := by
  induction dls generalizing st p n with
  | nil => exact ⟨[], st, [], rfl, rfl, Nat.le_refl _, by simp, by simp, by simp, fun x => Or.inl rfl⟩
  | cons dl rest ih =>
    by_cases hn : n = 0
    · -- nothing left: ESZEROL forever
      subst hn
      obtain ⟨st', he, hd, hev⟩ := zeroLen_forever wide db (dl :: rest) p st
      refine ⟨(dl :: rest).map (fun _ => { ret := 0 }), st', [], he, ?_, by simp, by simp, by simp,
        fun _ => hev (by simp), fun x => Or.inl (by rw [hd])⟩
      simp [List.map_map, Function.comp_def, map_zero, List.replicate_succ]
    · have hpos : 0 < n := Nat.pos_of_ne_zero hn
      have hentry := tokFn_next wide n dl p db hU.pne (hU.dne dl (by simp)) hpos hU.lim
      obtain ⟨o, st1, he1, hcase⟩ := tok_unterm_partial wide dl p n st hU.all (hU.delim dl (by simp)) hU.pne
        hU.unterm hU.endnz hU.wr
      rcases hcase with ⟨hret, hptr, hev, hfr, hlast⟩ | ⟨b, hb1, hb2, hb3, hbd, hptr, hrem, hst1⟩
      · -- the ESUNTERM exit: NULL now and, with `*ptr == NULL`, forever
        obtain ⟨st2, he2, hd2, _⟩ := tok_error_forever wide db rest (o.dmaxv.getD n) st1
        obtain ⟨extra, hx⟩ := exec_events_mono _ _ he2
        refine ⟨o :: rest.map (fun _ => { ret := 0 }), st2, [], ?_, ?_, by simp, by simp, by simp, fun _ => ?_, fun x => ?_⟩
        · simp only [nextCalls, exec_bind, hentry, he1, hptr, Option.getD_some, he2]
          rfl
        · simp [hret, List.map_map, Function.comp_def, map_zero, List.replicate_succ]
        · rw [hx, hev]; simp
        · rw [hd2]
          by_cases hx : x = p + n
          · subst hx
            rcases hlast with h | h
            · exact Or.inl h
            · exact Or.inr ⟨by omega, Nat.le_refl _, h, Or.inl rfl⟩
          · exact Or.inl (hfr x hx)
      · -- a token cut at the delimiter `b` inside the extent: go on behind it
        subst hst1
        have hnz := scanLen_full_nonzero st.data p n hU.unterm
        have hagree : ∀ x, x ≠ b → (st.upd b 0).data x = st.data x := fun x hx => St.upd_data_ne st b 0 x hx
        have hdag : ∀ d ∈ rest, DelimAgree st.data (st.upd b 0).data d := by
          intro d hd j hj
          have := hU.apart d (by simp [hd]) j hj
          exact (hagree _ (by omega)).symm
        have hU' : UInv wide (st.upd b 0) rest (b + 1) (p + n - (b + 1)) := by
          refine ⟨fun a => hU.all a, ?_, fun d hd => hU.dne d (by simp [hd]), by omega, ?_, ?_, ?_, ?_, ?_⟩
          · intro d hd
            exact DelimOK_congr st.data _ d (hdag d hd) (hU.delim d (by simp [hd]))
          · apply scanLen_eq_of_nonzero
            intro j hj
            rw [hagree _ (by omega)]
            have := hnz (b + 1 + j - p) (by omega)
            rwa [show p + (b + 1 + j - p) = b + 1 + j by omega] at this
          · rw [show b + 1 + (p + n - (b + 1)) = p + n by omega, hagree _ (by omega)]
            exact hU.endnz
          · intro a h1 h2; exact hU.wr a (by omega) (by omega)
          · intro d hd j hj h
            exact hU.apart d (by simp [hd]) j hj ⟨by omega, by omega⟩
          · have := hU.lim; omega
        obtain ⟨outs, st2, toks, he2, hrets, hl1, hl2, hnzt, hevt, hfr2⟩ := ih _ _ _ hU'
        refine ⟨o :: outs, st2, o.ret :: toks, ?_, ?_, ?_, ?_, ?_, ?_, ?_⟩
        · simp only [nextCalls, exec_bind, hentry, he1, hptr, hrem, Option.getD_some, he2]
          rfl
        · simp only [List.map_cons, hrets, List.cons_append, List.length_cons, Nat.add_sub_add_right]
        · simp only [List.length_cons]; omega
        · simp only [List.length_cons]; omega
        · intro r hr
          rcases List.mem_cons.mp hr with rfl | hr
          · have := hU.pne; omega
          · exact hnzt r hr
        · intro hlt
          simp only [List.length_cons] at hlt
          have := hevt (by omega)
          simpa using this
        · intro x
          rcases hfr2 x with h | ⟨h1, h2, h3, h4⟩
          · by_cases hxb : x = b
            · subst hxb
              refine Or.inr ⟨by omega, by omega, ?_, Or.inr ⟨dl, by simp, hbd⟩⟩
              rw [h]; simp
            · exact Or.inl (by rw [h, hagree x hxb])
          · refine Or.inr ⟨by omega, by omega, h3, ?_⟩
            rcases h4 with h4 | ⟨d, hd, h4⟩
            · exact Or.inl (by omega)
            · refine Or.inr ⟨d, by simp [hd], ?_⟩
              rw [hagree x (by omega), ← isDelim_congr st.data _ d _ (hdag d hd)] at h4
              exact h4

/-- **the same for the caller's loop through the entry points** (first call with the string `dest`, length bound
`dmax`, object size unknown or at least `dmax` cells; later calls with NULL) -/
theorem unterm_caller_partial (wide : Bool) (db bos : Bos) (dls : List Nat) (dest dmax pv0 : Nat) (st : St)
    (hU : UInv wide st dls dest dmax) (hpos : 0 < dmax) (hbos : ∀ b, bos = some b → dmax * cellSize wide ≤ b) :
    ∃ outs st' toks, exec (callerLoop wide db dls dest dmax pv0 bos) st = .ok (outs, st') ∧
      outs.map (fun o => o.ret) = toks ++ List.replicate (dls.length - toks.length) 0 ∧
      toks.length ≤ dls.length ∧ 2 * toks.length ≤ dmax ∧ (∀ r ∈ toks, r ≠ 0) ∧
      (toks.length < dls.length → st.events.length < st'.events.length) ∧
      (∀ x, st'.data x = st.data x ∨
        (dest ≤ x ∧ x ≤ dest + dmax ∧ st'.data x = 0 ∧
          (x = dest + dmax ∨ ∃ dl ∈ dls, isDelim st.data dl (st.data x) = true))) := by
  have hsame : exec (callerLoop wide db dls dest dmax pv0 bos) st = exec (nextCalls wide db dls dest dmax) st := by
    cases dls with
    | nil => rfl
    | cons dl rest =>
      have hf := tokFn_first wide dest dmax dl pv0 bos hU.pne (hU.dne dl (by simp)) hpos hU.lim hbos
      have hn := tokFn_next wide dmax dl dest db hU.pne (hU.dne dl (by simp)) hpos hU.lim
      obtain ⟨o, st1, he1, hcase⟩ := tok_unterm_partial wide dl dest dmax st hU.all (hU.delim dl (by simp)) hU.pne
        hU.unterm hU.endnz hU.wr
      have hptr : ∃ v, o.ptrv = some v := by
        rcases hcase with ⟨_, h, _⟩ | ⟨b, _, _, _, _, h, _⟩
        · exact ⟨_, h⟩
        · exact ⟨_, h⟩
      obtain ⟨v, hv⟩ := hptr
      simp only [callerLoop, nextCalls, exec_bind, hf, hn, he1, hv, Option.getD_some]
  rw [hsame]
  exact unterm_sequence_partial wide db dls dest dmax st hU

/-! ## non-vacuity: "a,b" + 'x' at 100 with dmax 3 — no NUL in `dest[0..3]` —, delimiter string "," at 200 -/

def unSeqMem : Nat → Nat := fun a =>
  if a = 100 then 97 else if a = 101 then 44 else if a = 102 then 98 else if a = 103 then 120
  else if a = 200 then 44 else 0

def unSeqSt : St := { data := unSeqMem, mapped := fun _ => true, rd := fun _ => true, wr := fun _ => true }

example : UInv false unSeqSt (List.replicate 3 200) 100 3 :=
  ⟨fun _ => ⟨rfl, rfl⟩,
   fun dl hdl => by rw [(List.mem_replicate.mp hdl).2]; unfold DelimOK; decide,
   fun dl hdl => by rw [(List.mem_replicate.mp hdl).2]; decide,
   by decide, by decide, by decide, fun _ _ _ => rfl,
   fun dl hdl j hj h => by rw [(List.mem_replicate.mp hdl).2] at h; omega,
   by decide⟩

/-- the run (kernel-evaluated): the token "a", then ESUNTERM with NULL — the last token "b" is lost and `dest[3]` is
cleared, `*dmaxp = 0` —, then ESZEROL with NULL -/
example :
    (match exec (callerLoop false none (List.replicate 3 200) 100 3 0 none) unSeqSt with
      | .ok (outs, st') => (outs.map (fun o => o.ret), st'.events, st'.data 101, st'.data 103)
      | .error _ => ([], [], 0, 0)) =
    ([100, 0, 0], [.handler .str ESUNTERM, .handler .str ESZEROL], 0, 0) := by decide

end SafeC.Props.C14

import SafeC.Proofs.MemccpyExact
import SafeC.Props.C06
/-!
# C06 (extension) — `memccpy_s`: copies up to and including the stop character

Valid arguments, disjoint operands, the stop character `c` (compared as the C code does: the promoted byte against the
`int` argument) first occurs at source index `m < n`.  Standard `memccpy` leaves `dest[0..m] = src[0..m]`.

* `memccpy_s_C06_prefix` (every configuration): EOK and the `m` bytes BEFORE the stop character are exact.
* `memccpy_s_C06_partial`: the stop character itself arrives too — in a build without null-slack, or when `c` is 0.
  The full statement is false with null-slack and `c ≠ 0`: the clear `mem_prim_set(dp, n, 0)` starts AT the copied stop
  character (`memccpy-stop-char-zeroed`); `memccpy_s_C06_witness` is `memccpy_s(d, 1, "b", 'b', 1)`.
-/
namespace SafeC.Props.C06
open SafeC Gen Mem

/-- **memccpy_s, stop character found at `m`, every configuration**: EOK, `dest[0..m) = src[0..m)`, no stray access, no
handler; with null-slack `dest[m..n)` is zero -/
theorem memccpy_s_C06_prefix (cfg : Cfg) (dest dmax src c n m : Nat) (st : St)
    (hd : dest ≠ 0) (hs : src ≠ 0) (hmn : m < n) (hle : n ≤ dmax) (hmax : dmax ≤ RSIZE_MAX_MEM)
    (hw : RW st dest dmax) (hr : RD st src n) (ha1 : src + n < U64) (ha2 : dest + dmax < U64)
    (hno : ¬ ((src ≤ dest ∧ dest < src + n) ∨ (dest < src ∧ src < dest + dmax)))
    (hns : ∀ i, i < m → ((st.data (src+i) : Nat) : Int) ≠ asInt c) (hstop : ((st.data (src+m) : Nat) : Int) = asInt c) :
    ∃ st', exec (memccpy_s cfg dest dmax src c n none none) st = .ok (EOK, st') ∧
      cells st' dest m = cells st src m ∧ st'.strays = st.strays ∧ st'.events = st.events ∧
      (cfg.slack = true → ∀ i, m ≤ i → i < n → st'.data (dest+i) = 0) := by
  obtain ⟨st', he, hm, hcp, _, hsl⟩ := memccpy_s_found cfg dest dmax src c n m st hd hs hmn hle hmax hw hr ha1 ha2 hno hns hstop
  exact ⟨st', he, cells_eq st st' dest src m hcp, hm.strays, hm.events, fun h => (hsl h).1⟩

/- FULL statement (false of the model): without `hcfg`. -/

/-- **memccpy_s, stop character found at `m`**: `dest[0..m] = src[0..m]` — stop character included — without null-slack
or for `c = 0` -/
theorem memccpy_s_C06_partial (cfg : Cfg) (dest dmax src c n m : Nat) (st : St)
    (hd : dest ≠ 0) (hs : src ≠ 0) (hmn : m < n) (hle : n ≤ dmax) (hmax : dmax ≤ RSIZE_MAX_MEM)
    (hw : RW st dest dmax) (hr : RD st src n) (ha1 : src + n < U64) (ha2 : dest + dmax < U64)
    (hno : ¬ ((src ≤ dest ∧ dest < src + n) ∨ (dest < src ∧ src < dest + dmax)))
    (hns : ∀ i, i < m → ((st.data (src+i) : Nat) : Int) ≠ asInt c) (hstop : ((st.data (src+m) : Nat) : Int) = asInt c)
    (hcfg : cfg.slack = false ∨ asInt c = 0) :
    ∃ st', exec (memccpy_s cfg dest dmax src c n none none) st = .ok (EOK, st') ∧
      cells st' dest (m+1) = cells st src (m+1) := by
  obtain ⟨st', he, _, hcp, hns', hsl⟩ := memccpy_s_found cfg dest dmax src c n m st hd hs hmn hle hmax hw hr ha1 ha2 hno hns hstop
  refine ⟨st', he, ?_⟩
  rw [cells_snoc, cells_snoc, cells_eq st st' dest src m hcp]
  congr 2
  cases hcs : cfg.slack with
  | false => exact (hns' hcs).1
  | true =>
    rcases hcfg with h | h
    · rw [hcs] at h; cases h
    · rw [(hsl hcs).1 m (Nat.le_refl _) hmn]
      rw [h] at hstop
      exact (Int.natCast_eq_zero.mp hstop).symm

/-- src = 200 holds `'b'`, dest = 100 (1 cell) -/
def ccSt : St :=
  { data := fun a => if a = 200 then 98 else 7
    mapped := fun _ => true, rd := fun _ => true
    wr := fun a => decide (a = 100) }

/-- return code and one cell of the final memory -/
def observe (r : Except Fault (Nat × St)) (a : Nat) : Option (Nat × Nat) :=
  match r with
  | .ok (c, s) => some (c, s.data a)
  | .error _ => none

/-- the excluded point: `memccpy_s(d, 1, "b", 'b', 1)` with null-slack returns EOK and `d[0] = 0`, not `'b'` -/
theorem memccpy_s_C06_witness :
    observe (exec (memccpy_s { slack := true } 100 1 200 98 1 none none) ccSt) 100 = some (EOK, 0) := by decide

example : RW ccSt 100 1 ∧ RD ccSt 200 1 ∧ ((ccSt.data (200 + 0) : Nat) : Int) = asInt 98 :=
  ⟨fun i hi => ⟨rfl, by simp [ccSt]; omega, rfl⟩, fun _ _ => ⟨rfl, rfl⟩, by decide⟩

end SafeC.Props.C06

import SafeC.Props.C09
import SafeC.Props.C09Gram
import SafeC.Proofs.FmtEngine
import SafeC.Proofs.PrintfN
import SafeC.Proofs.PrintfFrame
/-!
# C09 — the engine-based entry points (`sprintf_s vsprintf_s snprintf_s vsnprintf_s printf_s fprintf_s vfprintf_s`)

Two models of `safec_vsnprintf_s`:
* `SafeC.Fmt.engine` (Models/Fmt.lean) — the directive parser alone (what the C09 correspondence run compares with the C:
  "rejected == prescan or the parser stops");
* `SafeC.Printf.engine` (Models/Printf.lean, shared with C11) — arguments, output, run-time failures, the wrappers.

Proved here, for EVERY format and EVERY argument list (induction over the format):
1. on the grammar of the standard the parser stops in `case 'n'` exactly when there is an `n` conversion
   (`engine_gram_exact`; the one other stop on a grammatical format is `%L` + integer conversion);
2. whenever the parser model stops, the full engine takes an error exit (`full_engine_rejects`), and every error exit
   `return`s a negative value (`full_engine_error_negative`);
3. the full engine stores into `dest[0..bufsize)` and the stream only (`full_engine_frame`) — its state has no other
   memory, and the arguments are values it only reads: there is no store through an argument to be had;
4. the wrappers: a format with an `n` conversion gives a negative return with dest cleared
   (`vsnprintf_s_n`, `vsprintf_s_n`, `sprintf_s_n`, `streamPrintf_n`, and `engine_family_C09*`).
-/
namespace SafeC.Props.C09
open SafeC.Fmt SafeC.Fmt.Gram SafeC.Gen

/-! ## 1. the directive parser on the grammar -/

/-- the engine on a format of the grammar: `case 'n'` iff there is an `n` conversion, unless `%L` + integer
    conversion stopped it before; never the `default:` exit -/
theorem engine_gram_exact (fmt : Str) (b : Bool) (h : PParse fmt b) :
    SafeC.Fmt.engine fmt = some .illegalLInt ∨ SafeC.Fmt.engine fmt = (if b then some .illegalN else none) := by
  simpa [SafeC.Fmt.engine] using engLoop_gram h fmt.length (Nat.le_refl _)

/-- every format of the grammar with an `n` conversion is rejected by the engine: any flags, width, precision, length
    modifier, `%%`, text before and after -/
theorem engine_rejects_gram (fmt : Str) (h : PHasN fmt) : engineRejects fmt = true := by
  rcases engine_gram_n h with e | e <;> simp [engineRejects, e]

example : engineRejects "ab%5.3lld%%%-08.*hhn x".toList = true :=
  engine_rejects_gram _ <|
    PParse.lit (by decide) <| PParse.lit (by decide) <|
    PParse.conv (d := ⟨[], ['5'], ['.', '3'], ['l', 'l']⟩) (by decide) (by decide) <| PParse.esc <|
    PParse.conv (d := ⟨['-', '0'], ['8'], ['.', '*'], ['h', 'h']⟩) (c := 'n') (by decide) (by decide) <|
    PParse.lit (by decide) <| PParse.lit (by decide) PParse.nil

/-- a grammatical format without `n` conversion that the engine rejects all the same: `L` with an integer conversion
    (undefined in the standard) -/
theorem engine_gram_LInt_witness :
    PParse ['%', 'L', 'd'] false ∧ SafeC.Fmt.engine ['%', 'L', 'd'] = some .illegalLInt :=
  ⟨PParse.conv (d := ⟨[], [], [], ['L']⟩) (c := 'd') (by decide) (by decide) PParse.nil, by decide⟩

/-- **the model the correspondence run compares** (`enginePrintfRejects` = pre-scan or parser stop) on the grammar: a format
    is rejected iff it has an `n` conversion or the parser stopped on `%L` + integer conversion — sound and complete -/
theorem engine_entry_gram_exact (fmt : Str) (b : Bool) (h : PParse fmt b) :
    enginePrintfRejects fmt = true ↔ (b = true ∨ SafeC.Fmt.engine fmt = some .illegalLInt) := by
  cases b with
  | true =>
    have := engine_rejects_gram fmt h
    simp [enginePrintfRejects, this]
  | false =>
    have hp := prescan_sound_printf fmt h
    rcases engine_gram_no_n h with e | e <;> simp [enginePrintfRejects, engineRejects, hp, e]

/-! ## 2. the full engine takes the error exit -/

/-- whenever the directive-parser model stops on a format, the full engine (arguments, output, run-time failures)
    takes an error exit — every argument list, sink, buffer size, start state and repair configuration -/
theorem full_engine_rejects (fmt : Str) (h : engineRejects fmt = true) (fx : SafeC.Printf.Fixes) (sk : SafeC.Printf.Sink)
    (bufsize : Nat) (args : List SafeC.Printf.Arg) (s : SafeC.Printf.St) :
    ∃ e, SafeC.Printf.engine fx sk bufsize fmt args s = .error e :=
  SafeC.Printf.engine_error_of_rejects fx sk bufsize fmt args s h

/-- the full engine never returns normally from a format with an `n` conversion — grammar of the standard -/
theorem full_engine_n_gram (fmt : Str) (h : PHasN fmt) (fx : SafeC.Printf.Fixes) (sk : SafeC.Printf.Sink)
    (bufsize : Nat) (args : List SafeC.Printf.Arg) (s : SafeC.Printf.St) :
    ∃ e, SafeC.Printf.engine fx sk bufsize fmt args s = .error e :=
  full_engine_rejects fmt (engine_rejects_gram fmt h) fx sk bufsize args s

/-- … — glibc's grammar (positional arguments, `'` and `I` flags, `q Z` modifiers), for ANY character string -/
theorem full_engine_n_libc (fmt : Str) (h : libcPrintfStoresN fmt = true) (fx : SafeC.Printf.Fixes) (sk : SafeC.Printf.Sink)
    (bufsize : Nat) (args : List SafeC.Printf.Arg) (s : SafeC.Printf.St) :
    ∃ e, SafeC.Printf.engine fx sk bufsize fmt args s = .error e :=
  full_engine_rejects fmt (engine_rejects_n fmt h) fx sk bufsize args s

/-- every value the full engine `return`s on an error exit is negative (the current tree: `fx.lcMemcpy`) -/
theorem full_engine_error_negative (fx : SafeC.Printf.Fixes) (hfx : fx.lcMemcpy = true) (sk : SafeC.Printf.Sink)
    (bufsize : Nat) (hb : 0 < bufsize) (fmt : Str) (args : List SafeC.Printf.Arg) (s : SafeC.Printf.St) (v : Int)
    (h : SafeC.Printf.engine fx sk bufsize fmt args s = .error (.ret v)) : v < 0 :=
  (SafeC.Printf.engine_good fx hfx sk bufsize hb fmt args s).neg v h

/-! ## 3. where the full engine stores -/

/-- a normal return of the full engine has changed cells of `dest` below `bufsize` and appended to the stream; nothing
    else exists in the state of the model, and the arguments are read-only values -/
theorem full_engine_frame (fx : SafeC.Printf.Fixes) (hfx : fx.lcMemcpy = true) (sk : SafeC.Printf.Sink)
    (bufsize : Nat) (hb : 0 < bufsize) (fmt : Str) (args : List SafeC.Printf.Arg) (s s' : SafeC.Printf.St)
    (h : SafeC.Printf.engine fx sk bufsize fmt args s = .ok s') :
    s'.cells.length = s.cells.length ∧ (∀ i, bufsize ≤ i → s'.cells[i]? = s.cells[i]?) ∧ s.stream <+: s'.stream :=
  let f := (SafeC.Printf.engine_good fx hfx sk bufsize hb fmt args s).frame s' h
  ⟨f.len, f.out, f.str⟩

example : SafeC.Printf.engine SafeC.Printf.current .buffer 8 "a%5d%%".toList [.int 42] ⟨0, List.replicate 12 'x', []⟩ =
    .ok ⟨7, "a   42%\x00xxxx".toList, []⟩ := by rfl

/-- the tree before aebf026 (`%lc` copied two bytes to `buffer[0]` whatever `bufsize` was): a store beyond `bufsize` -/
theorem full_engine_frame_lc_witness :
    ∃ s', SafeC.Printf.engine SafeC.Printf.Fixes.none .buffer 1 ['%', 'l', 'c'] [.int 65] ⟨0, ['x', 'y'], []⟩ = .ok s' ∧
      s'.cells[1]? ≠ some 'y' :=
  ⟨⟨1, ['\x00', '\x00'], []⟩, by rfl, by decide⟩

/-! ## 4. the entry points -/

/-- dest after `handle_error` / the `ret < 0` branch of `_vsnprintf_s_chk` (334ee1c): all zero with
    SAFECLIB_STR_NULL_SLACK, `dest[0] = 0` without -/
def cleared (slack : Bool) (dmax : Nat) (init : List Char) : List Char :=
  if slack then SafeC.Printf.zeros dmax else init.set 0 '\x00'

/-- what a rejected call looks like; `ret = none`: the model does not say (an argument of the wrong type or missing —
    undefined in C — or a floating conversion in front of the failing directive, which Models/Printf.lean does not model) -/
def Rejected (slack : Bool) (dmax : Nat) (init : List Char) (r : SafeC.Printf.Result) : Prop :=
  r.ret = none ∨ ∃ v, r.ret = some v ∧ v < 0 ∧ r.cells = cleared slack dmax init ∧ r.stream = []

theorem vsnprintf_s_n (fx : SafeC.Printf.Fixes) (hfx : fx.lcMemcpy = true) (slack : Bool) (dmax : Nat) (init : List Char)
    (fmt : Str) (args : List SafeC.Printf.Arg) (h0 : dmax ≠ 0) (h1 : dmax ≤ RSIZE_MAX_STR)
    (hn : prescan fmt = true ∨ engineRejects fmt = true) :
    Rejected slack dmax init (SafeC.Printf.vsnprintf_s fx slack dmax init fmt args) := by
  unfold SafeC.Printf.vsnprintf_s
  rw [if_neg h0, if_neg (Nat.not_lt.mpr h1)]
  by_cases hp : prescan fmt = true
  · rw [if_pos hp]
    exact Or.inr ⟨_, rfl, by decide, rfl, rfl⟩
  · rw [if_neg hp]
    have hr : engineRejects fmt = true := by
      rcases hn with h | h
      · exact absurd h hp
      · exact h
    cases he : SafeC.Printf.engine fx .buffer dmax fmt args ⟨0, init, []⟩ with
    | ok s =>
      obtain ⟨e, hee⟩ := full_engine_rejects fmt hr fx .buffer dmax args ⟨0, init, []⟩
      rw [he] at hee; cases hee
    | error e =>
      cases e with
      | ret v =>
        exact Or.inr ⟨v, rfl, full_engine_error_negative fx hfx .buffer dmax (Nat.pos_of_ne_zero h0) fmt args _ v he, rfl, rfl⟩
      | fault => exact Or.inl rfl
      | stuck => exact Or.inl rfl
      | unmodelled => exact Or.inl rfl

theorem vsprintf_s_n (fx : SafeC.Printf.Fixes) (hfx : fx.lcMemcpy = true) (slack : Bool) (dmax : Nat) (init : List Char)
    (fmt : Str) (args : List SafeC.Printf.Arg) (h0 : dmax ≠ 0) (h1 : dmax ≤ RSIZE_MAX_STR)
    (hn : prescan fmt = true ∨ engineRejects fmt = true) :
    Rejected slack dmax init (SafeC.Printf.vsprintf_s fx slack dmax init fmt args) := by
  have h := vsnprintf_s_n fx hfx slack dmax init fmt args h0 h1 hn
  unfold SafeC.Printf.vsprintf_s
  rcases h with h | ⟨v, hv, hneg, hc, hs⟩
  · simp only [h]; exact Or.inl h
  · simp only [hv]
    have : ¬ (dmax ≠ 0 ∧ v ≥ (dmax : Int)) := by omega
    rw [if_neg this]
    exact Or.inr ⟨v, hv, hneg, hc, hs⟩

theorem sprintf_s_n (fx : SafeC.Printf.Fixes) (hfx : fx.lcMemcpy = true) (slack : Bool) (dmax : Nat) (init : List Char)
    (fmt : Str) (args : List SafeC.Printf.Arg) (h0 : dmax ≠ 0) (h1 : dmax ≤ RSIZE_MAX_STR)
    (hn : prescan fmt = true ∨ engineRejects fmt = true) :
    Rejected slack dmax init (SafeC.Printf.sprintf_s fx slack dmax init fmt args) := by
  unfold SafeC.Printf.sprintf_s
  split
  · exact vsprintf_s_n fx hfx slack dmax init fmt args h0 h1 hn
  · exact vsnprintf_s_n fx hfx slack dmax init fmt args h0 h1 hn

/-- `printf_s` (sink `char`), `fprintf_s` / `vfprintf_s` (sink `fchar`) -/
theorem streamPrintf_n (fx : SafeC.Printf.Fixes) (hfx : fx.lcMemcpy = true) (sk : SafeC.Printf.Sink)
    (fmt : Str) (args : List SafeC.Printf.Arg) (hn : prescan fmt = true ∨ engineRejects fmt = true) :
    let r := SafeC.Printf.streamPrintf fx sk fmt args
    r.ret = none ∨ ∃ v, r.ret = some v ∧ v < 0 ∧ r.stream = [] := by
  intro r
  show (SafeC.Printf.streamPrintf fx sk fmt args).ret = none ∨ ∃ v, (SafeC.Printf.streamPrintf fx sk fmt args).ret = some v ∧ v < 0 ∧
    (SafeC.Printf.streamPrintf fx sk fmt args).stream = []
  unfold SafeC.Printf.streamPrintf
  by_cases hp : prescan fmt = true
  · rw [if_pos hp]
    exact Or.inr ⟨_, rfl, by decide, rfl⟩
  · rw [if_neg hp]
    have hr : engineRejects fmt = true := by
      rcases hn with h | h
      · exact absurd h hp
      · exact h
    cases he : SafeC.Printf.engine fx sk (2 ^ 64 - 1) fmt args ⟨0, [], []⟩ with
    | ok s =>
      obtain ⟨e, hee⟩ := full_engine_rejects fmt hr fx sk (2 ^ 64 - 1) args ⟨0, [], []⟩
      rw [he] at hee; cases hee
    | error e =>
      cases e with
      | ret v =>
        exact Or.inr ⟨v, rfl, full_engine_error_negative fx hfx sk (2 ^ 64 - 1) (by decide) fmt args _ v he, rfl⟩
      | fault => exact Or.inl rfl
      | stuck => exact Or.inl rfl
      | unmodelled => exact Or.inl rfl

/-- **C09 for the engine-based entry points, grammar of the standard**: a format that contains an `n` conversion — any
    flags, width, precision, length modifier, `%%`, text before and after — is rejected (negative return, dest cleared)
    by the tree as it is now, for every argument list; nothing is stored through an argument (`full_engine_frame`) -/
theorem engine_family_C09 (slack : Bool) (dmax : Nat) (init : List Char) (fmt : Str) (args : List SafeC.Printf.Arg)
    (h0 : dmax ≠ 0) (h1 : dmax ≤ RSIZE_MAX_STR) (hn : PHasN fmt) :
    Rejected slack dmax init (SafeC.Printf.vsnprintf_s SafeC.Printf.current slack dmax init fmt args) ∧
    Rejected slack dmax init (SafeC.Printf.vsprintf_s SafeC.Printf.current slack dmax init fmt args) ∧
    Rejected slack dmax init (SafeC.Printf.sprintf_s SafeC.Printf.current slack dmax init fmt args) :=
  have hr := Or.inr (engine_rejects_gram fmt hn)
  ⟨vsnprintf_s_n _ rfl slack dmax init fmt args h0 h1 hr, vsprintf_s_n _ rfl slack dmax init fmt args h0 h1 hr,
   sprintf_s_n _ rfl slack dmax init fmt args h0 h1 hr⟩

/-- the same for ANY character string in which glibc's printf grammar finds an `n` conversion -/
theorem engine_family_C09_libc (slack : Bool) (dmax : Nat) (init : List Char) (fmt : Str) (args : List SafeC.Printf.Arg)
    (h0 : dmax ≠ 0) (h1 : dmax ≤ RSIZE_MAX_STR) (hn : libcPrintfStoresN fmt = true) :
    Rejected slack dmax init (SafeC.Printf.vsnprintf_s SafeC.Printf.current slack dmax init fmt args) ∧
    Rejected slack dmax init (SafeC.Printf.vsprintf_s SafeC.Printf.current slack dmax init fmt args) ∧
    Rejected slack dmax init (SafeC.Printf.sprintf_s SafeC.Printf.current slack dmax init fmt args) :=
  have hr := Or.inr (engine_rejects_n fmt hn)
  ⟨vsnprintf_s_n _ rfl slack dmax init fmt args h0 h1 hr, vsprintf_s_n _ rfl slack dmax init fmt args h0 h1 hr,
   sprintf_s_n _ rfl slack dmax init fmt args h0 h1 hr⟩

/-- stream variants -/
theorem engine_family_C09_stream (sk : SafeC.Printf.Sink) (fmt : Str) (args : List SafeC.Printf.Arg)
    (hn : PHasN fmt ∨ libcPrintfStoresN fmt = true) :
    (SafeC.Printf.streamPrintf SafeC.Printf.current sk fmt args).ret = none ∨
    ∃ v, (SafeC.Printf.streamPrintf SafeC.Printf.current sk fmt args).ret = some v ∧ v < 0 ∧
      (SafeC.Printf.streamPrintf SafeC.Printf.current sk fmt args).stream = [] :=
  streamPrintf_n _ rfl sk fmt args (Or.inr (hn.elim (engine_rejects_gram fmt) (engine_rejects_n fmt)))

/-- the hypotheses are satisfiable and the conclusion is the second disjunct on a well-typed call -/
example : (SafeC.Printf.vsnprintf_s SafeC.Printf.current true 8 "xxxxxxxx".toList "a%d%ln".toList [.int 7, .ptr 0]).ret = some (-1) ∧
    (SafeC.Printf.vsnprintf_s SafeC.Printf.current true 8 "xxxxxxxx".toList "a%d%ln".toList [.int 7, .ptr 0]).cells =
      SafeC.Printf.zeros 8 := by decide

end SafeC.Props.C09

import SafeC.Proofs.SWHolds
import SafeC.Proofs.SWCopy
import SafeC.Proofs.SWTok
import SafeC.Proofs.SWFld
/-!
# C01 (extension) — tokenizers, field copies, wide / stp copies, `getenv_s`, `strerror_s`

Same setting and conclusion as `Props/C01.lean` (`Setting`, `Holds`): every cell mapped and readable with ARBITRARY
contents, only the declared destination writable; then for ALL arguments (NULL, zero, huge, overlapping, terminated
or not, object sizes known or unknown) the call returns, records no stray write and leaves every cell that was not
declared writable bit-identical.  Proved through the semantic store-address judgement `SW` (`Proofs/SW.lean`) by the
walking tactic `sw_walk` (`Proofs/SWCopy.lean`, `SWTok.lean`, `SWFld.lean`).

Where the code really uses a larger extent than the caller declared, the theorem is stated (`_partial`) with the extent /
hypothesis the proof forces, and a kernel-checked `_witness` shows the stray write of the full statement.
-/
namespace SafeC.Props.C01
open SafeC Gen

/-! ## the tokenizers -/

/- FULL statement (false of the model, `tok-unterm-exit-writes-dest-dmax`): with `RW st D dmax` instead of
`RW st D (dmax+1)` below.  The "unterminated" exits execute `*dest = 0` at the scan position, which is `D + dmax` when
no NUL was found inside the declared extent. -/

/-- **strtok_s**, all arguments (`dmaxp` / `ptr` NULL or not, `dest` NULL = continue at `*ptr`, any delimiter string, any
object-size knowledge): every store lands in `[D, D + dmax]`, `D` the buffer scanned — ONE cell more than declared -/
theorem strtok_s_C01_partial (dest : Nat) (dmaxp : Option Nat) (delim : Nat) (ptr : Option Nat) (b : Bos) (st : St)
    (hs : Setting st)
    (hrw : ∀ dmax pv, dmaxp = some dmax → ptr = some pv → (if dest = 0 then pv else dest) ≠ 0 →
      RW st (if dest = 0 then pv else dest) (dmax + 1)) :
    ∃ o st', exec (strtok_s dest dmaxp delim ptr b) st = .ok (o, st') ∧ Holds st st' := by
  cases dmaxp with
  | none => exact holds_of_SW 0 0 st hs (fun h => absurd rfl h) (fun lo hi _ => SW_strtok_s _ _ _ _ _ (by intro _ _ h; cases h))
  | some dmax =>
    cases ptr with
    | none => exact holds_of_SW 0 0 st hs (fun h => absurd rfl h) (fun lo hi _ => SW_strtok_s _ _ _ _ _ (by intro _ _ _ h; cases h))
    | some pv =>
      refine holds_of_SW (Q := fun _ => True) (if dest = 0 then pv else dest) (dmax + 1) st hs (hrw dmax pv rfl rfl) (fun lo hi h => ?_)
      apply SW_strtok_s
      intro d p hd hp
      cases hd; cases hp
      omega

/-- **wcstok_s**: the same statement on `wchar_t` cells (here also the first scan stores on its unterminated exit) -/
theorem wcstok_s_C01_partial (dest : Nat) (dmaxp : Option Nat) (delim : Nat) (ptr : Option Nat) (b : Bos) (st : St)
    (hs : Setting st)
    (hrw : ∀ dmax pv, dmaxp = some dmax → ptr = some pv → (if dest = 0 then pv else dest) ≠ 0 →
      RW st (if dest = 0 then pv else dest) (dmax + 1)) :
    ∃ o st', exec (wcstok_s dest dmaxp delim ptr b) st = .ok (o, st') ∧ Holds st st' := by
  cases dmaxp with
  | none => exact holds_of_SW 0 0 st hs (fun h => absurd rfl h) (fun lo hi _ => SW_wcstok_s _ _ _ _ _ (by intro _ _ h; cases h))
  | some dmax =>
    cases ptr with
    | none => exact holds_of_SW 0 0 st hs (fun h => absurd rfl h) (fun lo hi _ => SW_wcstok_s _ _ _ _ _ (by intro _ _ _ h; cases h))
    | some pv =>
      refine holds_of_SW (Q := fun _ => True) (if dest = 0 then pv else dest) (dmax + 1) st hs (hrw dmax pv rfl rfl) (fun lo hi h => ?_)
      apply SW_wcstok_s
      intro d p hd hp
      cases hd; cases hp
      omega

/-- dest = 100 holds `ab` followed by a non-NUL cell, dmax = 2 (cells 100, 101 writable), delimiters `,` at 200 -/
def tokSt : St :=
  { data := fun a => if a = 100 then 97 else if a = 101 then 98 else if a = 102 then 99 else if a = 200 then 44 else 0
    mapped := fun _ => true, rd := fun _ => true
    wr := fun a => decide (100 ≤ a ∧ a < 102) }

/-- the excluded point: `strtok_s(d, &dmax = 2, ",", &p)` on an unterminated `d`: a stray write at `d[2]` -/
theorem strtok_s_C01_witness :
    strayWrites (exec (strtok_s 100 (some 2) 200 (some 0) none) tokSt) = some [.wr 102] := by decide

theorem wcstok_s_C01_witness :
    strayWrites (exec (wcstok_s 100 (some 2) 200 (some 0) none) tokSt) = some [.wr 102] := by decide

example : Setting tokSt ∧ RW tokSt 100 2 := ⟨⟨fun _ => ⟨rfl, rfl⟩, rfl⟩, fun i hi => ⟨rfl, by simp [tokSt]; omega, rfl⟩⟩

/-! ## the field copies -/

/-- **strcpyfld_s**: all arguments, any object-size knowledge -/
theorem strcpyfld_s_C01 (cfg : Cfg) (dest dmax src slen : Nat) (b : Bos) (st : St) (hs : Setting st)
    (hrw : dest ≠ 0 → RW st dest dmax) :
    ∃ code st', exec (strcpyfld_s cfg dest dmax src slen b) st = .ok (code, st') ∧ Holds st st' :=
  holds_of_SW dest dmax st hs hrw (fun _ _ h => SW_fldG .fld cfg dest dmax src slen b h)

/-- **strcpyfldin_s** -/
theorem strcpyfldin_s_C01 (cfg : Cfg) (dest dmax src slen : Nat) (b : Bos) (st : St) (hs : Setting st)
    (hrw : dest ≠ 0 → RW st dest dmax) :
    ∃ code st', exec (strcpyfldin_s cfg dest dmax src slen b) st = .ok (code, st') ∧ Holds st st' :=
  holds_of_SW dest dmax st hs hrw (fun _ _ h => SW_fldG .fldin cfg dest dmax src slen b h)

/-- **strcpyfldout_s** -/
theorem strcpyfldout_s_C01 (cfg : Cfg) (dest dmax src slen : Nat) (b : Bos) (st : St) (hs : Setting st)
    (hrw : dest ≠ 0 → RW st dest dmax) :
    ∃ code st', exec (strcpyfldout_s cfg dest dmax src slen b) st = .ok (code, st') ∧ Holds st st' :=
  holds_of_SW dest dmax st hs hrw (fun _ _ h => SW_fldG .fldout cfg dest dmax src slen b h)

/-! ## the wide copies and the narrow ones with a KNOWN object size -/

/-- **strcpy_s**, object size known or unknown -/
theorem strcpy_s_C01_bos (cfg : Cfg) (dest dmax src : Nat) (b : Bos) (st : St) (hs : Setting st)
    (hrw : dest ≠ 0 → RW st dest dmax) :
    ∃ code st', exec (strcpy_s cfg dest dmax src b) st = .ok (code, st') ∧ Holds st st' :=
  holds_of_SW dest dmax st hs hrw (fun _ _ h => SW_strcpyG _ cfg dest dmax src b h)

/-- **strcat_s**, object size known or unknown -/
theorem strcat_s_C01_bos (cfg : Cfg) (dest dmax src : Nat) (b : Bos) (st : St) (hs : Setting st)
    (hrw : dest ≠ 0 → RW st dest dmax) :
    ∃ code st', exec (strcat_s cfg dest dmax src b) st = .ok (code, st') ∧ Holds st st' :=
  holds_of_SW dest dmax st hs hrw (fun _ _ h => SW_strcatG _ cfg dest dmax src b h)

/-- **wcscpy_s**, object size (bytes) known or unknown -/
theorem wcscpy_s_C01_bos (cfg : Cfg) (dest dmax src : Nat) (b : Bos) (st : St) (hs : Setting st)
    (hrw : dest ≠ 0 → RW st dest dmax) :
    ∃ code st', exec (wcscpy_s cfg dest dmax src b) st = .ok (code, st') ∧ Holds st st' :=
  holds_of_SW dest dmax st hs hrw (fun _ _ h => SW_wcscpy_s cfg dest dmax src b h)

/-- **wcscat_s**, object size known or unknown -/
theorem wcscat_s_C01_bos (cfg : Cfg) (dest dmax src : Nat) (b : Bos) (st : St) (hs : Setting st)
    (hrw : dest ≠ 0 → RW st dest dmax) :
    ∃ code st', exec (wcscat_s cfg dest dmax src b) st = .ok (code, st') ∧ Holds st st' :=
  holds_of_SW dest dmax st hs hrw (fun _ _ h => SW_wcscat_s cfg dest dmax src b h)

/-- **wcsncpy_s**: all `dest dmax src slen`, both object sizes known or unknown (the `slen > srcbos` exit clears
`wcsnlen_s(dest, dmax)` cells: inside dest, unlike the narrow twin) -/
theorem wcsncpy_s_C01 (cfg : Cfg) (dest dmax src slen : Nat) (db sb : Bos) (st : St) (hs : Setting st)
    (hrw : dest ≠ 0 → RW st dest dmax) :
    ∃ code st', exec (wcsncpy_s cfg dest dmax src slen db sb) st = .ok (code, st') ∧ Holds st st' :=
  holds_of_SW dest dmax st hs hrw (fun _ _ h => SW_wcsncpy_s cfg dest dmax src slen db sb h)

/-- **wcsncat_s**: all arguments (also `slen = 0`), both object sizes known or unknown -/
theorem wcsncat_s_C01 (cfg : Cfg) (dest dmax src slen : Nat) (db sb : Bos) (st : St) (hs : Setting st)
    (hrw : dest ≠ 0 → RW st dest dmax) :
    ∃ code st', exec (wcsncat_s cfg dest dmax src slen db sb) st = .ok (code, st') ∧ Holds st st' :=
  holds_of_SW dest dmax st hs hrw (fun _ _ h => SW_wcsncat_s cfg dest dmax src slen db sb h)

/-- **strncat_s with `slen = 0` included** (the path `Props/C01.lean` leaves out), object sizes unknown -/
theorem strncat_s_C01_all (cfg : Cfg) (dest dmax src slen : Nat) (st : St) (hs : Setting st)
    (hrw : dest ≠ 0 → RW st dest dmax) :
    ∃ code st', exec (strncat_s cfg dest dmax src slen none none) st = .ok (code, st') ∧ Holds st st' :=
  holds_of_SW dest dmax st hs hrw (fun _ _ h => SW_strncatG _ cfg dest dmax src slen none none trivial h)

/- FULL statement for known object sizes (false of the model, `slen-exceeds-srcbos-clears-destbos`): without `hb`.
With BOTH object sizes known the `slen > srcbos` exit calls `handle_str_bos_overflow(dest, destbos)`, which clears
`strnlen_s(dest, destbos)` cells — up to the object size, not `dmax`. -/

/-- **strncpy_s, object sizes known**: all arguments, provided a known dest object is not larger than `dmax` when the
source object size is known too (`bosTight`) -/
theorem strncpy_s_C01_bos_partial (cfg : Cfg) (dest dmax src slen : Nat) (db sb : Bos) (st : St) (hs : Setting st)
    (hb : bosTight dmax db sb) (hrw : dest ≠ 0 → RW st dest dmax) :
    ∃ code st', exec (strncpy_s cfg dest dmax src slen db sb) st = .ok (code, st') ∧ Holds st st' :=
  holds_of_SW dest dmax st hs hrw (fun _ _ h => SW_strncpyG _ cfg dest dmax src slen db sb hb h)

/-- **strncat_s, object sizes known** -/
theorem strncat_s_C01_bos_partial (cfg : Cfg) (dest dmax src slen : Nat) (db sb : Bos) (st : St) (hs : Setting st)
    (hb : bosTight dmax db sb) (hrw : dest ≠ 0 → RW st dest dmax) :
    ∃ code st', exec (strncat_s cfg dest dmax src slen db sb) st = .ok (code, st') ∧ Holds st st' :=
  holds_of_SW dest dmax st hs hrw (fun _ _ h => SW_strncatG _ cfg dest dmax src slen db sb hb h)

/-- dest = 100 holds `abc` (no NUL in the 3-cell object), 2 cells declared -/
def bosSt : St :=
  { data := fun a => if a = 100 then 97 else if a = 101 then 98 else if a = 102 then 99 else if a = 200 then 120 else 0
    mapped := fun _ => true, rd := fun _ => true
    wr := fun a => decide (100 ≤ a ∧ a < 102) }

/-- the excluded point: `strncpy_s(d, 2, s, 2)` with destbos 3, srcbos 1 zeroes `d[2]` -/
theorem strncpy_s_C01_bos_witness :
    strayWrites (exec (strncpy_s { slack := true } 100 2 200 2 (some 3) (some 1)) bosSt) = some [.wr 102] := by decide

theorem strncat_s_C01_bos_witness :
    strayWrites (exec (strncat_s { slack := true } 100 2 200 2 (some 3) (some 1)) bosSt) = some [.wr 102] := by decide

/-! ## stpcpy_s / stpncpy_s -/

/-- **stpcpy_s**: all arguments, both object sizes known or unknown -/
theorem stpcpy_s_C01 (cfg : Cfg) (dest dmax src : Nat) (db sb : Bos) (st : St) (hs : Setting st)
    (hrw : dest ≠ 0 → RW st dest dmax) :
    ∃ r st', exec (stpcpy_s cfg dest dmax src db sb) st = .ok (r, st') ∧ Holds st st' :=
  holds_of_SW dest dmax st hs hrw (fun _ _ h => SW_stpcpy_s cfg dest dmax src db sb h)

/-- **stpncpy_s**, object sizes unknown (or only one of them known): all arguments -/
theorem stpncpy_s_C01 (cfg : Cfg) (dest dmax src slen : Nat) (st : St) (hs : Setting st)
    (hrw : dest ≠ 0 → RW st dest dmax) :
    ∃ r st', exec (stpncpy_s cfg dest dmax src slen none none) st = .ok (r, st') ∧ Holds st st' :=
  holds_of_SW dest dmax st hs hrw (fun _ _ h => SW_stpncpy_s cfg dest dmax src slen none none trivial h)

/-- **stpncpy_s, object sizes known** (same `handle_str_bos_overflow(dest, destbos)` exit as strncpy_s) -/
theorem stpncpy_s_C01_bos_partial (cfg : Cfg) (dest dmax src slen : Nat) (db sb : Bos) (st : St) (hs : Setting st)
    (hb : bosTight dmax db sb) (hrw : dest ≠ 0 → RW st dest dmax) :
    ∃ r st', exec (stpncpy_s cfg dest dmax src slen db sb) st = .ok (r, st') ∧ Holds st st' :=
  holds_of_SW dest dmax st hs hrw (fun _ _ h => SW_stpncpy_s cfg dest dmax src slen db sb hb h)

theorem stpncpy_s_C01_bos_witness :
    strayWrites (exec (stpncpy_s { slack := true } 100 2 200 2 (some 3) (some 1)) bosSt) = some [.wr 102] := by decide

example : Setting bosSt ∧ RW bosSt 100 2 ∧ bosTight 2 (some 2) (some 1) :=
  ⟨⟨fun _ => ⟨rfl, rfl⟩, rfl⟩, fun i hi => ⟨rfl, by simp [bosSt]; omega, rfl⟩, Nat.le_refl _⟩

/-! ## getenv_s / strerror_s -/

/-- **getenv_s**: all arguments; `value` = the environment string (0 = not set), any contents -/
theorem getenv_s_C01 (cfg : Cfg) (hasLen : Bool) (dest dmax name : Nat) (b : Bos) (value : Nat) (st : St) (hs : Setting st)
    (hrw : dest ≠ 0 → RW st dest dmax) :
    ∃ r st', exec (getenv_s cfg hasLen dest dmax name b value) st = .ok (r, st') ∧ Holds st st' :=
  holds_of_SW dest dmax st hs hrw (fun _ _ h => SW_getenv_s cfg hasLen dest dmax name b value h)

/-- **strerror_s**: all arguments; `msg` = libc's message, `dots` = the literal `"..."`, any contents -/
theorem strerror_s_C01 (cfg : Cfg) (dest dmax errnum : Nat) (b : Bos) (msg dots : Nat) (st : St) (hs : Setting st)
    (hrw : dest ≠ 0 → RW st dest dmax) :
    ∃ code st', exec (strerror_s cfg dest dmax errnum b msg dots) st = .ok (code, st') ∧ Holds st st' :=
  holds_of_SW dest dmax st hs hrw (fun _ _ h => SW_strerror_s cfg dest dmax errnum b msg dots h)

end SafeC.Props.C01

import SafeC.Props.C05Meaning
/-!
# C05 "meaning" for `wmemcpy_s` / `wmemmove_s` (object sizes unknown): the doc comments' codes, and where the code departs

Both compute byte sizes `dlen * sizeof(wchar_t)`, `count * sizeof(wchar_t)` without an overflow check (known finding
`mem-size-multiplication-wraps`), and `wmemmove_s` compares the BYTE size of dest with the ELEMENT limit RSIZE_MAX_WMEM (known
finding `wmemmove-byte-vs-element-limit`): `_partial` + `_witness` for each.  `count = 0 → EOK` before any other test is the
code's (the doc comments of the two do not say "or count = 0" as memcpy_s's does); it is transcribed as such and named here.
-/
set_option linter.unusedSimpArgs false
namespace SafeC.Props.C05Meaning
open SafeC Gen Mem SafeC.Props.C05Ev SafeC.Props.C05Mem

/-- src/wchar/wmemmove_s.c: `@retval EOK when operation is successful`, `ESNULLP when dest or src is a NULL POINTER`,
`ESZEROL when dlen = ZERO`, `ESLEMAX when dlen/count > RSIZE_MAX_WMEM`, `ESNOSPC when dlen < count` (all in ELEMENTS) -/
def wmemmoveCode (dest dlen src count : Nat) : Nat :=
  if count = 0 then EOK
  else if dest = 0 then ESNULLP
  else if dlen = 0 then ESZEROL
  else if dlen > RSIZE_MAX_WMEM then ESLEMAX
  else if src = 0 then ESNULLP
  else if count > dlen then (if count > RSIZE_MAX_WMEM then ESLEMAX else ESNOSPC)
  else EOK

/- FULL statement (no hypotheses), false of the code: `wmemmove_s_meaning_witness` -/
theorem wmemmove_s_code_partial (dest dlen src count : Nat) (hd : dlen < 2 ^ 62) (hc : count < 2 ^ 62)
    (hl : dlen ≤ RSIZE_MAX_WMEM / 4 ∨ dlen > RSIZE_MAX_WMEM) :
    EV (wmemmove_s dest dlen src count none none) (Is .mem (wmemmoveCode dest dlen src count)) := by
  have hdm : (dlen * SIZEOF_WCHAR_T) % U64 = dlen * 4 := by
    show (dlen * 4) % 2 ^ 64 = _; exact Nat.mod_eq_of_lt (by omega)
  have hsm : (count * SIZEOF_WCHAR_T) % U64 = count * 4 := by
    show (count * 4) % 2 ^ 64 = _; exact Nat.mod_eq_of_lt (by omega)
  have hm : RSIZE_MAX_MEM = 4 * RSIZE_MAX_WMEM := by decide
  have hw : RSIZE_MAX_WMEM = 67108864 := rfl
  by_cases h1 : count = 0
  · simp only [wmemmove_s, wmemmoveCode, h1, if_true]; exact is_eok
  by_cases h2 : dest = 0
  · simp only [wmemmove_s, wmemmoveCode, h1, h2, if_true, if_false]; exact is_failM _ (by decide)
  by_cases h3 : dlen = 0
  · have h3' : dlen * 4 = 0 := by omega
    simp only [wmemmove_s, wmemmoveCode, hdm, h1, h2, h3', if_true, if_false]
    simp only [h3, if_true]; exact is_failM _ (by decide)
  have h3' : ¬ dlen * 4 = 0 := by omega
  by_cases h4 : dlen > RSIZE_MAX_WMEM
  · have h4' : dlen * 4 > RSIZE_MAX_WMEM := by omega
    simp only [wmemmove_s, wmemmoveCode, chkDmaxMemB, hdm, h1, h2, h3, h3', h4, h4', if_true, if_false]
    exact is_failM _ (by decide)
  have h4' : ¬ dlen * 4 > RSIZE_MAX_WMEM := by omega
  by_cases h5 : src = 0
  · simp only [wmemmove_s, wmemmoveCode, chkDmaxMemB, hdm, h1, h2, h3, h3', h4, h4', h5, if_true, if_false]
    exact is_handleMemErrorB _ _ _ _ (by decide)
  by_cases h6 : count > dlen
  · have h6' : count * 4 > dlen * 4 := by omega
    by_cases h7 : count > RSIZE_MAX_WMEM
    · have h7' : count * 4 > RSIZE_MAX_MEM := by omega
      simp only [wmemmove_s, wmemmoveCode, chkDmaxMemB, hdm, hsm, h1, h2, h3, h3', h4, h4', h5, h6, h6', h7, h7', if_true, if_false]
      exact is_handleMemErrorB _ _ _ _ (by decide)
    · have h7' : ¬ count * 4 > RSIZE_MAX_MEM := by omega
      simp only [wmemmove_s, wmemmoveCode, chkDmaxMemB, hdm, hsm, h1, h2, h3, h3', h4, h4', h5, h6, h6', h7, h7', if_true, if_false]
      exact is_handleMemErrorB _ _ _ _ (by decide)
  · have h6' : ¬ count * 4 > dlen * 4 := by omega
    simp only [wmemmove_s, wmemmoveCode, chkDmaxMemB, exceeds, Bool.false_eq_true, hdm, hsm, h1, h2, h3, h3', h4, h4', h5, h6, h6', if_false]
    exact is_work_eok (q_mem_prim_move32 _ _ _)

/-- wmemmove_s, object sizes unknown, counts that do not wrap, `dlen` outside (RSIZE_MAX_WMEM/4, RSIZE_MAX_WMEM]: the code is
`wmemmoveCode` of the arguments -/
theorem wmemmove_s_meaning_partial (dest dlen src count : Nat) (hd : dlen < 2 ^ 62) (hc : count < 2 ^ 62)
    (hl : dlen ≤ RSIZE_MAX_WMEM / 4 ∨ dlen > RSIZE_MAX_WMEM) (st : St) (r : Nat) (st' : St)
    (he : exec (wmemmove_s dest dlen src count none none) st = .ok (r, st')) :
    r = wmemmoveCode dest dlen src count ∧
      ((r = EOK ∧ st'.events = st.events) ∨ (r ≠ EOK ∧ st'.events = st.events ++ [.handler .mem r])) :=
  Is.sound (wmemmove_s_code_partial dest dlen src count hd hc hl) st r st' he

/-- the excluded band: `dlen = RSIZE_MAX_WMEM/4 + 1` elements (a legal size) is rejected with ESLEMAX -/
theorem wmemmove_s_meaning_witness :
    ((exec (wmemmove_s 100 (RSIZE_MAX_WMEM / 4 + 1) 100000000 1 none none)
      { data := fun _ => 7, mapped := fun _ => true, rd := fun _ => true, wr := fun _ => true }).toOption.map
        (fun x => (x.1, x.2.events))) = some (ESLEMAX, [.handler .mem ESLEMAX]) ∧
      wmemmoveCode 100 (RSIZE_MAX_WMEM / 4 + 1) 100000000 1 = EOK := by
  decide

theorem wmemmoveCode_eok_iff (dest dlen src count : Nat) :
    wmemmoveCode dest dlen src count = EOK ↔
      count = 0 ∨ (dest ≠ 0 ∧ dlen ≠ 0 ∧ dlen ≤ RSIZE_MAX_WMEM ∧ src ≠ 0 ∧ count ≤ dlen) := by
  have e1 : ESNULLP ≠ EOK := by decide
  have e2 : ESLEMAX ≠ EOK := by decide
  have e3 : ESNOSPC ≠ EOK := by decide
  have e4 : ESZEROL ≠ EOK := by decide
  unfold wmemmoveCode
  repeat' split
  all_goals simp only [e1, e2, e3, e4, false_iff, true_iff, not_and, not_or, ne_eq]
  all_goals omega

/-- non-vacuity of the partial statement: a reporting run within its hypotheses -/
example : (2 : Nat) < 2 ^ 62 ∧ (3 : Nat) < 2 ^ 62 ∧ (2 ≤ RSIZE_MAX_WMEM / 4 ∨ 2 > RSIZE_MAX_WMEM) ∧
    ((exec (wmemmove_s 100 2 200 3 none none)
      { data := fun _ => 7, mapped := fun _ => true, rd := fun _ => true, wr := fun _ => true }).toOption.map
        (fun x => (x.1, x.2.events))) = some (wmemmoveCode 100 2 200 3, [.handler .mem ESNOSPC]) := by decide

/-! ## wmemcpy_s -/

/-- src/wchar/wmemcpy_s.c: wmemmove_s's list plus `ESOVRLP when src memory overlaps dst` (`CHK_OVRLP_BUTSAME` on the
addresses: dest == src is accepted) -/
def wmemcpyCode (dest dlen src count : Nat) : Nat :=
  if count = 0 then EOK
  else if dest = 0 then ESNULLP
  else if dlen = 0 then ESZEROL
  else if dlen > RSIZE_MAX_WMEM then ESLEMAX
  else if src = 0 then ESNULLP
  else if count > dlen then (if count > RSIZE_MAX_WMEM then ESLEMAX else ESNOSPC)
  else if ovrlpButSame SIZEOF_WCHAR_T dest dlen src count then ESOVRLP
  else EOK

/- FULL statement (no hypotheses), false of the code: `wmemcpy_s_meaning_witness` -/
theorem wmemcpy_s_code_partial (dest dlen src count : Nat) (hd : dlen < 2 ^ 62) (hc : count < 2 ^ 62) :
    EV (wmemcpy_s dest dlen src count none none) (Is .mem (wmemcpyCode dest dlen src count)) := by
  have hdm : (dlen * SIZEOF_WCHAR_T) % U64 = dlen * 4 := by
    show (dlen * 4) % 2 ^ 64 = _; exact Nat.mod_eq_of_lt (by omega)
  have hsm : (count * SIZEOF_WCHAR_T) % U64 = count * 4 := by
    show (count * 4) % 2 ^ 64 = _; exact Nat.mod_eq_of_lt (by omega)
  have hm : RSIZE_MAX_MEM = 4 * RSIZE_MAX_WMEM := by decide
  by_cases h1 : count = 0
  · simp only [wmemcpy_s, wmemcpyCode, h1, if_true]; exact is_eok
  by_cases h2 : dest = 0
  · simp only [wmemcpy_s, wmemcpyCode, h1, h2, if_true, if_false]; exact is_failM _ (by decide)
  by_cases h3 : dlen = 0
  · have h3' : dlen * 4 = 0 := by omega
    simp only [wmemcpy_s, wmemcpyCode, hdm, h1, h2, h3', if_true, if_false]
    simp only [h3, if_true]; exact is_failM _ (by decide)
  have h3' : ¬ dlen * 4 = 0 := by omega
  by_cases h4 : dlen > RSIZE_MAX_WMEM
  · have h4' : dlen * 4 > RSIZE_MAX_MEM := by omega
    simp only [wmemcpy_s, wmemcpyCode, chkDmaxMemB, hdm, h1, h2, h3, h3', h4, h4', if_true, if_false]
    exact is_failM _ (by decide)
  have h4' : ¬ dlen * 4 > RSIZE_MAX_MEM := by omega
  by_cases h5 : src = 0
  · simp only [wmemcpy_s, wmemcpyCode, chkDmaxMemB, hdm, h1, h2, h3, h3', h4, h4', h5, if_true, if_false]
    exact is_handleMemErrorB _ _ _ _ (by decide)
  by_cases h6 : count > dlen
  · have h6' : count * 4 > dlen * 4 := by omega
    by_cases h7 : count > RSIZE_MAX_WMEM
    · have h7' : count * 4 > RSIZE_MAX_MEM := by omega
      simp only [wmemcpy_s, wmemcpyCode, chkDmaxMemB, hdm, hsm, h1, h2, h3, h3', h4, h4', h5, h6, h6', h7, h7', if_true, if_false]
      exact is_handleMemErrorB _ _ _ _ (by decide)
    · have h7' : ¬ count * 4 > RSIZE_MAX_MEM := by omega
      simp only [wmemcpy_s, wmemcpyCode, chkDmaxMemB, hdm, hsm, h1, h2, h3, h3', h4, h4', h5, h6, h6', h7, h7', if_true, if_false]
      exact is_handleMemErrorB _ _ _ _ (by decide)
  have h6' : ¬ count * 4 > dlen * 4 := by omega
  by_cases h8 : ovrlpButSame SIZEOF_WCHAR_T dest dlen src count = true
  · simp only [wmemcpy_s, wmemcpyCode, chkDmaxMemB, exceeds, Bool.false_eq_true, hdm, hsm, h1, h2, h3, h3', h4, h4', h5, h6, h6', h8, if_true, if_false]
    exact is_clear_report (q_mem_prim_set32 _ _ _) _ (by decide)
  · simp only [wmemcpy_s, wmemcpyCode, chkDmaxMemB, exceeds, Bool.false_eq_true, hdm, hsm, h1, h2, h3, h3', h4, h4', h5, h6, h6', h8, if_false]
    exact is_work_eok (q_mem_prim_move32 _ _ _)

/-- wmemcpy_s, object sizes unknown, counts that do not wrap: the code is `wmemcpyCode` of the arguments -/
theorem wmemcpy_s_meaning_partial (dest dlen src count : Nat) (hd : dlen < 2 ^ 62) (hc : count < 2 ^ 62)
    (st : St) (r : Nat) (st' : St) (he : exec (wmemcpy_s dest dlen src count none none) st = .ok (r, st')) :
    r = wmemcpyCode dest dlen src count ∧
      ((r = EOK ∧ st'.events = st.events) ∨ (r ≠ EOK ∧ st'.events = st.events ++ [.handler .mem r])) :=
  Is.sound (wmemcpy_s_code_partial dest dlen src count hd hc) st r st' he

/-- the excluded point: `count = 2^62 + 1` wraps to 4 bytes: EOK without a report (doc comment: ESLEMAX) -/
theorem wmemcpy_s_meaning_witness :
    ((exec (wmemcpy_s 100 8 200 (2 ^ 62 + 1) none none)
      { data := fun _ => 7, mapped := fun _ => true, rd := fun _ => true, wr := fun _ => true }).toOption.map
        (fun x => (x.1, x.2.events))) = some (EOK, []) ∧ wmemcpyCode 100 8 200 (2 ^ 62 + 1) = ESLEMAX := by
  decide

theorem wmemcpyCode_eok_iff (dest dlen src count : Nat) :
    wmemcpyCode dest dlen src count = EOK ↔
      count = 0 ∨ (dest ≠ 0 ∧ dlen ≠ 0 ∧ dlen ≤ RSIZE_MAX_WMEM ∧ src ≠ 0 ∧ count ≤ dlen ∧
        ovrlpButSame SIZEOF_WCHAR_T dest dlen src count = false) := by
  have e1 : ESNULLP ≠ EOK := by decide
  have e2 : ESLEMAX ≠ EOK := by decide
  have e3 : ESNOSPC ≠ EOK := by decide
  have e4 : ESZEROL ≠ EOK := by decide
  have e5 : ESOVRLP ≠ EOK := by decide
  unfold wmemcpyCode
  repeat' split
  all_goals simp only [e1, e2, e3, e4, e5, false_iff, true_iff, not_and, not_or, ne_eq, Bool.not_eq_false]
  all_goals first | omega | grind

example : (4 : Nat) < 2 ^ 62 ∧
    ((exec (wmemcpy_s 100 4 102 4 none none)
      { data := fun _ => 7, mapped := fun _ => true, rd := fun _ => true, wr := fun _ => true }).toOption.map
        (fun x => (x.1, x.2.events))) = some (wmemcpyCode 100 4 102 4, [.handler .mem ESOVRLP]) := by decide

end SafeC.Props.C05Meaning

import SafeC.Props.C01Time
/-!
# C06 for gmtime_s / localtime_s: success means the exact, complete result

For every in-range `*timer` (0 ≤ *timer < MAX_TIME_T_STR), every broken-down time `res` libc produces for it (14 32-bit cells,
anywhere outside `*dest`) and every prior content of `*dest`: the call returns dest (EOK), reports nothing, and afterwards the
members `tm_sec … tm_isdst` (cells 0..8) and `tm_gmtoff` (cells 10, 11) of `*dest` are exactly libc's, `tm_zone` (cells 12, 13)
is what the shim normalises it to (0), the padding cell 9 and every cell outside `*dest` are untouched.
-/
namespace SafeC.Props.C06Time
open SafeC Gen

/-- the value member cell `j` of `*dest` ends up with -/
def tmCell (st : St) (res j : Nat) : Nat := if j ≥ 12 then 0 else st.data (res + j)

theorem copyTm_ok (k i res dest : Nat) (st0 st : St)
    (hall : ∀ a, st.mapped a = true ∧ st.rd a = true) (hrw : RW st dest 14) (hik : i + k = 14)
    (hdisj : ∀ a b, a < 14 → b < 14 → res + a ≠ dest + b)
    (hres : ∀ a, a < 14 → st.data (res + a) = st0.data (res + a)) :
    ∃ st', exec (copyTm k i res dest) st = .ok ((), st') ∧ SameMeta st' st ∧
      (∀ j, i ≤ j → j < 14 → j ≠ 9 → st'.data (dest + j) = tmCell st0 res j) ∧
      (∀ a, ¬ (∃ j, i ≤ j ∧ j < 14 ∧ j ≠ 9 ∧ a = dest + j) → st'.data a = st.data a) := by
  induction k generalizing i st with
  | zero =>
    unfold copyTm
    exact ⟨st, rfl, SameMeta.refl _, fun j h1 h2 => by omega, fun _ _ => rfl⟩
  | succ k ih =>
    unfold copyTm
    have hm := hall (res + i)
    simp only [exec_bind, exec_load_ok _ _ hm.1 hm.2]
    by_cases h9 : i = 9
    · subst h9
      simp only [if_true, exec_pure]
      obtain ⟨st', he, hmeta, hv, hf⟩ := ih 10 st hall hrw (by omega) hres
      refine ⟨st', he, hmeta, fun j h1 h2 h3 => hv j (by omega) h2 h3, fun a ha => hf a ?_⟩
      intro ⟨j, h1, h2, h3, h4⟩
      exact ha ⟨j, by omega, h2, h3, h4⟩
    · rw [if_neg h9]
      have hw := hrw i (by omega)
      simp only [exec_store_ok _ _ _ hw.1 hw.2.1]
      have hres' : ∀ a, a < 14 → (st.upd (dest + i) (if i ≥ 12 then 0 else st.data (res + i))).data (res + a) = st0.data (res + a) := by
        intro a ha
        rw [St.upd_data_ne _ _ _ _ (hdisj a i ha (by omega))]
        exact hres a ha
      obtain ⟨st', he, hmeta, hv, hf⟩ := ih (i+1) (st.upd (dest + i) (if i ≥ 12 then 0 else st.data (res + i)))
        (by intro a; exact hall a) (RW.of_sameMeta (SameMeta.upd _ _ _) hrw) (by omega) hres'
      refine ⟨st', he, hmeta.trans (SameMeta.upd _ _ _), fun j h1 h2 h3 => ?_, fun a ha => ?_⟩
      · by_cases hj : j = i
        · subst hj
          rw [hf (dest + j) (by intro ⟨j', h1', _, _, h4'⟩; omega)]
          rw [St.upd_data_same]
          unfold tmCell
          rw [hres j h2]
        · exact hv j (by omega) h2 h3
      · rw [hf a (by intro ⟨j, h1, h2, h3, h4⟩; exact ha ⟨j, by omega, h2, h3, h4⟩)]
        exact St.upd_data_ne _ _ _ _ (by intro h; exact ha ⟨i, Nat.le_refl _, by omega, h9, h⟩)

/-- **gmtime_s / localtime_s, success: the exact result** -/
theorem tmConv_C06 (timer dest res : Nat) (st : St) (hd : dest ≠ 0) (ht : timer ≠ 0) (hr : res ≠ 0)
    (hall : ∀ a, st.mapped a = true ∧ st.rd a = true) (hrw : RW st dest 14)
    (hlo : 0 ≤ cellI64 (st.data timer)) (hhi : cellI64 (st.data timer) < MAX_TIME_T_STR)
    (hdisj : ∀ a b, a < 14 → b < 14 → res + a ≠ dest + b) :
    ∃ st', exec (tmConv timer dest res) st = .ok (EOK, st') ∧ st'.events = st.events ∧ st'.strays = st.strays ∧
      (∀ j, j < 14 → j ≠ 9 → st'.data (dest + j) = tmCell st res j) ∧
      st'.data (dest + 9) = st.data (dest + 9) ∧
      (∀ a, ¬ (dest ≤ a ∧ a < dest + 14) → st'.data a = st.data a) := by
  unfold tmConv
  rw [if_neg hd, if_neg ht]
  have hm := hall timer
  simp only [exec_bind, exec_load_ok _ _ hm.1 hm.2]
  rw [if_neg (by omega)]
  simp only [exec_bind, exec_load_ok _ _ hm.1 hm.2]
  rw [if_neg (by omega), if_neg hr]
  obtain ⟨st', he, hmeta, hv, hf⟩ := copyTm_ok 14 0 res dest st st hall hrw (by omega) hdisj (fun _ _ => rfl)
  refine ⟨st', by simp only [exec_bind, he]; rfl, hmeta.events, hmeta.strays, fun j h1 h2 => hv j (Nat.zero_le _) h1 h2, ?_, ?_⟩
  · exact hf _ (by intro ⟨j, _, _, h3, h4⟩; omega)
  · intro a ha
    exact hf a (by intro ⟨j, _, h2, _, h4⟩; exact ha ⟨by omega, by omega⟩)

theorem gmtime_s_C06 (timer dest res : Nat) (st : St) (hd : dest ≠ 0) (ht : timer ≠ 0) (hr : res ≠ 0)
    (hall : ∀ a, st.mapped a = true ∧ st.rd a = true) (hrw : RW st dest 14)
    (hlo : 0 ≤ cellI64 (st.data timer)) (hhi : cellI64 (st.data timer) < MAX_TIME_T_STR)
    (hdisj : ∀ a b, a < 14 → b < 14 → res + a ≠ dest + b) :
    ∃ st', exec (gmtime_s timer dest res) st = .ok (EOK, st') ∧ st'.events = st.events ∧ st'.strays = st.strays ∧
      (∀ j, j < 14 → j ≠ 9 → st'.data (dest + j) = tmCell st res j) ∧
      st'.data (dest + 9) = st.data (dest + 9) ∧
      (∀ a, ¬ (dest ≤ a ∧ a < dest + 14) → st'.data a = st.data a) :=
  tmConv_C06 timer dest res st hd ht hr hall hrw hlo hhi hdisj

theorem localtime_s_C06 (timer dest res : Nat) (st : St) (hd : dest ≠ 0) (ht : timer ≠ 0) (hr : res ≠ 0)
    (hall : ∀ a, st.mapped a = true ∧ st.rd a = true) (hrw : RW st dest 14)
    (hlo : 0 ≤ cellI64 (st.data timer)) (hhi : cellI64 (st.data timer) < MAX_TIME_T_STR)
    (hdisj : ∀ a b, a < 14 → b < 14 → res + a ≠ dest + b) :
    ∃ st', exec (localtime_s timer dest res) st = .ok (EOK, st') ∧ st'.events = st.events ∧ st'.strays = st.strays ∧
      (∀ j, j < 14 → j ≠ 9 → st'.data (dest + j) = tmCell st res j) ∧
      st'.data (dest + 9) = st.data (dest + 9) ∧
      (∀ a, ¬ (dest ≤ a ∧ a < dest + 14) → st'.data a = st.data a) :=
  tmConv_C06 timer dest res st hd ht hr hall hrw hlo hhi hdisj

/-- non-vacuity: `*timer = 86399` at cell 8, `*dest` at 100, libc's result at 200 -/
example : ∃ st : St, (∀ a, st.mapped a = true ∧ st.rd a = true) ∧ RW st 100 14 ∧ 0 ≤ cellI64 (st.data 8) ∧
    cellI64 (st.data 8) < MAX_TIME_T_STR ∧ ∀ a b, a < 14 → b < 14 → 200 + a ≠ 100 + b :=
  ⟨{ data := fun a => if a = 8 then 86399 else 7, mapped := fun _ => true, rd := fun _ => true, wr := fun _ => true },
   fun _ => ⟨rfl, rfl⟩, fun _ _ => ⟨rfl, rfl, rfl⟩, by decide, by decide, fun a b _ _ => by omega⟩

end SafeC.Props.C06Time

import SafeC.Props.C05Docs
import SafeC.Proofs.CopyDisjoint
import SafeC.Models.Io
/-!
# C05 for asctime_s / ctime_s (`Models/Time.lean`)

Event level, ALL arguments, memory contents and placements (`asctime_s_ev`, `ctime_s_ev`): a returning call has
* reported nothing and returned EOK or -1 (libc gave up), or
* reported exactly once, a code of `[ESNULLP, ESLEMIN, ESLEMAX, EOVERFLOW, ESNOSPC]`, and returned that code, or
* returned EOK after ONE report: only possible when `dmax < 120` and the copy out of libc's buffer fails, i.e. when that
  buffer overlaps dest or holds no terminated text — `timeTail_small` shows that with a terminated text disjoint from dest
  (the automatic `tmp[120]` of the C) this does not happen and states what dest holds afterwards.

The third case with `dmax >= 120` was real before 93525f5 (the closing `strcpy_s(dest, dmax, dest)` was called without the
known object size and reported ESLEMAX for a large dmax): proving `timeTail_ev` is what exposed it.

`asctime_s_documented` / `ctime_s_documented`: every returned code is on the CURRENT `@retval` list of the doc comment.
-/
namespace SafeC.Props.C05Time
open SafeC Gen SafeC.Props.C05Ev SafeC.Props.C05Mem SafeC.Props.C05Query SafeC.Props.C05Docs

/-- the codes the two functions report themselves -/
abbrev TS : List Nat := [ESNULLP, ESLEMIN, ESLEMAX, EOVERFLOW, ESNOSPC]

/-- outcome of asctime_s / ctime_s; `small` = the copy out of libc's buffer happens (dmax < 120) -/
def TPost (small : Prop) : Nat → List Event → Prop := fun r es =>
  (es = [] ∧ (r = EOK ∨ r = NEG1)) ∨ (r ≠ EOK ∧ r ∈ TS ∧ es = [.handler .str r]) ∨
  (small ∧ r = EOK ∧ ∃ c, c ≠ EOK ∧ es = [.handler .str c])

theorem q_anyField (tm : Nat) (l : List (Nat × (Int → Bool))) : Quiet (anyField tm l) := by
  induction l with
  | nil => unfold anyField; quiet
  | cons x xs ih => obtain ⟨i, p⟩ := x; unfold anyField; quiet using ih

theorem q_copyText (f t d : Nat) : Quiet (copyText f t d) := by
  induction f generalizing t d with
  | zero => unfold copyText; quiet
  | succ f ih => unfold copyText; quiet using ih _ _

theorem tp_failS {sm : Prop} (c : Nat) (hc : c ≠ EOK) (hm : c ∈ TS) : EV (failS c) (TPost sm) :=
  (EV.failS c).conseq (fun r es ⟨h1, h2⟩ => by subst h1; exact Or.inr (Or.inl ⟨hc, hm, h2⟩))

theorem tp_failClr {sm : Prop} (cfg : Cfg) (d m c : Nat) (hc : c ≠ EOK) (hm : c ∈ TS) : EV (failClr cfg d m c) (TPost sm) := by
  unfold failClr
  exact EV.bind (EV.handleError cfg d m c) (fun _ es he => by
    subst he; exact EV.pure _ (Or.inr (Or.inl ⟨hc, hm, by simp⟩)))

/-- `strcpy_s(dest, dmax, dest)` with usable arguments is the same-pointer shortcut -/
theorem strcpy_same (cfg : Cfg) (dest dmax : Nat) (db : Bos) (hd : dest ≠ 0) (hz : dmax ≠ 0)
    (hb : ∀ b, db = some b → dmax ≤ b) (hn : db = none → dmax ≤ RSIZE_MAX_STR) :
    strcpy_s cfg dest dmax dest db = pure EOK := by
  unfold strcpy_s strcpyG chkDmaxClear chkDmaxClearG
  rw [if_neg hd, if_neg hz]
  cases db with
  | none =>
    have := hn rfl
    simp only []
    rw [if_neg (by omega), if_neg hd]
    simp
  | some b =>
    have := hb b rfl
    simp only []
    rw [if_neg (by omega), if_neg hd]
    simp

theorem timeTail_ev (cfg : Cfg) (dest dmax : Nat) (db : Bos) (text : Nat) (lf : Bool) (hd : dest ≠ 0) (h26 : 26 ≤ dmax)
    (hb : ∀ b, db = some b → dmax ≤ b) (hn : db = none → dmax ≤ RSIZE_MAX_STR) :
    EV (timeTail cfg dest dmax db text lf) (TPost (dmax < 120)) := by
  have nospc : EV (do handlerS ESNOSPC; pure ESNOSPC : Prog Nat) (TPost (dmax < 120)) :=
    EV.bind (EV.handlerS _) (fun _ es he => by
      subst he; exact EV.pure _ (Or.inr (Or.inl ⟨ne_ESNOSPC, by decide, by simp⟩)))
  unfold timeTail
  dsimp only
  split
  · refine Quiet.then_ (by split; exact q_copyText _ _ _; quiet) (fun _ => ?_)
    refine Quiet.then_ (by split <;> quiet) (fun _ => ?_)
    exact EV.pure _ (Or.inl ⟨rfl, Or.inr rfl⟩)
  split
  · refine Quiet.then_ (q_copyText _ _ _) (fun _ => ?_)
    refine Quiet.then_ (q_strlenP _ _ _) (fun len => ?_)
    split
    · rw [strcpy_same cfg dest dmax db hd (by omega) hb hn]
      exact EV.pure _ (Or.inl ⟨rfl, Or.inl rfl⟩)
    · exact nospc
  · refine Quiet.then_ (q_strlenP _ _ _) (fun len => ?_)
    split
    · refine EV.bind (strcpy_s_ev_partial cfg dest dmax text none (fun b h => by cases h)) (fun c es h => ?_)
      rcases h with ⟨_, rfl⟩ | ⟨hc, rfl⟩
      · exact EV.pure _ (Or.inl ⟨rfl, Or.inl rfl⟩)
      · exact EV.pure _ (Or.inr (Or.inr ⟨by omega, rfl, c, hc, by simp⟩))
    · exact nospc

theorem timeEntry_ev {sm : Prop} (dest dmax : Nat) (db : Bos) {k : Prog Nat}
    (hk : dest ≠ 0 → 26 ≤ dmax → (∀ b, db = some b → dmax ≤ b) → (db = none → dmax ≤ RSIZE_MAX_STR) → EV k (TPost sm)) :
    EV (timeEntry dest dmax db k) (TPost sm) := by
  unfold timeEntry
  split
  · exact tp_failS _ ne_ESNULLP (by decide)
  split
  · refine Quiet.then_ (by split <;> quiet) (fun _ => ?_)
    exact tp_failS _ ne_ESLEMIN (by decide)
  split
  · split
    · exact tp_failS _ ne_ESLEMAX (by decide)
    · exact hk (by assumption) (by omega) (fun b h => by cases h) (fun _ => by omega)
  · rename_i b
    split
    · split
      · exact tp_failS _ ne_ESLEMAX (by decide)
      · exact tp_failS _ ne_EOVERFLOW (by decide)
    split
    · exact tp_failS _ ne_ESLEMIN (by decide)
    · exact hk (by assumption) (by omega) (fun b' h => by cases h; omega) (fun h => by cases h)

/-- asctime_s: all arguments, all memory contents -/
theorem asctime_s_ev (cfg : Cfg) (dest dmax tm : Nat) (db : Bos) (text : Nat) :
    EV (asctime_s cfg dest dmax tm db text) (TPost (dmax < 120)) := by
  unfold asctime_s
  refine timeEntry_ev _ _ _ (fun hd h26 hb hn => ?_)
  split
  · exact tp_failClr _ _ _ _ ne_ESNULLP (by decide)
  refine Quiet.then_ (q_anyField _ _) (fun s1 => ?_)
  refine Quiet.then_ (by split <;> quiet) (fun s2 => ?_)
  split
  · exact tp_failClr _ _ _ _ ne_ESLEMIN (by decide)
  refine Quiet.then_ (q_anyField _ _) (fun b1 => ?_)
  refine Quiet.then_ (by split <;> quiet) (fun b2 => ?_)
  split
  · exact tp_failClr _ _ _ _ ne_ESLEMAX (by decide)
  · exact timeTail_ev cfg dest dmax db text false hd h26 hb hn

/-- ctime_s: all arguments, all memory contents -/
theorem ctime_s_ev (cfg : Cfg) (dest dmax timer : Nat) (db : Bos) (text : Nat) (lf : Bool) :
    EV (ctime_s cfg dest dmax timer db text lf) (TPost (dmax < 120)) := by
  unfold ctime_s
  refine timeEntry_ev _ _ _ (fun hd h26 hb hn => ?_)
  split
  · exact tp_failClr _ _ _ _ ne_ESNULLP (by decide)
  refine Quiet.then_ (Quiet.loadP _) (fun t => ?_)
  dsimp only
  split
  · exact tp_failClr _ _ _ _ ne_ESLEMIN (by decide)
  refine Quiet.then_ (Quiet.loadP _) (fun t2 => ?_)
  split
  · exact tp_failClr _ _ _ _ ne_ESLEMAX (by decide)
  · exact timeTail_ev cfg dest dmax db text lf hd h26 hb hn

/-- what `TPost` means for runs -/
theorem TPost.run {sm : Prop} {p : Prog Nat} (h : EV p (TPost sm)) (st : St) {r : Nat} {st' : St} (he : exec p st = .ok (r, st')) :
    (st'.events = st.events ∧ (r = EOK ∨ r = NEG1)) ∨ (r ≠ EOK ∧ r ∈ TS ∧ st'.events = st.events ++ [.handler .str r]) ∨
    (sm ∧ r = EOK ∧ ∃ c, c ≠ EOK ∧ st'.events = st.events ++ [.handler .str c]) := by
  obtain ⟨es, h1, h2⟩ := h.sound st he
  rcases h2 with ⟨rfl, hr⟩ | ⟨hr, hm, rfl⟩ | ⟨hs, hr, c, hc, rfl⟩
  · exact Or.inl ⟨by simpa using h1, hr⟩
  · exact Or.inr (Or.inl ⟨hr, hm, h1⟩)
  · exact Or.inr (Or.inr ⟨hs, hr, c, hc, h1⟩)

/-- asctime_s with room for libc to write straight into dest (dmax >= 120): the C05 discipline outright, for all arguments,
memory contents and placements — nothing reported and EOK / -1, or one report carrying the returned code -/
theorem asctime_s_C05_direct (cfg : Cfg) (dest dmax tm : Nat) (db : Bos) (text : Nat) (h : 120 ≤ dmax) (st : St) (r : Nat) (st' : St)
    (he : exec (asctime_s cfg dest dmax tm db text) st = .ok (r, st')) :
    (st'.events = st.events ∧ (r = EOK ∨ r = NEG1)) ∨ (r ≠ EOK ∧ r ∈ TS ∧ st'.events = st.events ++ [.handler .str r]) := by
  rcases TPost.run (asctime_s_ev cfg dest dmax tm db text) st he with h1 | h1 | ⟨hs, _⟩
  · exact Or.inl h1
  · exact Or.inr h1
  · omega

theorem ctime_s_C05_direct (cfg : Cfg) (dest dmax timer : Nat) (db : Bos) (text : Nat) (lf : Bool) (h : 120 ≤ dmax) (st : St) (r : Nat) (st' : St)
    (he : exec (ctime_s cfg dest dmax timer db text lf) st = .ok (r, st')) :
    (st'.events = st.events ∧ (r = EOK ∨ r = NEG1)) ∨ (r ≠ EOK ∧ r ∈ TS ∧ st'.events = st.events ++ [.handler .str r]) := by
  rcases TPost.run (ctime_s_ev cfg dest dmax timer db text lf) st he with h1 | h1 | ⟨hs, _⟩
  · exact Or.inl h1
  · exact Or.inr h1
  · omega

/-- asctime_s: every returned code is on the current `@retval` list -/
theorem asctime_s_documented (cfg : Cfg) (dest dmax tm : Nat) (db : Bos) (text : Nat) :
    ReturnsDocumented "asctime_s" [] (asctime_s cfg dest dmax tm db text) id := by
  intro st r st' he
  have hsub : ∀ c ∈ EOK :: NEG1 :: TS, c ∈ docCodes "asctime_s" ++ [] := by decide
  rcases TPost.run (asctime_s_ev cfg dest dmax tm db text) st he with ⟨_, rfl | rfl⟩ | ⟨_, hm, _⟩ | ⟨_, rfl, _⟩
  · exact hsub _ (by simp)
  · exact hsub _ (by simp)
  · exact hsub _ (List.mem_cons_of_mem _ (List.mem_cons_of_mem _ hm))
  · exact hsub _ (by simp)

/-- ctime_s: every returned code is on the current `@retval` list -/
theorem ctime_s_documented (cfg : Cfg) (dest dmax timer : Nat) (db : Bos) (text : Nat) (lf : Bool) :
    ReturnsDocumented "ctime_s" [] (ctime_s cfg dest dmax timer db text lf) id := by
  intro st r st' he
  have hsub : ∀ c ∈ EOK :: NEG1 :: TS, c ∈ docCodes "ctime_s" ++ [] := by decide
  rcases TPost.run (ctime_s_ev cfg dest dmax timer db text lf) st he with ⟨_, rfl | rfl⟩ | ⟨_, hm, _⟩ | ⟨_, rfl, _⟩
  · exact hsub _ (by simp)
  · exact hsub _ (by simp)
  · exact hsub _ (List.mem_cons_of_mem _ (List.mem_cons_of_mem _ hm))
  · exact hsub _ (by simp)

/-! ## the copy out of libc's buffer (dmax < 120) on a terminated text disjoint from dest -/

theorem SrcStr.tail' {st : St} {s n : Nat} (h : SrcStr st s (n+1)) : SrcStr st (s+1) n := by
  refine ⟨fun j hj => ?_, ?_, fun j hj => ?_⟩
  · have := h.nz (j+1) (by omega); rwa [show s + (j+1) = s + 1 + j by omega] at this
  · have := h.nul; rwa [show s + (n+1) = s + 1 + n by omega] at this
  · have := h.rd (j+1) (by omega); rwa [show s + (j+1) = s + 1 + j by omega] at this

/-- `strlen` of a readable terminated string: its length, the state untouched -/
theorem exec_strlenP (st : St) (s n fuel acc : Nat) (hsrc : SrcStr st s n) (hf : n < fuel) :
    exec (strlenP fuel s acc) st = .ok (acc + n, st) := by
  induction n generalizing s fuel acc with
  | zero =>
    obtain ⟨f, rfl⟩ : ∃ f, fuel = f + 1 := ⟨fuel - 1, by omega⟩
    have hr := hsrc.rd 0 (by omega)
    have h0 := hsrc.nul
    simp only [Nat.add_zero] at hr h0
    unfold strlenP
    simp [exec_bind, exec_load_ok _ _ hr.1 hr.2, h0]
  | succ n ih =>
    obtain ⟨f, rfl⟩ : ∃ f, fuel = f + 1 := ⟨fuel - 1, by omega⟩
    have hr := hsrc.rd 0 (by omega)
    have h0 := hsrc.nz 0 (by omega)
    simp only [Nat.add_zero] at hr h0
    unfold strlenP
    simp only [exec_bind, exec_load_ok _ _ hr.1 hr.2, if_neg h0]
    rw [ih (s+1) f (acc+1) (SrcStr.tail' hsrc) (by omega)]
    congr 2; omega

/-- With libc's text a readable string of `n` characters (glibc: 25) in a buffer disjoint from dest, the tail for `dmax < 120`
copies it, terminates, nulls the slack and reports nothing (`n < dmax`), or reports ESNOSPC once and returns it (`dmax <= n`,
unreachable with glibc's 25 characters since `26 <= dmax`): never "EOK after a report", the third case of `TPost`. -/
theorem timeTail_small (cfg : Cfg) (dest dmax : Nat) (db : Bos) (text n : Nat) (st : St) (h120 : dmax < 120)
    (hd : dest ≠ 0) (ht : text ≠ 0) (hpos : 0 < dmax) (hrw : RW st dest dmax) (hsrc : SrcStr st text n) (hn : n < scanFuel)
    (hdisj : Disjoint dest dmax text n) :
    ∃ code st', exec (timeTail cfg dest dmax db text) st = .ok (code, st') ∧ st'.strays = st.strays ∧
      (∀ a, ¬ (dest ≤ a ∧ a < dest + dmax) → st'.data a = st.data a) ∧
      (n < dmax → code = EOK ∧ st'.events = st.events ∧
        (∀ i, i < n → st'.data (dest+i) = st.data (text+i)) ∧ st'.data (dest+n) = 0 ∧
        (cfg.slack = true → ∀ i, n ≤ i → i < dmax → st'.data (dest+i) = 0)) ∧
      (dmax ≤ n → code = ESNOSPC ∧ st'.events = st.events ++ [.handler .str ESNOSPC] ∧ st'.data = st.data) := by
  unfold timeTail
  dsimp only
  rw [if_neg (by simp [ht]), if_neg (by omega)]
  simp only [exec_bind, exec_strlenP st text n scanFuel 0 hsrc hn, Nat.zero_add]
  by_cases hlt : n < dmax
  · rw [if_pos hlt]
    obtain ⟨code, st', he, _, _, _, hst, hout, hok, _⟩ :=
      strcpyG_disjoint RSIZE_MAX_STR cfg dest dmax text n st hd ht hpos (by simp [RSIZE_MAX_STR]; omega) hrw hsrc hdisj
    obtain ⟨hc, hev, hcp, hnul, hsl⟩ := hok hlt
    refine ⟨EOK, st', ?_, hst, hout, fun _ => ⟨rfl, hev, hcp, hnul, hsl⟩, fun h => by omega⟩
    have he' : exec (strcpy_s cfg dest dmax text none) st = .ok (code, st') := he
    simp only [exec_bind, he']
    rfl
  · rw [if_neg hlt]
    refine ⟨ESNOSPC, { st with events := st.events ++ [.handler .str ESNOSPC] }, ?_, rfl, fun _ _ => rfl, fun h => by omega,
      fun _ => ⟨rfl, rfl, rfl⟩⟩
    simp [exec_bind, handlerS]

/-- the hypotheses are satisfiable: a 3-character text at 200, dest 26 cells at 100 -/
example : ∃ st : St, RW st 100 26 ∧ SrcStr st 200 3 ∧ Disjoint 100 26 200 3 :=
  ⟨{ data := fun a => if 200 ≤ a ∧ a < 203 then 65 else 0, mapped := fun _ => true, rd := fun _ => true, wr := fun _ => true },
   fun i _ => ⟨rfl, rfl, rfl⟩,
   ⟨fun j hj => by simp; omega, by simp, fun j _ => ⟨rfl, rfl⟩⟩, Or.inl (by omega)⟩

/-! ## gets_s -/

theorem q_fgetsLoop (k inp l d acc : Nat) : Quiet (fgetsLoop k inp l d acc) := by
  induction k generalizing inp l d acc with
  | zero => unfold fgetsLoop; quiet
  | succ k ih =>
    cases l with
    | zero => unfold fgetsLoop; quiet
    | succ l => unfold fgetsLoop; quiet using ih _ _ _ _

theorem q_strnlenP (n s acc : Nat) : Quiet (strnlenP n s acc) := by
  induction n generalizing s acc with
  | zero => unfold strnlenP; quiet
  | succ n ih => unfold strnlenP; quiet using ih _ _

/-- outcome of gets_s: nothing reported and `dest` returned (EOK) or NULL at end of file (-1), or exactly one report of a code
of `[ESNULLP, ESZEROL, ESLEMAX, EOVERFLOW, ESNOSPC]` which is also what `errno` is set to; 21 (EISDIR) is libc's errno of the
read-error stream the harness uses -/
def GPost : Nat → List Event → Prop := fun r es =>
  (es = [] ∧ (r = EOK ∨ r = NEG1 ∨ r = 21)) ∨ (r ≠ EOK ∧ r ∈ [ESNULLP, ESZEROL, ESLEMAX, EOVERFLOW, ESNOSPC] ∧ es = [.handler .str r])

theorem gp_failS (c : Nat) (hc : c ≠ EOK) (hm : c ∈ [ESNULLP, ESZEROL, ESLEMAX, EOVERFLOW, ESNOSPC]) : EV (failS c) GPost :=
  (EV.failS c).conseq (fun r es ⟨h1, h2⟩ => by subst h1; exact Or.inr ⟨hc, hm, h2⟩)

theorem getsBody_ev (cfg : Cfg) (dest dmax inp len : Nat) : EV (getsBody cfg dest dmax inp len) GPost := by
  unfold getsBody
  split
  · refine Quiet.then_ (Quiet.storeP _ _) (fun _ => ?_)
    exact EV.pure _ (Or.inl ⟨rfl, Or.inr (Or.inr rfl)⟩)
  refine Quiet.then_ (q_fgetsLoop _ _ _ _ _) (fun r => ?_)
  obtain ⟨m, eof⟩ := r
  dsimp only
  have done_ : ∀ k, EV (do
      (if cfg.slack = true ∧ k < dmax then memsetP 0 (dmax - k) (dest + k) else pure ())
      pure EOK : Prog Nat) GPost := by
    intro k
    refine Quiet.then_ (by split <;> quiet) (fun _ => ?_)
    exact EV.pure _ (Or.inl ⟨rfl, Or.inl rfl⟩)
  split
  · refine Quiet.then_ (Quiet.storeP _ _) (fun _ => ?_)
    exact EV.pure _ (Or.inl ⟨rfl, Or.inr (Or.inl rfl)⟩)
  refine Quiet.then_ (Quiet.storeP _ _) (fun _ => ?_)
  refine Quiet.then_ (q_strnlenP _ _ _) (fun n => ?_)
  refine Quiet.then_ (by split <;> quiet) (fun last => ?_)
  split
  · exact Quiet.then_ (Quiet.storeP _ _) (fun _ => done_ _)
  split
  · split
    · split
      · split
        · exact EV.pure _ (Or.inl ⟨rfl, Or.inr (Or.inr rfl)⟩)
        · exact EV.pure _ (Or.inl ⟨rfl, Or.inr (Or.inl rfl)⟩)
      · exact done_ _
    · refine Quiet.then_ (Quiet.loadP _) (fun c => ?_)
      split
      · exact done_ _
      · refine EV.bind (EV.handleError cfg dest dmax ESNOSPC) (fun _ es he => ?_)
        subst he
        refine EV.bind (Q := fun _ es => es = []) ?_ (fun _ es he => ?_)
        · split
          · exact (EV.memsetP 0 dmax dest).conseq (fun _ _ h => h.1)
          · exact EV.pure _ rfl
        · subst he
          exact EV.pure _ (Or.inr ⟨ne_ESNOSPC, by decide, by simp⟩)
  · exact done_ _

/-- gets_s: all arguments, EVERY stream -/
theorem gets_s_ev (cfg : Cfg) (dest dmax : Nat) (db : Bos) (inp len : Nat) : EV (gets_s cfg dest dmax db inp len) GPost := by
  unfold gets_s
  split
  · exact gp_failS _ ne_ESNULLP (by decide)
  split
  · exact gp_failS _ ne_ESZEROL (by decide)
  split
  · split
    · exact gp_failS _ ne_ESLEMAX (by decide)
    · exact getsBody_ev ..
  · split
    · split
      · exact gp_failS _ ne_ESLEMAX (by decide)
      · exact gp_failS _ ne_EOVERFLOW (by decide)
    · exact getsBody_ev ..

/-- the C05 discipline of gets_s for runs: for all arguments and every stream, a returning call has reported nothing and returned
dest (EOK) or NULL at end of file (-1), or has reported exactly once, the code it leaves in `errno` -/
theorem gets_s_C05 (cfg : Cfg) (dest dmax : Nat) (db : Bos) (inp len : Nat) (st : St) (r : Nat) (st' : St)
    (he : exec (gets_s cfg dest dmax db inp len) st = .ok (r, st')) :
    (st'.events = st.events ∧ (r = EOK ∨ r = NEG1 ∨ r = 21)) ∨
    (r ≠ EOK ∧ r ∈ [ESNULLP, ESZEROL, ESLEMAX, EOVERFLOW, ESNOSPC] ∧ st'.events = st.events ++ [.handler .str r]) := by
  obtain ⟨es, h1, h2⟩ := (gets_s_ev cfg dest dmax db inp len).sound st he
  rcases h2 with ⟨rfl, hr⟩ | ⟨hr, hm, rfl⟩
  · exact Or.inl ⟨by simpa using h1, hr⟩
  · exact Or.inr ⟨hr, hm, h1⟩

/-- gets_s: the code left in `errno` is on the current `@retval errno=` list of the doc comment (EOK / -1 stand for the two
pointer results that set no code, 21 for libc's errno of a failed read) -/
theorem gets_s_documented (cfg : Cfg) (dest dmax : Nat) (db : Bos) (inp len : Nat) :
    ReturnsDocumented "gets_s" [EOK, NEG1, 21] (gets_s cfg dest dmax db inp len) id := by
  intro st r st' he
  have hsub : ∀ c ∈ [ESNULLP, ESZEROL, ESLEMAX, EOVERFLOW, ESNOSPC], c ∈ docCodes "gets_s" ++ [EOK, NEG1, 21] := by decide
  rcases gets_s_C05 cfg dest dmax db inp len st r st' he with ⟨_, rfl | rfl | rfl⟩ | ⟨_, hm, _⟩
  · simp
  · simp
  · simp
  · exact hsub _ hm

/-! ## gmtime_s / localtime_s -/

theorem q_copyTm (k i res dest : Nat) : Quiet (copyTm k i res dest) := by
  induction k generalizing i with
  | zero => unfold copyTm; quiet
  | succ k ih =>
    unfold copyTm
    refine Quiet.bind (Quiet.loadP _) (fun v => ?_)
    refine Quiet.bind (by split <;> quiet) (fun _ => ih _)

/-- outcome of gmtime_s / localtime_s (result: EOK = dest returned, otherwise `errno`): silent success or libc failure; a null
pointer reported and returned as ESNULLP; an out-of-range `*timer` reported ONCE — as ESLEMIN / ESLEMAX — and returned as
EOVERFLOW (known finding `tmconv-handler-code-differs-from-errno`: the handler is not passed the code the caller gets) -/
def TmPost : Nat → List Event → Prop := fun r es =>
  (es = [] ∧ (r = EOK ∨ r = NEG1)) ∨ (r = ESNULLP ∧ es = [.handler .str ESNULLP]) ∨
  (r = EOVERFLOW ∧ (es = [.handler .str ESLEMIN] ∨ es = [.handler .str ESLEMAX]))

theorem tmConv_ev (timer dest res : Nat) : EV (tmConv timer dest res) TmPost := by
  unfold tmConv
  have nul : EV (failS ESNULLP) TmPost :=
    (EV.failS _).conseq (fun r es ⟨h1, h2⟩ => Or.inr (Or.inl ⟨h1, h2⟩))
  split
  · exact nul
  split
  · exact nul
  refine Quiet.then_ (Quiet.loadP _) (fun t => ?_)
  split
  · exact EV.bind (EV.handlerS _) (fun _ es he => by subst he; exact EV.pure _ (Or.inr (Or.inr ⟨rfl, Or.inl (by simp)⟩)))
  refine Quiet.then_ (Quiet.loadP _) (fun t2 => ?_)
  split
  · exact EV.bind (EV.handlerS _) (fun _ es he => by subst he; exact EV.pure _ (Or.inr (Or.inr ⟨rfl, Or.inr (by simp)⟩)))
  split
  · exact EV.pure _ (Or.inl ⟨rfl, Or.inr rfl⟩)
  · exact Quiet.then_ (q_copyTm _ _ _ _) (fun _ => EV.pure _ (Or.inl ⟨rfl, Or.inl rfl⟩))

/- FULL C05 statement (FALSE of the code, see `tmConv_C05_witness`): every returning call reported nothing and returned dest / NULL
   with errno 0, or reported exactly once the code it leaves in errno. -/
/-- what holds for all arguments and contents: never two reports, never a silent error code, never a report followed by success;
the one reported code is the returned one except for an out-of-range timer -/
theorem tmConv_C05_partial (timer dest res : Nat) (st : St) (r : Nat) (st' : St) (he : exec (tmConv timer dest res) st = .ok (r, st')) :
    (st'.events = st.events ∧ (r = EOK ∨ r = NEG1)) ∨
    (r = ESNULLP ∧ st'.events = st.events ++ [.handler .str ESNULLP]) ∨
    (r = EOVERFLOW ∧ (st'.events = st.events ++ [.handler .str ESLEMIN] ∨ st'.events = st.events ++ [.handler .str ESLEMAX])) := by
  obtain ⟨es, h1, h2⟩ := (tmConv_ev timer dest res).sound st he
  rcases h2 with ⟨rfl, hr⟩ | ⟨hr, rfl⟩ | ⟨hr, rfl | rfl⟩
  · exact Or.inl ⟨by simpa using h1, hr⟩
  · exact Or.inr (Or.inl ⟨hr, h1⟩)
  · exact Or.inr (Or.inr ⟨hr, Or.inl h1⟩)
  · exact Or.inr (Or.inr ⟨hr, Or.inr h1⟩)

/-- the excluded point: `*timer = -1` (cell value 2^64 - 1) is reported as ESLEMIN and returned as EOVERFLOW -/
theorem tmConv_C05_witness :
    ∃ st', exec (gmtime_s 8 100 200) { data := fun a => if a = 8 then 2^64 - 1 else 0, mapped := fun _ => true, rd := fun _ => true,
                                       wr := fun _ => true } = .ok (EOVERFLOW, st') ∧
      st'.events = [.handler .str ESLEMIN] ∧ ESLEMIN ≠ EOVERFLOW := by
  refine ⟨_, rfl, rfl, by decide⟩

end SafeC.Props.C05Time

import SafeC.Props.C01
import SafeC.Proofs.ExtStp
import SafeC.Proofs.ExtFld
import SafeC.Proofs.ExtOs
/-! # C04 (extension): generic string families — a failed call leaves no partial result in dest

One section per family (the sections were proved separately; each has its own module comment):
* `PartCopy` — wide twins and stp pair
* `PartFld` — field copies
* `PartOs` — getenv_s / strerror_s
-/
namespace SafeC.Props.C04Ext

section PartCopy
open SafeC Gen SafeC.Props.C01
/-!
# C04 (extension) — a failed call leaves no partial result in dest: the wide twins and the stp pair

Setting as in `Props/C04.lean` (every cell mapped and readable, ARBITRARY contents and placement, dest's
`dmax` cells writable, both builds).  For a usable dest, after ANY non-EOK return:
* `dest[0] = 0`;
* in the null-slack build all `dmax` cells are zero when the failure was met after copying began
  (ESNOSPC, ESOVRLP, ESUNTERM = dest unterminated) or the source is null (ESNULLP with dest non-null);
* every cell outside `dest[0..dmax)` — in particular a source that does not overlap dest — is unchanged
  (this conjunct holds for success as well: it is the C01 statement).
Without null-slack the cells behind `dest[0]` keep what was copied (`noslack-partial`, recorded): as in
`Props/C04.lean` the second conjunct is stated for `cfg.slack = true` only.

The `*_frame` theorems are the C01 statement for ALL arguments (null / zero / oversize dest and dmax
included, no usability hypothesis): no stray access and nothing outside the declared dest changes.

`stpcpy_s` with a KNOWN source size: the `src unterminated` exit (ESUNTERM) clears nothing — the FULL
statement is false there (`stpcpy_s_C04_witness`); `stpcpy_s_C04_partial` excludes that code.
-/

/-- the C04 conclusion for an errno-returning producer -/
def Cleared (cfg : Cfg) (dest dmax : Nat) (st st' : St) (code : Nat) : Prop :=
  (code ≠ EOK → st'.data dest = 0) ∧
  (code = ESNOSPC ∨ code = ESOVRLP ∨ code = ESUNTERM ∨ code = ESNULLP → cfg.slack = true →
    ∀ i, i < dmax → st'.data (dest + i) = 0) ∧
  (∀ a, ¬ (dest ≤ a ∧ a < dest + dmax) → st'.data a = st.data a)

private theorem holds_of_frame {α} {p : Prog α} {r : α} {dest dmax : Nat} {st st' : St} (hs : Setting st)
    (he : exec p st = .ok (r, st')) (hf : FramePost dest dmax st st') : Holds st st' := by
  have hstr : st'.strays = [] := by rw [hf.strays, hs.clean]
  exact ⟨by simp [hstr], exec_frame_clean _ st he hs.clean hstr⟩

/-- wcsncpy_s: every failing exit on a usable dest (object sizes known or unknown) -/
theorem wcsncpy_s_C04 (cfg : Cfg) (dest dmax src slen : Nat) (destbos srcbos : Bos) (st : St) (hs : Setting st)
    (hrw : RW st dest dmax) (hd : dest ≠ 0) (hpos : 0 < dmax) (hle : dmax ≤ RSIZE_MAX_WSTR)
    (hb : ∀ b, destbos = some b → dmax * SIZEOF_WCHAR_T ≤ b) :
    ∃ code st', exec (wcsncpy_s cfg dest dmax src slen destbos srcbos) st = .ok (code, st') ∧
      Cleared cfg dest dmax st st' code := by
  obtain ⟨code, st', he, hf, hq⟩ := wcsncpy_s_ext cfg dest dmax src slen destbos srcbos st hs.all (fun _ => hrw)
  have h := (hq ⟨hd, hpos, hle, hb⟩).1
  exact ⟨code, st', he, h.fail_first, h.fail_clear, hf.frame⟩

/-- wcscat_s: every failing exit on a usable dest -/
theorem wcscat_s_C04 (cfg : Cfg) (dest dmax src : Nat) (destbos : Bos) (st : St) (hs : Setting st)
    (hrw : RW st dest dmax) (hd : dest ≠ 0) (hpos : 0 < dmax) (hle : dmax ≤ RSIZE_MAX_WSTR)
    (hb : ∀ b, destbos = some b → dmax * SIZEOF_WCHAR_T ≤ b) :
    ∃ code st', exec (wcscat_s cfg dest dmax src destbos) st = .ok (code, st') ∧
      Cleared cfg dest dmax st st' code := by
  obtain ⟨code, st', he, hf, hq⟩ := wcscat_s_ext cfg dest dmax src destbos st hs.all (fun _ => hrw)
  have h := (hq ⟨hd, hpos, hle, hb⟩).1
  exact ⟨code, st', he, h.fail_first, h.fail_clear, hf.frame⟩

/-- wcsncat_s: every failing exit on a usable dest (any slen, incl. 0) -/
theorem wcsncat_s_C04 (cfg : Cfg) (dest dmax src slen : Nat) (destbos srcbos : Bos) (st : St) (hs : Setting st)
    (hrw : RW st dest dmax) (hd : dest ≠ 0) (hpos : 0 < dmax) (hle : dmax ≤ RSIZE_MAX_WSTR)
    (hb : ∀ b, destbos = some b → dmax * SIZEOF_WCHAR_T ≤ b) :
    ∃ code st', exec (wcsncat_s cfg dest dmax src slen destbos srcbos) st = .ok (code, st') ∧
      Cleared cfg dest dmax st st' code := by
  obtain ⟨code, st', he, hf, hq⟩ := wcsncat_s_ext cfg dest dmax src slen destbos srcbos st hs.all (fun _ => hrw)
  have h := (hq ⟨hd, hpos, hle, hb⟩).1
  exact ⟨code, st', he, h.fail_first, h.fail_clear, hf.frame⟩

/-- wcsncpy_s, ALL arguments: no stray access, nothing outside the declared dest changes (C01 statement) -/
theorem wcsncpy_s_frame (cfg : Cfg) (dest dmax src slen : Nat) (destbos srcbos : Bos) (st : St) (hs : Setting st)
    (hrw : dest ≠ 0 → RW st dest dmax) :
    ∃ code st', exec (wcsncpy_s cfg dest dmax src slen destbos srcbos) st = .ok (code, st') ∧ Holds st st' := by
  obtain ⟨code, st', he, hf, _⟩ := wcsncpy_s_ext cfg dest dmax src slen destbos srcbos st hs.all hrw
  exact ⟨code, st', he, holds_of_frame hs he hf⟩

/-- wcscat_s, ALL arguments, object size known or not (C01 statement) -/
theorem wcscat_s_frame (cfg : Cfg) (dest dmax src : Nat) (destbos : Bos) (st : St) (hs : Setting st)
    (hrw : dest ≠ 0 → RW st dest dmax) :
    ∃ code st', exec (wcscat_s cfg dest dmax src destbos) st = .ok (code, st') ∧ Holds st st' := by
  obtain ⟨code, st', he, hf, _⟩ := wcscat_s_ext cfg dest dmax src destbos st hs.all hrw
  exact ⟨code, st', he, holds_of_frame hs he hf⟩

/-- wcsncat_s, ALL arguments (C01 statement) -/
theorem wcsncat_s_frame (cfg : Cfg) (dest dmax src slen : Nat) (destbos srcbos : Bos) (st : St) (hs : Setting st)
    (hrw : dest ≠ 0 → RW st dest dmax) :
    ∃ code st', exec (wcsncat_s cfg dest dmax src slen destbos srcbos) st = .ok (code, st') ∧ Holds st st' := by
  obtain ⟨code, st', he, hf, _⟩ := wcsncat_s_ext cfg dest dmax src slen destbos srcbos st hs.all hrw
  exact ⟨code, st', he, holds_of_frame hs he hf⟩

/-! ## the stp pair: `r = (returned pointer, *errp)` -/

/-- stpcpy_s, source size unknown: every failing exit returns NULL, leaves `dest[0] = 0`, with
null-slack all dmax cells zero after ESNOSPC / ESOVRLP / null src; nothing outside dest changes -/
theorem stpcpy_s_C04 (cfg : Cfg) (dest dmax src : Nat) (destbos : Bos) (st : St) (hs : Setting st)
    (hrw : RW st dest dmax) (hd : dest ≠ 0) (hpos : 0 < dmax) (hle : dmax ≤ RSIZE_MAX_STR)
    (hb : ∀ b, destbos = some b → dmax ≤ b) :
    ∃ r st', exec (stpcpy_s cfg dest dmax src destbos none) st = .ok (r, st') ∧
      (r.2 ≠ EOK → r.1 = 0) ∧ Cleared cfg dest dmax st st' r.2 := by
  obtain ⟨r, st', he, hf, hq⟩ := stpcpy_s_ext cfg dest dmax src destbos none st hs.all (fun _ => hrw) hb
  obtain ⟨h1, h2⟩ := hq ⟨hd, hpos, hle⟩
  have h := h1.post (Or.inl (fun h => h2 h rfl))
  exact ⟨r, st', he, h1.fail_ptr, h.fail_first, h.fail_clear, hf.frame⟩

/- FULL statement for a known source size (FALSE of the code, see `stpcpy_s_C04_witness`): the same
   with `srcbos` arbitrary. -/
/-- stpcpy_s, any knowledge of the source size: as `stpcpy_s_C04` for every code but ESUNTERM -/
theorem stpcpy_s_C04_partial (cfg : Cfg) (dest dmax src : Nat) (destbos srcbos : Bos) (st : St) (hs : Setting st)
    (hrw : RW st dest dmax) (hd : dest ≠ 0) (hpos : 0 < dmax) (hle : dmax ≤ RSIZE_MAX_STR)
    (hb : ∀ b, destbos = some b → dmax ≤ b) :
    ∃ r st', exec (stpcpy_s cfg dest dmax src destbos srcbos) st = .ok (r, st') ∧
      (r.2 ≠ EOK → r.1 = 0) ∧
      (r.2 ≠ ESUNTERM → Cleared cfg dest dmax st st' r.2) ∧
      (∀ a, ¬ (dest ≤ a ∧ a < dest + dmax) → st'.data a = st.data a) := by
  obtain ⟨r, st', he, hf, hq⟩ := stpcpy_s_ext cfg dest dmax src destbos srcbos st hs.all (fun _ => hrw) hb
  obtain ⟨h1, _⟩ := hq ⟨hd, hpos, hle⟩
  exact ⟨r, st', he, h1.fail_ptr, fun hne => ⟨(h1.post (Or.inl hne)).fail_first, (h1.post (Or.inl hne)).fail_clear, hf.frame⟩, hf.frame⟩

/-- The FULL statement, true of the current tree (e5bca6e): stpcpy_s with ANY knowledge of the source size — every failing exit
returns NULL, leaves `dest[0] = 0`, with null-slack all dmax cells zero after ESNOSPC / ESOVRLP / ESUNTERM / null src -/
theorem stpcpy_s_C04_fixed (cfg : Cfg) (hfx : cfg.fixStpUnterm = true) (dest dmax src : Nat) (destbos srcbos : Bos) (st : St)
    (hs : Setting st) (hrw : RW st dest dmax) (hd : dest ≠ 0) (hpos : 0 < dmax) (hle : dmax ≤ RSIZE_MAX_STR)
    (hb : ∀ b, destbos = some b → dmax ≤ b) :
    ∃ r st', exec (stpcpy_s cfg dest dmax src destbos srcbos) st = .ok (r, st') ∧
      (r.2 ≠ EOK → r.1 = 0) ∧ Cleared cfg dest dmax st st' r.2 := by
  obtain ⟨r, st', he, hf, hq⟩ := stpcpy_s_ext cfg dest dmax src destbos srcbos st hs.all (fun _ => hrw) hb
  obtain ⟨h1, _⟩ := hq ⟨hd, hpos, hle⟩
  have h := h1.post (Or.inr hfx)
  exact ⟨r, st', he, h1.fail_ptr, h.fail_first, h.fail_clear, hf.frame⟩

/-- dest = 3 cells holding 1 at 100, src = "ab" at 200 -/
def wStp : St :=
  { data := fun a => if a = 200 then 97 else if a = 201 then 98 else if 100 ≤ a ∧ a < 103 then 1 else 0
    mapped := fun _ => true, rd := fun _ => true
    wr := fun a => decide (100 ≤ a ∧ a < 103) }

/-- the excluded point BEFORE e5bca6e (switch off): `stpcpy_s(d, 3, "ab")` with `BOS(src) = 1`, default build: ESUNTERM, and
`dest[0]` holds the copied 'a' (a partial result of the failed call) -/
theorem stpcpy_s_C04_witness :
    ∃ st', exec (stpcpy_s { slack := true, fixStpUnterm := false } 100 3 200 none (some 1)) wStp = .ok ((0, ESUNTERM), st') ∧
      st'.data 100 = 97 := by
  refine ⟨_, rfl, ?_⟩
  simp [wStp, St.upd, St.noteWr, St.noteRd]

/-- stpncpy_s, source size unknown or containing slen: every failing exit -/
theorem stpncpy_s_C04 (cfg : Cfg) (dest dmax src slen : Nat) (destbos srcbos : Bos) (st : St) (hs : Setting st)
    (hrw : RW st dest dmax) (hd : dest ≠ 0) (hpos : 0 < dmax) (hle : dmax ≤ RSIZE_MAX_STR)
    (hb : ∀ b, destbos = some b → dmax ≤ b) (hsb : ∀ sb, srcbos = some sb → slen ≤ sb) :
    ∃ r st', exec (stpncpy_s cfg dest dmax src slen destbos srcbos) st = .ok (r, st') ∧
      (r.2 ≠ EOK → r.1 = 0) ∧ Cleared cfg dest dmax st st' r.2 := by
  obtain ⟨r, st', he, hf, hq⟩ := stpncpy_s_ext cfg dest dmax src slen destbos srcbos st hs.all (fun _ => hrw) hb hsb
  obtain ⟨h1, h2⟩ := hq ⟨hd, hpos, hle⟩
  have h := h1.post (Or.inl h2)
  exact ⟨r, st', he, h1.fail_ptr, h.fail_first, h.fail_clear, hf.frame⟩

/-- stpcpy_s, ALL dest/dmax/src (dmax inside a known object): no stray access, nothing outside dest changes -/
theorem stpcpy_s_frame (cfg : Cfg) (dest dmax src : Nat) (destbos srcbos : Bos) (st : St) (hs : Setting st)
    (hrw : dest ≠ 0 → RW st dest dmax) (hb : ∀ b, destbos = some b → dmax ≤ b) :
    ∃ r st', exec (stpcpy_s cfg dest dmax src destbos srcbos) st = .ok (r, st') ∧ Holds st st' := by
  obtain ⟨r, st', he, hf, _⟩ := stpcpy_s_ext cfg dest dmax src destbos srcbos st hs.all hrw hb
  exact ⟨r, st', he, holds_of_frame hs he hf⟩

/-- stpncpy_s, ALL dest/dmax/src/slen (dmax, slen inside known objects): C01 statement -/
theorem stpncpy_s_frame (cfg : Cfg) (dest dmax src slen : Nat) (destbos srcbos : Bos) (st : St) (hs : Setting st)
    (hrw : dest ≠ 0 → RW st dest dmax) (hb : ∀ b, destbos = some b → dmax ≤ b)
    (hsb : ∀ sb, srcbos = some sb → slen ≤ sb) :
    ∃ r st', exec (stpncpy_s cfg dest dmax src slen destbos srcbos) st = .ok (r, st') ∧ Holds st st' := by
  obtain ⟨r, st', he, hf, _⟩ := stpncpy_s_ext cfg dest dmax src slen destbos srcbos st hs.all hrw hb hsb
  exact ⟨r, st', he, holds_of_frame hs he hf⟩

/-- non-vacuity: dest = 5 writable cells at 100, object sizes 20 bytes (wide) / 5 (narrow), slen 2 in a source object of 3 -/
example : Setting exSt ∧ RW exSt 100 5 ∧ (100 : Nat) ≠ 0 ∧ 0 < 5 ∧ 5 ≤ RSIZE_MAX_WSTR ∧ 5 ≤ RSIZE_MAX_STR ∧
    (∀ b, (some 20 : Bos) = some b → 5 * SIZEOF_WCHAR_T ≤ b) ∧ (∀ b, (some 5 : Bos) = some b → 5 ≤ b) ∧
    (∀ sb, (some 3 : Bos) = some sb → 2 ≤ sb) := by
  refine ⟨⟨fun _ => ⟨rfl, rfl⟩, rfl⟩, fun i hi => ⟨rfl, ?_, rfl⟩, by decide, by decide, by decide, by decide, ?_, ?_, ?_⟩
  · simp [exSt]; omega
  · intro b h; injection h with h; subst h; decide
  · intro b h; injection h with h; subst h; decide
  · intro b h; injection h with h; subst h; decide

end PartCopy

section PartFld
open SafeC Gen
/-!
# C04 for the field copies: a failed call leaves no partial result in dest

Setting: every cell mapped and readable with ARBITRARY contents, the `dmax` cells of dest writable,
`dest ≠ 0`, `0 < dmax ≤ RSIZE_MAX_STR`, `slen ≠ 0`, object size unknown or known and at least `dmax`;
ANY `src` (null, overlapping in any way), both slack configurations.

* headline (`…_C04`): on every non-EOK return `dest[0] = 0`, exactly one handler event carrying the returned
  code, no stray access, nothing outside `dest[0..dmax)` changed (a source that does not overlap dest is
  unmodified); on ESNULLP and ESOVRLP with null-slack all `dmax` cells are zero; which code is returned when.
* `…_C04_srcnull`: the `src == NULL` exit exactly.
* `…_C04_nospc`: the `slen > dmax` exit exactly — it is taken BEFORE anything is copied and clears only the
  `len = strnlen_s(dest, dmax)` cells of the string that WAS in dest (with null-slack; `dest[0]` only without):
  cells behind the old NUL keep their OLD contents (`strcpyfld_s_C04_nospc_witness`), which is prior data of
  dest, not a partial result of the failed call.
* Without null-slack the ESOVRLP exit leaves the characters copied before the bumper was met in
  `dest[1..)` (class `noslack-partial` of known_findings.jsonl): only `dest[0] = 0` is claimed there.
-/

/-- the headline conclusion -/
structure FldHolds (cfg : Cfg) (dest dmax src slen : Nat) (st st' : St) (code : Nat) : Prop where
  strays : st'.strays = st.strays
  frame : ∀ a, ¬ (dest ≤ a ∧ a < dest + dmax) → st'.data a = st.data a
  ok_events : code = EOK → st'.events = st.events
  fail_events : code ≠ EOK → st'.events = st.events ++ [.handler .str code]
  fail_first : code ≠ EOK → st'.data dest = 0
  fail_clear : code = ESNULLP ∨ code = ESOVRLP → cfg.slack = true → ∀ i, i < dmax → st'.data (dest + i) = 0
  srcnull : src = 0 → code = ESNULLP
  nospc : src ≠ 0 → dmax < slen → code = (if slen > RSIZE_MAX_STR then ESLEMAX else ESNOSPC)
  fits : src ≠ 0 → slen ≤ dmax → code = EOK ∨ code = ESOVRLP

private theorem fldG_C04 (kind : FldKind) (cfg : Cfg) (dest dmax src slen : Nat) (destbos : Bos) (st : St)
    (hall : ∀ a, st.mapped a = true ∧ st.rd a = true) (hrw : RW st dest dmax)
    (hd : dest ≠ 0) (hpos : 0 < dmax) (hle : dmax ≤ RSIZE_MAX_STR) (hbos : ∀ b, destbos = some b → dmax ≤ b)
    (hsl : slen ≠ 0) :
    ∃ code st', exec (fldG kind cfg dest dmax src slen destbos) st = .ok (code, st') ∧
      FldHolds cfg dest dmax src slen st st' code := by
  rw [fldG_entry _ cfg dest dmax src slen destbos hsl hd hpos hle hbos]
  obtain ⟨code, st', he, hp⟩ := fldBody_safe kind cfg dest dmax src slen st hall hrw hd hpos hle
  exact ⟨code, st', he, hp.safe.strays, hp.safe.frame, hp.safe.ok_events, hp.safe.fail_events, hp.fail_first,
    hp.fail_clear, hp.srcnull, hp.nospc, hp.fits⟩

/-- strcpyfld_s, C04 headline: any src (null, overlapping), any contents, both slack configurations, slen ≠ 0.
On every non-EOK return dest[0] = 0 with exactly one handler event carrying the returned code; no stray access;
nothing outside dest[0..dmax) changes; with null-slack ESNULLP/ESOVRLP leave all dmax cells zero; src = 0 gives
ESNULLP, slen > dmax gives ESNOSPC (ESLEMAX above RSIZE_MAX_STR), otherwise EOK or ESOVRLP. -/
theorem strcpyfld_s_C04 (cfg : Cfg) (dest dmax src slen : Nat) (destbos : Bos) (st : St)
    (hall : ∀ a, st.mapped a = true ∧ st.rd a = true) (hrw : RW st dest dmax)
    (hd : dest ≠ 0) (hpos : 0 < dmax) (hle : dmax ≤ RSIZE_MAX_STR) (hbos : ∀ b, destbos = some b → dmax ≤ b)
    (hsl : slen ≠ 0) :
    ∃ code st', exec (strcpyfld_s cfg dest dmax src slen destbos) st = .ok (code, st') ∧
      FldHolds cfg dest dmax src slen st st' code :=
  fldG_C04 .fld cfg dest dmax src slen destbos st hall hrw hd hpos hle hbos hsl

/-- strcpyfldin_s, C04 headline: any src (null, overlapping, unterminated), any contents, both slack
configurations, slen ≠ 0.  On every non-EOK return dest[0] = 0 with exactly one handler event carrying the
returned code; no stray access; nothing outside dest[0..dmax) changes; with null-slack ESNULLP/ESOVRLP leave all
dmax cells zero; which code is returned when. -/
theorem strcpyfldin_s_C04 (cfg : Cfg) (dest dmax src slen : Nat) (destbos : Bos) (st : St)
    (hall : ∀ a, st.mapped a = true ∧ st.rd a = true) (hrw : RW st dest dmax)
    (hd : dest ≠ 0) (hpos : 0 < dmax) (hle : dmax ≤ RSIZE_MAX_STR) (hbos : ∀ b, destbos = some b → dmax ≤ b)
    (hsl : slen ≠ 0) :
    ∃ code st', exec (strcpyfldin_s cfg dest dmax src slen destbos) st = .ok (code, st') ∧
      FldHolds cfg dest dmax src slen st st' code :=
  fldG_C04 .fldin cfg dest dmax src slen destbos st hall hrw hd hpos hle hbos hsl

/-- strcpyfldout_s, C04 headline: any src (null, overlapping), any contents, both slack configurations,
slen ≠ 0.  On every non-EOK return dest[0] = 0 with exactly one handler event carrying the returned code; no
stray access; nothing outside dest[0..dmax) changes; with null-slack ESNULLP/ESOVRLP leave all dmax cells zero;
which code is returned when. -/
theorem strcpyfldout_s_C04 (cfg : Cfg) (dest dmax src slen : Nat) (destbos : Bos) (st : St)
    (hall : ∀ a, st.mapped a = true ∧ st.rd a = true) (hrw : RW st dest dmax)
    (hd : dest ≠ 0) (hpos : 0 < dmax) (hle : dmax ≤ RSIZE_MAX_STR) (hbos : ∀ b, destbos = some b → dmax ≤ b)
    (hsl : slen ≠ 0) :
    ∃ code st', exec (strcpyfldout_s cfg dest dmax src slen destbos) st = .ok (code, st') ∧
      FldHolds cfg dest dmax src slen st st' code :=
  fldG_C04 .fldout cfg dest dmax src slen destbos st hall hrw hd hpos hle hbos hsl

/-! ## the two exits taken before the loop, exactly -/

/-- exact effect of a `handle_error(dest, len, code)` exit: one event, `dest[0] = 0`, with null-slack exactly
the cells `dest[0..len)` are zeroed, without it exactly `dest[0]` -/
structure FldCleared (cfg : Cfg) (dest len : Nat) (st st' : St) (code : Nat) : Prop where
  strays : st'.strays = st.strays
  events : st'.events = st.events ++ [.handler .str code]
  first : st'.data dest = 0
  slack_zero : cfg.slack = true → ∀ i, i < len → st'.data (dest + i) = 0
  slack_rest : cfg.slack = true → ∀ a, ¬ (dest ≤ a ∧ a < dest + len) → st'.data a = st.data a
  noslack_rest : cfg.slack = false → ∀ a, a ≠ dest → st'.data a = st.data a

private theorem fldCleared_of {cfg : Cfg} {dest len : Nat} {st st' : St} {code : Nat}
    (h : FldFail cfg dest len st st' code) : FldCleared cfg dest len st st' code := by
  refine ⟨h.strays, h.events, h.first, ?_, ?_, h.noslack⟩
  · intro hcs i hi
    rw [h.slack hcs (dest + i)]
    have : dest ≤ dest + i ∧ dest + i < dest + len := by omega
    rw [if_pos this]
  · intro hcs a ha
    rw [h.slack hcs a, if_neg ha]

private theorem fldG_C04_srcnull (kind : FldKind) (cfg : Cfg) (dest dmax slen : Nat) (destbos : Bos) (st : St)
    (hrw : RW st dest dmax)
    (hd : dest ≠ 0) (hpos : 0 < dmax) (hle : dmax ≤ RSIZE_MAX_STR) (hbos : ∀ b, destbos = some b → dmax ≤ b)
    (hsl : slen ≠ 0) :
    ∃ st', exec (fldG kind cfg dest dmax 0 slen destbos) st = .ok (ESNULLP, st') ∧
      FldCleared cfg dest dmax st st' ESNULLP := by
  rw [fldG_entry _ cfg dest dmax 0 slen destbos hsl hd hpos hle hbos]
  obtain ⟨st', he, hf⟩ := fldBody_srcnull kind cfg dest dmax slen st hrw hpos
  exact ⟨st', he, fldCleared_of hf⟩

/-- strcpyfld_s / strcpyfldin_s / strcpyfldout_s with src = NULL on a usable dest (no readability hypothesis
needed): ESNULLP, exactly one handler event, dest[0] = 0; with null-slack exactly the dmax cells of dest are
zeroed, without it exactly dest[0]; every other cell keeps its value. -/
theorem strcpyfld_s_C04_srcnull (cfg : Cfg) (dest dmax slen : Nat) (destbos : Bos) (st : St)
    (hrw : RW st dest dmax)
    (hd : dest ≠ 0) (hpos : 0 < dmax) (hle : dmax ≤ RSIZE_MAX_STR) (hbos : ∀ b, destbos = some b → dmax ≤ b)
    (hsl : slen ≠ 0) :
    (∃ st', exec (strcpyfld_s cfg dest dmax 0 slen destbos) st = .ok (ESNULLP, st') ∧
      FldCleared cfg dest dmax st st' ESNULLP) ∧
    (∃ st', exec (strcpyfldin_s cfg dest dmax 0 slen destbos) st = .ok (ESNULLP, st') ∧
      FldCleared cfg dest dmax st st' ESNULLP) ∧
    (∃ st', exec (strcpyfldout_s cfg dest dmax 0 slen destbos) st = .ok (ESNULLP, st') ∧
      FldCleared cfg dest dmax st st' ESNULLP) :=
  ⟨fldG_C04_srcnull .fld cfg dest dmax slen destbos st hrw hd hpos hle hbos hsl,
   fldG_C04_srcnull .fldin cfg dest dmax slen destbos st hrw hd hpos hle hbos hsl,
   fldG_C04_srcnull .fldout cfg dest dmax slen destbos st hrw hd hpos hle hbos hsl⟩

private theorem fldG_C04_nospc (kind : FldKind) (cfg : Cfg) (dest dmax src slen : Nat) (destbos : Bos) (st : St)
    (hall : ∀ a, st.mapped a = true ∧ st.rd a = true) (hrw : RW st dest dmax)
    (hd : dest ≠ 0) (hpos : 0 < dmax) (hle : dmax ≤ RSIZE_MAX_STR) (hbos : ∀ b, destbos = some b → dmax ≤ b)
    (hs : src ≠ 0) (hgt : dmax < slen) :
    ∃ len st', exec (fldG kind cfg dest dmax src slen destbos) st =
        .ok ((if slen > RSIZE_MAX_STR then ESLEMAX else ESNOSPC), st') ∧
      StrLenIn st dest dmax len ∧
      FldCleared cfg dest len st st' (if slen > RSIZE_MAX_STR then ESLEMAX else ESNOSPC) := by
  rw [fldG_entry _ cfg dest dmax src slen destbos (by omega) hd hpos hle hbos]
  obtain ⟨len, st', he, hlen, hf⟩ := fldBody_nospc kind cfg dest dmax src slen st hall hrw hd hpos hle hs hgt
  exact ⟨len, st', he, hlen, fldCleared_of hf⟩

/-- strcpyfld_s, exit slen > dmax exactly (taken before anything is copied; any src ≠ 0, any contents): returns
ESNOSPC (ESLEMAX when slen > RSIZE_MAX_STR) with one handler event; len = length of the string that was in dest
(first NUL of the OLD dest within dmax, else dmax); dest[0] = 0; with null-slack exactly dest[0..len) is zeroed,
without it exactly dest[0]; all other cells (also dest[len..dmax)) keep their old value. -/
theorem strcpyfld_s_C04_nospc (cfg : Cfg) (dest dmax src slen : Nat) (destbos : Bos) (st : St)
    (hall : ∀ a, st.mapped a = true ∧ st.rd a = true) (hrw : RW st dest dmax)
    (hd : dest ≠ 0) (hpos : 0 < dmax) (hle : dmax ≤ RSIZE_MAX_STR) (hbos : ∀ b, destbos = some b → dmax ≤ b)
    (hs : src ≠ 0) (hgt : dmax < slen) :
    ∃ len st', exec (strcpyfld_s cfg dest dmax src slen destbos) st =
        .ok ((if slen > RSIZE_MAX_STR then ESLEMAX else ESNOSPC), st') ∧
      StrLenIn st dest dmax len ∧
      FldCleared cfg dest len st st' (if slen > RSIZE_MAX_STR then ESLEMAX else ESNOSPC) :=
  fldG_C04_nospc .fld cfg dest dmax src slen destbos st hall hrw hd hpos hle hbos hs hgt

/-- strcpyfldin_s, exit slen > dmax exactly (before anything is copied; any src ≠ 0, any contents): ESNOSPC
(ESLEMAX when slen > RSIZE_MAX_STR), one handler event; len = length of the string that was in dest; dest[0] = 0;
with null-slack exactly dest[0..len) is zeroed, without it exactly dest[0]; all other cells keep their value. -/
theorem strcpyfldin_s_C04_nospc (cfg : Cfg) (dest dmax src slen : Nat) (destbos : Bos) (st : St)
    (hall : ∀ a, st.mapped a = true ∧ st.rd a = true) (hrw : RW st dest dmax)
    (hd : dest ≠ 0) (hpos : 0 < dmax) (hle : dmax ≤ RSIZE_MAX_STR) (hbos : ∀ b, destbos = some b → dmax ≤ b)
    (hs : src ≠ 0) (hgt : dmax < slen) :
    ∃ len st', exec (strcpyfldin_s cfg dest dmax src slen destbos) st =
        .ok ((if slen > RSIZE_MAX_STR then ESLEMAX else ESNOSPC), st') ∧
      StrLenIn st dest dmax len ∧
      FldCleared cfg dest len st st' (if slen > RSIZE_MAX_STR then ESLEMAX else ESNOSPC) :=
  fldG_C04_nospc .fldin cfg dest dmax src slen destbos st hall hrw hd hpos hle hbos hs hgt

/-- strcpyfldout_s, exit slen > dmax exactly (before anything is copied; any src ≠ 0, any contents): ESNOSPC
(ESLEMAX when slen > RSIZE_MAX_STR), one handler event; len = length of the string that was in dest; dest[0] = 0;
with null-slack exactly dest[0..len) is zeroed, without it exactly dest[0]; all other cells keep their value. -/
theorem strcpyfldout_s_C04_nospc (cfg : Cfg) (dest dmax src slen : Nat) (destbos : Bos) (st : St)
    (hall : ∀ a, st.mapped a = true ∧ st.rd a = true) (hrw : RW st dest dmax)
    (hd : dest ≠ 0) (hpos : 0 < dmax) (hle : dmax ≤ RSIZE_MAX_STR) (hbos : ∀ b, destbos = some b → dmax ≤ b)
    (hs : src ≠ 0) (hgt : dmax < slen) :
    ∃ len st', exec (strcpyfldout_s cfg dest dmax src slen destbos) st =
        .ok ((if slen > RSIZE_MAX_STR then ESLEMAX else ESNOSPC), st') ∧
      StrLenIn st dest dmax len ∧
      FldCleared cfg dest len st st' (if slen > RSIZE_MAX_STR then ESLEMAX else ESNOSPC) :=
  fldG_C04_nospc .fldout cfg dest dmax src slen destbos st hall hrw hd hpos hle hbos hs hgt

/-! ## the overlap exit is taken exactly when the copied cells meet -/

private theorem fldHolds_of {kind : FldKind} {cfg : Cfg} {dest dmax src slen : Nat} {st st' : St} {code : Nat}
    (hp : FldPost kind cfg dest dmax src slen st st' code) : FldHolds cfg dest dmax src slen st st' code :=
  ⟨hp.safe.strays, hp.safe.frame, hp.safe.ok_events, hp.safe.fail_events, hp.fail_first,
    hp.fail_clear, hp.srcnull, hp.nospc, hp.fits⟩

/-- strcpyfld_s, the overlap exit (converse of strcpyfld_s_C08, any contents, both slack configurations): when
the slen cells read and the slen cells written meet — ¬ (dest + slen ≤ src ∨ src + slen ≤ dest) — the call
returns ESOVRLP: one handler event, dest[0] = 0, with null-slack all dmax cells zero, nothing outside dest
changed.  So ESOVRLP is returned exactly when these two fields meet. -/
theorem strcpyfld_s_C04_overlap (cfg : Cfg) (dest dmax src slen : Nat) (destbos : Bos) (st : St)
    (hall : ∀ a, st.mapped a = true ∧ st.rd a = true) (hrw : RW st dest dmax)
    (hd : dest ≠ 0) (hpos : 0 < dmax) (hle : dmax ≤ RSIZE_MAX_STR) (hbos : ∀ b, destbos = some b → dmax ≤ b)
    (hsl : slen ≠ 0) (hs : src ≠ 0) (hfit : slen ≤ dmax)
    (hmeet : ¬ (dest + slen ≤ src ∨ src + slen ≤ dest)) :
    ∃ st', exec (strcpyfld_s cfg dest dmax src slen destbos) st = .ok (ESOVRLP, st') ∧
      FldHolds cfg dest dmax src slen st st' ESOVRLP := by
  unfold strcpyfld_s
  rw [fldG_entry _ cfg dest dmax src slen destbos hsl hd hpos hle hbos]
  obtain ⟨st', he, hp⟩ := fldBody_fld_overlap cfg dest dmax src slen st hall hrw hd hpos hle hs hfit hmeet
  exact ⟨st', he, fldHolds_of hp⟩

/-- strcpyfldout_s, the overlap exit (converse of strcpyfldout_s_C08, any contents, both slack configurations):
with n = min slen (dmax-1), when the n cells read and the n cells written meet the call returns ESOVRLP: one
handler event, dest[0] = 0, with null-slack all dmax cells zero, nothing outside dest changed. -/
theorem strcpyfldout_s_C04_overlap (cfg : Cfg) (dest dmax src slen : Nat) (destbos : Bos) (st : St)
    (hall : ∀ a, st.mapped a = true ∧ st.rd a = true) (hrw : RW st dest dmax)
    (hd : dest ≠ 0) (hpos : 0 < dmax) (hle : dmax ≤ RSIZE_MAX_STR) (hbos : ∀ b, destbos = some b → dmax ≤ b)
    (hsl : slen ≠ 0) (hs : src ≠ 0) (hfit : slen ≤ dmax)
    (hmeet : ¬ (dest + min slen (dmax - 1) ≤ src ∨ src + min slen (dmax - 1) ≤ dest)) :
    ∃ st', exec (strcpyfldout_s cfg dest dmax src slen destbos) st = .ok (ESOVRLP, st') ∧
      FldHolds cfg dest dmax src slen st st' ESOVRLP := by
  unfold strcpyfldout_s
  rw [fldG_entry _ cfg dest dmax src slen destbos hsl hd hpos hle hbos]
  obtain ⟨st', he, hp⟩ := fldBody_fldout_overlap cfg dest dmax src slen st hall hrw hd hpos hle hs hfit hmeet
  exact ⟨st', he, fldHolds_of hp⟩

/-- strcpyfldin_s, the overlap exit for dest ≤ src (both slack configurations): the source string starts
j0 = src - dest < slen cells into dest and its first j0+1 characters are non-NUL, so the copy runs into the
source: ESOVRLP, one handler event, dest[0] = 0, with null-slack all dmax cells zero, nothing outside dest
changed. -/
theorem strcpyfldin_s_C04_overlap (cfg : Cfg) (dest dmax src slen : Nat) (destbos : Bos) (st : St)
    (hall : ∀ a, st.mapped a = true ∧ st.rd a = true) (hrw : RW st dest dmax)
    (hd : dest ≠ 0) (hpos : 0 < dmax) (hle : dmax ≤ RSIZE_MAX_STR) (hbos : ∀ b, destbos = some b → dmax ≤ b)
    (hsl : slen ≠ 0) (hs : src ≠ 0) (hfit : slen ≤ dmax)
    (hge : dest ≤ src) (hlt : src - dest < slen)
    (hnz : ∀ j, j ≤ src - dest → st.data (src + j) ≠ 0) :
    ∃ st', exec (strcpyfldin_s cfg dest dmax src slen destbos) st = .ok (ESOVRLP, st') ∧
      FldHolds cfg dest dmax src slen st st' ESOVRLP := by
  unfold strcpyfldin_s
  rw [fldG_entry _ cfg dest dmax src slen destbos hsl hd hpos hle hbos]
  obtain ⟨st', he, hp⟩ := fldBody_fldin_overlap cfg dest dmax src slen st hall hrw hd hpos hle hs hfit hge hlt hnz
  exact ⟨st', he, fldHolds_of hp⟩

/-! ## what the `slen > dmax` exit does NOT clear, and non-vacuity -/

/-- dest = 100 (3 writable cells) holding "a\0b", src = 200 -/
def fldNSt : St :=
  { data := fun a => if a = 100 then 97 else if a = 102 then 98 else if a = 200 then 99 else 0
    mapped := fun _ => true, rd := fun _ => true
    wr := fun a => decide (100 ≤ a ∧ a < 103) }

/- FALSE of the code (see the witness): on every failing exit with null-slack all dmax cells of dest are zero:
   strcpyfld_s_C04_clear_all : … → code ≠ EOK → cfg.slack = true → ∀ i, i < dmax → st'.data (dest + i) = 0 -/

/-- the slen > dmax exit with null-slack does not zero all of dest: strcpyfld_s(d = "a\0b", 3, src, 4) returns
ESNOSPC, dest[0] = 0, and dest[2] still holds the 'b' it held before the call (only strnlen_s(dest, dmax) = 1
cell is cleared).  Old data of dest, nothing the failed call wrote. -/
theorem strcpyfld_s_C04_nospc_witness :
    ∃ st', exec (strcpyfld_s { slack := true } 100 3 200 4 none) fldNSt = .ok (ESNOSPC, st') ∧
      st'.data 100 = 0 ∧ st'.data 102 = 98 := by
  refine ⟨{ fldNSt.upd 100 0 with events := [.handler .str ESNOSPC] }, ?_, ?_⟩
  · simp [strcpyfld_s, fldG, chkDmaxClear, chkDmaxClearG, chkSlenNospcClear, RSIZE_MAX_STR, strnlen_s,
      strnlenLoop, handleError, handlerS, memsetP, exec_bind, fldNSt, ESNOSPC, St.upd]
  · simp [St.upd, fldNSt]

/-- dest = 100 (4 writable cells, all zero), src = 102 holding "abc": the fields meet -/
def fldOSt : St :=
  { data := fun a => if a = 102 then 97 else if a = 103 then 98 else if a = 104 then 99 else 0
    mapped := fun _ => true, rd := fun _ => true
    wr := fun a => decide (100 ≤ a ∧ a < 104) }

/- FALSE of the code without null-slack (see the witness; class noslack-partial of known_findings.jsonl):
   strcpyfld_s_C04_nopartial : … → code ≠ EOK → ∀ i, 0 < i → i < dmax → st'.data (dest + i) = st.data (dest + i) ∨ st'.data (dest + i) = 0 -/

/-- the ESOVRLP exit in the NO-slack build leaves what was copied before the bumper was met behind dest[0]:
strcpyfld_s(d, 4, d+2 = "abc", 3) returns ESOVRLP, dest[0] = 0, and dest[1], which was 0, now holds 'b'
(handle_error stores only dest[0] = 0 there). -/
theorem strcpyfld_s_C04_noslack_witness :
    ∃ st', exec (strcpyfld_s { slack := false } 100 4 102 3 none) fldOSt = .ok (ESOVRLP, st') ∧
      st'.data 100 = 0 ∧ fldOSt.data 101 = 0 ∧ st'.data 101 = 98 := by
  refine ⟨{ ((fldOSt.upd 100 97).upd 101 98).upd 100 0 with events := [.handler .str ESOVRLP] }, ?_, ?_⟩
  · simp [strcpyfld_s, fldG, chkDmaxClear, chkDmaxClearG, chkSlenNospcClear, RSIZE_MAX_STR, fldLoop,
      handleError, handlerS, exec_bind, fldOSt, ESOVRLP, St.upd]
  · simp [St.upd, fldOSt]

/-- the hypotheses of the overlap statements are satisfiable: dest = 100 (5 cells), src = 102, slen = 3 -/
example : (∀ a, SafeC.Props.C01.exSt.mapped a = true ∧ SafeC.Props.C01.exSt.rd a = true) ∧
    RW SafeC.Props.C01.exSt 100 5 ∧ (3 : Nat) ≠ 0 ∧ (102 : Nat) ≠ 0 ∧ 3 ≤ 5 ∧
    ¬ (100 + 3 ≤ 102 ∨ 102 + 3 ≤ 100) ∧
    ¬ (100 + min 3 (5 - 1) ≤ 102 ∨ 102 + min 3 (5 - 1) ≤ 100) := by
  refine ⟨fun _ => ⟨rfl, rfl⟩, fun i hi => ⟨rfl, ?_, rfl⟩, by decide, by decide, by decide, by decide, by decide⟩
  simp [SafeC.Props.C01.exSt]; omega

/-- the hypotheses of strcpyfldin_s_C04_overlap are satisfiable: `fldOSt`, dest = 100 (4 cells), src = 102 = "abc" -/
example : (∀ a, fldOSt.mapped a = true ∧ fldOSt.rd a = true) ∧ RW fldOSt 100 4 ∧ 3 ≤ 4 ∧
    100 ≤ 102 ∧ 102 - 100 < 3 ∧ (∀ j, j ≤ 102 - 100 → fldOSt.data (102 + j) ≠ 0) := by
  refine ⟨fun _ => ⟨rfl, rfl⟩, fun i hi => ⟨rfl, ?_, rfl⟩, by decide, by decide, by decide, ?_⟩
  · simp [fldOSt]; omega
  · intro j hj
    have : j = 0 ∨ j = 1 ∨ j = 2 := by omega
    rcases this with h | h | h <;> subst h <;> decide

/-- why dmax ≤ RSIZE_MAX_STR is a hypothesis also when the object size is known: CHK_DEST_OVR_CLEAR tests the
limit only inside dmax > destbos (class bos-known-skips-limit).  strcpyfld_s(d, 5000, s, 5001) with destbos 5000
passes the dmax checks; the slen > dmax exit then calls strnlen_s(dest, 5000), which reports ESLEMAX itself and
returns 0, and handle_error reports again: TWO handler events for one ESLEMAX return, dest untouched. -/
theorem strcpyfld_s_C04_bos_limit_witness :
    ∃ st', exec (strcpyfld_s { slack := true } 100 5000 200 5001 (some 5000)) fldNSt = .ok (ESLEMAX, st') ∧
      st'.events = [.handler .str ESLEMAX, .handler .str ESLEMAX] ∧ st'.data 100 = 97 := by
  refine ⟨{ fldNSt with events := [.handler .str ESLEMAX, .handler .str ESLEMAX] }, ?_, rfl, ?_⟩
  · simp [strcpyfld_s, fldG, chkDmaxClear, chkDmaxClearG, chkSlenNospcClear, RSIZE_MAX_STR, strnlen_s,
      handleError, handlerS, memsetP, exec_bind, fldNSt, ESLEMAX]
  · simp [fldNSt]

/-- the hypotheses are satisfiable: dest = 100 with 5 writable cells in `exSt`, src = 200, slen = 7 > dmax -/
example : (∀ a, SafeC.Props.C01.exSt.mapped a = true ∧ SafeC.Props.C01.exSt.rd a = true) ∧
    RW SafeC.Props.C01.exSt 100 5 ∧ (100 : Nat) ≠ 0 ∧ 0 < 5 ∧ 5 ≤ RSIZE_MAX_STR ∧
    (∀ b, (none : Bos) = some b → 5 ≤ b) ∧ (7 : Nat) ≠ 0 ∧ (200 : Nat) ≠ 0 ∧ 5 < 7 := by
  refine ⟨fun _ => ⟨rfl, rfl⟩, fun i hi => ⟨rfl, ?_, rfl⟩, by decide, by decide, by decide,
    (fun b h => by cases h), by decide, by decide, by decide⟩
  simp [SafeC.Props.C01.exSt]; omega

end PartFld

section PartOs
open SafeC Gen
/-!
# C04 for `getenv_s` and `strerror_s`: a failed call leaves no partial result in dest

Same setting as section `PartOs` of `Props/C03Ext.lean` (declared extents only, arbitrary prior dest content).  Every non-EOK exit on a
usable dest stores `dest[0] = 0`; with null-slack all `dmax` cells are zero; cells outside `dest[0..dmax)` are
unchanged and nothing outside the declared extents is touched.  Exactly one handler event, carrying the returned code —
except the "variable not set" exit of `getenv_s` (-1), which by design reports nothing.
-/

/-- getenv_s, the ESNOSPC exit: the variable is set to a string of length n ≥ dmax (no upper bound on n). Returns
ESNOSPC with *len = 0, exactly one handler event (ESNOSPC), dest[0] = 0, with null-slack all dmax cells zero; nothing
outside dest changes, no stray access. The value need not be disjoint from dest here. -/
theorem getenv_s_C04_nospc (cfg : Cfg) (hasLen : Bool) (dest dmax name : Nat) (destbos : Bos) (value k n : Nat)
    (st : St) (hd : dest ≠ 0) (hpos : 0 < dmax) (hle : dmax ≤ RSIZE_MAX_STR)
    (hbos : ∀ b, destbos = some b → dmax ≤ b) (hrw : RW st dest dmax)
    (hname : name ≠ 0) (hnm : SrcStr st name k) (hv : value ≠ 0) (hval : SrcStr st value n) (hn : dmax ≤ n) :
    ∃ st', exec (getenv_s cfg hasLen dest dmax name destbos value) st
        = .ok ((ESNOSPC, if hasLen then some 0 else none), st') ∧
      st'.events = st.events ++ [.handler .str ESNOSPC] ∧ st'.strays = st.strays ∧
      st'.data dest = 0 ∧ (cfg.slack = true → ∀ i, i < dmax → st'.data (dest+i) = 0) ∧
      (∀ a, ¬ (dest ≤ a ∧ a < dest + dmax) → st'.data a = st.data a) := by
  obtain ⟨st', he, _, _, _, ps, pf, pe, hz, hsl⟩ :=
    getenv_s_nospc cfg hasLen dest dmax name destbos value k n st hd hpos hle hbos hrw hname hnm hv hval hn
  exact ⟨st', he, pe, ps, hz, hsl, pf⟩

/-- getenv_s, the name == NULL exit on a usable dest: ESNULLP with *len = 0, exactly one handler event (ESNULLP),
dest[0] = 0, with null-slack all dmax cells zero; nothing outside dest changes, no stray access (the environment is not
consulted: value is arbitrary). -/
theorem getenv_s_C04_nullname (cfg : Cfg) (hasLen : Bool) (dest dmax : Nat) (destbos : Bos) (value : Nat) (st : St)
    (hd : dest ≠ 0) (hpos : 0 < dmax) (hle : dmax ≤ RSIZE_MAX_STR) (hbos : ∀ b, destbos = some b → dmax ≤ b)
    (hrw : RW st dest dmax) :
    ∃ st', exec (getenv_s cfg hasLen dest dmax 0 destbos value) st
        = .ok ((ESNULLP, if hasLen then some 0 else none), st') ∧
      st'.events = st.events ++ [.handler .str ESNULLP] ∧ st'.strays = st.strays ∧
      st'.data dest = 0 ∧ (cfg.slack = true → ∀ i, i < dmax → st'.data (dest+i) = 0) ∧
      (∀ a, ¬ (dest ≤ a ∧ a < dest + dmax) → st'.data a = st.data a) := by
  obtain ⟨st', he, _, _, _, ps, pf, pe, hz, hsl⟩ :=
    getenv_s_nullname cfg hasLen dest dmax destbos value st hd hpos hle hbos hrw
  exact ⟨st', he, pe, ps, hz, hsl, pf⟩

/-- getenv_s, the variable is not set (getenv returned NULL, value = 0): returns -1 (NEG1) with *len = 0 and NO handler
event; dest[0] = 0, with null-slack all dmax cells zero; nothing outside dest changes, no stray access. -/
theorem getenv_s_C04_unset (cfg : Cfg) (hasLen : Bool) (dest dmax name : Nat) (destbos : Bos) (k : Nat) (st : St)
    (hd : dest ≠ 0) (hpos : 0 < dmax) (hle : dmax ≤ RSIZE_MAX_STR) (hbos : ∀ b, destbos = some b → dmax ≤ b)
    (hrw : RW st dest dmax) (hname : name ≠ 0) (hnm : SrcStr st name k) :
    ∃ st', exec (getenv_s cfg hasLen dest dmax name destbos 0) st
        = .ok ((NEG1, if hasLen then some 0 else none), st') ∧
      st'.events = st.events ∧ st'.strays = st.strays ∧
      st'.data dest = 0 ∧ (cfg.slack = true → ∀ i, i < dmax → st'.data (dest+i) = 0) ∧
      (∀ a, ¬ (dest ≤ a ∧ a < dest + dmax) → st'.data a = st.data a) := by
  obtain ⟨st', he, _, _, _, ps, pf, pe, hz, hsl⟩ :=
    getenv_s_unset cfg hasLen dest dmax name destbos k st hd hpos hle hbos hrw hname hnm
  exact ⟨st', he, pe, ps, hz, hsl, pf⟩

/-- getenv_s, EVERY exit with a usable dest (hypotheses of C03Ext.getenv_s_C03): whenever the returned code is not EOK,
dest[0] = 0, with null-slack all dmax cells are zero, *len = 0 (if requested); in every case nothing outside
dest[0..dmax) changes and no stray access happens. -/
theorem getenv_s_C04 (cfg : Cfg) (hasLen : Bool) (dest dmax name : Nat) (destbos : Bos) (value k n : Nat) (st : St)
    (hd : dest ≠ 0) (hpos : 0 < dmax) (hle : dmax ≤ RSIZE_MAX_STR) (hbos : ∀ b, destbos = some b → dmax ≤ b)
    (hrw : RW st dest dmax) (hname : name ≠ 0 → SrcStr st name k)
    (hval : value ≠ 0 → SrcStr st value n ∧ Disjoint dest dmax value n) :
    ∃ r st', exec (getenv_s cfg hasLen dest dmax name destbos value) st = .ok (r, st') ∧
      (r.1 ≠ EOK → st'.data dest = 0 ∧ (cfg.slack = true → ∀ i, i < dmax → st'.data (dest+i) = 0) ∧
        r.2 = if hasLen then some 0 else none) ∧
      st'.strays = st.strays ∧ (∀ a, ¬ (dest ≤ a ∧ a < dest + dmax) → st'.data a = st.data a) := by
  by_cases h0 : name = 0
  · subst h0
    obtain ⟨st', he, _, _, _, ps, pf, _, hz, hsl⟩ :=
      getenv_s_nullname cfg hasLen dest dmax destbos value st hd hpos hle hbos hrw
    exact ⟨_, st', he, fun _ => ⟨hz, hsl, rfl⟩, ps, pf⟩
  · by_cases hv : value = 0
    · subst hv
      obtain ⟨st', he, _, _, _, ps, pf, _, hz, hsl⟩ :=
        getenv_s_unset cfg hasLen dest dmax name destbos k st hd hpos hle hbos hrw h0 (hname h0)
      exact ⟨_, st', he, fun _ => ⟨hz, hsl, rfl⟩, ps, pf⟩
    · obtain ⟨hsrc, hdisj⟩ := hval hv
      by_cases hn : n < dmax
      · obtain ⟨st', he, _, _, _, ps, pf, _⟩ :=
          getenv_s_ok cfg hasLen dest dmax name destbos value k n st hd hpos hle hbos hrw h0 (hname h0) hv hsrc hn hdisj
        exact ⟨_, st', he, fun h => absurd rfl h, ps, pf⟩
      · obtain ⟨st', he, _, _, _, ps, pf, _, hz, hsl⟩ :=
          getenv_s_nospc cfg hasLen dest dmax name destbos value k n st hd hpos hle hbos hrw h0 (hname h0) hv hsrc
            (by omega)
        exact ⟨_, st', he, fun _ => ⟨hz, hsl, rfl⟩, ps, pf⟩

/-- strerror_s, the ESLEMIN exit: dmax ≤ 3 and strerrorlen_s answers len ≥ dmax (the message does not fit and there is
no room for "..."): returns ESLEMIN, exactly one handler event (ESLEMIN), dest[0] = 0, with null-slack all dmax cells
zero; nothing outside dest changes, no stray access. -/
theorem strerror_s_C04_lemin (cfg : Cfg) (dest dmax errnum : Nat) (destbos : Bos) (msg dots len : Nat) (st : St)
    (hd : dest ≠ 0) (hpos : 0 < dmax) (h3 : dmax ≤ 3) (hbos : ∀ b, destbos = some b → dmax ≤ b)
    (hrw : RW st dest dmax) (hlen : exec (strerrorlen_s errnum msg) st = .ok (len, st)) (hge : dmax ≤ len) :
    ∃ st', exec (strerror_s cfg dest dmax errnum destbos msg dots) st = .ok (ESLEMIN, st') ∧
      st'.events = st.events ++ [.handler .str ESLEMIN] ∧ st'.strays = st.strays ∧
      st'.data dest = 0 ∧ (cfg.slack = true → ∀ i, i < dmax → st'.data (dest+i) = 0) ∧
      (∀ a, ¬ (dest ≤ a ∧ a < dest + dmax) → st'.data a = st.data a) := by
  obtain ⟨st', he, _, _, _, ps, pf, pe, hz, hsl⟩ :=
    strerror_s_lemin cfg dest dmax errnum destbos msg dots len st hd hpos h3 hbos hrw hlen hge
  exact ⟨st', he, pe, ps, hz, hsl, pf⟩

/-- strerror_s ESLEMIN exit for an errnum outside the library's own range: msg is a readable string of length n ≥ dmax
(any n; libc strlen decides), dmax ≤ 3. Same conclusion as strerror_s_C04_lemin without a hypothesis on strerrorlen_s. -/
theorem strerror_s_C04_lemin_libc (cfg : Cfg) (dest dmax errnum : Nat) (destbos : Bos) (msg dots n : Nat) (st : St)
    (hd : dest ≠ 0) (hpos : 0 < dmax) (h3 : dmax ≤ 3) (hbos : ∀ b, destbos = some b → dmax ≤ b)
    (hrw : RW st dest dmax) (hown : isSafeclibErr errnum = false) (hsrc : SrcStr st msg n) (hge : dmax ≤ n) :
    ∃ st', exec (strerror_s cfg dest dmax errnum destbos msg dots) st = .ok (ESLEMIN, st') ∧
      st'.events = st.events ++ [.handler .str ESLEMIN] ∧ st'.strays = st.strays ∧
      st'.data dest = 0 ∧ (cfg.slack = true → ∀ i, i < dmax → st'.data (dest+i) = 0) ∧
      (∀ a, ¬ (dest ≤ a ∧ a < dest + dmax) → st'.data a = st.data a) := by
  obtain ⟨len, hlen, hag⟩ := strerrorlen_s_libc errnum msg n st hown hsrc
  have hge' : dmax ≤ len := by
    have : 3 < scanFuel := by decide
    rcases hag with h | h <;> omega
  exact strerror_s_C04_lemin cfg dest dmax errnum destbos msg dots len st hd hpos h3 hbos hrw hlen hge'

/-- strerror_s, EVERY exit with a usable dest (hypotheses of C03Ext.strerror_s_C03): the only non-EOK exit is ESLEMIN,
and then dest[0] = 0 and with null-slack all dmax cells are zero; in every case nothing outside dest[0..dmax) changes
and no stray access happens. -/
theorem strerror_s_C04 (cfg : Cfg) (dest dmax errnum : Nat) (destbos : Bos) (msg dots n : Nat) (st : St)
    (hd : dest ≠ 0) (hpos : 0 < dmax) (hle : dmax ≤ RSIZE_MAX_STR) (hbos : ∀ b, destbos = some b → dmax ≤ b)
    (hrw : RW st dest dmax) (hlen : exec (strerrorlen_s errnum msg) st = .ok (n, st))
    (hm : msg ≠ 0) (hsrc : SrcStr st msg n) (hdisj : Disjoint dest dmax msg n)
    (hdots : dots ≠ 0) (hds : SrcStr st dots 3) (hdd : Disjoint dest dmax dots 3)
    (h46 : st.data dots = 46 ∧ st.data (dots+1) = 46 ∧ st.data (dots+2) = 46) :
    ∃ code st', exec (strerror_s cfg dest dmax errnum destbos msg dots) st = .ok (code, st') ∧
      (code = EOK ∨ code = ESLEMIN) ∧
      (code ≠ EOK → st'.data dest = 0 ∧ (cfg.slack = true → ∀ i, i < dmax → st'.data (dest+i) = 0) ∧
        st'.events = st.events ++ [.handler .str ESLEMIN]) ∧
      st'.strays = st.strays ∧ (∀ a, ¬ (dest ≤ a ∧ a < dest + dmax) → st'.data a = st.data a) := by
  obtain ⟨code, st', he, _, _, _, ps, pf, hfit, htr, hmin⟩ :=
    strerror_s_all cfg dest dmax errnum destbos msg dots n n st hd hpos hle hbos hrw hlen (Or.inl rfl) hm hsrc hdisj
      hdots hds hdd h46
  refine ⟨code, st', he, ?_, ?_, ps, pf⟩
  · by_cases hn : n < dmax
    · exact Or.inl (hfit hn).1
    · by_cases h3 : 3 < dmax
      · exact Or.inl (htr (by omega) h3).1
      · exact Or.inr (hmin (by omega) (by omega)).1
  · intro hc
    by_cases hn : n < dmax
    · exact absurd (hfit hn).1 hc
    · by_cases h3 : 3 < dmax
      · exact absurd (htr (by omega) h3).1 hc
      · obtain ⟨_, e, z, sl⟩ := hmin (by omega) (by omega)
        exact ⟨z, sl, e⟩

/-- non-vacuity: dest = 100 with dmax = 2 (two of its 8 writable cells), name "A" at 300, value "aa" at 200 (2 ≥ dmax:
ESNOSPC), message of 11 characters at 400 with errnum 5 (not an own code; dmax ≤ 3: ESLEMIN) -/
example : (100 : Nat) ≠ 0 ∧ 0 < 2 ∧ 2 ≤ RSIZE_MAX_STR ∧ RW osExSt 100 2 ∧
    (300 : Nat) ≠ 0 ∧ SrcStr osExSt 300 1 ∧ (200 : Nat) ≠ 0 ∧ SrcStr osExSt 200 2 ∧ 2 ≤ 2 ∧
    isSafeclibErr 5 = false ∧ SrcStr osExSt 400 11 ∧ 2 ≤ 11 :=
  ⟨by decide, by decide, by decide, fun i hi => osExSt_rw i (by omega), by decide, osExSt_str _ _ (by omega),
   by decide, osExSt_str _ _ (by omega), by decide, by decide, osExSt_str _ _ (by omega), by decide⟩

end PartOs

end SafeC.Props.C04Ext

import SafeC.Props.C01
import SafeC.Proofs.ExtStp
/-!
# C04 (extension) — a failed call leaves no partial result in dest: the wide twins and the stp pair

Setting as in `Props/C04.lean` (every cell mapped and readable, ARBITRARY contents and placement, dest's
`dmax` cells writable, both builds).  For a usable dest, after ANY non-EOK return:
* `dest[0] = 0`;
* in the null-slack build all `dmax` cells are zero when the failure was met after copying began
  (ESNOSPC, ESOVRLP, ESUNTERM = dest unterminated) or the source is null (ESNULLP with dest non-null);
* every cell outside `dest[0..dmax)` — in particular a source that does not overlap dest — is unchanged
  (this conjunct holds for success as well: it is the C01 statement).
Without null-slack the cells behind `dest[0]` keep what was copied (`noslack-partial`, recorded): as in
`Props/C04.lean` the second conjunct is stated for `cfg.slack = true` only.

The `*_frame` theorems are the C01 statement for ALL arguments (null / zero / oversize dest and dmax
included, no usability hypothesis): no stray access and nothing outside the declared dest changes.

`stpcpy_s` with a KNOWN source size: the `src unterminated` exit (ESUNTERM) clears nothing — the FULL
statement is false there (`stpcpy_s_C04_witness`); `stpcpy_s_C04_partial` excludes that code.
-/
namespace SafeC.Props.C04Ext
open SafeC Gen SafeC.Props.C01

/-- the C04 conclusion for an errno-returning producer -/
def Cleared (cfg : Cfg) (dest dmax : Nat) (st st' : St) (code : Nat) : Prop :=
  (code ≠ EOK → st'.data dest = 0) ∧
  (code = ESNOSPC ∨ code = ESOVRLP ∨ code = ESUNTERM ∨ code = ESNULLP → cfg.slack = true →
    ∀ i, i < dmax → st'.data (dest + i) = 0) ∧
  (∀ a, ¬ (dest ≤ a ∧ a < dest + dmax) → st'.data a = st.data a)

theorem holds_of_frame {α} {p : Prog α} {r : α} {dest dmax : Nat} {st st' : St} (hs : Setting st)
    (he : exec p st = .ok (r, st')) (hf : FramePost dest dmax st st') : Holds st st' := by
  have hstr : st'.strays = [] := by rw [hf.strays, hs.clean]
  exact ⟨by simp [hstr], exec_frame_clean _ st he hs.clean hstr⟩

/-- wcsncpy_s: every failing exit on a usable dest (object sizes known or unknown) -/
theorem wcsncpy_s_C04 (cfg : Cfg) (dest dmax src slen : Nat) (destbos srcbos : Bos) (st : St) (hs : Setting st)
    (hrw : RW st dest dmax) (hd : dest ≠ 0) (hpos : 0 < dmax) (hle : dmax ≤ RSIZE_MAX_WSTR)
    (hb : ∀ b, destbos = some b → dmax * SIZEOF_WCHAR_T ≤ b) :
    ∃ code st', exec (wcsncpy_s cfg dest dmax src slen destbos srcbos) st = .ok (code, st') ∧
      Cleared cfg dest dmax st st' code := by
  obtain ⟨code, st', he, hf, hq⟩ := wcsncpy_s_ext cfg dest dmax src slen destbos srcbos st hs.all (fun _ => hrw)
  have h := (hq ⟨hd, hpos, hle, hb⟩).1
  exact ⟨code, st', he, h.fail_first, h.fail_clear, hf.frame⟩

/-- wcscat_s: every failing exit on a usable dest -/
theorem wcscat_s_C04 (cfg : Cfg) (dest dmax src : Nat) (destbos : Bos) (st : St) (hs : Setting st)
    (hrw : RW st dest dmax) (hd : dest ≠ 0) (hpos : 0 < dmax) (hle : dmax ≤ RSIZE_MAX_WSTR)
    (hb : ∀ b, destbos = some b → dmax * SIZEOF_WCHAR_T ≤ b) :
    ∃ code st', exec (wcscat_s cfg dest dmax src destbos) st = .ok (code, st') ∧
      Cleared cfg dest dmax st st' code := by
  obtain ⟨code, st', he, hf, hq⟩ := wcscat_s_ext cfg dest dmax src destbos st hs.all (fun _ => hrw)
  have h := (hq ⟨hd, hpos, hle, hb⟩).1
  exact ⟨code, st', he, h.fail_first, h.fail_clear, hf.frame⟩

/-- wcsncat_s: every failing exit on a usable dest (any slen, incl. 0) -/
theorem wcsncat_s_C04 (cfg : Cfg) (dest dmax src slen : Nat) (destbos srcbos : Bos) (st : St) (hs : Setting st)
    (hrw : RW st dest dmax) (hd : dest ≠ 0) (hpos : 0 < dmax) (hle : dmax ≤ RSIZE_MAX_WSTR)
    (hb : ∀ b, destbos = some b → dmax * SIZEOF_WCHAR_T ≤ b) :
    ∃ code st', exec (wcsncat_s cfg dest dmax src slen destbos srcbos) st = .ok (code, st') ∧
      Cleared cfg dest dmax st st' code := by
  obtain ⟨code, st', he, hf, hq⟩ := wcsncat_s_ext cfg dest dmax src slen destbos srcbos st hs.all (fun _ => hrw)
  have h := (hq ⟨hd, hpos, hle, hb⟩).1
  exact ⟨code, st', he, h.fail_first, h.fail_clear, hf.frame⟩

/-- wcsncpy_s, ALL arguments: no stray access, nothing outside the declared dest changes (C01 statement) -/
theorem wcsncpy_s_frame (cfg : Cfg) (dest dmax src slen : Nat) (destbos srcbos : Bos) (st : St) (hs : Setting st)
    (hrw : dest ≠ 0 → RW st dest dmax) :
    ∃ code st', exec (wcsncpy_s cfg dest dmax src slen destbos srcbos) st = .ok (code, st') ∧ Holds st st' := by
  obtain ⟨code, st', he, hf, _⟩ := wcsncpy_s_ext cfg dest dmax src slen destbos srcbos st hs.all hrw
  exact ⟨code, st', he, holds_of_frame hs he hf⟩

/-- wcscat_s, ALL arguments, object size known or not (C01 statement) -/
theorem wcscat_s_frame (cfg : Cfg) (dest dmax src : Nat) (destbos : Bos) (st : St) (hs : Setting st)
    (hrw : dest ≠ 0 → RW st dest dmax) :
    ∃ code st', exec (wcscat_s cfg dest dmax src destbos) st = .ok (code, st') ∧ Holds st st' := by
  obtain ⟨code, st', he, hf, _⟩ := wcscat_s_ext cfg dest dmax src destbos st hs.all hrw
  exact ⟨code, st', he, holds_of_frame hs he hf⟩

/-- wcsncat_s, ALL arguments (C01 statement) -/
theorem wcsncat_s_frame (cfg : Cfg) (dest dmax src slen : Nat) (destbos srcbos : Bos) (st : St) (hs : Setting st)
    (hrw : dest ≠ 0 → RW st dest dmax) :
    ∃ code st', exec (wcsncat_s cfg dest dmax src slen destbos srcbos) st = .ok (code, st') ∧ Holds st st' := by
  obtain ⟨code, st', he, hf, _⟩ := wcsncat_s_ext cfg dest dmax src slen destbos srcbos st hs.all hrw
  exact ⟨code, st', he, holds_of_frame hs he hf⟩

/-! ## the stp pair: `r = (returned pointer, *errp)` -/

/-- stpcpy_s, source size unknown: every failing exit returns NULL, leaves `dest[0] = 0`, with
null-slack all dmax cells zero after ESNOSPC / ESOVRLP / null src; nothing outside dest changes -/
theorem stpcpy_s_C04 (cfg : Cfg) (dest dmax src : Nat) (destbos : Bos) (st : St) (hs : Setting st)
    (hrw : RW st dest dmax) (hd : dest ≠ 0) (hpos : 0 < dmax) (hle : dmax ≤ RSIZE_MAX_STR)
    (hb : ∀ b, destbos = some b → dmax ≤ b) :
    ∃ r st', exec (stpcpy_s cfg dest dmax src destbos none) st = .ok (r, st') ∧
      (r.2 ≠ EOK → r.1 = 0) ∧ Cleared cfg dest dmax st st' r.2 := by
  obtain ⟨r, st', he, hf, hq⟩ := stpcpy_s_ext cfg dest dmax src destbos none st hs.all (fun _ => hrw) hb
  obtain ⟨h1, h2⟩ := hq ⟨hd, hpos, hle⟩
  have h := h1.post (fun h => h2 h rfl)
  exact ⟨r, st', he, h1.fail_ptr, h.fail_first, h.fail_clear, hf.frame⟩

/- FULL statement for a known source size (FALSE of the code, see `stpcpy_s_C04_witness`): the same
   with `srcbos` arbitrary. -/
/-- stpcpy_s, any knowledge of the source size: as `stpcpy_s_C04` for every code but ESUNTERM -/
theorem stpcpy_s_C04_partial (cfg : Cfg) (dest dmax src : Nat) (destbos srcbos : Bos) (st : St) (hs : Setting st)
    (hrw : RW st dest dmax) (hd : dest ≠ 0) (hpos : 0 < dmax) (hle : dmax ≤ RSIZE_MAX_STR)
    (hb : ∀ b, destbos = some b → dmax ≤ b) :
    ∃ r st', exec (stpcpy_s cfg dest dmax src destbos srcbos) st = .ok (r, st') ∧
      (r.2 ≠ EOK → r.1 = 0) ∧
      (r.2 ≠ ESUNTERM → Cleared cfg dest dmax st st' r.2) ∧
      (∀ a, ¬ (dest ≤ a ∧ a < dest + dmax) → st'.data a = st.data a) := by
  obtain ⟨r, st', he, hf, hq⟩ := stpcpy_s_ext cfg dest dmax src destbos srcbos st hs.all (fun _ => hrw) hb
  obtain ⟨h1, _⟩ := hq ⟨hd, hpos, hle⟩
  exact ⟨r, st', he, h1.fail_ptr, fun hne => ⟨(h1.post hne).fail_first, (h1.post hne).fail_clear, hf.frame⟩, hf.frame⟩

/-- dest = 3 cells holding 1 at 100, src = "ab" at 200 -/
def wStp : St :=
  { data := fun a => if a = 200 then 97 else if a = 201 then 98 else if 100 ≤ a ∧ a < 103 then 1 else 0
    mapped := fun _ => true, rd := fun _ => true
    wr := fun a => decide (100 ≤ a ∧ a < 103) }

/-- the excluded point: `stpcpy_s(d, 3, "ab")` with `BOS(src) = 1`, default build: ESUNTERM, and
`dest[0]` holds the copied 'a' (a partial result of the failed call) -/
theorem stpcpy_s_C04_witness :
    ∃ st', exec (stpcpy_s { slack := true } 100 3 200 none (some 1)) wStp = .ok ((0, ESUNTERM), st') ∧
      st'.data 100 = 97 := by
  refine ⟨_, rfl, ?_⟩
  simp [wStp, St.upd, St.noteWr, St.noteRd]

/-- stpncpy_s, source size unknown or containing slen: every failing exit -/
theorem stpncpy_s_C04 (cfg : Cfg) (dest dmax src slen : Nat) (destbos srcbos : Bos) (st : St) (hs : Setting st)
    (hrw : RW st dest dmax) (hd : dest ≠ 0) (hpos : 0 < dmax) (hle : dmax ≤ RSIZE_MAX_STR)
    (hb : ∀ b, destbos = some b → dmax ≤ b) (hsb : ∀ sb, srcbos = some sb → slen ≤ sb) :
    ∃ r st', exec (stpncpy_s cfg dest dmax src slen destbos srcbos) st = .ok (r, st') ∧
      (r.2 ≠ EOK → r.1 = 0) ∧ Cleared cfg dest dmax st st' r.2 := by
  obtain ⟨r, st', he, hf, hq⟩ := stpncpy_s_ext cfg dest dmax src slen destbos srcbos st hs.all (fun _ => hrw) hb hsb
  obtain ⟨h1, h2⟩ := hq ⟨hd, hpos, hle⟩
  have h := h1.post h2
  exact ⟨r, st', he, h1.fail_ptr, h.fail_first, h.fail_clear, hf.frame⟩

/-- stpcpy_s, ALL dest/dmax/src (dmax inside a known object): no stray access, nothing outside dest changes -/
theorem stpcpy_s_frame (cfg : Cfg) (dest dmax src : Nat) (destbos srcbos : Bos) (st : St) (hs : Setting st)
    (hrw : dest ≠ 0 → RW st dest dmax) (hb : ∀ b, destbos = some b → dmax ≤ b) :
    ∃ r st', exec (stpcpy_s cfg dest dmax src destbos srcbos) st = .ok (r, st') ∧ Holds st st' := by
  obtain ⟨r, st', he, hf, _⟩ := stpcpy_s_ext cfg dest dmax src destbos srcbos st hs.all hrw hb
  exact ⟨r, st', he, holds_of_frame hs he hf⟩

/-- stpncpy_s, ALL dest/dmax/src/slen (dmax, slen inside known objects): C01 statement -/
theorem stpncpy_s_frame (cfg : Cfg) (dest dmax src slen : Nat) (destbos srcbos : Bos) (st : St) (hs : Setting st)
    (hrw : dest ≠ 0 → RW st dest dmax) (hb : ∀ b, destbos = some b → dmax ≤ b)
    (hsb : ∀ sb, srcbos = some sb → slen ≤ sb) :
    ∃ r st', exec (stpncpy_s cfg dest dmax src slen destbos srcbos) st = .ok (r, st') ∧ Holds st st' := by
  obtain ⟨r, st', he, hf, _⟩ := stpncpy_s_ext cfg dest dmax src slen destbos srcbos st hs.all hrw hb hsb
  exact ⟨r, st', he, holds_of_frame hs he hf⟩

/-- non-vacuity: dest = 5 writable cells at 100, object sizes 20 bytes (wide) / 5 (narrow), slen 2 in a source object of 3 -/
example : Setting exSt ∧ RW exSt 100 5 ∧ (100 : Nat) ≠ 0 ∧ 0 < 5 ∧ 5 ≤ RSIZE_MAX_WSTR ∧ 5 ≤ RSIZE_MAX_STR ∧
    (∀ b, (some 20 : Bos) = some b → 5 * SIZEOF_WCHAR_T ≤ b) ∧ (∀ b, (some 5 : Bos) = some b → 5 ≤ b) ∧
    (∀ sb, (some 3 : Bos) = some sb → 2 ≤ sb) := by
  refine ⟨⟨fun _ => ⟨rfl, rfl⟩, rfl⟩, fun i hi => ⟨rfl, ?_, rfl⟩, by decide, by decide, by decide, by decide, ?_, ?_, ?_⟩
  · simp [exSt]; omega
  · intro b h; injection h with h; subst h; decide
  · intro b h; injection h with h; subst h; decide
  · intro b h; injection h with h; subst h; decide

end SafeC.Props.C04Ext

import SafeC.Props.C10
import SafeC.Proofs.QueryExt1
/-!
# C10, second part (1): character and index searches

`strchr_s strrchr_s strfirstchar_s strlastchar_s strfirstdiff_s strfirstsame_s strlastdiff_s
strlastsame_s strprefix_s`.

Setting as in `C10.lean`: all of memory readable (`AllRd`) with ARBITRARY contents, operands valid
(non-null, `0 < dmax ≤ RSIZE_MAX_STR`, object sizes unknown).  Conclusion: the value returned is the
spec function of `SafeC/Spec/Query.lean` applied to the memory contents restricted to the first
`dmax` cells, and the final state IS the initial state (no handler, nothing modified).

All the loops here are of the shape `while (*dest && dmax)`: with no terminator among the first
`dmax` cells the cell `dest[dmax]` is READ (known finding `read-before-bound`, property C02).  The
theorems are stated on a memory where that cell is readable; for `strfirstchar_s strlastchar_s
strfirst/lastdiff/same_s` its content has NO influence on the answer (the theorems hold for every
content); for `strchr_s` and `strprefix_s` it has (witnesses below).
-/
namespace SafeC.Props.C10
open SafeC Gen

/-! ## strchr_s

FULL statement (false of the code): *the first of the characters of `dest` — its terminator
included, at most `dmax` of them — equal to `(char)ch`, ESNOTFND if there is none.*  The code calls
the unbounded `strchr` and rejects a hit only when its offset is `> dmax`: with no terminator among
the first `dmax` cells a hit AT offset `dmax` is accepted.  -/

/-- **strchr_s, partial** (a terminator among the first `dmax` cells): the first occurrence of the
character among the characters of the string including its terminator; ESNOTFND otherwise -/
theorem strchr_s_C10_partial (dest dmax : Nat) (ch : Int) (st : St) (hall : AllRd st)
    (hd : dest ≠ 0) (hpos : 0 < dmax) (hle : dmax ≤ RSIZE_MAX_STR) (hch : ch ≤ 255)
    (hz : scanLen st.data dest dmax < dmax) :
    exec (strchr_s dest dmax ch none) st =
      .ok ((match firstIdx st.data (chCell ch) dest (scanLen st.data dest dmax + 1) with
            | some i => (EOK, dest + i) | none => (ESNOTFND, 0)), st) := by
  unfold strchr_s qChkS
  have h1 : ¬ dmax = 0 := by omega
  have h2 : ¬ dmax > RSIZE_MAX_STR := by omega
  have h3 : ¬ ch > 255 := by omega
  have hf : dmax ≤ scanFuel := by
    have : RSIZE_MAX_STR ≤ scanFuel := by decide
    omega
  simp only [hd, h1, h2, h3, if_false, exec_bind, exec_pure, reduceCtorEq,
    strchrP_eq hall (chCell ch) scanFuel dest dmax hf hz]
  cases hfi : firstIdx st.data (chCell ch) dest (scanLen st.data dest dmax + 1) with
  | none => simp
  | some i =>
    have := (firstIdx_some _ _ _ _ _ hfi).1
    have h5 : ¬ dmax < i := by omega
    simp [hd, h5]

/-- what `strchr_s` answers when the first cell of `dest` equal to the character or to NUL is the
character, at an offset `k ≤ dmax`: EOK and `dest + k` — ALSO for `k = dmax`, one past the extent -/
theorem strchr_s_hit_eq (dest dmax : Nat) (ch : Int) (st : St) (hall : AllRd st)
    (hd : dest ≠ 0) (hpos : 0 < dmax) (hle : dmax ≤ RSIZE_MAX_STR) (hch : ch ≤ 255) (k : Nat) (hk : k ≤ dmax)
    (hbefore : ∀ j, j < k → st.data (dest+j) ≠ chCell ch ∧ st.data (dest+j) ≠ 0)
    (hat : st.data (dest+k) = chCell ch) :
    exec (strchr_s dest dmax ch none) st = .ok ((EOK, dest + k), st) := by
  unfold strchr_s qChkS
  have h1 : ¬ dmax = 0 := by omega
  have h2 : ¬ dmax > RSIZE_MAX_STR := by omega
  have h3 : ¬ ch > 255 := by omega
  have hf : k < scanFuel := by
    have : RSIZE_MAX_STR < scanFuel := by decide
    omega
  have h5 : ¬ dmax < k := by omega
  simp only [hd, h1, h2, h3, if_false, exec_bind, exec_pure, reduceCtorEq,
    strchrP_hit hall (chCell ch) scanFuel dest k hf hbefore hat]
  simp [hd, h5]

/-- **what `strchr_s` computes on ANY memory**: exactly the right function for a bound of
`dmax + 1` characters — the first occurrence among the characters of the string including its
terminator, at most `dmax + 1` of them.  (The off-by-one of `> dmax` is the ONLY deviation.) -/
theorem strchr_s_eq (dest dmax : Nat) (ch : Int) (st : St) (hall : AllRd st)
    (hd : dest ≠ 0) (hpos : 0 < dmax) (hle : dmax ≤ RSIZE_MAX_STR) (hch : ch ≤ 255) :
    exec (strchr_s dest dmax ch none) st =
      .ok ((match firstIdx st.data (chCell ch) dest (min (scanLen st.data dest (dmax+1) + 1) (dmax+1)) with
            | some i => (EOK, dest + i) | none => (ESNOTFND, 0)), st) := by
  have hfu : RSIZE_MAX_STR + 1 < scanFuel := by decide
  by_cases hz : scanLen st.data dest (dmax+1) < dmax + 1
  · -- a terminator among the first dmax+1 cells
    have e : min (scanLen st.data dest (dmax+1) + 1) (dmax+1) = scanLen st.data dest (dmax+1) + 1 := by omega
    rw [e]
    unfold strchr_s qChkS
    have h1 : ¬ dmax = 0 := by omega
    have h2 : ¬ dmax > RSIZE_MAX_STR := by omega
    have h3 : ¬ ch > 255 := by omega
    simp only [hd, h1, h2, h3, if_false, exec_bind, exec_pure, reduceCtorEq,
      strchrP_eq hall (chCell ch) scanFuel dest (dmax+1) (by omega) hz]
    cases hfi : firstIdx st.data (chCell ch) dest (scanLen st.data dest (dmax+1) + 1) with
    | none => simp
    | some i =>
      have := (firstIdx_some _ _ _ _ _ hfi).1
      have h5 : ¬ dmax < i := by omega
      simp [hd, h5]
  · have hL : scanLen st.data dest (dmax+1) = dmax + 1 := by
      have := scanLen_le st.data dest (dmax+1); omega
    have e : min (scanLen st.data dest (dmax+1) + 1) (dmax+1) = dmax + 1 := by omega
    rw [e]
    have hnz : ∀ j, j < dmax + 1 → st.data (dest + j) ≠ 0 := fun j hj =>
      scanLen_nonzero st.data dest (dmax+1) j (by omega)
    cases hfi : firstIdx st.data (chCell ch) dest (dmax+1) with
    | some k =>
      obtain ⟨hk, hat, hbef⟩ := firstIdx_some _ _ _ _ _ hfi
      exact strchr_s_hit_eq dest dmax ch st hall hd hpos hle hch k (by omega)
        (fun j hj => ⟨hbef j hj, hnz j (by omega)⟩) hat
    | none =>
      have hno := firstIdx_none _ _ _ _ hfi
      obtain ⟨r, hr, hge⟩ := strchrP_far hall (chCell ch) scanFuel dest (dmax+1)
        (fun j hj => ⟨hno j hj, hnz j hj⟩)
      unfold strchr_s qChkS
      have h1 : ¬ dmax = 0 := by omega
      have h2 : ¬ dmax > RSIZE_MAX_STR := by omega
      have h3 : ¬ ch > 255 := by omega
      simp only [hd, h1, h2, h3, if_false, exec_bind, exec_pure, reduceCtorEq, hr]
      rcases hge with rfl | hge
      · simp
      · have h4 : ¬ r = 0 := by omega
        have h5 : r - dest > dmax := by omega
        simp [h4, h5]

/-- `dest = "ab…"`, `dmax = 1`, searching `'b'`: there is no `'b'` among the first `dmax` characters,
yet EOK and `dest + 1` are returned.  Known finding `strchr-off-by-one`. -/
theorem strchr_s_offbyone_witness :
    exec (strchr_s 100 1 98 none) (wMem fun a => if a = 100 then 97 else if a = 101 then 98 else 0) =
      .ok ((EOK, 101), wMem fun a => if a = 100 then 97 else if a = 101 then 98 else 0) ∧
    firstIdx (fun a => if a = 100 then 97 else if a = 101 then 98 else 0) (chCell 98) 100 1 = none := by
  constructor
  · refine strchr_s_hit_eq 100 1 98 _ (wMem_all _) (by decide) (by decide) (by decide) (by decide) 1 (by decide) ?_ ?_
    · intro j hj
      have : j = 0 := by omega
      subst this; simp [wMem, chCell]
    · simp [wMem, chCell]
  · decide

example : ∃ st : St, AllRd st ∧ scanLen st.data 100 4 < 4 ∧ firstIdx st.data (chCell 98) 100 (scanLen st.data 100 4 + 1) = some 1 :=
  ⟨wMem fun a => if a = 100 then 97 else if a = 101 then 98 else 0, wMem_all _, by decide, by decide⟩

/-! ## strrchr_s

FULL statement (false of the code): *the last of the characters of `dest` — terminator included, at
most `dmax` — equal to `(char)ch`.*  The code returns ESZEROL for the empty string (documented), so
the terminator of an empty string is never found. -/

/-- **strrchr_s, partial** (`dest` not empty): the LAST occurrence of the character among the
characters of the string including its terminator, or among the first `dmax` cells if there is no
terminator among them -/
theorem strrchr_s_C10_partial (dest dmax : Nat) (ch : Int) (st : St) (hall : AllRd st)
    (hd : dest ≠ 0) (hpos : 0 < dmax) (hle : dmax ≤ RSIZE_MAX_STR) (hch : ch ≤ 255)
    (hne : st.data dest ≠ 0) :
    exec (strrchr_s dest dmax ch none) st =
      .ok ((match lastIdx st.data (chCell ch) dest (min (scanLen st.data dest dmax + 1) dmax) with
            | some i => (EOK, dest + i) | none => (ESNOTFND, 0)), st) := by
  unfold strrchr_s qChkS
  have h1 : ¬ dmax = 0 := by omega
  have h2 : ¬ dmax > RSIZE_MAX_STR := by omega
  have h3 : ¬ ch > 255 := by omega
  have hlen : scanLen st.data dest dmax ≠ 0 := by
    cases dmax with
    | zero => omega
    | succ n => rw [scanLen_succ_of_ne _ _ _ hne]; omega
  have hl := scanLen_le st.data dest dmax
  have hmm : RSIZE_MAX_STR ≤ RSIZE_MAX_MEM := by decide
  simp only [hd, h1, h2, h3, if_false, exec_bind, exec_pure, reduceCtorEq,
    strnlen_s_C10 dest dmax st hall hd hpos hle]
  simp only [ne_eq, hlen, not_false_eq_true, if_true]
  have e : (if dmax = scanLen st.data dest dmax then dmax else scanLen st.data dest dmax + 1) =
      min (scanLen st.data dest dmax + 1) dmax := by split <;> omega
  rw [e]
  exact memrchr_s_C10 dest _ ch st hall hd (by omega) (by omega) hch

/-- the empty string: ESZEROL (documented), no handler call, nothing found — also when the character
sought is the terminator itself, which `strrchr("", 0)` finds at offset 0.  Known finding `strrchr-empty`. -/
theorem strrchr_s_empty_witness (dest dmax : Nat) (ch : Int) (st : St) (hall : AllRd st)
    (hd : dest ≠ 0) (hpos : 0 < dmax) (hle : dmax ≤ RSIZE_MAX_STR) (hch : ch ≤ 255)
    (h0 : st.data dest = 0) :
    exec (strrchr_s dest dmax ch none) st = .ok ((ESZEROL, 0), st) := by
  unfold strrchr_s qChkS
  have h1 : ¬ dmax = 0 := by omega
  have h2 : ¬ dmax > RSIZE_MAX_STR := by omega
  have h3 : ¬ ch > 255 := by omega
  have hlen : scanLen st.data dest dmax = 0 := by
    cases dmax with
    | zero => rfl
    | succ n => exact scanLen_succ_of_eq _ _ _ h0
  simp only [hd, h1, h2, h3, if_false, exec_bind, exec_pure, reduceCtorEq,
    strnlen_s_C10 dest dmax st hall hd hpos hle]
  simp [hlen]

example : ∃ st : St, AllRd st ∧ st.data 100 ≠ 0 ∧
    lastIdx st.data (chCell 97) 100 (min (scanLen st.data 100 4 + 1) 4) = some 2 :=
  ⟨wMem fun a => if a = 100 then 97 else if a = 101 then 98 else if a = 102 then 97 else 0, wMem_all _, by decide, by decide⟩

/-! ## strfirstchar_s / strlastchar_s -/

/-- **strfirstchar_s**: the first of the characters of the string (before its terminator, at most
`dmax`) equal to `c`; ESNOTFND if none (always for `c = 0`) -/
theorem strfirstchar_s_C10 (dest dmax c : Nat) (st : St) (hall : AllRd st)
    (hd : dest ≠ 0) (hpos : 0 < dmax) (hle : dmax ≤ RSIZE_MAX_STR) :
    exec (strfirstchar_s dest dmax c none) st =
      .ok ((match firstIdx st.data (c % 256) dest (scanLen st.data dest dmax) with
            | some i => (EOK, dest + i) | none => (ESNOTFND, 0)), st) := by
  unfold strfirstchar_s chkDmaxQ
  have h1 : ¬ dmax = 0 := by omega
  have h2 : ¬ dmax > RSIZE_MAX_STR := by omega
  simp only [hd, h1, h2, if_false]
  exact firstcharLoop_eq hall _ _ _

/-- **strlastchar_s**: the last such character -/
theorem strlastchar_s_C10 (dest dmax c : Nat) (st : St) (hall : AllRd st)
    (hd : dest ≠ 0) (hpos : 0 < dmax) (hle : dmax ≤ RSIZE_MAX_STR) :
    exec (strlastchar_s dest dmax c none) st =
      .ok ((match lastIdx st.data (c % 256) dest (scanLen st.data dest dmax) with
            | some i => (EOK, dest + i) | none => (ESNOTFND, 0)), st) := by
  unfold strlastchar_s chkDmaxQ
  have h1 : ¬ dmax = 0 := by omega
  have h2 : ¬ dmax > RSIZE_MAX_STR := by omega
  simp only [hd, h1, h2, if_false, exec_bind, lastcharLoop_eq hall]
  cases lastIdx st.data (c % 256) dest (scanLen st.data dest dmax) with
  | none => simp
  | some i => simp [hd]

example : ∃ st : St, AllRd st ∧ firstIdx st.data (97 % 256) 100 (scanLen st.data 100 4) = some 0 ∧
    lastIdx st.data (97 % 256) 100 (scanLen st.data 100 4) = some 2 :=
  ⟨wMem fun a => if a = 100 then 97 else if a = 101 then 98 else if a = 102 then 97 else 0, wMem_all _, by decide, by decide⟩

/-! ## strfirstdiff_s / strfirstsame_s / strlastdiff_s / strlastsame_s -/

/-- **strfirstdiff_s**: the first index, before either string ends and below `dmax`, at which the two
strings differ; ESNODIFF if there is none -/
theorem strfirstdiff_s_C10 (dest dmax src : Nat) (st : St) (hall : AllRd st)
    (hd : dest ≠ 0) (hs : src ≠ 0) (hpos : 0 < dmax) (hle : dmax ≤ RSIZE_MAX_STR) :
    exec (strfirstdiff_s dest dmax src none) st =
      .ok ((match pairFirst false st.data dest src dmax with
            | some i => (EOK, i) | none => (ESNODIFF, 0)), st) := by
  unfold strfirstdiff_s pairFn chkDmaxQ
  have h1 : ¬ dmax = 0 := by omega
  have h2 : ¬ dmax > RSIZE_MAX_STR := by omega
  simp only [hd, hs, h1, h2, if_false, exec_bind, pairLoop_first_eq hall _ _ _ _ _ _ (Nat.le_refl _)]
  cases pairFirst false st.data dest src dmax <;> simp

/-- **strfirstsame_s**: the first index at which the two strings have the same character -/
theorem strfirstsame_s_C10 (dest dmax src : Nat) (st : St) (hall : AllRd st)
    (hd : dest ≠ 0) (hs : src ≠ 0) (hpos : 0 < dmax) (hle : dmax ≤ RSIZE_MAX_STR) :
    exec (strfirstsame_s dest dmax src none) st =
      .ok ((match pairFirst true st.data dest src dmax with
            | some i => (EOK, i) | none => (ESNOTFND, 0)), st) := by
  unfold strfirstsame_s pairFn chkDmaxQ
  have h1 : ¬ dmax = 0 := by omega
  have h2 : ¬ dmax > RSIZE_MAX_STR := by omega
  simp only [hd, hs, h1, h2, if_false, exec_bind, pairLoop_first_eq hall _ _ _ _ _ _ (Nat.le_refl _)]
  cases pairFirst true st.data dest src dmax <;> simp

/-- **strlastdiff_s**: the last index, before either string ends and below `dmax`, at which they differ -/
theorem strlastdiff_s_C10 (dest dmax src : Nat) (st : St) (hall : AllRd st)
    (hd : dest ≠ 0) (hs : src ≠ 0) (hpos : 0 < dmax) (hle : dmax ≤ RSIZE_MAX_STR) :
    exec (strlastdiff_s dest dmax src none) st =
      .ok ((match pairLast false st.data dest src dmax with
            | some i => (EOK, i) | none => (ESNODIFF, 0)), st) := by
  unfold strlastdiff_s pairFn chkDmaxQ
  have h1 : ¬ dmax = 0 := by omega
  have h2 : ¬ dmax > RSIZE_MAX_STR := by omega
  simp only [hd, hs, h1, h2, if_false, exec_bind, pairLoop_last_eq hall _ _ _ _ _ _ (Nat.le_refl _)]
  cases pairLast false st.data dest src dmax <;> simp

/-- **strlastsame_s**: the last index at which they have the same character -/
theorem strlastsame_s_C10 (dest dmax src : Nat) (st : St) (hall : AllRd st)
    (hd : dest ≠ 0) (hs : src ≠ 0) (hpos : 0 < dmax) (hle : dmax ≤ RSIZE_MAX_STR) :
    exec (strlastsame_s dest dmax src none) st =
      .ok ((match pairLast true st.data dest src dmax with
            | some i => (EOK, i) | none => (ESNOTFND, 0)), st) := by
  unfold strlastsame_s pairFn chkDmaxQ
  have h1 : ¬ dmax = 0 := by omega
  have h2 : ¬ dmax > RSIZE_MAX_STR := by omega
  simp only [hd, hs, h1, h2, if_false, exec_bind, pairLoop_last_eq hall _ _ _ _ _ _ (Nat.le_refl _)]
  cases pairLast true st.data dest src dmax <;> simp

/-- what `pairFirst` / `pairLast` mean, in terms of `pairLen` (the common length below `dmax`) -/
theorem pairFirst_spec (same : Bool) (d : Nat → Nat) (p q n : Nat) :
    (∀ i, pairFirst same d p q n = some i →
      i < pairLen d p q n ∧ (d (p+i) == d (q+i)) = same ∧ ∀ k, k < i → (d (p+k) == d (q+k)) = !same) ∧
    (pairFirst same d p q n = none → ∀ k, k < pairLen d p q n → (d (p+k) == d (q+k)) = !same) :=
  ⟨fun i => pairFirst_some same d p q n i, pairFirst_none same d p q n⟩

theorem pairLast_spec (same : Bool) (d : Nat → Nat) (p q n : Nat) :
    (∀ i, pairLast same d p q n = some i →
      i < pairLen d p q n ∧ (d (p+i) == d (q+i)) = same ∧
      ∀ k, i < k → k < pairLen d p q n → (d (p+k) == d (q+k)) = !same) ∧
    (pairLast same d p q n = none → ∀ k, k < pairLen d p q n → (d (p+k) == d (q+k)) = !same) :=
  ⟨fun i => pairLast_some same d p q n i, pairLast_none same d p q n⟩

example : ∃ st : St, AllRd st ∧ pairFirst false st.data 100 200 4 = some 1 ∧ pairLast true st.data 100 200 4 = some 2 :=
  ⟨wMem fun a => if a = 100 then 97 else if a = 101 then 98 else if a = 102 then 97 else
      if a = 200 then 97 else if a = 201 then 99 else if a = 202 then 97 else 0, wMem_all _, by decide, by decide⟩

/-! ## strprefix_s

FULL statement (false of the code): *EOK iff the string `src` is a prefix of the first `dmax`
characters of `dest`, ESNOTFND otherwise.*  The code answers ESNOTFND for the empty prefix and EOK
when `dmax` runs out before `src` does. -/

/-- what `strprefix_s` computes on ANY memory -/
theorem strprefix_s_eq (dest dmax src : Nat) (st : St) (hall : AllRd st)
    (hd : dest ≠ 0) (hs : src ≠ 0) (hpos : 0 < dmax) (hle : dmax ≤ RSIZE_MAX_STR) :
    exec (strprefix_s dest dmax src none) st =
      .ok ((if st.data src = 0 then ESNOTFND
            else if subAt id st.data dest src (scanLen st.data src dmax) = true then EOK else ESNOTFND), st) := by
  unfold strprefix_s qChkS
  have h1 : ¬ dmax = 0 := by omega
  have h2 : ¬ dmax > RSIZE_MAX_STR := by omega
  have h5 : ¬ (some src = some 0) := by simpa using hs
  simp only [hd, h1, h2, h5, if_false, exec_bind, exec_pure, exec_load_all hall]
  by_cases h0 : st.data src = 0
  · simp [h0]
  · simp only [h0, if_false]; exact strprefixLoop_eq hall _ _ _

/-- **strprefix_s, partial** (`src` not empty and terminated within `dmax` characters): EOK iff every
character of `src` equals the character of `dest` at the same index -/
theorem strprefix_s_C10_partial (dest dmax src : Nat) (st : St) (hall : AllRd st)
    (hd : dest ≠ 0) (hs : src ≠ 0) (hpos : 0 < dmax) (hle : dmax ≤ RSIZE_MAX_STR)
    (hne : st.data src ≠ 0) (_hz : scanLen st.data src dmax < dmax) :
    exec (strprefix_s dest dmax src none) st =
      .ok ((if subAt id st.data dest src (scanLen st.data src dmax) = true then EOK else ESNOTFND), st) := by
  rw [strprefix_s_eq dest dmax src st hall hd hs hpos hle]
  simp [hne]

/-- the empty prefix is reported as NOT found.  Known finding `strprefix-empty`. -/
theorem strprefix_s_empty_witness :
    exec (strprefix_s 100 2 200 none) (wMem fun a => if a = 100 then 97 else 0) =
      .ok (ESNOTFND, wMem fun a => if a = 100 then 97 else 0) := by
  rw [strprefix_s_eq _ _ _ _ (wMem_all _) (by decide) (by decide) (by decide) (by decide)]
  simp [wMem]

/-- `dest = "a…"` with `dmax = 1`, `src = "ab"`: the prefix is longer than the `dmax` characters of
`dest`, EOK is returned.  Known finding `strprefix-truncated-match`. -/
theorem strprefix_s_truncated_witness :
    exec (strprefix_s 100 1 200 none)
        (wMem fun a => if a = 100 then 97 else if a = 200 then 97 else if a = 201 then 98 else 0) =
      .ok (EOK, wMem fun a => if a = 100 then 97 else if a = 200 then 97 else if a = 201 then 98 else 0) := by
  rw [strprefix_s_eq _ _ _ _ (wMem_all _) (by decide) (by decide) (by decide) (by decide)]
  simp [wMem, scanLen, subAt]

example : ∃ st : St, AllRd st ∧ st.data 200 ≠ 0 ∧ scanLen st.data 200 4 < 4 ∧
    subAt id st.data 100 200 (scanLen st.data 200 4) = true :=
  ⟨wMem fun a => if a = 100 then 97 else if a = 101 then 98 else if a = 200 then 97 else 0, wMem_all _,
   by decide, by decide, by decide⟩

end SafeC.Props.C10

import SafeC.Props.C05Time
/-!
# C05 "meaning" for `gmtime_s` / `localtime_s` (`tmConv`): the result depends on the arguments and on ONE cell, `*timer`

`tmCode dest timer t res` (with `t` the value of the cell `timer` in the entry state) = (value left in `errno` — EOK when
dest is returned —, the code handed to the str handler if any), transcribed from the doc comment of src/os/gmtime_s.c:
"May set errno to EOVERFLOW when *timer > 313360441200L, the year 10000, … or < 0, or to ESNULLP when dest or timer is a
NULL pointer."  The handler codes ESLEMIN / ESLEMAX are the code's (known finding `tmconv-handler-code-differs-from-errno`).
The code rejects `*timer >= MAX_TIME_T_STR`, the doc comment says `>`: `_partial` away from that one value, + witness.
-/
namespace SafeC.Props.C05Meaning
open SafeC Gen SafeC.Props.C05Ev SafeC.Props.C05Time

def tmCode (dest timer t res : Nat) : Nat × Option Nat :=
  if dest = 0 then (ESNULLP, some ESNULLP)
  else if timer = 0 then (ESNULLP, some ESNULLP)
  else if cellI64 t < 0 then (EOVERFLOW, some ESLEMIN)
  else if cellI64 t > MAX_TIME_T_STR then (EOVERFLOW, some ESLEMAX)
  else if res = 0 then (NEG1, none)       -- libc could not convert
  else (EOK, none)

theorem noteRd_events (s : St) (a : Nat) : (s.noteRd a).events = s.events := by
  unfold St.noteRd St.stray; split <;> rfl
theorem noteRd_data (s : St) (a : Nat) : (s.noteRd a).data = s.data := by
  unfold St.noteRd St.stray; split <;> rfl
theorem noteRd_mapped (s : St) (a : Nat) : (s.noteRd a).mapped = s.mapped := by
  unfold St.noteRd St.stray; split <;> rfl

/-- `handler(c); return x;` -/
theorem report_ret (c x : Nat) (st : St) (r : Nat) (st' : St)
    (he : exec (do handlerS c; pure x : Prog Nat) st = .ok (r, st')) :
    r = x ∧ st'.events = st.events ++ [.handler .str c] := by
  have h : EV (do handlerS c; pure x : Prog Nat) (fun r es => r = x ∧ es = [Event.handler .str c]) :=
    EV.bind (EV.handlerS c) (fun _ es he => by subst he; exact EV.pure _ ⟨rfl, by simp⟩)
  obtain ⟨es, h1, h2, h3⟩ := h.sound st he
  subst h3; exact ⟨h2, h1⟩

/- FULL statement (no hypothesis on `*timer`), false of the code: `tmConv_meaning_witness` -/
/-- gmtime_s / localtime_s: for all arguments and all memory whose `*timer` is not exactly MAX_TIME_T_STR, the value left
in errno and the report are `tmCode` of the arguments and of that one cell -/
theorem tmConv_meaning_partial (timer dest res : Nat) (st : St) (r : Nat) (st' : St)
    (ht : cellI64 (st.data timer) ≠ MAX_TIME_T_STR)
    (he : exec (tmConv timer dest res) st = .ok (r, st')) :
    r = (tmCode dest timer (st.data timer) res).1 ∧
      st'.events = st.events ++ ((tmCode dest timer (st.data timer) res).2).toList.map (Event.handler .str) := by
  have nul : ∀ st r st', exec (failS ESNULLP) st = .ok (r, st') →
      r = ESNULLP ∧ st'.events = st.events ++ [Event.handler .str ESNULLP] := by
    intro st r st' he
    obtain ⟨es, h1, h2, h3⟩ := (EV.failS ESNULLP).sound st he
    subst h3; exact ⟨h2, h1⟩
  by_cases h1 : dest = 0
  · simp only [tmConv, tmCode, h1, if_true] at he ⊢
    simpa using nul _ _ _ he
  by_cases h2 : timer = 0
  · simp only [tmConv, tmCode, h1, h2, if_true, if_false] at he ⊢
    simpa using nul _ _ _ he
  simp only [tmConv, h1, h2, if_false] at he
  rw [exec_bind, exec_load] at he
  by_cases hm : st.mapped timer = true
  · simp only [hm, if_true] at he
    by_cases h3 : cellI64 (st.data timer) < 0
    · simp only [h3, if_true] at he
      have := report_ret _ _ _ _ _ he
      simp only [tmCode, h1, h2, h3, if_true, if_false, noteRd_events] at this ⊢
      simpa using this
    simp only [h3, if_false] at he
    rw [exec_bind, exec_load] at he
    simp only [noteRd_mapped, noteRd_data, hm, if_true] at he
    by_cases h4 : cellI64 (st.data timer) ≥ MAX_TIME_T_STR
    · have h4' : cellI64 (st.data timer) > MAX_TIME_T_STR := by omega
      simp only [h4, if_true] at he
      have := report_ret _ _ _ _ _ he
      simp only [tmCode, h1, h2, h3, h4', if_true, if_false, noteRd_events] at this ⊢
      simpa using this
    have h4' : ¬ cellI64 (st.data timer) > MAX_TIME_T_STR := by omega
    simp only [h4, if_false] at he
    by_cases h5 : res = 0
    · simp only [h5, if_true, exec_pure] at he
      injection he with he; injection he with hr hs
      subst hr; subst hs
      simp only [tmCode, h1, h2, h3, h4', h5, if_true, if_false, noteRd_events]
      simp
    · simp only [h5, if_false] at he
      have hq : EV (do copyTm 14 0 res dest; pure EOK : Prog Nat) (fun r es => r = EOK ∧ es = []) :=
        Quiet.then_ (q_copyTm _ _ _ _) (fun _ => EV.pure _ ⟨rfl, rfl⟩)
      obtain ⟨es, e1, e2, e3⟩ := hq.sound _ he
      subst e3
      simp only [tmCode, h1, h2, h3, h4', h5, if_false, noteRd_events] at e1 ⊢
      exact ⟨e2, by simpa using e1⟩
  · simp only [hm] at he
    cases he

/-- the excluded point: `*timer == 313360441200` is rejected (`>=` in the code) although the doc comment names only
`*timer > 313360441200L` -/
theorem tmConv_meaning_witness :
    ((exec (gmtime_s 8 100 200)
      { data := fun a => if a = 8 then 313360441200 else 0, mapped := fun _ => true, rd := fun _ => true, wr := fun _ => true }).toOption.map
        (fun x => (x.1, x.2.events)))
      = some (EOVERFLOW, [.handler .str ESLEMAX]) ∧ tmCode 100 8 313360441200 200 = (EOK, none) := by
  decide

/-- no report and EOK / "libc failed" exactly when no documented condition holds -/
theorem tmCode_ok_iff (dest timer t res : Nat) :
    (tmCode dest timer t res).2 = none ↔ dest ≠ 0 ∧ timer ≠ 0 ∧ 0 ≤ cellI64 t ∧ cellI64 t ≤ MAX_TIME_T_STR := by
  unfold tmCode
  repeat' split
  all_goals simp
  all_goals omega

/-- non-vacuity: a reporting run within the hypothesis (`*timer = -1`) -/
example : cellI64 (2^64 - 1) ≠ MAX_TIME_T_STR ∧ tmCode 100 8 (2^64 - 1) 200 = (EOVERFLOW, some ESLEMIN) := by decide

/-- gmtime_s: `tmConv_meaning_partial` under its own name -/
theorem gmtime_s_meaning_partial (timer dest res : Nat) (st : St) (r : Nat) (st' : St)
    (ht : cellI64 (st.data timer) ≠ MAX_TIME_T_STR) (he : exec (gmtime_s timer dest res) st = .ok (r, st')) :
    r = (tmCode dest timer (st.data timer) res).1 ∧
      st'.events = st.events ++ ((tmCode dest timer (st.data timer) res).2).toList.map (Event.handler .str) :=
  tmConv_meaning_partial timer dest res st r st' ht he

/-- localtime_s: the same code around `localtime_r` -/
theorem localtime_s_meaning_partial (timer dest res : Nat) (st : St) (r : Nat) (st' : St)
    (ht : cellI64 (st.data timer) ≠ MAX_TIME_T_STR) (he : exec (localtime_s timer dest res) st = .ok (r, st')) :
    r = (tmCode dest timer (st.data timer) res).1 ∧
      st'.events = st.events ++ ((tmCode dest timer (st.data timer) res).2).toList.map (Event.handler .str) :=
  tmConv_meaning_partial timer dest res st r st' ht he

end SafeC.Props.C05Meaning

import SafeC.Props.C01Ext
import SafeC.Models.Io
/-!
# C01 for asctime_s, ctime_s and gets_s

Setting and conclusion of `Props/C01.lean` (`Setting`, `Holds`): every cell mapped and readable with ARBITRARY contents, only
`dest[0..dmax)` writable; then for ALL arguments — any dmax, object size known or not, any `struct tm` / `time_t`, any text libc
hands back (terminated or not), ANY stream contents of any length for gets_s — the call returns, records no stray write and
leaves every cell outside `dest[0..dmax)` bit-identical.

`gets_s_C01` is the theorem that the tree before 27b40b4 does not satisfy: it called `fgets(dest, dmax + 1, stdin)` and stored
the terminator of every line of `dmax - 1` or more characters at `dest[dmax]` (fixed finding `gets-terminator-at-dest-dmax`).
The time functions are stated for `dmax ≥ 120 → ` nothing: libc writes at most 26 bytes, `copyText 120` is the model's bound.
-/
namespace SafeC.Props.C01
open SafeC Gen

theorem SW_anyField {lo hi : Nat} (tm : Nat) (l : List (Nat × (Int → Bool))) : SW lo hi (anyField tm l) (fun _ => True) := by
  induction l with
  | nil => unfold anyField; sw_walk
  | cons x xs ih => obtain ⟨i, p⟩ := x; unfold anyField; sw_walk using ih

theorem SW_copyText {lo hi : Nat} (f t d : Nat) (h : lo ≤ d ∧ d + f ≤ hi) : SW lo hi (copyText f t d) (fun _ => True) := by
  induction f generalizing t d with
  | zero => unfold copyText; sw_walk
  | succ f ih =>
    unfold copyText
    refine SW.bind (SW.loadP t) (fun c _ => ?_)
    refine SW.bind (SW.storeP d c (by omega) (by omega)) (fun _ _ => ?_)
    split
    · exact SW.pure _ trivial
    · exact ih _ _ (by omega)

theorem SW_timeTail {lo hi : Nat} (cfg : Cfg) (dest dmax : Nat) (db : Bos) (text : Nat) (lf : Bool) (hpos : 26 ≤ dmax)
    (h : lo ≤ dest ∧ dest + dmax ≤ hi) : SW lo hi (timeTail cfg dest dmax db text lf) (fun _ => True) := by
  unfold timeTail
  dsimp only
  split
  · refine SW.bind (Q := fun _ => True) ?_ (fun _ _ => ?_)
    · split
      · rename_i hc
        exact SW_copyText 120 text dest (by omega)
      · exact SW.pure _ trivial
    refine SW.bind (Q := fun _ => True) ?_ (fun _ _ => SW.pure _ trivial)
    split
    · exact SW.memsetP 0 dmax dest (Or.inr h)
    · exact SW.storeP dest 0 (by omega) (by omega)
  split
  · refine SW.bind (SW_copyText 120 text dest (by omega)) (fun _ _ => ?_)
    refine SW.bind (SW_strlenP _ _ _) (fun len _ => ?_)
    split
    · exact SW.bind (SW_strcpy_s cfg dest dmax dest db (Or.inr h)) (fun _ _ => SW.pure _ trivial)
    · exact SW.bind (SW.handlerS _) (fun _ _ => SW.pure _ trivial)
  · refine SW.bind (SW_strlenP _ _ _) (fun len _ => ?_)
    split
    · exact SW.bind (SW_strcpy_s cfg dest dmax text none (Or.inr h)) (fun _ _ => SW.pure _ trivial)
    · exact SW.bind (SW.handlerS _) (fun _ _ => SW.pure _ trivial)

theorem SW_failClr {lo hi : Nat} (cfg : Cfg) (dest dmax code : Nat) (hpos : 0 < dmax) (h : lo ≤ dest ∧ dest + dmax ≤ hi) :
    SW lo hi (failClr cfg dest dmax code) (fun _ => True) := by
  unfold failClr
  exact SW.bind (SW.handleError cfg dest dmax code h.1 h.2 (by omega)) (fun _ _ => SW.pure _ trivial)

theorem SW_timeEntry {lo hi : Nat} (dest dmax : Nat) (db : Bos) {k : Prog Nat}
    (h : dest = 0 ∨ (lo ≤ dest ∧ dest + dmax ≤ hi))
    (hk : dest ≠ 0 → 26 ≤ dmax → SW lo hi k (fun _ => True)) : SW lo hi (timeEntry dest dmax db k) (fun _ => True) := by
  unfold timeEntry
  split
  · exact SW.failS _
  have hd : dest ≠ 0 := by assumption
  have hh : lo ≤ dest ∧ dest + dmax ≤ hi := by rcases h with h | h; exact absurd h hd; exact h
  split
  · refine SW.bind (Q := fun _ => True) ?_ (fun _ _ => SW.failS _)
    split
    · exact SW.storeP dest 0 (by omega) (by omega)
    · exact SW.pure _ trivial
  split
  · split
    · exact SW.failS _
    · exact hk hd (by omega)
  · split
    · split <;> exact SW.failS _
    split
    · exact SW.failS _
    · exact hk hd (by omega)

theorem SW_asctime_s {lo hi : Nat} (cfg : Cfg) (dest dmax tm : Nat) (db : Bos) (text : Nat)
    (h : dest = 0 ∨ (lo ≤ dest ∧ dest + dmax ≤ hi)) : SW lo hi (asctime_s cfg dest dmax tm db text) (fun _ => True) := by
  unfold asctime_s
  refine SW_timeEntry dest dmax db h (fun hd h26 => ?_)
  have hh : lo ≤ dest ∧ dest + dmax ≤ hi := by rcases h with h | h; exact absurd h hd; exact h
  split
  · exact SW_failClr cfg dest dmax _ (by omega) hh
  refine SW.bind (SW_anyField _ _) (fun s1 _ => ?_)
  refine SW.bind (Q := fun _ => True) (by split <;> sw_walk) (fun s2 _ => ?_)
  split
  · exact SW_failClr cfg dest dmax _ (by omega) hh
  refine SW.bind (SW_anyField _ _) (fun b1 _ => ?_)
  refine SW.bind (Q := fun _ => True) (by split <;> sw_walk) (fun b2 _ => ?_)
  split
  · exact SW_failClr cfg dest dmax _ (by omega) hh
  · exact SW_timeTail cfg dest dmax db text false h26 hh

theorem SW_ctime_s {lo hi : Nat} (cfg : Cfg) (dest dmax timer : Nat) (db : Bos) (text : Nat) (lf : Bool)
    (h : dest = 0 ∨ (lo ≤ dest ∧ dest + dmax ≤ hi)) : SW lo hi (ctime_s cfg dest dmax timer db text lf) (fun _ => True) := by
  unfold ctime_s
  refine SW_timeEntry dest dmax db h (fun hd h26 => ?_)
  have hh : lo ≤ dest ∧ dest + dmax ≤ hi := by rcases h with h | h; exact absurd h hd; exact h
  split
  · exact SW_failClr cfg dest dmax _ (by omega) hh
  refine SW.bind (SW.loadP _) (fun t _ => ?_)
  dsimp only
  split
  · exact SW_failClr cfg dest dmax _ (by omega) hh
  refine SW.bind (SW.loadP _) (fun t2 _ => ?_)
  split
  · exact SW_failClr cfg dest dmax _ (by omega) hh
  · exact SW_timeTail cfg dest dmax db text lf h26 hh

/-- **asctime_s**: all arguments, any `struct tm` contents, any text -/
theorem asctime_s_C01 (cfg : Cfg) (dest dmax tm : Nat) (db : Bos) (text : Nat) (st : St) (hs : Setting st)
    (hrw : dest ≠ 0 → RW st dest dmax) :
    ∃ r st', exec (asctime_s cfg dest dmax tm db text) st = .ok (r, st') ∧ Holds st st' :=
  holds_of_SW dest dmax st hs hrw (fun _ _ h => SW_asctime_s cfg dest dmax tm db text h)

/-- **ctime_s**: all arguments, any `time_t`, any text, libc succeeding or giving up (`lf`) -/
theorem ctime_s_C01 (cfg : Cfg) (dest dmax timer : Nat) (db : Bos) (text : Nat) (lf : Bool) (st : St) (hs : Setting st)
    (hrw : dest ≠ 0 → RW st dest dmax) :
    ∃ r st', exec (ctime_s cfg dest dmax timer db text lf) st = .ok (r, st') ∧ Holds st st' :=
  holds_of_SW dest dmax st hs hrw (fun _ _ h => SW_ctime_s cfg dest dmax timer db text lf h)

/-! ## gets_s -/

/-- glibc's fgets: at most `k` bytes stored, at `d, d+1, …`; the count it returns is bounded accordingly -/
theorem SW_fgetsLoop {lo hi : Nat} (k inp l d acc : Nat) (h : lo ≤ d ∧ d + k ≤ hi) :
    SW lo hi (fgetsLoop k inp l d acc) (fun r => r.1 ≤ acc + k) := by
  induction k generalizing inp l d acc with
  | zero => unfold fgetsLoop; exact SW.pure _ (by simp)
  | succ k ih =>
    cases l with
    | zero => unfold fgetsLoop; exact SW.pure _ (by simp)
    | succ l =>
      unfold fgetsLoop
      refine SW.bind (SW.loadP inp) (fun c _ => ?_)
      refine SW.bind (SW.storeP d c (by omega) (by omega)) (fun _ _ => ?_)
      split
      · exact SW.pure _ (by simp)
      · exact (ih (inp+1) l (d+1) (acc+1) (by omega)).conseq (fun r hr => by omega)

theorem SW_strnlenP {lo hi : Nat} (n s acc : Nat) : SW lo hi (strnlenP n s acc) (fun r => r ≤ acc + n) := by
  induction n generalizing s acc with
  | zero => unfold strnlenP; exact SW.pure _ (by simp)
  | succ n ih =>
    unfold strnlenP
    refine SW.bind (SW.loadP s) (fun c _ => ?_)
    split
    · exact SW.pure _ (by omega)
    · exact (ih (s+1) (acc+1)).conseq (fun r hr => by omega)

theorem SW_getsBody {lo hi : Nat} (cfg : Cfg) (dest dmax inp len : Nat) (hpos : 0 < dmax) (h : lo ≤ dest ∧ dest + dmax ≤ hi) :
    SW lo hi (getsBody cfg dest dmax inp len) (fun _ => True) := by
  unfold getsBody
  split
  · exact SW.bind (SW.storeP dest 0 (by omega) (by omega)) (fun _ _ => SW.pure _ trivial)
  refine SW.bind (SW_fgetsLoop (dmax - 1) inp len dest 0 (by omega)) (fun r hr => ?_)
  obtain ⟨m, eof⟩ := r
  simp only [Nat.zero_add] at hr
  dsimp only
  have done_ : ∀ k, SW lo hi (do
      (if cfg.slack = true ∧ k < dmax then memsetP 0 (dmax - k) (dest + k) else pure ())
      pure EOK : Prog Nat) (fun _ => True) := by
    intro k
    refine SW.bind (Q := fun _ => True) ?_ (fun _ _ => SW.pure _ trivial)
    split
    · rename_i hk
      exact SW.memsetP 0 (dmax - k) (dest + k) (Or.inr (by omega))
    · exact SW.pure _ trivial
  split
  · exact SW.bind (SW.storeP dest 0 (by omega) (by omega)) (fun _ _ => SW.pure _ trivial)
  refine SW.bind (SW.storeP (dest + m) 0 (by omega) (by omega)) (fun _ _ => ?_)
  refine SW.bind (SW_strnlenP dmax dest 0) (fun n hn => ?_)
  simp only [Nat.zero_add] at hn
  refine SW.bind (Q := fun _ => True) (by split <;> sw_walk) (fun last _ => ?_)
  split
  · refine SW.bind (SW.storeP (dest + n - 1) 0 (by omega) (by omega)) (fun _ _ => done_ _)
  split
  · split
    · split
      · exact SW.pure _ trivial
      · exact done_ _
    · refine SW.bind (SW.loadP _) (fun c _ => ?_)
      split
      · exact done_ _
      · refine SW.bind (SW.handleError cfg dest dmax _ h.1 h.2 (by omega)) (fun _ _ => ?_)
        refine SW.bind (Q := fun _ => True) ?_ (fun _ _ => SW.pure _ trivial)
        split
        · exact SW.memsetP 0 dmax dest (Or.inr h)
        · exact SW.pure _ trivial
  · exact done_ _

theorem SW_gets_s {lo hi : Nat} (cfg : Cfg) (dest dmax : Nat) (db : Bos) (inp len : Nat)
    (h : dest = 0 ∨ (lo ≤ dest ∧ dest + dmax ≤ hi)) : SW lo hi (gets_s cfg dest dmax db inp len) (fun _ => True) := by
  unfold gets_s
  split
  · exact SW.failS _
  have hd : dest ≠ 0 := by assumption
  have hh : lo ≤ dest ∧ dest + dmax ≤ hi := by rcases h with h | h; exact absurd h hd; exact h
  split
  · exact SW.failS _
  split
  · split
    · exact SW.failS _
    · exact SW_getsBody cfg dest dmax inp len (by omega) hh
  · split
    · split <;> exact SW.failS _
    · exact SW_getsBody cfg dest dmax inp len (by omega) hh

/-- **gets_s**: all arguments and EVERY stream (`inp[0..len)`, any bytes, any length, newline or not, embedded NULs): nothing is
stored outside `dest[0..dmax)` -/
theorem gets_s_C01 (cfg : Cfg) (dest dmax : Nat) (db : Bos) (inp len : Nat) (st : St) (hs : Setting st)
    (hrw : dest ≠ 0 → RW st dest dmax) :
    ∃ r st', exec (gets_s cfg dest dmax db inp len) st = .ok (r, st') ∧ Holds st st' :=
  holds_of_SW dest dmax st hs hrw (fun _ _ h => SW_gets_s cfg dest dmax db inp len h)

/-- non-vacuity: a one-byte dest at 100 (the smallest buffer gets_s accepts), everything else read-only -/
example : ∃ st : St, Setting st ∧ ((100 : Nat) ≠ 0 → RW st 100 1) :=
  ⟨{ data := fun _ => 65, mapped := fun _ => true, rd := fun _ => true, wr := fun a => decide (a = 100) },
   ⟨fun _ => ⟨rfl, rfl⟩, rfl⟩, fun _ i hi => ⟨rfl, by simp; omega, rfl⟩⟩

/-! ## gmtime_s / localtime_s -/

theorem SW_copyTm {lo hi : Nat} (k i res dest : Nat) (h : lo ≤ dest ∧ dest + (i + k) ≤ hi) :
    SW lo hi (copyTm k i res dest) (fun _ => True) := by
  induction k generalizing i with
  | zero => unfold copyTm; exact SW.pure _ trivial
  | succ k ih =>
    unfold copyTm
    refine SW.bind (SW.loadP _) (fun v _ => ?_)
    refine SW.bind (Q := fun _ => True) ?_ (fun _ _ => ih (i+1) (by omega))
    split
    · exact SW.pure _ trivial
    · exact SW.storeP _ _ (by omega) (by omega)

theorem SW_tmConv {lo hi : Nat} (timer dest res : Nat) (h : dest = 0 ∨ (lo ≤ dest ∧ dest + 14 ≤ hi)) :
    SW lo hi (tmConv timer dest res) (fun _ => True) := by
  unfold tmConv
  split
  · exact SW.failS _
  have hd : dest ≠ 0 := by assumption
  have hh : lo ≤ dest ∧ dest + 14 ≤ hi := by rcases h with h | h; exact absurd h hd; exact h
  split
  · exact SW.failS _
  refine SW.bind (SW.loadP _) (fun t _ => ?_)
  split
  · exact SW.bind (SW.handlerS _) (fun _ _ => SW.pure _ trivial)
  refine SW.bind (SW.loadP _) (fun t2 _ => ?_)
  split
  · exact SW.bind (SW.handlerS _) (fun _ _ => SW.pure _ trivial)
  split
  · exact SW.pure _ trivial
  · exact SW.bind (SW_copyTm 14 0 res dest (by omega)) (fun _ _ => SW.pure _ trivial)

/-- **gmtime_s / localtime_s**: all arguments, any `*timer`, any result libc hands back: only the 14 cells of `*dest` are stored to -/
theorem gmtime_s_C01 (timer dest res : Nat) (st : St) (hs : Setting st) (hrw : dest ≠ 0 → RW st dest 14) :
    ∃ r st', exec (gmtime_s timer dest res) st = .ok (r, st') ∧ Holds st st' :=
  holds_of_SW dest 14 st hs hrw (fun _ _ h => SW_tmConv timer dest res h)

theorem localtime_s_C01 (timer dest res : Nat) (st : St) (hs : Setting st) (hrw : dest ≠ 0 → RW st dest 14) :
    ∃ r st', exec (localtime_s timer dest res) st = .ok (r, st') ∧ Holds st st' :=
  holds_of_SW dest 14 st hs hrw (fun _ _ h => SW_tmConv timer dest res h)

end SafeC.Props.C01

import SafeC.Props.C10Ext7
/-!
# C10, second part (8): `strcmp_s` with a known source size; what a too SMALL source size does

`strcmp_s` is the one query whose LOOP consults `srcbos`: after every matching pair it counts `slen++` and
gives up with ESUNTERM (handler) once `slen >= srcbos`.  With `k = stopIdx` (the index where the comparison
stops: first NUL / difference, at most `dmax`):

* `k = 0 ∨ k < sb`  ⇒ same execution as with the size unknown (`strcmp_s_srcbos_eq`, `strcmp_s_srcbos_irrelevant`);
  implied by `dmax < sb` and by "the source string and its terminator lie inside the object"
  (`strcmp_s_srcbos_terminated`);
* `0 < k ∧ sb ≤ k` ⇒ ESUNTERM, result 0, handler called once (`strcmp_s_srcbos_unterm`) — the exact complement.

The other functions reject `slen > sb` at entry, each in its own way (`srcbos_small_*`).
-/
namespace SafeC.Props.C10
open SafeC Gen

/-- the loop with a known source size that the comparison does not exhaust: as with the size unknown -/
theorem strcmpLoop_bos_eq {st : St} (h : AllRd st) (sb dmax dest src slen : Nat)
    (hk : stopIdx st.data dest src dmax = 0 ∨ slen + stopIdx st.data dest src dmax < sb) :
    exec (strcmpLoop (some sb) dmax dest src slen) st =
      .ok ((EOK, schar (st.data (dest + stopIdx st.data dest src dmax)) -
                 schar (st.data (src + stopIdx st.data dest src dmax))), st) := by
  induction dmax generalizing dest src slen with
  | zero =>
    unfold strcmpLoop
    simp only [exec_bind, exec_load_all h, stopIdx, Nat.add_zero]
    by_cases h0 : st.data dest = 0
    · simp [h0, strcmpTail, exec_bind, exec_load_all h]
    · simp only [h0, if_false, exec_bind, exec_load_all h]
      by_cases h1 : st.data src = 0 <;> simp [h1, strcmpTail, exec_bind, exec_load_all h]
  | succ n ih =>
    unfold strcmpLoop
    simp only [stopIdx] at hk
    simp only [exec_bind, exec_load_all h, stopIdx]
    by_cases h0 : st.data dest = 0
    · simp [h0, strcmpTail, exec_bind, exec_load_all h]
    · simp only [h0, if_false, exec_bind, exec_load_all h, false_or]
      by_cases h1 : st.data src = 0
      · simp [h1, strcmpTail, exec_bind, exec_load_all h]
      · simp only [h1, if_false, exec_bind, exec_load_all h, false_or]
        by_cases h2 : st.data dest = st.data src
        · have hk' : slen + (1 + stopIdx st.data (dest+1) (src+1) n) < sb := by
            rcases hk with hk | hk
            · simp [h1, h2] at hk
            · simpa [h0, h1, h2] using hk
          have hge : ¬ (slen + 1 ≥ sb) := by omega
          simp only [h2, ne_eq, not_true_eq_false, if_false, hge, decide_false, Bool.false_eq_true]
          rw [ih (dest+1) (src+1) (slen+1) (Or.inr (by omega))]
          simp [Nat.add_assoc, Nat.add_comm 1]
        · simp [h2, strcmpTail, exec_bind, exec_load_all h]

/-- the loop with a known source size that the matching prefix reaches: ESUNTERM through the handler -/
theorem strcmpLoop_bos_unterm {st : St} (h : AllRd st) (sb dmax dest src slen : Nat)
    (hpos : 0 < stopIdx st.data dest src dmax) (hk : sb ≤ slen + stopIdx st.data dest src dmax) :
    exec (strcmpLoop (some sb) dmax dest src slen) st =
      .ok ((ESUNTERM, 0), { st with events := st.events ++ [.handler .str ESUNTERM] }) := by
  induction dmax generalizing dest src slen with
  | zero => simp [stopIdx] at hpos
  | succ n ih =>
    unfold strcmpLoop
    simp only [stopIdx] at hk hpos
    by_cases h0 : st.data dest = 0
    · simp [h0] at hpos
    · by_cases h1 : st.data src = 0
      · simp [h1] at hpos
      · by_cases h2 : st.data dest = st.data src
        · have hk' : sb ≤ slen + (1 + stopIdx st.data (dest+1) (src+1) n) := by
            simpa [h0, h1, h2] using hk
          simp only [exec_bind, exec_load_all h, h1, h2, if_false, ne_eq, not_true_eq_false]
          by_cases hge : slen + 1 ≥ sb
          · simp [hge, handlerS, exec_bind]
          · simp only [hge, decide_false, Bool.false_eq_true, if_false]
            exact ih (dest+1) (src+1) (slen+1) (by omega) (by omega)
        · simp [h0, h1, h2] at hpos

/-- **strcmp_s, source size known**: what is computed on ANY memory when the matching prefix stays inside the
source object -/
theorem strcmp_s_srcbos_eq (dest dmax src sb : Nat) (st : St) (hall : AllRd st)
    (hd : dest ≠ 0) (hs : src ≠ 0) (hpos : 0 < dmax) (hle : dmax ≤ RSIZE_MAX_STR)
    (hk : stopIdx st.data dest src dmax = 0 ∨ stopIdx st.data dest src dmax < sb) :
    exec (strcmp_s dest dmax src none (some sb)) st =
      .ok ((EOK, schar (st.data (dest + stopIdx st.data dest src dmax)) -
                 schar (st.data (src + stopIdx st.data dest src dmax))), st) := by
  unfold strcmp_s qChkS
  have h1 : ¬ dmax = 0 := by omega
  have h2 : ¬ dmax > RSIZE_MAX_STR := by omega
  have h5 : ¬ (some src = some 0) := by simpa using hs
  simp only [hd, h1, h2, h5, if_false, exec_bind, exec_pure]
  exact strcmpLoop_bos_eq hall sb dmax dest src 0 (by simpa using hk)

/-- … hence the same execution as with the size unknown: `strcmp_s_eq`, `strcmp_s_C10_partial` transfer -/
theorem strcmp_s_srcbos_irrelevant (dest dmax src sb : Nat) (st : St) (hall : AllRd st)
    (hd : dest ≠ 0) (hs : src ≠ 0) (hpos : 0 < dmax) (hle : dmax ≤ RSIZE_MAX_STR)
    (hk : stopIdx st.data dest src dmax = 0 ∨ stopIdx st.data dest src dmax < sb) :
    exec (strcmp_s dest dmax src none (some sb)) st = exec (strcmp_s dest dmax src none none) st := by
  rw [strcmp_s_srcbos_eq dest dmax src sb st hall hd hs hpos hle hk, strcmp_s_eq dest dmax src st hall hd hs hpos hle]

/-- sufficient: the source string AND its terminator lie inside the source object (`scanLen src sb < sb`),
or the object is larger than `dmax` -/
theorem strcmp_s_srcbos_terminated (dest dmax src sb : Nat) (st : St) (hall : AllRd st)
    (hd : dest ≠ 0) (hs : src ≠ 0) (hpos : 0 < dmax) (hle : dmax ≤ RSIZE_MAX_STR)
    (hin : scanLen st.data src sb < sb ∨ dmax < sb) :
    exec (strcmp_s dest dmax src none (some sb)) st = exec (strcmp_s dest dmax src none none) st := by
  apply strcmp_s_srcbos_irrelevant dest dmax src sb st hall hd hs hpos hle
  right
  obtain ⟨s1, s2, _⟩ := stopIdx_spec st.data dest src dmax
  rcases hin with hin | hin
  · obtain ⟨_, _, z⟩ := scanLen_spec st.data src sb
    have hz := z hin
    by_cases hlt : stopIdx st.data dest src dmax < sb
    · exact hlt
    · exfalso
      have := s2 (scanLen st.data src sb) (by omega)
      rw [← this.2] at hz
      exact this.1 hz
  · omega

/-- **the boundary**: the strings agree and do not end on the first `sb` characters (`sb ≤ stopIdx`, at least
one matching pair): ESUNTERM, `*resultp = 0`, the handler is called — the exact complement of
`strcmp_s_srcbos_eq`'s hypothesis -/
theorem strcmp_s_srcbos_unterm (dest dmax src sb : Nat) (st : St) (hall : AllRd st)
    (hd : dest ≠ 0) (hs : src ≠ 0) (hpos : 0 < dmax) (hle : dmax ≤ RSIZE_MAX_STR)
    (hk0 : 0 < stopIdx st.data dest src dmax) (hk : sb ≤ stopIdx st.data dest src dmax) :
    exec (strcmp_s dest dmax src none (some sb)) st =
      .ok ((ESUNTERM, 0), { st with events := st.events ++ [.handler .str ESUNTERM] }) := by
  unfold strcmp_s qChkS
  have h1 : ¬ dmax = 0 := by omega
  have h2 : ¬ dmax > RSIZE_MAX_STR := by omega
  have h5 : ¬ (some src = some 0) := by simpa using hs
  simp only [hd, h1, h2, h5, if_false, exec_bind, exec_pure]
  exact strcmpLoop_bos_unterm hall sb dmax dest src 0 hk0 (by simpa using hk)

/-- non-vacuity: `"ab"` vs `"ab"`, `dmax = 4`; a 3-byte source object holds the string and its NUL … -/
example : ∃ st : St, AllRd st ∧ scanLen st.data 200 3 < 3 ∧ stopIdx st.data 100 200 4 = 2 :=
  ⟨wMem fun a => if a = 100 then 97 else if a = 101 then 98 else if a = 200 then 97 else if a = 201 then 98 else 0,
   wMem_all _, by decide, by decide⟩

/-- … a 2-byte one does not: ESUNTERM -/
theorem strcmp_s_srcbos_unterm_witness :
    exec (strcmp_s 100 4 200 none (some 2))
        (wMem fun a => if a = 100 then 97 else if a = 101 then 98 else if a = 200 then 97 else if a = 201 then 98 else 0) =
      .ok ((ESUNTERM, 0),
        { (wMem fun a => if a = 100 then 97 else if a = 101 then 98 else if a = 200 then 97 else if a = 201 then 98 else 0)
          with events := [.handler .str ESUNTERM] }) := by
  rw [strcmp_s_srcbos_unterm _ _ _ _ _ (wMem_all _) (by decide) (by decide) (by decide) (by decide) (by decide) (by decide)]
  rfl

end SafeC.Props.C10

import SafeC.Props.C10Ext6
/-!
# C10, second part (7): a known SOURCE object size that covers `slen` changes nothing

`C10Ext6` lifted `destbos`.  Here `srcbos`: with a KNOWN source size `sb` that contains the declared
source length (in the unit the function compares it in) each model that takes a `srcbos` is the SAME
program as with the size unknown, so every theorem of `C10 … C10Ext4` carries over verbatim
(`srcbos_irrelevant_{str,mem,wide}`).  `strcmp_s` is the one model whose LOOP consults `srcbos`
(file `C10Ext8`).  `strprefix_s`, `strcasecmp_s`, `strcmpfld_s`, `strchr_s`, … take no source size.

Where the code behaves differently with the size known, the boundary is stated exactly
(`*_srcbos_small`): `slen > sb` is rejected before any cell is read — with FIVE different
code / handler combinations over the family, and `strpbrk_s` additionally CLEARS `dest`
(known finding `strpbrk-clears-dest`; stated here as "the program is `handleStrBosOverflow`").
-/
namespace SafeC.Props.C10
open SafeC Gen

theorem qChkSlenS_bos (slen sb : Nat) (hb : slen ≤ sb) (hle : slen ≤ RSIZE_MAX_STR) :
    qChkSlenS slen (some sb) = qChkSlenS slen none := by
  unfold qChkSlenS
  have h1 : ¬ slen > sb := by omega
  have h2 : ¬ slen > RSIZE_MAX_STR := by omega
  simp only [h1, h2, if_false]

/-- narrow string queries with a set / needle operand: `srcbos = some sb` with `slen ≤ sb` is the same
program as `srcbos = none` (`strstr_s strpbrk_s strspn_s` need `slen` within the limit, because with the
size known the limit test is skipped: `bos-known-skips-limit`, C05; `strcasestr_s strcspn_s` test the
limit independently of `srcbos`).  Any `destbos`. -/
theorem srcbos_irrelevant_str (dest dmax src slen sb : Nat) (cfg : Cfg) (destbos : Bos) (hb : slen ≤ sb) :
    (slen ≤ RSIZE_MAX_STR →
      strstr_s dest dmax src slen destbos (some sb) = strstr_s dest dmax src slen destbos none ∧
      strpbrk_s cfg dest dmax src slen destbos (some sb) = strpbrk_s cfg dest dmax src slen destbos none ∧
      strspn_s dest dmax src slen destbos (some sb) = strspn_s dest dmax src slen destbos none) ∧
    strcasestr_s dest dmax src slen destbos (some sb) = strcasestr_s dest dmax src slen destbos none ∧
    strcspn_s dest dmax src slen destbos (some sb) = strcspn_s dest dmax src slen destbos none := by
  have h1 : ¬ slen > sb := by omega
  refine ⟨fun hle => ⟨?_, ?_, ?_⟩, ?_, ?_⟩
  · unfold strstr_s; rw [qChkSlenS_bos _ _ hb hle]
  · unfold strpbrk_s
    have h2 : ¬ slen > RSIZE_MAX_STR := by omega
    simp only [h1, h2, if_false]
  · unfold strspn_s; rw [qChkSlenS_bos _ _ hb hle]
  · unfold strcasestr_s; simp only [h1, decide_false, Bool.false_eq_true, if_false]
  · unfold strcspn_s; simp only [h1, decide_false, Bool.false_eq_true, if_false]

example : ∃ slen sb : Nat, slen ≤ sb ∧ slen ≤ RSIZE_MAX_STR ∧ 0 < slen := ⟨3, 4, by decide, by decide, by decide⟩

/-- the element compares (`sb` in BYTES; the 16/32-bit and wide variants compare `slen * width` with it) -/
theorem srcbos_irrelevant_mem (dest dlen src slen sb : Nat) (destbos : Bos) :
    (slen ≤ sb → slen ≤ RSIZE_MAX_MEM →
      memcmp_s dest dlen src slen destbos (some sb) = memcmp_s dest dlen src slen destbos none) ∧
    (slen * 2 ≤ sb → slen ≤ RSIZE_MAX_MEM16 →
      memcmp16_s dest dlen src slen destbos (some sb) = memcmp16_s dest dlen src slen destbos none) ∧
    (slen * 4 ≤ sb → slen ≤ RSIZE_MAX_MEM32 →
      memcmp32_s dest dlen src slen destbos (some sb) = memcmp32_s dest dlen src slen destbos none) ∧
    (slen * 4 ≤ sb → slen ≤ RSIZE_MAX_WMEM →
      wmemcmp_s dest dlen src slen destbos (some sb) = wmemcmp_s dest dlen src slen destbos none) := by
  refine ⟨fun hb hle => ?_, fun hb hle => ?_, fun hb hle => ?_, fun hb hle => ?_⟩
  · unfold memcmp_s memcmpG memcmpChecks
    have h1 : ¬ slen > sb := by omega
    have h2 : ¬ slen > RSIZE_MAX_MEM := by omega
    simp only [h1, h2, if_false]
  · unfold memcmp16_s memcmpG memcmpChecks
    have hm : RSIZE_MAX_MEM16 * 2 < 2^64 := by decide
    have e1 : slen * 2 % 2^64 = slen * 2 := Nat.mod_eq_of_lt (by omega)
    have h1 : ¬ slen * 2 > sb := by omega
    have h2 : ¬ slen > RSIZE_MAX_MEM16 := by omega
    simp only [e1, h1, h2, if_false]
  · unfold memcmp32_s memcmpG memcmpChecks
    have hm : RSIZE_MAX_MEM32 * 4 < 2^32 := by decide
    have e1 : slen * 4 % 2^32 = slen * 4 := Nat.mod_eq_of_lt (by omega)
    have h1 : ¬ slen * 4 > sb := by omega
    have h2 : ¬ slen > RSIZE_MAX_MEM32 := by omega
    simp only [e1, h1, h2, if_false]
  · unfold wmemcmp_s
    have hw : SIZEOF_WCHAR_T = 4 := rfl
    have hm : RSIZE_MAX_WMEM * 4 < two64 := by decide
    have e1 : slen * 4 % two64 = slen * 4 := Nat.mod_eq_of_lt (by omega)
    have h1 : ¬ slen * 4 > sb := by omega
    have h2 : ¬ slen > RSIZE_MAX_WMEM := by omega
    simp only [hw, e1, h1, h2, if_false]

example : ∃ slen sb : Nat, slen * 4 ≤ sb ∧ slen ≤ RSIZE_MAX_MEM32 ∧ slen ≤ RSIZE_MAX_WMEM ∧ 0 < slen :=
  ⟨3, 12, by decide, by decide, by decide, by decide⟩

/-- the wide queries (`sb` in BYTES): NO limit hypothesis is needed — `smax` / `slen` above `RSIZE_MAX_WSTR`
is rejected with ESLEMAX before `srcbos` is looked at, whether it is known or not -/
theorem srcbos_irrelevant_wide (dest dmax src smax count slen sb : Nat) (destbos : Bos) :
    (smax * 4 ≤ sb →
      wcscmp_s dest dmax src smax destbos (some sb) = wcscmp_s dest dmax src smax destbos none ∧
      wcsncmp_s dest dmax src smax count destbos (some sb) = wcsncmp_s dest dmax src smax count destbos none) ∧
    (slen * 4 ≤ sb →
      wcsstr_s dest dmax src slen destbos (some sb) = wcsstr_s dest dmax src slen destbos none) := by
  have hw : SIZEOF_WCHAR_T = 4 := rfl
  have hm : RSIZE_MAX_WSTR * 4 < two64 := by decide
  refine ⟨fun hb => ?_, fun hb => ?_⟩
  · have key : ∀ uc cnt, wcscmpG uc dest dmax src smax cnt destbos (some sb) =
        wcscmpG uc dest dmax src smax cnt destbos none := by
      intro uc cnt
      unfold wcscmpG
      by_cases hl : smax > RSIZE_MAX_WSTR
      · simp only [hl, if_true]
      · have e1 : smax * 4 % two64 = smax * 4 := Nat.mod_eq_of_lt (by omega)
        have h1 : ¬ smax * 4 > sb := by omega
        simp only [hw, e1, h1, if_false]
    exact ⟨by unfold wcscmp_s; exact key _ _, by unfold wcsncmp_s; exact key _ _⟩
  · unfold wcsstr_s
    by_cases hl : slen > RSIZE_MAX_WSTR
    · simp only [hl, if_true]
    · have e1 : slen * 4 % two64 = slen * 4 := Nat.mod_eq_of_lt (by omega)
      have h1 : ¬ slen * 4 > sb := by omega
      simp only [hw, e1, h1, if_false]

example : ∃ smax sb : Nat, smax * 4 ≤ sb ∧ 0 < smax := ⟨3, 12, by decide, by decide⟩

end SafeC.Props.C10

import SafeC.Models.Copy
/-! Property theorems for C09 (see DESIGN.md §4). -/
namespace SafeC.Props.C09
end SafeC.Props.C09

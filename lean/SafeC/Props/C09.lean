import SafeC.Proofs.Fmt
/-!
# C09 — `%n` is never executed by any formatted input or output function

Models: `SafeC/Models/Fmt.lean`.  Entry points fall into two groups.

* **engine-based** (`sprintf_s vsprintf_s snprintf_s vsnprintf_s printf_s fprintf_s vfprintf_s`):
  the format is interpreted by safeclib's own `safec_vsnprintf_s`, which contains no store through
  an argument at all; what has to be shown is the second half of the property, *such a format is
  rejected*: `engine_rejects_n`, for every format, against libc's full directive grammar.
* **libc-delegating** (`vprintf_s`; the 8 wide printf functions; the 6 narrow and 6 wide scanf
  functions): the only defence is the `strstr(fmt, "%n")` pre-scan, then libc interprets the
  format.  The full statement

      theorem delegating_C09 (fmt) : prescan fmt = false → libcScanfStoresN fmt = false      -- FALSE
      theorem delegating_printf_C09 (fmt) : prescan fmt = false → libcPrintfStoresN fmt = false  -- FALSE

  is false of the model because it is false of the code (`*_witness`); it is proved under the two
  hypotheses the proof needs (`*_partial`): every `n` conversion is written exactly `%n`, and the
  format nowhere has an `n` behind two percent signs.  Both are necessary (`*_needs_*_witness`).
-/
namespace SafeC.Props.C09
open SafeC.Fmt

/-! ## engine-based entry points -/

/-- engine, all formats: if libc's printf grammar (with glibc's extensions) finds an `n` conversion anywhere
    in the format, `safec_vsnprintf_s` returns a negative value from its specifier switch (the `n` case, or an
    illegal-specifier case earlier in the format) -/
theorem engine_rejects_n (fmt : Str) (h : libcPrintfStoresN fmt = true) : engineRejects fmt = true := by
  unfold engineRejects engine
  apply engLoop_rejects
  intro hn
  simp [libcPrintfStoresN, libcPrintfNs, hn] at h

/-- the seven engine-based entry points (pre-scan, then engine) reject every format with an `n` conversion -/
theorem engine_entry_rejects_n (fmt : Str) (h : libcPrintfStoresN fmt = true) : enginePrintfRejects fmt = true := by
  simp [enginePrintfRejects, engine_rejects_n fmt h]

/-- one directive: what the engine accepts, libc reads as the same characters and not as an `n` conversion
    (this also covers the single-directive sub-format the engine hands to libc's `snprintf` for `%Lf %La %a`) -/
theorem engine_directive_sync (f r : Str) (h : engDirective f = .next r) : libcPDirective f = (false, r) :=
  engDirective_sync f r h

/-- the spellings named in the property text, decided on the engine model (instances of `engine_rejects_n`) -/
theorem engine_rejects_samples :
    ∀ w ∈ ["%n", "%ln", "%lln", "%hhn", "%hn", "%jn", "%zn", "%tn", "%Ln", "%5n", "%*n", "%-n", "% n", "%+n", "%#n",
           "%0n", "%.3n", "%.*n", "%-+ #05.3lln", "%1$n", "%%%n", "%%n%n", "%d%%%d%hhn", "ab%5.2dcd%n"],
      engineRejects w.toList = true := by decide

/-! ## the fuel of the three loops is enough (they do read the whole format) -/

/-- more fuel than the length of the format changes nothing: the engine's loop -/
theorem engine_fuel (fmt : Str) (d : Nat) : engLoop (fmt.length + d) fmt = engine fmt := by
  induction d with
  | zero => rfl
  | succ d ih => rw [← Nat.add_assoc, engLoop_fuel _ _ (Nat.le_add_right _ _), ih]

/-- more fuel than the length of the format changes nothing: printf grammar -/
theorem libcPrintfNs_fuel (fmt : Str) (d : Nat) : printfNs (fmt.length + d) fmt = libcPrintfNs fmt := by
  induction d with
  | zero => rfl
  | succ d ih => rw [← Nat.add_assoc, printfNs_fuel _ _ (Nat.le_add_right _ _), ih]

/-- more fuel than the length of the format changes nothing: scanf grammar -/
theorem libcScanfNs_fuel (fmt : Str) (d : Nat) : scanfNs (fmt.length + d) fmt = libcScanfNs fmt := by
  induction d with
  | zero => rfl
  | succ d ih => rw [← Nat.add_assoc, scanfNs_fuel _ _ (Nat.le_add_right _ _), ih]

/-! ## libc-delegating entry points: scanf family (12 entry points) -/

/- FULL STATEMENT (false):
   theorem delegating_C09 (fmt : Str) : prescan fmt = false → libcScanfStoresN fmt = false -/

/-- formats the pre-scan lets through although libc's scanf stores through an argument for an `n` conversion -/
theorem delegating_C09_witness :
    ∀ w ∈ ["%ln", "%lln", "%hhn", "%hn", "%jn", "%zn", "%tn", "%Ln", "%qn", "%mn", "%5n", "%1$n", "%'n", "%In",
           "%%%n", "%%n%n", "%d%%%n", "%[%%n]%n"],
      prescan w.toList = false ∧ libcScanfStoresN w.toList = true := by decide

/-- scanf family, every format: if every `n` conversion libc finds is written exactly `%n`, and the format has
    no `n` directly behind two `%`, then a format the pre-scan lets through makes libc store through no argument
    for `%n` -/
theorem delegating_C09_partial (fmt : Str)
    (hbare : NSpell.decorated ∉ libcScanfNs fmt)
    (hesc : ¬ ['%', '%', 'n'] <:+: fmt)
    (hps : prescan fmt = false) : libcScanfStoresN fmt = false := by
  have hno := prescan_false_no_pctn hps hesc
  cases hl : libcScanfNs fmt with
  | nil => simp [libcScanfStoresN, hl]
  | cons x xs =>
    exfalso
    cases x with
    | bare =>
      have hm : NSpell.bare ∈ scanfNs fmt.length fmt := by
        have : scanfNs fmt.length fmt = NSpell.bare :: xs := hl
        rw [this]; exact List.mem_cons_self
      exact hno (scanfNs_bare_infix _ fmt hm)
    | decorated => exact hbare (by rw [hl]; exact List.mem_cons_self)

/-- the first hypothesis is needed: `%ln` has no `%%n`, passes the pre-scan, and stores -/
theorem delegating_C09_needs_bare_witness :
    ¬ ['%', '%', 'n'] <:+: "%ln".toList ∧ prescan "%ln".toList = false ∧ libcScanfStoresN "%ln".toList = true := by
  decide

/-- the second hypothesis is needed: in `%%%n` and `%%n%n` every `n` conversion is a bare `%n` -/
theorem delegating_C09_needs_noesc_witness :
    ∀ w ∈ ["%%%n", "%%n%n"], NSpell.decorated ∉ libcScanfNs w.toList ∧ prescan w.toList = false ∧
      libcScanfStoresN w.toList = true := by decide

/-- the hypotheses of `delegating_C09_partial` are satisfiable by formats with and without `n` -/
example : libcScanfStoresN "a%d%%b %5s%*n%[%]n]".toList = false :=
  delegating_C09_partial _ (by decide) (noPctPctN_sound (by decide)) (by decide)
example : prescan "%d %n".toList = true ∧ NSpell.decorated ∉ libcScanfNs "%d %n".toList ∧
    noPctPctN "%d %n".toList = true := by decide

/-! ## libc-delegating entry points: printf family (8 wide entry points and `vprintf_s`) -/

/- FULL STATEMENT (false):
   theorem delegating_printf_C09 (fmt : Str) : prescan fmt = false → libcPrintfStoresN fmt = false -/

/-- formats the pre-scan lets through although libc's printf stores through an argument for an `n` conversion -/
theorem delegating_printf_C09_witness :
    ∀ w ∈ ["%ln", "%lln", "%hhn", "%hn", "%jn", "%zn", "%tn", "%Ln", "%qn", "%Zn", "%5n", "%*n", "%-n", "% n", "%+n",
           "%#n", "%0n", "%'n", "%In", "%.3n", "%.*n", "%.n", "%1$n", "%1$*2$n", "%%%n", "%%n%n", "%d%%%n"],
      prescan w.toList = false ∧ libcPrintfStoresN w.toList = true := by decide

/-- printf family, every format: same statement as `delegating_C09_partial` for libc's printf grammar -/
theorem delegating_printf_C09_partial (fmt : Str)
    (hbare : NSpell.decorated ∉ libcPrintfNs fmt)
    (hesc : ¬ ['%', '%', 'n'] <:+: fmt)
    (hps : prescan fmt = false) : libcPrintfStoresN fmt = false := by
  have hno := prescan_false_no_pctn hps hesc
  cases hl : libcPrintfNs fmt with
  | nil => simp [libcPrintfStoresN, hl]
  | cons x xs =>
    exfalso
    cases x with
    | bare =>
      have hm : NSpell.bare ∈ printfNs fmt.length fmt := by
        have : printfNs fmt.length fmt = NSpell.bare :: xs := hl
        rw [this]; exact List.mem_cons_self
      exact hno (printfNs_bare_infix _ fmt hm)
    | decorated => exact hbare (by rw [hl]; exact List.mem_cons_self)

theorem delegating_printf_C09_needs_bare_witness :
    ¬ ['%', '%', 'n'] <:+: "%-n".toList ∧ prescan "%-n".toList = false ∧ libcPrintfStoresN "%-n".toList = true := by
  decide

theorem delegating_printf_C09_needs_noesc_witness :
    ∀ w ∈ ["%%%n", "%%n%n"], NSpell.decorated ∉ libcPrintfNs w.toList ∧ prescan w.toList = false ∧
      libcPrintfStoresN w.toList = true := by decide

example : libcPrintfStoresN "a%d%%b %-5.3ld%c".toList = false :=
  delegating_printf_C09_partial _ (by decide) (noPctPctN_sound (by decide)) (by decide)

/-! ## the pre-scan itself -/

/-- what a pre-scan that lets the format through establishes, all formats: no `%n` at all, or some `n` behind `%%` -/
theorem prescan_false_iff_shape (fmt : Str) (hps : prescan fmt = false) :
    ¬ ['%', 'n'] <:+: fmt ∨ ['%', '%', 'n'] <:+: fmt := by
  by_cases h : ['%', '%', 'n'] <:+: fmt
  · exact Or.inr h
  · exact Or.inl (prescan_false_no_pctn hps h)

/-- the alternative pre-scan in the sources (`#elif defined(HAVE_STRCHR)`, not compiled in this configuration, and
    not compilable) would be unsound as well: it looks at the first `n` of the format only -/
theorem prescanChr_unsound_witness :
    ∀ w ∈ ["n%n", "%dn%n", "%%n%n", "%ln"], prescanChr w.toList = false ∧ libcScanfStoresN w.toList = true ∧
      libcPrintfStoresN w.toList = true := by decide

end SafeC.Props.C09

import SafeC.Proofs.CopyDisjoint
/-!
# C08 — after success nothing stale remains behind the terminator

Default (null-slack) build: when strcpy_s / strncpy_s / strcat_s (and wcscpy_s) succeed on valid
operands, every cell of dest from the terminator up to dmax is zero, whatever dest held before
(no hypothesis on the prior contents of dest beyond strcat's own string).  Both strategies of the
clearing code (memset above 0x20 cells, byte loop below) are covered by `nullSlack_ok`.
No-slack build: the terminator is present (see C03/C06).
-/
namespace SafeC.Props.C08
open SafeC Gen

theorem strcpy_s_C08 (dest dmax src n : Nat) (st : St)
    (hd : dest ≠ 0) (hs : src ≠ 0) (hpos : 0 < dmax) (hle : dmax ≤ RSIZE_MAX_STR)
    (hrw : RW st dest dmax) (hsrc : SrcStr st src n) (hdisj : Disjoint dest dmax src n) :
    ∃ code st', exec (strcpy_s { slack := true } dest dmax src none) st = .ok (code, st') ∧
      (code = EOK → ∀ i, n ≤ i → i < dmax → st'.data (dest+i) = 0) := by
  obtain ⟨code, st', he, _, _, _, _, _, hok, hfail⟩ :=
    strcpyG_disjoint _ { slack := true } dest dmax src n st hd hs hpos hle hrw hsrc hdisj
  refine ⟨code, st', he, fun hc => ?_⟩
  by_cases h : n < dmax
  · exact (hok h).2.2.2.2 rfl
  · have := (hfail (by omega)).1
    rw [hc] at this; exact absurd this (by decide)

theorem wcscpy_eq (cfg : Cfg) (dest dmax src : Nat) :
    wcscpy_s cfg dest dmax src none = strcpyG RSIZE_MAX_WSTR cfg dest dmax src none := by
  unfold wcscpy_s strcpyG chkDmaxClearW chkDmaxClear chkDmaxClearG failS
  rfl

theorem wcscpy_s_C08 (dest dmax src n : Nat) (st : St)
    (hd : dest ≠ 0) (hs : src ≠ 0) (hpos : 0 < dmax) (hle : dmax ≤ RSIZE_MAX_WSTR)
    (hrw : RW st dest dmax) (hsrc : SrcStr st src n) (hdisj : Disjoint dest dmax src n) :
    ∃ code st', exec (wcscpy_s { slack := true } dest dmax src none) st = .ok (code, st') ∧
      (code = EOK → ∀ i, n ≤ i → i < dmax → st'.data (dest+i) = 0) := by
  rw [wcscpy_eq]
  obtain ⟨code, st', he, _, _, _, _, _, hok, hfail⟩ :=
    strcpyG_disjoint _ { slack := true } dest dmax src n st hd hs hpos hle hrw hsrc hdisj
  refine ⟨code, st', he, fun hc => ?_⟩
  by_cases h : n < dmax
  · exact (hok h).2.2.2.2 rfl
  · have := (hfail (by omega)).1
    rw [hc] at this; exact absurd this (by decide)

theorem strncpy_s_C08 (dest dmax src slen m : Nat) (st : St)
    (hd : dest ≠ 0) (hs : src ≠ 0) (hpos : 0 < dmax) (hle : dmax ≤ RSIZE_MAX_STR)
    (hslen : 0 < slen) (hslenle : slen ≤ RSIZE_MAX_STR)
    (hrw : RW st dest dmax)
    (hnz : ∀ j, j < m → st.data (src+j) ≠ 0)
    (hrd : ∀ j, j < m → st.mapped (src+j) = true ∧ st.rd (src+j) = true)
    (hfin : (m < slen ∧ st.data (src+m) = 0 ∧ st.mapped (src+m) = true ∧ st.rd (src+m) = true) ∨ slen = m)
    (hdisj : dest + dmax ≤ src ∨ src + m < dest) :
    ∃ code st', exec (strncpy_s { slack := true } dest dmax src slen none none) st = .ok (code, st') ∧
      (code = EOK → ∀ i, m ≤ i → i < dmax → st'.data (dest+i) = 0) := by
  obtain ⟨code, st', he, _, _, _, _, _, hok, hfail⟩ :=
    strncpyG_disjoint _ { slack := true } dest dmax src slen m st hd hs hpos hle (Nat.le_refl _) hslen hslenle hrw hnz hrd hfin hdisj
  refine ⟨code, st', he, fun hc => ?_⟩
  by_cases h : m < dmax
  · exact (hok h).2.2.2.2 rfl
  · have := (hfail (by omega)).1
    rw [hc] at this; exact absurd this (by decide)

theorem strcat_s_C08 (dest dmax src dl n : Nat) (st : St)
    (hd : dest ≠ 0) (hs : src ≠ 0) (hpos : 0 < dmax) (hle : dmax ≤ RSIZE_MAX_STR)
    (hrw : RW st dest dmax) (hsrc : SrcStr st src n) (hdisj : Disjoint dest dmax src n)
    (hdl : dl < dmax) (hdnz : ∀ j, j < dl → st.data (dest+j) ≠ 0) (hdnul : st.data (dest+dl) = 0) :
    ∃ code st', exec (strcat_s { slack := true } dest dmax src none) st = .ok (code, st') ∧
      (code = EOK → ∀ i, dl + n ≤ i → i < dmax → st'.data (dest+i) = 0) := by
  obtain ⟨code, st', he, _, _, _, _, _, hok, hfail⟩ :=
    strcatG_disjoint _ { slack := true } dest dmax src dl n st hd hs hpos hle hrw hsrc hdisj hdl hdnz hdnul
  refine ⟨code, st', he, fun hc => ?_⟩
  by_cases h : dl + n < dmax
  · exact (hok h).2.2.2.2.2 rfl
  · have := (hfail (by omega)).1
    rw [hc] at this; exact absurd this (by decide)

end SafeC.Props.C08

import SafeC.Models.Copy
/-! Property theorems for C08 (see DESIGN.md §4). -/
namespace SafeC.Props.C08
end SafeC.Props.C08

import SafeC.Lemmas
import SafeC.Models.WCase
/-!
# C06 for the wide case mappers `wcslwr_s`, `wcsupr_s`: success means the exact, complete result

"Scans the string converting … characters …, leaving all other characters unchanged.  The scanning stops at the
first null or after slen characters."

For valid arguments (`src` non-null, `0 < slen ≤ RSIZE_MAX_WSTR`, `slen * sizeof(wchar_t)` within the object size when it
is known), ANY contents and ANY length `k` of the run of non-NUL cells at `src` (`k < slen`: terminated inside the
`slen` cells; `k = slen`: no NUL in them at all), with those `k` cells declared and the ONE cell behind them readable —
the NUL, or for `k = slen` the cell `src[slen]` that `while (*src && slen)` reads before it looks at its counter
(the read-before-bound of C02; without that cell mapped the real call faults and the model with it) — the call

* returns EOK without an event and without a stray access,
* leaves in each of the `k` cells the mapping `f` of what it held (as a 32-bit pattern), and
* changes nothing else: not the NUL, not a cell behind it, not a cell below `src`.

Proved for the shared text `wcase_s rb f` and EVERY mapping `f`, then instantiated: `towlowerLibc` (what glibc's "C"-locale
`towlower` was measured to do) and `towupperLib` (the model of the library's `_towupper`).
-/
namespace SafeC.Props.C06WCase
open SafeC Gen

/-- the loop, by induction on its counter -/
theorem wcaseLoop_spec (rb : Bool) (f : Nat → Nat) (slen : Nat) : ∀ (src k : Nat) (st : St), k ≤ slen →
    (∀ i, i < k → st.data (src+i) ≠ 0) → (k < slen → st.data (src+k) = 0) →
    RW st src k → st.mapped (src+k) = true → st.rd (src+k) = true →
    ∃ st', exec (wcaseLoop rb f slen src) st = .ok ((), st') ∧
      (∀ i, i < k → st'.data (src+i) = f (st.data (src+i)) % 2^32) ∧
      (∀ a, ¬ (src ≤ a ∧ a < src + k) → st'.data a = st.data a) ∧
      st'.events = st.events ∧ st'.strays = st.strays ∧ st'.mapped = st.mapped ∧ st'.rd = st.rd ∧ st'.wr = st.wr := by
  induction slen with
  | zero =>
    intro src k st hk _ _ _ hm hr
    have k0 : k = 0 := by omega
    subst k0
    refine ⟨st, ?_, fun i hi => absurd hi (by omega), fun _ _ => rfl, rfl, rfl, rfl, rfl, rfl⟩
    unfold wcaseLoop
    split
    · rw [exec_bind, exec_load_ok _ _ (by simpa using hm) (by simpa using hr)]
      rfl
    · rfl
  | succ n ih =>
    intro src k st hk hnz hend hrw hm hr
    cases k with
    | zero =>
      have h0 : st.data src = 0 := by simpa using hend (by omega)
      refine ⟨st, ?_, fun i hi => absurd hi (by omega), fun _ _ => rfl, rfl, rfl, rfl, rfl, rfl⟩
      unfold wcaseLoop
      rw [exec_bind, exec_load_ok _ _ (by simpa using hm) (by simpa using hr)]
      simp [h0]
    | succ k' =>
      have hc : st.data src ≠ 0 := by simpa using hnz 0 (by omega)
      obtain ⟨m0, w0, r0⟩ := hrw 0 (by omega)
      simp only [Nat.add_zero] at m0 w0 r0
      let v := f (st.data src) % 2^32
      let st1 := st.upd src v
      have d1 : ∀ a, a ≠ src → st1.data a = st.data a := fun a ha => St.upd_data_ne _ _ _ _ ha
      obtain ⟨st', he, h1, h2, h3, h4, h5, h6, h7⟩ := ih (src+1) k' st1 (by omega)
        (fun i hi => by rw [d1 _ (by omega)]; have := hnz (i+1) (by omega); rwa [show src + (i+1) = src + 1 + i by omega] at this)
        (fun h => by rw [d1 _ (by omega)]; have := hend (by omega); rwa [show src + (k'+1) = src + 1 + k' by omega] at this)
        (fun i hi => by have := hrw (i+1) (by omega); rwa [show src + (i+1) = src + 1 + i by omega] at this)
        (by rw [show src + 1 + k' = src + (k'+1) by omega]; exact hm)
        (by rw [show src + 1 + k' = src + (k'+1) by omega]; exact hr)
      refine ⟨st', ?_, ?_, ?_, h3, h4, h5, h6, h7⟩
      · unfold wcaseLoop
        rw [exec_bind, exec_load_ok _ _ m0 r0]
        simp only [hc, if_false]
        rw [exec_bind, exec_load_ok _ _ m0 r0]
        simp only []
        rw [exec_bind, exec_store_ok _ _ _ m0 w0]
        exact he
      · intro i hi
        cases i with
        | zero =>
          rw [Nat.add_zero, h2 src (by omega)]
          exact St.upd_data_same _ _ _
        | succ j =>
          have := h1 j (by omega)
          rw [d1 _ (by omega)] at this
          rwa [show src + 1 + j = src + (j+1) by omega] at this
      · intro a ha
        rw [h2 a (by omega)]
        exact d1 a (by omega)

/-- the shared text, every mapping `f` -/
theorem wcase_s_C06 (rb : Bool) (f : Nat → Nat) (src slen k : Nat) (b : Bos) (st : St)
    (hs : src ≠ 0) (h0 : 0 < slen) (hmax : slen ≤ RSIZE_MAX_WSTR)
    (hb : ∀ bos, b = some bos → slen * SIZEOF_WCHAR_T ≤ bos)
    (hk : k ≤ slen) (hnz : ∀ i, i < k → st.data (src+i) ≠ 0) (hend : k < slen → st.data (src+k) = 0)
    (hrw : RW st src k) (hm : st.mapped (src+k) = true) (hr : st.rd (src+k) = true) :
    ∃ st', exec (wcase_s rb f src slen b) st = .ok (EOK, st') ∧
      (∀ i, i < k → st'.data (src+i) = f (st.data (src+i)) % 2^32) ∧
      (∀ a, ¬ (src ≤ a ∧ a < src + k) → st'.data a = st.data a) ∧
      st'.events = st.events ∧ st'.strays = st.strays := by
  obtain ⟨st', he, h1, h2, h3, h4, _⟩ := wcaseLoop_spec rb f slen src k st hk hnz hend hrw hm hr
  refine ⟨st', ?_, h1, h2, h3, h4⟩
  have body : exec (do wcaseLoop rb f slen src; pure EOK : Prog Nat) st = .ok (EOK, st') := by
    rw [exec_bind, he]; rfl
  have hz : ¬ slen = 0 := by omega
  have hx : ¬ slen > RSIZE_MAX_WSTR := by omega
  cases b with
  | none => simp only [wcase_s, hz, hs, hx, if_false]; exact body
  | some bos =>
    have hbb : ¬ slen * SIZEOF_WCHAR_T > bos := by have := hb bos rfl; omega
    simp only [wcase_s, hz, hs, hx, hbb, if_false]; exact body

/-- **wcslwr_s**: each cell of the string (or of the first `slen` cells) holds glibc's "C"-locale `towlower` of what it
held, nothing else changes -/
theorem wcslwr_s_C06 (cfg : Cfg) (src slen k : Nat) (b : Bos) (st : St)
    (hs : src ≠ 0) (h0 : 0 < slen) (hmax : slen ≤ RSIZE_MAX_WSTR)
    (hb : ∀ bos, b = some bos → slen * SIZEOF_WCHAR_T ≤ bos)
    (hk : k ≤ slen) (hnz : ∀ i, i < k → st.data (src+i) ≠ 0) (hend : k < slen → st.data (src+k) = 0)
    (hrw : RW st src k) (hm : st.mapped (src+k) = true) (hr : st.rd (src+k) = true) :
    ∃ st', exec (wcslwr_s cfg src slen b) st = .ok (EOK, st') ∧
      (∀ i, i < k → st'.data (src+i) = towlowerLibc (st.data (src+i)) % 2^32) ∧
      (∀ a, ¬ (src ≤ a ∧ a < src + k) → st'.data a = st.data a) ∧
      st'.events = st.events ∧ st'.strays = st.strays :=
  wcase_s_C06 _ _ src slen k b st hs h0 hmax hb hk hnz hend hrw hm hr

/-- **wcsupr_s**: the same with the library's `_towupper` -/
theorem wcsupr_s_C06 (cfg : Cfg) (src slen k : Nat) (b : Bos) (st : St)
    (hs : src ≠ 0) (h0 : 0 < slen) (hmax : slen ≤ RSIZE_MAX_WSTR)
    (hb : ∀ bos, b = some bos → slen * SIZEOF_WCHAR_T ≤ bos)
    (hk : k ≤ slen) (hnz : ∀ i, i < k → st.data (src+i) ≠ 0) (hend : k < slen → st.data (src+k) = 0)
    (hrw : RW st src k) (hm : st.mapped (src+k) = true) (hr : st.rd (src+k) = true) :
    ∃ st', exec (wcsupr_s cfg src slen b) st = .ok (EOK, st') ∧
      (∀ i, i < k → st'.data (src+i) = towupperLib (st.data (src+i)) % 2^32) ∧
      (∀ a, ¬ (src ≤ a ∧ a < src + k) → st'.data a = st.data a) ∧
      st'.events = st.events ∧ st'.strays = st.strays :=
  wcase_s_C06 _ _ src slen k b st hs h0 hmax hb hk hnz hend hrw hm hr

/-- glibc's "C"-locale `towlower`, as measured, in closed form: the 26 ASCII capitals and nothing else — for every cell value -/
theorem towlowerLibc_eq (c : Nat) : towlowerLibc c = if 0x41 ≤ c ∧ c ≤ 0x5A then c + 32 else c := by
  unfold towlowerLibc
  by_cases h : 0x41 ≤ c ∧ c ≤ 0x5A
  · obtain ⟨h1, h2⟩ := h
    have : c = 0x41 ∨ c = 0x42 ∨ c = 0x43 ∨ c = 0x44 ∨ c = 0x45 ∨ c = 0x46 ∨ c = 0x47 ∨ c = 0x48 ∨ c = 0x49 ∨ c = 0x4a ∨ c = 0x4b ∨
        c = 0x4c ∨ c = 0x4d ∨ c = 0x4e ∨ c = 0x4f ∨ c = 0x50 ∨ c = 0x51 ∨ c = 0x52 ∨ c = 0x53 ∨ c = 0x54 ∨ c = 0x55 ∨ c = 0x56 ∨
        c = 0x57 ∨ c = 0x58 ∨ c = 0x59 ∨ c = 0x5a := by omega
    rcases this with h | h | h | h | h | h | h | h | h | h | h | h | h | h | h | h | h | h | h | h | h | h | h | h | h | h <;> subst h <;> decide
  · rw [if_neg h]
    have hl : WCase.towlowerDiff.lookup c = none := by
      rw [List.lookup_eq_none_iff]
      intro p hp
      have : ∀ q ∈ WCase.towlowerDiff, 0x41 ≤ q.1 ∧ q.1 ≤ 0x5A := by decide
      have := this p hp
      simp only [bne_iff_ne, ne_eq]
      omega
    rw [hl]

/-- non-vacuity and the special cells, decided by the kernel on the regenerated tables: "aZ" + ä ß ǆ ς, a Cherokee
capital, a cell above 0x10FFFF, a negative `wchar_t`, unterminated in `slen = 9` cells (`k = slen`) -/
example :
    let cells : List Nat := [0x61, 0x5A, 0xE4, 0xDF, 0x1C6, 0x3C2, 0x13A0, 0x110061, 0x80000061]
    let st : St := { data := fun a => cells.getD (a - 100) 7, mapped := fun _ => true, rd := fun _ => true, wr := fun _ => true }
    (exec (wcsupr_s {} 100 9 none) st |>.toOption.map (fun x => (x.1, (List.range 10).map (fun i => x.2.data (100 + i))))) =
      some (EOK, [0x41, 0x5A, 0xC4, 0x1E9E, 0x1C4, 0x3A3, 0xAB70, 0x110061, 0x80000061, 7]) := by decide +kernel

end SafeC.Props.C06WCase

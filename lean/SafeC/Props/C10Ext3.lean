import SafeC.Props.C10
import SafeC.Proofs.QueryExt2
/-!
# C10, second part (3): the character-class predicates

`strisalphanumeric_s strishex_s strislowercase_s strisascii_s` (bounded by `dmax`),
`strisdigit_s strismixedcase_s strisuppercase_s` (the loop never tests `dmax`), `strispassword_s`.

Setting as in `C10.lean`.  The value returned is `true` iff the string is not empty (where the code
tests that) and every character before its terminator — at most `dmax` of them — is in the class:
`allCells ok d dest (scanLen d dest dmax)`.  The bounded loops are of the shape
`while (*dest && dmax)`: without a terminator among the first `dmax` cells `dest[dmax]` is read
(known finding `read-before-bound`); its content has NO influence (the theorems hold for all contents).
-/
namespace SafeC.Props.C10
open SafeC Gen

/-- the shape shared by the bounded predicates, on ANY memory -/
theorem predFn_bounded_eq (ok : Nat → Bool) (dest dmax : Nat) (st : St) (hall : AllRd st)
    (hd : dest ≠ 0) (hpos : 0 < dmax) (hle : dmax ≤ RSIZE_MAX_STR) :
    exec (predFn ok true dest dmax none) st =
      .ok ((st.data dest != 0) && allCells ok st.data dest (scanLen st.data dest dmax), st) := by
  unfold predFn chkDestDmaxBool chkDmaxQ
  have h1 : ¬ dmax = 0 := by omega
  have h2 : ¬ dmax > RSIZE_MAX_STR := by omega
  simp only [hd, h1, h2, if_false, exec_bind, exec_load_all hall]
  by_cases h0 : st.data dest = 0
  · simp [h0]
  · simp only [h0, if_false, if_true, classLoop_eq hall]
    simp [h0]

/-- the shape shared by the three predicates that never test `dmax`, on ANY memory: the scan runs to
the terminator wherever it is (`scanFuel2 = 2^20` cells is the model's termination bound only) -/
theorem predFn_unbounded_eq (ok : Nat → Bool) (dest dmax : Nat) (st : St) (hall : AllRd st)
    (hd : dest ≠ 0) (hpos : 0 < dmax) (hle : dmax ≤ RSIZE_MAX_STR) :
    exec (predFn ok false dest dmax none) st =
      .ok ((st.data dest != 0) && allCells ok st.data dest (scanLen st.data dest scanFuel2), st) := by
  unfold predFn chkDestDmaxBool chkDmaxQ
  have h1 : ¬ dmax = 0 := by omega
  have h2 : ¬ dmax > RSIZE_MAX_STR := by omega
  simp only [hd, h1, h2, if_false, exec_bind, exec_load_all hall]
  by_cases h0 : st.data dest = 0
  · simp [h0]
  · simp only [h0, if_false, Bool.false_eq_true, classLoopNoBound_eq hall]
    simp [h0]

theorem predFn_unbounded_terminated (ok : Nat → Bool) (dest dmax : Nat) (st : St) (hall : AllRd st)
    (hd : dest ≠ 0) (hpos : 0 < dmax) (hle : dmax ≤ RSIZE_MAX_STR)
    (hz : scanLen st.data dest dmax < dmax) :
    exec (predFn ok false dest dmax none) st =
      .ok ((st.data dest != 0) && allCells ok st.data dest (scanLen st.data dest dmax), st) := by
  rw [predFn_unbounded_eq ok dest dmax st hall hd hpos hle]
  have : dmax ≤ scanFuel2 := by
    have : RSIZE_MAX_STR ≤ scanFuel2 := by decide
    omega
  rw [scanLen_stable _ _ _ _ this hz]

/-! ## bounded by `dmax` -/

/-- **strisalphanumeric_s**: not empty, and every character of the string (at most `dmax`) is an
ASCII letter or digit -/
theorem strisalphanumeric_s_C10 (dest dmax : Nat) (st : St) (hall : AllRd st)
    (hd : dest ≠ 0) (hpos : 0 < dmax) (hle : dmax ≤ RSIZE_MAX_STR) :
    exec (strisalphanumeric_s dest dmax none) st =
      .ok ((st.data dest != 0) && allCells isAlnumC st.data dest (scanLen st.data dest dmax), st) :=
  predFn_bounded_eq isAlnumC dest dmax st hall hd hpos hle

/-- **strishex_s**: not empty, every character a hexadecimal digit -/
theorem strishex_s_C10 (dest dmax : Nat) (st : St) (hall : AllRd st)
    (hd : dest ≠ 0) (hpos : 0 < dmax) (hle : dmax ≤ RSIZE_MAX_STR) :
    exec (strishex_s dest dmax none) st =
      .ok ((st.data dest != 0) && allCells isHexC st.data dest (scanLen st.data dest dmax), st) :=
  predFn_bounded_eq isHexC dest dmax st hall hd hpos hle

/-- **strislowercase_s**: not empty, every character a lower-case ASCII letter -/
theorem strislowercase_s_C10 (dest dmax : Nat) (st : St) (hall : AllRd st)
    (hd : dest ≠ 0) (hpos : 0 < dmax) (hle : dmax ≤ RSIZE_MAX_STR) :
    exec (strislowercase_s dest dmax none) st =
      .ok ((st.data dest != 0) && allCells isLowerC st.data dest (scanLen st.data dest dmax), st) :=
  predFn_bounded_eq isLowerC dest dmax st hall hd hpos hle

/-- **strisascii_s**: every character of the string (at most `dmax`) is 7-bit; the EMPTY string is
ASCII (no emptiness test in this one) -/
theorem strisascii_s_C10 (dest dmax : Nat) (st : St) (hall : AllRd st)
    (hd : dest ≠ 0) (hpos : 0 < dmax) (hle : dmax ≤ RSIZE_MAX_STR) :
    exec (strisascii_s dest dmax none) st =
      .ok (allCells (fun c => decide (c ≤ 127)) st.data dest (scanLen st.data dest dmax), st) := by
  unfold strisascii_s chkDestDmaxBool chkDmaxQ
  have h1 : ¬ dmax = 0 := by omega
  have h2 : ¬ dmax > RSIZE_MAX_STR := by omega
  simp only [hd, h1, h2, if_false]
  exact classLoop_eq hall _ _ _

/-- what `allCells` means -/
theorem allCells_spec (ok : Nat → Bool) (d : Nat → Nat) (p n : Nat) :
    allCells ok d p n = true ↔ ∀ j, j < n → ok (d (p+j)) = true := allCells_iff ok d p n

example : ∃ st : St, AllRd st ∧ (st.data 100 != 0) = true ∧ allCells isAlnumC st.data 100 (scanLen st.data 100 4) = true ∧
    allCells isLowerC st.data 100 (scanLen st.data 100 4) = false :=
  ⟨wMem fun a => if a = 100 then 97 else if a = 101 then 49 else 0, wMem_all _, by decide, by decide, by decide⟩

/-! ## `strisdigit_s`, `strismixedcase_s`, `strisuppercase_s`: `dmax` is never tested

FULL statement (false of the code): *not empty, and every character of the string among the first
`dmax` is in the class.*  The loop is `while (*dest)`: characters BEHIND `dmax` decide the answer. -/

/-- what `strisdigit_s` computes on ANY memory: the class test over the whole string up to its
terminator, wherever that is -/
theorem strisdigit_s_eq (dest dmax : Nat) (st : St) (hall : AllRd st)
    (hd : dest ≠ 0) (hpos : 0 < dmax) (hle : dmax ≤ RSIZE_MAX_STR) :
    exec (strisdigit_s dest dmax none) st =
      .ok ((st.data dest != 0) && allCells isDigitC st.data dest (scanLen st.data dest scanFuel2), st) :=
  predFn_unbounded_eq isDigitC dest dmax st hall hd hpos hle

theorem strismixedcase_s_eq (dest dmax : Nat) (st : St) (hall : AllRd st)
    (hd : dest ≠ 0) (hpos : 0 < dmax) (hle : dmax ≤ RSIZE_MAX_STR) :
    exec (strismixedcase_s dest dmax none) st =
      .ok ((st.data dest != 0) && allCells isAlphaC st.data dest (scanLen st.data dest scanFuel2), st) :=
  predFn_unbounded_eq isAlphaC dest dmax st hall hd hpos hle

theorem strisuppercase_s_eq (dest dmax : Nat) (st : St) (hall : AllRd st)
    (hd : dest ≠ 0) (hpos : 0 < dmax) (hle : dmax ≤ RSIZE_MAX_STR) :
    exec (strisuppercase_s dest dmax none) st =
      .ok ((st.data dest != 0) && allCells isUpperC st.data dest (scanLen st.data dest scanFuel2), st) :=
  predFn_unbounded_eq isUpperC dest dmax st hall hd hpos hle

/-- **strisdigit_s, partial** (a terminator among the first `dmax` cells): not empty and all digits -/
theorem strisdigit_s_C10_partial (dest dmax : Nat) (st : St) (hall : AllRd st)
    (hd : dest ≠ 0) (hpos : 0 < dmax) (hle : dmax ≤ RSIZE_MAX_STR) (hz : scanLen st.data dest dmax < dmax) :
    exec (strisdigit_s dest dmax none) st =
      .ok ((st.data dest != 0) && allCells isDigitC st.data dest (scanLen st.data dest dmax), st) :=
  predFn_unbounded_terminated isDigitC dest dmax st hall hd hpos hle hz

/-- **strismixedcase_s, partial**: not empty and all ASCII letters (of either case) -/
theorem strismixedcase_s_C10_partial (dest dmax : Nat) (st : St) (hall : AllRd st)
    (hd : dest ≠ 0) (hpos : 0 < dmax) (hle : dmax ≤ RSIZE_MAX_STR) (hz : scanLen st.data dest dmax < dmax) :
    exec (strismixedcase_s dest dmax none) st =
      .ok ((st.data dest != 0) && allCells isAlphaC st.data dest (scanLen st.data dest dmax), st) :=
  predFn_unbounded_terminated isAlphaC dest dmax st hall hd hpos hle hz

/-- **strisuppercase_s, partial**: not empty and all upper-case ASCII letters -/
theorem strisuppercase_s_C10_partial (dest dmax : Nat) (st : St) (hall : AllRd st)
    (hd : dest ≠ 0) (hpos : 0 < dmax) (hle : dmax ≤ RSIZE_MAX_STR) (hz : scanLen st.data dest dmax < dmax) :
    exec (strisuppercase_s dest dmax none) st =
      .ok ((st.data dest != 0) && allCells isUpperC st.data dest (scanLen st.data dest dmax), st) :=
  predFn_unbounded_terminated isUpperC dest dmax st hall hd hpos hle hz

/-- memory `"1a"` at 100 -/
def wDigitThenLetter : St := wMem fun a => if a = 100 then 49 else if a = 101 then 97 else 0

private theorem wDigitThenLetter_len : scanLen wDigitThenLetter.data 100 scanFuel2 = 2 := by
  rw [scanLen_stable _ _ 3 scanFuel2 (by decide) (by decide)]; decide

/-- `"1a"` with `dmax = 1`: the one character inside the extent is a digit, the answer is `false`
because of the `'a'` behind it.  Known finding `isclass-ignores-dmax`. -/
theorem strisdigit_s_beyond_witness :
    exec (strisdigit_s 100 1 none) wDigitThenLetter = .ok (false, wDigitThenLetter) ∧
    ((wDigitThenLetter.data 100 != 0) && allCells isDigitC wDigitThenLetter.data 100 (scanLen wDigitThenLetter.data 100 1)) = true := by
  constructor
  · rw [strisdigit_s_eq 100 1 wDigitThenLetter (wMem_all _) (by decide) (by decide) (by decide), wDigitThenLetter_len]
    congr 1
  · decide

/-- `"A1"` with `dmax = 1` for `strisuppercase_s` and `strismixedcase_s`: `false` because of the `'1'`
behind the extent.  Known finding `isclass-ignores-dmax`. -/
theorem strisuppercase_s_beyond_witness :
    let st := wMem fun a => if a = 100 then 65 else if a = 101 then 49 else 0
    exec (strisuppercase_s 100 1 none) st = .ok (false, st) ∧
    exec (strismixedcase_s 100 1 none) st = .ok (false, st) ∧
    allCells isUpperC st.data 100 (scanLen st.data 100 1) = true := by
  intro st
  have hl : scanLen st.data 100 scanFuel2 = 2 := by
    rw [scanLen_stable _ _ 3 scanFuel2 (by decide) (by decide)]; decide
  refine ⟨?_, ?_, by decide⟩
  · rw [strisuppercase_s_eq _ _ _ (wMem_all _) (by decide) (by decide) (by decide), hl]
    congr 1
  · rw [strismixedcase_s_eq _ _ _ (wMem_all _) (by decide) (by decide) (by decide), hl]
    congr 1

example : ∃ st : St, AllRd st ∧ scanLen st.data 100 4 < 4 ∧
    ((st.data 100 != 0) && allCells isDigitC st.data 100 (scanLen st.data 100 4)) = true :=
  ⟨wMem fun a => if a = 100 then 49 else if a = 101 then 50 else 0, wMem_all _, by decide, by decide⟩

/-! ## strispassword_s -/

/-- the password rule on the `n` characters at `p`: only digits, ASCII letters and the listed
punctuation; fewer than `SAFE_STR_PASSWORD_MAX_LENGTH` characters; at least the configured numbers
of digits, lower-case letters, upper-case letters and punctuation characters -/
def pwOk (d : Nat → Nat) (p n : Nat) : Bool :=
  allCells isPwC d p n &&
  (decide (n < SAFE_STR_PASSWORD_MAX_LENGTH) &&
   decide (countCells isDigitC d p n ≥ SAFE_STR_MIN_NUMBERS) &&
   decide (countCells isLowerC d p n ≥ SAFE_STR_MIN_LOWERCASE) &&
   decide (countCells isUpperC d p n ≥ SAFE_STR_MIN_UPPERCASE) &&
   decide (countCells isSpecialC d p n ≥ SAFE_STR_MIN_SPECIALS))

/-- **strispassword_s** (`SAFE_STR_PASSWORD_MIN_LENGTH ≤ dmax ≤ SAFE_STR_PASSWORD_MAX_LENGTH`, a
terminator among the first `dmax` cells — the function reports ESUNTERM otherwise): `true` iff the
string satisfies the password rule `pwOk`; no handler call, nothing modified -/
theorem strispassword_s_C10 (dest dmax : Nat) (st : St) (hall : AllRd st)
    (hd : dest ≠ 0) (hmin : SAFE_STR_PASSWORD_MIN_LENGTH ≤ dmax) (hle : dmax ≤ SAFE_STR_PASSWORD_MAX_LENGTH)
    (hz : scanLen st.data dest dmax < dmax) :
    exec (strispassword_s dest dmax none) st = .ok (pwOk st.data dest (scanLen st.data dest dmax), st) := by
  unfold strispassword_s chkDestDmaxBool chkDmaxQ
  have hmn : SAFE_STR_PASSWORD_MIN_LENGTH = 6 := rfl
  have h1 : ¬ dmax = 0 := by omega
  have h2 : ¬ dmax > SAFE_STR_PASSWORD_MAX_LENGTH := by omega
  have h3 : ¬ dmax < SAFE_STR_PASSWORD_MIN_LENGTH := by omega
  simp only [hd, h1, h2, h3, if_false, exec_bind, exec_load_all hall]
  by_cases h0 : st.data dest = 0
  · have hl : scanLen st.data dest dmax = 0 := by
      cases dmax with
      | zero => rfl
      | succ n => exact scanLen_succ_of_eq _ _ _ h0
    simp [h0, hl, pwOk, countCells, SAFE_STR_MIN_NUMBERS]
  · simp only [h0, if_false, pwLoop_eq hall dmax dest {} hz]
    simp [pwOk, pwFinal']

/-- with no terminator among the first `dmax` cells the cell `dest[dmax]` is read and decides
(known finding `read-before-bound`): a NUL there is accepted as the terminator, anything else is
reported as ESUNTERM through the handler -/
theorem strispassword_s_unterminated (dest dmax : Nat) (st : St) (hall : AllRd st)
    (hd : dest ≠ 0) (hmin : SAFE_STR_PASSWORD_MIN_LENGTH ≤ dmax) (hle : dmax ≤ SAFE_STR_PASSWORD_MAX_LENGTH)
    (hz : scanLen st.data dest dmax = dmax) (hcls : allCells isPwC st.data dest dmax = true)
    (hnz : st.data (dest + dmax) ≠ 0) :
    exec (strispassword_s dest dmax none) st =
      .ok (false, { st with events := st.events ++ [.handler .str ESUNTERM] }) := by
  unfold strispassword_s chkDestDmaxBool chkDmaxQ
  have hmn : SAFE_STR_PASSWORD_MIN_LENGTH = 6 := rfl
  have h1 : ¬ dmax = 0 := by omega
  have h2 : ¬ dmax > SAFE_STR_PASSWORD_MAX_LENGTH := by omega
  have h3 : ¬ dmax < SAFE_STR_PASSWORD_MIN_LENGTH := by omega
  have h0 : st.data dest ≠ 0 := by
    have := scanLen_nonzero st.data dest dmax 0 (by omega)
    simpa using this
  simp only [hd, h1, h2, h3, if_false, exec_bind, exec_load_all hall, h0]
  have key : ∀ (m p : Nat) (n : PwCnt), scanLen st.data p m = m → allCells isPwC st.data p m = true →
      st.data (p + m) ≠ 0 →
      exec (pwLoop m p n) st = .ok (false, { st with events := st.events ++ [.handler .str ESUNTERM] }) := by
    intro m
    induction m with
    | zero =>
      intro p n _ _ hp
      have hp' : st.data p ≠ 0 := by simpa using hp
      simp [pwLoop, exec_bind, exec_load_all hall, hp', handlerS]
    | succ m ih =>
      intro p n hs ha hp
      have hp0 : st.data p ≠ 0 := by
        intro hh; rw [scanLen_succ_of_eq _ _ _ hh] at hs; omega
      rw [scanLen_succ_of_ne _ _ _ hp0] at hs
      simp only [allCells, Bool.and_eq_true] at ha
      have hrec : ∀ n', exec (pwLoop m (p+1) n') st =
          .ok (false, { st with events := st.events ++ [.handler .str ESUNTERM] }) :=
        fun n' => ih (p+1) n' (by omega) ha.2 (by rw [← Nat.add_assoc, Nat.add_right_comm] at *; simpa [Nat.add_assoc, Nat.add_comm 1 m] using hp)
      have hcl := ha.1
      simp only [pwLoop, exec_bind, exec_load_all hall, hp0, if_false]
      simp only [isPwC, Bool.or_eq_true] at hcl
      split
      · exact hrec _
      · split
        · exact hrec _
        · split
          · exact hrec _
          · rename_i h1 h2 h3
            have hsp : isSpecialC (st.data p) = true := by
              rcases hcl with ((hh | hh) | hh) | hh
              · exact absurd hh h1
              · exact absurd hh h2
              · exact absurd hh h3
              · exact hh
            unfold isSpecialC at hsp
            simp only [hsp, if_true]
            exact hrec _
  exact key dmax dest {} hz hcls hnz

example : ∃ st : St, AllRd st ∧ scanLen st.data 100 8 < 8 ∧ pwOk st.data 100 (scanLen st.data 100 8) = true :=
  ⟨wMem fun a => if a = 100 then 97 else if a = 101 then 98 else if a = 102 then 65 else if a = 103 then 66 else
      if a = 104 then 49 else if a = 105 then 33 else 0, wMem_all _, by decide, by decide⟩

end SafeC.Props.C10

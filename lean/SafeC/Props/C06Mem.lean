import SafeC.Proofs.MemCopyEntry
/-!
# C06 for the memory family — success means the exact, complete copy

For valid arguments and operands that do not overlap, `memcpy_s` returns EOK and dest holds exactly the
`slen` source bytes (`Moved`), nothing else changed: no truncation, no extra byte, for every length and
alignment (prologue / word loop / tail of `mem_prim_move`).  With `slen > dmax` it never reports
success (the theorems of `SafeC/Props/C05.lean`-style error paths are not repeated here).
-/
namespace SafeC.Props.C06Mem
open SafeC Gen Mem

/-- **memcpy_s, valid arguments, non-overlapping (or identical) operands:** EOK and
`dest[0..slen) = old src[0..slen)`; every other cell unchanged; no stray access; no handler. -/
theorem memcpy_s_C06 (dest dmax src slen : Nat) (st : St)
    (hd : dest ≠ 0) (hs : src ≠ 0) (hpos : 0 < slen) (hle : slen ≤ dmax) (hmax : dmax ≤ RSIZE_MAX_MEM)
    (hw : RW st dest dmax) (hr : RD st src slen)
    (ha1 : src + slen < U64) (ha2 : dest + dmax < U64)
    (hno : ¬ ((src < dest ∧ dest < src + slen) ∨ (dest < src ∧ src < dest + dmax))) :
    ∃ st', exec (memcpy_s dest dmax src slen none none) st = .ok (EOK, st') ∧
      (∀ i, i < slen → st'.data (dest + i) = st.data (src + i)) ∧
      (∀ a, ¬ (dest ≤ a ∧ a < dest + slen) → st'.data a = st.data a) ∧
      st'.strays = st.strays ∧ st'.events = st.events := by
  obtain ⟨st', he, hm⟩ := memcpy_s_ok dest dmax src slen st hd hs hpos hle hmax hw hr ha1 ha2 hno
  refine ⟨st', he, fun i hi => ?_, fun a ha => ?_, hm.same.strays, hm.same.events⟩
  · rw [hm.data, if_pos (by omega)]
    congr 1; omega
  · rw [hm.data, if_neg ha]

/-- **memmove_s, valid arguments:** the same exactness with no condition on the placement. -/
theorem memmove_s_C06 (dest dmax src slen : Nat) (st : St)
    (hd : dest ≠ 0) (hs : src ≠ 0) (hpos : 0 < slen) (hle : slen ≤ dmax) (hmax : dmax ≤ RSIZE_MAX_MEM)
    (hw : RW st dest dmax) (hr : RD st src slen) :
    ∃ st', exec (memmove_s dest dmax src slen none none) st = .ok (EOK, st') ∧
      (∀ i, i < slen → st'.data (dest + i) = st.data (src + i)) ∧
      (∀ a, ¬ (dest ≤ a ∧ a < dest + slen) → st'.data a = st.data a) ∧
      st'.strays = st.strays ∧ st'.events = st.events := by
  obtain ⟨st', he, hm⟩ := memmove_s_ok dest dmax src slen st hd hs hpos hle hmax hw hr
  refine ⟨st', he, fun i hi => ?_, fun a ha => ?_, hm.same.strays, hm.same.events⟩
  · rw [hm.data, if_pos (by omega)]
    congr 1; omega
  · rw [hm.data, if_neg ha]

/-- **memcpy16_s** (`dmax` in bytes, `slen` in 16-bit elements), valid arguments, non-overlapping element
ranges: EOK and the exact copy of `slen` elements. -/
theorem memcpy16_s_C06 (dest dmax src slen : Nat) (st : St)
    (hd : dest ≠ 0) (hs : src ≠ 0) (hpos : 0 < slen) (hle : slen * 2 ≤ dmax) (hmax : dmax ≤ RSIZE_MAX_MEM)
    (hw : RW st dest slen) (hr : RD st src slen)
    (ha1 : src * 2 + slen * 2 < U64) (ha2 : dest * 2 + dmax / 2 * 2 < U64)
    (hno : ¬ ((src < dest ∧ dest < src + slen) ∨ (dest < src ∧ src < dest + dmax / 2))) :
    ∃ st', exec (memcpy16_s dest dmax src slen none none) st = .ok (EOK, st') ∧
      Moved st st' dest src slen :=
  memcpy16_s_ok dest dmax src slen st hd hs hpos hle hmax hw hr ha1 ha2 hno

/-- **memcpy32_s** (`dmax` in bytes, `slen` in 32-bit elements), valid arguments, non-overlapping. -/
theorem memcpy32_s_C06 (dest dmax src slen : Nat) (st : St)
    (hd : dest ≠ 0) (hs : src ≠ 0) (hpos : 0 < slen) (hle : slen * 4 ≤ dmax) (hmax : dmax ≤ RSIZE_MAX_MEM)
    (hw : RW st dest slen) (hr : RD st src slen)
    (ha1 : src * 4 + slen * 4 < U64) (ha2 : dest * 4 + dmax / 4 * 4 < U64)
    (hno : ¬ ((src < dest ∧ dest < src + slen) ∨ (dest < src ∧ src < dest + dmax / 4))) :
    ∃ st', exec (memcpy32_s dest dmax src slen none none) st = .ok (EOK, st') ∧
      Moved st st' dest src slen :=
  memcpy32_s_ok dest dmax src slen st hd hs hpos hle hmax hw hr ha1 ha2 hno

/-- **wmemcpy_s** (`dlen`, `count` in `wchar_t` elements), valid arguments, non-overlapping. -/
theorem wmemcpy_s_C06 (dest dlen src count : Nat) (st : St)
    (hd : dest ≠ 0) (hs : src ≠ 0) (hpos : 0 < count) (hle : count ≤ dlen) (hmax : dlen * 4 ≤ RSIZE_MAX_MEM)
    (hw : RW st dest count) (hr : RD st src count)
    (ha1 : src * 4 + count * 4 < U64) (ha2 : dest * 4 + dlen * 4 < U64)
    (hno : ¬ ((src < dest ∧ dest < src + count) ∨ (dest < src ∧ src < dest + dlen))) :
    ∃ st', exec (wmemcpy_s dest dlen src count none none) st = .ok (EOK, st') ∧
      Moved st st' dest src count :=
  wmemcpy_s_ok dest dlen src count st hd hs hpos hle hmax hw hr ha1 ha2 hno

/-- everything mapped, readable and writable; cell `a` holds `a % 251` -/
def exSt : St := { data := fun a => a % 251, mapped := fun _ => true, rd := fun _ => true, wr := fun _ => true }

/-- non-vacuity: 100 bytes from 2000 to 1001 (unaligned dest, aligned src), dmax 120 -/
example : (1001 : Nat) ≠ 0 ∧ (2000 : Nat) ≠ 0 ∧ 0 < 100 ∧ 100 ≤ 120 ∧ 120 ≤ RSIZE_MAX_MEM ∧
    RW exSt 1001 120 ∧ RD exSt 2000 100 ∧ 2000 + 100 < U64 ∧ 1001 + 120 < U64 ∧
    ¬ (((2000 : Nat) < 1001 ∧ 1001 < 2000 + 100) ∨ ((1001 : Nat) < 2000 ∧ 2000 < 1001 + 120)) :=
  ⟨by decide, by decide, by decide, by decide, by decide, fun _ _ => ⟨rfl, rfl, rfl⟩, fun _ _ => ⟨rfl, rfl⟩,
   by decide, by decide, by decide⟩

end SafeC.Props.C06Mem

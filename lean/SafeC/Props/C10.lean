import SafeC.Models.Copy
/-! Property theorems for C10 (see DESIGN.md §4). -/
namespace SafeC.Props.C10
end SafeC.Props.C10

import SafeC.Proofs.Query
import SafeC.Proofs.QueryRO
/-!
# C10 — read-only query functions answer as their standard counterparts do

Setting of every theorem: ALL of memory is mapped and readable (`AllRd`) with ARBITRARY contents
(the subject here is the answer; which cells may be touched is C02), the operands are valid
(non-null, `0 < dmax ≤ RSIZE_MAX_*`, object sizes unknown to the library or large enough).
The conclusion always has three parts: the value returned / stored through the out-parameter is the
standard function's answer computed from the memory contents restricted to the first `dmax`
(`slen`) elements; no constraint handler ran (`events` unchanged); the final state IS the initial
state (so in particular no operand was modified).

Where the C does not satisfy the property the FULL statement is kept in the doc comment, what is
proved is `…_partial` under the hypothesis the proof forces, and `…_witness` exhibits a
concrete input outside the hypothesis on which the model (= the code) gives the wrong answer;
each witness corresponds to an entry of `known_findings.jsonl`.

`*_readonly`: every query model is a `NoStore` program, hence leaves the memory contents unchanged
on EVERY input (valid or not, any mapping) — `exec_noStore`.
-/
namespace SafeC.Props.C10
open SafeC Gen

/-! ## lengths -/

/-- **strnlen_s**, object size unknown: the number of characters before the first NUL among the
first `smax`, `smax` if there is none; nothing reported, nothing changed. -/
theorem strnlen_s_C10 (str smax : Nat) (st : St) (hall : AllRd st)
    (hs : str ≠ 0) (hpos : 0 < smax) (hle : smax ≤ RSIZE_MAX_STR) :
    exec (strnlen_s str smax none) st = .ok (scanLen st.data str smax, st) := by
  unfold strnlen_s
  have h1 : ¬ smax = 0 := by omega
  have h2 : ¬ smax > RSIZE_MAX_STR := by omega
  simp only [hs, h1, h2, if_false]
  rw [strnlenLoop_none hall]; simp

/-- the same with a known object size of at least `smax` characters -/
theorem strnlen_s_bos_C10 (str smax b : Nat) (st : St) (hall : AllRd st)
    (hs : str ≠ 0) (hpos : 0 < smax) (hle : smax ≤ RSIZE_MAX_STR) (hb : smax ≤ b) :
    exec (strnlen_s str smax (some b)) st = .ok (scanLen st.data str smax, st) := by
  unfold strnlen_s
  have h1 : ¬ smax = 0 := by omega
  have h2 : ¬ smax > RSIZE_MAX_STR := by omega
  simp only [hs, h1, h2, if_false]
  rw [strnlenLoop_some hall _ _ _ _ hb]; simp

/-- what `scanLen` means: a bound, non-zero cells before it, a zero cell at it when below the bound -/
theorem scanLen_spec (d : Nat → Nat) (p n : Nat) :
    scanLen d p n ≤ n ∧ (∀ i, i < scanLen d p n → d (p+i) ≠ 0) ∧
    (scanLen d p n < n → d (p + scanLen d p n) = 0) :=
  ⟨scanLen_le d p n, scanLen_nonzero d p n, scanLen_zero d p n⟩

/-- **wcsnlen_s**, object size unknown -/
theorem wcsnlen_s_C10 (str smax : Nat) (st : St) (hall : AllRd st)
    (hs : str ≠ 0) (hpos : 0 < smax) (hle : smax ≤ RSIZE_MAX_WSTR) :
    exec (wcsnlen_s_chk str smax none) st = .ok (scanLen st.data str smax, st) := by
  unfold wcsnlen_s_chk
  have h1 : ¬ smax = 0 := by omega
  have h2 : ¬ smax > RSIZE_MAX_WSTR := by omega
  simp only [hs, h1, h2, if_false]
  rw [wcsnlenLoop_eq hall]; simp

example : ∃ st : St, AllRd st ∧ scanLen st.data 100 5 = 2 :=
  ⟨{ data := fun a => if a = 102 then 0 else 7, mapped := fun _ => true, rd := fun _ => true, wr := fun _ => false },
   fun _ => ⟨rfl, rfl⟩, by decide⟩

/-! ## memchr / memrchr -/

theorem chCell_of_byte (ch : Int) (h0 : 0 ≤ ch) (h1 : ch ≤ 255) : (chCell ch : Int) = ch := by
  unfold chCell
  have : ch % 256 = ch := Int.emod_eq_of_lt h0 (by omega)
  rw [this]; exact Int.toNat_of_nonneg h0

/-- **memchr_s**: the FIRST of the `dmax` bytes equal to `ch`, ESNOTFND if none -/
theorem memchr_s_C10 (dest dmax : Nat) (ch : Int) (st : St) (hall : AllRd st)
    (hd : dest ≠ 0) (hpos : 0 < dmax) (hle : dmax ≤ RSIZE_MAX_MEM) (hch : ch ≤ 255) :
    exec (memchr_s dest dmax ch none) st =
      .ok ((match firstIdx st.data (chCell ch) dest dmax with
            | some i => (EOK, dest + i) | none => (ESNOTFND, 0)), st) := by
  unfold memchr_s qChkM
  have h1 : ¬ dmax = 0 := by omega
  have h2 : ¬ dmax > RSIZE_MAX_MEM := by omega
  have h3 : ¬ ch > 255 := by omega
  simp only [hd, h1, h2, h3, if_false, exec_bind, exec_pure, memchrP_eq hall]
  cases hf : firstIdx st.data (chCell ch) dest dmax with
  | none => simp
  | some i => simp [hd]

/-- **memrchr_s**: the LAST of the `dmax` bytes equal to `ch` -/
theorem memrchr_s_C10 (dest dmax : Nat) (ch : Int) (st : St) (hall : AllRd st)
    (hd : dest ≠ 0) (hpos : 0 < dmax) (hle : dmax ≤ RSIZE_MAX_MEM) (hch : ch ≤ 255) :
    exec (memrchr_s dest dmax ch none) st =
      .ok ((match lastIdx st.data (chCell ch) dest dmax with
            | some i => (EOK, dest + i) | none => (ESNOTFND, 0)), st) := by
  unfold memrchr_s qChkM
  have h1 : ¬ dmax = 0 := by omega
  have h2 : ¬ dmax > RSIZE_MAX_MEM := by omega
  have h3 : ¬ ch > 255 := by omega
  simp only [hd, h1, h2, h3, if_false, exec_bind, exec_pure, memrchrP_eq hall]
  cases hf : lastIdx st.data (chCell ch) dest dmax with
  | none => simp
  | some i => simp [hd]

/-- what `firstIdx` / `lastIdx` mean -/
theorem firstIdx_spec (d : Nat → Nat) (c p n : Nat) :
    (∀ i, firstIdx d c p n = some i → i < n ∧ d (p+i) = c ∧ ∀ j, j < i → d (p+j) ≠ c) ∧
    (firstIdx d c p n = none → ∀ j, j < n → d (p+j) ≠ c) :=
  ⟨fun i => firstIdx_some d c p n i, firstIdx_none d c p n⟩

theorem lastIdx_spec (d : Nat → Nat) (c p n : Nat) :
    (∀ i, lastIdx d c p n = some i → i < n ∧ d (p+i) = c ∧ ∀ j, i < j → j < n → d (p+j) ≠ c) ∧
    (lastIdx d c p n = none → ∀ j, j < n → d (p+j) ≠ c) :=
  ⟨fun i => lastIdx_some d c p n i, lastIdx_none d c p n⟩

/-! ## memcmp family -/

/-- **memcmp_s**: compares the first `slen` bytes (`slen ≤ dmax`): 0 if equal, otherwise -1 / +1 as
the first differing pair orders as UNSIGNED bytes -/
theorem memcmp_s_C10 (dest dmax src slen : Nat) (st : St) (hall : AllRd st)
    (hd : dest ≠ 0) (hs : src ≠ 0) (hpos : 0 < dmax) (hle : dmax ≤ RSIZE_MAX_MEM)
    (hspos : 0 < slen) (hsle : slen ≤ dmax) :
    exec (memcmp_s dest dmax src slen none none) st =
      .ok ((EOK, match firstDiff st.data dest src slen with
                 | some i => (if st.data (dest+i) < st.data (src+i) then -1 else 1) | none => 0), st) := by
  unfold memcmp_s memcmpG memcmpChecks
  have h1 : ¬ dmax = 0 := by omega
  have h2 : ¬ dmax > RSIZE_MAX_MEM := by omega
  have h3 : ¬ slen = 0 := by omega
  have h4 : ¬ slen > RSIZE_MAX_MEM := by omega
  have h5 : ¬ slen > dmax := by omega
  simp only [hd, hs, h1, h2, h3, h4, h5, if_false, exec_bind, exec_pure]
  by_cases hsame : dest = src
  · subst hsame
    have : firstDiff st.data dest dest slen = none := by
      clear h3 h4 h5 hspos hsle
      induction slen generalizing dest with
      | zero => rfl
      | succ n ih => simp [firstDiff, ih (dest+1) (by omega)]
    simp [this]
  · simp only [hsame, if_false, exec_bind, memcmpLoopQ_eq hall _ _ _ _ _ hsle]
    rfl

/-- **wmemcmp_s**: the same on `wchar_t` elements (signed 32-bit order, as `wmemcmp` on this platform) -/
theorem wmemcmp_s_C10 (dest dlen src slen : Nat) (st : St) (hall : AllRd st)
    (hd : dest ≠ 0) (hs : src ≠ 0) (hpos : 0 < dlen) (hle : dlen * SIZEOF_WCHAR_T ≤ RSIZE_MAX_MEM)
    (hspos : 0 < slen) (hsle : slen ≤ dlen) (hne : dest ≠ src) :
    exec (wmemcmp_s dest dlen src slen none none) st =
      .ok ((EOK, match firstDiff st.data dest src slen with
                 | some i => (if toS32 (st.data (dest+i)) < toS32 (st.data (src+i)) then -1 else 1)
                 | none => 0), st) := by
  unfold wmemcmp_s
  have hw : SIZEOF_WCHAR_T = 4 := rfl
  rw [hw] at hle ⊢
  have hm : RSIZE_MAX_MEM < two64 := by decide
  have e1 : dlen * 4 % two64 = dlen * 4 := Nat.mod_eq_of_lt (by omega)
  have h1 : ¬ dlen * 4 = 0 := by omega
  have h2 : ¬ dlen * 4 > RSIZE_MAX_MEM := by omega
  have h3 : ¬ slen = 0 := by omega
  have hmm : RSIZE_MAX_MEM ≤ RSIZE_MAX_WMEM * 4 + 3 := by decide
  have h4 : ¬ slen > RSIZE_MAX_WMEM := by omega
  have h5 : ¬ slen > dlen := by omega
  simp only [hd, hs, e1, h1, h2, h3, h4, h5, hne, if_false, exec_bind, wmemcmpLoop_eq hall _ _ _ _ hsle]
  rfl

/-- what `firstDiff` means -/
theorem firstDiff_spec (d : Nat → Nat) (p q n : Nat) :
    (∀ i, firstDiff d p q n = some i → i < n ∧ d (p+i) ≠ d (q+i) ∧ ∀ j, j < i → d (p+j) = d (q+j)) ∧
    (firstDiff d p q n = none → ∀ j, j < n → d (p+j) = d (q+j)) :=
  ⟨fun i => firstDiff_some d p q n i, firstDiff_none d p q n⟩

end SafeC.Props.C10

namespace SafeC.Props.C10
open SafeC Gen

/-! ## spans -/

/-- **strspn_s**: the length of the initial segment of `dest` (first `dmax` characters, stopping at
its NUL) made only of characters of the string `src` (its first `slen` characters) -/
theorem strspn_s_C10 (dest dmax src slen : Nat) (st : St) (hall : AllRd st)
    (hd : dest ≠ 0) (hs : src ≠ 0) (hpos : 0 < dmax) (hle : dmax ≤ RSIZE_MAX_STR)
    (hspos : 0 < slen) (hsle : slen ≤ RSIZE_MAX_STR) :
    exec (strspn_s dest dmax src slen none none) st =
      .ok ((EOK, spanLen st.data true src slen dest dmax), st) := by
  unfold strspn_s qChkS qChkSlenS
  have h1 : ¬ dmax = 0 := by omega
  have h2 : ¬ dmax > RSIZE_MAX_STR := by omega
  have h3 : ¬ slen = 0 := by omega
  have h4 : ¬ slen > RSIZE_MAX_STR := by omega
  have h5 : ¬ (some src = some 0) := by simpa using hs
  simp only [hd, h1, h2, h3, h4, h5, if_false, exec_bind, exec_pure, spanOuter_eq hall]
  simp

/-- **strcspn_s**: the length of the initial segment made only of characters NOT in `src` -/
theorem strcspn_s_C10 (dest dmax src slen : Nat) (st : St) (hall : AllRd st)
    (hd : dest ≠ 0) (hs : src ≠ 0) (hpos : 0 < dmax) (hle : dmax ≤ RSIZE_MAX_STR)
    (hspos : 0 < slen) (hsle : slen ≤ RSIZE_MAX_STR) :
    exec (strcspn_s dest dmax src slen none none) st =
      .ok ((EOK, spanLen st.data false src slen dest dmax), st) := by
  unfold strcspn_s qChkS
  have h1 : ¬ dmax = 0 := by omega
  have h2 : ¬ dmax > RSIZE_MAX_STR := by omega
  have h3 : ¬ slen = 0 := by omega
  have h4 : ¬ slen > RSIZE_MAX_STR := by omega
  have h5 : ¬ (some src = some 0) := by simpa using hs
  simp only [hd, h1, h2, h3, h4, h5, if_false, exec_bind, exec_pure, spanOuter_eq hall]
  simp [exec_bind, spanOuter_eq hall]

/-- what `spanLen` means: bounded by `n`, every counted cell is non-NUL and (not) in the set, and
the cell that stopped the count — if inside `n` — is NUL or on the other side of the set -/
theorem spanLen_spec (d : Nat → Nat) (want : Bool) (src slen p n : Nat) :
    spanLen d want src slen p n ≤ n ∧
    (∀ i, i < spanLen d want src slen p n → d (p+i) ≠ 0 ∧ inSet d (d (p+i)) src slen = want) ∧
    (spanLen d want src slen p n < n →
      d (p + spanLen d want src slen p n) = 0 ∨ inSet d (d (p + spanLen d want src slen p n)) src slen ≠ want) := by
  induction n generalizing p with
  | zero => simp [spanLen]
  | succ n ih =>
    obtain ⟨i1, i2, i3⟩ := ih (p+1)
    simp only [spanLen]
    by_cases h0 : d p = 0
    · simp [h0]
    · simp only [h0, if_false]
      by_cases hw : inSet d (d p) src slen = want
      · simp only [hw, if_true]
        refine ⟨by omega, ?_, ?_⟩
        · intro i hi
          cases i with
          | zero => exact ⟨by simpa using h0, by simpa using hw⟩
          | succ i =>
            have := i2 i (by omega)
            simpa [Nat.add_assoc, Nat.add_comm 1 i] using this
        · intro hlt
          have := i3 (by omega)
          simpa [Nat.add_assoc, Nat.add_comm 1] using this
      · simp only [hw, if_false]
        exact ⟨by omega, fun i hi => by omega, fun _ => Or.inr (by simpa using hw)⟩

end SafeC.Props.C10

namespace SafeC.Props.C10
open SafeC Gen

/-! ## strcmp_s

FULL statement (false of the code): *for valid operands the value stored through `resultp` has the
sign of `strcmp` restricted to the first `dmax` characters (unsigned char comparison)*.
The code (a) subtracts plain — signed — `char`s and (b) when neither string ends nor differs within
`dmax` characters, subtracts the cells at index `dmax`, outside the compared extent.  Hence the
partial theorem (stop inside `dmax`, both cells 7-bit) and the two witnesses. -/

/-- what `strcmp_s` computes on ANY memory: plain-`char` difference at `stopIdx` -/
theorem strcmp_s_eq (dest dmax src : Nat) (st : St) (hall : AllRd st)
    (hd : dest ≠ 0) (hs : src ≠ 0) (hpos : 0 < dmax) (hle : dmax ≤ RSIZE_MAX_STR) :
    exec (strcmp_s dest dmax src none none) st =
      .ok ((EOK, schar (st.data (dest + stopIdx st.data dest src dmax)) -
                 schar (st.data (src + stopIdx st.data dest src dmax))), st) := by
  unfold strcmp_s qChkS
  have h1 : ¬ dmax = 0 := by omega
  have h2 : ¬ dmax > RSIZE_MAX_STR := by omega
  have h5 : ¬ (some src = some 0) := by simpa using hs
  simp only [hd, h1, h2, h5, if_false, exec_bind, exec_pure, strcmpLoop_eq hall]

/-- **strcmp_s, partial**: when the comparison is decided inside the first `dmax` characters
(`stopIdx < dmax`: one string ends or they differ there) and the two deciding characters are 7-bit,
the result is their difference as UNSIGNED characters — zero iff the strings are equal up to there,
and of `strcmp`'s sign otherwise. -/
theorem strcmp_s_C10_partial (dest dmax src : Nat) (st : St) (hall : AllRd st)
    (hd : dest ≠ 0) (hs : src ≠ 0) (hpos : 0 < dmax) (hle : dmax ≤ RSIZE_MAX_STR)
    (_hin : stopIdx st.data dest src dmax < dmax)
    (ha : st.data (dest + stopIdx st.data dest src dmax) < 128)
    (hb : st.data (src + stopIdx st.data dest src dmax) < 128) :
    exec (strcmp_s dest dmax src none none) st =
      .ok ((EOK, (st.data (dest + stopIdx st.data dest src dmax) : Int) -
                 (st.data (src + stopIdx st.data dest src dmax) : Int)), st) := by
  rw [strcmp_s_eq dest dmax src st hall hd hs hpos hle]
  simp [schar, ha, hb]

/-- memory for the witnesses: `dest` at 100, `src` at 200 -/
def wMem (f : Nat → Nat) : St := { data := f, mapped := fun _ => true, rd := fun _ => true, wr := fun _ => false }
theorem wMem_all (f : Nat → Nat) : AllRd (wMem f) := fun _ => ⟨rfl, rfl⟩

/-- (a) signed comparison: `strcmp_s("\x80", 2, "a")` stores a NEGATIVE value; `strcmp` says positive
(0x80 > 0x61 as unsigned char). Known finding `signed-char-compare`. -/
theorem strcmp_s_signed_witness :
    exec (strcmp_s 100 2 200 none none) (wMem fun a => if a = 100 then 128 else if a = 200 then 97 else 0) =
      .ok ((EOK, -225), wMem fun a => if a = 100 then 128 else if a = 200 then 97 else 0) := by
  rw [strcmp_s_eq _ _ _ _ (wMem_all _) (by decide) (by decide) (by decide) (by decide)]
  simp [wMem, stopIdx, schar]

/-- (b) result taken from outside the compared extent: `dest = "ab…"`, `src = "ac…"` compared over
`dmax = 1` character are EQUAL within the extent, yet the value stored is `'b' - 'c' = -1`.
Known finding `compare-uses-dest-dmax`. -/
theorem strcmp_s_outside_witness :
    exec (strcmp_s 100 1 200 none none)
        (wMem fun a => if a = 100 then 97 else if a = 101 then 98 else if a = 200 then 97 else if a = 201 then 99 else 0) =
      .ok ((EOK, -1),
        wMem fun a => if a = 100 then 97 else if a = 101 then 98 else if a = 200 then 97 else if a = 201 then 99 else 0) := by
  rw [strcmp_s_eq _ _ _ _ (wMem_all _) (by decide) (by decide) (by decide) (by decide)]
  simp [wMem, stopIdx, schar]

example : ∃ st : St, AllRd st ∧ stopIdx st.data 100 200 4 < 4 ∧ st.data (100 + stopIdx st.data 100 200 4) < 128 :=
  ⟨wMem fun a => if a = 100 then 97 else if a = 200 then 97 else 0, wMem_all _, by decide, by decide⟩

end SafeC.Props.C10

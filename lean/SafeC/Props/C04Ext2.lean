import SafeC.Props.C04Ext
import SafeC.Proofs.ExtNarrow
import SafeC.Proofs.ExtBos
import SafeC.Proofs.ExtInplace
/-! # C04 (extension 2): the narrow copy family with the object sizes known or unknown

`strcpy_s strncpy_s strcat_s strncat_s`, one statement each for `destbos` / `srcbos` unknown or known, every
placement of src (overlapping or not), every content, `cfg` arbitrary.  `Cleared` (from `Props/C04Ext.lean`): after
ANY non-EOK return on a usable dest `dest[0] = 0`; with null-slack all `dmax` cells are zero after ESNOSPC / ESOVRLP /
ESUNTERM / a null source; every cell outside `dest[0..dmax)` — in particular a source that does not overlap dest — is
unchanged (after success as well).  As in `Props/C04.lean` the "no element holds anything the failed call wrote"
clause is stated for the null-slack build only (recorded finding `noslack-partial`).

* `strcpy_s_C04`, `strcat_s_C04`: FULL (`strcpy_s` incl. `dest == src`, which returns EOK untouched).
* `strncpy_s_C04`, `strncat_s_C04`: FULL incl. `slen = 0` and `slen > RSIZE_MAX_STR`, for a source size that is unknown
  or contains `slen`; `slen > srcbos` with dest's size unknown is the recorded `slen-exceeds-srcbos`
  (`strncpy_s_C04_srcbos_witness`: dest[0] keeps its old character).
* `*_frame`: the C01 statement for ALL arguments (null / zero / oversize dest and dmax, `dmax` beyond a known object —
  there `chkDmaxClear` reports EOVERFLOW / ESLEMAX and clears at most `destbos` cells): no stray access, nothing
  outside the writable cells changes.
-/
namespace SafeC.Props.C04Ext2
open SafeC Gen SafeC.Props.C01 SafeC.Props.C04Ext

private theorem holds_of_frame {α} {p : Prog α} {r : α} {dest dmax : Nat} {st st' : St} (hs : Setting st)
    (he : exec p st = .ok (r, st')) (hf : FramePost dest dmax st st') : Holds st st' := by
  have hstr : st'.strays = [] := by rw [hf.strays, hs.clean]
  exact ⟨by simp [hstr], exec_frame_clean _ st he hs.clean hstr⟩

/-- strcpy_s: every failing exit on a usable dest, object size known or unknown, incl. `dest == src` -/
theorem strcpy_s_C04 (cfg : Cfg) (dest dmax src : Nat) (destbos : Bos) (st : St) (hs : Setting st)
    (hrw : RW st dest dmax) (hd : dest ≠ 0) (hpos : 0 < dmax) (hle : dmax ≤ RSIZE_MAX_STR)
    (hb : ∀ b, destbos = some b → dmax ≤ b) :
    ∃ code st', exec (strcpy_s cfg dest dmax src destbos) st = .ok (code, st') ∧
      Cleared cfg dest dmax st st' code := by
  obtain ⟨code, st', he, hf, hq⟩ := strcpy_s_ext cfg dest dmax src destbos st hs.all (fun _ => hrw)
  refine ⟨code, st', he, ?_⟩
  by_cases hne : dest = src
  · obtain ⟨h1, _⟩ := (hq ⟨hd, hpos, hle, hb⟩).2 hne
    subst h1
    exact ⟨fun h => absurd rfl h, fun h => by rcases h with h | h | h | h <;> exact absurd h (by decide), hf.frame⟩
  · have h := ((hq ⟨hd, hpos, hle, hb⟩).1 hne).1
    exact ⟨h.fail_first, h.fail_clear, hf.frame⟩

/-- strncpy_s: every failing exit on a usable dest (any slen incl. 0 and oversize; `slen` inside a known source) -/
theorem strncpy_s_C04 (cfg : Cfg) (dest dmax src slen : Nat) (destbos srcbos : Bos) (st : St) (hs : Setting st)
    (hrw : RW st dest dmax) (hd : dest ≠ 0) (hpos : 0 < dmax) (hle : dmax ≤ RSIZE_MAX_STR)
    (hb : ∀ b, destbos = some b → dmax ≤ b) (hsb : ∀ sb, srcbos = some sb → slen ≤ sb) :
    ∃ code st', exec (strncpy_s cfg dest dmax src slen destbos srcbos) st = .ok (code, st') ∧
      Cleared cfg dest dmax st st' code := by
  obtain ⟨code, st', he, hf, hq⟩ := strncpy_s_ext cfg dest dmax src slen destbos srcbos st hs.all (fun _ => hrw) hsb
  have h := (hq ⟨hd, hpos, hle, hb⟩).1
  exact ⟨code, st', he, h.fail_first, h.fail_clear, hf.frame⟩

/-- dest = "wxyz" without terminator (4 cells at 100), src = "ab" (3 cells at 200) -/
def bSt : St :=
  { data := fun a => if 100 ≤ a ∧ a < 104 then 119 else if a = 200 then 97 else if a = 201 then 98 else 0
    mapped := fun _ => true, rd := fun _ => true
    wr := fun a => decide (100 ≤ a ∧ a < 104) }

/-- the point excluded by `hsb` (recorded: `slen-exceeds-srcbos`): `strncpy_s(d, 4, "ab", 5)`, `BOS(src) = 3`, dest's
size unknown, null-slack build: EOVERFLOW and `dest[0]` keeps its old character -/
theorem strncpy_s_C04_srcbos_witness :
    ∃ st', exec (strncpy_s { slack := true } 100 4 200 5 none (some 3)) bSt = .ok (EOVERFLOW, st') ∧
      st'.data 100 = 119 := by
  refine ⟨_, rfl, ?_⟩
  simp [bSt]

/-- strcat_s: every failing exit on a usable dest -/
theorem strcat_s_C04 (cfg : Cfg) (dest dmax src : Nat) (destbos : Bos) (st : St) (hs : Setting st)
    (hrw : RW st dest dmax) (hd : dest ≠ 0) (hpos : 0 < dmax) (hle : dmax ≤ RSIZE_MAX_STR)
    (hb : ∀ b, destbos = some b → dmax ≤ b) :
    ∃ code st', exec (strcat_s cfg dest dmax src destbos) st = .ok (code, st') ∧
      Cleared cfg dest dmax st st' code := by
  obtain ⟨code, st', he, hf, hq⟩ := strcat_s_ext cfg dest dmax src destbos st hs.all (fun _ => hrw)
  have h := (hq ⟨hd, hpos, hle, hb⟩).1
  exact ⟨code, st', he, h.fail_first, h.fail_clear, hf.frame⟩

/-- strncat_s: every failing exit on a usable dest (any slen incl. 0 and oversize; `slen` inside a known source) -/
theorem strncat_s_C04 (cfg : Cfg) (dest dmax src slen : Nat) (destbos srcbos : Bos) (st : St) (hs : Setting st)
    (hrw : RW st dest dmax) (hd : dest ≠ 0) (hpos : 0 < dmax) (hle : dmax ≤ RSIZE_MAX_STR)
    (hb : ∀ b, destbos = some b → dmax ≤ b) (hsb : ∀ sb, srcbos = some sb → slen ≤ sb) :
    ∃ code st', exec (strncat_s cfg dest dmax src slen destbos srcbos) st = .ok (code, st') ∧
      Cleared cfg dest dmax st st' code := by
  obtain ⟨code, st', he, hf, hq⟩ := strncat_s_ext cfg dest dmax src slen destbos srcbos st hs.all (fun _ => hrw) hsb
  have h := (hq ⟨hd, hpos, hle, hb⟩).1
  exact ⟨code, st', he, h.fail_first, h.fail_clear, hf.frame⟩

/-! ## the C01 statement for ALL arguments, object size known or not (incl. `dmax > destbos`) -/

theorem strcpy_s_frame (cfg : Cfg) (dest dmax src : Nat) (destbos : Bos) (st : St) (hs : Setting st)
    (hrw : dest ≠ 0 → RW st dest dmax) :
    ∃ code st', exec (strcpy_s cfg dest dmax src destbos) st = .ok (code, st') ∧ Holds st st' := by
  obtain ⟨code, st', he, hf, _⟩ := strcpy_s_ext cfg dest dmax src destbos st hs.all hrw
  exact ⟨code, st', he, holds_of_frame hs he hf⟩

theorem strncpy_s_frame (cfg : Cfg) (dest dmax src slen : Nat) (destbos srcbos : Bos) (st : St) (hs : Setting st)
    (hrw : dest ≠ 0 → RW st dest dmax) (hsb : ∀ sb, srcbos = some sb → slen ≤ sb) :
    ∃ code st', exec (strncpy_s cfg dest dmax src slen destbos srcbos) st = .ok (code, st') ∧ Holds st st' := by
  obtain ⟨code, st', he, hf, _⟩ := strncpy_s_ext cfg dest dmax src slen destbos srcbos st hs.all hrw hsb
  exact ⟨code, st', he, holds_of_frame hs he hf⟩

theorem strcat_s_frame (cfg : Cfg) (dest dmax src : Nat) (destbos : Bos) (st : St) (hs : Setting st)
    (hrw : dest ≠ 0 → RW st dest dmax) :
    ∃ code st', exec (strcat_s cfg dest dmax src destbos) st = .ok (code, st') ∧ Holds st st' := by
  obtain ⟨code, st', he, hf, _⟩ := strcat_s_ext cfg dest dmax src destbos st hs.all hrw
  exact ⟨code, st', he, holds_of_frame hs he hf⟩

theorem strncat_s_frame (cfg : Cfg) (dest dmax src slen : Nat) (destbos srcbos : Bos) (st : St) (hs : Setting st)
    (hrw : dest ≠ 0 → RW st dest dmax) (hsb : ∀ sb, srcbos = some sb → slen ≤ sb) :
    ∃ code st', exec (strncat_s cfg dest dmax src slen destbos srcbos) st = .ok (code, st') ∧ Holds st st' := by
  obtain ⟨code, st', he, hf, _⟩ := strncat_s_ext cfg dest dmax src slen destbos srcbos st hs.all hrw hsb
  exact ⟨code, st', he, holds_of_frame hs he hf⟩

/-- the hypotheses are satisfiable: dest = 5 writable cells at 100 inside an object of 8, src = "ab" at 200 inside an
object of 3, slen = 2 -/
example : Setting exSt ∧ RW exSt 100 5 ∧ (100 : Nat) ≠ 0 ∧ 0 < 5 ∧ 5 ≤ RSIZE_MAX_STR ∧
    (∀ b, (some 8 : Bos) = some b → 5 ≤ b) ∧ (∀ sb, (some 3 : Bos) = some sb → 2 ≤ sb) := by
  refine ⟨⟨fun _ => ⟨rfl, rfl⟩, rfl⟩, fun i hi => ⟨rfl, ?_, rfl⟩, by decide, by decide, by decide, ?_, ?_⟩
  · simp [exSt]; omega
  · intro b h; cases h; decide
  · intro b h; cases h; decide

/-! ## `dmax` beyond a KNOWN object size (`dest` "not usable"): what the entry checks do, exactly

Every cell readable with arbitrary contents, ONLY the `b` cells of the object need be writable, `0 < b < dmax`, any
`src` / `slen` / `srcbos`, `cfg` arbitrary.
* The copies, the stp pair and strcpyfld_s go through `CHK_DEST_OVR_CLEAR`: `BosOver` — the code is ESLEMAX (`dmax` also
  above RSIZE_MAX_STR; `handle_error(dest, b)`: exactly `dest[0..b)` zeroed) else EOVERFLOW (`handle_str_bos_overflow`:
  exactly `dest[0..len)` zeroed, `len` = first NUL of the old dest within `b`, `b` if none — the old STRING, not the
  object: old data behind its NUL stays); without null-slack exactly `dest[0]`; ONE handler event; the stp pair
  returns NULL.  `bos_C04_facts`: in every case `dest[0] = 0` and nothing outside the OBJECT `dest[0..b)` changes (C01).
* strcpyfldin_s, strcpyfldout_s, strzero_s, strljustify_s, strremovews_s go through `CHK_DEST_OVR`: the code
  (`bosCode`), one handler event, NOTHING read or written (dest keeps its contents; dest is not usable, so C04 does
  not ask for more).  strnterminate_s returns 0 after one EOVERFLOW event (also when `dmax > RSIZE_MAX_STR`).
* Not failures: `strncpy_s(…, slen = 0)` (the shortcut precedes the check: EOK, `dest[0] = 0`), the field copies with
  `slen = 0` (documented no-op).
-/

theorem bos_C04_facts {cfg : Cfg} {dest dmax b code : Nat} {st st' : St} (h : BosOver cfg dest dmax b st st' code)
    (hb0 : 0 < b) :
    st'.data dest = 0 ∧ (∀ a, ¬ (dest ≤ a ∧ a < dest + b) → st'.data a = st.data a) ∧
      st'.strays = st.strays ∧ st'.wr = st.wr ∧ st'.events = st.events ++ [.handler .str code] :=
  h.facts hb0

theorem stpcpy_s_C04_bos (cfg : Cfg) (dest dmax src b : Nat) (srcbos : Bos) (st : St) (hs : Setting st)
    (hd : dest ≠ 0) (hb0 : 0 < b) (hbd : b < dmax) (hrw : RW st dest b) :
    ∃ code st', exec (stpcpy_s cfg dest dmax src (some b) srcbos) st = .ok ((0, code), st') ∧
      BosOver cfg dest dmax b st st' code := by
  unfold stpcpy_s
  rw [if_neg hd, if_neg (by omega)]
  exact chkDmaxClearG_over _ cfg dest dmax b _ st hs.all hd hb0 hbd hrw

theorem stpncpy_s_C04_bos (cfg : Cfg) (dest dmax src slen b : Nat) (srcbos : Bos) (st : St) (hs : Setting st)
    (hd : dest ≠ 0) (hb0 : 0 < b) (hbd : b < dmax) (hrw : RW st dest b) :
    ∃ code st', exec (stpncpy_s cfg dest dmax src slen (some b) srcbos) st = .ok ((0, code), st') ∧
      BosOver cfg dest dmax b st st' code := by
  unfold stpncpy_s
  rw [if_neg hd, if_neg (by omega)]
  exact chkDmaxClearG_over _ cfg dest dmax b _ st hs.all hd hb0 hbd hrw

theorem strcpy_s_C04_bos (cfg : Cfg) (dest dmax src b : Nat) (st : St) (hs : Setting st)
    (hd : dest ≠ 0) (hb0 : 0 < b) (hbd : b < dmax) (hrw : RW st dest b) :
    ∃ code st', exec (strcpy_s cfg dest dmax src (some b)) st = .ok (code, st') ∧
      BosOver cfg dest dmax b st st' code := by
  unfold strcpy_s strcpyG
  rw [if_neg hd, if_neg (by omega)]
  exact chkDmaxClearG_over id cfg dest dmax b _ st hs.all hd hb0 hbd hrw

theorem strncpy_s_C04_bos (cfg : Cfg) (dest dmax src slen b : Nat) (srcbos : Bos) (st : St) (hs : Setting st)
    (hd : dest ≠ 0) (hb0 : 0 < b) (hbd : b < dmax) (hrw : RW st dest b) (hslen : slen ≠ 0) :
    ∃ code st', exec (strncpy_s cfg dest dmax src slen (some b) srcbos) st = .ok (code, st') ∧
      BosOver cfg dest dmax b st st' code := by
  unfold strncpy_s strncpyG
  rw [if_neg (by intro h; exact hslen h.1), if_neg hd, if_neg (by omega)]
  exact chkDmaxClearG_over id cfg dest dmax b _ st hs.all hd hb0 hbd hrw

theorem strcat_s_C04_bos (cfg : Cfg) (dest dmax src b : Nat) (st : St) (hs : Setting st)
    (hd : dest ≠ 0) (hb0 : 0 < b) (hbd : b < dmax) (hrw : RW st dest b) :
    ∃ code st', exec (strcat_s cfg dest dmax src (some b)) st = .ok (code, st') ∧
      BosOver cfg dest dmax b st st' code := by
  unfold strcat_s strcatG
  rw [if_neg hd, if_neg (by omega)]
  exact chkDmaxClearG_over id cfg dest dmax b _ st hs.all hd hb0 hbd hrw

theorem strncat_s_C04_bos (cfg : Cfg) (dest dmax src slen b : Nat) (srcbos : Bos) (st : St) (hs : Setting st)
    (hd : dest ≠ 0) (hb0 : 0 < b) (hbd : b < dmax) (hrw : RW st dest b) :
    ∃ code st', exec (strncat_s cfg dest dmax src slen (some b) srcbos) st = .ok (code, st') ∧
      BosOver cfg dest dmax b st st' code := by
  unfold strncat_s strncatG
  rw [if_neg (by intro h; exact hd h.2.1), if_neg hd, if_neg (by omega)]
  exact chkDmaxClearG_over id cfg dest dmax b _ st hs.all hd hb0 hbd hrw

theorem strcpyfld_s_C04_bos (cfg : Cfg) (dest dmax src slen b : Nat) (st : St) (hs : Setting st)
    (hd : dest ≠ 0) (hb0 : 0 < b) (hbd : b < dmax) (hrw : RW st dest b) (hslen : slen ≠ 0) :
    ∃ code st', exec (strcpyfld_s cfg dest dmax src slen (some b)) st = .ok (code, st') ∧
      BosOver cfg dest dmax b st st' code := by
  unfold strcpyfld_s fldG
  rw [if_neg hslen, if_neg hd, if_neg (by omega)]
  exact chkDmaxClearG_over id cfg dest dmax b _ st hs.all hd hb0 hbd hrw

/-- the non-clearing entry check: one handler event, nothing else — for EVERY state -/
theorem strcpyfldin_s_C04_bos (cfg : Cfg) (dest dmax src slen b : Nat) (st : St)
    (hd : dest ≠ 0) (hbd : b < dmax) (hslen : slen ≠ 0) :
    exec (strcpyfldin_s cfg dest dmax src slen (some b)) st =
      .ok (bosCode dmax, { st with events := st.events ++ [.handler .str (bosCode dmax)] }) := by
  unfold strcpyfldin_s fldG
  rw [if_neg hslen, if_neg hd, if_neg (by omega)]
  exact chkDmax_over dmax b _ st hbd

theorem strcpyfldout_s_C04_bos (cfg : Cfg) (dest dmax src slen b : Nat) (st : St)
    (hd : dest ≠ 0) (hbd : b < dmax) (hslen : slen ≠ 0) :
    exec (strcpyfldout_s cfg dest dmax src slen (some b)) st =
      .ok (bosCode dmax, { st with events := st.events ++ [.handler .str (bosCode dmax)] }) := by
  unfold strcpyfldout_s fldG
  rw [if_neg hslen, if_neg hd, if_neg (by omega)]
  exact chkDmax_over dmax b _ st hbd

theorem strzero_s_C04_bos (cfg : Cfg) (dest dmax b : Nat) (st : St) (hd : dest ≠ 0) (hbd : b < dmax) :
    exec (strzero_s cfg dest dmax (some b)) st =
      .ok (bosCode dmax, { st with events := st.events ++ [.handler .str (bosCode dmax)] }) := by
  unfold strzero_s
  rw [if_neg hd, if_neg (by omega)]
  exact chkDmax_over dmax b _ st hbd

theorem strljustify_s_C04_bos (cfg : Cfg) (dest dmax b : Nat) (st : St) (hd : dest ≠ 0) (hbd : b < dmax) :
    exec (strljustify_s cfg dest dmax (some b)) st =
      .ok (bosCode dmax, { st with events := st.events ++ [.handler .str (bosCode dmax)] }) := by
  unfold strljustify_s
  rw [if_neg hd, if_neg (by omega)]
  exact chkDmax_over dmax b _ st hbd

theorem strremovews_s_C04_bos (cfg : Cfg) (dest dmax b : Nat) (st : St) (hd : dest ≠ 0) (hbd : b < dmax) :
    exec (strremovews_s cfg dest dmax (some b)) st =
      .ok (bosCode dmax, { st with events := st.events ++ [.handler .str (bosCode dmax)] }) := by
  unfold strremovews_s
  rw [if_neg hd, if_neg (by omega)]
  exact chkDmax_over dmax b _ st hbd

/-- strnterminate_s returns the length 0 after ONE EOVERFLOW event (its check does not look at RSIZE_MAX_STR when the
object size is known), dest untouched -/
theorem strnterminate_s_C04_bos (cfg : Cfg) (dest dmax b : Nat) (st : St) (hd : dest ≠ 0) (hbd : b < dmax) :
    exec (strnterminate_s cfg dest dmax (some b)) st =
      .ok (0, { st with events := st.events ++ [.handler .str EOVERFLOW] }) := by
  unfold strnterminate_s
  rw [if_neg hd, if_neg (by omega)]
  simp only
  rw [if_pos hbd]
  simp [handlerS, exec_bind]

/-! ### the stp pair: C01 statement for ALL arguments and ANY destbos (all `dmax` cells writable, also `destbos = 0`) -/

/-- stpcpy_s, ALL dest/dmax/src and ANY destbos / srcbos (`dmax` inside the known object or beyond it): C01 statement -/
theorem stpcpy_s_frame_all (cfg : Cfg) (dest dmax src : Nat) (destbos srcbos : Bos) (st : St) (hs : Setting st)
    (hrw : dest ≠ 0 → RW st dest dmax) :
    ∃ r st', exec (stpcpy_s cfg dest dmax src destbos srcbos) st = .ok (r, st') ∧ Holds st st' := by
  by_cases hb : ∀ b, destbos = some b → dmax ≤ b
  · exact stpcpy_s_frame cfg dest dmax src destbos srcbos st hs hrw hb
  · have : ∃ b, destbos = some b ∧ b < dmax := by
      cases destbos with
      | none => exact absurd (fun b h => by cases h) hb
      | some b => exact ⟨b, rfl, by
          apply Nat.lt_of_not_le; intro hle; exact hb (fun b' h => by cases h; exact hle)⟩
    obtain ⟨b, rfl, hbd⟩ := this
    by_cases hd : dest = 0
    · subst hd
      exact stpcpy_s_frame cfg 0 dmax src none srcbos st hs hrw (fun b h => by cases h) |> fun h => by
        simpa [stpcpy_s] using h
    · unfold stpcpy_s
      rw [if_neg hd, if_neg (by omega)]
      obtain ⟨code, st', he, hf⟩ := chkDmaxClearG_over_frame (fun c => (0, c)) cfg dest dmax b _ st hs.all (hrw hd) hbd
      exact ⟨_, st', he, holds_of_frame hs he hf⟩

theorem stpncpy_s_frame_all (cfg : Cfg) (dest dmax src slen : Nat) (destbos srcbos : Bos) (st : St) (hs : Setting st)
    (hrw : dest ≠ 0 → RW st dest dmax) (hsb : ∀ sb, srcbos = some sb → slen ≤ sb) :
    ∃ r st', exec (stpncpy_s cfg dest dmax src slen destbos srcbos) st = .ok (r, st') ∧ Holds st st' := by
  by_cases hb : ∀ b, destbos = some b → dmax ≤ b
  · exact stpncpy_s_frame cfg dest dmax src slen destbos srcbos st hs hrw hb hsb
  · have : ∃ b, destbos = some b ∧ b < dmax := by
      cases destbos with
      | none => exact absurd (fun b h => by cases h) hb
      | some b => exact ⟨b, rfl, by
          apply Nat.lt_of_not_le; intro hle; exact hb (fun b' h => by cases h; exact hle)⟩
    obtain ⟨b, rfl, hbd⟩ := this
    by_cases hd : dest = 0
    · subst hd
      exact stpncpy_s_frame cfg 0 dmax src slen none srcbos st hs hrw (fun b h => by cases h) hsb |> fun h => by
        simpa [stpncpy_s] using h
    · unfold stpncpy_s
      rw [if_neg hd, if_neg (by omega)]
      obtain ⟨code, st', he, hf⟩ := chkDmaxClearG_over_frame (fun c => (0, c)) cfg dest dmax b _ st hs.all (hrw hd) hbd
      exact ⟨_, st', he, holds_of_frame hs he hf⟩

/-- dest = "a\0b" + 1 more cell in an object of 3 cells at 100, all mapped -/
def oSt : St :=
  { data := fun a => if a = 100 then 97 else if a = 102 then 98 else 0
    mapped := fun _ => true, rd := fun _ => true
    wr := fun a => decide (100 ≤ a ∧ a < 103) }

/-- the hypotheses are satisfiable (`strcpy_s(d, 8, src)` with `BOS(d) = 3`) -/
example : Setting oSt ∧ (100 : Nat) ≠ 0 ∧ 0 < 3 ∧ 3 < 8 ∧ RW oSt 100 3 := by
  refine ⟨⟨fun _ => ⟨rfl, rfl⟩, rfl⟩, by decide, by decide, by decide, fun i hi => ⟨rfl, ?_, rfl⟩⟩
  simp [oSt]; omega

/-- … and there the null-slack build clears the old STRING only: `strcpy_s(d, 8, src)`, `BOS(d) = 3`, d = "a\0b":
EOVERFLOW, `d[0] = 0`, the stale 'b' at `d[2]` stays (kernel-evaluated instance of `BosOver` with `len = 1`) -/
theorem strcpy_s_C04_bos_witness :
    ∃ st', exec (strcpy_s { slack := true } 100 8 200 (some 3)) oSt = .ok (EOVERFLOW, st') ∧
      st'.data 100 = 0 ∧ st'.data 102 = 98 := by
  refine ⟨_, rfl, ?_⟩
  simp [oSt, St.upd, St.noteWr, St.noteRd]

end SafeC.Props.C04Ext2

import SafeC.Props.C04Ext
import SafeC.Proofs.ExtNarrow
/-! # C04 (extension 2): the narrow copy family with the object sizes known or unknown

`strcpy_s strncpy_s strcat_s strncat_s`, one statement each for `destbos` / `srcbos` unknown or known, every
placement of src (overlapping or not), every content, `cfg` arbitrary.  `Cleared` (from `Props/C04Ext.lean`): after
ANY non-EOK return on a usable dest `dest[0] = 0`; with null-slack all `dmax` cells are zero after ESNOSPC / ESOVRLP /
ESUNTERM / a null source; every cell outside `dest[0..dmax)` — in particular a source that does not overlap dest — is
unchanged (after success as well).  As in `Props/C04.lean` the "no element holds anything the failed call wrote"
clause is stated for the null-slack build only (recorded finding `noslack-partial`).

* `strcpy_s_C04`, `strcat_s_C04`: FULL (`strcpy_s` incl. `dest == src`, which returns EOK untouched).
* `strncpy_s_C04`, `strncat_s_C04`: FULL incl. `slen = 0` and `slen > RSIZE_MAX_STR`, for a source size that is unknown
  or contains `slen`; `slen > srcbos` with dest's size unknown is the recorded `slen-exceeds-srcbos`
  (`strncpy_s_C04_srcbos_witness`: dest[0] keeps its old character).
* `*_frame`: the C01 statement for ALL arguments (null / zero / oversize dest and dmax, `dmax` beyond a known object —
  there `chkDmaxClear` reports EOVERFLOW / ESLEMAX and clears at most `destbos` cells): no stray access, nothing
  outside the writable cells changes.
-/
namespace SafeC.Props.C04Ext2
open SafeC Gen SafeC.Props.C01 SafeC.Props.C04Ext

private theorem holds_of_frame {α} {p : Prog α} {r : α} {dest dmax : Nat} {st st' : St} (hs : Setting st)
    (he : exec p st = .ok (r, st')) (hf : FramePost dest dmax st st') : Holds st st' := by
  have hstr : st'.strays = [] := by rw [hf.strays, hs.clean]
  exact ⟨by simp [hstr], exec_frame_clean _ st he hs.clean hstr⟩

/-- strcpy_s: every failing exit on a usable dest, object size known or unknown, incl. `dest == src` -/
theorem strcpy_s_C04 (cfg : Cfg) (dest dmax src : Nat) (destbos : Bos) (st : St) (hs : Setting st)
    (hrw : RW st dest dmax) (hd : dest ≠ 0) (hpos : 0 < dmax) (hle : dmax ≤ RSIZE_MAX_STR)
    (hb : ∀ b, destbos = some b → dmax ≤ b) :
    ∃ code st', exec (strcpy_s cfg dest dmax src destbos) st = .ok (code, st') ∧
      Cleared cfg dest dmax st st' code := by
  obtain ⟨code, st', he, hf, hq⟩ := strcpy_s_ext cfg dest dmax src destbos st hs.all (fun _ => hrw)
  refine ⟨code, st', he, ?_⟩
  by_cases hne : dest = src
  · obtain ⟨h1, _⟩ := (hq ⟨hd, hpos, hle, hb⟩).2 hne
    subst h1
    exact ⟨fun h => absurd rfl h, fun h => by rcases h with h | h | h | h <;> exact absurd h (by decide), hf.frame⟩
  · have h := ((hq ⟨hd, hpos, hle, hb⟩).1 hne).1
    exact ⟨h.fail_first, h.fail_clear, hf.frame⟩

/-- strncpy_s: every failing exit on a usable dest (any slen incl. 0 and oversize; `slen` inside a known source) -/
theorem strncpy_s_C04 (cfg : Cfg) (dest dmax src slen : Nat) (destbos srcbos : Bos) (st : St) (hs : Setting st)
    (hrw : RW st dest dmax) (hd : dest ≠ 0) (hpos : 0 < dmax) (hle : dmax ≤ RSIZE_MAX_STR)
    (hb : ∀ b, destbos = some b → dmax ≤ b) (hsb : ∀ sb, srcbos = some sb → slen ≤ sb) :
    ∃ code st', exec (strncpy_s cfg dest dmax src slen destbos srcbos) st = .ok (code, st') ∧
      Cleared cfg dest dmax st st' code := by
  obtain ⟨code, st', he, hf, hq⟩ := strncpy_s_ext cfg dest dmax src slen destbos srcbos st hs.all (fun _ => hrw) hsb
  have h := (hq ⟨hd, hpos, hle, hb⟩).1
  exact ⟨code, st', he, h.fail_first, h.fail_clear, hf.frame⟩

/-- dest = "wxyz" without terminator (4 cells at 100), src = "ab" (3 cells at 200) -/
def bSt : St :=
  { data := fun a => if 100 ≤ a ∧ a < 104 then 119 else if a = 200 then 97 else if a = 201 then 98 else 0
    mapped := fun _ => true, rd := fun _ => true
    wr := fun a => decide (100 ≤ a ∧ a < 104) }

/-- the point excluded by `hsb` (recorded: `slen-exceeds-srcbos`): `strncpy_s(d, 4, "ab", 5)`, `BOS(src) = 3`, dest's
size unknown, null-slack build: EOVERFLOW and `dest[0]` keeps its old character -/
theorem strncpy_s_C04_srcbos_witness :
    ∃ st', exec (strncpy_s { slack := true } 100 4 200 5 none (some 3)) bSt = .ok (EOVERFLOW, st') ∧
      st'.data 100 = 119 := by
  refine ⟨_, rfl, ?_⟩
  simp [bSt]

/-- strcat_s: every failing exit on a usable dest -/
theorem strcat_s_C04 (cfg : Cfg) (dest dmax src : Nat) (destbos : Bos) (st : St) (hs : Setting st)
    (hrw : RW st dest dmax) (hd : dest ≠ 0) (hpos : 0 < dmax) (hle : dmax ≤ RSIZE_MAX_STR)
    (hb : ∀ b, destbos = some b → dmax ≤ b) :
    ∃ code st', exec (strcat_s cfg dest dmax src destbos) st = .ok (code, st') ∧
      Cleared cfg dest dmax st st' code := by
  obtain ⟨code, st', he, hf, hq⟩ := strcat_s_ext cfg dest dmax src destbos st hs.all (fun _ => hrw)
  have h := (hq ⟨hd, hpos, hle, hb⟩).1
  exact ⟨code, st', he, h.fail_first, h.fail_clear, hf.frame⟩

/-- strncat_s: every failing exit on a usable dest (any slen incl. 0 and oversize; `slen` inside a known source) -/
theorem strncat_s_C04 (cfg : Cfg) (dest dmax src slen : Nat) (destbos srcbos : Bos) (st : St) (hs : Setting st)
    (hrw : RW st dest dmax) (hd : dest ≠ 0) (hpos : 0 < dmax) (hle : dmax ≤ RSIZE_MAX_STR)
    (hb : ∀ b, destbos = some b → dmax ≤ b) (hsb : ∀ sb, srcbos = some sb → slen ≤ sb) :
    ∃ code st', exec (strncat_s cfg dest dmax src slen destbos srcbos) st = .ok (code, st') ∧
      Cleared cfg dest dmax st st' code := by
  obtain ⟨code, st', he, hf, hq⟩ := strncat_s_ext cfg dest dmax src slen destbos srcbos st hs.all (fun _ => hrw) hsb
  have h := (hq ⟨hd, hpos, hle, hb⟩).1
  exact ⟨code, st', he, h.fail_first, h.fail_clear, hf.frame⟩

/-! ## the C01 statement for ALL arguments, object size known or not (incl. `dmax > destbos`) -/

theorem strcpy_s_frame (cfg : Cfg) (dest dmax src : Nat) (destbos : Bos) (st : St) (hs : Setting st)
    (hrw : dest ≠ 0 → RW st dest dmax) :
    ∃ code st', exec (strcpy_s cfg dest dmax src destbos) st = .ok (code, st') ∧ Holds st st' := by
  obtain ⟨code, st', he, hf, _⟩ := strcpy_s_ext cfg dest dmax src destbos st hs.all hrw
  exact ⟨code, st', he, holds_of_frame hs he hf⟩

theorem strncpy_s_frame (cfg : Cfg) (dest dmax src slen : Nat) (destbos srcbos : Bos) (st : St) (hs : Setting st)
    (hrw : dest ≠ 0 → RW st dest dmax) (hsb : ∀ sb, srcbos = some sb → slen ≤ sb) :
    ∃ code st', exec (strncpy_s cfg dest dmax src slen destbos srcbos) st = .ok (code, st') ∧ Holds st st' := by
  obtain ⟨code, st', he, hf, _⟩ := strncpy_s_ext cfg dest dmax src slen destbos srcbos st hs.all hrw hsb
  exact ⟨code, st', he, holds_of_frame hs he hf⟩

theorem strcat_s_frame (cfg : Cfg) (dest dmax src : Nat) (destbos : Bos) (st : St) (hs : Setting st)
    (hrw : dest ≠ 0 → RW st dest dmax) :
    ∃ code st', exec (strcat_s cfg dest dmax src destbos) st = .ok (code, st') ∧ Holds st st' := by
  obtain ⟨code, st', he, hf, _⟩ := strcat_s_ext cfg dest dmax src destbos st hs.all hrw
  exact ⟨code, st', he, holds_of_frame hs he hf⟩

theorem strncat_s_frame (cfg : Cfg) (dest dmax src slen : Nat) (destbos srcbos : Bos) (st : St) (hs : Setting st)
    (hrw : dest ≠ 0 → RW st dest dmax) (hsb : ∀ sb, srcbos = some sb → slen ≤ sb) :
    ∃ code st', exec (strncat_s cfg dest dmax src slen destbos srcbos) st = .ok (code, st') ∧ Holds st st' := by
  obtain ⟨code, st', he, hf, _⟩ := strncat_s_ext cfg dest dmax src slen destbos srcbos st hs.all hrw hsb
  exact ⟨code, st', he, holds_of_frame hs he hf⟩

/-- the hypotheses are satisfiable: dest = 5 writable cells at 100 inside an object of 8, src = "ab" at 200 inside an
object of 3, slen = 2 -/
example : Setting exSt ∧ RW exSt 100 5 ∧ (100 : Nat) ≠ 0 ∧ 0 < 5 ∧ 5 ≤ RSIZE_MAX_STR ∧
    (∀ b, (some 8 : Bos) = some b → 5 ≤ b) ∧ (∀ sb, (some 3 : Bos) = some sb → 2 ≤ sb) := by
  refine ⟨⟨fun _ => ⟨rfl, rfl⟩, rfl⟩, fun i hi => ⟨rfl, ?_, rfl⟩, by decide, by decide, by decide, ?_, ?_⟩
  · simp [exSt]; omega
  · intro b h; cases h; decide
  · intro b h; cases h; decide

end SafeC.Props.C04Ext2

import SafeC.Props.C01
/-!
# C03 — string-producing calls never leave dest unterminated

For every prior content of dest (no hypothesis on `st.data`), every source (terminated or not,
overlapping or not), both slack configurations: after the call a NUL exists in `dest[0..dmax)`.
FULL statement for strcpy_s/wcscpy_s is FALSE of the code: `dest == src` returns EOK untouched
(`same-pointer-shortcut` in known_findings.jsonl); the hypothesis `dest ≠ src` is exactly that class
and `strcpy_s_C03_witness` exhibits the excluded point.
-/
namespace SafeC.Props.C03
open SafeC Gen SafeC.Props.C01

theorem strcpyG_C03_partial (max : Nat) (cfg : Cfg) (dest dmax src : Nat) (st : St) (hs : Setting st)
    (hrw : dest ≠ 0 → RW st dest dmax) (hd : dest ≠ 0) (hpos : 0 < dmax) (hle : dmax ≤ max)
    (hne : dest ≠ src) :
    ∃ code st', exec (strcpyG max cfg dest dmax src none) st = .ok (code, st') ∧
      ∃ i, i < dmax ∧ st'.data (dest + i) = 0 := by
  obtain ⟨code, st', he, _, h⟩ := strcpyG_safe max cfg dest dmax src st hs.all hrw
  exact ⟨code, st', he, (h hd hpos hle hne).1⟩

theorem strcpy_s_C03_partial (cfg : Cfg) (dest dmax src : Nat) (st : St) (hs : Setting st)
    (hrw : dest ≠ 0 → RW st dest dmax) (hd : dest ≠ 0) (hpos : 0 < dmax) (hle : dmax ≤ RSIZE_MAX_STR)
    (hne : dest ≠ src) :
    ∃ code st', exec (strcpy_s cfg dest dmax src none) st = .ok (code, st') ∧
      ∃ i, i < dmax ∧ st'.data (dest + i) = 0 :=
  strcpyG_C03_partial _ cfg dest dmax src st hs hrw hd hpos hle hne

theorem wcscpy_s_C03_partial (cfg : Cfg) (dest dmax src : Nat) (st : St) (hs : Setting st)
    (hrw : dest ≠ 0 → RW st dest dmax) (hd : dest ≠ 0) (hpos : 0 < dmax) (hle : dmax ≤ RSIZE_MAX_WSTR)
    (hne : dest ≠ src) :
    ∃ code st', exec (wcscpy_s cfg dest dmax src none) st = .ok (code, st') ∧
      ∃ i, i < dmax ∧ st'.data (dest + i) = 0 := by
  rw [wcscpy_eq]; exact strcpyG_C03_partial _ cfg dest dmax src st hs hrw hd hpos hle hne

/-- strncpy_s / strcat_s / strncat_s: FULL (no exclusion needed) for usable dest -/
theorem strncpy_s_C03 (cfg : Cfg) (dest dmax src slen : Nat) (st : St) (hs : Setting st)
    (hrw : dest ≠ 0 → RW st dest dmax) (hd : dest ≠ 0) (hpos : 0 < dmax) (hle : dmax ≤ RSIZE_MAX_STR) :
    ∃ code st', exec (strncpy_s cfg dest dmax src slen none none) st = .ok (code, st') ∧
      ∃ i, i < dmax ∧ st'.data (dest + i) = 0 := by
  obtain ⟨code, st', he, _, h⟩ := strncpyG_safe _ cfg dest dmax src slen st hs.all hrw (Nat.le_refl _)
  exact ⟨code, st', he, (h hd hpos hle).1⟩

theorem strcat_s_C03 (cfg : Cfg) (dest dmax src : Nat) (st : St) (hs : Setting st)
    (hrw : dest ≠ 0 → RW st dest dmax) (hd : dest ≠ 0) (hpos : 0 < dmax) (hle : dmax ≤ RSIZE_MAX_STR) :
    ∃ code st', exec (strcat_s cfg dest dmax src none) st = .ok (code, st') ∧
      ∃ i, i < dmax ∧ st'.data (dest + i) = 0 := by
  obtain ⟨code, st', he, _, h⟩ := strcatG_safe _ cfg dest dmax src st hs.all hrw
  exact ⟨code, st', he, (h hd hpos hle).1⟩

theorem strncat_s_C03 (cfg : Cfg) (dest dmax src slen : Nat) (st : St) (hs : Setting st)
    (hrw : dest ≠ 0 → RW st dest dmax) (hd : dest ≠ 0) (hpos : 0 < dmax) (hle : dmax ≤ RSIZE_MAX_STR)
    (hslen : slen ≠ 0) :
    ∃ code st', exec (strncat_s cfg dest dmax src slen none none) st = .ok (code, st') ∧
      ∃ i, i < dmax ∧ st'.data (dest + i) = 0 := by
  obtain ⟨code, st', he, _, h⟩ := strncatG_safe _ cfg dest dmax src slen st hs.all hrw hslen (Nat.le_refl _)
  exact ⟨code, st', he, (h hd hpos hle).1⟩

/-- the excluded point: `strcpy_s(d, 1, d)` with `d = "a"` returns EOK and dest[0..1) has no NUL -/
def wSt : St :=
  { data := fun a => if a = 100 then 97 else 0, mapped := fun _ => true, rd := fun _ => true
    wr := fun a => decide (a = 100) }

theorem strcpy_s_C03_witness :
    ∃ st', exec (strcpy_s {} 100 1 100 none) wSt = .ok (EOK, st') ∧ ¬ ∃ i, i < 1 ∧ st'.data (100 + i) = 0 := by
  refine ⟨wSt, by simp [strcpy_s, strcpyG, chkDmaxClear, chkDmaxClearG, RSIZE_MAX_STR, EOK], ?_⟩
  intro ⟨i, hi, h⟩
  have : i = 0 := by omega
  subst this
  simp [wSt] at h

example : Setting exSt ∧ ((100 : Nat) ≠ 0 → RW exSt 100 5) ∧ (100 : Nat) ≠ 0 ∧ 0 < 5 ∧ 5 ≤ RSIZE_MAX_STR ∧ (100 : Nat) ≠ 200 := by
  refine ⟨⟨fun _ => ⟨rfl, rfl⟩, rfl⟩, fun _ i hi => ⟨rfl, ?_, rfl⟩, by decide, by decide, by decide, by decide⟩
  simp [exSt]; omega

end SafeC.Props.C03

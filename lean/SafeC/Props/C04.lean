import SafeC.Props.C01
/-!
# C04 — a failed call leaves no partial result in dest

For strcpy_s / wcscpy_s (object size unknown), every way of failing after the entry checks
(source null, overlap reached, no space), every prior dest content:
* `dest[0] = 0`;
* with null-slack all `dmax` cells are zero;
* a cell outside `dest[0..dmax)` — in particular a source that does not overlap dest — is unchanged.
Without null-slack the cells behind `dest[0]` keep what was copied (`noslack-partial` known finding):
the FULL statement "no element holds anything the failed call wrote" is not provable in that
configuration, so the slack = false case carries only the first and third conjunct.
-/
namespace SafeC.Props.C04
open SafeC Gen SafeC.Props.C01

theorem strcpyG_C04 (max : Nat) (cfg : Cfg) (dest dmax src : Nat) (st : St) (hs : Setting st)
    (hrw : dest ≠ 0 → RW st dest dmax) (hd : dest ≠ 0) (hpos : 0 < dmax) (hle : dmax ≤ max)
    (hne : dest ≠ src) :
    ∃ code st', exec (strcpyG max cfg dest dmax src none) st = .ok (code, st') ∧
      (code ≠ EOK →
        st'.data dest = 0 ∧
        (cfg.slack = true → ∀ i, i < dmax → st'.data (dest + i) = 0) ∧
        (∀ a, ¬ (dest ≤ a ∧ a < dest + dmax) → st'.data a = st.data a)) := by
  obtain ⟨code, st', he, hp, h⟩ := strcpyG_safe max cfg dest dmax src st hs.all hrw
  obtain ⟨_, h1, h2⟩ := h hd hpos hle hne
  exact ⟨code, st', he, fun hc => ⟨h1 hc, h2 hc, hp.frame⟩⟩

theorem strcpy_s_C04 (cfg : Cfg) (dest dmax src : Nat) (st : St) (hs : Setting st)
    (hrw : dest ≠ 0 → RW st dest dmax) (hd : dest ≠ 0) (hpos : 0 < dmax) (hle : dmax ≤ RSIZE_MAX_STR)
    (hne : dest ≠ src) :
    ∃ code st', exec (strcpy_s cfg dest dmax src none) st = .ok (code, st') ∧
      (code ≠ EOK →
        st'.data dest = 0 ∧
        (cfg.slack = true → ∀ i, i < dmax → st'.data (dest + i) = 0) ∧
        (∀ a, ¬ (dest ≤ a ∧ a < dest + dmax) → st'.data a = st.data a)) :=
  strcpyG_C04 _ cfg dest dmax src st hs hrw hd hpos hle hne

theorem wcscpy_s_C04 (cfg : Cfg) (dest dmax src : Nat) (st : St) (hs : Setting st)
    (hrw : dest ≠ 0 → RW st dest dmax) (hd : dest ≠ 0) (hpos : 0 < dmax) (hle : dmax ≤ RSIZE_MAX_WSTR)
    (hne : dest ≠ src) :
    ∃ code st', exec (wcscpy_s cfg dest dmax src none) st = .ok (code, st') ∧
      (code ≠ EOK →
        st'.data dest = 0 ∧
        (cfg.slack = true → ∀ i, i < dmax → st'.data (dest + i) = 0) ∧
        (∀ a, ¬ (dest ≤ a ∧ a < dest + dmax) → st'.data a = st.data a)) := by
  rw [wcscpy_eq]; exact strcpyG_C04 _ cfg dest dmax src st hs hrw hd hpos hle hne

/-- strncpy_s / strcat_s / strncat_s: every failing exit on a usable dest -/
theorem strncpy_s_C04 (cfg : Cfg) (dest dmax src slen : Nat) (st : St) (hs : Setting st)
    (hrw : dest ≠ 0 → RW st dest dmax) (hd : dest ≠ 0) (hpos : 0 < dmax) (hle : dmax ≤ RSIZE_MAX_STR) :
    ∃ code st', exec (strncpy_s cfg dest dmax src slen none none) st = .ok (code, st') ∧
      (code ≠ EOK → st'.data dest = 0) ∧
      (code = ESNOSPC ∨ code = ESOVRLP ∨ code = ESUNTERM → cfg.slack = true → ∀ i, i < dmax → st'.data (dest + i) = 0) ∧
      (∀ a, ¬ (dest ≤ a ∧ a < dest + dmax) → st'.data a = st.data a) := by
  obtain ⟨code, st', he, hp, h⟩ := strncpyG_safe _ cfg dest dmax src slen st hs.all hrw (Nat.le_refl _)
  obtain ⟨_, h1, h2⟩ := h hd hpos hle
  exact ⟨code, st', he, h1, h2, hp.frame⟩

theorem strcat_s_C04 (cfg : Cfg) (dest dmax src : Nat) (st : St) (hs : Setting st)
    (hrw : dest ≠ 0 → RW st dest dmax) (hd : dest ≠ 0) (hpos : 0 < dmax) (hle : dmax ≤ RSIZE_MAX_STR) :
    ∃ code st', exec (strcat_s cfg dest dmax src none) st = .ok (code, st') ∧
      (code ≠ EOK → st'.data dest = 0) ∧
      (code = ESNOSPC ∨ code = ESOVRLP ∨ code = ESUNTERM → cfg.slack = true → ∀ i, i < dmax → st'.data (dest + i) = 0) ∧
      (∀ a, ¬ (dest ≤ a ∧ a < dest + dmax) → st'.data a = st.data a) := by
  obtain ⟨code, st', he, hp, h⟩ := strcatG_safe _ cfg dest dmax src st hs.all hrw
  obtain ⟨_, h1, h2⟩ := h hd hpos hle
  exact ⟨code, st', he, h1, h2, hp.frame⟩

theorem strncat_s_C04 (cfg : Cfg) (dest dmax src slen : Nat) (st : St) (hs : Setting st)
    (hrw : dest ≠ 0 → RW st dest dmax) (hd : dest ≠ 0) (hpos : 0 < dmax) (hle : dmax ≤ RSIZE_MAX_STR)
    (hslen : slen ≠ 0) :
    ∃ code st', exec (strncat_s cfg dest dmax src slen none none) st = .ok (code, st') ∧
      (code ≠ EOK → st'.data dest = 0) ∧
      (code = ESNOSPC ∨ code = ESOVRLP ∨ code = ESUNTERM → cfg.slack = true → ∀ i, i < dmax → st'.data (dest + i) = 0) ∧
      (∀ a, ¬ (dest ≤ a ∧ a < dest + dmax) → st'.data a = st.data a) := by
  obtain ⟨code, st', he, hp, h⟩ := strncatG_safe _ cfg dest dmax src slen st hs.all hrw hslen (Nat.le_refl _)
  obtain ⟨_, h1, h2⟩ := h hd hpos hle
  exact ⟨code, st', he, h1, h2, hp.frame⟩

end SafeC.Props.C04

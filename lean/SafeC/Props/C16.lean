import SafeC.Proofs.SortRel
import SafeC.Proofs.Bsearch
import SafeC.Proofs.SortSafe
import SafeC.Proofs.SortWhole
import SafeC.Proofs.SortCycle
import SafeC.Proofs.SortSorted
import SafeC.Proofs.SortGap64
/-!
# C16 — "qsort_s sorts and bsearch_s finds, for every array and comparator"

Models: `SafeC/Models/Sort.lean` (`qsortChk` = `_qsort_s_chk` + musl smoothsort at element-index level,
`bsearchChk` = `_bsearch_s_chk`).  `fx : Fixes` has one switch per repair in `fixes/qsort_*.diff` (`ctz64`: whole-word `ntz`,
`ovf`: unwrapped `nmemb*size` check, `pntzGap`: `pntz` tests `p[1] != 0` itself); `unrepaired` = none, `ntzOvfFixed` = the
first two, `allFixed` = all three.  Theorems quantified over `fx` hold for all eight combinations.

All statements quantify over EVERY array (any length), every element type, and — unless a hypothesis says
otherwise — EVERY comparator, including comparators whose answer depends on the call number and on the
positions of their arguments.  A run that ends in `.error` is a run in which the C would touch memory outside
the array or one of its fixed-size locals (see the model); `qsort_perm`/`qsort_cmp_discipline` speak about
every run that returns.
-/
namespace SafeC.Props.C16
open SafeC.Sort SafeC.Gen

/-! ## qsort_s: (1) permutation, (2) comparator discipline — every comparator, every `nmemb`, both codes -/

/-- (1) whatever `_qsort_s_chk` returns, the array is a permutation of the original array -/
theorem qsort_perm (fx : Fixes) (c : Cmp α) (g : Args) (s : St α) (o : Out α Nat)
    (h : qsortChk fx c g s = .ok o) : o.st.a.toList.Perm s.a.toList :=
  Array.perm_iff_toList_perm.mp (qsortChk_rel fx c g s o h).perm

/-- (2) every comparator call made by `_qsort_s_chk` is logged with two positions inside the array and
    the caller's context: the log of the exit state is the entry log extended by such events only -/
theorem qsort_cmp_discipline (fx : Fixes) (c : Cmp α) (g : Args) (s : St α) (o : Out α Nat)
    (h : qsortChk fx c g s = .ok o) :
    ∃ l, o.st.log = l ++ s.log ∧ ∀ ev ∈ l, ev.i < s.a.size ∧ ev.j < s.a.size ∧ ev.ctx = c.ctx :=
  (qsortChk_rel fx c g s o h).log

/-- the element count never changes (no element lost or duplicated, stated on sizes) -/
theorem qsort_size (fx : Fixes) (c : Cmp α) (g : Args) (s : St α) (o : Out α Nat)
    (h : qsortChk fx c g s = .ok o) : o.st.a.size = s.a.size :=
  (qsortChk_rel fx c g s o h).size

def natCmp : Cmp Nat := ⟨fun _ _ _ x y => if x < y then -1 else if x > y then 1 else 0, 7, true⟩
def okArgs (n w : Nat) : Args := ⟨false, false, false, n, w, none⟩

/-- non-vacuity: a run that returns, with 13 logged comparisons -/
example : (match qsortChk unrepaired natCmp (okArgs 6 4) ⟨#[5, 3, 9, 1, 2, 8], [], 0⟩ with
    | .ok o => o.st.a.toList == [1, 2, 3, 5, 8, 9] && o.st.log.length == 13 && o.ret == 0
    | .error _ => false) = true := by decide +kernel

/-- an inconsistent comparator (always "greater") returns too, with the elements rearranged -/
example : (match qsortChk unrepaired ⟨fun _ _ _ _ _ => 1, 0, true⟩ (okArgs 5 1) ⟨#[5, 3, 9, 1, 2], [], 0⟩ with
    | .ok o => o.st.a.toList != [5, 3, 9, 1, 2] && o.st.a.toList.length == 5
    | .error _ => false) = true := by decide +kernel


/-! ## (3) bounds and termination of qsort_s — every comparator

The smoothsort forest-shape invariant (`Shape`, Proofs/SortShape.lean): the set bits of the two-word vector `p`, read
relative to `pshift`, are the orders of Leonardo trees (strictly ascending, from the second on at least 2 apart,
`pshift = 0` only next to a tree of order 1) that tile `[0, head]` exactly, the smallest rooted at `head`.  It holds
initially (`Shape.init`), is preserved by the three cases of the main loop (`Shape.merge`, `Shape.single` for a new tree of
order 0 resp. 1) and by the dismantling loop (`Shape.drop`, `Shape.split`); `sift` and `trinkle` walk only inside the trees
it describes (`sift_in_tree_safe`, `trinkle_safe`), the dismantling loop ends exactly at `head = 0` (`Shape.done_of_zero`).
The model has no fuel: its loops recurse on the free entries of `ar[]`, on `high - head` and on `head`, so a run that
returns `.ok` is a run in which the C terminates, never indexes outside `[0, nmemb)`, never forms a pointer below
`base`, and overruns neither `lp[]` nor `ar[]`.

`qsort_safe` is the FULL statement (no bound on `nmemb`) for the code with the whole-word `ntz` and the repaired `pntz`.
For the code without the `pntz` repair it is FALSE beyond 55 555 780 070 575 elements (`qsort_safe_witness`,
`qsort_safe_overrun_witness`), hence `qsort_safe_partial`.
-/

/-- (3, FULL) `_qsort_s_chk` with the whole-word `ntz` and the repaired `pntz` (`fixes/qsort_s-pntz-gap-64.diff`), on an array
    of exactly `nmemb` elements — ANY `nmemb` —, EVERY comparator (inconsistent ones included), object size known or not:
    the call returns (terminates; every element index `< nmemb`; no pointer below `base`; `lp[]`, `ar[]` within capacity) and
    keeps the element count.  The two remaining hypotheses are about `size_t` arithmetic of the table loop
    `for (…; (lp[i] = lp[i-2] + lp[i-1] + width) < size; i++)`, which adds BEFORE it compares:
    * `nmemb*size ≤ 2^63`: the last entry computed is the first scaled Leonardo number `≥ nmemb*size`; it is below
      `2*nmemb*size`, so it fits `size_t`.  Dropping it is false, also of the C: `qsort_safe_product_witness` (the entry wraps,
      compares below `size`, and the loop goes on past the values the sort relies on; needs an object of 1.5·10^19 bytes).
      Every real object has at most `PTRDIFF_MAX < 2^63` bytes.
    * `3*size < 2^64`: the first computed entry is `3*width`.  Only a one-element array can violate it under the first
      hypothesis; the model flags the wrapped entry (`qsort_safe_size_witness`) although the C never uses the table then. -/
theorem qsort_safe (fx : Fixes) (hfx : fx.ctz64 = true) (hgap : fx.pntzGap = true) (c : Cmp α) (g : Args) (s : St α)
    (hn : g.nmemb = s.a.size) (h63 : g.nmemb * g.size ≤ 2 ^ 63) (h3 : 3 * g.size < 2 ^ 64) :
    ∃ o, qsortChk fx c g s = .ok o ∧ o.st.a.size = s.a.size := by
  rcases qsortChk_cases fx c g s with ⟨code, _, h⟩ | h
  · exact ⟨_, h, rfl⟩
  · obtain ⟨r, hr, hsz⟩ := qsortMusl_safe fx hfx hgap c s g.nmemb g.size hn h63 h3
    exact ⟨⟨EOK, none, [], r⟩, by rw [h, hr]; rfl, hsz⟩

/-- non-vacuity: 6 elements of 4 bytes, all three repairs -/
example : allFixed.ctz64 = true ∧ allFixed.pntzGap = true ∧ (6 : Nat) = (#[5, 3, 9, 1, 2, 8] : Array Nat).size ∧ 6 * 4 ≤ 2 ^ 63 ∧
    3 * 4 < 2 ^ 64 := by decide

/-- witness for `nmemb*size ≤ 2^63` in `qsort_safe` (all repairs, size 1, object of `2^64 - 1` bytes, product representable in
    `size_t`): with `nmemb = leo 91 + 1` = 15 080 227 609 492 692 858 the table loop computes `lp[92] = leo 92`, which does not
    fit `size_t`; the call does not return `.ok` whatever the array — in the C the wrapped entry is `< size`, the loop goes on
    and the table no longer holds Leonardo numbers.  (No such object exists on a 64-bit machine.) -/
theorem qsort_safe_product_witness (c : Cmp α) (s : St α) :
    qsortChk allFixed c ⟨false, false, false, 15080227609492692858, 1, some (2 ^ 64 - 1)⟩ s = .error .wrap ∧
    15080227609492692858 * 1 < 2 ^ 64 ∧ 3 * 1 < 2 ^ 64 ∧ ¬ (15080227609492692858 * 1 ≤ 2 ^ 63) := by
  refine ⟨?_, by decide, by decide, by decide⟩
  have hmk : mkLp 1 15080227609492692858 = .error .wrap := eq_wrap_of_match _ (by decide +kernel)
  unfold qsortChk qsortMusl
  simp only [allFixed, if_true]
  rw [if_neg (by decide)]
  simp only [show (1 * 15080227609492692858) % 2 ^ 64 = 15080227609492692858 by decide]
  rw [if_neg (by decide), hmk]
  rfl

/-- witness for `3*size < 2^64` in `qsort_safe`: one element of `2^63` bytes (object size known, all repairs): the model flags
    `lp[2] = 3*width` as not representable (`Fault.wrap`).  Of the MODEL only: the C computes the wrapped value too but never
    reads the table when `nmemb = 1`. -/
theorem qsort_safe_size_witness :
    qsortChk allFixed natCmp ⟨false, false, false, 1, 2 ^ 63, some (2 ^ 63)⟩ ⟨#[0], [], 0⟩ = .error .wrap ∧
    1 * 2 ^ 63 ≤ 2 ^ 63 ∧ ¬ (3 * 2 ^ 63 < 2 ^ 64) := by
  refine ⟨eq_wrap_of_match _ (by decide +kernel), by decide, by decide⟩

/-- witness for `nmemb = a.size` in `qsort_safe` (the caller's obligation: the array really has `nmemb` elements; with an
    unknown object size nothing can check it): `nmemb = 4` on a 3-element array reads element 3 (`Fault.idx 3`; in the harness
    the guard page) -/
theorem qsort_safe_nmemb_witness :
    (match qsortChk allFixed natCmp (okArgs 4 4) ⟨#[3, 2, 1], [], 0⟩ with
     | .error (.idx i) => i == 3
     | _ => false) = true := by decide +kernel

/-- (3, code WITHOUT the `pntz` repair — the statement holds for every `fx`) `_qsort_s_chk` on an array of exactly `nmemb`
    elements, EVERY comparator (inconsistent ones included), either `ntz`: the call returns (terminates; every element index `< nmemb`; no pointer below `base`; `lp[]`, `ar[]` within capacity)
    and keeps the element count.  Hypotheses the proof forces: the byte size fits 63 bits and `3*size` fits 64 bits (the
    table loop computes `lp[i-2] + lp[i-1] + width` before comparing it with `nmemb*size`), and `nmemb ≤ safeBound fx`
    = `leo 65` = 55 555 780 070 575 for the repaired `ntz`, `leo 34` = 18 454 929 for the `int` builtin (up to there
    every `pntz` answer is right). -/
theorem qsort_safe_partial (fx : Fixes) (c : Cmp α) (g : Args) (s : St α) (hn : g.nmemb = s.a.size)
    (h63 : g.nmemb * g.size ≤ 2 ^ 63) (h3 : 3 * g.size < 2 ^ 64) (hb : g.nmemb ≤ safeBound fx) :
    ∃ o, qsortChk fx c g s = .ok o ∧ o.st.a.size = s.a.size := by
  have hrun : ∃ o, (do let s' ← qsortMusl fx c s g.nmemb g.size; pure (⟨EOK, none, [], s'⟩ : Out α Nat)) = .ok o ∧
      o.st.a.size = s.a.size := by
    obtain ⟨r, hr, hsz⟩ := qsortMusl_safe_partial fx c s g.nmemb g.size hn h63 h3 hb
    exact ⟨⟨EOK, none, [], r⟩, by rw [hr]; rfl, hsz⟩
  unfold qsortChk
  split
  · exact ⟨_, rfl, rfl⟩
  · split
    · split
      · exact ⟨_, rfl, rfl⟩
      · exact hrun
    · split
      · split
        · exact ⟨_, rfl, rfl⟩
        · exact hrun
      · split
        · exact ⟨_, rfl, rfl⟩
        · exact hrun

/-- non-vacuity: 6 elements of 4 bytes -/
example : (6 : Nat) = (#[5, 3, 9, 1, 2, 8] : Array Nat).size ∧ 6 * 4 ≤ 2 ^ 63 ∧ 3 * 4 < 2 ^ 64 ∧ 6 ≤ safeBound ntzOvfFixed ∧
    6 ≤ safeBound unrepaired := by decide

/-- (3, FULL for the branch without a known object size) repaired `ntz`, `basebos == BOS_UNKNOWN`: the function's own
    `RSIZE_MAX_MEM` checks imply every side condition of `qsort_safe_partial`, so EVERY call on an array of `nmemb`
    elements — any `nmemb`, any `size`, any comparator, NULL arguments or not — returns and keeps the element count -/
theorem qsort_safe_bos_unknown (fx : Fixes) (hfx : fx.ctz64 = true) (c : Cmp α) (g : Args) (s : St α)
    (hbos : g.bos = none) (hn : g.nmemb = s.a.size) : ∃ o, qsortChk fx c g s = .ok o ∧ o.st.a.size = s.a.size := by
  by_cases hl : g.nmemb > RSIZE_MAX_MEM ∨ g.size > RSIZE_MAX_MEM
  · unfold qsortChk
    split
    · exact ⟨_, rfl, rfl⟩
    · simp only [hbos]
      exact ⟨_, rfl, rfl⟩
  · have h1 : g.nmemb ≤ 268435456 := by unfold RSIZE_MAX_MEM at hl; omega
    have h2 : g.size ≤ 268435456 := by unfold RSIZE_MAX_MEM at hl; omega
    refine qsort_safe_partial fx c g s hn ?_ (by omega) (by unfold safeBound; simp only [hfx, if_true]; omega)
    calc g.nmemb * g.size ≤ 268435456 * 268435456 := Nat.mul_le_mul h1 h2
      _ ≤ 2 ^ 63 := by decide

example : (okArgs 6 4).bos = none := rfl

/-- witness for the bound of `qsort_safe_partial` (whole-word `ntz`, `pntz` not repaired — the tree before
    `fixes/qsort_s-pntz-gap-64.diff`, and musl upstream): `{1, 1}` with `pshift = 1` is the bit
    vector of a heap whose two trees have orders 1 and 65, first reached with `leo 65 + 1` = 55 555 780 070 576
    elements; `pntz` answers 0 instead of 64 (`r = 64 + ntz(p[1])` is 64 and taken for "no bit set"), so `trinkle` shifts by 0 and keeps
    walking `head - lp[1]` with the same `p`: it never reaches `p == {1,0}` and stops only when the comparator says so — `ar[]` (113
    entries) is overrun after 112 steps with a comparator that keeps answering "greater" (e.g. a consistent one, new element
    smaller than the 112 elements below it).  No run of that size can be replayed; the statement here is about `pntz` and the
    encoding only (the check replays `pntz` itself on `{1,1}` on the compiled C: harness/hpntz.c).  The repaired `pntz`
    answers 64. -/
theorem qsort_safe_witness : pntz ntzOvfFixed ⟨1, 1⟩ = 0 ∧ Rep ⟨1, 1⟩ 1 [1, 65] ∧ leo 65 + 1 = 55555780070576 ∧
    pntz allFixed ⟨1, 1⟩ = 64 := by
  refine ⟨by decide +kernel, ?_, by rw [leo_65], by decide +kernel⟩
  intro i
  unfold PV.bit
  by_cases h : i < 64
  · simp only [h, if_true]
    show (1 : Nat).testBit i = _
    rw [tb_one]
    apply decide_eq_decide.mpr
    simp only [List.mem_cons, List.not_mem_nil, or_false]
    omega
  · simp only [h, if_false]
    show (1 : Nat).testBit (i - 64) = _
    rw [tb_one]
    apply decide_eq_decide.mpr
    simp only [List.mem_cons, List.not_mem_nil, or_false]
    omega

/-- `cycle` on at most 112 positions inside the array returns and keeps the size (no `ar[]` overrun, no position `≥ nmemb`) -/
theorem cycle_safe (s : St α) (ar : List Nat) (h : ∀ y ∈ ar, y < s.a.size) (hl : ar.length ≤ 112) :
    ∃ r, cycle s ar = .ok r ∧ r.a.size = s.a.size := cycle_tot s ar h hl

/-- `sift` called on a Leonardo tree of order `pshift` rooted at `head` that lies inside the array
    (`leo pshift ≤ head + 1`, `head < nmemb`), with `lp[0..pshift]` the Leonardo numbers: every comparison and move is
    at positions `< nmemb`, no pointer below `base`, `ar[]` not overrun, the call returns — every comparator -/
theorem sift_in_tree_safe (e : Env α) (s : St α) (n head pshift : Nat) (hs : s.a.size = n) (hh : head < n)
    (hl : leo pshift ≤ head + 1) (hlp : LpOk e.lp pshift) (hp : pshift ≤ 111) :
    ∃ r, sift e s head pshift = .ok r ∧ r.a.size = n := sift_safe e s n head pshift hs hh hl hlp hp

/-- non-vacuity: the root of a tree of order 3 (5 elements) at position 4 of a 5-element array -/
example : leo 3 ≤ 4 + 1 ∧ LpOk #[1, 1, 3, 5, 9] 3 := by
  refine ⟨by decide, ?_⟩
  intro i hi
  have : i = 0 ∨ i = 1 ∨ i = 2 ∨ i = 3 := by omega
  rcases this with h | h | h | h <;> subst h <;> decide

/-- witness for the defect that makes `qsort_safe` false of the tree as it stands: the bit vector of a heap whose two
    smallest trees are 33 orders apart (first reached with nmemb = leo 34 + 1 = 18454930): `pntz` as compiled
    (`__builtin_ctz` on the low 32 bits, `tzcnt`) answers 32, the repaired `ntz` 33.  The failing run itself
    (18454930 elements) is replayed on the real C and on the compiled model by the check (known finding
    `qsort_s-ntz-counts-32-bits`). -/
theorem pntz_witness : pntz unrepaired ⟨2 ^ 33 + 1, 0⟩ = 32 ∧ pntz allFixed ⟨2 ^ 33 + 1, 0⟩ = 33 ∧ leo 34 + 1 = 18454930 := by
  refine ⟨by decide +kernel, by decide +kernel, by decide +kernel⟩

/-- second half of the witness, on the model's `trinkle` itself: in the state `p = {1,1}`, `pshift = 1` (the forest of orders 1 and
    65 of `qsort_safe_witness`), repaired `ntz`, `pntz` NOT repaired, any array with at least 114 elements below `head`, a
    comparator that answers "greater" every time: `trinkle` does not return, it runs over the 113 entries of `ar[]`
    (`Fault.arIdx`) -/
theorem qsort_safe_overrun_witness (e : Env α) (hfx : e.fx.ctz64 = true) (hgap : e.fx.pntzGap = false)
    (hcmp : ∀ k i j x y, e.cmp k i j x y = 1)
    (hlp1 : e.lp[1]? = some 1) (s : St α) (head : Nat) (hh : head < s.a.size) (h113 : 113 ≤ head) :
    trinkle e s head ⟨1, 1⟩ 1 false = .error .arIdx := trinkle_gap64_overrun e hfx hgap hcmp hlp1 s head hh h113

/-- non-vacuity: 200 elements, head = 150, the switches of the tree before the `pntz` repair -/
example : (150 : Nat) < (Array.replicate 200 (0 : Nat)).size ∧ 113 ≤ 150 ∧ (#[1, 1, 3] : Array Nat)[1]? = some 1 ∧
    ntzOvfFixed.ctz64 = true ∧ ntzOvfFixed.pntzGap = false := by
  refine ⟨by simp, by decide, by decide, rfl, rfl⟩

/-! ## (5) qsort_s sorts — comparator a total preorder

On top of `Shape`: every tree of the forest heap-ordered (`Heaps`), roots ascending (`Roots`) — during the build phase only
for the trees the code itself declares final (`RootsFin`: `lp[pshift-1] >= high - head` is a static property of a tree's
order and root position, and a final tree has only final trees to its left, `fin_step`) —, and in the dismantling loop
everything right of `head` in its final place (`Dom`).  `sift_spec`: `sift` restores the heap order of one tree given both
subtrees are heaps; `trinkle_spec`: `trinkle` restores heap order and ascending roots of the whole forest. -/

/-- (5, FULL) `_qsort_s_chk` with the whole-word `ntz` and the repaired `pntz` returns EOK on an array of exactly `nmemb`
    elements — ANY `nmemb` — of `size > 0` bytes, with a comparator that is a total preorder — its sign depends on the two
    elements only (`f`), is antisymmetric (`0 ≤ f x y ↔ f y x ≤ 0`, which gives totality and reflexivity) and transitive: the
    result is ordered, `f a[j] a[i] ≤ 0` for all `j ≤ i`.  Arithmetic side conditions as in `qsort_safe` (see there for why
    each is needed and for the witnesses); `size > 0` because a zero-size call returns EOK without sorting (as documented).
    Together with `qsort_perm` this is "sorted permutation of the input". -/
theorem qsort_sorted (fx : Fixes) (hfx : fx.ctz64 = true) (hgap : fx.pntzGap = true) (c : Cmp α) (f : α → α → Int)
    (hcmp : ∀ k i j x y, c.cmp k i j x y = f x y)
    (hanti : ∀ x y, 0 ≤ f x y ↔ f y x ≤ 0) (htrans : ∀ x y z, f x y ≤ 0 → f y z ≤ 0 → f x z ≤ 0)
    (g : Args) (s : St α) (hn : g.nmemb = s.a.size) (hsz : 0 < g.size) (h63 : g.nmemb * g.size ≤ 2 ^ 63)
    (h3 : 3 * g.size < 2 ^ 64) (o : Out α Nat) (h : qsortChk fx c g s = .ok o) (hok : o.ret = EOK) :
    ∀ (i j : Nat) (hi : i < o.st.a.size) (hij : j ≤ i), f (o.st.a[j]'(by omega)) o.st.a[i] ≤ 0 := by
  intro i j hi hij
  have hsize : o.st.a.size = s.a.size := qsort_size fx c g s o h
  have h0 : 0 < s.a.size := by omega
  haveI : Inhabited α := ⟨s.a[0]⟩
  exact sorted_of_musl fx c f g s
    (qsortMusl_sorted fx hfx hgap c (consistent_of c f hcmp hanti htrans) s g.nmemb g.size hn hsz h63 h3) hn o h hok i j hi hij

/-- witness for `size > 0` in `qsort_sorted`: `size = 0` returns EOK and leaves the array alone -/
theorem qsort_sorted_size0_witness :
    (match qsortChk allFixed natCmp (okArgs 3 0) ⟨#[3, 2, 1], [], 0⟩ with
     | .ok o => o.ret == EOK && o.st.a.toList == [3, 2, 1]
     | .error _ => false) = true := by decide +kernel

/-- (5, code WITHOUT the `pntz` repair — the statement holds for every `fx`) the same with `nmemb ≤ safeBound fx` (see
    `qsort_safe_partial` and `qsort_safe_witness` for why the element count is bounded there) -/
theorem qsort_sorted_partial (fx : Fixes) (c : Cmp α) (f : α → α → Int) (hcmp : ∀ k i j x y, c.cmp k i j x y = f x y)
    (hanti : ∀ x y, 0 ≤ f x y ↔ f y x ≤ 0) (htrans : ∀ x y z, f x y ≤ 0 → f y z ≤ 0 → f x z ≤ 0)
    (g : Args) (s : St α) (hn : g.nmemb = s.a.size) (hsz : 0 < g.size) (h63 : g.nmemb * g.size ≤ 2 ^ 63)
    (h3 : 3 * g.size < 2 ^ 64) (hb : g.nmemb ≤ safeBound fx) (o : Out α Nat) (h : qsortChk fx c g s = .ok o)
    (hok : o.ret = EOK) :
    ∀ (i j : Nat) (hi : i < o.st.a.size) (hij : j ≤ i), f (o.st.a[j]'(by omega)) o.st.a[i] ≤ 0 := by
  intro i j hi hij
  have hsize : o.st.a.size = s.a.size := qsort_size fx c g s o h
  have h0 : 0 < s.a.size := by omega
  haveI : Inhabited α := ⟨s.a[0]⟩
  exact sorted_of_musl fx c f g s
    (qsortMusl_sorted_partial fx c (consistent_of c f hcmp hanti htrans) s g.nmemb g.size hn hsz h63 h3 hb) hn o h hok i j hi hij

/-- non-vacuity: the three-way comparison of natural numbers is such a comparator -/
example : (∀ x y : Nat, 0 ≤ (if x < y then (-1 : Int) else if x > y then 1 else 0) ↔
      (if y < x then (-1 : Int) else if y > x then 1 else 0) ≤ 0) ∧
    (∀ x y z : Nat, (if x < y then (-1 : Int) else if x > y then 1 else 0) ≤ 0 →
      (if y < z then (-1 : Int) else if y > z then 1 else 0) ≤ 0 → (if x < z then (-1 : Int) else if x > z then 1 else 0) ≤ 0) := by
  constructor
  · intro x y; split <;> split <;> (try split) <;> (try split) <;> omega
  · intro x y z; split <;> split <;> (try split) <;> (try split) <;> (try split) <;> (try split) <;> omega

/-! ## the byte-level `cycle` (rotation through `tmp[256]` in chunks) is the element rotation the sort model uses -/

/-- `cycle(width, ar, n)` of the C on bytes = the rotation of whole elements, for EVERY width (also > 256 and not a multiple
    of 256; `width = 0` included), every element count and EVERY list of positions inside the array (any length, repeated
    positions allowed), `fuel` = any bound ≥ the number of 256-byte chunks: the byte program returns, the memory keeps its
    size, and cutting the new memory into `w`-byte elements gives exactly what the element rotation `cycleElems` (= `cycle`
    without the `ar[]` capacity check, `cycle_eq_cycleElems`) computes on the old elements -/
theorem cycleBytes_is_cycle (w n : Nat) (mem : Array UInt8) (hm : mem.size = n * w) (ar : List Nat) (har : ∀ x ∈ ar, x < n)
    (fuel : Nat) (hf : w ≤ 256 * fuel) :
    ∃ mem', cycleBytes fuel mem w (ar.map (· * w)) = .ok mem' ∧ mem'.size = n * w ∧
      cycleElems (elems mem w n) ar = .ok (elems mem' w n) :=
  cycleBytes_eq_cycle w n mem hm ar har fuel hf

/-- the same against the sort's own `cycle` (at most 112 positions, the capacity of `ar[]` next to `tmp`) -/
theorem cycleBytes_is_cycle_st (w n : Nat) (mem : Array UInt8) (hm : mem.size = n * w) (ar : List Nat) (har : ∀ x ∈ ar, x < n)
    (hlen : ar.length ≤ 112) (fuel : Nat) (hf : w ≤ 256 * fuel) (s : St (Array UInt8)) (hs : s.a = elems mem w n) :
    ∃ mem', cycleBytes fuel mem w (ar.map (· * w)) = .ok mem' ∧ mem'.size = n * w ∧
      cycle s ar = .ok { s with a := elems mem' w n } :=
  cycleBytes_eq_cycle' w n mem hm ar har hlen fuel hf s hs

/-- a position outside the array among at least two positions: both programs fault (the payloads differ: byte address vs
    element index) -/
theorem cycleBytes_fault_iff (w n : Nat) (hw : 0 < w) (mem : Array UInt8) (hm : mem.size = n * w) (ar : List Nat)
    (hlen : 2 ≤ ar.length) (hbad : ∃ z ∈ ar, n ≤ z) (fuel : Nat) (hf : w ≤ 256 * fuel) :
    (∃ e, cycleBytes fuel mem w (ar.map (· * w)) = .error e) ∧ (∃ e, cycleElems (elems mem w n) ar = .error e) :=
  cycle_fault w n hw mem hm ar hlen hbad fuel hf

/-- non-vacuity: width 300 (chunks of 256 and 44 bytes), 3 elements, positions 2, 0, 1, fuel 2 -/
example : (Array.ofFn (n := 900) fun i => i.val.toUInt8).size = 3 * 300 ∧ (∀ x ∈ [2, 0, 1], x < 3) ∧ 300 ≤ 256 * 2 := by
  refine ⟨by simp, by decide, by decide⟩

/-! ## entry checks of `_qsort_s_chk` (doc comment: ESNULLP / ESLEMAX / ESNOSPC) -/

/-- a rejected call: code returned, exactly one str-handler event with that code, nothing touched -/
def Rejected (r : M (Out α Nat)) (s : St α) (code : Nat) : Prop :=
  r = .ok ⟨code, none, [(.str, code)], s⟩

theorem qsortChk_null (fx : Fixes) (c : Cmp α) (g : Args) (s : St α)
    (hn : g.nmemb ≠ 0) (hp : g.baseNull = true ∨ g.cmpNull = true) : Rejected (qsortChk fx c g s) s ESNULLP := by
  unfold Rejected qsortChk
  simp [hn, hp]

theorem qsortChk_lemax (fx : Fixes) (c : Cmp α) (g : Args) (s : St α)
    (hp : g.nmemb = 0 ∨ (g.baseNull = false ∧ g.cmpNull = false)) (hb : g.bos = none)
    (hl : g.nmemb > RSIZE_MAX_MEM ∨ g.size > RSIZE_MAX_MEM) : Rejected (qsortChk fx c g s) s ESLEMAX := by
  unfold Rejected qsortChk
  have h1 : ¬(g.nmemb ≠ 0 ∧ (g.baseNull = true ∨ g.cmpNull = true)) := by
    rcases hp with h | ⟨h, h'⟩
    · simp [h]
    · simp [h, h']
  simp only [h1, if_false, hb]
  simp [hl]

/-- repaired code: a product that does not fit the known object size is always rejected -/
theorem qsortChk_nospc (c : Cmp α) (g : Args) (s : St α) (fx : Fixes) (hfx : fx.ovf = true)
    (hp : g.nmemb = 0 ∨ (g.baseNull = false ∧ g.cmpNull = false)) (b : Nat) (hb : g.bos = some b)
    (hl : g.nmemb * g.size > b) : Rejected (qsortChk fx c g s) s ESNOSPC := by
  unfold Rejected qsortChk
  have h1 : ¬(g.nmemb ≠ 0 ∧ (g.baseNull = true ∨ g.cmpNull = true)) := by
    rcases hp with h | ⟨h, h'⟩
    · simp [h]
    · simp [h, h']
  have hs : g.size ≠ 0 := by intro h0; simp [h0] at hl
  have hd : g.nmemb > b / g.size := by
    have hpos : 0 < g.size := Nat.pos_of_ne_zero hs
    exact (Nat.div_lt_iff_lt_mul hpos).mpr hl
  simp only [h1, if_false, hb, hfx, if_true]
  simp [hs, hd]

/-- (3, FULL for the branch with a known object size) all three repairs, object size `b` known and at most `2^63` bytes (every
    object is: `PTRDIFF_MAX`), array of exactly `nmemb` elements: EVERY call — any `nmemb`, comparator, NULL arguments or not,
    `nmemb*size` fitting the object or not — returns (a rejection or the sorted run) and keeps the element count.  The
    product hypothesis of `qsort_safe` is implied by the function's own (repaired) check. -/
theorem qsort_safe_bos_known (fx : Fixes) (hfx : fx.ctz64 = true) (hgap : fx.pntzGap = true) (hovf : fx.ovf = true) (c : Cmp α)
    (g : Args) (s : St α) (b : Nat) (hb : g.bos = some b) (hb63 : b ≤ 2 ^ 63) (hn : g.nmemb = s.a.size)
    (h3 : 3 * g.size < 2 ^ 64) : ∃ o, qsortChk fx c g s = .ok o ∧ o.st.a.size = s.a.size := by
  by_cases hnull : g.nmemb ≠ 0 ∧ (g.baseNull = true ∨ g.cmpNull = true)
  · exact ⟨_, qsortChk_null fx c g s hnull.1 hnull.2, rfl⟩
  · by_cases hprod : g.nmemb * g.size > b
    · refine ⟨_, qsortChk_nospc c g s fx hovf ?_ b hb hprod, rfl⟩
      by_cases h0 : g.nmemb = 0
      · exact Or.inl h0
      · refine Or.inr ⟨?_, ?_⟩
        · cases hbn : g.baseNull with
          | false => rfl
          | true => exact absurd ⟨h0, Or.inl hbn⟩ hnull
        · cases hcn : g.cmpNull with
          | false => rfl
          | true => exact absurd ⟨h0, Or.inr hcn⟩ hnull
    · exact qsort_safe fx hfx hgap c g s hn (by omega) h3

example : (⟨false, false, false, 6, 4, some 24⟩ : Args).bos = some 24 ∧ 24 ≤ 2 ^ 63 ∧ allFixed.ovf = true := by decide

/- FULL statement, false of the tree as it stands:
   theorem qsortChk_nospc_full (fx) … (hl : g.nmemb * g.size > b) : Rejected (qsortChk fx c g s) s ESNOSPC -/

/-- code as it stands: rejected when the product fits `size_t` -/
theorem qsortChk_nospc_partial (c : Cmp α) (g : Args) (s : St α) (fx : Fixes) (hfx : fx.ovf = false)
    (hp : g.nmemb = 0 ∨ (g.baseNull = false ∧ g.cmpNull = false)) (b : Nat) (hb : g.bos = some b)
    (hl : g.nmemb * g.size > b) (hfit : g.nmemb * g.size < 2 ^ 64) : Rejected (qsortChk fx c g s) s ESNOSPC := by
  unfold Rejected qsortChk
  have h1 : ¬(g.nmemb ≠ 0 ∧ (g.baseNull = true ∨ g.cmpNull = true)) := by
    rcases hp with h | ⟨h, h'⟩
    · simp [h]
    · simp [h, h']
  simp only [h1, if_false, hb, hfx]
  simp [Nat.mod_eq_of_lt hfit, hl]

example : (4 : Nat) * 7 > 24 ∧ (4 : Nat) * 7 < 2 ^ 64 := by decide

/-- witness (code as it stands): nmemb = 2^62+6, size 4, object of 24 bytes: the product wraps to 24, the call is
    NOT rejected and sorts 6 elements although nmemb*size exceeds the object by 2^64 bytes -/
theorem qsortChk_overflow_witness :
    (match qsortChk unrepaired natCmp ⟨false, false, false, 2 ^ 62 + 6, 4, some 24⟩ ⟨#[5, 3, 9, 1, 2, 8], [], 0⟩ with
     | .ok o => o.ret == EOK && o.events.isEmpty && o.st.a.toList == [1, 2, 3, 5, 8, 9]
     | .error _ => false) = true ∧ (2 ^ 62 + 6) * 4 > 24 := by
  constructor
  · decide +kernel
  · decide

/-! ## bsearch_s -/

/-- the entry checks of `_bsearch_s_chk` let the call through -/
def BsPasses (fx : Fixes) (g : Args) : Prop :=
  ¬(g.nmemb ≠ 0 ∧ (g.keyNull = true ∨ g.baseNull = true ∨ g.cmpNull = true)) ∧
  match g.bos with
  | none => ¬(g.nmemb > RSIZE_MAX_MEM ∨ g.size > RSIZE_MAX_MEM)
  | some b => if fx.ovf then ¬(g.size ≠ 0 ∧ g.nmemb > b / g.size) else ¬((g.nmemb * g.size) % 2 ^ 64 > b)

theorem bsearchChk_passes (fx : Fixes) (c : BCmp α) (g : Args) (s : St α) (h : BsPasses fx g) :
    bsearchChk fx c g s = (do
      let (r, s) ← bsearchLoop c g.nmemb s 0 g.nmemb
      pure ⟨r, some 0, [], s⟩) := by
  unfold bsearchChk
  obtain ⟨h1, h2⟩ := h
  simp only [h1, if_false]
  cases hb : g.bos with
  | none => simp only [hb] at h2; simp [h2]
  | some b =>
    simp only [hb] at h2
    by_cases hf : fx.ovf
    · simp only [hf, if_true] at h2 ⊢; simp [h2]
    · have h3 : ¬ ((g.nmemb * g.size) % 2 ^ 64 > b) := by simpa [hf] using h2
      simp only [hf]
      simp [h3]

/-- (4) `bsearch_s` on an array whose `nmemb` elements are partitioned w.r.t. the key (`f x = compar(key, x)`:
    elements comparing less, then equal, then greater — the standard's precondition), consistent comparator:
    the call returns; a returned position holds an element comparing equal; NULL is returned only if NO element
    compares equal; every probe is at a position `< nmemb` with the caller's ctx; the array is untouched;
    errno 0, no handler; at most `steps nmemb` = ⌈log2 nmemb⌉ + 1 probes (see `bsearch_probe_bound`) -/
theorem bsearch_C16 (fx : Fixes) (f : α → Int) (ctx : Nat) (g : Args) (s : St α)
    (hv : BsPasses fx g) (hn : g.nmemb = s.a.size) (hp : Partitioned f s.a g.nmemb) :
    ∃ o, bsearchChk fx (BCmp.pureOf f ctx) g s = .ok o ∧ o.st.a = s.a ∧ o.errno = some 0 ∧ o.events = [] ∧
      (∀ j, o.ret = some j → ∃ h : j < s.a.size, f s.a[j] = 0) ∧
      (o.ret = none → ∀ j (h : j < s.a.size), f s.a[j] ≠ 0) ∧
      (∃ l, o.st.log = l ++ s.log ∧ l.length = o.st.ncmp - s.ncmp ∧ ∀ ev ∈ l, ev.i < g.nmemb ∧ ev.j = ev.i ∧ ev.ctx = ctx) ∧
      o.st.ncmp - s.ncmp ≤ steps g.nmemb g.nmemb := by
  obtain ⟨r, hr, hpost, hnone⟩ := bsearchLoop_spec f ctx g.nmemb g.nmemb s 0 g.nmemb (Nat.le_refl _) (by omega) (by omega) hp
    (by intro j h hj; omega) (by intro j h h1 h2; omega)
  refine ⟨⟨r.1, some 0, [], r.2⟩, ?_, hpost.arr, rfl, rfl, ?_, ?_, ?_, hpost.cnt _ (Nat.le_refl _)⟩
  · rw [bsearchChk_passes fx _ g s hv, hr]; rfl
  · intro j hj; obtain ⟨h, _, h3⟩ := hpost.found j hj; exact ⟨h, h3⟩
  · intro hn' j h; exact hnone hn' j h (by omega)
  · obtain ⟨l, e1, e2, e3⟩ := hpost.log
    exact ⟨l, e1, e3, fun ev hev => by have := e2 ev hev; omega⟩

/-- non-vacuity of `Partitioned`, and a hit -/
example : Partitioned (fun x : Nat => if 5 < x then -1 else if 5 > x then (1 : Int) else 0) #[1, 2, 3, 5, 8, 9] 6 := by
  have key : ∀ i j : Fin 6, i ≤ j →
      (((if 5 < #[1, 2, 3, 5, 8, 9][i] then -1 else if 5 > #[1, 2, 3, 5, 8, 9][i] then (1 : Int) else 0) < 0 →
        (if 5 < #[1, 2, 3, 5, 8, 9][j] then -1 else if 5 > #[1, 2, 3, 5, 8, 9][j] then (1 : Int) else 0) < 0) ∧
       ((if 5 < #[1, 2, 3, 5, 8, 9][j] then -1 else if 5 > #[1, 2, 3, 5, 8, 9][j] then (1 : Int) else 0) > 0 →
        (if 5 < #[1, 2, 3, 5, 8, 9][i] then -1 else if 5 > #[1, 2, 3, 5, 8, 9][i] then (1 : Int) else 0) > 0)) := by decide
  constructor
  · intro i j hi hj hij _ h; exact (key ⟨i, hi⟩ ⟨j, hj⟩ hij).1 h
  · intro i j hi hj hij _ h; exact (key ⟨i, hi⟩ ⟨j, hj⟩ hij).2 h

/-- (4, every comparator) bounds and termination do not depend on the comparator: any answers whatsoever,
    the loop returns, leaves the array alone, probes only positions `< nmemb`, at most `steps nmemb` times -/
theorem bsearch_any_comparator (fx : Fixes) (c : BCmp α) (g : Args) (s : St α)
    (hv : BsPasses fx g) (hn : g.nmemb ≤ s.a.size) :
    ∃ o, bsearchChk fx c g s = .ok o ∧ o.st.a = s.a ∧ (∀ j, o.ret = some j → j < g.nmemb) ∧
      o.st.ncmp - s.ncmp ≤ steps g.nmemb g.nmemb ∧
      ∃ l, o.st.log = l ++ s.log ∧ ∀ ev ∈ l, ev.i < g.nmemb ∧ ev.ctx = c.ctx := by
  obtain ⟨r, hr, ha, _, hc, hf, l, el, pl⟩ := bsearchLoop_any c g.nmemb s 0 g.nmemb (Nat.le_refl _) (by omega)
  refine ⟨⟨r.1, some 0, [], r.2⟩, ?_, ha, fun j hj => by have := hf j hj; omega, hc, l, el, fun ev hev => by have := pl ev hev; omega⟩
  rw [bsearchChk_passes fx _ g s hv, hr]; rfl

/-- the probe bound in closed form: for `nmemb ≥ 2`, `2^(probes-1) ≤ 2(nmemb-1)`, i.e. probes ≤ ⌈log2 nmemb⌉ + 1 -/
theorem bsearch_probe_bound (n : Nat) (h : 2 ≤ n) : 2 ^ (steps n n - 1) ≤ 2 * (n - 1) := steps_bound n n h

/- FULL statement asked for ("number of comparisons ≤ log2(nmemb)+1" with the integer logarithm), false of the code:
   theorem bsearch_probe_floor (…) : o.st.ncmp - s.ncmp ≤ Nat.log2 g.nmemb + 1 -/

/-- witness: 3 elements, key larger than all: 3 probes (positions 1, 2, 2), while ⌊log2 3⌋ + 1 = 2.
    The right branch keeps the probed element (`base = ptry; nmemb -= nmemb/2`), which is probed again. -/
theorem bsearch_probe_floor_witness :
    (match bsearchChk unrepaired (BCmp.pureOf (fun x : Nat => if 9 < x then -1 else if 9 > x then (1 : Int) else 0) 0) (okArgs 3 4) ⟨#[1, 2, 3], [], 0⟩ with
     | .ok o => o.st.ncmp == 3 && o.st.log.map (·.i) == [2, 2, 1] && o.ret == none
     | .error _ => false) = true ∧ Nat.log2 3 + 1 = 2 := by
  constructor <;> decide +kernel

/-- code as it stands, object size known: the wrapped product passes the check and the first probe is at
    position nmemb/2 = 2^61, outside the 4 elements that exist (the C computes `base + size*(nmemb/2)`) -/
theorem bsearchChk_overflow_witness :
    (match bsearchChk unrepaired (BCmp.pureOf (fun x : Nat => if 5 < x then -1 else if 5 > x then (1 : Int) else 0) 0)
      ⟨false, false, false, 2 ^ 62 + 1, 4, some 16⟩ ⟨#[1, 2, 3, 5], [], 0⟩ with
     | .error (.idx i) => i == 2 ^ 61
     | _ => false) = true ∧ (2 ^ 62 + 1) * 4 > 16 := by
  constructor
  · decide +kernel
  · decide

/-- repaired code: with a known object size that really holds the array (`bos ≤ size * a.size`), a call that passes the
    checks has `nmemb ≤ a.size`, so `bsearch_any_comparator` applies: no probe outside the array -/
theorem bsearchChk_safe_fixed (fx : Fixes) (hfx : fx.ovf = true) (g : Args) (b asize : Nat) (hb : g.bos = some b)
    (hs : 0 < g.size) (hobj : b ≤ g.size * asize) (hv : BsPasses fx g) : g.nmemb ≤ asize := by
  obtain ⟨_, h2⟩ := hv
  simp only [hb, hfx, if_true] at h2
  have h3 : ¬ g.nmemb > b / g.size := fun h => h2 ⟨Nat.pos_iff_ne_zero.mp hs, h⟩
  have h4 : b / g.size ≤ asize := by
    apply Nat.div_le_of_le_mul; exact hobj
  omega

end SafeC.Props.C16

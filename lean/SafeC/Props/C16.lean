import SafeC.Models.Copy
/-! Property theorems for C16 (see DESIGN.md §4). -/
namespace SafeC.Props.C16
end SafeC.Props.C16

import SafeC.Props.C10Ext8
/-!
# C10, second part (9): the boundary of `srcbos_irrelevant_*` — a source size SMALLER than `slen`

Valid operands, `dest` size unknown, `slen` within the limit, `sb < slen` (resp. `sb < slen * width`): the
call is rejected before any cell is read, on EVERY memory (no `AllRd` hypothesis).  The family is not uniform:

| function | code | handler |
|---|---|---|
| `strstr_s`, `strspn_s` | EOVERFLOW | str |
| `strcasestr_s` (`slen ≤ dmax`) | ESLEMAX (`strcasestr-code`) | str |
| `strcspn_s` | EOVERFLOW | **mem** |
| `strpbrk_s` | `handle_str_bos_overflow(dest, …)`: **writes** `dest` (`strpbrk-clears-dest`) | str |
| `memcmp_s`, `memcmp16_s`, `memcmp32_s` | EOVERFLOW, `*diff = -1` | mem |
| `wmemcmp_s` | ESLEMAX, `*diff = -1` | mem |
| `wcscmp_s`, `wcsncmp_s` | EOVERFLOW | str |

(`wcsstr_s`: EOVERFLOW/str, but only after `*src` was read and found non-empty with `dest ≠ src`: not stated.)
-/
namespace SafeC.Props.C10
open SafeC Gen

/-- the outcome "handler of kind `k` with code `e`, nothing else" -/
def rejected (k : Kind) (e : Nat) (st : St) : St := { st with events := st.events ++ [.handler k e] }

theorem srcbos_small_str (dest dmax src slen sb : Nat) (st : St)
    (hd : dest ≠ 0) (hs : src ≠ 0) (hpos : 0 < dmax) (hle : dmax ≤ RSIZE_MAX_STR)
    (hsl : slen ≤ RSIZE_MAX_STR) (hsb : sb < slen) :
    exec (strstr_s dest dmax src slen none (some sb)) st = .ok ((EOVERFLOW, 0), rejected .str EOVERFLOW st) ∧
    exec (strspn_s dest dmax src slen none (some sb)) st = .ok ((EOVERFLOW, 0), rejected .str EOVERFLOW st) ∧
    exec (strcspn_s dest dmax src slen none (some sb)) st = .ok ((EOVERFLOW, 0), rejected .mem EOVERFLOW st) ∧
    (slen ≤ dmax →
      exec (strcasestr_s dest dmax src slen none (some sb)) st = .ok ((ESLEMAX, 0), rejected .str ESLEMAX st)) := by
  have h1 : ¬ dmax = 0 := by omega
  have h2 : ¬ dmax > RSIZE_MAX_STR := by omega
  have h3 : ¬ slen > RSIZE_MAX_STR := by omega
  have h4 : slen > sb := hsb
  have h5 : ¬ (some src = some 0) := by simpa using hs
  have h6 : ¬ slen = 0 := by omega
  refine ⟨?_, ?_, ?_, fun hsd => ?_⟩
  · unfold strstr_s qChkS qChkSlenS qFailS
    simp [hd, h1, h2, h3, h4, h5, exec_bind, exec_pure, handlerS, rejected]
  · unfold strspn_s qChkS qChkSlenS qFailS
    simp [hd, h1, h2, h3, h4, h5, exec_bind, exec_pure, handlerS, rejected]
  · unfold strcspn_s qChkS
    simp [hd, h1, h2, h3, h4, h5, h6, exec_bind, exec_pure, handlerM, rejected]
  · have h7 : ¬ slen > dmax := by omega
    unfold strcasestr_s qChkS
    simp [hd, h1, h2, h4, h5, h7, exec_bind, exec_pure, handlerS, rejected]

/-- `strpbrk_s`: the whole call IS `handle_str_bos_overflow` on `dest` with an unbounded `dmax` — the query
function writes its haystack (known finding `strpbrk-clears-dest`, C03/C06) -/
theorem srcbos_small_strpbrk (cfg : Cfg) (dest dmax src slen sb : Nat) (st : St)
    (hd : dest ≠ 0) (hs : src ≠ 0) (hpos : 0 < dmax) (hle : dmax ≤ RSIZE_MAX_STR) (hsb : sb < slen) :
    exec (strpbrk_s cfg dest dmax src slen none (some sb)) st =
      exec (do let c ← handleStrBosOverflow cfg dest (2^64 - 1); pure (c, 0)) st := by
  have h1 : ¬ dmax = 0 := by omega
  have h2 : ¬ dmax > RSIZE_MAX_STR := by omega
  have h4 : slen > sb := hsb
  have h5 : ¬ (some src = some 0) := by simpa using hs
  unfold strpbrk_s qChkS
  simp [hd, h1, h2, h4, h5, exec_bind, exec_pure]

theorem srcbos_small_mem (dest dlen src slen sb : Nat) (st : St)
    (hd : dest ≠ 0) (hs : src ≠ 0) (hpos : 0 < dlen) (hs0 : 0 < slen) :
    (dlen ≤ RSIZE_MAX_MEM → slen ≤ RSIZE_MAX_MEM → sb < slen →
      exec (memcmp_s dest dlen src slen none (some sb)) st = .ok ((EOVERFLOW, -1), rejected .mem EOVERFLOW st)) ∧
    (dlen * 2 ≤ RSIZE_MAX_MEM16 → slen ≤ RSIZE_MAX_MEM16 → sb < slen * 2 →
      exec (memcmp16_s dest dlen src slen none (some sb)) st = .ok ((EOVERFLOW, -1), rejected .mem EOVERFLOW st)) ∧
    (dlen ≤ RSIZE_MAX_MEM32 → slen ≤ RSIZE_MAX_MEM32 → sb < slen * 4 →
      exec (memcmp32_s dest dlen src slen none (some sb)) st = .ok ((EOVERFLOW, -1), rejected .mem EOVERFLOW st)) := by
  have h1 : ¬ dlen = 0 := by omega
  have h6 : ¬ slen = 0 := by omega
  refine ⟨fun hl hsl hsb => ?_, fun hl hsl hsb => ?_, fun hl hsl hsb => ?_⟩
  · have h2 : ¬ dlen > RSIZE_MAX_MEM := by omega
    have h3 : ¬ slen > RSIZE_MAX_MEM := by omega
    have h4 : slen > sb := hsb
    unfold memcmp_s memcmpG memcmpChecks qFailM
    simp [hd, hs, h1, h2, h3, h4, h6, exec_bind, exec_pure, handlerM, rejected]
  · have hm : RSIZE_MAX_MEM16 * 2 < 2^64 := by decide
    have e1 : dlen * 2 % 2^64 = dlen * 2 := Nat.mod_eq_of_lt (by omega)
    have e2 : slen * 2 % 2^64 = slen * 2 := Nat.mod_eq_of_lt (by omega)
    have h2 : ¬ dlen * 2 > RSIZE_MAX_MEM16 := by omega
    have h3 : ¬ slen > RSIZE_MAX_MEM16 := by omega
    have h4 : slen * 2 > sb := hsb
    unfold memcmp16_s memcmpG memcmpChecks qFailM
    simp [hd, hs, h1, e1, e2, h2, h3, h4, h6, exec_bind, exec_pure, handlerM, rejected]
  · have hm : RSIZE_MAX_MEM32 * 4 < 2^32 := by decide
    have e2 : slen * 4 % 2^32 = slen * 4 := Nat.mod_eq_of_lt (by omega)
    have h2 : ¬ dlen > RSIZE_MAX_MEM32 := by omega
    have h3 : ¬ slen > RSIZE_MAX_MEM32 := by omega
    have h4 : slen * 4 > sb := hsb
    unfold memcmp32_s memcmpG memcmpChecks qFailM
    simp [hd, hs, h1, e2, h2, h3, h4, h6, exec_bind, exec_pure, handlerM, rejected]

example : ∃ dlen slen sb : Nat, 0 < dlen ∧ 0 < slen ∧ dlen ≤ RSIZE_MAX_MEM32 ∧ slen ≤ RSIZE_MAX_MEM32 ∧ sb < slen * 4 :=
  ⟨4, 3, 11, by decide, by decide, by decide, by decide, by decide⟩

/-- the wide compares: `wmemcmp_s` answers ESLEMAX (mem handler, `*diff = -1`) although `slen` is within the
limit; `wcscmp_s` / `wcsncmp_s` EOVERFLOW (str handler, `*resultp = 0`) -/
theorem srcbos_small_wide (dest dmax src smax count sb : Nat) (st : St)
    (hd : dest ≠ 0) (hs : src ≠ 0) (hpos : 0 < dmax) (hs0 : 0 < smax) (hsl : smax ≤ RSIZE_MAX_WSTR)
    (hsb : sb < smax * 4) :
    (dmax ≤ RSIZE_MAX_STR →
      exec (wcscmp_s dest dmax src smax none (some sb)) st = .ok ((EOVERFLOW, 0), rejected .str EOVERFLOW st) ∧
      exec (wcsncmp_s dest dmax src smax count none (some sb)) st = .ok ((EOVERFLOW, 0), rejected .str EOVERFLOW st)) ∧
    (dmax * 4 ≤ RSIZE_MAX_MEM →
      exec (wmemcmp_s dest dmax src smax none (some sb)) st = .ok ((ESLEMAX, -1), rejected .mem ESLEMAX st)) := by
  have hw : SIZEOF_WCHAR_T = 4 := rfl
  have hm : RSIZE_MAX_WSTR * 4 < two64 := by decide
  have hm2 : RSIZE_MAX_MEM < two64 := by decide
  have e2 : smax * 4 % two64 = smax * 4 := Nat.mod_eq_of_lt (by omega)
  have h1 : ¬ dmax = 0 := by omega
  have h6 : ¬ smax = 0 := by omega
  have h3 : ¬ smax > RSIZE_MAX_WSTR := by omega
  have h4 : smax * 4 > sb := hsb
  refine ⟨fun hl => ?_, fun hl => ?_⟩
  · have h2 : ¬ dmax > RSIZE_MAX_STR := by omega
    have key : ∀ uc cnt, exec (wcscmpG uc dest dmax src smax cnt none (some sb)) st =
        .ok ((EOVERFLOW, 0), rejected .str EOVERFLOW st) := by
      intro uc cnt
      unfold wcscmpG
      simp [hd, hs, h1, h2, h3, h4, h6, hw, e2, exec_bind, exec_pure, handlerS, rejected]
    exact ⟨by unfold wcscmp_s; exact key _ _, by unfold wcsncmp_s; exact key _ _⟩
  · have e1 : dmax * 4 % two64 = dmax * 4 := Nat.mod_eq_of_lt (by omega)
    have h2 : ¬ dmax * 4 > RSIZE_MAX_MEM := by omega
    have h7 : ¬ dmax * 4 = 0 := by omega
    unfold wmemcmp_s
    simp [hd, hs, h2, h4, h6, h7, hw, e1, e2, exec_bind, exec_pure, handlerM, rejected]

example : ∃ dmax smax sb : Nat, 0 < dmax ∧ 0 < smax ∧ smax ≤ RSIZE_MAX_WSTR ∧ sb < smax * 4 ∧ dmax ≤ RSIZE_MAX_STR :=
  ⟨4, 3, 11, by decide, by decide, by decide, by decide, by decide⟩

end SafeC.Props.C10

import SafeC.Models.Copy
/-! Property theorems for C12 (see DESIGN.md §4). -/
namespace SafeC.Props.C12
end SafeC.Props.C12

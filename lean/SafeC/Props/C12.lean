import SafeC.Proofs.Interleave
import SafeC.Proofs.CopyDisjoint
/-!
# C12 — reentrancy: no hidden shared state, calls on thread-private data commute

The library functions are modelled as `Prog`s: a `Prog` has no state of its own, everything it
reads or writes is a cell of the one shared memory `St.data`.  Two calls are run as two threads whose
atomic steps (one load, one store, one handler event) are interleaved by an ARBITRARY schedule
(`runSched`, a `List Bool`).  The schedule-independent argument is

* `reentrant` (= `interleave_disjoint`): if the cells touched by the two calls are disjoint, every
  schedule that lets both finish gives each call the return value and the memory contents it has
  when it runs alone;
* the footprint hypothesis is not assumed for the library functions, it is DERIVED from the
  guarded semantics: the C02 theorems (`strcpyG_disjoint`, …) show that a call with valid operands
  neither faults nor records a stray access when ONLY its operands are mapped/readable/writable;
  `within_of_clean` turns that into "`Within operands`" (`strcpy_s_alone`, `strcpy_s_reentrant`).

`shared_scratch_witness` / `private_scratch_ok` show that the theorem is not vacuous in the other
direction: the scheme the old `qsort_s` used (elements rotated through ONE static scratch object
shared by all threads) violates the conclusion under a concrete schedule, the same code with a
scratch cell per thread satisfies it under every schedule.
-/
namespace SafeC.Props.C12
open SafeC Gen

/-! ## 1. the schedule-independent argument -/

/-- **C12, generic form.**  Any two calls `pa`, `pb` whose footprints `FA`, `FB` (every cell the
run reads or writes, `Within`) are disjoint, under ANY interleaving `sch` of their atomic steps that
lets both finish: the return values are those of the calls run alone, every cell of `FA` (`FB`)
ends up as `pa` (`pb`) alone leaves it, every other cell is untouched. -/
theorem reentrant {α β : Type} {FA FB : Nat → Prop} (hdisj : ∀ a, FA a → FB a → False)
    (sch : List Bool) (pa : Prog α) (pb : Prog β) (s : St)
    (ha : Within FA pa s) (hb : Within FB pb s)
    (hfin : done (runSched sch pa pb s).1 = true ∧ done (runSched sch pa pb s).2.1 = true) :
    ∃ ra rb, (runSched sch pa pb s).1 = .ret ra ∧ (runSched sch pa pb s).2.1 = .ret rb ∧
      ra = (runT pa s).1 ∧ rb = (runT pb s).1 ∧
      (∀ a, FA a → (runSched sch pa pb s).2.2.data a = (runT pa s).2.data a) ∧
      (∀ a, FB a → (runSched sch pa pb s).2.2.data a = (runT pb s).2.data a) ∧
      (∀ a, ¬ FA a → ¬ FB a → (runSched sch pa pb s).2.2.data a = s.data a) :=
  interleave_disjoint hdisj sch pa pb s ha hb hfin

/-! ## 2. `strcpy_s` on thread-private data -/

/-- the cells one `strcpy_s(dest, dmax, src)` call is entitled to: dest's `dmax` cells and the
source string of length `n` including its terminator -/
def Cells (dest dmax src n : Nat) (a : Nat) : Prop :=
  (dest ≤ a ∧ a < dest + dmax) ∨ (src ≤ a ∧ a ≤ src + n)

instance (dest dmax src n : Nat) : DecidablePred (Cells dest dmax src n) := fun a => by
  unfold Cells; exact inferInstance

/-- a NUL-terminated string of length `n` at `s` — the `data` half of `SrcStr`; nothing is said
about permissions, which the shared initial state of two threads cannot have "per thread" -/
structure IsStr (st : St) (s n : Nat) : Prop where
  nz : ∀ j, j < n → st.data (s+j) ≠ 0
  nul : st.data (s+n) = 0

/-- `st` as ONE thread is entitled to see it: mapped = readable = writable = exactly `D`.
`exec` depends on these three fields only through fault/stray recording; `runT`, `Within`, `step`
do not look at them (`runT_data_congr`, `within_data_congr`). -/
def priv (st : St) (D : Nat → Bool) : St := { st with mapped := D, rd := D, wr := D }

@[simp] theorem priv_data (st : St) (D : Nat → Bool) : (priv st D).data = st.data := rfl

/-- return code and dest contents of a `strcpy_s` call with valid, non-overlapping operands, as a
predicate on a code and a memory `data'` (it mentions `data'` at dest cells only) -/
def Post (cfg : Cfg) (dest dmax src n : Nat) (st : St) (code : Nat) (data' : Nat → Nat) : Prop :=
  (n < dmax → code = EOK ∧ (∀ i, i < n → data' (dest+i) = st.data (src+i)) ∧ data' (dest+n) = 0 ∧
    (cfg.slack = true → ∀ i, n ≤ i → i < dmax → data' (dest+i) = 0)) ∧
  (dmax ≤ n → code = ESNOSPC ∧ data' dest = 0 ∧
    (cfg.slack = true → ∀ i, i < dmax → data' (dest+i) = 0))

theorem Post.congr {cfg : Cfg} {dest dmax src n : Nat} {st : St} {code : Nat} {d1 d2 : Nat → Nat}
    (h : Post cfg dest dmax src n st code d1) (hpos : 0 < dmax)
    (he : ∀ a, dest ≤ a → a < dest + dmax → d2 a = d1 a) :
    Post cfg dest dmax src n st code d2 := by
  obtain ⟨h1, h2⟩ := h
  refine ⟨?_, ?_⟩
  · intro hn
    obtain ⟨c1, c2, c3, c4⟩ := h1 hn
    refine ⟨c1, ?_, ?_, ?_⟩
    · intro i hi; rw [he _ (by omega) (by omega)]; exact c2 i hi
    · rw [he _ (by omega) (by omega)]; exact c3
    · intro hs i hi1 hi2; rw [he _ (by omega) (by omega)]; exact c4 hs i hi1 hi2
  · intro hn
    obtain ⟨c1, c2, c3⟩ := h2 hn
    refine ⟨c1, ?_, ?_⟩
    · rw [he _ (by omega) (by omega)]; exact c2
    · intro hs i hi; rw [he _ (by omega) (by omega)]; exact c3 hs i hi

/-- **one call, alone.**  With valid non-overlapping operands the total run of `strcpy_s` from `st`
touches only its own cells, and returns / leaves in dest what `strcpyG_disjoint` says.
Derivation: run the guarded semantics from `priv st Cells` (nothing but the operands is even
mapped); `strcpyG_disjoint` gives "no fault, no stray"; `within_of_clean` turns that into the
footprint; `exec_eq_runT` identifies guarded and total run; the permission fields are then
forgotten (`within_data_congr`, `runT_data_congr`). -/
theorem strcpy_s_alone (cfg : Cfg) (dest dmax src n : Nat) (st : St)
    (hd : dest ≠ 0) (hs : src ≠ 0) (hpos : 0 < dmax) (hle : dmax ≤ RSIZE_MAX_STR)
    (hstr : IsStr st src n) (hdisj : Disjoint dest dmax src n) :
    Within (Cells dest dmax src n) (strcpy_s cfg dest dmax src none) st ∧
    Post cfg dest dmax src n st (runT (strcpy_s cfg dest dmax src none) st).1
      (runT (strcpy_s cfg dest dmax src none) st).2.data := by
  let D : Nat → Bool := fun a => decide (Cells dest dmax src n a)
  have hD : ∀ a, D a = true ↔ Cells dest dmax src n a := fun a => by simp [D]
  have hrw : RW (priv st D) dest dmax := by
    intro i hi
    have : D (dest + i) = true := (hD _).2 (Or.inl ⟨by omega, by omega⟩)
    exact ⟨this, this, this⟩
  have hsrc : SrcStr (priv st D) src n := by
    refine ⟨hstr.nz, hstr.nul, ?_⟩
    intro j hj
    have : D (src + j) = true := (hD _).2 (Or.inr ⟨by omega, by omega⟩)
    exact ⟨this, this⟩
  obtain ⟨code, st', he, _, _, _, hstray, _, pok, pfail⟩ :=
    strcpyG_disjoint RSIZE_MAX_STR cfg dest dmax src n (priv st D) hd hs hpos hle hrw hsrc hdisj
  have he' : exec (strcpy_s cfg dest dmax src none) (priv st D) = .ok (code, st') := he
  have hw := within_of_clean _ _ he' hstray
  obtain ⟨e1, e2⟩ := exec_eq_runT _ _ he' hstray
  obtain ⟨g1, g2⟩ := runT_data_congr (strcpy_s cfg dest dmax src none) (priv st D) st rfl
  refine ⟨?_, ?_⟩
  · apply within_data_congr _ (priv st D) st rfl
    refine within_mono ?_ _ _ hw
    intro a h
    have : D a = true := by rcases h with h | h <;> exact h
    exact (hD a).1 this
  · rw [← g1, ← g2, e1, e2]
    refine ⟨?_, ?_⟩
    · intro hn
      obtain ⟨c1, _, c3, c4, c5⟩ := pok hn
      exact ⟨c1, c3, c4, c5⟩
    · intro hn
      obtain ⟨c1, _, c3, c4⟩ := pfail hn
      exact ⟨c1, c3, c4⟩

/-- **C12 for `strcpy_s`.**  Two calls `strcpy_s(d1, m1, s1)` ∥ `strcpy_s(d2, m2, s2)` (object sizes
unknown to the library) started in ONE shared memory `st`.  Each call has valid, non-overlapping
operands exactly as in `strcpyG_disjoint`/C02 (`d ≠ 0`, `s ≠ 0`, `0 < m ≤ RSIZE_MAX_STR`, a string of
length `n` at `s`, `Disjoint d m s n`), and the data is thread-private: the operand cells
`Cells d1 m1 s1 n1` and `Cells d2 m2 s2 n2` have no cell in common (`hpriv`).  Then for EVERY
schedule `sch` that lets both calls finish:

* both threads have returned, with the codes `c1`, `c2` the calls return when run alone from `st`;
* every operand cell of call 1 — in particular all of `dest_1` — holds exactly what call 1 leaves
  there when run alone, likewise for call 2;
* every other cell of the memory is untouched.

Formulation.  "Run alone" is the total run `runT … st` from the SAME shared initial state: a shared
state cannot carry "thread 1 may only touch `Cells 1`" and "thread 2 may only touch `Cells 2`" in its
single set of permission fields, so no hypothesis at all is made about `st.mapped/rd/wr` (hence
`IsStr`, the `data` half of `SrcStr`).  The permission-based theorem enters in the proof
(`strcpy_s_alone`): the guarded run of each call from `priv st Cells_i` — only its own operands
mapped — neither faults nor strays, which yields `Within Cells_i` for the total run and identifies
the two runs.  `strcpy_s_reentrant_post` below spells "what each call leaves" out as the concrete
code and dest contents. -/
theorem strcpy_s_reentrant (cfg : Cfg) (d1 m1 s1 n1 d2 m2 s2 n2 : Nat) (st : St)
    (hd1 : d1 ≠ 0) (hs1 : s1 ≠ 0) (hpos1 : 0 < m1) (hle1 : m1 ≤ RSIZE_MAX_STR)
    (hstr1 : IsStr st s1 n1) (hdisj1 : Disjoint d1 m1 s1 n1)
    (hd2 : d2 ≠ 0) (hs2 : s2 ≠ 0) (hpos2 : 0 < m2) (hle2 : m2 ≤ RSIZE_MAX_STR)
    (hstr2 : IsStr st s2 n2) (hdisj2 : Disjoint d2 m2 s2 n2)
    (hpriv : ∀ a, Cells d1 m1 s1 n1 a → Cells d2 m2 s2 n2 a → False)
    (sch : List Bool)
    (hfin :
      done (runSched sch (strcpy_s cfg d1 m1 s1 none) (strcpy_s cfg d2 m2 s2 none) st).1 = true ∧
      done (runSched sch (strcpy_s cfg d1 m1 s1 none) (strcpy_s cfg d2 m2 s2 none) st).2.1 = true) :
    ∃ c1 c2,
      (runSched sch (strcpy_s cfg d1 m1 s1 none) (strcpy_s cfg d2 m2 s2 none) st).1 = .ret c1 ∧
      (runSched sch (strcpy_s cfg d1 m1 s1 none) (strcpy_s cfg d2 m2 s2 none) st).2.1 = .ret c2 ∧
      c1 = (runT (strcpy_s cfg d1 m1 s1 none) st).1 ∧
      c2 = (runT (strcpy_s cfg d2 m2 s2 none) st).1 ∧
      (∀ a, Cells d1 m1 s1 n1 a →
        (runSched sch (strcpy_s cfg d1 m1 s1 none) (strcpy_s cfg d2 m2 s2 none) st).2.2.data a =
          (runT (strcpy_s cfg d1 m1 s1 none) st).2.data a) ∧
      (∀ a, Cells d2 m2 s2 n2 a →
        (runSched sch (strcpy_s cfg d1 m1 s1 none) (strcpy_s cfg d2 m2 s2 none) st).2.2.data a =
          (runT (strcpy_s cfg d2 m2 s2 none) st).2.data a) ∧
      (∀ a, ¬ Cells d1 m1 s1 n1 a → ¬ Cells d2 m2 s2 n2 a →
        (runSched sch (strcpy_s cfg d1 m1 s1 none) (strcpy_s cfg d2 m2 s2 none) st).2.2.data a =
          st.data a) :=
  interleave_disjoint hpriv sch _ _ st
    (strcpy_s_alone cfg d1 m1 s1 n1 st hd1 hs1 hpos1 hle1 hstr1 hdisj1).1
    (strcpy_s_alone cfg d2 m2 s2 n2 st hd2 hs2 hpos2 hle2 hstr2 hdisj2).1 hfin

/-- the same, with "what each call leaves when run alone" spelled out: under every finishing
schedule each call returns `EOK` and `dest_i` holds the copy of its own source string (NUL
terminated, zero-filled with null-slack) if it fits, and `ESNOSPC` with a cleared dest otherwise —
whatever the other thread did in between -/
theorem strcpy_s_reentrant_post (cfg : Cfg) (d1 m1 s1 n1 d2 m2 s2 n2 : Nat) (st : St)
    (hd1 : d1 ≠ 0) (hs1 : s1 ≠ 0) (hpos1 : 0 < m1) (hle1 : m1 ≤ RSIZE_MAX_STR)
    (hstr1 : IsStr st s1 n1) (hdisj1 : Disjoint d1 m1 s1 n1)
    (hd2 : d2 ≠ 0) (hs2 : s2 ≠ 0) (hpos2 : 0 < m2) (hle2 : m2 ≤ RSIZE_MAX_STR)
    (hstr2 : IsStr st s2 n2) (hdisj2 : Disjoint d2 m2 s2 n2)
    (hpriv : ∀ a, Cells d1 m1 s1 n1 a → Cells d2 m2 s2 n2 a → False)
    (sch : List Bool)
    (hfin :
      done (runSched sch (strcpy_s cfg d1 m1 s1 none) (strcpy_s cfg d2 m2 s2 none) st).1 = true ∧
      done (runSched sch (strcpy_s cfg d1 m1 s1 none) (strcpy_s cfg d2 m2 s2 none) st).2.1 = true) :
    ∃ c1 c2,
      (runSched sch (strcpy_s cfg d1 m1 s1 none) (strcpy_s cfg d2 m2 s2 none) st).1 = .ret c1 ∧
      (runSched sch (strcpy_s cfg d1 m1 s1 none) (strcpy_s cfg d2 m2 s2 none) st).2.1 = .ret c2 ∧
      Post cfg d1 m1 s1 n1 st c1
        (runSched sch (strcpy_s cfg d1 m1 s1 none) (strcpy_s cfg d2 m2 s2 none) st).2.2.data ∧
      Post cfg d2 m2 s2 n2 st c2
        (runSched sch (strcpy_s cfg d1 m1 s1 none) (strcpy_s cfg d2 m2 s2 none) st).2.2.data := by
  obtain ⟨c1, c2, e1, e2, e3, e4, e5, e6, _⟩ :=
    strcpy_s_reentrant cfg d1 m1 s1 n1 d2 m2 s2 n2 st hd1 hs1 hpos1 hle1 hstr1 hdisj1
      hd2 hs2 hpos2 hle2 hstr2 hdisj2 hpriv sch hfin
  refine ⟨c1, c2, e1, e2, ?_, ?_⟩
  · rw [e3]
    exact (strcpy_s_alone cfg d1 m1 s1 n1 st hd1 hs1 hpos1 hle1 hstr1 hdisj1).2.congr hpos1
      (fun a h1 h2 => e5 a (Or.inl ⟨h1, h2⟩))
  · rw [e4]
    exact (strcpy_s_alone cfg d2 m2 s2 n2 st hd2 hs2 hpos2 hle2 hstr2 hdisj2).2.congr hpos2
      (fun a h1 h2 => e6 a (Or.inl ⟨h1, h2⟩))

/-! ## 3. the defect class: one static scratch object shared by all threads -/

/-- exchange cells `a` and `b` through the scratch cell `tmp` (the old `qsort_s` rotated elements
through one `static` buffer: `tmp` was the same cell for every thread) -/
def swapVia (tmp a b : Nat) : Prog Unit := do
  let x ← load a
  store tmp x
  let y ← load b
  store a y
  let z ← load tmp
  store b z

/-- a concrete memory: cell `a` holds the value `a` -/
def mem0 : St :=
  { data := fun a => a, mapped := fun _ => true, rd := fun _ => true, wr := fun _ => true }

/-- A saves its element in the scratch cell; B overwrites the scratch cell; A restores from it -/
def badSched : List Bool :=
  [true, true, false, false, true, true, true, true, false, false, false, false]

/-- **shared scratch breaks reentrancy.**  Thread A swaps cells 10, 11, thread B swaps cells 20, 21
(disjoint data), both through the SAME scratch cell 0.  Alone, A leaves 11, 10 in cells 10, 11.
Under `badSched` both threads run to completion, but A's cell 11 receives B's element 20: the value
10 that A was moving is lost. -/
theorem shared_scratch_witness :
    ∃ sch : List Bool,
      done (runSched sch (swapVia 0 10 11) (swapVia 0 20 21) mem0).1 = true ∧
      done (runSched sch (swapVia 0 10 11) (swapVia 0 20 21) mem0).2.1 = true ∧
      (runT (swapVia 0 10 11) mem0).2.data 10 = 11 ∧
      (runT (swapVia 0 10 11) mem0).2.data 11 = 10 ∧
      (runSched sch (swapVia 0 10 11) (swapVia 0 20 21) mem0).2.2.data 10 = 11 ∧
      (runSched sch (swapVia 0 10 11) (swapVia 0 20 21) mem0).2.2.data 11 = 20 ∧
      (runSched sch (swapVia 0 10 11) (swapVia 0 20 21) mem0).2.2.data 11 ≠
        (runT (swapVia 0 10 11) mem0).2.data 11 :=
  ⟨badSched, by decide⟩

/-- footprint of `swapVia` -/
theorem swapVia_within (tmp a b : Nat) (s : St) :
    Within (fun x => x = tmp ∨ x = a ∨ x = b) (swapVia tmp a b) s := by
  simp [swapVia, load, store, bind, Prog.bind, Within]

/-- `swapVia` alone exchanges the two cells (scratch distinct from both) -/
theorem swapVia_runT (tmp a b : Nat) (s : St) (h1 : tmp ≠ a) (h2 : tmp ≠ b) :
    (runT (swapVia tmp a b) s).2.data a = s.data b ∧
    (runT (swapVia tmp a b) s).2.data b = s.data a := by
  have h2' : b ≠ tmp := fun h => h2 h.symm
  simp only [swapVia, load, store, bind, Prog.bind, runT, St.upd_data, h1, h2', if_true, if_false]
  constructor
  · split
    · next h => rw [h]
    · rfl
  · trivial

/-- **private scratch restores it.**  The same two swaps with a scratch cell per thread, from ANY
memory, under EVERY schedule that lets both finish: both swaps happen. -/
theorem private_scratch_ok (s : St) (sch : List Bool)
    (hfin : done (runSched sch (swapVia 1 10 11) (swapVia 2 20 21) s).1 = true ∧
            done (runSched sch (swapVia 1 10 11) (swapVia 2 20 21) s).2.1 = true) :
    (runSched sch (swapVia 1 10 11) (swapVia 2 20 21) s).2.2.data 10 = s.data 11 ∧
    (runSched sch (swapVia 1 10 11) (swapVia 2 20 21) s).2.2.data 11 = s.data 10 ∧
    (runSched sch (swapVia 1 10 11) (swapVia 2 20 21) s).2.2.data 20 = s.data 21 ∧
    (runSched sch (swapVia 1 10 11) (swapVia 2 20 21) s).2.2.data 21 = s.data 20 := by
  obtain ⟨_, _, _, _, _, _, e5, e6, _⟩ :=
    interleave_disjoint (FA := fun x => x = 1 ∨ x = 10 ∨ x = 11) (FB := fun x => x = 2 ∨ x = 20 ∨ x = 21)
      (by intro a h1 h2; omega) sch _ _ s (swapVia_within 1 10 11 s) (swapVia_within 2 20 21 s) hfin
  have hA := swapVia_runT 1 10 11 s (by decide) (by decide)
  have hB := swapVia_runT 2 20 21 s (by decide) (by decide)
  refine ⟨?_, ?_, ?_, ?_⟩
  · rw [e5 10 (by simp)]; exact hA.1
  · rw [e5 11 (by simp)]; exact hA.2
  · rw [e6 20 (by simp)]; exact hB.1
  · rw [e6 21 (by simp)]; exact hB.2

/-! ## 4. non-vacuity of the hypotheses of `strcpy_s_reentrant` -/

/-- thread 1 copies "ab" (cells 200..202) into an 8-cell dest at 100; thread 2 copies "xyz" + NUL
(cells 400..403) into a 2-cell dest at 300 (too small: ESNOSPC) -/
def mem1 : St :=
  { data := fun a => if a = 200 ∨ a = 201 ∨ a = 400 ∨ a = 401 ∨ a = 402 then 65 else 0,
    mapped := fun _ => false, rd := fun _ => false, wr := fun _ => false }

example (cfg : Cfg) (sch : List Bool)
    (hfin :
      done (runSched sch (strcpy_s cfg 100 8 200 none) (strcpy_s cfg 300 2 400 none) mem1).1 = true ∧
      done (runSched sch (strcpy_s cfg 100 8 200 none) (strcpy_s cfg 300 2 400 none) mem1).2.1 = true) :
    ∃ c1 c2,
      (runSched sch (strcpy_s cfg 100 8 200 none) (strcpy_s cfg 300 2 400 none) mem1).1 = .ret c1 ∧
      (runSched sch (strcpy_s cfg 100 8 200 none) (strcpy_s cfg 300 2 400 none) mem1).2.1 = .ret c2 ∧
      Post cfg 100 8 200 2 mem1 c1
        (runSched sch (strcpy_s cfg 100 8 200 none) (strcpy_s cfg 300 2 400 none) mem1).2.2.data ∧
      Post cfg 300 2 400 3 mem1 c2
        (runSched sch (strcpy_s cfg 100 8 200 none) (strcpy_s cfg 300 2 400 none) mem1).2.2.data :=
  strcpy_s_reentrant_post cfg 100 8 200 2 300 2 400 3 mem1
    (by decide) (by decide) (by decide) (by decide)
    ⟨by intro j hj; have : j = 0 ∨ j = 1 := by omega
        rcases this with rfl | rfl <;> simp [mem1], by simp [mem1]⟩
    (Or.inl (by decide))
    (by decide) (by decide) (by decide) (by decide)
    ⟨by intro j hj; have : j = 0 ∨ j = 1 ∨ j = 2 := by omega
        rcases this with rfl | rfl | rfl <;> simp [mem1], by simp [mem1]⟩
    (Or.inl (by decide))
    (by intro a h1 h2; unfold Cells at h1 h2; omega)
    sch hfin

end SafeC.Props.C12

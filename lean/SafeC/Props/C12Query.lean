import SafeC.Proofs.Footprint
import SafeC.Proofs.AccQueryEntry
/-!
# C12, sixth part — the string queries are read-only and read only their strings

GENERATED from the `_acc` theorems of `Proofs/AccQueryEntry.lean` (one `_fp` per `_acc`, same hypotheses with
the contents `d` instantiated by the memory at the call): for every set `R` that contains the cells the
hypotheses name — the strings up to their terminators, cut at the bounds the function applies — the total run
from `s` loads from `R` only and stores NOWHERE (`Within2 R (fun _ => False)`).  With
`C12N.reentrant_n`: a query never disturbs any concurrent call, and is disturbed only by a call that stores
into one of its strings.  `pairFn` = strfirstdiff_s / strfirstsame_s / strlastdiff_s / strlastsame_s,
`predFn` = the strisalpha… family, `wcscmpG` = wcscmp_s / wcsncmp_s.
-/
namespace SafeC.Props.C12Query
open SafeC Gen

theorem strcmp_s_fp (dest dmax src : Nat) (db sb : Bos) (s : St) {R : Nat → Prop}
    (hd : dest ≠ 0 → ∀ a, Str s.data dest (dmax+1) a → R a)
    (hs : src ≠ 0 → ∀ a, Str s.data src (dmax+1) a → R a) :
    Within2 R (fun _ => False) (strcmp_s dest dmax src db sb) s :=
  AccD.within2 (Q := fun _ => True) (strcmp_s_acc (d := s.data) dest dmax src db sb hd hs) s rfl

theorem strcasecmp_s_fp (dest dmax src : Nat) (db : Bos) (s : St) {R : Nat → Prop}
    (hd : dest ≠ 0 → ∀ a, Str s.data dest (dmax+1) a → R a)
    (hs : src ≠ 0 → ∀ a, Str s.data src (dmax+1) a → R a) :
    Within2 R (fun _ => False) (strcasecmp_s dest dmax src db) s :=
  AccD.within2 (Q := fun _ => True) (strcasecmp_s_acc (d := s.data) dest dmax src db hd hs) s rfl

theorem strcmpfld_s_fp (dest dmax src : Nat) (db : Bos) (s : St) {R : Nat → Prop}
    (h : dest ≠ 0 → src ≠ 0 → ∀ i, i ≤ dmax → (∀ j, j < i → s.data (dest+j) = s.data (src+j)) → R (dest+i) ∧ R (src+i)) :
    Within2 R (fun _ => False) (strcmpfld_s dest dmax src db) s :=
  AccD.within2 (Q := fun _ => True) (strcmpfld_s_acc (d := s.data) dest dmax src db h) s rfl

theorem strstr_s_fp (dest dmax src slen : Nat) (db sb : Bos) (s : St) {R : Nat → Prop}
    (hd : dest ≠ 0 → ∀ a, Str s.data dest (dmax+1) a → R a)
    (hs : src ≠ 0 → ∀ a, Str s.data src (slen+1) a → R a)
    (hlong : dest ≠ 0 → src ≠ 0 → slen > dmax →
      (∀ a, Str s.data dest scanFuel a → R a) ∧ (∀ a, Str s.data src scanFuel a → R a)) :
    Within2 R (fun _ => False) (strstr_s dest dmax src slen db sb) s :=
  AccD.within2 (Q := fun _ => True) (strstr_s_acc (d := s.data) dest dmax src slen db sb hd hs hlong) s rfl

theorem strcasestr_s_fp (dest dmax src slen : Nat) (db sb : Bos) (s : St) {R : Nat → Prop}
    (hd : dest ≠ 0 → ∀ a, Str s.data dest (dmax+1) a → R a)
    (hs : src ≠ 0 → ∀ a, Str s.data src (slen+1) a → R a) :
    Within2 R (fun _ => False) (strcasestr_s dest dmax src slen db sb) s :=
  AccD.within2 (Q := fun _ => True) (strcasestr_s_acc (d := s.data) dest dmax src slen db sb hd hs) s rfl

theorem strchr_s_fp (dest dmax : Nat) (ch : Int) (db : Bos) (s : St) {R : Nat → Prop}
    (hd : dest ≠ 0 → ∀ a, Str s.data dest scanFuel a → R a) :
    Within2 R (fun _ => False) (strchr_s dest dmax ch db) s :=
  AccD.within2 (Q := fun _ => True) (strchr_s_acc (d := s.data) dest dmax ch db hd) s rfl

theorem strpbrk_s_fp (cfg : Cfg) (dest dmax src slen : Nat) (db sb : Bos) (s : St) {R : Nat → Prop}
    (hsb : ∀ b, sb = some b → slen ≤ b)
    (hd : dest ≠ 0 → ∀ a, Str s.data dest (dmax+1) a → R a)
    (hs : src ≠ 0 → ∀ a, Str s.data src (slen+1) a → R a) :
    Within2 R (fun _ => False) (strpbrk_s cfg dest dmax src slen db sb) s :=
  AccD.within2 (Q := fun _ => True) (strpbrk_s_acc (d := s.data) cfg dest dmax src slen db sb hsb hd hs) s rfl

theorem strspn_s_fp (dest dmax src slen : Nat) (db sb : Bos) (s : St) {R : Nat → Prop}
    (hd : dest ≠ 0 → ∀ a, Str s.data dest (dmax+1) a → R a)
    (hs : src ≠ 0 → ∀ a, Str s.data src (slen+1) a → R a) :
    Within2 R (fun _ => False) (strspn_s dest dmax src slen db sb) s :=
  AccD.within2 (Q := fun _ => True) (strspn_s_acc (d := s.data) dest dmax src slen db sb hd hs) s rfl

theorem strcspn_s_fp (dest dmax src slen : Nat) (db sb : Bos) (s : St) {R : Nat → Prop}
    (hd : dest ≠ 0 → ∀ a, Str s.data dest (dmax+1) a → R a)
    (hs : src ≠ 0 → ∀ a, Str s.data src (slen+1) a → R a) :
    Within2 R (fun _ => False) (strcspn_s dest dmax src slen db sb) s :=
  AccD.within2 (Q := fun _ => True) (strcspn_s_acc (d := s.data) dest dmax src slen db sb hd hs) s rfl

theorem strprefix_s_fp (dest dmax src : Nat) (db : Bos) (s : St) {R : Nat → Prop}
    (hd : dest ≠ 0 → ∀ a, Str s.data dest dmax a → R a)
    (hs : src ≠ 0 → ∀ a, Str s.data src (dmax+1) a → R a) :
    Within2 R (fun _ => False) (strprefix_s dest dmax src db) s :=
  AccD.within2 (Q := fun _ => True) (strprefix_s_acc (d := s.data) dest dmax src db hd hs) s rfl

theorem strfirstchar_s_fp (dest dmax c : Nat) (db : Bos) (s : St) {R : Nat → Prop}
    (hd : dest ≠ 0 → ∀ a, Str s.data dest (dmax+1) a → R a) :
    Within2 R (fun _ => False) (strfirstchar_s dest dmax c db) s :=
  AccD.within2 (Q := fun _ => True) (strfirstchar_s_acc (d := s.data) dest dmax c db hd) s rfl

theorem strlastchar_s_fp (dest dmax c : Nat) (db : Bos) (s : St) {R : Nat → Prop}
    (hd : dest ≠ 0 → ∀ a, Str s.data dest (dmax+1) a → R a) :
    Within2 R (fun _ => False) (strlastchar_s dest dmax c db) s :=
  AccD.within2 (Q := fun _ => True) (strlastchar_s_acc (d := s.data) dest dmax c db hd) s rfl

theorem pairFn_fp (same first : Bool) (nohit dest dmax src : Nat) (db : Bos) (s : St) {R : Nat → Prop}
    (hd : dest ≠ 0 → ∀ a, Str s.data dest (dmax+1) a → R a)
    (hs : src ≠ 0 → ∀ a, Str s.data src (dmax+1) a → R a) :
    Within2 R (fun _ => False) (pairFn same first nohit dest dmax src db) s :=
  AccD.within2 (Q := fun _ => True) (pairFn_acc (d := s.data) same first nohit dest dmax src db hd hs) s rfl

theorem predFn_bounded_fp (ok : Nat → Bool) (dest dmax : Nat) (db : Bos) (s : St) {R : Nat → Prop}
    (hd : dest ≠ 0 → ∀ a, Str s.data dest (dmax+1) a → R a) :
    Within2 R (fun _ => False) (predFn ok true dest dmax db) s :=
  AccD.within2 (Q := fun _ => True) (predFn_bounded_acc (d := s.data) ok dest dmax db hd) s rfl

theorem predFn_unbounded_fp (ok : Nat → Bool) (dest dmax : Nat) (db : Bos) (s : St) {R : Nat → Prop}
    (hd : dest ≠ 0 → ∀ a, Str s.data dest scanFuel2 a → R a) :
    Within2 R (fun _ => False) (predFn ok false dest dmax db) s :=
  AccD.within2 (Q := fun _ => True) (predFn_unbounded_acc (d := s.data) ok dest dmax db hd) s rfl

theorem strisascii_s_fp (dest dmax : Nat) (db : Bos) (s : St) {R : Nat → Prop}
    (hd : dest ≠ 0 → ∀ a, Str s.data dest (dmax+1) a → R a) :
    Within2 R (fun _ => False) (strisascii_s dest dmax db) s :=
  AccD.within2 (Q := fun _ => True) (strisascii_s_acc (d := s.data) dest dmax db hd) s rfl

theorem strispassword_s_fp (dest dmax : Nat) (db : Bos) (s : St) {R : Nat → Prop}
    (hd : dest ≠ 0 → ∀ a, Str s.data dest (dmax+1) a → R a) :
    Within2 R (fun _ => False) (strispassword_s dest dmax db) s :=
  AccD.within2 (Q := fun _ => True) (strispassword_s_acc (d := s.data) dest dmax db hd) s rfl

theorem wcscmpG_fp (useCount : Bool) (dest dmax src smax count : Nat) (db sb : Bos) (s : St) {R : Nat → Prop}
    (hd : dest ≠ 0 → ∀ a, Str s.data dest (dmax+1) a → R a)
    (hs : src ≠ 0 → ∀ a, Str s.data src (smax+1) a → R a) :
    Within2 R (fun _ => False) (wcscmpG useCount dest dmax src smax count db sb) s :=
  AccD.within2 (Q := fun _ => True) (wcscmpG_acc (d := s.data) useCount dest dmax src smax count db sb hd hs) s rfl

theorem wcsstr_s_fp (dest dmax src slen : Nat) (db sb : Bos) (s : St) {R : Nat → Prop}
    (hd : dest ≠ 0 → ∀ a, Str s.data dest (dmax+1) a → R a)
    (hs : src ≠ 0 → ∀ a, Str s.data src (slen+1) a → R a) :
    Within2 R (fun _ => False) (wcsstr_s dest dmax src slen db sb) s :=
  AccD.within2 (Q := fun _ => True) (wcsstr_s_acc (d := s.data) dest dmax src slen db sb hd hs) s rfl

end SafeC.Props.C12Query

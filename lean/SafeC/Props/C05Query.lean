import SafeC.Proofs.EVQuery
import SafeC.Models.Tok
import SafeC.Models.Copy
/-!
# C05 for the query families, through the `EV` event judgement

For ALL arguments and ALL memory contents, every returning call of a query function has appended
* no event, and returned one of the function's RESULT codes (EOK, or the documented "no answer"
  code ESNOTFND / ESNODIFF …, which is not a constraint violation), or
* exactly one handler event, carrying precisely the (non-EOK) code the call returned.
Never two reports, never a report with a different code, never a report followed by EOK.

The `bool` predicates (`stris*_s`) and the counting functions have no code to return: for them the
statement is "no event, or exactly one handler event and the failure value (`false` / 0)".

Deviations of the code that the proofs expose (each already a known finding of C05 or C10):
`strcspn_s` reports a too-large `slen` for a known source size through the MEM handler (`QPostAny`),
`strrchr_s` returns ESZEROL for an empty string without any report (ESZEROL is listed as a result
code of that function below — the theorem says exactly what the code does).
-/
namespace SafeC.Props.C05Query
open SafeC Gen SafeC.Props.C05Ev SafeC.Props.C05Mem

theorem strcmpTail_ev (d s : Nat) : EV (strcmpTail d s) (P2 [EOK] .str) := by unfold strcmpTail; ev_walk
theorem strcmpLoop_ev (sb : Bos) (n d s l : Nat) : EV (strcmpLoop sb n d s l) (P2 [EOK] .str) := by
  cases sb <;>
  induction n generalizing d s l with
  | zero => unfold strcmpLoop; ev_walk using strcmpTail_ev _ _
  | succ n ih => unfold strcmpLoop; ev_walk using strcmpTail_ev _ _, ih _ _ _
theorem strcmp_s_ev (dest dmax src : Nat) (db sb : Bos) : EV (strcmp_s dest dmax src db sb) (P2 [EOK] .str) := by
  unfold strcmp_s
  open_chk (qChkS_ev _ _ _ _)
  · exact strcmpLoop_ev _ _ _ _ _
  · ev_walk

theorem q_strcasecmpTail (d s : Nat) : Quiet (strcasecmpTail d s) := by unfold strcasecmpTail; quiet
theorem strcasecmpTail_ev (d s : Nat) : EV (strcasecmpTail d s) (P2 [EOK] .str) := by unfold strcasecmpTail; ev_walk
theorem strcasecmpLoop_ev (n d s : Nat) : EV (strcasecmpLoop n d s) (P2 [EOK] .str) := by
  induction n generalizing d s with
  | zero => unfold strcasecmpLoop; ev_walk using strcasecmpTail_ev _ _
  | succ n ih => unfold strcasecmpLoop; ev_walk using strcasecmpTail_ev _ _, ih _ _
theorem strcasecmp_s_ev (dest dmax src : Nat) (db : Bos) : EV (strcasecmp_s dest dmax src db) (P2 [EOK] .str) := by
  unfold strcasecmp_s
  open_chk (qChkS_ev _ _ _ _)
  · exact strcasecmpLoop_ev _ _ _
  · ev_walk

theorem strcmpfldLoop_ev (n d s : Nat) : EV (strcmpfldLoop n d s) (P2 [EOK] .str) := by
  induction n generalizing d s with
  | zero => unfold strcmpfldLoop; exact strcmpTail_ev _ _
  | succ n ih => unfold strcmpfldLoop; ev_walk using strcmpTail_ev _ _, ih _ _
theorem strcmpfld_s_ev (dest dmax src : Nat) (db : Bos) : EV (strcmpfld_s dest dmax src db) (P2 [EOK] .str) := by
  unfold strcmpfld_s
  open_chk (qChkS_ev _ _ _ _)
  · exact strcmpfldLoop_ev _ _ _
  · ev_walk

theorem strstrOuter_ev (src slen n d : Nat) : EV (strstrOuter src slen n d) (P2 [EOK, ESNOTFND] .str) := by
  induction n generalizing d with
  | zero => unfold strstrOuter; ev_walk
  | succ n ih => unfold strstrOuter; ev_walk using ih _, q_strstrInner _ _ _ _ _
theorem strstr_s_ev (dest dmax src slen : Nat) (db sb : Bos) : EV (strstr_s dest dmax src slen db sb) (P2 [EOK, ESNOTFND] .str) := by
  unfold strstr_s
  open_chk (qChkS_ev _ _ _ _)
  · open_chk (qChkSlenS_ev _ _)
    · ev_walk using strstrOuter_ev _ _ _ _, q_strlenP _ _ _
    · ev_walk
  · ev_walk

theorem strcasestrOuter_ev (src slen n d : Nat) : EV (strcasestrOuter src slen n d) (P2 [EOK, ESNOTFND] .str) := by
  induction n generalizing d with
  | zero => unfold strcasestrOuter; ev_walk
  | succ n ih => unfold strcasestrOuter; ev_walk using ih _, q_strcasestrInner _ _ _ _ _
theorem strcasestr_s_ev (dest dmax src slen : Nat) (db sb : Bos) : EV (strcasestr_s dest dmax src slen db sb) (P2 [EOK, ESNOTFND] .str) := by
  unfold strcasestr_s
  open_chk (qChkS_ev _ _ _ _)
  · ev_walk using strcasestrOuter_ev _ _ _ _
  · ev_walk

theorem strchr_s_ev (dest dmax : Nat) (ch : Int) (db : Bos) : EV (strchr_s dest dmax ch db) (P2 [EOK, ESNOTFND] .str) := by
  unfold strchr_s
  open_chk (qChkS_ev _ _ _ _)
  · ev_walk using q_strchrP _ _ _
  · ev_walk

/-! mixed handler kinds: `memchr_s` / `memrchr_s` check dest through the MEM handler and `ch > 255` through the STR handler -/
abbrev P2Any {β} (benign : List Nat) : Nat × β → List Event → Prop := QPostAny benign (·.1)

theorem memrchr_s_ev (dest dmax : Nat) (ch : Int) (db : Bos) : EV (memrchr_s dest dmax ch db) (P2Any [EOK, ESNOTFND]) := by
  unfold memrchr_s
  open_chk (qChkM_ev _ _ _)
  · ev_walk using q_memrchrP _ _ _
  · ev_walk
theorem memchr_s_ev (dest dmax : Nat) (ch : Int) (db : Bos) : EV (memchr_s dest dmax ch db) (P2Any [EOK, ESNOTFND]) := by
  unfold memchr_s
  open_chk (qChkM_ev _ _ _)
  · ev_walk using q_memchrP _ _ _
  · ev_walk

theorem strpbrkOuter_ev (src slen n d : Nat) : EV (strpbrkOuter src slen n d) (P2 [EOK, ESNOTFND] .str) := by
  induction n generalizing d with
  | zero => unfold strpbrkOuter; ev_walk
  | succ n ih => unfold strpbrkOuter; ev_walk using ih _, q_strpbrkInner _ _ _

theorem handleStrBosOverflow_ev (cfg : Cfg) (dest dmax : Nat) (hd : dest ≠ 0) (hz : dmax ≠ 0) (hm : dmax ≤ RSIZE_MAX_STR) :
    EV (handleStrBosOverflow cfg dest dmax) (fun c es => c ≠ EOK ∧ es = [.handler .str c]) := by
  unfold handleStrBosOverflow strnlen_s
  simp only [hd, hz, if_false, Nat.not_lt.mpr hm]
  refine Quiet.then_ (q_strnlenLoop _ _ _ _) (fun len => ?_)
  split
  · exact EV.bind (EV.handleError _ _ _ _) (fun _ es he => by subst he; exact EV.pure _ ⟨ne_ESLEMAX, by simp⟩)
  · exact EV.bind (EV.handleError _ _ _ _) (fun _ es he => by subst he; exact EV.pure _ ⟨ne_EOVERFLOW, by simp⟩)

theorem strspn_s_ev (dest dmax src slen : Nat) (db sb : Bos) : EV (strspn_s dest dmax src slen db sb) (P2 [EOK] .str) := by
  unfold strspn_s
  open_chk (qChkS_ev _ _ _ _)
  · open_chk (qChkSlenS_ev _ _)
    · ev_walk using q_spanOuter _ _ _ _ _ _
    · ev_walk
  · ev_walk
/-- strcspn_s: the EOVERFLOW report goes through the MEM handler (known finding) — kind left open -/
theorem strcspn_s_ev (dest dmax src slen : Nat) (db sb : Bos) : EV (strcspn_s dest dmax src slen db sb) (P2Any [EOK]) := by
  unfold strcspn_s
  open_chk (qChkS_ev _ _ _ _)
  · ev_walk using q_spanOuter _ _ _ _ _ _
  · ev_walk

abbrev P1 (benign : List Nat) (k : Kind) : Nat → List Event → Prop := QPost benign k id
theorem strprefixLoop_q (n d s : Nat) : Quiet (strprefixLoop n d s) := by
  induction n generalizing d s with
  | zero => unfold strprefixLoop; quiet
  | succ n ih => unfold strprefixLoop; quiet using ih
theorem strprefixLoop_ev (n d s : Nat) : EV (strprefixLoop n d s) (P1 [EOK, ESNOTFND] .str) := by
  induction n generalizing d s with
  | zero => unfold strprefixLoop; ev_walk
  | succ n ih => unfold strprefixLoop; ev_walk using ih _ _
theorem strprefix_s_ev (dest dmax src : Nat) (db : Bos) : EV (strprefix_s dest dmax src db) (P1 [EOK, ESNOTFND] .str) := by
  unfold strprefix_s
  open_chk (qChkS_ev _ _ _ _)
  · ev_walk using strprefixLoop_ev _ _ _
  · ev_walk

theorem memcmpG_ev (max : Nat) (f : Nat → Nat → Int) (dest dlen src slen dB sB dL dL' : Nat) (db sb : Bos) :
    EV (memcmpG max f dest dlen src slen dB sB dL dL' db sb) (P2 [EOK] .mem) := by
  unfold memcmpG
  split
  · ev_walk
  split
  · ev_walk
  split
  · ev_walk
  open_chk (memcmpChecks_ev _ _ _ _ _ _ _ _ _)
  · ev_walk using q_memcmpLoopQ _ _ _ _ _
  · ev_walk
theorem memcmp_s_ev (dest dmax src slen : Nat) (db sb : Bos) : EV (memcmp_s dest dmax src slen db sb) (P2 [EOK] .mem) := memcmpG_ev ..
theorem memcmp16_s_ev (dest dlen src slen : Nat) (db sb : Bos) : EV (memcmp16_s dest dlen src slen db sb) (P2 [EOK] .mem) := memcmpG_ev ..
theorem memcmp32_s_ev (dest dlen src slen : Nat) (db sb : Bos) : EV (memcmp32_s dest dlen src slen db sb) (P2 [EOK] .mem) := memcmpG_ev ..

/-- strpbrk_s, FULL statement false of the code (known finding `strpbrk-clears-dest`: with a known source size and
`slen` above it the exit goes through `handle_str_bos_overflow(dest, destbos)`, which with destbos unknown reports
twice).  Partial: source size unknown or `slen` within it. -/
theorem strpbrk_s_ev_partial (cfg : Cfg) (dest dmax src slen : Nat) (db sb : Bos) (h : ∀ b, sb = some b → slen ≤ b) :
    EV (strpbrk_s cfg dest dmax src slen db sb) (P2 [EOK, ESNOTFND] .str) := by
  unfold strpbrk_s
  open_chk (qChkS_ev _ _ _ _)
  · cases sb with
    | none => ev_walk using strpbrkOuter_ev _ _ _ _
    | some b =>
      have := h b rfl
      simp only [Nat.not_lt.mpr this, if_false]
      ev_walk using strpbrkOuter_ev _ _ _ _
  · ev_walk

/-! ## `Models/Query2.lean` -/

theorem failS2_ev {bn : List Nat} (c o : Nat) (hc : c ≠ EOK) : EV (failS2 c o) (P2 bn .str) := by
  unfold failS2; ev_walk
theorem chkDmaxQ_ev {α} {R : α → List Event → Prop} (mk : Nat → α) (dmax : Nat) (db : Bos) (max : Nat) {k : Prog α}
    (hk : EV k R) (hl : R (mk ESLEMAX) [.handler .str ESLEMAX]) (ho : R (mk EOVERFLOW) [.handler .str EOVERFLOW]) :
    EV (chkDmaxQ mk dmax db max k) R := by
  unfold chkDmaxQ
  have e1 : EV (do handlerS ESLEMAX; pure (mk ESLEMAX) : Prog α) R :=
    EV.bind (EV.handlerS _) (fun _ es he => by subst he; exact EV.pure _ (by simpa using hl))
  have e2 : EV (do handlerS EOVERFLOW; pure (mk EOVERFLOW) : Prog α) R :=
    EV.bind (EV.handlerS _) (fun _ es he => by subst he; exact EV.pure _ (by simpa using ho))
  split
  · split
    · exact e1
    · exact hk
  · split
    · split
      · exact e1
      · exact e2
    · exact hk

theorem p2_fail {β} {bn : List Nat} (c : Nat) (o : β) (hc : c ≠ EOK) : P2 bn .str (c, o) [.handler .str c] := Or.inr ⟨hc, rfl⟩

theorem firstcharLoop_ev (c n d : Nat) : EV (firstcharLoop c n d) (P2 [EOK, ESNOTFND] .str) := by
  induction n generalizing d with
  | zero => unfold firstcharLoop; ev_walk
  | succ n ih => unfold firstcharLoop; ev_walk using ih _
theorem strfirstchar_s_ev (dest dmax c : Nat) (db : Bos) : EV (strfirstchar_s dest dmax c db) (P2 [EOK, ESNOTFND] .str) := by
  unfold strfirstchar_s
  split
  · exact failS2_ev _ _ ne_ESNULLP
  split
  · exact failS2_ev _ _ ne_ESZEROL
  exact chkDmaxQ_ev _ _ _ _ (firstcharLoop_ev _ _ _) (p2_fail _ _ ne_ESLEMAX) (p2_fail _ _ ne_EOVERFLOW)

theorem q_lastcharLoop (c n d l : Nat) : Quiet (lastcharLoop c n d l) := by
  induction n generalizing d l with
  | zero => unfold lastcharLoop; quiet
  | succ n ih => unfold lastcharLoop; quiet using ih
theorem strlastchar_s_ev (dest dmax c : Nat) (db : Bos) : EV (strlastchar_s dest dmax c db) (P2 [EOK, ESNOTFND] .str) := by
  unfold strlastchar_s
  split
  · exact failS2_ev _ _ ne_ESNULLP
  split
  · exact failS2_ev _ _ ne_ESZEROL
  refine chkDmaxQ_ev _ _ _ _ ?_ (p2_fail _ _ ne_ESLEMAX) (p2_fail _ _ ne_EOVERFLOW)
  ev_walk using q_lastcharLoop _ _ _ _

theorem q_pairLoop (sm fi : Bool) (rp n d s : Nat) (l : Option Nat) : Quiet (pairLoop sm fi rp n d s l) := by
  induction n generalizing d s l with
  | zero => unfold pairLoop; quiet
  | succ n ih => unfold pairLoop; quiet using ih
theorem pairFn_ev (sm fi : Bool) (nohit : Nat) (dest dmax src : Nat) (db : Bos) :
    EV (pairFn sm fi nohit dest dmax src db) (P2 [EOK, nohit] .str) := by
  unfold pairFn
  split
  · exact failS2_ev _ _ ne_ESNULLP
  split
  · exact failS2_ev _ _ ne_ESNULLP
  split
  · exact failS2_ev _ _ ne_ESZEROL
  refine chkDmaxQ_ev _ _ _ _ ?_ (p2_fail _ _ ne_ESLEMAX) (p2_fail _ _ ne_EOVERFLOW)
  ev_walk using q_pairLoop _ _ _ _ _ _ _
theorem strfirstdiff_s_ev (dest dmax src : Nat) (db : Bos) : EV (strfirstdiff_s dest dmax src db) (P2 [EOK, ESNODIFF] .str) := pairFn_ev ..
theorem strfirstsame_s_ev (dest dmax src : Nat) (db : Bos) : EV (strfirstsame_s dest dmax src db) (P2 [EOK, ESNOTFND] .str) := pairFn_ev ..
theorem strlastdiff_s_ev (dest dmax src : Nat) (db : Bos) : EV (strlastdiff_s dest dmax src db) (P2 [EOK, ESNODIFF] .str) := pairFn_ev ..
theorem strlastsame_s_ev (dest dmax src : Nat) (db : Bos) : EV (strlastsame_s dest dmax src db) (P2 [EOK, ESNOTFND] .str) := pairFn_ev ..

/-! the `bool` predicates -/
abbrev PB : Bool → List Event → Prop := FPost false
theorem pb_fail (c : Nat) (hc : c ≠ EOK) : PB false [.handler .str c] := Or.inr ⟨rfl, c, hc, rfl⟩
theorem chkDestDmaxBool_ev (dest dmax : Nat) (db : Bos) (max : Nat) {k : Prog Bool} (hk : EV k PB) :
    EV (chkDestDmaxBool dest dmax db max k) PB := by
  unfold chkDestDmaxBool
  split
  · ev_walk
  split
  · ev_walk
  exact chkDmaxQ_ev _ _ _ _ hk (pb_fail _ ne_ESLEMAX) (pb_fail _ ne_EOVERFLOW)
theorem q_classLoop (ok : Nat → Bool) (n d : Nat) : Quiet (classLoop ok n d) := by
  induction n generalizing d with
  | zero => unfold classLoop; quiet
  | succ n ih => unfold classLoop; quiet using ih
theorem q_classLoopNoBound (ok : Nat → Bool) (n d : Nat) : Quiet (classLoopNoBound ok n d) := by
  induction n generalizing d with
  | zero => unfold classLoopNoBound; quiet
  | succ n ih => unfold classLoopNoBound; quiet using ih
theorem quiet_PB {p : Prog Bool} (h : Quiet p) : EV p PB := h.conseq (fun _ _ ⟨he, _⟩ => Or.inl he)
theorem predFn_ev (ok : Nat → Bool) (b : Bool) (dest dmax : Nat) (db : Bos) : EV (predFn ok b dest dmax db) PB := by
  unfold predFn
  refine chkDestDmaxBool_ev _ _ _ _ (quiet_PB ?_)
  quiet using q_classLoop _ _ _, q_classLoopNoBound _ _ _
theorem strisascii_s_ev (dest dmax : Nat) (db : Bos) : EV (strisascii_s dest dmax db) PB :=
  chkDestDmaxBool_ev _ _ _ _ (quiet_PB (q_classLoop _ _ _))
theorem pwLoop_ev (n d : Nat) (c : PwCnt) : EV (pwLoop n d c) PB := by
  induction n generalizing d c with
  | zero => unfold pwLoop; ev_walk
  | succ n ih => unfold pwLoop; ev_walk using ih _ _
theorem strispassword_s_ev (dest dmax : Nat) (db : Bos) : EV (strispassword_s dest dmax db) PB := by
  unfold strispassword_s
  refine chkDestDmaxBool_ev _ _ _ _ ?_
  ev_walk using pwLoop_ev _ _ _

/-- strrchr_s, all arguments, all memory (after the `fix:` commit that rejects a dmax above RSIZE_MAX_STR for a known
object as well; before it the inner `strnlen_s(dest, dmax)` reported ESLEMAX and strrchr_s returned ESZEROL:
`strrchr_s_C05_fixed_point` in C05Copy.lean is that input).  ESZEROL is also this function's SILENT answer for an empty string, hence a
result code here; `ch > 255` is reported through the str handler, dest checks too (kind left open for memrchr_s). -/
theorem strrchr_s_ev (dest dmax : Nat) (ch : Int) (db : Bos) :
    EV (strrchr_s dest dmax ch db) (P2Any [EOK, ESNOTFND, ESZEROL]) := by
  unfold strrchr_s
  refine optThenF (qChkS_evF _ _ _ _) (fun ⟨hd, hz, _, _⟩ => ?_) (fun c hc => ?_)
  · dsimp only
    split
    · ev_walk
    split
    · ev_walk
    · refine Quiet.then_ (q_strnlen_s_ok _ _ _ hd hz (by omega)) (fun len => ?_)
      split
      · refine (memrchr_s_ev _ _ _ _).conseq (fun y es h => ?_)
        rcases h with ⟨h1, h2⟩ | h
        · refine Or.inl ⟨h1, ?_⟩
          simp only [List.mem_cons, List.mem_nil_iff, or_false] at h2 ⊢
          rcases h2 with h2 | h2
          · exact Or.inl h2
          · exact Or.inr (Or.inl h2)
        · exact Or.inr h
      · ev_walk
  · ev_walk

theorem quiet_F {α} {fv : α} {p : Prog α} (h : Quiet p) : EV p (FPost fv) := h.conseq (fun _ _ ⟨he, _⟩ => Or.inl he)
theorem quiet_Q {α} {bn : List Nat} {k : Kind} {code : α → Nat} {p : Prog α} (h : EV.Silent p (fun y => code y ∈ bn)) :
    EV p (QPost bn k code) := h.conseq (fun _ _ ⟨he, hb⟩ => Or.inl ⟨he, hb⟩)

/-! wide queries -/
theorem q_wcsnlenLoop (n s c : Nat) : Quiet (wcsnlenLoop n s c) := by
  induction n generalizing s c with
  | zero => unfold wcsnlenLoop; quiet
  | succ n ih => unfold wcsnlenLoop; quiet using ih
theorem q_wcsnlenBosLoop (o n s c b : Nat) : Quiet (wcsnlenBosLoop o n s c b) := by
  induction n generalizing s c b with
  | zero => unfold wcsnlenBosLoop; exact Quiet.pure _
  | succ n ih =>
    unfold wcsnlenBosLoop
    refine Quiet.bind (Quiet.loadP _) (fun v => ?_)
    split
    · exact Quiet.pure _
    · show Quiet (if (b + two64 - SIZEOF_WCHAR_T) % two64 = 0 then pure c else wcsnlenBosLoop o n (s + 1) (c + 1) ((b + two64 - SIZEOF_WCHAR_T) % two64))
      split
      · exact Quiet.pure _
      · exact ih _ _ _
abbrev PN : Nat → List Event → Prop := FPost 0
theorem wcsnlen_s_chk_ev (str smax : Nat) (sb : Bos) : EV (wcsnlen_s_chk str smax sb) PN := by
  unfold wcsnlen_s_chk
  ev_walk using (quiet_F (q_wcsnlenBosLoop _ _ _ _ _)), (quiet_F (q_wcsnlenLoop _ _ _))

theorem q_wcscmpLoop (u : Bool) (n sm c d s : Nat) : Quiet (wcscmpLoop u n sm c d s) := by
  induction n generalizing sm c d s with
  | zero => unfold wcscmpLoop; quiet
  | succ n ih => unfold wcscmpLoop; quiet using ih
theorem wcscmpG_ev (u : Bool) (dest dmax src smax count : Nat) (db sb : Bos) :
    EV (wcscmpG u dest dmax src smax count db sb) (P2 [EOK] .str) := by
  unfold wcscmpG
  ev_walk using q_wcscmpLoop _ _ _ _ _ _
theorem wcscmp_s_ev (dest dmax src smax : Nat) (db sb : Bos) : EV (wcscmp_s dest dmax src smax db sb) (P2 [EOK] .str) := wcscmpG_ev ..
theorem wcsncmp_s_ev (dest dmax src smax count : Nat) (db sb : Bos) : EV (wcsncmp_s dest dmax src smax count db sb) (P2 [EOK] .str) := wcscmpG_ev ..

theorem q_wcsstrInner (d s n i l : Nat) : Quiet (wcsstrInner d s n i l) := by
  induction n generalizing i l with
  | zero => unfold wcsstrInner; quiet
  | succ n ih => unfold wcsstrInner; quiet using ih
theorem wcsstrOuter_ev (src slen n d : Nat) : EV (wcsstrOuter src slen n d) (P2 [EOK, ESNOTFND] .str) := by
  induction n generalizing d with
  | zero => unfold wcsstrOuter; ev_walk
  | succ n ih => unfold wcsstrOuter; ev_walk using ih _, q_wcsstrInner _ _ _ _ _
theorem wcsstr_s_ev (dest dmax src slen : Nat) (db sb : Bos) : EV (wcsstr_s dest dmax src slen db sb) (P2 [EOK, ESNOTFND] .str) := by
  unfold wcsstr_s
  ev_walk using wcsstrOuter_ev _ _ _ _, failS2_ev _ _ ne_ESNULLP, failS2_ev _ _ ne_ESZEROL, failS2_ev _ _ ne_ESLEMAX, failS2_ev _ _ ne_EOVERFLOW

theorem q_wmemcmpLoop (n m d s : Nat) : Quiet (wmemcmpLoop n m d s) := by
  induction n generalizing m d s with
  | zero => unfold wmemcmpLoop; quiet
  | succ n ih => unfold wmemcmpLoop; quiet using ih
theorem wmemcmp_s_ev (dest dlen src slen : Nat) (db sb : Bos) : EV (wmemcmp_s dest dlen src slen db sb) (P2 [EOK] .mem) := by
  unfold wmemcmp_s
  ev_walk using q_wmemcmpLoop _ _ _ _

/-! tokenizers: NULL + errno is the failure indication; the observation has the returned pointer -/
/-- reported: NULL returned and exactly one str-handler event -/
abbrev PT1 : TokOut → List Event → Prop := fun o es => o.ret = 0 ∧ ∃ c, c ≠ EOK ∧ es = [.handler .str c]
abbrev PT : TokOut → List Event → Prop := fun o es => es = [] ∨ PT1 o es
theorem tokFail_ev1 (c : Nat) (hc : c ≠ EOK) : EV (tokFail c) PT1 := by
  unfold tokFail
  exact EV.bind (EV.handlerS c) (fun _ es he => by subst he; exact EV.pure _ ⟨rfl, c, hc, by simp⟩)
theorem tokFail_ev (c : Nat) (hc : c ≠ EOK) : EV (tokFail c) PT := (tokFail_ev1 c hc).conseq (fun _ _ h => Or.inr h)
theorem tokUnterm_ev1 (d : Nat) : EV (tokUnterm d) PT1 := by
  unfold tokUnterm
  refine Quiet.then_ (Quiet.storeP _ _) (fun _ => ?_)
  exact EV.bind (EV.handlerS _) (fun _ es he => by subst he; exact EV.pure _ ⟨rfl, _, ne_ESUNTERM, by simp⟩)
theorem tokUnterm_ev (d : Nat) : EV (tokUnterm d) PT := (tokUnterm_ev1 d).conseq (fun _ _ h => Or.inr h)
theorem q_delimScan1 (d n pt : Nat) (t : Bool) : Quiet (delimScan1 d n pt t) := by
  induction n generalizing pt t with
  | zero => unfold delimScan1; quiet
  | succ n ih => unfold delimScan1; quiet using ih
theorem q_delimScan2 (d n pt : Nat) : Quiet (delimScan2 d n pt) := by
  induction n generalizing pt with
  | zero => unfold delimScan2; quiet
  | succ n ih => unfold delimScan2; quiet using ih

abbrev PS1 : Scan1 → List Event → Prop :=
  fun r es => (es = [] ∧ ∃ a b c, r = .exit a b c) ∨ (∃ o, r = .out o ∧ PT1 o es)
theorem out_of_PT1 {p : Prog TokOut} (h : EV p PT1) : EV (do let o ← p; pure (Scan1.out o)) PS1 :=
  EV.bind h (fun o es ho => EV.pure _ (Or.inr ⟨o, rfl, by simpa using ho⟩))
theorem scan1_ev (w : Bool) (delim n d : Nat) : EV (scan1 w delim n d) PS1 := by
  induction n generalizing d with
  | zero =>
    unfold scan1
    refine Quiet.then_ (Quiet.loadP _) (fun c => ?_)
    split
    · exact EV.pure _ (Or.inl ⟨rfl, _, _, _, rfl⟩)
    split
    · exact out_of_PT1 (tokUnterm_ev1 d)
    · exact EV.bind (EV.handlerS _) (fun _ es he => by
        subst he; exact EV.pure _ (Or.inr ⟨_, rfl, rfl, _, ne_ESUNTERM, by simp⟩))
  | succ n ih =>
    unfold scan1
    refine Quiet.then_ (Quiet.loadP _) (fun c => ?_)
    split
    · exact EV.pure _ (Or.inl ⟨rfl, _, _, _, rfl⟩)
    refine Quiet.then_ (q_delimScan1 _ _ _ _) (fun r => ?_)
    split
    · exact out_of_PT1 (tokUnterm_ev1 d)
    · exact Quiet.then_ (Quiet.loadP _) (fun _ => EV.pure _ (Or.inl ⟨rfl, _, _, _, rfl⟩))
    · exact ih _
theorem scan2_ev (delim pt n d : Nat) : EV (scan2 delim pt n d) PT := by
  induction n generalizing d with
  | zero => unfold scan2; ev_walk using tokUnterm_ev _
  | succ n ih => unfold scan2; ev_walk using tokUnterm_ev _, ih _, q_delimScan2 _ _ _
theorem tokBody_ev (w : Bool) (delim d n : Nat) : EV (tokBody w delim d n) PT := by
  unfold tokBody
  refine EV.bind (scan1_ev _ _ _ _) (fun r es h => ?_)
  rcases h with ⟨rfl, a, b, c, rfl⟩ | ⟨o, rfl, ho⟩
  · simp only [List.nil_append]
    ev_walk using scan2_ev _ _ _ _
  · exact EV.pure _ (Or.inr (by simpa using ho))
theorem strtok_s_ev (dest : Nat) (dmaxp : Option Nat) (delim : Nat) (ptr : Option Nat) (db : Bos) :
    EV (strtok_s dest dmaxp delim ptr db) PT := by
  unfold strtok_s
  ev_walk using tokFail_ev _ ne_ESNULLP, tokFail_ev _ ne_ESZEROL, tokFail_ev _ ne_ESLEMAX, tokFail_ev _ ne_EOVERFLOW, tokBody_ev _ _ _ _
theorem wcstok_s_ev (dest : Nat) (dmaxp : Option Nat) (delim : Nat) (ptr : Option Nat) (db : Bos) :
    EV (wcstok_s dest dmaxp delim ptr db) PT := by
  unfold wcstok_s
  ev_walk using tokFail_ev _ ne_ESNULLP, tokFail_ev _ ne_ESZEROL, tokFail_ev _ ne_ESLEMAX, tokFail_ev _ ne_EOVERFLOW, tokBody_ev _ _ _ _

end SafeC.Props.C05Query

import SafeC.Proofs.ExtFld
import SafeC.Props.C01
/-!
# C03 for the field copies: is there a NUL in `dest[0..dmax)` after the call?

Setting: every cell mapped and readable with ARBITRARY contents, the `dmax` cells of dest writable,
`dest ≠ 0`, `0 < dmax ≤ RSIZE_MAX_STR`, `slen ≠ 0` (`slen = 0` is the documented no-op), object size unknown
or known and at least `dmax`; ANY `src` (null, overlapping, unterminated), both slack configurations.

* `strcpyfldout_s` (field → string): FULL.  Every exit is a `handle_error` that zeroes `dest[0]`, or the
  trailing fill of `m ≥ 1` cells (`while (dmax > 1 && slen)` keeps one cell).
* `strcpyfld_s`, `strcpyfldin_s` (… → FIELD): the FULL statement
  `∃ i < dmax, st'.data (dest+i) = 0` after every return is FALSE of the code: with `slen = dmax` all `dmax`
  cells receive source characters and nothing is left for the fill (`_witness`).  A field is not a string, so
  this is the documented behaviour rather than a defect; `_partial` proves the statement under exactly
  `slen < dmax ∨ code ≠ EOK`.
-/
namespace SafeC.Props.C03Ext
open SafeC Gen

/-- strcpyfldout_s, C03 at full strength: any src (null, overlapping, unterminated), any memory contents,
both slack configurations, slen ≠ 0, object size unknown or ≥ dmax.  The call returns, records no stray access,
changes nothing outside dest[0..dmax), and whatever the exit (EOK, ESNULLP, ESOVRLP, ESNOSPC, ESLEMAX) a NUL
exists in dest[0..dmax). -/
theorem strcpyfldout_s_C03 (cfg : Cfg) (dest dmax src slen : Nat) (destbos : Bos) (st : St)
    (hall : ∀ a, st.mapped a = true ∧ st.rd a = true) (hrw : RW st dest dmax)
    (hd : dest ≠ 0) (hpos : 0 < dmax) (hle : dmax ≤ RSIZE_MAX_STR) (hbos : ∀ b, destbos = some b → dmax ≤ b)
    (hsl : slen ≠ 0) :
    ∃ code st', exec (strcpyfldout_s cfg dest dmax src slen destbos) st = .ok (code, st') ∧
      st'.strays = st.strays ∧
      (∀ a, ¬ (dest ≤ a ∧ a < dest + dmax) → st'.data a = st.data a) ∧
      ∃ i, i < dmax ∧ st'.data (dest + i) = 0 := by
  unfold strcpyfldout_s
  rw [fldG_entry _ cfg dest dmax src slen destbos hsl hd hpos hle hbos]
  obtain ⟨code, st', he, hp⟩ := fldBody_safe .fldout cfg dest dmax src slen st hall hrw hd hpos hle
  exact ⟨code, st', he, hp.safe.strays, hp.safe.frame, hp.term (Or.inl rfl)⟩

/- FALSE of the code (see `strcpyfld_s_C03_witness`):
   strcpyfld_s_C03 : … → ∃ code st', exec (strcpyfld_s cfg dest dmax src slen destbos) st = .ok (code, st') ∧
      ∃ i, i < dmax ∧ st'.data (dest + i) = 0 -/

/-- strcpyfld_s, C03 under the hypothesis the proof forces: any src, any contents, both slack configurations;
a NUL exists in dest[0..dmax) whenever the call fails (dest[0] = 0) or slen < dmax (the trailing fill has at
least one cell).  With slen = dmax and EOK the field is full: see the witness. -/
theorem strcpyfld_s_C03_partial (cfg : Cfg) (dest dmax src slen : Nat) (destbos : Bos) (st : St)
    (hall : ∀ a, st.mapped a = true ∧ st.rd a = true) (hrw : RW st dest dmax)
    (hd : dest ≠ 0) (hpos : 0 < dmax) (hle : dmax ≤ RSIZE_MAX_STR) (hbos : ∀ b, destbos = some b → dmax ≤ b)
    (hsl : slen ≠ 0) :
    ∃ code st', exec (strcpyfld_s cfg dest dmax src slen destbos) st = .ok (code, st') ∧
      st'.strays = st.strays ∧
      (∀ a, ¬ (dest ≤ a ∧ a < dest + dmax) → st'.data a = st.data a) ∧
      (slen < dmax ∨ code ≠ EOK → ∃ i, i < dmax ∧ st'.data (dest + i) = 0) := by
  unfold strcpyfld_s
  rw [fldG_entry _ cfg dest dmax src slen destbos hsl hd hpos hle hbos]
  obtain ⟨code, st', he, hp⟩ := fldBody_safe .fld cfg dest dmax src slen st hall hrw hd hpos hle
  exact ⟨code, st', he, hp.safe.strays, hp.safe.frame, fun h => hp.term (Or.inr h)⟩

/-- strcpyfldin_s, C03 under the hypothesis the proof forces: any src, any contents, both slack
configurations; a NUL exists in dest[0..dmax) whenever the call fails or slen < dmax.  With slen = dmax, EOK and
a source string of dmax or more characters the field is full: see the witness. -/
theorem strcpyfldin_s_C03_partial (cfg : Cfg) (dest dmax src slen : Nat) (destbos : Bos) (st : St)
    (hall : ∀ a, st.mapped a = true ∧ st.rd a = true) (hrw : RW st dest dmax)
    (hd : dest ≠ 0) (hpos : 0 < dmax) (hle : dmax ≤ RSIZE_MAX_STR) (hbos : ∀ b, destbos = some b → dmax ≤ b)
    (hsl : slen ≠ 0) :
    ∃ code st', exec (strcpyfldin_s cfg dest dmax src slen destbos) st = .ok (code, st') ∧
      st'.strays = st.strays ∧
      (∀ a, ¬ (dest ≤ a ∧ a < dest + dmax) → st'.data a = st.data a) ∧
      (slen < dmax ∨ code ≠ EOK → ∃ i, i < dmax ∧ st'.data (dest + i) = 0) := by
  unfold strcpyfldin_s
  rw [fldG_entry _ cfg dest dmax src slen destbos hsl hd hpos hle hbos]
  obtain ⟨code, st', he, hp⟩ := fldBody_safe .fldin cfg dest dmax src slen st hall hrw hd hpos hle
  exact ⟨code, st', he, hp.safe.strays, hp.safe.frame, fun h => hp.term (Or.inr h)⟩

/-! ## the excluded point, and non-vacuity -/

/-- dest = 100 (one writable cell), src = 200 holding 'a' -/
def fldWSt : St :=
  { data := fun a => if a = 200 then 97 else 0, mapped := fun _ => true, rd := fun _ => true
    wr := fun a => decide (a = 100) }

/-- the excluded point of strcpyfld_s_C03: strcpyfld_s(d, 1, "a", 1) returns EOK and dest[0..1) = "a" holds
no NUL (slen = dmax fills the whole field; a field is not a string). -/
theorem strcpyfld_s_C03_witness :
    ∃ st', exec (strcpyfld_s {} 100 1 200 1 none) fldWSt = .ok (EOK, st') ∧
      ¬ ∃ i, i < 1 ∧ st'.data (100 + i) = 0 := by
  refine ⟨fldWSt.upd 100 97, ?_, ?_⟩
  · simp [strcpyfld_s, fldG, chkDmaxClear, chkDmaxClearG, chkSlenNospcClear, RSIZE_MAX_STR, fldLoop,
      nullSlack, zeroLoop, exec_bind, fldWSt, EOK, St.upd]
  · intro ⟨i, hi, h⟩
    have : i = 0 := by omega
    subst this
    simp [St.upd] at h

/-- the excluded point of strcpyfldin_s_C03: strcpyfldin_s(d, 1, "a…", 1) returns EOK and dest[0..1) = "a"
holds no NUL. -/
theorem strcpyfldin_s_C03_witness :
    ∃ st', exec (strcpyfldin_s {} 100 1 200 1 none) fldWSt = .ok (EOK, st') ∧
      ¬ ∃ i, i < 1 ∧ st'.data (100 + i) = 0 := by
  refine ⟨fldWSt.upd 100 97, ?_, ?_⟩
  · simp [strcpyfldin_s, fldG, chkDmax, chkSlenNospcClear, RSIZE_MAX_STR, fldLoop,
      nullSlack, zeroLoop, exec_bind, fldWSt, EOK, St.upd]
  · intro ⟨i, hi, h⟩
    have : i = 0 := by omega
    subst this
    simp [St.upd] at h

/-- the hypotheses are satisfiable: dest = 100 with 5 writable cells in `exSt`, slen = 7, object size 5 -/
example : (∀ a, SafeC.Props.C01.exSt.mapped a = true ∧ SafeC.Props.C01.exSt.rd a = true) ∧
    RW SafeC.Props.C01.exSt 100 5 ∧ (100 : Nat) ≠ 0 ∧ 0 < 5 ∧ 5 ≤ RSIZE_MAX_STR ∧
    (∀ b, (some 5 : Bos) = some b → 5 ≤ b) ∧ (7 : Nat) ≠ 0 := by
  refine ⟨fun _ => ⟨rfl, rfl⟩, fun i hi => ⟨rfl, ?_, rfl⟩, by decide, by decide, by decide,
    (fun b h => by cases h; exact Nat.le_refl _), by decide⟩
  simp [SafeC.Props.C01.exSt]; omega

end SafeC.Props.C03Ext

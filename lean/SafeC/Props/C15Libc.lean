import SafeC.Proofs.ConvWcs
import SafeC.Proofs.ConvMbsLoop
/-!
# C15 — glibc's string converters (models) on valid strings = character-by-character coding

`Libc.mbsrtowcs` models glibc's input-window loop (`srcend = srcp + strnlen(srcp, len) + 1`, repeated, with bytes of a
character cut by the window kept in the conversion state).  Here it is proved equal to plain decoding: for EVERY list `ws`
of non-zero encodable wide characters (C.UTF-8: 31-bit non-surrogates; C: 7-bit), every memory `bs ++ 0 :: tail` behind the
bytes `bs = encodeAll ws`, every limit `len`, both locales — no bound on lengths.

Reading of the limit, as in C: `len` counts the cells that may be stored INCLUDING the terminator.  So `|ws| < len` stores
all of `ws` and the NUL, returns `|ws|` and sets `*src = NULL`; `len ≤ |ws|` (in particular `len = |ws|`: the characters
fit, the NUL does not) stores exactly the first `len` characters, returns `len`, and `*src` points behind their bytes.
-/
namespace SafeC.Props.C15
open SafeC.Conv SafeC.Conv.Libc

/-- "encodable" in locale C: exactly the 7-bit values, and the encoding is the identity -/
theorem encodeAll_C (ws : List Nat) (h : ∀ c ∈ ws, c < 0x80) : encodeAll .C ws = some ws := by
  induction ws with
  | nil => rfl
  | cons c cs ih =>
    have hc : c < 0x80 := h c (by simp)
    have := encodeAll_cons .C c cs [c] cs (by simp [enc, asciiEnc, hc]) (ih (fun d hd => h d (by simp [hd])))
    simpa using this

/-- "encodable" in locale C.UTF-8: exactly the 31-bit values that are not surrogates -/
theorem encodeAll_UTF8 (ws : List Nat) (h : ∀ c ∈ ws, c ≤ 0x7fffffff ∧ isSurr c = false) :
    ∃ bs, encodeAll .UTF8 ws = some bs := by
  induction ws with
  | nil => exact ⟨[], rfl⟩
  | cons c cs ih =>
    obtain ⟨b, hb⟩ := ih (fun d hd => h d (by simp [hd]))
    obtain ⟨h1, h2⟩ := h c (by simp)
    have : ∃ a, enc .UTF8 c = some a := by
      have h3 : ¬ c > 0x7fffffff := by omega
      simp only [enc, utf8Enc, h3, h2, decide_false, Bool.or_self, Bool.false_eq_true, ↓reduceIte]
      repeat' split
      all_goals exact ⟨_, rfl⟩
    obtain ⟨a, ha⟩ := this
    exact ⟨a ++ b, encodeAll_cons .UTF8 c cs a b ha hb⟩

/-- **mbsrtowcs = decoding, initial state.**  Room for everything: `ws` and the NUL stored, count `|ws|`, `*src = NULL`,
state initial.  Otherwise the first `len` characters, count `len`, `*src` = source + the bytes of those characters. -/
theorem mbsrtowcs_valid_string (loc : Locale) (ws bs tail : List Nat) (h : encodeAll loc ws = some bs)
    (hz : ∀ c ∈ ws, c ≠ 0) (len : Nat) :
    (ws.length < len → Libc.mbsrtowcs loc false (bs ++ 0 :: tail) len [] = ⟨ws ++ [0], ws.length, none, [], false⟩) ∧
    (len ≤ ws.length → ∃ p, encodeAll loc (ws.take len) = some p ∧
        Libc.mbsrtowcs loc false (bs ++ 0 :: tail) len [] = ⟨ws.take len, len, some p.length, [], false⟩) :=
  mbsrtowcs_valid loc ws bs tail h hz len

/-- the same for `mbstowcs` (which is `mbsrtowcs` on a private pointer and state) -/
theorem mbstowcs_valid_string (loc : Locale) (ws bs tail : List Nat) (h : encodeAll loc ws = some bs)
    (hz : ∀ c ∈ ws, c ≠ 0) (len : Nat) :
    (ws.length < len → Libc.mbstowcs loc false (bs ++ 0 :: tail) len = ⟨ws ++ [0], ws.length, none, [], false⟩) ∧
    (len ≤ ws.length → ∃ p, encodeAll loc (ws.take len) = some p ∧
        Libc.mbstowcs loc false (bs ++ 0 :: tail) len = ⟨ws.take len, len, some p.length, [], false⟩) :=
  mbsrtowcs_valid loc ws bs tail h hz len

/-- **restart:** entered with the state `ps` that an earlier call left behind (bytes of the character the earlier window
cut: a proper prefix of the encoding of the first character still to come), on the rest of the same string -/
theorem mbsrtowcs_valid_string_restart (loc : Locale) (ws bs tail ps mem : List Nat) (h : encodeAll loc ws = some bs)
    (hz : ∀ c ∈ ws, c ≠ 0) (hmem : ps ++ mem = bs ++ 0 :: tail) (hps : PendOK loc ps ws) (len : Nat) (hlen : 0 < len) :
    (ws.length < len → Libc.mbsrtowcs loc false mem len ps = ⟨ws ++ [0], ws.length, none, [], false⟩) ∧
    (len ≤ ws.length → ∃ p, encodeAll loc (ws.take len) = some p ∧
        Libc.mbsrtowcs loc false mem len ps = ⟨ws.take len, len, some (p.length - ps.length), [], false⟩) :=
  mbsrtowcs_valid_st loc ws bs tail ps mem h hz hmem hps len hlen

/-- **wcsrtombs = encoding, limited to whole characters.**  Everything and the NUL fit (`|bs| < len`): `bs` and the NUL
stored, count `|bs|`, `*src = NULL`.  Otherwise: the bytes `p` of the longest prefix `ws.take m` of whole characters with
`|p| ≤ len` (the next character would not fit), count `|p|`, `*src` = source + `m` characters. -/
theorem wcsrtombs_valid_string (loc : Locale) (ws bs tail : List Nat) (h : encodeAll loc ws = some bs)
    (hz : ∀ c ∈ ws, c ≠ 0) (len : Nat) :
    (bs.length < len → Libc.wcsrtombs loc false (ws ++ 0 :: tail) len = ⟨bs ++ [0], bs.length, none, [], false⟩) ∧
    (len ≤ bs.length → ∃ m p, m ≤ ws.length ∧ encodeAll loc (ws.take m) = some p ∧ p.length ≤ len ∧
        (m < ws.length → ∀ p', encodeAll loc (ws.take (m + 1)) = some p' → len < p'.length) ∧
        Libc.wcsrtombs loc false (ws ++ 0 :: tail) len = ⟨p, p.length, some m, [], false⟩) :=
  wcsrtombs_valid loc ws bs tail h hz len

theorem wcstombs_valid_string (loc : Locale) (ws bs tail : List Nat) (h : encodeAll loc ws = some bs)
    (hz : ∀ c ∈ ws, c ≠ 0) (len : Nat) :
    (bs.length < len → Libc.wcstombs loc false (ws ++ 0 :: tail) len = ⟨bs ++ [0], bs.length, none, [], false⟩) ∧
    (len ≤ bs.length → ∃ m p, m ≤ ws.length ∧ encodeAll loc (ws.take m) = some p ∧ p.length ≤ len ∧
        (m < ws.length → ∀ p', encodeAll loc (ws.take (m + 1)) = some p' → len < p'.length) ∧
        Libc.wcstombs loc false (ws ++ 0 :: tail) len = ⟨p, p.length, some m, [], false⟩) :=
  wcsrtombs_valid loc ws bs tail h hz len

/-! Illustrations (tests, not theorems): "a€😀" = 61 | E2 82 AC | F0 9F 98 80.  With `len = 2` glibc's first window is 3
bytes (`61 E2 82`), cuts the euro sign, the second window completes it from the state. -/
private def tup (r : LR) := (r.out, r.ret, r.src, r.st, r.eilseq)
example : tup (Libc.mbsrtowcs .UTF8 false [0x61, 0xE2, 0x82, 0xAC, 0xF0, 0x9F, 0x98, 0x80, 0, 7, 7] 2 []) =
    ([0x61, 0x20AC], 2, some 4, [], false) := by decide
example : tup (Libc.mbsrtowcs .UTF8 false [0x61, 0xE2, 0x82, 0xAC, 0xF0, 0x9F, 0x98, 0x80, 0, 7, 7] 4 []) =
    ([0x61, 0x20AC, 0x1F600, 0], 3, none, [], false) := by decide
example : tup (Libc.wcsrtombs .UTF8 false [0x61, 0x20AC, 0x1F600, 0, 7] 6) = ([0x61, 0xE2, 0x82, 0xAC], 4, some 2, [], false) := by decide
example : PendOK .UTF8 [0xE2, 0x82] [0x20AC, 0x1F600] := Or.inr ⟨0x20AC, [0x1F600], [0xAC], rfl, by decide, by decide, by decide⟩

end SafeC.Props.C15

import SafeC.Proofs.Strcpy
import SafeC.Proofs.CopyWrappers
/-!
# C01 — no write ever lands outside the destination the caller declared

Setting (DESIGN.md §4 C01): every cell is mapped and readable with ARBITRARY contents (an over-read
must not be able to cause an over-write); writable = exactly what the caller declared.
The conclusion is the property itself: the run records no stray write and every cell that was not
declared writable is bit-identical afterwards — for every argument combination, every relative
placement of `src` and `dest` (including overlap), success or failure, both slack configurations.
-/
namespace SafeC.Props.C01
open SafeC Gen

/-- the C01 setting -/
structure Setting (st : St) : Prop where
  all : ∀ a, st.mapped a = true ∧ st.rd a = true
  clean : st.strays = []

/-- the C01 conclusion -/
def Holds (st st' : St) : Prop :=
  (∀ x ∈ st'.strays, x.isWrite = false) ∧ ∀ a, st.wr a = false → st'.data a = st.data a

theorem strcpyG_C01 (max : Nat) (cfg : Cfg) (dest dmax src : Nat) (st : St) (hs : Setting st)
    (hrw : dest ≠ 0 → RW st dest dmax) :
    ∃ code st', exec (strcpyG max cfg dest dmax src none) st = .ok (code, st') ∧ Holds st st' := by
  obtain ⟨code, st', he, hp, _⟩ := strcpyG_safe max cfg dest dmax src st hs.all hrw
  have hstr : st'.strays = [] := by rw [hp.strays, hs.clean]
  exact ⟨code, st', he, by simp [hstr], exec_frame_clean _ st he hs.clean hstr⟩

/-- strcpy_s, object size unknown: all dest/dmax/src (null, zero, huge, overlapping, unterminated) -/
theorem strcpy_s_C01 (cfg : Cfg) (dest dmax src : Nat) (st : St) (hs : Setting st)
    (hrw : dest ≠ 0 → RW st dest dmax) :
    ∃ code st', exec (strcpy_s cfg dest dmax src none) st = .ok (code, st') ∧ Holds st st' :=
  strcpyG_C01 _ cfg dest dmax src st hs hrw

theorem wcscpy_eq (cfg : Cfg) (dest dmax src : Nat) :
    wcscpy_s cfg dest dmax src none = strcpyG RSIZE_MAX_WSTR cfg dest dmax src none := by
  unfold wcscpy_s strcpyG chkDmaxClearW chkDmaxClear chkDmaxClearG failS
  rfl

/-- wcscpy_s: same statement on `wchar_t` cells -/
theorem wcscpy_s_C01 (cfg : Cfg) (dest dmax src : Nat) (st : St) (hs : Setting st)
    (hrw : dest ≠ 0 → RW st dest dmax) :
    ∃ code st', exec (wcscpy_s cfg dest dmax src none) st = .ok (code, st') ∧ Holds st st' := by
  rw [wcscpy_eq]; exact strcpyG_C01 _ cfg dest dmax src st hs hrw

theorem of_safePost {cfg : Cfg} {dest dmax code : Nat} {st st' : St} {p : Prog Nat} (hs : Setting st)
    (he : exec p st = .ok (code, st')) (hp : SafePost cfg dest dmax st st' code) : Holds st st' := by
  have hstr : st'.strays = [] := by rw [hp.strays, hs.clean]
  exact ⟨by simp [hstr], exec_frame_clean _ st he hs.clean hstr⟩

/-- strncpy_s: all dest/dmax/src/slen, all placements and contents -/
theorem strncpy_s_C01 (cfg : Cfg) (dest dmax src slen : Nat) (st : St) (hs : Setting st)
    (hrw : dest ≠ 0 → RW st dest dmax) :
    ∃ code st', exec (strncpy_s cfg dest dmax src slen none none) st = .ok (code, st') ∧ Holds st st' := by
  obtain ⟨code, st', he, hp, _⟩ := strncpyG_safe _ cfg dest dmax src slen st hs.all hrw (Nat.le_refl _)
  exact ⟨code, st', he, of_safePost hs he hp⟩

/-- strcat_s: all arguments, dest terminated or not, all placements -/
theorem strcat_s_C01 (cfg : Cfg) (dest dmax src : Nat) (st : St) (hs : Setting st)
    (hrw : dest ≠ 0 → RW st dest dmax) :
    ∃ code st', exec (strcat_s cfg dest dmax src none) st = .ok (code, st') ∧ Holds st st' := by
  obtain ⟨code, st', he, hp, _⟩ := strcatG_safe _ cfg dest dmax src st hs.all hrw
  exact ⟨code, st', he, of_safePost hs he hp⟩

/-- strncat_s (slen ≠ 0; the slen = 0 path is the `strncat-slen0-handler-eok` finding, it writes
only inside dest as well but is not covered by `SafePost`) -/
theorem strncat_s_C01 (cfg : Cfg) (dest dmax src slen : Nat) (st : St) (hs : Setting st)
    (hrw : dest ≠ 0 → RW st dest dmax) (hslen : slen ≠ 0) :
    ∃ code st', exec (strncat_s cfg dest dmax src slen none none) st = .ok (code, st') ∧ Holds st st' := by
  obtain ⟨code, st', he, hp, _⟩ := strncatG_safe _ cfg dest dmax src slen st hs.all hrw hslen (Nat.le_refl _)
  exact ⟨code, st', he, of_safePost hs he hp⟩

theorem wcscat_eq (cfg : Cfg) (dest dmax src : Nat) :
    wcscat_s cfg dest dmax src none = strcatG RSIZE_MAX_WSTR cfg dest dmax src none := by
  unfold wcscat_s strcatG chkDmaxW chkDmaxClear chkDmaxClearG failS
  rfl

theorem wcscat_s_C01 (cfg : Cfg) (dest dmax src : Nat) (st : St) (hs : Setting st)
    (hrw : dest ≠ 0 → RW st dest dmax) :
    ∃ code st', exec (wcscat_s cfg dest dmax src none) st = .ok (code, st') ∧ Holds st st' := by
  rw [wcscat_eq]
  obtain ⟨code, st', he, hp, _⟩ := strcatG_safe _ cfg dest dmax src st hs.all hrw
  exact ⟨code, st', he, of_safePost hs he hp⟩

/-- non-vacuity: a concrete state meets the hypotheses (dest = 100, dmax = 5, src = 200) -/
def exSt : St :=
  { data := fun a => if a = 200 then 97 else if a = 201 then 98 else 0
    mapped := fun _ => true, rd := fun _ => true
    wr := fun a => decide (100 ≤ a ∧ a < 105) }

example : Setting exSt ∧ ((100 : Nat) ≠ 0 → RW exSt 100 5) := by
  refine ⟨⟨fun _ => ⟨rfl, rfl⟩, rfl⟩, fun _ i hi => ⟨rfl, ?_, rfl⟩⟩
  simp [exSt]; omega

end SafeC.Props.C01

import SafeC.Proofs.Strcpy
/-!
# C01 — no write ever lands outside the destination the caller declared

Setting (DESIGN.md §4 C01): every cell is mapped and readable with ARBITRARY contents (an over-read
must not be able to cause an over-write); writable = exactly what the caller declared.
The conclusion is the property itself: the run records no stray write and every cell that was not
declared writable is bit-identical afterwards — for every argument combination, every relative
placement of `src` and `dest` (including overlap), success or failure, both slack configurations.
-/
namespace SafeC.Props.C01
open SafeC Gen

/-- the C01 setting -/
structure Setting (st : St) : Prop where
  all : ∀ a, st.mapped a = true ∧ st.rd a = true
  clean : st.strays = []

/-- the C01 conclusion -/
def Holds (st st' : St) : Prop :=
  (∀ x ∈ st'.strays, x.isWrite = false) ∧ ∀ a, st.wr a = false → st'.data a = st.data a

theorem strcpyG_C01 (max : Nat) (cfg : Cfg) (dest dmax src : Nat) (st : St) (hs : Setting st)
    (hrw : dest ≠ 0 → RW st dest dmax) :
    ∃ code st', exec (strcpyG max cfg dest dmax src none) st = .ok (code, st') ∧ Holds st st' := by
  obtain ⟨code, st', he, hp, _⟩ := strcpyG_safe max cfg dest dmax src st hs.all hrw
  have hstr : st'.strays = [] := by rw [hp.strays, hs.clean]
  exact ⟨code, st', he, by simp [hstr], exec_frame_clean _ st he hs.clean hstr⟩

/-- strcpy_s, object size unknown: all dest/dmax/src (null, zero, huge, overlapping, unterminated) -/
theorem strcpy_s_C01 (cfg : Cfg) (dest dmax src : Nat) (st : St) (hs : Setting st)
    (hrw : dest ≠ 0 → RW st dest dmax) :
    ∃ code st', exec (strcpy_s cfg dest dmax src none) st = .ok (code, st') ∧ Holds st st' :=
  strcpyG_C01 _ cfg dest dmax src st hs hrw

theorem wcscpy_eq (cfg : Cfg) (dest dmax src : Nat) :
    wcscpy_s cfg dest dmax src none = strcpyG RSIZE_MAX_WSTR cfg dest dmax src none := by
  unfold wcscpy_s strcpyG chkDmaxClearW chkDmaxClear chkDmaxClearG failS
  rfl

/-- wcscpy_s: same statement on `wchar_t` cells -/
theorem wcscpy_s_C01 (cfg : Cfg) (dest dmax src : Nat) (st : St) (hs : Setting st)
    (hrw : dest ≠ 0 → RW st dest dmax) :
    ∃ code st', exec (wcscpy_s cfg dest dmax src none) st = .ok (code, st') ∧ Holds st st' := by
  rw [wcscpy_eq]; exact strcpyG_C01 _ cfg dest dmax src st hs hrw

/-- non-vacuity: a concrete state meets the hypotheses (dest = 100, dmax = 5, src = 200) -/
def exSt : St :=
  { data := fun a => if a = 200 then 97 else if a = 201 then 98 else 0
    mapped := fun _ => true, rd := fun _ => true
    wr := fun a => decide (100 ≤ a ∧ a < 105) }

example : Setting exSt ∧ ((100 : Nat) ≠ 0 → RW exSt 100 5) := by
  refine ⟨⟨fun _ => ⟨rfl, rfl⟩, rfl⟩, fun _ i hi => ⟨rfl, ?_, rfl⟩⟩
  simp [exSt]; omega

end SafeC.Props.C01

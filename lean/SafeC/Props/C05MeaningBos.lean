import SafeC.Props.C05Meaning
/-!
# C05 "meaning" for `memset_s` with a KNOWN object size: `dmax = destbos;` widens `dmax`

With `destbos` known the code replaces `dmax` by it before `n` is compared (known finding `memset-bos-widens-dmax`): an `n` in
`(dmax, destbos]` is not reported.  `_partial` away from that band (and for object sizes within RSIZE_MAX_MEM) + `_witness`.
-/
set_option linter.unusedSimpArgs false
namespace SafeC.Props.C05Meaning
open SafeC Gen Mem SafeC.Props.C05Ev SafeC.Props.C05Mem

/-- src/mem/memset_s.c with the object size `b` of dest known: `memsetCode`'s list plus
`@retval EOVERFLOW when dmax > size of dest` -/
def memsetBosCode (dest dmax value n b : Nat) : Nat :=
  if dest = 0 then ESNULLP
  else if n = 0 then EOK
  else if dmax > RSIZE_MAX_MEM then ESLEMAX
  else if dmax > b then EOVERFLOW
  else if asInt value > 255 then ESLEMAX
  else if n > dmax then (if n > RSIZE_MAX_MEM then ESLEMAX else ESNOSPC)
  else EOK

/- FULL statement (no hypotheses on `b`, `n`), false of the code: `memset_s_bos_meaning_witness` -/
theorem memset_s_bos_code_partial (dest dmax value n b : Nat) (hb : b ≤ RSIZE_MAX_MEM) (hn : n ≤ dmax ∨ n > b) :
    EV (memset_s dest dmax value n (some b)) (Is .mem (memsetBosCode dest dmax value n b)) := by
  by_cases h1 : dest = 0
  · simp only [memset_s, memsetBosCode, h1, if_true]; exact is_failM _ (by decide)
  by_cases h2 : n = 0
  · simp only [memset_s, memsetBosCode, h1, h2, if_true, if_false]; exact is_eok
  by_cases h3 : dmax > b
  · by_cases h3' : dmax > RSIZE_MAX_MEM
    · simp only [memset_s, memsetBosCode, chkDmaxMemB, h1, h2, h3, h3', if_true, if_false]; exact is_failM _ (by decide)
    · simp only [memset_s, memsetBosCode, chkDmaxMemB, h1, h2, h3, h3', if_true, if_false]; exact is_failM _ (by decide)
  have h3' : ¬ dmax > RSIZE_MAX_MEM := by omega
  by_cases h4 : asInt value > 255
  · simp only [memset_s, memsetBosCode, chkDmaxMemB, h1, h2, h3, h3', h4, if_true, if_false]; exact is_failM _ (by decide)
  by_cases h5 : n > b
  · have h5' : n > dmax := by omega
    by_cases h6 : n > RSIZE_MAX_MEM
    · simp only [memset_s, memsetBosCode, chkDmaxMemB, Option.getD_some, h1, h2, h3, h3', h4, h5, h5', h6, if_true, if_false]
      exact is_report_work (q_mem_prim_set _ _ _ _) _ (by decide)
    · simp only [memset_s, memsetBosCode, chkDmaxMemB, Option.getD_some, h1, h2, h3, h3', h4, h5, h5', h6, if_true, if_false]
      exact is_report_work (q_mem_prim_set _ _ _ _) _ (by decide)
  · have h5' : ¬ n > dmax := by omega
    simp only [memset_s, memsetBosCode, chkDmaxMemB, Option.getD_some, h1, h2, h3, h3', h4, h5, h5', if_true, if_false]
    exact is_work_eok (q_mem_prim_set _ _ _ _)

/-- memset_s, object size `b ≤ RSIZE_MAX_MEM` known, `n` not in `(dmax, b]`: the code is `memsetBosCode` of the arguments -/
theorem memset_s_bos_meaning_partial (dest dmax value n b : Nat) (hb : b ≤ RSIZE_MAX_MEM) (hn : n ≤ dmax ∨ n > b)
    (st : St) (r : Nat) (st' : St) (he : exec (memset_s dest dmax value n (some b)) st = .ok (r, st')) :
    r = memsetBosCode dest dmax value n b ∧
      ((r = EOK ∧ st'.events = st.events) ∨ (r ≠ EOK ∧ st'.events = st.events ++ [.handler .mem r])) :=
  Is.sound (memset_s_bos_code_partial dest dmax value n b hb hn) st r st' he

/-- the excluded band: `memset_s(d, 1, 7, 2)` on a 4-byte object: `dmax < n` is not reported, 2 bytes are written -/
theorem memset_s_bos_meaning_witness :
    ((exec (memset_s 100 1 7 2 (some 4))
      { data := fun _ => 0, mapped := fun _ => true, rd := fun _ => true, wr := fun _ => true }).toOption.map
        (fun x => (x.1, x.2.events, x.2.data 101))) = some (EOK, [], 7) ∧ memsetBosCode 100 1 7 2 4 = ESNOSPC := by
  decide

theorem memsetBosCode_eok_iff (dest dmax value n b : Nat) :
    memsetBosCode dest dmax value n b = EOK ↔
      dest ≠ 0 ∧ (n = 0 ∨ (dmax ≤ RSIZE_MAX_MEM ∧ dmax ≤ b ∧ asInt value ≤ 255 ∧ n ≤ dmax)) := by
  have e1 : ESNULLP ≠ EOK := by decide
  have e2 : ESLEMAX ≠ EOK := by decide
  have e3 : ESNOSPC ≠ EOK := by decide
  have e4 : EOVERFLOW ≠ EOK := by decide
  unfold memsetBosCode
  repeat' split
  all_goals simp only [e1, e2, e3, e4, false_iff, true_iff, not_and, not_or, ne_eq]
  all_goals omega

/-- non-vacuity: a reporting run within the hypotheses (dmax above the object size) -/
example : (4 : Nat) ≤ RSIZE_MAX_MEM ∧ ((1 : Nat) ≤ 5 ∨ 1 > 4) ∧ ((exec (memset_s 100 5 7 1 (some 4))
      { data := fun _ => 0, mapped := fun _ => true, rd := fun _ => true, wr := fun _ => true }).toOption.map
        (fun x => (x.1, x.2.events))) = some (memsetBosCode 100 5 7 1 4, [.handler .mem EOVERFLOW]) := by decide

end SafeC.Props.C05Meaning

import SafeC.Proofs.TokAll
import SafeC.Proofs.TokCaller
/-!
# C14, the unterminated-string clause: "with an unterminated string the sequence ends with an error without
touching anything beyond dmax"

* `tok_call_all` — ONE call on EVERY string (terminated inside `dmax`, terminated exactly at `dest[dmax]`, not
  terminated), any `dmax`: the complete outcome as a function of the memory contents.  Hypotheses: every cell mapped and
  readable, delimiter string of 1..`STRTOK_DELIM_MAX_LEN` characters.  (The terminated case `tok_call` is an instance.)

The clause itself is FALSE of the code (known findings `tok-read-before-bound`, `tok-unterm-exit-writes-dest-dmax`,
`tok-nul-at-dmax-accepted`, `tok-unterm-stores-ptr`); the full statement is kept in the comment at `tok_unterm_partial`.

* `tok_unterm_partial` — what holds instead: no NUL in `dest[0..dmax]` INCLUSIVE of `dest[dmax]`.  Then a call either
  cuts a token at a delimiter inside the extent exactly as for a terminated string (and the rest is again unterminated,
  strictly shorter), or it reports `ESUNTERM` exactly once, returns NULL, stores NULL through `ptr`, and changes no cell
  other than `dest[dmax]`;
* `tok_unterm_reads_dmax_witness`, `tok_unterm_writes_dmax_witness`, `tok_nul_at_dmax_accepted_witness` — why the
  clause fails: the call reads `dest[dmax]` (a fault when that cell is unmapped), stores NUL into `dest[dmax]`, and
  accepts a NUL found AT `dest[dmax]` as the terminator (no error, a token is returned);
* `tok_after_error` — after the error (`*ptr == NULL`) every further call is rejected by the entry checks: NULL is
  returned, one handler report, nothing stored, memory untouched — "then an error forever".
-/
namespace SafeC.Props.C14
open SafeC Gen

/-- the "ran out of length while skipping delimiters" exit: `wcstok_s` clears `*dmaxp` and stores `*dest = 0`,
`strtok_s` only stores `*ptr = NULL` -/
def untermSkip (wide : Bool) (a : Nat) : Prog TokOut :=
  if wide then tokUnterm a
  else do
    handlerS ESUNTERM
    pure { ret := 0, ptrv := some 0 }

/-- **one call on every string**: `a` = where the token starts (`skipD`), `b` = where it ends (`findE`) -/
theorem tok_call_all (wide : Bool) (dl p n : Nat) (st : St) (hall : AllRd st) (hd : DelimOK st.data dl) (hp : p ≠ 0) :
    exec (tokBody wide dl p n) st =
      (let a := skipD st.data dl n p
       if st.data a = 0 then .ok ({ ret := 0, dmaxv := some (n - (a - p)), ptrv := some a }, st)
       else if a = p + n then exec (untermSkip wide a) st
       else
         let n' := n - (a - p) - 1
         let b := findE st.data dl n' (a+1)
         if st.data b = 0 then .ok ({ ret := a, dmaxv := some (n' - (b - (a+1))), ptrv := some b }, st)
         else if b = p + n then exec (tokUnterm b) st
         else exec (scan2Cut a b (n' - (b - (a+1)) - 1)) st) := by
  have hb := skipD_bounds st.data dl n p
  unfold tokBody
  simp only [exec_bind, scan1_all hall wide dl n p hd]
  by_cases h0 : st.data (skipD st.data dl n p) = 0
  · simp [h0]
  · simp only [h0, if_false]
    by_cases hend : skipD st.data dl n p = p + n
    · simp only [hend, if_true]
      cases wide <;>
        simp [scan1Unterm, untermSkip, tokUnterm, exec_bind, exec_store, (hall _).1, handlerS]
    · simp only [hend, if_false]
      have hp0 : ¬ skipD st.data dl n p = 0 := by omega
      simp only [hp0, if_false]
      rw [scan2_all hall dl _ _ _ hd]
      have e : (findE st.data dl (n - (skipD st.data dl n p - p) - 1) (skipD st.data dl n p + 1)
          = skipD st.data dl n p + 1 + (n - (skipD st.data dl n p - p) - 1)) =
          (findE st.data dl (n - (skipD st.data dl n p - p) - 1) (skipD st.data dl n p + 1) = p + n) := by
        apply propext; omega
      simp only [e]

/-- the late error exit on a mapped, writable cell -/
theorem exec_tokUnterm (a : Nat) (st : St) (hm : st.mapped a = true) (hw : st.wr a = true) :
    exec (tokUnterm a) st = .ok ({ ret := 0, dmaxv := some 0, ptrv := some 0 },
      { st.upd a 0 with events := st.events ++ [.handler .str ESUNTERM] }) := by
  simp [tokUnterm, exec_bind, exec_store_ok _ _ _ hm hw, handlerS]

/-- no NUL among the `n` cells: both scans stay on non-NUL cells up to the end of the extent -/
theorem scanLen_full_nonzero (m : Nat → Nat) (p n : Nat) (hz : scanLen m p n = n) : ∀ j, j < n → m (p + j) ≠ 0 := by
  intro j hj; exact scanLen_nonzero m p n j (by omega)

/-
The clause as the property states it:

  theorem tok_unterm (hz : scanLen st.data p n = n) :        -- no NUL in dest[0..dmax)
      ∃ o st', exec (tokBody wide dl p n) st = .ok (o, st') ∧ o.ret = 0 ∧ <ESUNTERM reported> ∧
        <no cell at or behind p + n read or written> ∧ <nothing stored through ptr>

is false of the model and of the C code: see the three witnesses below.
-/

/-- **the unterminated clause, as far as it holds**: no NUL in `dest[0..dmax]` including the cell `dest[dmax]` the
loops look at.  The call either returns a token cut at a delimiter strictly inside the extent (state as for a
terminated string; what is handed back describes the rest `[b+1, dest+dmax)`, again without NUL and strictly shorter),
or it is the ESUNTERM exit: NULL returned, NULL stored through `ptr`, exactly one handler report, no cell other than
`dest[dmax]` modified, and `dest[dmax]` keeps its value or holds NUL. -/
theorem tok_unterm_partial (wide : Bool) (dl p n : Nat) (st : St) (hall : AllRd st) (hd : DelimOK st.data dl)
    (hp : p ≠ 0) (hz : scanLen st.data p n = n) (hend : st.data (p + n) ≠ 0)
    (hw : ∀ a, p ≤ a → a ≤ p + n → st.wr a = true) :
    ∃ o st', exec (tokBody wide dl p n) st = .ok (o, st') ∧
      ((o.ret = 0 ∧ o.ptrv = some 0 ∧ st'.events = st.events ++ [.handler .str ESUNTERM] ∧
          (∀ x, x ≠ p + n → st'.data x = st.data x) ∧
          (st'.data (p + n) = st.data (p + n) ∨ st'.data (p + n) = 0)) ∨
       (∃ b, p ≤ o.ret ∧ o.ret < b ∧ b < p + n ∧ isDelim st.data dl (st.data b) = true ∧
          o.ptrv = some (b + 1) ∧ o.dmaxv = some (p + n - (b + 1)) ∧ st' = st.upd b 0)) := by
  have hnz := scanLen_full_nonzero st.data p n hz
  have hcell : ∀ x, p ≤ x → x ≤ p + n → st.data x ≠ 0 := by
    intro x h1 h2
    by_cases hx : x = p + n
    · rw [hx]; exact hend
    · have := hnz (x - p) (by omega)
      have e : p + (x - p) = x := by omega
      rwa [e] at this
  have hb := skipD_bounds st.data dl n p
  rw [tok_call_all wide dl p n st hall hd hp]
  have ha0 : st.data (skipD st.data dl n p) ≠ 0 := hcell _ hb.1 hb.2
  simp only [ha0, if_false]
  by_cases hae : skipD st.data dl n p = p + n
  · -- only delimiters up to the end of the extent
    simp only [hae, if_true]
    have hwr : st.wr (p + n) = true := hw _ (by omega) (by omega)
    cases wide
    · refine ⟨{ ret := 0, ptrv := some 0 }, { st with events := st.events ++ [.handler .str ESUNTERM] }, ?_,
        Or.inl ⟨rfl, rfl, rfl, fun x _ => rfl, Or.inl rfl⟩⟩
      simp [untermSkip, handlerS, exec_bind]
    · refine ⟨_, _, exec_tokUnterm _ st (hall _).1 hwr, Or.inl ⟨rfl, rfl, rfl, ?_, Or.inr (by simp [St.upd])⟩⟩
      intro x hx; simp [St.upd, hx]
  · simp only [hae, if_false]
    have hfb := findE_bounds st.data dl (n - (skipD st.data dl n p - p) - 1) (skipD st.data dl n p + 1)
    have hb0 : st.data (findE st.data dl (n - (skipD st.data dl n p - p) - 1) (skipD st.data dl n p + 1)) ≠ 0 :=
      hcell _ (by omega) (by omega)
    simp only [hb0, if_false]
    by_cases hbe : findE st.data dl (n - (skipD st.data dl n p - p) - 1) (skipD st.data dl n p + 1) = p + n
    · -- the token runs to the end of the extent
      simp only [hbe, if_true]
      have hwr : st.wr (p + n) = true := hw _ (by omega) (by omega)
      refine ⟨_, _, exec_tokUnterm _ st (hall _).1 hwr, Or.inl ⟨rfl, rfl, rfl, ?_, Or.inr (by simp [St.upd])⟩⟩
      intro x hx; simp [St.upd, hx]
    · -- a delimiter inside the extent ends the token
      simp only [hbe, if_false]
      have hwr : st.wr (findE st.data dl (n - (skipD st.data dl n p - p) - 1) (skipD st.data dl n p + 1)) = true :=
        hw _ (by omega) (by omega)
      have hdelim : isDelim st.data dl (st.data (findE st.data dl (n - (skipD st.data dl n p - p) - 1)
          (skipD st.data dl n p + 1))) = true := by
        rcases findE_end st.data dl (n - (skipD st.data dl n p - p) - 1) (skipD st.data dl n p + 1) with h | h | h
        · omega
        · exact absurd h hb0
        · exact h
      refine ⟨{ ret := skipD st.data dl n p,
                dmaxv := some (n - (skipD st.data dl n p - p) - 1 -
                  (findE st.data dl (n - (skipD st.data dl n p - p) - 1) (skipD st.data dl n p + 1) -
                    (skipD st.data dl n p + 1)) - 1),
                ptrv := some (findE st.data dl (n - (skipD st.data dl n p - p) - 1) (skipD st.data dl n p + 1) + 1) },
        st.upd (findE st.data dl (n - (skipD st.data dl n p - p) - 1) (skipD st.data dl n p + 1)) 0, ?_,
        Or.inr ⟨findE st.data dl (n - (skipD st.data dl n p - p) - 1) (skipD st.data dl n p + 1),
        ?_, ?_, ?_, hdelim, ?_, ?_, rfl⟩⟩
      · simp [scan2Cut, exec_bind, exec_store_ok _ _ _ (hall _).1 hwr]
      · exact hb.1
      · show skipD st.data dl n p < _; omega
      · omega
      · rfl
      · show some _ = some _; congr 1; omega

/-! ## why the clause fails: kernel-evaluated runs of the model (the C code does the same: correspondence run) -/

/-- "ab" at 100 with NO terminator in the two declared cells, delimiter string "," at 200; cell 102 = `dest[dmax]` -/
def unMem (c102 : Nat) : Nat → Nat := fun a =>
  if a = 100 then 97 else if a = 101 then 98 else if a = 102 then c102 else if a = 200 then 44 else 0

/-- `dest[dmax]` unmapped (the string ends at a page boundary) -/
def unStPage : St :=
  { data := unMem 0, mapped := fun a => a ≠ 102, rd := fun a => a ≠ 102, wr := fun a => 100 ≤ a ∧ a < 102 }

/-- **the scan READS `dest[dmax]`**: with that cell unmapped both tokenizers fault on a read of it
(`tok-read-before-bound`) -/
theorem tok_unterm_reads_dmax_witness :
    (match exec (strtok_s 100 (some 2) 200 (some 0) none) unStPage with
      | .error f => some f | .ok _ => none) = some (.read 102) ∧
    (match exec (wcstok_s 100 (some 2) 200 (some 0) none) unStPage with
      | .error f => some f | .ok _ => none) = some (.read 102) := by
  constructor <;> decide

/-- everything mapped; the caller declared the extent `[100, 102)` readable and writable and the delimiter string
readable; `dest[dmax]` holds 120 ('x') -/
def unStX : St :=
  { data := unMem 120, mapped := fun _ => true,
    rd := fun a => (100 ≤ a ∧ a < 102) ∨ (200 ≤ a ∧ a < 202), wr := fun a => 100 ≤ a ∧ a < 102 }

/-- **the ESUNTERM exit STORES NUL into `dest[dmax]`** (recorded as a stray write by the machine), and stores NULL
through `ptr` (`tok-unterm-exit-writes-dest-dmax`, `tok-unterm-stores-ptr`) -/
theorem tok_unterm_writes_dmax_witness :
    (match exec (strtok_s 100 (some 2) 200 (some 0) none) unStX with
      | .ok (o, st') => (o, st'.data 102, st'.strays, st'.events)
      | .error _ => (default, 0, [], [])) =
      ({ ret := 0, dmaxv := some 0, ptrv := some 0 }, 0, [.rd 102, .wr 102], [.handler .str ESUNTERM]) ∧
    (match exec (wcstok_s 100 (some 2) 200 (some 0) none) unStX with
      | .ok (o, st') => (o, st'.data 102, st'.strays, st'.events)
      | .error _ => (default, 0, [], [])) =
      ({ ret := 0, dmaxv := some 0, ptrv := some 0 }, 0, [.rd 102, .wr 102], [.handler .str ESUNTERM]) := by
  constructor <;> decide

/-- `dest[dmax]` holds NUL: no NUL inside the two declared cells, one exactly behind them -/
def unStNul : St :=
  { data := unMem 0, mapped := fun _ => true, rd := fun _ => true, wr := fun a => 100 ≤ a ∧ a < 102 }

/-- **a NUL found AT `dest[dmax]` is accepted as the terminator**: the string is unterminated within `dmax = 2`, yet
no error is reported and the token is returned (`tok-nul-at-dmax-accepted`) -/
theorem tok_nul_at_dmax_accepted_witness :
    scanLen unStNul.data 100 2 = 2 ∧
    (match exec (strtok_s 100 (some 2) 200 (some 0) none) unStNul with
      | .ok (o, st') => (o, st'.events)
      | .error _ => (default, [])) = ({ ret := 100, dmaxv := some 0, ptrv := some 102 }, []) ∧
    (match exec (wcstok_s 100 (some 2) 200 (some 0) none) unStNul with
      | .ok (o, st') => (o, st'.events)
      | .error _ => (default, [])) = ({ ret := 100, dmaxv := some 0, ptrv := some 102 }, []) := by
  refine ⟨by decide, by decide, by decide⟩

/-- non-vacuity of `tok_unterm_partial`: its hypotheses hold for "ab" + 'x' with the three cells writable -/
example : scanLen (unMem 120) 100 2 = 2 ∧ unMem 120 (100 + 2) ≠ 0 ∧ DelimOK (unMem 120) 200 :=
  ⟨by decide, by decide, by unfold DelimOK; decide⟩

/-! ## after the error: an error forever -/

/-- **once `*ptr` is NULL every continuation call is rejected by the entry checks**: NULL returned, nothing stored
through `ptr` / `dmaxp` (so the caller's variables stay as they are and the next call is rejected again), exactly one
handler report, memory untouched. Any remaining length, any delimiter pointer, both functions. -/
theorem tok_after_error (wide : Bool) (rem dl : Nat) (db : Bos) (st : St) :
    ∃ code, exec (tokFn wide 0 (some rem) dl (some 0) db) st =
      .ok ({ ret := 0 }, { st with events := st.events ++ [.handler .str code] }) := by
  cases wide
  · simp only [tokFn, Bool.false_eq_true, if_false, strtok_s]
    by_cases h1 : rem = 0
    · exact ⟨ESZEROL, by simp [h1, tokFail, handlerS, exec_bind]⟩
    · by_cases h2 : dl = 0
      · exact ⟨ESNULLP, by simp [h1, h2, tokFail, handlerS, exec_bind]⟩
      · exact ⟨ESNULLP, by simp [h1, h2, tokFail, handlerS, exec_bind]⟩
  · simp only [tokFn, if_true, wcstok_s]
    by_cases h1 : rem = 0
    · exact ⟨ESZEROL, by simp [h1, tokFail, handlerS, exec_bind]⟩
    · by_cases h3 : rem > RSIZE_MAX_WSTR
      · exact ⟨ESLEMAX, by simp [h1, h3, tokFail, handlerS, exec_bind]⟩
      · by_cases h2 : dl = 0
        · exact ⟨ESNULLP, by simp [h1, h2, h3, tokFail, handlerS, exec_bind]⟩
        · exact ⟨ESNULLP, by simp [h1, h2, h3, tokFail, handlerS, exec_bind]⟩

/-- the same for a whole tail of calls: `k` further calls after the error return NULL `k` times, store nothing, and
leave the memory contents as they are -/
theorem tok_error_forever (wide : Bool) (db : Bos) (dls : List Nat) (rem : Nat) (st : St) :
    ∃ st', exec (nextCalls wide db dls 0 rem) st = .ok (dls.map (fun _ => { ret := 0 }), st') ∧
      st'.data = st.data ∧ st'.strays = st.strays := by
  induction dls generalizing st with
  | nil => exact ⟨st, rfl, rfl, rfl⟩
  | cons dl rest ih =>
    obtain ⟨code, he⟩ := tok_after_error wide rem dl db st
    obtain ⟨st', he', hd', hs'⟩ := ih { st with events := st.events ++ [.handler .str code] }
    refine ⟨st', ?_, hd', hs'⟩
    simp only [nextCalls, exec_bind, he, Option.getD_none, he', List.map_cons]
    rfl

end SafeC.Props.C14

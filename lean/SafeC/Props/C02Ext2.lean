import SafeC.Props.C02Ext1
/-!
# C02 for the queries of `Models/Query2.lean`

`strfirstchar_s strlastchar_s strfirstdiff_s strfirstsame_s strlastdiff_s strlastsame_s`, the nine `stris*_s`
predicates, `wcscmp_s wcsncmp_s wcsstr_s`.  Same setting and same three kinds of statement as `C02Ext1.lean`:
every one of these loops is written `while (*dest && dmax)` (read before bound) — and three predicates
(`strisdigit_s strisuppercase_s strismixedcase_s`) never look at `dmax` at all.
-/
namespace SafeC.Props.C02
open SafeC Gen

/-- **strfirstchar_s**: the string at dest, at most `dmax + 1` cells -/
theorem strfirstchar_s_C02_tight_partial (dest dmax c : Nat) (db : Bos) (st : St)
    (hd : dest ≠ 0 → StrRd st dest (dmax+1)) :
    Runs (strfirstchar_s dest dmax c db) st :=
  runs_of_AccD (strfirstchar_s_acc dest dmax c db hd)

/-- **strfirstchar_s**, C02 for a dest terminated inside `dmax` -/
theorem strfirstchar_s_C02_partial (dest dmax c : Nat) (db : Bos) (st : St)
    (hd : dest ≠ 0 → RD st dest dmax) (ht : dest ≠ 0 → Term st dest dmax) :
    Runs (strfirstchar_s dest dmax c db) st :=
  strfirstchar_s_C02_tight_partial dest dmax c db st (fun h => StrRd.of_RD_term (hd h) (ht h) _)

/-- **strlastchar_s**: the string at dest, at most `dmax + 1` cells -/
theorem strlastchar_s_C02_tight_partial (dest dmax c : Nat) (db : Bos) (st : St)
    (hd : dest ≠ 0 → StrRd st dest (dmax+1)) :
    Runs (strlastchar_s dest dmax c db) st :=
  runs_of_AccD (strlastchar_s_acc dest dmax c db hd)

/-- **strlastchar_s**, C02 for a dest terminated inside `dmax` -/
theorem strlastchar_s_C02_partial (dest dmax c : Nat) (db : Bos) (st : St)
    (hd : dest ≠ 0 → RD st dest dmax) (ht : dest ≠ 0 → Term st dest dmax) :
    Runs (strlastchar_s dest dmax c db) st :=
  strlastchar_s_C02_tight_partial dest dmax c db st (fun h => StrRd.of_RD_term (hd h) (ht h) _)

/-- **strfirstdiff_s**: both strings up to their terminators, at most `dmax + 1` cells of each -/
theorem strfirstdiff_s_C02_tight_partial (dest dmax src : Nat) (db : Bos) (st : St)
    (hd : dest ≠ 0 → StrRd st dest (dmax+1)) (hs : src ≠ 0 → StrRd st src (dmax+1)) :
    Runs (strfirstdiff_s dest dmax src db) st :=
  runs_of_AccD (pairFn_acc false true ESNODIFF dest dmax src db hd hs)

/-- **strfirstdiff_s**, C02 for a dest terminated inside `dmax` (`src`: a string, declared to its terminator) -/
theorem strfirstdiff_s_C02_partial (dest dmax src : Nat) (db : Bos) (st : St)
    (hd : dest ≠ 0 → RD st dest dmax) (ht : dest ≠ 0 → Term st dest dmax) (hs : src ≠ 0 → ∀ n, StrRd st src n) :
    Runs (strfirstdiff_s dest dmax src db) st :=
  strfirstdiff_s_C02_tight_partial dest dmax src db st (fun h => StrRd.of_RD_term (hd h) (ht h) _) (fun h => hs h _)

/-- **strfirstsame_s**: both strings up to their terminators, at most `dmax + 1` cells of each -/
theorem strfirstsame_s_C02_tight_partial (dest dmax src : Nat) (db : Bos) (st : St)
    (hd : dest ≠ 0 → StrRd st dest (dmax+1)) (hs : src ≠ 0 → StrRd st src (dmax+1)) :
    Runs (strfirstsame_s dest dmax src db) st :=
  runs_of_AccD (pairFn_acc true true ESNOTFND dest dmax src db hd hs)

/-- **strfirstsame_s**, C02 for a dest terminated inside `dmax` (`src`: a string, declared to its terminator) -/
theorem strfirstsame_s_C02_partial (dest dmax src : Nat) (db : Bos) (st : St)
    (hd : dest ≠ 0 → RD st dest dmax) (ht : dest ≠ 0 → Term st dest dmax) (hs : src ≠ 0 → ∀ n, StrRd st src n) :
    Runs (strfirstsame_s dest dmax src db) st :=
  strfirstsame_s_C02_tight_partial dest dmax src db st (fun h => StrRd.of_RD_term (hd h) (ht h) _) (fun h => hs h _)

/-- **strlastdiff_s**: both strings up to their terminators, at most `dmax + 1` cells of each -/
theorem strlastdiff_s_C02_tight_partial (dest dmax src : Nat) (db : Bos) (st : St)
    (hd : dest ≠ 0 → StrRd st dest (dmax+1)) (hs : src ≠ 0 → StrRd st src (dmax+1)) :
    Runs (strlastdiff_s dest dmax src db) st :=
  runs_of_AccD (pairFn_acc false false ESNODIFF dest dmax src db hd hs)

/-- **strlastdiff_s**, C02 for a dest terminated inside `dmax` (`src`: a string, declared to its terminator) -/
theorem strlastdiff_s_C02_partial (dest dmax src : Nat) (db : Bos) (st : St)
    (hd : dest ≠ 0 → RD st dest dmax) (ht : dest ≠ 0 → Term st dest dmax) (hs : src ≠ 0 → ∀ n, StrRd st src n) :
    Runs (strlastdiff_s dest dmax src db) st :=
  strlastdiff_s_C02_tight_partial dest dmax src db st (fun h => StrRd.of_RD_term (hd h) (ht h) _) (fun h => hs h _)

/-- **strlastsame_s**: both strings up to their terminators, at most `dmax + 1` cells of each -/
theorem strlastsame_s_C02_tight_partial (dest dmax src : Nat) (db : Bos) (st : St)
    (hd : dest ≠ 0 → StrRd st dest (dmax+1)) (hs : src ≠ 0 → StrRd st src (dmax+1)) :
    Runs (strlastsame_s dest dmax src db) st :=
  runs_of_AccD (pairFn_acc true false ESNOTFND dest dmax src db hd hs)

/-- **strlastsame_s**, C02 for a dest terminated inside `dmax` (`src`: a string, declared to its terminator) -/
theorem strlastsame_s_C02_partial (dest dmax src : Nat) (db : Bos) (st : St)
    (hd : dest ≠ 0 → RD st dest dmax) (ht : dest ≠ 0 → Term st dest dmax) (hs : src ≠ 0 → ∀ n, StrRd st src n) :
    Runs (strlastsame_s dest dmax src db) st :=
  strlastsame_s_C02_tight_partial dest dmax src db st (fun h => StrRd.of_RD_term (hd h) (ht h) _) (fun h => hs h _)

/-- **strisalphanumeric_s**: the string at dest, at most `dmax + 1` cells -/
theorem strisalphanumeric_s_C02_tight_partial (dest dmax : Nat) (db : Bos) (st : St)
    (hd : dest ≠ 0 → StrRd st dest (dmax+1)) :
    Runs (strisalphanumeric_s dest dmax db) st :=
  runs_of_AccD (predFn_bounded_acc isAlnumC dest dmax db hd)

/-- **strisalphanumeric_s**, C02 for a dest terminated inside `dmax` -/
theorem strisalphanumeric_s_C02_partial (dest dmax : Nat) (db : Bos) (st : St)
    (hd : dest ≠ 0 → RD st dest dmax) (ht : dest ≠ 0 → Term st dest dmax) :
    Runs (strisalphanumeric_s dest dmax db) st :=
  strisalphanumeric_s_C02_tight_partial dest dmax db st (fun h => StrRd.of_RD_term (hd h) (ht h) _)

/-- **strishex_s**: the string at dest, at most `dmax + 1` cells -/
theorem strishex_s_C02_tight_partial (dest dmax : Nat) (db : Bos) (st : St)
    (hd : dest ≠ 0 → StrRd st dest (dmax+1)) :
    Runs (strishex_s dest dmax db) st :=
  runs_of_AccD (predFn_bounded_acc isHexC dest dmax db hd)

/-- **strishex_s**, C02 for a dest terminated inside `dmax` -/
theorem strishex_s_C02_partial (dest dmax : Nat) (db : Bos) (st : St)
    (hd : dest ≠ 0 → RD st dest dmax) (ht : dest ≠ 0 → Term st dest dmax) :
    Runs (strishex_s dest dmax db) st :=
  strishex_s_C02_tight_partial dest dmax db st (fun h => StrRd.of_RD_term (hd h) (ht h) _)

/-- **strislowercase_s**: the string at dest, at most `dmax + 1` cells -/
theorem strislowercase_s_C02_tight_partial (dest dmax : Nat) (db : Bos) (st : St)
    (hd : dest ≠ 0 → StrRd st dest (dmax+1)) :
    Runs (strislowercase_s dest dmax db) st :=
  runs_of_AccD (predFn_bounded_acc isLowerC dest dmax db hd)

/-- **strislowercase_s**, C02 for a dest terminated inside `dmax` -/
theorem strislowercase_s_C02_partial (dest dmax : Nat) (db : Bos) (st : St)
    (hd : dest ≠ 0 → RD st dest dmax) (ht : dest ≠ 0 → Term st dest dmax) :
    Runs (strislowercase_s dest dmax db) st :=
  strislowercase_s_C02_tight_partial dest dmax db st (fun h => StrRd.of_RD_term (hd h) (ht h) _)

/-- **strisdigit_s**: `while (*dest)` — the string at dest to its terminator, `dmax` is decremented but never tested -/
theorem strisdigit_s_C02_tight_partial (dest dmax : Nat) (db : Bos) (st : St)
    (hd : dest ≠ 0 → StrRd st dest scanFuel2) :
    Runs (strisdigit_s dest dmax db) st :=
  runs_of_AccD (predFn_unbounded_acc isDigitC dest dmax db hd)

/-- **strisdigit_s**, C02 for a dest terminated inside `dmax` -/
theorem strisdigit_s_C02_partial (dest dmax : Nat) (db : Bos) (st : St)
    (hd : dest ≠ 0 → RD st dest dmax) (ht : dest ≠ 0 → Term st dest dmax) :
    Runs (strisdigit_s dest dmax db) st :=
  strisdigit_s_C02_tight_partial dest dmax db st (fun h => StrRd.of_RD_term (hd h) (ht h) _)

/-- **strismixedcase_s**: `while (*dest)` — the string at dest to its terminator, `dmax` is decremented but never tested -/
theorem strismixedcase_s_C02_tight_partial (dest dmax : Nat) (db : Bos) (st : St)
    (hd : dest ≠ 0 → StrRd st dest scanFuel2) :
    Runs (strismixedcase_s dest dmax db) st :=
  runs_of_AccD (predFn_unbounded_acc isAlphaC dest dmax db hd)

/-- **strismixedcase_s**, C02 for a dest terminated inside `dmax` -/
theorem strismixedcase_s_C02_partial (dest dmax : Nat) (db : Bos) (st : St)
    (hd : dest ≠ 0 → RD st dest dmax) (ht : dest ≠ 0 → Term st dest dmax) :
    Runs (strismixedcase_s dest dmax db) st :=
  strismixedcase_s_C02_tight_partial dest dmax db st (fun h => StrRd.of_RD_term (hd h) (ht h) _)

/-- **strisuppercase_s**: `while (*dest)` — the string at dest to its terminator, `dmax` is decremented but never tested -/
theorem strisuppercase_s_C02_tight_partial (dest dmax : Nat) (db : Bos) (st : St)
    (hd : dest ≠ 0 → StrRd st dest scanFuel2) :
    Runs (strisuppercase_s dest dmax db) st :=
  runs_of_AccD (predFn_unbounded_acc isUpperC dest dmax db hd)

/-- **strisuppercase_s**, C02 for a dest terminated inside `dmax` -/
theorem strisuppercase_s_C02_partial (dest dmax : Nat) (db : Bos) (st : St)
    (hd : dest ≠ 0 → RD st dest dmax) (ht : dest ≠ 0 → Term st dest dmax) :
    Runs (strisuppercase_s dest dmax db) st :=
  strisuppercase_s_C02_tight_partial dest dmax db st (fun h => StrRd.of_RD_term (hd h) (ht h) _)

/-- **strisascii_s**: the string at dest, at most `dmax + 1` cells -/
theorem strisascii_s_C02_tight_partial (dest dmax : Nat) (db : Bos) (st : St)
    (hd : dest ≠ 0 → StrRd st dest (dmax+1)) :
    Runs (strisascii_s dest dmax db) st :=
  runs_of_AccD (strisascii_s_acc dest dmax db hd)

/-- **strisascii_s**, C02 for a dest terminated inside `dmax` -/
theorem strisascii_s_C02_partial (dest dmax : Nat) (db : Bos) (st : St)
    (hd : dest ≠ 0 → RD st dest dmax) (ht : dest ≠ 0 → Term st dest dmax) :
    Runs (strisascii_s dest dmax db) st :=
  strisascii_s_C02_tight_partial dest dmax db st (fun h => StrRd.of_RD_term (hd h) (ht h) _)

/-- **strispassword_s**: `while (*dest) { if (dmax == 0) …` — the string at dest, at most `dmax + 1` cells -/
theorem strispassword_s_C02_tight_partial (dest dmax : Nat) (db : Bos) (st : St)
    (hd : dest ≠ 0 → StrRd st dest (dmax+1)) :
    Runs (strispassword_s dest dmax db) st :=
  runs_of_AccD (strispassword_s_acc dest dmax db hd)

/-- **strispassword_s**, C02 for a dest terminated inside `dmax` -/
theorem strispassword_s_C02_partial (dest dmax : Nat) (db : Bos) (st : St)
    (hd : dest ≠ 0 → RD st dest dmax) (ht : dest ≠ 0 → Term st dest dmax) :
    Runs (strispassword_s dest dmax db) st :=
  strispassword_s_C02_tight_partial dest dmax db st (fun h => StrRd.of_RD_term (hd h) (ht h) _)

/-! ## wide -/

/-- **wcscmp_s**: each string up to its terminator, at most `dmax + 1` cells of dest and `smax + 1` of src
(the loop header reads both before it looks at either counter, `*resultp = *dest - *src` reads them again) -/
theorem wcscmp_s_C02_tight_partial (dest dmax src smax : Nat) (db sb : Bos) (st : St)
    (hd : dest ≠ 0 → StrRd st dest (dmax+1)) (hs : src ≠ 0 → StrRd st src (smax+1)) :
    Runs (wcscmp_s dest dmax src smax db sb) st :=
  runs_of_AccD (wcscmpG_acc false dest dmax src smax 0 db sb hd hs)

theorem wcscmp_s_C02_partial (dest dmax src smax : Nat) (db sb : Bos) (st : St)
    (hd : dest ≠ 0 → RD st dest dmax) (ht : dest ≠ 0 → Term st dest dmax)
    (hs : src ≠ 0 → StrRd st src smax) (hts : src ≠ 0 → Term st src smax) :
    Runs (wcscmp_s dest dmax src smax db sb) st :=
  wcscmp_s_C02_tight_partial dest dmax src smax db sb st (fun h => StrRd.of_RD_term (hd h) (ht h) _)
    (fun h => StrRd.of_term (hs h) (hts h) _)

/-- **wcsncmp_s** -/
theorem wcsncmp_s_C02_tight_partial (dest dmax src smax count : Nat) (db sb : Bos) (st : St)
    (hd : dest ≠ 0 → StrRd st dest (dmax+1)) (hs : src ≠ 0 → StrRd st src (smax+1)) :
    Runs (wcsncmp_s dest dmax src smax count db sb) st :=
  runs_of_AccD (wcscmpG_acc true dest dmax src smax count db sb hd hs)

theorem wcsncmp_s_C02_partial (dest dmax src smax count : Nat) (db sb : Bos) (st : St)
    (hd : dest ≠ 0 → RD st dest dmax) (ht : dest ≠ 0 → Term st dest dmax)
    (hs : src ≠ 0 → StrRd st src smax) (hts : src ≠ 0 → Term st src smax) :
    Runs (wcsncmp_s dest dmax src smax count db sb) st :=
  wcsncmp_s_C02_tight_partial dest dmax src smax count db sb st (fun h => StrRd.of_RD_term (hd h) (ht h) _)
    (fun h => StrRd.of_term (hs h) (hts h) _)

/-- **wcsstr_s**: dest within `dmax + 1` cells, the needle within `slen + 1` (`src[i]` is read before `!len`) -/
theorem wcsstr_s_C02_tight_partial (dest dmax src slen : Nat) (db sb : Bos) (st : St)
    (hd : dest ≠ 0 → StrRd st dest (dmax+1)) (hs : src ≠ 0 → StrRd st src (slen+1)) :
    Runs (wcsstr_s dest dmax src slen db sb) st :=
  runs_of_AccD (wcsstr_s_acc dest dmax src slen db sb hd hs)

theorem wcsstr_s_C02_partial (dest dmax src slen : Nat) (db sb : Bos) (st : St)
    (hd : dest ≠ 0 → RD st dest dmax) (ht : dest ≠ 0 → Term st dest dmax)
    (hs : src ≠ 0 → StrRd st src slen) (hts : src ≠ 0 → Term st src slen) :
    Runs (wcsstr_s dest dmax src slen db sb) st :=
  wcsstr_s_C02_tight_partial dest dmax src slen db sb st (fun h => StrRd.of_RD_term (hd h) (ht h) _)
    (fun h => StrRd.of_term (hs h) (hts h) _)

/-! ## witness -/

/-- class `dmax-ignored` (`while (*dest)` of strisdigit_s): `dmax = 1`, the three mapped cells hold digits and no
terminator: the scan leaves the declared cell, walks over the other two and faults on the fourth -/
theorem dmax_ignored_witness :
    exec (strisdigit_s 100 1 none) (win (fun a => if 100 ≤ a ∧ a < 103 then 49 else 0) 100 103 0 0) =
      .error (.read 103) := faultOf_ok (by decide)

/-- the same array with `strisascii_s` (bounded loop): only `dest[dmax]`, the one cell behind, is touched -/
theorem read_before_bound_pred_witness :
    exec (strisascii_s 100 1 none) (win (fun a => if 100 ≤ a ∧ a < 103 then 49 else 0) 100 101 0 0) =
      .error (.read 101) := faultOf_ok (by decide)

/-- non-vacuity: "12\0" at 100 with `dmax = 5` declared cells, nothing else mapped -/
example : ∃ st : St, RD st 100 5 ∧ Term st 100 5 ∧ StrRd st 100 scanFuel2 ∧ st.mapped 105 = false := by
  refine ⟨win (fun a => if a = 100 then 49 else if a = 101 then 50 else 0) 100 105 0 0, ?_, ?_, ?_, by decide⟩
  · intro i hi; simp [win]; omega
  · exact ⟨2, by omega, by simp [win]⟩
  · exact StrRd.of_RD_term (n := 5) (fun i hi => by simp [win]; omega) ⟨2, by omega, by simp [win]⟩ _

end SafeC.Props.C02

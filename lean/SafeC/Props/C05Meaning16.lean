import SafeC.Props.C05Meaning
/-!
# C05 "meaning" for `memcpy16_s memcpy32_s memmove16_s memmove32_s` (object sizes unknown; `dmax` in bytes, `slen` in elements)

The byte size `slen * 2` / `slen * 4` is computed without an overflow check (known finding `mem-size-multiplication-wraps`):
`_partial` for element counts that do not wrap + `_witness` at the first one that does.
-/
set_option linter.unusedSimpArgs false
namespace SafeC.Props.C05Meaning
open SafeC Gen Mem SafeC.Props.C05Ev SafeC.Props.C05Mem

/-- src/extmem/memmove16_s.c: `@retval EOK when operation is successful or slen = 0`, `ESNULLP when dest/src is NULL POINTER`,
`ESZEROL when dmax = ZERO`, `ESLEMAX when dmax > RSIZE_MAX_MEM or slen > RSIZE_MAX_MEM16`, `ESNOSPC when 2*slen > dmax` -/
def memmove16Code (dest dmax src slen : Nat) : Nat :=
  if slen = 0 then EOK
  else if dest = 0 then ESNULLP
  else if dmax = 0 then ESZEROL
  else if dmax > RSIZE_MAX_MEM then ESLEMAX
  else if src = 0 then ESNULLP
  else if slen * 2 > dmax then (if slen > RSIZE_MAX_MEM16 then ESLEMAX else ESNOSPC)
  else EOK

/- FULL statement (no bound on `slen`), false of the code: `memmove16_s_meaning_witness` -/
theorem memmove16_s_code_partial (dest dmax src slen : Nat) (hs : slen < 2 ^ 63) :
    EV (memmove16_s dest dmax src slen none none) (Is .mem (memmove16Code dest dmax src slen)) := by
  have hsm : (slen * 2) % U64 = slen * 2 := by
    show (slen * 2) % 2 ^ 64 = _; exact Nat.mod_eq_of_lt (by omega)
  have hm : RSIZE_MAX_MEM = 2 * RSIZE_MAX_MEM16 := by decide
  by_cases h1 : slen = 0
  · simp only [memmove16_s, memmove16Code, h1, if_true]; exact is_eok
  by_cases h2 : dest = 0
  · simp only [memmove16_s, memmove16Code, h1, h2, if_true, if_false]; exact is_failM _ (by decide)
  by_cases h3 : dmax = 0
  · simp only [memmove16_s, memmove16Code, h1, h2, h3, if_true, if_false]; exact is_failM _ (by decide)
  by_cases h4 : dmax > RSIZE_MAX_MEM
  · simp only [memmove16_s, memmove16Code, chkDmaxMemB, h1, h2, h3, h4, if_true, if_false]; exact is_failM _ (by decide)
  by_cases h5 : src = 0
  · simp only [memmove16_s, memmove16Code, chkDmaxMemB, Option.getD_none, h1, h2, h3, h4, h5, if_true, if_false]
    exact is_handleMemErrorB _ _ _ _ (by decide)
  by_cases h6 : slen * 2 > dmax
  · by_cases h7 : slen > RSIZE_MAX_MEM16
    · have h7' : slen * 2 > RSIZE_MAX_MEM := by omega
      simp only [memmove16_s, memmove16Code, chkDmaxMemB, Option.getD_none, hsm, h1, h2, h3, h4, h5, h6, h7, h7', if_true, if_false]
      exact is_handleMemErrorB _ _ _ _ (by decide)
    · have h7' : ¬ slen * 2 > RSIZE_MAX_MEM := by omega
      simp only [memmove16_s, memmove16Code, chkDmaxMemB, Option.getD_none, hsm, h1, h2, h3, h4, h5, h6, h7, h7', if_true, if_false]
      exact is_handleMemErrorB _ _ _ _ (by decide)
  · simp only [memmove16_s, memmove16Code, chkDmaxMemB, Option.getD_none, exceeds, Bool.false_eq_true, hsm, h1, h2, h3, h4, h5, h6, if_false]
    exact is_work_eok (q_mem_prim_move16 _ _ _)

/-- memmove16_s, object sizes unknown, `slen < 2^63`: the code is `memmove16Code` of the arguments -/
theorem memmove16_s_meaning_partial (dest dmax src slen : Nat) (hs : slen < 2 ^ 63) (st : St) (r : Nat) (st' : St)
    (he : exec (memmove16_s dest dmax src slen none none) st = .ok (r, st')) :
    r = memmove16Code dest dmax src slen ∧
      ((r = EOK ∧ st'.events = st.events) ∨ (r ≠ EOK ∧ st'.events = st.events ++ [.handler .mem r])) :=
  Is.sound (memmove16_s_code_partial dest dmax src slen hs) st r st' he

/-- the excluded point: `slen = 2^63 + 1` wraps to 2 bytes: EOK without a report (doc comment: ESLEMAX) -/
theorem memmove16_s_meaning_witness :
    ((exec (memmove16_s 100 8 200 (2 ^ 63 + 1) none none)
      { data := fun _ => 7, mapped := fun _ => true, rd := fun _ => true, wr := fun _ => true }).toOption.map
        (fun x => (x.1, x.2.events))) = some (EOK, []) ∧ memmove16Code 100 8 200 (2 ^ 63 + 1) = ESLEMAX := by
  decide

theorem memmove16Code_eok_iff (dest dmax src slen : Nat) :
    memmove16Code dest dmax src slen = EOK ↔
      slen = 0 ∨ (dest ≠ 0 ∧ dmax ≠ 0 ∧ dmax ≤ RSIZE_MAX_MEM ∧ src ≠ 0 ∧ slen * 2 ≤ dmax
        ) := by
  have e1 : ESNULLP ≠ EOK := by decide
  have e2 : ESLEMAX ≠ EOK := by decide
  have e3 : ESNOSPC ≠ EOK := by decide
  have e4 : ESZEROL ≠ EOK := by decide
  have e5 : ESOVRLP ≠ EOK := by decide
  unfold memmove16Code
  repeat' split
  all_goals simp only [e1, e2, e3, e4, e5, false_iff, true_iff, not_and, not_or, ne_eq, Bool.not_eq_false]
  all_goals first | omega | grind

/-- non-vacuity: a reporting run within the hypothesis -/
example : (5 : Nat) < 2 ^ 63 ∧ ((exec (memmove16_s 100 8 200 5 none none)
      { data := fun _ => 7, mapped := fun _ => true, rd := fun _ => true, wr := fun _ => true }).toOption.map
        (fun x => (x.1, x.2.events))) = some (memmove16Code 100 8 200 5, [.handler .mem ESNOSPC]) := by decide

/-- src/extmem/memmove32_s.c: `@retval EOK when operation is successful or slen = 0`, `ESNULLP when dest/src is NULL POINTER`,
`ESZEROL when dmax = ZERO`, `ESLEMAX when dmax > RSIZE_MAX_MEM or slen > RSIZE_MAX_MEM32`, `ESNOSPC when 4*slen > dmax` -/
def memmove32Code (dest dmax src slen : Nat) : Nat :=
  if slen = 0 then EOK
  else if dest = 0 then ESNULLP
  else if dmax = 0 then ESZEROL
  else if dmax > RSIZE_MAX_MEM then ESLEMAX
  else if src = 0 then ESNULLP
  else if slen * 4 > dmax then (if slen > RSIZE_MAX_MEM32 then ESLEMAX else ESNOSPC)
  else EOK

/- FULL statement (no bound on `slen`), false of the code: `memmove32_s_meaning_witness` -/
theorem memmove32_s_code_partial (dest dmax src slen : Nat) (hs : slen < 2 ^ 62) :
    EV (memmove32_s dest dmax src slen none none) (Is .mem (memmove32Code dest dmax src slen)) := by
  have hsm : (slen * 4) % U64 = slen * 4 := by
    show (slen * 4) % 2 ^ 64 = _; exact Nat.mod_eq_of_lt (by omega)
  have hm : RSIZE_MAX_MEM = 4 * RSIZE_MAX_MEM32 := by decide
  by_cases h1 : slen = 0
  · simp only [memmove32_s, memmove32Code, h1, if_true]; exact is_eok
  by_cases h2 : dest = 0
  · simp only [memmove32_s, memmove32Code, h1, h2, if_true, if_false]; exact is_failM _ (by decide)
  by_cases h3 : dmax = 0
  · simp only [memmove32_s, memmove32Code, h1, h2, h3, if_true, if_false]; exact is_failM _ (by decide)
  by_cases h4 : dmax > RSIZE_MAX_MEM
  · simp only [memmove32_s, memmove32Code, chkDmaxMemB, h1, h2, h3, h4, if_true, if_false]; exact is_failM _ (by decide)
  by_cases h5 : src = 0
  · simp only [memmove32_s, memmove32Code, chkDmaxMemB, Option.getD_none, h1, h2, h3, h4, h5, if_true, if_false]
    exact is_handleMemErrorB _ _ _ _ (by decide)
  by_cases h6 : slen * 4 > dmax
  · by_cases h7 : slen > RSIZE_MAX_MEM32
    · have h7' : slen * 4 > RSIZE_MAX_MEM := by omega
      simp only [memmove32_s, memmove32Code, chkDmaxMemB, Option.getD_none, hsm, h1, h2, h3, h4, h5, h6, h7, h7', if_true, if_false]
      exact is_handleMemErrorB _ _ _ _ (by decide)
    · have h7' : ¬ slen * 4 > RSIZE_MAX_MEM := by omega
      simp only [memmove32_s, memmove32Code, chkDmaxMemB, Option.getD_none, hsm, h1, h2, h3, h4, h5, h6, h7, h7', if_true, if_false]
      exact is_handleMemErrorB _ _ _ _ (by decide)
  · simp only [memmove32_s, memmove32Code, chkDmaxMemB, Option.getD_none, exceeds, Bool.false_eq_true, hsm, h1, h2, h3, h4, h5, h6, if_false]
    exact is_work_eok (q_mem_prim_move32 _ _ _)

/-- memmove32_s, object sizes unknown, `slen < 2^62`: the code is `memmove32Code` of the arguments -/
theorem memmove32_s_meaning_partial (dest dmax src slen : Nat) (hs : slen < 2 ^ 62) (st : St) (r : Nat) (st' : St)
    (he : exec (memmove32_s dest dmax src slen none none) st = .ok (r, st')) :
    r = memmove32Code dest dmax src slen ∧
      ((r = EOK ∧ st'.events = st.events) ∨ (r ≠ EOK ∧ st'.events = st.events ++ [.handler .mem r])) :=
  Is.sound (memmove32_s_code_partial dest dmax src slen hs) st r st' he

/-- the excluded point: `slen = 2^62 + 1` wraps to 4 bytes: EOK without a report (doc comment: ESLEMAX) -/
theorem memmove32_s_meaning_witness :
    ((exec (memmove32_s 100 8 200 (2 ^ 62 + 1) none none)
      { data := fun _ => 7, mapped := fun _ => true, rd := fun _ => true, wr := fun _ => true }).toOption.map
        (fun x => (x.1, x.2.events))) = some (EOK, []) ∧ memmove32Code 100 8 200 (2 ^ 62 + 1) = ESLEMAX := by
  decide

theorem memmove32Code_eok_iff (dest dmax src slen : Nat) :
    memmove32Code dest dmax src slen = EOK ↔
      slen = 0 ∨ (dest ≠ 0 ∧ dmax ≠ 0 ∧ dmax ≤ RSIZE_MAX_MEM ∧ src ≠ 0 ∧ slen * 4 ≤ dmax
        ) := by
  have e1 : ESNULLP ≠ EOK := by decide
  have e2 : ESLEMAX ≠ EOK := by decide
  have e3 : ESNOSPC ≠ EOK := by decide
  have e4 : ESZEROL ≠ EOK := by decide
  have e5 : ESOVRLP ≠ EOK := by decide
  unfold memmove32Code
  repeat' split
  all_goals simp only [e1, e2, e3, e4, e5, false_iff, true_iff, not_and, not_or, ne_eq, Bool.not_eq_false]
  all_goals first | omega | grind

/-- non-vacuity: a reporting run within the hypothesis -/
example : (5 : Nat) < 2 ^ 62 ∧ ((exec (memmove32_s 100 8 200 5 none none)
      { data := fun _ => 7, mapped := fun _ => true, rd := fun _ => true, wr := fun _ => true }).toOption.map
        (fun x => (x.1, x.2.events))) = some (memmove32Code 100 8 200 5, [.handler .mem ESNOSPC]) := by decide

/-- src/extmem/memcpy16_s.c: `@retval EOK when operation is successful or slen = 0`, `ESNULLP when dest/src is NULL POINTER`,
`ESZEROL when dmax = ZERO`, `ESLEMAX when dmax > RSIZE_MAX_MEM or slen > RSIZE_MAX_MEM16`, `ESNOSPC when 2*slen > dmax`, `ESOVRLP when src memory overlaps dest` -/
def memcpy16Code (dest dmax src slen : Nat) : Nat :=
  if slen = 0 then EOK
  else if dest = 0 then ESNULLP
  else if dmax = 0 then ESZEROL
  else if dmax > RSIZE_MAX_MEM then ESLEMAX
  else if src = 0 then ESNULLP
  else if slen * 2 > dmax then (if slen > RSIZE_MAX_MEM16 then ESLEMAX else ESNOSPC)
  else if ovrlpButSame 2 dest (dmax / 2) src slen then ESOVRLP
  else EOK

/- FULL statement (no bound on `slen`), false of the code: `memcpy16_s_meaning_witness` -/
theorem memcpy16_s_code_partial (dest dmax src slen : Nat) (hs : slen < 2 ^ 63) :
    EV (memcpy16_s dest dmax src slen none none) (Is .mem (memcpy16Code dest dmax src slen)) := by
  have hsm : (slen * 2) % U64 = slen * 2 := by
    show (slen * 2) % 2 ^ 64 = _; exact Nat.mod_eq_of_lt (by omega)
  have hm : RSIZE_MAX_MEM = 2 * RSIZE_MAX_MEM16 := by decide
  by_cases h1 : slen = 0
  · simp only [memcpy16_s, memcpy16Code, h1, if_true]; exact is_eok
  by_cases h2 : dest = 0
  · simp only [memcpy16_s, memcpy16Code, h1, h2, if_true, if_false]; exact is_failM _ (by decide)
  by_cases h3 : dmax = 0
  · simp only [memcpy16_s, memcpy16Code, h1, h2, h3, if_true, if_false]; exact is_failM _ (by decide)
  by_cases h4 : dmax > RSIZE_MAX_MEM
  · simp only [memcpy16_s, memcpy16Code, chkDmaxMemB, h1, h2, h3, h4, if_true, if_false]; exact is_failM _ (by decide)
  by_cases h5 : src = 0
  · simp only [memcpy16_s, memcpy16Code, chkDmaxMemB, Option.getD_none, h1, h2, h3, h4, h5, if_true, if_false]
    exact is_handleMemErrorB _ _ _ _ (by decide)
  by_cases h6 : slen * 2 > dmax
  · by_cases h7 : slen > RSIZE_MAX_MEM16
    · have h7' : slen * 2 > RSIZE_MAX_MEM := by omega
      simp only [memcpy16_s, memcpy16Code, chkDmaxMemB, Option.getD_none, hsm, h1, h2, h3, h4, h5, h6, h7, h7', if_true, if_false]
      exact is_handleMemErrorB _ _ _ _ (by decide)
    · have h7' : ¬ slen * 2 > RSIZE_MAX_MEM := by omega
      simp only [memcpy16_s, memcpy16Code, chkDmaxMemB, Option.getD_none, hsm, h1, h2, h3, h4, h5, h6, h7, h7', if_true, if_false]
      exact is_handleMemErrorB _ _ _ _ (by decide)
  by_cases h8 : ovrlpButSame 2 dest (dmax / 2) src slen = true
  · simp only [memcpy16_s, memcpy16Code, chkDmaxMemB, Option.getD_none, exceeds, Bool.false_eq_true, hsm, h1, h2, h3, h4, h5, h6, h8, if_true, if_false]
    exact is_clear_report (q_mem_prim_set _ _ _ _) _ (by decide)
  · simp only [memcpy16_s, memcpy16Code, chkDmaxMemB, Option.getD_none, exceeds, Bool.false_eq_true, hsm, h1, h2, h3, h4, h5, h6, h8, if_false]
    exact is_work_eok (q_mem_prim_move16 _ _ _)

/-- memcpy16_s, object sizes unknown, `slen < 2^63`: the code is `memcpy16Code` of the arguments -/
theorem memcpy16_s_meaning_partial (dest dmax src slen : Nat) (hs : slen < 2 ^ 63) (st : St) (r : Nat) (st' : St)
    (he : exec (memcpy16_s dest dmax src slen none none) st = .ok (r, st')) :
    r = memcpy16Code dest dmax src slen ∧
      ((r = EOK ∧ st'.events = st.events) ∨ (r ≠ EOK ∧ st'.events = st.events ++ [.handler .mem r])) :=
  Is.sound (memcpy16_s_code_partial dest dmax src slen hs) st r st' he

/-- the excluded point: `slen = 2^63 + 1` wraps to 2 bytes: EOK without a report (doc comment: ESLEMAX) -/
theorem memcpy16_s_meaning_witness :
    ((exec (memcpy16_s 100 8 200 (2 ^ 63 + 1) none none)
      { data := fun _ => 7, mapped := fun _ => true, rd := fun _ => true, wr := fun _ => true }).toOption.map
        (fun x => (x.1, x.2.events))) = some (EOK, []) ∧ memcpy16Code 100 8 200 (2 ^ 63 + 1) = ESLEMAX := by
  decide

theorem memcpy16Code_eok_iff (dest dmax src slen : Nat) :
    memcpy16Code dest dmax src slen = EOK ↔
      slen = 0 ∨ (dest ≠ 0 ∧ dmax ≠ 0 ∧ dmax ≤ RSIZE_MAX_MEM ∧ src ≠ 0 ∧ slen * 2 ≤ dmax ∧
        ovrlpButSame 2 dest (dmax / 2) src slen = false) := by
  have e1 : ESNULLP ≠ EOK := by decide
  have e2 : ESLEMAX ≠ EOK := by decide
  have e3 : ESNOSPC ≠ EOK := by decide
  have e4 : ESZEROL ≠ EOK := by decide
  have e5 : ESOVRLP ≠ EOK := by decide
  unfold memcpy16Code
  repeat' split
  all_goals simp only [e1, e2, e3, e4, e5, false_iff, true_iff, not_and, not_or, ne_eq, Bool.not_eq_false]
  all_goals first | omega | grind

/-- non-vacuity: a reporting run within the hypothesis -/
example : (5 : Nat) < 2 ^ 63 ∧ ((exec (memcpy16_s 100 8 200 5 none none)
      { data := fun _ => 7, mapped := fun _ => true, rd := fun _ => true, wr := fun _ => true }).toOption.map
        (fun x => (x.1, x.2.events))) = some (memcpy16Code 100 8 200 5, [.handler .mem ESNOSPC]) := by decide

/-- src/extmem/memcpy32_s.c: `@retval EOK when operation is successful or slen = 0`, `ESNULLP when dest/src is NULL POINTER`,
`ESZEROL when dmax = ZERO`, `ESLEMAX when dmax > RSIZE_MAX_MEM or slen > RSIZE_MAX_MEM32`, `ESNOSPC when 4*slen > dmax`, `ESOVRLP when src memory overlaps dest` -/
def memcpy32Code (dest dmax src slen : Nat) : Nat :=
  if slen = 0 then EOK
  else if dest = 0 then ESNULLP
  else if dmax = 0 then ESZEROL
  else if dmax > RSIZE_MAX_MEM then ESLEMAX
  else if src = 0 then ESNULLP
  else if slen * 4 > dmax then (if slen > RSIZE_MAX_MEM32 then ESLEMAX else ESNOSPC)
  else if ovrlpButSame 4 dest (dmax / 4) src slen then ESOVRLP
  else EOK

/- FULL statement (no bound on `slen`), false of the code: `memcpy32_s_meaning_witness` -/
theorem memcpy32_s_code_partial (dest dmax src slen : Nat) (hs : slen < 2 ^ 62) :
    EV (memcpy32_s dest dmax src slen none none) (Is .mem (memcpy32Code dest dmax src slen)) := by
  have hsm : (slen * 4) % U64 = slen * 4 := by
    show (slen * 4) % 2 ^ 64 = _; exact Nat.mod_eq_of_lt (by omega)
  have hm : RSIZE_MAX_MEM = 4 * RSIZE_MAX_MEM32 := by decide
  by_cases h1 : slen = 0
  · simp only [memcpy32_s, memcpy32Code, h1, if_true]; exact is_eok
  by_cases h2 : dest = 0
  · simp only [memcpy32_s, memcpy32Code, h1, h2, if_true, if_false]; exact is_failM _ (by decide)
  by_cases h3 : dmax = 0
  · simp only [memcpy32_s, memcpy32Code, h1, h2, h3, if_true, if_false]; exact is_failM _ (by decide)
  by_cases h4 : dmax > RSIZE_MAX_MEM
  · simp only [memcpy32_s, memcpy32Code, chkDmaxMemB, h1, h2, h3, h4, if_true, if_false]; exact is_failM _ (by decide)
  by_cases h5 : src = 0
  · simp only [memcpy32_s, memcpy32Code, chkDmaxMemB, Option.getD_none, h1, h2, h3, h4, h5, if_true, if_false]
    exact is_handleMemErrorB _ _ _ _ (by decide)
  by_cases h6 : slen * 4 > dmax
  · by_cases h7 : slen > RSIZE_MAX_MEM32
    · have h7' : slen * 4 > RSIZE_MAX_MEM := by omega
      simp only [memcpy32_s, memcpy32Code, chkDmaxMemB, Option.getD_none, hsm, h1, h2, h3, h4, h5, h6, h7, h7', if_true, if_false]
      exact is_handleMemErrorB _ _ _ _ (by decide)
    · have h7' : ¬ slen * 4 > RSIZE_MAX_MEM := by omega
      simp only [memcpy32_s, memcpy32Code, chkDmaxMemB, Option.getD_none, hsm, h1, h2, h3, h4, h5, h6, h7, h7', if_true, if_false]
      exact is_handleMemErrorB _ _ _ _ (by decide)
  by_cases h8 : ovrlpButSame 4 dest (dmax / 4) src slen = true
  · simp only [memcpy32_s, memcpy32Code, chkDmaxMemB, Option.getD_none, exceeds, Bool.false_eq_true, hsm, h1, h2, h3, h4, h5, h6, h8, if_true, if_false]
    exact is_clear_report (q_mem_prim_set _ _ _ _) _ (by decide)
  · simp only [memcpy32_s, memcpy32Code, chkDmaxMemB, Option.getD_none, exceeds, Bool.false_eq_true, hsm, h1, h2, h3, h4, h5, h6, h8, if_false]
    exact is_work_eok (q_mem_prim_move32 _ _ _)

/-- memcpy32_s, object sizes unknown, `slen < 2^62`: the code is `memcpy32Code` of the arguments -/
theorem memcpy32_s_meaning_partial (dest dmax src slen : Nat) (hs : slen < 2 ^ 62) (st : St) (r : Nat) (st' : St)
    (he : exec (memcpy32_s dest dmax src slen none none) st = .ok (r, st')) :
    r = memcpy32Code dest dmax src slen ∧
      ((r = EOK ∧ st'.events = st.events) ∨ (r ≠ EOK ∧ st'.events = st.events ++ [.handler .mem r])) :=
  Is.sound (memcpy32_s_code_partial dest dmax src slen hs) st r st' he

/-- the excluded point: `slen = 2^62 + 1` wraps to 4 bytes: EOK without a report (doc comment: ESLEMAX) -/
theorem memcpy32_s_meaning_witness :
    ((exec (memcpy32_s 100 8 200 (2 ^ 62 + 1) none none)
      { data := fun _ => 7, mapped := fun _ => true, rd := fun _ => true, wr := fun _ => true }).toOption.map
        (fun x => (x.1, x.2.events))) = some (EOK, []) ∧ memcpy32Code 100 8 200 (2 ^ 62 + 1) = ESLEMAX := by
  decide

theorem memcpy32Code_eok_iff (dest dmax src slen : Nat) :
    memcpy32Code dest dmax src slen = EOK ↔
      slen = 0 ∨ (dest ≠ 0 ∧ dmax ≠ 0 ∧ dmax ≤ RSIZE_MAX_MEM ∧ src ≠ 0 ∧ slen * 4 ≤ dmax ∧
        ovrlpButSame 4 dest (dmax / 4) src slen = false) := by
  have e1 : ESNULLP ≠ EOK := by decide
  have e2 : ESLEMAX ≠ EOK := by decide
  have e3 : ESNOSPC ≠ EOK := by decide
  have e4 : ESZEROL ≠ EOK := by decide
  have e5 : ESOVRLP ≠ EOK := by decide
  unfold memcpy32Code
  repeat' split
  all_goals simp only [e1, e2, e3, e4, e5, false_iff, true_iff, not_and, not_or, ne_eq, Bool.not_eq_false]
  all_goals first | omega | grind

/-- non-vacuity: a reporting run within the hypothesis -/
example : (5 : Nat) < 2 ^ 62 ∧ ((exec (memcpy32_s 100 8 200 5 none none)
      { data := fun _ => 7, mapped := fun _ => true, rd := fun _ => true, wr := fun _ => true }).toOption.map
        (fun x => (x.1, x.2.events))) = some (memcpy32Code 100 8 200 5, [.handler .mem ESNOSPC]) := by decide

end SafeC.Props.C05Meaning

import SafeC.Proofs.CopyOverlapB
import SafeC.Proofs.CatDisjoint
import SafeC.Proofs.MemccpyOverlap
import SafeC.Props.C07
/-!
# C07 (extension) — the bounded copies `strncpy_s` / `wcsncpy_s`, the concatenations `strncat_s` / `wcsncat_s` / `wcscat_s`
and `memccpy_s`: every placement of `src` relative to `dest`

* `*_overlap`: `g` = distance between the two pointers.  Whenever the copy would run into the other operand — the first
  `g` source characters are non-NUL, `g ≤ slen`, and the meeting point lies inside dest (`g < dmax`) — the call returns
  ESOVRLP, exactly one handler call, dest cleared, nothing outside dest touched: never a silently corrupted copy.
* `*_disjoint_not_rejected_partial`: disjoint operands are never rejected as overlapping — PROVIDED the `m` characters
  copied do not end exactly at dest when `slen` runs out.  The full statement (`src + m ≤ dest` when `slen = m`: the cell
  `src + m` is not read) is false: the bumper test precedes the `slen == 0` test (`bounded-copy-src-ends-at-dest`);
  `*_witness` is the excluded point `strncpy_s(a+5, 2, a+4, 1)`.
-/
namespace SafeC.Props.C07
open SafeC Gen

/-- **strncpy_s detects every overlap**, all placements (src before / inside / after dest) -/
theorem strncpy_s_overlap (cfg : Cfg) (dest dmax src slen : Nat) (st : St)
    (hall : ∀ a, st.mapped a = true ∧ st.rd a = true)
    (hd : dest ≠ 0) (hs : src ≠ 0) (hpos : 0 < dmax) (hle : dmax ≤ RSIZE_MAX_STR)
    (hslen : 0 < slen) (hslenle : slen ≤ RSIZE_MAX_STR) (hrw : RW st dest dmax)
    (hnz : ∀ j, j < (if dest < src then src - dest else dest - src) → st.data (src+j) ≠ 0)
    (hg : (if dest < src then src - dest else dest - src) ≤ slen)
    (hgd : (if dest < src then src - dest else dest - src) < dmax) :
    ∃ st', exec (strncpy_s cfg dest dmax src slen none none) st = .ok (ESOVRLP, st') ∧ OvrlpPost cfg dest dmax st st' :=
  strncpyG_overlap _ cfg dest dmax src slen st hall hd hs hpos hle hslen hslenle hrw hnz hg hgd

/-- **wcsncpy_s detects every overlap** -/
theorem wcsncpy_s_overlap (cfg : Cfg) (dest dmax src slen : Nat) (st : St)
    (hall : ∀ a, st.mapped a = true ∧ st.rd a = true)
    (hd : dest ≠ 0) (hs : src ≠ 0) (hpos : 0 < dmax) (hle : dmax ≤ RSIZE_MAX_WSTR)
    (hslen : 0 < slen) (hslenle : slen ≤ RSIZE_MAX_WSTR) (hrw : RW st dest dmax)
    (hnz : ∀ j, j < (if dest < src then src - dest else dest - src) → st.data (src+j) ≠ 0)
    (hg : (if dest < src then src - dest else dest - src) ≤ slen)
    (hgd : (if dest < src then src - dest else dest - src) < dmax) :
    ∃ st', exec (wcsncpy_s cfg dest dmax src slen none none) st = .ok (ESOVRLP, st') ∧ OvrlpPost cfg dest dmax st st' := by
  rw [wcsncpy_s_eq cfg dest dmax src slen hle hslenle]
  exact strncpyG_overlap _ cfg dest dmax src slen st hall hd hs hpos hle hslen hslenle hrw hnz hg hgd

/- FULL statement (false of the model): `hdisj : dest + dmax ≤ src ∨ src + m < dest ∨ (slen = m ∧ src + m ≤ dest)`. -/

/-- **strncpy_s never rejects disjoint operands** (`m` = number of characters copied: the source string is shorter than
`slen`, or `slen = m` runs out first), except for a source that ends exactly at dest -/
theorem strncpy_s_disjoint_not_rejected_partial (cfg : Cfg) (dest dmax src slen m : Nat) (st : St)
    (hd : dest ≠ 0) (hs : src ≠ 0) (hpos : 0 < dmax) (hle : dmax ≤ RSIZE_MAX_STR)
    (hslen : 0 < slen) (hslenle : slen ≤ RSIZE_MAX_STR) (hrw : RW st dest dmax)
    (hnz : ∀ j, j < m → st.data (src+j) ≠ 0)
    (hrd : ∀ j, j < m → st.mapped (src+j) = true ∧ st.rd (src+j) = true)
    (hfin : (m < slen ∧ st.data (src+m) = 0 ∧ st.mapped (src+m) = true ∧ st.rd (src+m) = true) ∨ slen = m)
    (hdisj : dest + dmax ≤ src ∨ src + m < dest) :
    ∃ code st', exec (strncpy_s cfg dest dmax src slen none none) st = .ok (code, st') ∧ code ≠ ESOVRLP := by
  obtain ⟨code, st', he, _, _, _, _, _, hok, hfail⟩ :=
    strncpyG_disjoint _ cfg dest dmax src slen m st hd hs hpos hle (Nat.le_refl _) hslen hslenle hrw hnz hrd hfin hdisj
  refine ⟨code, st', he, ?_⟩
  by_cases h : m < dmax
  · rw [(hok h).1]; decide
  · rw [(hfail (by omega)).1]; decide

/-- **wcsncpy_s never rejects disjoint operands**, same exception -/
theorem wcsncpy_s_disjoint_not_rejected_partial (cfg : Cfg) (dest dmax src slen m : Nat) (st : St)
    (hd : dest ≠ 0) (hs : src ≠ 0) (hpos : 0 < dmax) (hle : dmax ≤ RSIZE_MAX_WSTR)
    (hslen : 0 < slen) (hslenle : slen ≤ RSIZE_MAX_WSTR) (hrw : RW st dest dmax)
    (hnz : ∀ j, j < m → st.data (src+j) ≠ 0)
    (hrd : ∀ j, j < m → st.mapped (src+j) = true ∧ st.rd (src+j) = true)
    (hfin : (m < slen ∧ st.data (src+m) = 0 ∧ st.mapped (src+m) = true ∧ st.rd (src+m) = true) ∨ slen = m)
    (hdisj : dest + dmax ≤ src ∨ src + m < dest) :
    ∃ code st', exec (wcsncpy_s cfg dest dmax src slen none none) st = .ok (code, st') ∧ code ≠ ESOVRLP := by
  rw [wcsncpy_s_eq cfg dest dmax src slen hle hslenle]
  obtain ⟨code, st', he, _, _, _, _, _, hok, hfail⟩ :=
    strncpyG_disjoint _ cfg dest dmax src slen m st hd hs hpos hle (by decide) hslen hslenle hrw hnz hrd hfin hdisj
  refine ⟨code, st', he, ?_⟩
  by_cases h : m < dmax
  · rw [(hok h).1]; decide
  · rw [(hfail (by omega)).1]; decide

/-- `a` = 100: `a[4] = 'x'`, dest = `a+5` (2 cells), src = `a+4`, slen = 1: the one source cell lies below dest -/
def endSt : St :=
  { data := fun a => if a = 104 then 120 else 0
    mapped := fun _ => true, rd := fun _ => true
    wr := fun a => decide (105 ≤ a ∧ a < 107) }

/-- the return code of a run -/
def retCode (r : Except Fault (Nat × St)) : Option Nat :=
  match r with
  | .ok (c, _) => some c
  | .error _ => none

/-- the excluded point: `strncpy_s(a+5, 2, a+4, 1)` — disjoint (`src + slen = dest`), rejected with ESOVRLP -/
theorem strncpy_s_disjoint_not_rejected_witness :
    (104 : Nat) + 1 ≤ 105 ∧ retCode (exec (strncpy_s { slack := true } 105 2 104 1 none none) endSt) = some ESOVRLP := by
  decide

theorem wcsncpy_s_disjoint_not_rejected_witness :
    (104 : Nat) + 1 ≤ 105 ∧ retCode (exec (wcsncpy_s { slack := true } 105 2 104 1 none none) endSt) = some ESOVRLP := by
  decide

/-! ## the concatenations -/

/-- **wcscat_s never rejects disjoint operands** -/
theorem wcscat_s_disjoint_not_rejected (cfg : Cfg) (dest dmax src dl n : Nat) (st : St)
    (hd : dest ≠ 0) (hs : src ≠ 0) (hpos : 0 < dmax) (hle : dmax ≤ RSIZE_MAX_WSTR)
    (hrw : RW st dest dmax) (hsrc : SrcStr st src n) (hdisj : Disjoint dest dmax src n)
    (hdl : dl < dmax) (hdnz : ∀ j, j < dl → st.data (dest+j) ≠ 0) (hdnul : st.data (dest+dl) = 0) :
    ∃ code st', exec (wcscat_s cfg dest dmax src none) st = .ok (code, st') ∧ code ≠ ESOVRLP := by
  rw [wcscat_s_eq]
  obtain ⟨code, st', he, _, _, _, _, _, hok, hfail⟩ :=
    strcatG_disjoint _ cfg dest dmax src dl n st hd hs hpos hle hrw hsrc hdisj hdl hdnz hdnul
  refine ⟨code, st', he, ?_⟩
  by_cases h : dl + n < dmax
  · rw [(hok h).1]; decide
  · rw [(hfail (by omega)).1]; decide

/- FULL statement (false of the model): `hdisj : dest + dmax ≤ src ∨ src + m < dest ∨ (slen = m ∧ src + m ≤ dest)`. -/

/-- **strncat_s never rejects disjoint operands** (dest holds a string of length `dl < dmax`, `m` characters are
appended), except for a source whose `slen` characters end exactly at dest -/
theorem strncat_s_disjoint_not_rejected_partial (cfg : Cfg) (dest dmax src slen dl m : Nat) (st : St)
    (hd : dest ≠ 0) (hs : src ≠ 0) (hpos : 0 < dmax) (hle : dmax ≤ RSIZE_MAX_STR)
    (hslen : 0 < slen) (hslenle : slen ≤ RSIZE_MAX_STR) (hrw : RW st dest dmax)
    (hnz : ∀ j, j < m → st.data (src+j) ≠ 0)
    (hrd : ∀ j, j < m → st.mapped (src+j) = true ∧ st.rd (src+j) = true)
    (hfin : (m < slen ∧ st.data (src+m) = 0 ∧ st.mapped (src+m) = true ∧ st.rd (src+m) = true) ∨ slen = m)
    (hdisj : dest + dmax ≤ src ∨ src + m < dest)
    (hdl : dl < dmax) (hdnz : ∀ j, j < dl → st.data (dest+j) ≠ 0) (hdnul : st.data (dest+dl) = 0) :
    ∃ code st', exec (strncat_s cfg dest dmax src slen none none) st = .ok (code, st') ∧ code ≠ ESOVRLP := by
  obtain ⟨code, st', he, _, _, _, _, _, hok, hfail⟩ :=
    strncatG_disjoint _ cfg dest dmax src slen dl m st hd hs hpos hle hslen hslenle hrw hnz hrd hfin hdisj hdl hdnz hdnul
  refine ⟨code, st', he, ?_⟩
  by_cases h : dl + m < dmax
  · rw [(hok h).1]; decide
  · rw [(hfail (by omega)).1]; decide

/-- **wcsncat_s never rejects disjoint operands**, same exception -/
theorem wcsncat_s_disjoint_not_rejected_partial (cfg : Cfg) (dest dmax src slen dl m : Nat) (st : St)
    (hd : dest ≠ 0) (hs : src ≠ 0) (hpos : 0 < dmax) (hle : dmax ≤ RSIZE_MAX_WSTR)
    (hslen : 0 < slen) (hslenle : slen ≤ RSIZE_MAX_WSTR) (hrw : RW st dest dmax)
    (hnz : ∀ j, j < m → st.data (src+j) ≠ 0)
    (hrd : ∀ j, j < m → st.mapped (src+j) = true ∧ st.rd (src+j) = true)
    (hfin : (m < slen ∧ st.data (src+m) = 0 ∧ st.mapped (src+m) = true ∧ st.rd (src+m) = true) ∨ slen = m)
    (hdisj : dest + dmax ≤ src ∨ src + m < dest)
    (hdl : dl < dmax) (hdnz : ∀ j, j < dl → st.data (dest+j) ≠ 0) (hdnul : st.data (dest+dl) = 0) :
    ∃ code st', exec (wcsncat_s cfg dest dmax src slen none none) st = .ok (code, st') ∧ code ≠ ESOVRLP := by
  rw [wcsncat_s_eq cfg dest dmax src slen hle hslenle (by omega)]
  obtain ⟨code, st', he, _, _, _, _, _, hok, hfail⟩ :=
    strncatG_disjoint _ cfg dest dmax src slen dl m st hd hs hpos hle hslen hslenle hrw hnz hrd hfin hdisj hdl hdnz hdnul
  refine ⟨code, st', he, ?_⟩
  by_cases h : dl + m < dmax
  · rw [(hok h).1]; decide
  · rw [(hfail (by omega)).1]; decide

/-- the excluded point: `strncat_s(a+5, 2, a+4, 1)` with `a+5 = ""`: disjoint, rejected with ESOVRLP -/
theorem strncat_s_disjoint_not_rejected_witness :
    (104 : Nat) + 1 ≤ 105 ∧ retCode (exec (strncat_s { slack := true } 105 2 104 1 none none) endSt) = some ESOVRLP := by
  decide

theorem wcsncat_s_disjoint_not_rejected_witness :
    (104 : Nat) + 1 ≤ 105 ∧ retCode (exec (wcsncat_s { slack := true } 105 2 104 1 none none) endSt) = some ESOVRLP := by
  decide

/-! ## memccpy_s: the `CHK_OVRLP` interval test decides every placement -/

/-- **memccpy_s rejects every overlap**: whenever the `n` source bytes and the `dmax` destination bytes share a byte
(identical pointers included; addresses below 2^64) the call returns ESOVRLP with the `dmax` bytes of dest zeroed,
nothing else changed, the mem handler invoked exactly once -/
theorem memccpy_s_C07_overlap (cfg : Cfg) (dest dmax src c n : Nat) (st : St)
    (hd : dest ≠ 0) (hs : src ≠ 0) (hpos : 0 < n) (hle : n ≤ dmax) (hmax : dmax ≤ RSIZE_MAX_MEM)
    (hw : RW st dest dmax) (ha1 : src + n < Mem.U64) (ha2 : dest + dmax < Mem.U64)
    (hov : (src ≤ dest ∧ dest < src + n) ∨ (dest < src ∧ src < dest + dmax)) :
    ∃ st', exec (memccpy_s cfg dest dmax src c n none none) st = .ok (ESOVRLP, st') ∧
      st'.events = st.events ++ [.handler .mem ESOVRLP] ∧ st'.strays = st.strays ∧
      (∀ a, st'.data a = if dest ≤ a ∧ a < dest + dmax then 0 else st.data a) :=
  memccpy_s_overlap cfg dest dmax src c n st hd hs hpos hle hmax hw ha1 ha2 hov

/-- **memccpy_s never rejects disjoint operands**: for every memory content and every stop character the call returns
EOK or ESNOSPC (the latter is `memccpy-n-eq-dmax`), and writes nothing outside dest -/
theorem memccpy_s_C07_disjoint_not_rejected (cfg : Cfg) (dest dmax src c n : Nat) (st : St)
    (hall : ∀ a, st.mapped a = true ∧ st.rd a = true)
    (hd : dest ≠ 0) (hs : src ≠ 0) (hpos : 0 < n) (hle : n ≤ dmax) (hmax : dmax ≤ RSIZE_MAX_MEM)
    (hw : RW st dest dmax) (ha1 : src + n < Mem.U64) (ha2 : dest + dmax < Mem.U64)
    (hno : ¬ ((src ≤ dest ∧ dest < src + n) ∨ (dest < src ∧ src < dest + dmax))) :
    ∃ code st', exec (memccpy_s cfg dest dmax src c n none none) st = .ok (code, st') ∧ code ≠ ESOVRLP ∧
      (∀ a, ¬ (dest ≤ a ∧ a < dest + dmax) → st'.data a = st.data a) := by
  obtain ⟨code, st', he, hc, hf⟩ := memccpy_s_disjoint cfg dest dmax src c n st hall hd hs hpos hle hmax hw ha1 ha2 hno
  refine ⟨code, st', he, ?_, hf⟩
  rcases hc with h | h <;> rw [h] <;> decide

/-- non-vacuity of the overlap theorems: `strncpy_s(a, 4, a+2, 3)` with `a+2 = "xy…"`: g = 2 ≤ slen, 2 < dmax -/
example : ∃ st : St, (∀ a, st.mapped a = true ∧ st.rd a = true) ∧ RW st 100 4 ∧
    (∀ j, j < (if (100:Nat) < 102 then 102 - 100 else 100 - 102) → st.data (102 + j) ≠ 0) :=
  ⟨{ data := fun _ => 7, mapped := fun _ => true, rd := fun _ => true, wr := fun _ => true },
   fun _ => ⟨rfl, rfl⟩, fun _ _ => ⟨rfl, rfl, rfl⟩, fun _ _ => (by decide : (7 : Nat) ≠ 0)⟩

end SafeC.Props.C07

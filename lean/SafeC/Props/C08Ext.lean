import SafeC.Props.C01
import SafeC.Proofs.ExtStp
import SafeC.Proofs.CopyDisjoint
import SafeC.Proofs.ExtExact
import SafeC.Proofs.ExtFld
import SafeC.Proofs.ExtOs
/-! # C08 (extension): generic string families — after success nothing stale remains behind the terminator

One section per family (the sections were proved separately; each has its own module comment):
* `PartCopy` — wide twins and stp pair
* `PartFld` — field copies
* `PartOs` — getenv_s / strerror_s
-/
namespace SafeC.Props.C08Ext

section PartCopy
open SafeC Gen SafeC.Props.C01
/-!
# C08 (extension) — after success nothing stale remains behind the terminator: the wide twins and the stp pair

Two kinds of statement.

**Every placement, every content, both builds** (`*_C08`): when the call returns EOK on a usable dest there
is an index `t < dmax` with `dest[0..t)` non-zero, `dest[t] = 0` — so `t` IS the terminator of the result —
and, in the null-slack build, every cell from `t` up to `dmax` zero, whatever dest held before and wherever
the source lies (the theorems have no hypothesis on the contents or on overlap).  In the no-slack build
this is "the terminator is present".  For the stp pair the returned pointer is `dest + t` (C06: the
returned pointer is the address of the terminator).

**Valid non-overlapping operands** (`*_C08_exact`): `t` is the length of the result and the cells in front
of the terminator are exactly the result (both builds): wcsncpy_s, wcscat_s, wcsncat_s with the object
sizes unknown; stpcpy_s, stpncpy_s with the object sizes unknown or known (the returned pointer is
`dest + length`).  These are stated with ONLY the declared extents mapped/readable/writable, so
`st'.strays = st.strays` also says that nothing else was touched.

FALSE of the code and therefore partial: `wcsncpy_s` with `slen == 0` stores one NUL and returns EOK
without nulling the rest (recorded finding `strncpy-slen0-shortcut`): `wcsncpy_s_C08_partial` has
`slen ≠ 0`, `wcsncpy_s_C08_witness` is the excluded point.
-/

/-- the C08 conclusion: terminator at `t`, nothing but zeros behind it in the null-slack build -/
def Clean (cfg : Cfg) (dest dmax : Nat) (st' : St) : Prop :=
  ∃ t, t < dmax ∧ (∀ i, i < t → st'.data (dest + i) ≠ 0) ∧ st'.data (dest + t) = 0 ∧
    (cfg.slack = true → ∀ i, t ≤ i → i < dmax → st'.data (dest + i) = 0)

/- FULL statement (FALSE of the code for slen = 0, see `wcsncpy_s_C08_witness`): the same without `hslen`. -/
/-- wcsncpy_s, `slen ≠ 0`, every src/placement/content, object sizes known or unknown, both builds -/
theorem wcsncpy_s_C08_partial (cfg : Cfg) (dest dmax src slen : Nat) (destbos srcbos : Bos) (st : St) (hs : Setting st)
    (hrw : RW st dest dmax) (hd : dest ≠ 0) (hpos : 0 < dmax) (hle : dmax ≤ RSIZE_MAX_WSTR)
    (hb : ∀ b, destbos = some b → dmax * SIZEOF_WCHAR_T ≤ b) (hslen : slen ≠ 0) :
    ∃ code st', exec (wcsncpy_s cfg dest dmax src slen destbos srcbos) st = .ok (code, st') ∧
      (code = EOK → Clean cfg dest dmax st') := by
  obtain ⟨code, st', he, _, hq⟩ := wcsncpy_s_ext cfg dest dmax src slen destbos srcbos st hs.all (fun _ => hrw)
  exact ⟨code, st', he, fun hc => (hq ⟨hd, hpos, hle, hb⟩).2 hslen hc⟩

/-- dest = "ab" (2 cells at 100), default build -/
def wW : St :=
  { data := fun a => if a = 100 then 97 else if a = 101 then 98 else 0
    mapped := fun _ => true, rd := fun _ => true
    wr := fun a => decide (100 ≤ a ∧ a < 102) }

/-- the excluded point: `wcsncpy_s(d, 2, src, 0)` on d = "ab", null-slack build: EOK, `d[0] = 0` and the
stale 'b' remains behind the terminator -/
theorem wcsncpy_s_C08_witness :
    ∃ st', exec (wcsncpy_s { slack := true } 100 2 200 0 none none) wW = .ok (EOK, st') ∧
      st'.data 100 = 0 ∧ st'.data 101 = 98 := by
  refine ⟨_, rfl, ?_⟩
  simp [wW, St.upd, St.noteWr]

/-- wcscat_s, every src/placement/content, object size known or unknown, both builds -/
theorem wcscat_s_C08 (cfg : Cfg) (dest dmax src : Nat) (destbos : Bos) (st : St) (hs : Setting st)
    (hrw : RW st dest dmax) (hd : dest ≠ 0) (hpos : 0 < dmax) (hle : dmax ≤ RSIZE_MAX_WSTR)
    (hb : ∀ b, destbos = some b → dmax * SIZEOF_WCHAR_T ≤ b) :
    ∃ code st', exec (wcscat_s cfg dest dmax src destbos) st = .ok (code, st') ∧
      (code = EOK → Clean cfg dest dmax st') := by
  obtain ⟨code, st', he, _, hq⟩ := wcscat_s_ext cfg dest dmax src destbos st hs.all (fun _ => hrw)
  exact ⟨code, st', he, fun hc => (hq ⟨hd, hpos, hle, hb⟩).2 trivial hc⟩

/-- wcsncat_s, every src/slen (slen = 0 included: EOK means dest was cleared)/placement/content -/
theorem wcsncat_s_C08 (cfg : Cfg) (dest dmax src slen : Nat) (destbos srcbos : Bos) (st : St) (hs : Setting st)
    (hrw : RW st dest dmax) (hd : dest ≠ 0) (hpos : 0 < dmax) (hle : dmax ≤ RSIZE_MAX_WSTR)
    (hb : ∀ b, destbos = some b → dmax * SIZEOF_WCHAR_T ≤ b) :
    ∃ code st', exec (wcsncat_s cfg dest dmax src slen destbos srcbos) st = .ok (code, st') ∧
      (code = EOK → Clean cfg dest dmax st') := by
  obtain ⟨code, st', he, _, hq⟩ := wcsncat_s_ext cfg dest dmax src slen destbos srcbos st hs.all (fun _ => hrw)
  exact ⟨code, st', he, fun hc => (hq ⟨hd, hpos, hle, hb⟩).2 trivial hc⟩

/-! ## the stp pair: the returned pointer is the terminator (C06) and nothing stale lies behind it -/

/-- the C08 + C06-pointer conclusion for `r = (pointer, EOK)` -/
def CleanAt (cfg : Cfg) (dest dmax p : Nat) (st' : St) : Prop :=
  dest ≤ p ∧ p < dest + dmax ∧ (∀ a, dest ≤ a → a < p → st'.data a ≠ 0) ∧ st'.data p = 0 ∧
    (cfg.slack = true → ∀ a, p ≤ a → a < dest + dmax → st'.data a = 0)

/-- stpcpy_s, any knowledge of object sizes (dmax inside dest's), every src incl. `src == dest`, every
placement/content, both builds: on EOK the returned pointer is the address of the terminator inside dest,
the cells in front of it are non-zero, and with null-slack everything from it to dmax is zero -/
theorem stpcpy_s_C08 (cfg : Cfg) (dest dmax src : Nat) (destbos srcbos : Bos) (st : St) (hs : Setting st)
    (hrw : RW st dest dmax) (hd : dest ≠ 0) (hpos : 0 < dmax) (hle : dmax ≤ RSIZE_MAX_STR)
    (hb : ∀ b, destbos = some b → dmax ≤ b) :
    ∃ r st', exec (stpcpy_s cfg dest dmax src destbos srcbos) st = .ok (r, st') ∧
      (r.2 = EOK → CleanAt cfg dest dmax r.1 st') := by
  obtain ⟨r, st', he, _, hq⟩ := stpcpy_s_ext cfg dest dmax src destbos srcbos st hs.all (fun _ => hrw) hb
  refine ⟨r, st', he, fun hc => ?_⟩
  obtain ⟨h1, h2, _, h4, h5, h6⟩ := (hq ⟨hd, hpos, hle⟩).1.ok hc
  exact ⟨h1, h2, h4, h5, h6⟩

/-- stpncpy_s (slen inside a known source object), every src/slen/placement/content, both builds -/
theorem stpncpy_s_C08 (cfg : Cfg) (dest dmax src slen : Nat) (destbos srcbos : Bos) (st : St) (hs : Setting st)
    (hrw : RW st dest dmax) (hd : dest ≠ 0) (hpos : 0 < dmax) (hle : dmax ≤ RSIZE_MAX_STR)
    (hb : ∀ b, destbos = some b → dmax ≤ b) (hsb : ∀ sb, srcbos = some sb → slen ≤ sb) :
    ∃ r st', exec (stpncpy_s cfg dest dmax src slen destbos srcbos) st = .ok (r, st') ∧
      (r.2 = EOK → CleanAt cfg dest dmax r.1 st') := by
  obtain ⟨r, st', he, _, hq⟩ := stpncpy_s_ext cfg dest dmax src slen destbos srcbos st hs.all (fun _ => hrw) hb hsb
  refine ⟨r, st', he, fun hc => ?_⟩
  obtain ⟨h1, h2, _, h4, h5, h6⟩ := (hq ⟨hd, hpos, hle⟩).1.ok hc
  exact ⟨h1, h2, h4, h5, h6⟩

/-! ## valid, non-overlapping operands: the cells in front of the terminator are exactly the result -/

/-- wcsncpy_s on valid non-overlapping operands, `m` = characters copied (the source string is shorter
than slen and `m` its length, or `m = slen`): when the result fits, EOK, `dest[0..m) = src[0..m)`,
`dest[m] = 0` (both builds) and with null-slack `dest[m..dmax) = 0`; only declared cells are touched -/
theorem wcsncpy_s_C08_exact (cfg : Cfg) (dest dmax src slen m : Nat) (st : St)
    (hd : dest ≠ 0) (hs : src ≠ 0) (hpos : 0 < dmax) (hle : dmax ≤ RSIZE_MAX_WSTR)
    (hslen : 0 < slen) (hslenle : slen ≤ RSIZE_MAX_WSTR)
    (hrw : RW st dest dmax)
    (hnz : ∀ j, j < m → st.data (src+j) ≠ 0)
    (hrd : ∀ j, j < m → st.mapped (src+j) = true ∧ st.rd (src+j) = true)
    (hfin : (m < slen ∧ st.data (src+m) = 0 ∧ st.mapped (src+m) = true ∧ st.rd (src+m) = true) ∨ slen = m)
    (hdisj : dest + dmax ≤ src ∨ src + m < dest) (hfit : m < dmax) :
    ∃ st', exec (wcsncpy_s cfg dest dmax src slen none none) st = .ok (EOK, st') ∧
      st'.strays = st.strays ∧
      (∀ i, i < m → st'.data (dest+i) = st.data (src+i)) ∧ st'.data (dest+m) = 0 ∧
      (cfg.slack = true → ∀ i, m ≤ i → i < dmax → st'.data (dest+i) = 0) := by
  rw [wcsncpy_eq_G cfg dest dmax src slen hslenle]
  obtain ⟨code, st', he, _, _, _, hstr, _, hok, _⟩ :=
    strncpyG_disjoint RSIZE_MAX_WSTR cfg dest dmax src slen m st hd hs hpos hle (by decide) hslen hslenle hrw hnz hrd hfin hdisj
  obtain ⟨hc, _, h3, h4, h5⟩ := hok hfit
  subst hc
  exact ⟨st', he, hstr, h3, h4, h5⟩

/-- wcscat_s on valid non-overlapping operands (dest holds a string of length dl, src one of length n,
`dl + n < dmax`): EOK, `dest = old dest ++ src`, terminator at `dl + n` (both builds), null-slack: zeros behind -/
theorem wcscat_s_C08_exact (cfg : Cfg) (dest dmax src dl n : Nat) (st : St)
    (hd : dest ≠ 0) (hs : src ≠ 0) (hpos : 0 < dmax) (hle : dmax ≤ RSIZE_MAX_WSTR)
    (hrw : RW st dest dmax) (hsrc : SrcStr st src n) (hdisj : Disjoint dest dmax src n)
    (hdl : dl < dmax) (hdnz : ∀ j, j < dl → st.data (dest+j) ≠ 0) (hdnul : st.data (dest+dl) = 0)
    (hfit : dl + n < dmax) :
    ∃ st', exec (wcscat_s cfg dest dmax src none) st = .ok (EOK, st') ∧
      st'.strays = st.strays ∧
      (∀ i, i < dl → st'.data (dest+i) = st.data (dest+i)) ∧
      (∀ i, i < n → st'.data (dest+dl+i) = st.data (src+i)) ∧ st'.data (dest+dl+n) = 0 ∧
      (cfg.slack = true → ∀ i, dl + n ≤ i → i < dmax → st'.data (dest+i) = 0) := by
  rw [SafeC.Props.C01.wcscat_eq]
  obtain ⟨code, st', he, _, _, _, hstr, _, hok, _⟩ :=
    strcatG_disjoint RSIZE_MAX_WSTR cfg dest dmax src dl n st hd hs hpos hle hrw hsrc hdisj hdl hdnz hdnul
  obtain ⟨hc, _, h3, h4, h5, h6⟩ := hok hfit
  subst hc
  exact ⟨st', he, hstr, h3, h4, h5, h6⟩

/-- wcsncat_s on valid non-overlapping operands (dest holds a string of length dl; `m` source characters
are appended: the source string is shorter than slen and `m` its length, or `m = slen`; `dl + m < dmax`):
EOK, `dest = old dest ++ src[0..m)`, terminator at `dl + m` (both builds), null-slack: zeros behind -/
theorem wcsncat_s_C08_exact (cfg : Cfg) (dest dmax src slen dl m : Nat) (st : St)
    (hd : dest ≠ 0) (hs : src ≠ 0) (hpos : 0 < dmax) (hle : dmax ≤ RSIZE_MAX_WSTR)
    (hslen : 0 < slen) (hslenle : slen ≤ RSIZE_MAX_WSTR)
    (hrw : RW st dest dmax)
    (hnz : ∀ j, j < m → st.data (src+j) ≠ 0)
    (hrd : ∀ j, j < m → st.mapped (src+j) = true ∧ st.rd (src+j) = true)
    (hfin : (m < slen ∧ st.data (src+m) = 0 ∧ st.mapped (src+m) = true ∧ st.rd (src+m) = true) ∨ slen = m)
    (hdisj : dest + dmax ≤ src ∨ src + m < dest)
    (hdl : dl < dmax) (hdnz : ∀ j, j < dl → st.data (dest+j) ≠ 0) (hdnul : st.data (dest+dl) = 0)
    (hfit : dl + m < dmax) :
    ∃ st', exec (wcsncat_s cfg dest dmax src slen none none) st = .ok (EOK, st') ∧
      st'.strays = st.strays ∧
      (∀ i, i < dl → st'.data (dest+i) = st.data (dest+i)) ∧
      (∀ i, i < m → st'.data (dest+dl+i) = st.data (src+i)) ∧ st'.data (dest+dl+m) = 0 ∧
      (cfg.slack = true → ∀ i, dl + m ≤ i → i < dmax → st'.data (dest+i) = 0) := by
  obtain ⟨code, st', he, _, _, _, hstr, _, hok, _⟩ :=
    wcsncat_s_disjoint cfg dest dmax src slen dl m st hd hs hpos hle hslen hslenle hrw hnz hrd hfin hdisj hdl hdnz hdnul
  obtain ⟨hc, _, h3, h4, h5, h6⟩ := hok hfit
  subst hc
  exact ⟨st', he, hstr, h3, h4, h5, h6⟩

/-- stpcpy_s on valid non-overlapping operands, source string of length `n < dmax` (object sizes unknown,
or known with dmax inside dest's and the string inside the source's): `*errp = EOK`, the returned pointer is
`dest + n`, `dest[0..n) = src[0..n)`, `dest[n] = 0` (both builds), null-slack: `dest[n..dmax) = 0`;
no handler call, nothing outside the declared extents touched -/
theorem stpcpy_s_C08_exact (cfg : Cfg) (dest dmax src n : Nat) (destbos srcbos : Bos) (st : St)
    (hd : dest ≠ 0) (hs : src ≠ 0) (hpos : 0 < dmax) (hle : dmax ≤ RSIZE_MAX_STR)
    (hb : ∀ b, destbos = some b → dmax ≤ b) (hsb : ∀ sb, srcbos = some sb → n < sb)
    (hrw : RW st dest dmax) (hsrc : SrcStr st src n) (hdisj : Disjoint dest dmax src n) (hfit : n < dmax) :
    ∃ st', exec (stpcpy_s cfg dest dmax src destbos srcbos) st = .ok ((dest + n, EOK), st') ∧
      st'.strays = st.strays ∧ st'.events = st.events ∧
      (∀ i, i < n → st'.data (dest+i) = st.data (src+i)) ∧ st'.data (dest+n) = 0 ∧
      (cfg.slack = true → ∀ i, n ≤ i → i < dmax → st'.data (dest+i) = 0) := by
  obtain ⟨r, st', he, _, _, _, hstr, _, hok, _⟩ :=
    stpcpy_s_disjoint cfg dest dmax src n destbos srcbos st hd hs hpos hle hb hsb hrw hsrc hdisj
  obtain ⟨hr, h2, h3, h4, h5⟩ := hok hfit
  subst hr
  exact ⟨st', he, hstr, h2, h3, h4, h5⟩

/-- stpncpy_s on valid non-overlapping operands, `m < dmax` characters copied (the source string is shorter
than slen and `m` its length, or `m = slen`; slen inside a known source object): `*errp = EOK`, the returned
pointer is `dest + m`, `dest[0..m) = src[0..m)`, `dest[m] = 0` (both builds), null-slack: zeros behind -/
theorem stpncpy_s_C08_exact (cfg : Cfg) (dest dmax src slen m : Nat) (destbos srcbos : Bos) (st : St)
    (hd : dest ≠ 0) (hs : src ≠ 0) (hpos : 0 < dmax) (hle : dmax ≤ RSIZE_MAX_STR)
    (hslenle : slen ≤ RSIZE_MAX_STR)
    (hb : ∀ b, destbos = some b → dmax ≤ b) (hsb : ∀ sb, srcbos = some sb → slen ≤ sb)
    (hrw : RW st dest dmax)
    (hnz : ∀ j, j < m → st.data (src+j) ≠ 0)
    (hrd : ∀ j, j < m → st.mapped (src+j) = true ∧ st.rd (src+j) = true)
    (hfin : (m < slen ∧ st.data (src+m) = 0 ∧ st.mapped (src+m) = true ∧ st.rd (src+m) = true) ∨ slen = m)
    (hdisj : dest + dmax ≤ src ∨ src + m < dest) (hfit : m < dmax) :
    ∃ st', exec (stpncpy_s cfg dest dmax src slen destbos srcbos) st = .ok ((dest + m, EOK), st') ∧
      st'.strays = st.strays ∧ st'.events = st.events ∧
      (∀ i, i < m → st'.data (dest+i) = st.data (src+i)) ∧ st'.data (dest+m) = 0 ∧
      (cfg.slack = true → ∀ i, m ≤ i → i < dmax → st'.data (dest+i) = 0) := by
  obtain ⟨r, st', he, _, _, _, hstr, _, hok, _⟩ :=
    stpncpy_s_disjoint cfg dest dmax src slen m destbos srcbos st hd hs hpos hle hslenle hb hsb hrw hnz hrd hfin hdisj
  obtain ⟨hr, h2, h3, h4, h5⟩ := hok hfit
  subst hr
  exact ⟨st', he, hstr, h2, h3, h4, h5⟩

/-- non-vacuity of the general theorems: dest = 5 writable cells at 100 in a 20-byte (wide) / 5-byte object -/
example : Setting exSt ∧ RW exSt 100 5 ∧ (100 : Nat) ≠ 0 ∧ 0 < 5 ∧ 5 ≤ RSIZE_MAX_WSTR ∧ 5 ≤ RSIZE_MAX_STR ∧
    (∀ b, (some 20 : Bos) = some b → 5 * SIZEOF_WCHAR_T ≤ b) ∧ (∀ b, (some 5 : Bos) = some b → 5 ≤ b) ∧ (2 : Nat) ≠ 0 := by
  refine ⟨⟨fun _ => ⟨rfl, rfl⟩, rfl⟩, fun i hi => ⟨rfl, ?_, rfl⟩, by decide, by decide, by decide, by decide, ?_, ?_, by decide⟩
  · simp [exSt]; omega
  · intro b h; injection h with h; subst h; decide
  · intro b h; injection h with h; subst h; decide

/-- non-vacuity of the exact theorems: `exSt` has src = "ab" at 200 (length 2), dest = 5 cells at 100 holding "" -/
example : RW exSt 100 5 ∧ SrcStr exSt 200 2 ∧ Disjoint 100 5 200 2 ∧ exSt.data (100 + 0) = 0 ∧
    ((2 < 3 ∧ exSt.data (200+2) = 0 ∧ exSt.mapped (200+2) = true ∧ exSt.rd (200+2) = true) ∨ 3 = 2) := by
  refine ⟨fun i hi => ⟨rfl, ?_, rfl⟩, ⟨?_, by simp [exSt], fun _ _ => ⟨rfl, rfl⟩⟩, Or.inl (by decide), by simp [exSt], Or.inl ⟨by decide, by simp [exSt], rfl, rfl⟩⟩
  · simp [exSt]; omega
  · intro j hj
    have : j = 0 ∨ j = 1 := by omega
    rcases this with h | h <;> subst h <;> simp [exSt]

end PartCopy

section PartFld
open SafeC Gen
/-!
# C08 (+ exact result) for the field copies `strcpyfld_s`, `strcpyfldin_s`, `strcpyfldout_s`

Setting: every cell mapped and readable with ARBITRARY contents, the `dmax` cells of dest writable,
`dest ≠ 0`, `0 < dmax ≤ RSIZE_MAX_STR`, `slen ≠ 0`, object size unknown (`destbos = none`) or known and at
least `dmax` (`destbos = some b`, `dmax ≤ b`: same path, `fldG_entry`).

On operands the loop does not run into the bumper with, the call returns EOK, invokes no handler, records no
stray access, changes nothing outside `dest[0..dmax)` and leaves EXACTLY `dest[0..n) = src[0..n)` (values of
the original state) and `dest[n..dmax) = 0` — the trailing fill is unconditional, so this holds in BOTH slack
configurations (`cfg` is universally quantified).  `n` is `slen` (fld), the length of the source string
capped by `slen` (fldin), `min slen (dmax-1)` (fldout).

The EXACT no-overlap-exit condition is `dest + n ≤ src ∨ src + n ≤ dest` on the `n` cells actually copied
(not on `dmax`): weaker than disjointness of the operands.  A source inside `dest[n..dmax)` is accepted and
then zeroed by the trailing fill (`strcpyfld_s_C08_srctail_witness`; class `slack-fill-destroys-source` of
known_findings.jsonl, here in both configurations).
-/

/-- the conclusion shared by the three success statements -/
def FldCopied (dest dmax src n : Nat) (st st' : St) : Prop :=
  st'.events = st.events ∧ st'.strays = st.strays ∧
  (∀ i, i < n → st'.data (dest + i) = st.data (src + i)) ∧
  (∀ i, n ≤ i → i < dmax → st'.data (dest + i) = 0) ∧
  (∀ a, ¬ (dest ≤ a ∧ a < dest + dmax) → st'.data a = st.data a)

private theorem fldCopied_of {dest dmax src n : Nat} {st st' : St} (h : FldOk dest dmax src n st st') (hn : n ≤ dmax) :
    FldCopied dest dmax src n st st' :=
  ⟨h.1.events, h.1.strays, h.copied, h.filled, h.frame hn⟩

/-- strcpyfld_s, success (C08 + exact result), both slack configurations, object size unknown or ≥ dmax:
when the two slen-cell fields do not meet (dest + slen ≤ src ∨ src + slen ≤ dest) the call returns EOK with
no handler event and no stray access, dest[0..slen) = src[0..slen) (NULs included), dest[slen..dmax) = 0,
nothing outside dest[0..dmax) changes. -/
theorem strcpyfld_s_C08 (cfg : Cfg) (dest dmax src slen : Nat) (destbos : Bos) (st : St)
    (hall : ∀ a, st.mapped a = true ∧ st.rd a = true) (hrw : RW st dest dmax)
    (hd : dest ≠ 0) (hpos : 0 < dmax) (hle : dmax ≤ RSIZE_MAX_STR) (hbos : ∀ b, destbos = some b → dmax ≤ b)
    (hsl : slen ≠ 0) (hs : src ≠ 0) (hfit : slen ≤ dmax)
    (hdisj : dest + slen ≤ src ∨ src + slen ≤ dest) :
    ∃ st', exec (strcpyfld_s cfg dest dmax src slen destbos) st = .ok (EOK, st') ∧
      FldCopied dest dmax src slen st st' := by
  unfold strcpyfld_s
  rw [fldG_entry _ cfg dest dmax src slen destbos hsl hd hpos hle hbos]
  obtain ⟨st', he, hok⟩ := fldBody_fld_ok cfg dest dmax src slen st hall hrw hs hfit hdisj
  exact ⟨st', he, fldCopied_of hok hfit⟩

/-- strcpyfldin_s, success (C08 + exact result), both slack configurations: src holds n non-NUL characters
followed by a NUL (read outside the cells already written: n = 0 or src + n ≠ dest), or n = slen of them are
requested; the n cells read and written do not meet.  Then EOK, no handler event, dest[0..n) = src[0..n),
dest[n..dmax) = 0, nothing outside dest changes. -/
theorem strcpyfldin_s_C08 (cfg : Cfg) (dest dmax src slen n : Nat) (destbos : Bos) (st : St)
    (hall : ∀ a, st.mapped a = true ∧ st.rd a = true) (hrw : RW st dest dmax)
    (hd : dest ≠ 0) (hpos : 0 < dmax) (hle : dmax ≤ RSIZE_MAX_STR) (hbos : ∀ b, destbos = some b → dmax ≤ b)
    (hsl : slen ≠ 0) (hs : src ≠ 0) (hfit : slen ≤ dmax) (hn : n ≤ slen)
    (hnz : ∀ j, j < n → st.data (src + j) ≠ 0)
    (hend : n = slen ∨ (st.data (src + n) = 0 ∧ (n = 0 ∨ src + n ≠ dest)))
    (hdisj : dest + n ≤ src ∨ src + n ≤ dest) :
    ∃ st', exec (strcpyfldin_s cfg dest dmax src slen destbos) st = .ok (EOK, st') ∧
      FldCopied dest dmax src n st st' := by
  unfold strcpyfldin_s
  rw [fldG_entry _ cfg dest dmax src slen destbos hsl hd hpos hle hbos]
  obtain ⟨st', he, hok⟩ := fldBody_fldin_ok cfg dest dmax src slen n st hall hrw hs hfit hn hnz hend hdisj
  exact ⟨st', he, fldCopied_of hok (by omega)⟩

/-- strcpyfldout_s, success (C08 + exact result), both slack configurations: with n = min slen (dmax-1) and
the n cells read and written not meeting, EOK, no handler event, dest[0..n) = src[0..n), dest[n..dmax) = 0 —
so a NUL sits at dest[n], n < dmax — and nothing outside dest changes.  (slen = dmax gives n = dmax-1: the
last character is dropped, known finding strcpyfldout-slen-eq-dmax.) -/
theorem strcpyfldout_s_C08 (cfg : Cfg) (dest dmax src slen : Nat) (destbos : Bos) (st : St)
    (hall : ∀ a, st.mapped a = true ∧ st.rd a = true) (hrw : RW st dest dmax)
    (hd : dest ≠ 0) (hpos : 0 < dmax) (hle : dmax ≤ RSIZE_MAX_STR) (hbos : ∀ b, destbos = some b → dmax ≤ b)
    (hsl : slen ≠ 0) (hs : src ≠ 0) (hfit : slen ≤ dmax)
    (hdisj : dest + min slen (dmax - 1) ≤ src ∨ src + min slen (dmax - 1) ≤ dest) :
    ∃ st', exec (strcpyfldout_s cfg dest dmax src slen destbos) st = .ok (EOK, st') ∧
      FldCopied dest dmax src (min slen (dmax - 1)) st st' ∧
      min slen (dmax - 1) < dmax ∧ st'.data (dest + min slen (dmax - 1)) = 0 := by
  unfold strcpyfldout_s
  rw [fldG_entry _ cfg dest dmax src slen destbos hsl hd hpos hle hbos]
  obtain ⟨st', he, hok⟩ := fldBody_fldout_ok cfg dest dmax src slen st hall hrw hs hpos hfit hdisj
  have hn : min slen (dmax - 1) < dmax := by omega
  exact ⟨st', he, fldCopied_of hok (by omega), hn, hok.filled _ (Nat.le_refl _) hn⟩

/-- strcpyfld_s / strcpyfldin_s / strcpyfldout_s with slen = 0: the documented no-op — EOK, the state
(memory, events, strays) is untouched, whatever dest, dmax, src and the object size are. -/
theorem strcpyfld_s_C08_slen0 (cfg : Cfg) (dest dmax src : Nat) (destbos : Bos) (st : St) :
    exec (strcpyfld_s cfg dest dmax src 0 destbos) st = .ok (EOK, st) ∧
    exec (strcpyfldin_s cfg dest dmax src 0 destbos) st = .ok (EOK, st) ∧
    exec (strcpyfldout_s cfg dest dmax src 0 destbos) st = .ok (EOK, st) :=
  ⟨fldG_slen0 _ cfg dest dmax src destbos st, fldG_slen0 _ cfg dest dmax src destbos st,
   fldG_slen0 _ cfg dest dmax src destbos st⟩

/-! ## non-vacuity and the limits of the statements -/

/-- dest = 100 (5 cells writable), src = 200 holding "ab\0": hypotheses of the three success statements -/
example : (∀ a, SafeC.Props.C01.exSt.mapped a = true ∧ SafeC.Props.C01.exSt.rd a = true) ∧
    RW SafeC.Props.C01.exSt 100 5 ∧ (100 : Nat) ≠ 0 ∧ 0 < 5 ∧ 5 ≤ RSIZE_MAX_STR ∧
    (∀ b, (none : Bos) = some b → 5 ≤ b) ∧ (3 : Nat) ≠ 0 ∧ (200 : Nat) ≠ 0 ∧ 3 ≤ 5 ∧
    (100 + 3 ≤ 200 ∨ 200 + 3 ≤ 100) ∧
    (∀ j, j < 2 → SafeC.Props.C01.exSt.data (200 + j) ≠ 0) ∧
    ((2 : Nat) = 3 ∨ (SafeC.Props.C01.exSt.data (200 + 2) = 0 ∧ ((2 : Nat) = 0 ∨ 200 + 2 ≠ 100))) := by
  refine ⟨fun _ => ⟨rfl, rfl⟩, fun i hi => ⟨rfl, ?_, rfl⟩, by decide, by decide, by decide,
    (fun b h => by cases h), by decide, by decide, by decide, by decide, ?_, Or.inr ⟨by decide, by decide⟩⟩
  · simp [SafeC.Props.C01.exSt]; omega
  · intro j hj
    have : j = 0 ∨ j = 1 := by omega
    rcases this with h | h <;> subst h <;> decide

/-- a source inside the tail of the field: `strcpyfld_s(d=100, dmax=4, src=102, slen=1)` -/
def fldTailSt : St :=
  { data := fun a => if a = 102 then 97 else 0, mapped := fun _ => true, rd := fun _ => true
    wr := fun a => decide (100 ≤ a ∧ a < 104) }

/-- strcpyfld_s does not see a source that lies in dest[slen..dmax): the overlap exit looks only at the slen
cells copied.  strcpyfld_s(d, 4, d+2, 1) on d+2 = "a" returns EOK in the NO-slack build too, dest[0] = 'a',
and the source cell d+2 has been zeroed by the unconditional trailing fill (class slack-fill-destroys-source,
for this family in both configurations). -/
theorem strcpyfld_s_C08_srctail_witness :
    ∃ st', exec (strcpyfld_s { slack := false } 100 4 102 1 none) fldTailSt = .ok (EOK, st') ∧
      st'.data 100 = 97 ∧ fldTailSt.data 102 = 97 ∧ st'.data 102 = 0 := by
  refine ⟨(((fldTailSt.upd 100 97).upd 101 0).upd 102 0).upd 103 0, ?_, ?_⟩
  · simp [strcpyfld_s, fldG, chkDmaxClear, chkDmaxClearG, chkSlenNospcClear, RSIZE_MAX_STR, fldLoop,
      nullSlack, zeroLoop, exec_bind, fldTailSt, EOK, St.upd]
  · simp [St.upd, fldTailSt]

end PartFld

section PartOs
open SafeC Gen
/-!
# C08 for `getenv_s` and `strerror_s`: after success nothing stale remains behind the terminator

Same setting as section `PartOs` of `Props/C03Ext.lean` (declared extents only, ARBITRARY prior dest content).  Default (null-slack) build:
after a successful `getenv_s` / a `strerror_s` whose message fits, every cell of dest from the terminator up to `dmax` is
zero.  After a truncating `strerror_s` EVERY cell of dest is determined in BOTH builds (prefix, `...`, NUL in the last
cell), so nothing stale can remain — although the inner `strncpy_s(dest, dmax, msg, 0)` of the `dmax = 4` case takes the
`slen == 0` shortcut that does not null the slack (known finding `strncpy-slen0-shortcut`): the following `strcat_s`
overwrites all four cells.
-/

/-- getenv_s success, null-slack build: readable name, variable set to a string of length n < dmax not overlapping dest,
arbitrary prior dest content. Returns EOK (*len = n), dest[0..n) = the value, and EVERY cell dest[n..dmax) is zero. -/
theorem getenv_s_C08 (hasLen : Bool) (dest dmax name : Nat) (destbos : Bos) (value k n : Nat) (st : St)
    (hd : dest ≠ 0) (hpos : 0 < dmax) (hle : dmax ≤ RSIZE_MAX_STR) (hbos : ∀ b, destbos = some b → dmax ≤ b)
    (hrw : RW st dest dmax) (hname : name ≠ 0) (hnm : SrcStr st name k)
    (hv : value ≠ 0) (hval : SrcStr st value n) (hn : n < dmax) (hdisj : Disjoint dest dmax value n) :
    ∃ st', exec (getenv_s { slack := true } hasLen dest dmax name destbos value) st
        = .ok ((EOK, if hasLen then some n else none), st') ∧
      (∀ i, i < n → st'.data (dest+i) = st.data (value+i)) ∧
      (∀ i, n ≤ i → i < dmax → st'.data (dest+i) = 0) := by
  obtain ⟨st', he, _, _, _, _, _, _, c3, _, c5⟩ :=
    getenv_s_ok { slack := true } hasLen dest dmax name destbos value k n st hd hpos hle hbos hrw hname hnm hv hval hn
      hdisj
  exact ⟨st', he, c3, c5 rfl⟩

/-- strerror_s, the message fits, null-slack build: msg holds the message (length n < dmax, not overlapping dest),
strerrorlen_s answers n (hlen: table agrees with the text for own codes; strlen otherwise, see strerror_s_C08_libc).
Returns EOK with no handler event, dest[0..n) = the message, and EVERY cell dest[n..dmax) is zero; frame. -/
theorem strerror_s_C08 (dest dmax errnum : Nat) (destbos : Bos) (msg dots n : Nat) (st : St)
    (hd : dest ≠ 0) (hpos : 0 < dmax) (hle : dmax ≤ RSIZE_MAX_STR) (hbos : ∀ b, destbos = some b → dmax ≤ b)
    (hrw : RW st dest dmax) (hlen : exec (strerrorlen_s errnum msg) st = .ok (n, st))
    (hm : msg ≠ 0) (hsrc : SrcStr st msg n) (hn : n < dmax) (hdisj : Disjoint dest dmax msg n) :
    ∃ st', exec (strerror_s { slack := true } dest dmax errnum destbos msg dots) st = .ok (EOK, st') ∧
      st'.events = st.events ∧ st'.strays = st.strays ∧
      (∀ i, i < n → st'.data (dest+i) = st.data (msg+i)) ∧
      (∀ i, n ≤ i → i < dmax → st'.data (dest+i) = 0) ∧
      (∀ a, ¬ (dest ≤ a ∧ a < dest + dmax) → st'.data a = st.data a) := by
  obtain ⟨st', he, _, _, _, ps, pf, pe, c3, _, c5⟩ :=
    strerror_s_fit { slack := true } dest dmax errnum destbos msg dots n st hd hpos hle hbos hrw hlen hm hsrc hn hdisj
  exact ⟨st', he, pe, ps, c3, c5 rfl, pf⟩

/-- strerror_s, message fits, errnum outside the library's own range (strerrorlen_s = libc strlen): as strerror_s_C08
with no hypothesis on strerrorlen_s. -/
theorem strerror_s_C08_libc (dest dmax errnum : Nat) (destbos : Bos) (msg dots n : Nat) (st : St)
    (hd : dest ≠ 0) (hpos : 0 < dmax) (hle : dmax ≤ RSIZE_MAX_STR) (hbos : ∀ b, destbos = some b → dmax ≤ b)
    (hrw : RW st dest dmax) (hown : isSafeclibErr errnum = false)
    (hm : msg ≠ 0) (hsrc : SrcStr st msg n) (hn : n < dmax) (hdisj : Disjoint dest dmax msg n) :
    ∃ st', exec (strerror_s { slack := true } dest dmax errnum destbos msg dots) st = .ok (EOK, st') ∧
      st'.events = st.events ∧ st'.strays = st.strays ∧
      (∀ i, i < n → st'.data (dest+i) = st.data (msg+i)) ∧
      (∀ i, n ≤ i → i < dmax → st'.data (dest+i) = 0) ∧
      (∀ a, ¬ (dest ≤ a ∧ a < dest + dmax) → st'.data a = st.data a) :=
  strerror_s_C08 dest dmax errnum destbos msg dots n st hd hpos hle hbos hrw
    (strerrorlen_s_libc_eq errnum msg n st hown hsrc (by have := RSIZE_lt_scanFuel; omega)) hm hsrc hn hdisj

/-- strerror_s, truncation, BOTH builds: strerrorlen_s answers len ≥ dmax, dmax > 3 (dmax = 4 included), the first
dmax-4 characters of msg are non-NUL, readable and away from dest (msg + (dmax-4) < dest strictly, or dest + dmax ≤ msg),
dots is the literal "...". Returns EOK, no handler event, and dest is completely determined: the first dmax-4 characters
of the message, then 46 46 46, then NUL in the last cell dest[dmax-1]; frame. -/
theorem strerror_s_C08_trunc (cfg : Cfg) (dest dmax errnum : Nat) (destbos : Bos) (msg dots len : Nat) (st : St)
    (hd : dest ≠ 0) (h3 : 3 < dmax) (hle : dmax ≤ RSIZE_MAX_STR) (hbos : ∀ b, destbos = some b → dmax ≤ b)
    (hrw : RW st dest dmax) (hlen : exec (strerrorlen_s errnum msg) st = .ok (len, st)) (hge : dmax ≤ len)
    (hm : msg ≠ 0)
    (hnz : ∀ j, j < dmax - 4 → st.data (msg+j) ≠ 0)
    (hrd : ∀ j, j < dmax - 4 → st.mapped (msg+j) = true ∧ st.rd (msg+j) = true)
    (hdisj : dest + dmax ≤ msg ∨ msg + (dmax - 4) < dest)
    (hdots : dots ≠ 0) (hds : SrcStr st dots 3) (hdd : Disjoint dest dmax dots 3)
    (h46 : st.data dots = 46 ∧ st.data (dots+1) = 46 ∧ st.data (dots+2) = 46) :
    ∃ st', exec (strerror_s cfg dest dmax errnum destbos msg dots) st = .ok (EOK, st') ∧
      st'.events = st.events ∧ st'.strays = st.strays ∧
      (∀ i, i < dmax - 4 → st'.data (dest+i) = st.data (msg+i)) ∧
      st'.data (dest + (dmax-4)) = 46 ∧ st'.data (dest + (dmax-3)) = 46 ∧ st'.data (dest + (dmax-2)) = 46 ∧
      st'.data (dest + (dmax-1)) = 0 ∧
      (∀ a, ¬ (dest ≤ a ∧ a < dest + dmax) → st'.data a = st.data a) := by
  obtain ⟨st', he, _, _, _, ps, pf, pe, c3, c4, c5, c6, c7⟩ :=
    strerror_s_trunc cfg dest dmax errnum destbos msg dots len st hd h3 hle hbos hrw hlen hge hm hnz hrd hdisj
      hdots hds hdd h46
  exact ⟨st', he, pe, ps, c3, c4, c5, c6, c7, pf⟩

/-- strerror_s truncation for an errnum outside the library's own range: msg is a readable string of length n ≥ dmax
(any n) not overlapping dest, dmax > 3. Same conclusion as strerror_s_C08_trunc, no hypothesis on strerrorlen_s. -/
theorem strerror_s_C08_trunc_libc (cfg : Cfg) (dest dmax errnum : Nat) (destbos : Bos) (msg dots n : Nat) (st : St)
    (hd : dest ≠ 0) (h3 : 3 < dmax) (hle : dmax ≤ RSIZE_MAX_STR) (hbos : ∀ b, destbos = some b → dmax ≤ b)
    (hrw : RW st dest dmax) (hown : isSafeclibErr errnum = false)
    (hm : msg ≠ 0) (hsrc : SrcStr st msg n) (hge : dmax ≤ n) (hdisj : Disjoint dest dmax msg n)
    (hdots : dots ≠ 0) (hds : SrcStr st dots 3) (hdd : Disjoint dest dmax dots 3)
    (h46 : st.data dots = 46 ∧ st.data (dots+1) = 46 ∧ st.data (dots+2) = 46) :
    ∃ st', exec (strerror_s cfg dest dmax errnum destbos msg dots) st = .ok (EOK, st') ∧
      st'.events = st.events ∧ st'.strays = st.strays ∧
      (∀ i, i < dmax - 4 → st'.data (dest+i) = st.data (msg+i)) ∧
      st'.data (dest + (dmax-4)) = 46 ∧ st'.data (dest + (dmax-3)) = 46 ∧ st'.data (dest + (dmax-2)) = 46 ∧
      st'.data (dest + (dmax-1)) = 0 ∧
      (∀ a, ¬ (dest ≤ a ∧ a < dest + dmax) → st'.data a = st.data a) := by
  obtain ⟨len, hlen, hag⟩ := strerrorlen_s_libc errnum msg n st hown hsrc
  have hge' : dmax ≤ len := by
    have := RSIZE_lt_scanFuel
    rcases hag with h | h <;> omega
  exact strerror_s_C08_trunc cfg dest dmax errnum destbos msg dots len st hd h3 hle hbos hrw hlen hge' hm
    (fun j hj => hsrc.nz j (by omega)) (fun j hj => hsrc.rd j (by omega))
    (by unfold Disjoint at hdisj; omega) hdots hds hdd h46

/-- non-vacuity: dest = 100 (8 cells holding 7), name "A" at 300, value "aa" at 200 (fits), message of 11 characters at
400 with errnum 5 (not an own code; 11 ≥ 8 > 3: truncation to "dddd..."), "..." at 500 -/
example : (100 : Nat) ≠ 0 ∧ 3 < 8 ∧ 8 ≤ RSIZE_MAX_STR ∧ RW osExSt 100 8 ∧
    (300 : Nat) ≠ 0 ∧ SrcStr osExSt 300 1 ∧ (200 : Nat) ≠ 0 ∧ SrcStr osExSt 200 2 ∧ 2 < 8 ∧ Disjoint 100 8 200 2 ∧
    isSafeclibErr 5 = false ∧ (400 : Nat) ≠ 0 ∧ SrcStr osExSt 400 11 ∧ 8 ≤ 11 ∧ Disjoint 100 8 400 11 ∧
    (500 : Nat) ≠ 0 ∧ SrcStr osExSt 500 3 ∧ Disjoint 100 8 500 3 ∧
    (osExSt.data 500 = 46 ∧ osExSt.data (500+1) = 46 ∧ osExSt.data (500+2) = 46) :=
  ⟨by decide, by decide, by decide, osExSt_rw, by decide, osExSt_str _ _ (by omega), by decide,
   osExSt_str _ _ (by omega), by decide, Or.inl (by decide), by decide, by decide, osExSt_str _ _ (by omega),
   by decide, Or.inl (by decide), by decide, osExSt_str _ _ (by omega), Or.inl (by decide), osExSt_dots⟩

end PartOs

end SafeC.Props.C08Ext

import SafeC.Props.C01
import SafeC.Proofs.ExtStp
import SafeC.Proofs.CopyDisjoint
import SafeC.Proofs.ExtExact
/-!
# C08 (extension) — after success nothing stale remains behind the terminator: the wide twins and the stp pair

Two kinds of statement.

**Every placement, every content, both builds** (`*_C08`): when the call returns EOK on a usable dest there
is an index `t < dmax` with `dest[0..t)` non-zero, `dest[t] = 0` — so `t` IS the terminator of the result —
and, in the null-slack build, every cell from `t` up to `dmax` zero, whatever dest held before and wherever
the source lies (the theorems have no hypothesis on the contents or on overlap).  In the no-slack build
this is "the terminator is present".  For the stp pair the returned pointer is `dest + t` (C06: the
returned pointer is the address of the terminator).

**Valid non-overlapping operands** (`*_C08_exact`): `t` is the length of the result and the cells in front
of the terminator are exactly the result (both builds): wcsncpy_s, wcscat_s, wcsncat_s with the object
sizes unknown; stpcpy_s, stpncpy_s with the object sizes unknown or known (the returned pointer is
`dest + length`).  These are stated with ONLY the declared extents mapped/readable/writable, so
`st'.strays = st.strays` also says that nothing else was touched.

FALSE of the code and therefore partial: `wcsncpy_s` with `slen == 0` stores one NUL and returns EOK
without nulling the rest (recorded finding `strncpy-slen0-shortcut`): `wcsncpy_s_C08_partial` has
`slen ≠ 0`, `wcsncpy_s_C08_witness` is the excluded point.
-/
namespace SafeC.Props.C08Ext
open SafeC Gen SafeC.Props.C01

/-- the C08 conclusion: terminator at `t`, nothing but zeros behind it in the null-slack build -/
def Clean (cfg : Cfg) (dest dmax : Nat) (st' : St) : Prop :=
  ∃ t, t < dmax ∧ (∀ i, i < t → st'.data (dest + i) ≠ 0) ∧ st'.data (dest + t) = 0 ∧
    (cfg.slack = true → ∀ i, t ≤ i → i < dmax → st'.data (dest + i) = 0)

/- FULL statement (FALSE of the code for slen = 0, see `wcsncpy_s_C08_witness`): the same without `hslen`. -/
/-- wcsncpy_s, `slen ≠ 0`, every src/placement/content, object sizes known or unknown, both builds -/
theorem wcsncpy_s_C08_partial (cfg : Cfg) (dest dmax src slen : Nat) (destbos srcbos : Bos) (st : St) (hs : Setting st)
    (hrw : RW st dest dmax) (hd : dest ≠ 0) (hpos : 0 < dmax) (hle : dmax ≤ RSIZE_MAX_WSTR)
    (hb : ∀ b, destbos = some b → dmax * SIZEOF_WCHAR_T ≤ b) (hslen : slen ≠ 0) :
    ∃ code st', exec (wcsncpy_s cfg dest dmax src slen destbos srcbos) st = .ok (code, st') ∧
      (code = EOK → Clean cfg dest dmax st') := by
  obtain ⟨code, st', he, _, hq⟩ := wcsncpy_s_ext cfg dest dmax src slen destbos srcbos st hs.all (fun _ => hrw)
  exact ⟨code, st', he, fun hc => (hq ⟨hd, hpos, hle, hb⟩).2 hslen hc⟩

/-- dest = "ab" (2 cells at 100), default build -/
def wW : St :=
  { data := fun a => if a = 100 then 97 else if a = 101 then 98 else 0
    mapped := fun _ => true, rd := fun _ => true
    wr := fun a => decide (100 ≤ a ∧ a < 102) }

/-- the excluded point: `wcsncpy_s(d, 2, src, 0)` on d = "ab", null-slack build: EOK, `d[0] = 0` and the
stale 'b' remains behind the terminator -/
theorem wcsncpy_s_C08_witness :
    ∃ st', exec (wcsncpy_s { slack := true } 100 2 200 0 none none) wW = .ok (EOK, st') ∧
      st'.data 100 = 0 ∧ st'.data 101 = 98 := by
  refine ⟨_, rfl, ?_⟩
  simp [wW, St.upd, St.noteWr]

/-- wcscat_s, every src/placement/content, object size known or unknown, both builds -/
theorem wcscat_s_C08 (cfg : Cfg) (dest dmax src : Nat) (destbos : Bos) (st : St) (hs : Setting st)
    (hrw : RW st dest dmax) (hd : dest ≠ 0) (hpos : 0 < dmax) (hle : dmax ≤ RSIZE_MAX_WSTR)
    (hb : ∀ b, destbos = some b → dmax * SIZEOF_WCHAR_T ≤ b) :
    ∃ code st', exec (wcscat_s cfg dest dmax src destbos) st = .ok (code, st') ∧
      (code = EOK → Clean cfg dest dmax st') := by
  obtain ⟨code, st', he, _, hq⟩ := wcscat_s_ext cfg dest dmax src destbos st hs.all (fun _ => hrw)
  exact ⟨code, st', he, fun hc => (hq ⟨hd, hpos, hle, hb⟩).2 trivial hc⟩

/-- wcsncat_s, every src/slen (slen = 0 included: EOK means dest was cleared)/placement/content -/
theorem wcsncat_s_C08 (cfg : Cfg) (dest dmax src slen : Nat) (destbos srcbos : Bos) (st : St) (hs : Setting st)
    (hrw : RW st dest dmax) (hd : dest ≠ 0) (hpos : 0 < dmax) (hle : dmax ≤ RSIZE_MAX_WSTR)
    (hb : ∀ b, destbos = some b → dmax * SIZEOF_WCHAR_T ≤ b) :
    ∃ code st', exec (wcsncat_s cfg dest dmax src slen destbos srcbos) st = .ok (code, st') ∧
      (code = EOK → Clean cfg dest dmax st') := by
  obtain ⟨code, st', he, _, hq⟩ := wcsncat_s_ext cfg dest dmax src slen destbos srcbos st hs.all (fun _ => hrw)
  exact ⟨code, st', he, fun hc => (hq ⟨hd, hpos, hle, hb⟩).2 trivial hc⟩

/-! ## the stp pair: the returned pointer is the terminator (C06) and nothing stale lies behind it -/

/-- the C08 + C06-pointer conclusion for `r = (pointer, EOK)` -/
def CleanAt (cfg : Cfg) (dest dmax p : Nat) (st' : St) : Prop :=
  dest ≤ p ∧ p < dest + dmax ∧ (∀ a, dest ≤ a → a < p → st'.data a ≠ 0) ∧ st'.data p = 0 ∧
    (cfg.slack = true → ∀ a, p ≤ a → a < dest + dmax → st'.data a = 0)

/-- stpcpy_s, any knowledge of object sizes (dmax inside dest's), every src incl. `src == dest`, every
placement/content, both builds: on EOK the returned pointer is the address of the terminator inside dest,
the cells in front of it are non-zero, and with null-slack everything from it to dmax is zero -/
theorem stpcpy_s_C08 (cfg : Cfg) (dest dmax src : Nat) (destbos srcbos : Bos) (st : St) (hs : Setting st)
    (hrw : RW st dest dmax) (hd : dest ≠ 0) (hpos : 0 < dmax) (hle : dmax ≤ RSIZE_MAX_STR)
    (hb : ∀ b, destbos = some b → dmax ≤ b) :
    ∃ r st', exec (stpcpy_s cfg dest dmax src destbos srcbos) st = .ok (r, st') ∧
      (r.2 = EOK → CleanAt cfg dest dmax r.1 st') := by
  obtain ⟨r, st', he, _, hq⟩ := stpcpy_s_ext cfg dest dmax src destbos srcbos st hs.all (fun _ => hrw) hb
  refine ⟨r, st', he, fun hc => ?_⟩
  obtain ⟨h1, h2, _, h4, h5, h6⟩ := (hq ⟨hd, hpos, hle⟩).1.ok hc
  exact ⟨h1, h2, h4, h5, h6⟩

/-- stpncpy_s (slen inside a known source object), every src/slen/placement/content, both builds -/
theorem stpncpy_s_C08 (cfg : Cfg) (dest dmax src slen : Nat) (destbos srcbos : Bos) (st : St) (hs : Setting st)
    (hrw : RW st dest dmax) (hd : dest ≠ 0) (hpos : 0 < dmax) (hle : dmax ≤ RSIZE_MAX_STR)
    (hb : ∀ b, destbos = some b → dmax ≤ b) (hsb : ∀ sb, srcbos = some sb → slen ≤ sb) :
    ∃ r st', exec (stpncpy_s cfg dest dmax src slen destbos srcbos) st = .ok (r, st') ∧
      (r.2 = EOK → CleanAt cfg dest dmax r.1 st') := by
  obtain ⟨r, st', he, _, hq⟩ := stpncpy_s_ext cfg dest dmax src slen destbos srcbos st hs.all (fun _ => hrw) hb hsb
  refine ⟨r, st', he, fun hc => ?_⟩
  obtain ⟨h1, h2, _, h4, h5, h6⟩ := (hq ⟨hd, hpos, hle⟩).1.ok hc
  exact ⟨h1, h2, h4, h5, h6⟩

/-! ## valid, non-overlapping operands: the cells in front of the terminator are exactly the result -/

theorem wcsncpy_eq_G (cfg : Cfg) (dest dmax src slen : Nat) (h : slen ≤ RSIZE_MAX_WSTR) :
    wcsncpy_s cfg dest dmax src slen none none = strncpyG RSIZE_MAX_WSTR cfg dest dmax src slen none none := by
  have h' : ¬ slen > RSIZE_MAX_WSTR := by omega
  unfold wcsncpy_s strncpyG chkDmaxClearW chkDmaxClear chkDmaxClearG chkSlenMaxClear failS
  simp only [h', if_false]
  rfl

/-- wcsncpy_s on valid non-overlapping operands, `m` = characters copied (the source string is shorter
than slen and `m` its length, or `m = slen`): when the result fits, EOK, `dest[0..m) = src[0..m)`,
`dest[m] = 0` (both builds) and with null-slack `dest[m..dmax) = 0`; only declared cells are touched -/
theorem wcsncpy_s_C08_exact (cfg : Cfg) (dest dmax src slen m : Nat) (st : St)
    (hd : dest ≠ 0) (hs : src ≠ 0) (hpos : 0 < dmax) (hle : dmax ≤ RSIZE_MAX_WSTR)
    (hslen : 0 < slen) (hslenle : slen ≤ RSIZE_MAX_WSTR)
    (hrw : RW st dest dmax)
    (hnz : ∀ j, j < m → st.data (src+j) ≠ 0)
    (hrd : ∀ j, j < m → st.mapped (src+j) = true ∧ st.rd (src+j) = true)
    (hfin : (m < slen ∧ st.data (src+m) = 0 ∧ st.mapped (src+m) = true ∧ st.rd (src+m) = true) ∨ slen = m)
    (hdisj : dest + dmax ≤ src ∨ src + m < dest) (hfit : m < dmax) :
    ∃ st', exec (wcsncpy_s cfg dest dmax src slen none none) st = .ok (EOK, st') ∧
      st'.strays = st.strays ∧
      (∀ i, i < m → st'.data (dest+i) = st.data (src+i)) ∧ st'.data (dest+m) = 0 ∧
      (cfg.slack = true → ∀ i, m ≤ i → i < dmax → st'.data (dest+i) = 0) := by
  rw [wcsncpy_eq_G cfg dest dmax src slen hslenle]
  obtain ⟨code, st', he, _, _, _, hstr, _, hok, _⟩ :=
    strncpyG_disjoint RSIZE_MAX_WSTR cfg dest dmax src slen m st hd hs hpos hle (by decide) hslen hslenle hrw hnz hrd hfin hdisj
  obtain ⟨hc, _, h3, h4, h5⟩ := hok hfit
  subst hc
  exact ⟨st', he, hstr, h3, h4, h5⟩

/-- wcscat_s on valid non-overlapping operands (dest holds a string of length dl, src one of length n,
`dl + n < dmax`): EOK, `dest = old dest ++ src`, terminator at `dl + n` (both builds), null-slack: zeros behind -/
theorem wcscat_s_C08_exact (cfg : Cfg) (dest dmax src dl n : Nat) (st : St)
    (hd : dest ≠ 0) (hs : src ≠ 0) (hpos : 0 < dmax) (hle : dmax ≤ RSIZE_MAX_WSTR)
    (hrw : RW st dest dmax) (hsrc : SrcStr st src n) (hdisj : Disjoint dest dmax src n)
    (hdl : dl < dmax) (hdnz : ∀ j, j < dl → st.data (dest+j) ≠ 0) (hdnul : st.data (dest+dl) = 0)
    (hfit : dl + n < dmax) :
    ∃ st', exec (wcscat_s cfg dest dmax src none) st = .ok (EOK, st') ∧
      st'.strays = st.strays ∧
      (∀ i, i < dl → st'.data (dest+i) = st.data (dest+i)) ∧
      (∀ i, i < n → st'.data (dest+dl+i) = st.data (src+i)) ∧ st'.data (dest+dl+n) = 0 ∧
      (cfg.slack = true → ∀ i, dl + n ≤ i → i < dmax → st'.data (dest+i) = 0) := by
  rw [SafeC.Props.C01.wcscat_eq]
  obtain ⟨code, st', he, _, _, _, hstr, _, hok, _⟩ :=
    strcatG_disjoint RSIZE_MAX_WSTR cfg dest dmax src dl n st hd hs hpos hle hrw hsrc hdisj hdl hdnz hdnul
  obtain ⟨hc, _, h3, h4, h5, h6⟩ := hok hfit
  subst hc
  exact ⟨st', he, hstr, h3, h4, h5, h6⟩

/-- wcsncat_s on valid non-overlapping operands (dest holds a string of length dl; `m` source characters
are appended: the source string is shorter than slen and `m` its length, or `m = slen`; `dl + m < dmax`):
EOK, `dest = old dest ++ src[0..m)`, terminator at `dl + m` (both builds), null-slack: zeros behind -/
theorem wcsncat_s_C08_exact (cfg : Cfg) (dest dmax src slen dl m : Nat) (st : St)
    (hd : dest ≠ 0) (hs : src ≠ 0) (hpos : 0 < dmax) (hle : dmax ≤ RSIZE_MAX_WSTR)
    (hslen : 0 < slen) (hslenle : slen ≤ RSIZE_MAX_WSTR)
    (hrw : RW st dest dmax)
    (hnz : ∀ j, j < m → st.data (src+j) ≠ 0)
    (hrd : ∀ j, j < m → st.mapped (src+j) = true ∧ st.rd (src+j) = true)
    (hfin : (m < slen ∧ st.data (src+m) = 0 ∧ st.mapped (src+m) = true ∧ st.rd (src+m) = true) ∨ slen = m)
    (hdisj : dest + dmax ≤ src ∨ src + m < dest)
    (hdl : dl < dmax) (hdnz : ∀ j, j < dl → st.data (dest+j) ≠ 0) (hdnul : st.data (dest+dl) = 0)
    (hfit : dl + m < dmax) :
    ∃ st', exec (wcsncat_s cfg dest dmax src slen none none) st = .ok (EOK, st') ∧
      st'.strays = st.strays ∧
      (∀ i, i < dl → st'.data (dest+i) = st.data (dest+i)) ∧
      (∀ i, i < m → st'.data (dest+dl+i) = st.data (src+i)) ∧ st'.data (dest+dl+m) = 0 ∧
      (cfg.slack = true → ∀ i, dl + m ≤ i → i < dmax → st'.data (dest+i) = 0) := by
  obtain ⟨code, st', he, _, _, _, hstr, _, hok, _⟩ :=
    wcsncat_s_disjoint cfg dest dmax src slen dl m st hd hs hpos hle hslen hslenle hrw hnz hrd hfin hdisj hdl hdnz hdnul
  obtain ⟨hc, _, h3, h4, h5, h6⟩ := hok hfit
  subst hc
  exact ⟨st', he, hstr, h3, h4, h5, h6⟩

/-- stpcpy_s on valid non-overlapping operands, source string of length `n < dmax` (object sizes unknown,
or known with dmax inside dest's and the string inside the source's): `*errp = EOK`, the returned pointer is
`dest + n`, `dest[0..n) = src[0..n)`, `dest[n] = 0` (both builds), null-slack: `dest[n..dmax) = 0`;
no handler call, nothing outside the declared extents touched -/
theorem stpcpy_s_C08_exact (cfg : Cfg) (dest dmax src n : Nat) (destbos srcbos : Bos) (st : St)
    (hd : dest ≠ 0) (hs : src ≠ 0) (hpos : 0 < dmax) (hle : dmax ≤ RSIZE_MAX_STR)
    (hb : ∀ b, destbos = some b → dmax ≤ b) (hsb : ∀ sb, srcbos = some sb → n < sb)
    (hrw : RW st dest dmax) (hsrc : SrcStr st src n) (hdisj : Disjoint dest dmax src n) (hfit : n < dmax) :
    ∃ st', exec (stpcpy_s cfg dest dmax src destbos srcbos) st = .ok ((dest + n, EOK), st') ∧
      st'.strays = st.strays ∧ st'.events = st.events ∧
      (∀ i, i < n → st'.data (dest+i) = st.data (src+i)) ∧ st'.data (dest+n) = 0 ∧
      (cfg.slack = true → ∀ i, n ≤ i → i < dmax → st'.data (dest+i) = 0) := by
  obtain ⟨r, st', he, _, _, _, hstr, _, hok, _⟩ :=
    stpcpy_s_disjoint cfg dest dmax src n destbos srcbos st hd hs hpos hle hb hsb hrw hsrc hdisj
  obtain ⟨hr, h2, h3, h4, h5⟩ := hok hfit
  subst hr
  exact ⟨st', he, hstr, h2, h3, h4, h5⟩

/-- stpncpy_s on valid non-overlapping operands, `m < dmax` characters copied (the source string is shorter
than slen and `m` its length, or `m = slen`; slen inside a known source object): `*errp = EOK`, the returned
pointer is `dest + m`, `dest[0..m) = src[0..m)`, `dest[m] = 0` (both builds), null-slack: zeros behind -/
theorem stpncpy_s_C08_exact (cfg : Cfg) (dest dmax src slen m : Nat) (destbos srcbos : Bos) (st : St)
    (hd : dest ≠ 0) (hs : src ≠ 0) (hpos : 0 < dmax) (hle : dmax ≤ RSIZE_MAX_STR)
    (hslenle : slen ≤ RSIZE_MAX_STR)
    (hb : ∀ b, destbos = some b → dmax ≤ b) (hsb : ∀ sb, srcbos = some sb → slen ≤ sb)
    (hrw : RW st dest dmax)
    (hnz : ∀ j, j < m → st.data (src+j) ≠ 0)
    (hrd : ∀ j, j < m → st.mapped (src+j) = true ∧ st.rd (src+j) = true)
    (hfin : (m < slen ∧ st.data (src+m) = 0 ∧ st.mapped (src+m) = true ∧ st.rd (src+m) = true) ∨ slen = m)
    (hdisj : dest + dmax ≤ src ∨ src + m < dest) (hfit : m < dmax) :
    ∃ st', exec (stpncpy_s cfg dest dmax src slen destbos srcbos) st = .ok ((dest + m, EOK), st') ∧
      st'.strays = st.strays ∧ st'.events = st.events ∧
      (∀ i, i < m → st'.data (dest+i) = st.data (src+i)) ∧ st'.data (dest+m) = 0 ∧
      (cfg.slack = true → ∀ i, m ≤ i → i < dmax → st'.data (dest+i) = 0) := by
  obtain ⟨r, st', he, _, _, _, hstr, _, hok, _⟩ :=
    stpncpy_s_disjoint cfg dest dmax src slen m destbos srcbos st hd hs hpos hle hslenle hb hsb hrw hnz hrd hfin hdisj
  obtain ⟨hr, h2, h3, h4, h5⟩ := hok hfit
  subst hr
  exact ⟨st', he, hstr, h2, h3, h4, h5⟩

/-- non-vacuity of the general theorems: dest = 5 writable cells at 100 in a 20-byte (wide) / 5-byte object -/
example : Setting exSt ∧ RW exSt 100 5 ∧ (100 : Nat) ≠ 0 ∧ 0 < 5 ∧ 5 ≤ RSIZE_MAX_WSTR ∧ 5 ≤ RSIZE_MAX_STR ∧
    (∀ b, (some 20 : Bos) = some b → 5 * SIZEOF_WCHAR_T ≤ b) ∧ (∀ b, (some 5 : Bos) = some b → 5 ≤ b) ∧ (2 : Nat) ≠ 0 := by
  refine ⟨⟨fun _ => ⟨rfl, rfl⟩, rfl⟩, fun i hi => ⟨rfl, ?_, rfl⟩, by decide, by decide, by decide, by decide, ?_, ?_, by decide⟩
  · simp [exSt]; omega
  · intro b h; injection h with h; subst h; decide
  · intro b h; injection h with h; subst h; decide

/-- non-vacuity of the exact theorems: `exSt` has src = "ab" at 200 (length 2), dest = 5 cells at 100 holding "" -/
example : RW exSt 100 5 ∧ SrcStr exSt 200 2 ∧ Disjoint 100 5 200 2 ∧ exSt.data (100 + 0) = 0 ∧
    ((2 < 3 ∧ exSt.data (200+2) = 0 ∧ exSt.mapped (200+2) = true ∧ exSt.rd (200+2) = true) ∨ 3 = 2) := by
  refine ⟨fun i hi => ⟨rfl, ?_, rfl⟩, ⟨?_, by simp [exSt], fun _ _ => ⟨rfl, rfl⟩⟩, Or.inl (by decide), by simp [exSt], Or.inl ⟨by decide, by simp [exSt], rfl, rfl⟩⟩
  · simp [exSt]; omega
  · intro j hj
    have : j = 0 ∨ j = 1 := by omega
    rcases this with h | h <;> subst h <;> simp [exSt]

end SafeC.Props.C08Ext

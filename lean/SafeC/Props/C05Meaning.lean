import SafeC.Proofs.EVCode
import SafeC.Proofs.OsEv
/-!
# C05, the "which arguments are violations" half in Lean: `*_meaning` theorems for functions whose result code is a
function of the ARGUMENTS alone (memory contents play no part)

For each function: `<fn>Code args` transcribed from the doc comment's `@retval` / `@pre` lines, `<fn>_code`
(`EV` form: every returning call returns exactly `<fn>Code args`, with no event when that is EOK and exactly one
handler event carrying it otherwise — for ALL arguments and ALL memory contents and mappings), `<fn>_meaning` (the same
for runs) and `<fn>Code_eok_iff` (EOK exactly when no documented runtime-constraint is violated).

The memory family is stated here with the object sizes UNKNOWN (`destbos = srcbos = none`, the library's own view of
its parameters); with a known size the code widens `dmax` (known findings `memset-bos-widens-dmax`,
`mem16-32-bos-widens-dmax`).
-/
set_option linter.unusedSimpArgs false
namespace SafeC.Props.C05Meaning
open SafeC Gen Mem SafeC.Props.C05Ev SafeC.Props.C05Mem

/-! ## memset_s -/

/-- src/mem/memset_s.c: `@retval EOK when operation is successful or n = 0`, `ESNULLP when dest is NULL pointer`,
`ESLEMAX when dmax/n > RSIZE_MAX_MEM or value > 255`, `ESNOSPC when dmax < n` (`value` is a C `int`) -/
def memsetCode (dest dmax value n : Nat) : Nat :=
  if dest = 0 then ESNULLP
  else if n = 0 then EOK
  else if dmax > RSIZE_MAX_MEM then ESLEMAX
  else if asInt value > 255 then ESLEMAX
  else if n > dmax then (if n > RSIZE_MAX_MEM then ESLEMAX else ESNOSPC)
  else EOK

theorem memset_s_code (dest dmax value n : Nat) :
    EV (memset_s dest dmax value n none) (Is .mem (memsetCode dest dmax value n)) := by
  by_cases h1 : dest = 0
  · simp only [memset_s, memsetCode, h1, if_true]; exact is_failM _ (by decide)
  by_cases h2 : n = 0
  · simp only [memset_s, memsetCode, h1, h2, if_true, if_false]; exact is_eok
  by_cases h3 : dmax > RSIZE_MAX_MEM
  · simp only [memset_s, memsetCode, chkDmaxMemB, h1, h2, h3, if_true, if_false]; exact is_failM _ (by decide)
  by_cases h4 : asInt value > 255
  · simp only [memset_s, memsetCode, chkDmaxMemB, h1, h2, h3, h4, if_true, if_false]; exact is_failM _ (by decide)
  by_cases h5 : n > dmax
  · by_cases h6 : n > RSIZE_MAX_MEM
    · simp only [memset_s, memsetCode, chkDmaxMemB, Option.getD_none, h1, h2, h3, h4, h5, h6, if_true, if_false]
      exact is_report_work (q_mem_prim_set _ _ _ _) _ (by decide)
    · simp only [memset_s, memsetCode, chkDmaxMemB, Option.getD_none, h1, h2, h3, h4, h5, h6, if_true, if_false]
      exact is_report_work (q_mem_prim_set _ _ _ _) _ (by decide)
  · simp only [memset_s, memsetCode, chkDmaxMemB, Option.getD_none, h1, h2, h3, h4, h5, if_true, if_false]
    exact is_work_eok (q_mem_prim_set _ _ _ _)

/-- memset_s, object size unknown: every returning call hands back exactly `memsetCode` of its arguments; a violation
is reported exactly once with that code, a call without one reports nothing -/
theorem memset_s_meaning (dest dmax value n : Nat) (st : St) (r : Nat) (st' : St)
    (he : exec (memset_s dest dmax value n none) st = .ok (r, st')) :
    r = memsetCode dest dmax value n ∧
      ((r = EOK ∧ st'.events = st.events) ∨ (r ≠ EOK ∧ st'.events = st.events ++ [.handler .mem r])) :=
  Is.sound (memset_s_code ..) st r st' he

/-- EOK exactly when no documented runtime-constraint is violated (`n ≤ RSIZE_MAX_MEM` follows from the last two) -/
theorem memsetCode_eok_iff (dest dmax value n : Nat) :
    memsetCode dest dmax value n = EOK ↔
      dest ≠ 0 ∧ (n = 0 ∨ (dmax ≤ RSIZE_MAX_MEM ∧ asInt value ≤ 255 ∧ n ≤ dmax)) := by
  have e1 : ESNULLP ≠ EOK := by decide
  have e2 : ESLEMAX ≠ EOK := by decide
  have e3 : ESNOSPC ≠ EOK := by decide
  unfold memsetCode
  repeat' split
  all_goals simp only [e1, e2, e3, false_iff, true_iff, not_and, not_or, ne_eq]
  all_goals omega

/-- non-vacuity: a reporting run (n > dmax) -/
example : ((exec (memset_s 100 1 7 2 none)
      { data := fun _ => 0, mapped := fun _ => true, rd := fun _ => true, wr := fun _ => true }).toOption.map
        (fun x => (x.1, x.2.events))) = some (memsetCode 100 1 7 2, [.handler .mem ESNOSPC]) := by decide

/-! ## memzero_s -/

/-- src/extmem/memzero_s.c: `@retval EOK when operation is successful`, `ESNULLP when dest is NULL POINTER`,
`ESZEROL when len = ZERO`, `ESLEMAX when len > RSIZE_MAX_MEM` -/
def memzeroCode (dest len : Nat) : Nat :=
  if dest = 0 then ESNULLP
  else if len = 0 then ESZEROL
  else if len > RSIZE_MAX_MEM then ESLEMAX
  else EOK

theorem memzero_s_code (dest len : Nat) : EV (memzero_s dest len none) (Is .mem (memzeroCode dest len)) := by
  by_cases h1 : dest = 0
  · simp only [memzero_s, memzeroCode, h1, if_true]; exact is_failM _ (by decide)
  by_cases h2 : len = 0
  · simp only [memzero_s, memzeroCode, h1, h2, if_true, if_false]; exact is_failM _ (by decide)
  by_cases h3 : len > RSIZE_MAX_MEM
  · simp only [memzero_s, memzeroCode, chkDmaxMemB, h1, h2, h3, if_true, if_false]; exact is_failM _ (by decide)
  · simp only [memzero_s, memzeroCode, chkDmaxMemB, h1, h2, h3, if_false]
    exact is_work_eok (q_memsetBytes _ _ _ _)

/-- memzero_s, object size unknown: the code is `memzeroCode` of the arguments, reported exactly once iff ≠ EOK -/
theorem memzero_s_meaning (dest len : Nat) (st : St) (r : Nat) (st' : St)
    (he : exec (memzero_s dest len none) st = .ok (r, st')) :
    r = memzeroCode dest len ∧
      ((r = EOK ∧ st'.events = st.events) ∨ (r ≠ EOK ∧ st'.events = st.events ++ [.handler .mem r])) :=
  Is.sound (memzero_s_code ..) st r st' he

theorem memzeroCode_eok_iff (dest len : Nat) :
    memzeroCode dest len = EOK ↔ dest ≠ 0 ∧ len ≠ 0 ∧ len ≤ RSIZE_MAX_MEM := by
  have e1 : ESNULLP ≠ EOK := by decide
  have e2 : ESLEMAX ≠ EOK := by decide
  have e3 : ESZEROL ≠ EOK := by decide
  unfold memzeroCode
  repeat' split
  all_goals simp only [e1, e2, e3, false_iff, true_iff, not_and, not_or, ne_eq]
  all_goals omega

example : ((exec (memzero_s 100 0 none)
      { data := fun _ => 0, mapped := fun _ => true, rd := fun _ => true, wr := fun _ => true }).toOption.map
        (fun x => (x.1, x.2.events))) = some (memzeroCode 100 0, [.handler .mem ESZEROL]) := by decide

/-! ## memset16_s, memset32_s (`dmax` in bytes, `n` in elements) -/

/-- src/extmem/memset16_s.c: `@retval EOK when operation is successful or n = 0`, `ESNULLP when dest is NULL POINTER`,
`ESLEMAX when dmax > RSIZE_MAX_MEM or n > RSIZE_MAX_MEM16`, `ESNOSPC when 2*n > dmax` -/
def memset16Code (dest dmax n : Nat) : Nat :=
  if dest = 0 then ESNULLP
  else if n = 0 then EOK
  else if dmax > RSIZE_MAX_MEM then ESLEMAX
  else if 2 * n > dmax then (if n > RSIZE_MAX_MEM16 then ESLEMAX else ESNOSPC)
  else EOK

theorem memset16_s_code (dest dmax value n : Nat) :
    EV (memset16_s dest dmax value n none) (Is .mem (memset16Code dest dmax n)) := by
  by_cases h1 : dest = 0
  · simp only [memset16_s, memset16Code, h1, if_true]; exact is_failM _ (by decide)
  by_cases h2 : n = 0
  · simp only [memset16_s, memset16Code, h1, h2, if_true, if_false]; exact is_eok
  by_cases h3 : dmax > RSIZE_MAX_MEM
  · simp only [memset16_s, memset16Code, chkDmaxMemB, h1, h2, h3, if_true, if_false]; exact is_failM _ (by decide)
  by_cases h5 : n > dmax / 2
  · have h5' : 2 * n > dmax := by omega
    by_cases h6 : n > RSIZE_MAX_MEM16
    · simp only [memset16_s, memset16Code, chkDmaxMemB, Option.getD_none, h1, h2, h3, h5, h5', h6, if_true, if_false]
      exact is_report_work (q_mem_prim_set16 _ _ _) _ (by decide)
    · simp only [memset16_s, memset16Code, chkDmaxMemB, Option.getD_none, h1, h2, h3, h5, h5', h6, if_true, if_false]
      exact is_report_work (q_mem_prim_set16 _ _ _) _ (by decide)
  · have h5' : ¬ 2 * n > dmax := by omega
    simp only [memset16_s, memset16Code, chkDmaxMemB, Option.getD_none, h1, h2, h3, h5, h5', if_true, if_false]
    exact is_work_eok (q_mem_prim_set16 _ _ _)

/-- memset16_s, object size unknown: the code is `memset16Code` of the arguments (the fill value plays no part) -/
theorem memset16_s_meaning (dest dmax value n : Nat) (st : St) (r : Nat) (st' : St)
    (he : exec (memset16_s dest dmax value n none) st = .ok (r, st')) :
    r = memset16Code dest dmax n ∧
      ((r = EOK ∧ st'.events = st.events) ∨ (r ≠ EOK ∧ st'.events = st.events ++ [.handler .mem r])) :=
  Is.sound (memset16_s_code ..) st r st' he

theorem memset16Code_eok_iff (dest dmax n : Nat) :
    memset16Code dest dmax n = EOK ↔
      dest ≠ 0 ∧ (n = 0 ∨ (dmax ≤ RSIZE_MAX_MEM ∧ n ≤ RSIZE_MAX_MEM16 ∧ 2 * n ≤ dmax)) := by
  have e1 : ESNULLP ≠ EOK := by decide
  have e2 : ESLEMAX ≠ EOK := by decide
  have e3 : ESNOSPC ≠ EOK := by decide
  have hm : RSIZE_MAX_MEM = 2 * RSIZE_MAX_MEM16 := by decide
  unfold memset16Code
  repeat' split
  all_goals simp only [e1, e2, e3, false_iff, true_iff, not_and, not_or, ne_eq]
  all_goals omega

/-- src/extmem/memset32_s.c: as memset16_s with `RSIZE_MAX_MEM32` and `4*n > dmax` -/
def memset32Code (dest dmax n : Nat) : Nat :=
  if dest = 0 then ESNULLP
  else if n = 0 then EOK
  else if dmax > RSIZE_MAX_MEM then ESLEMAX
  else if 4 * n > dmax then (if n > RSIZE_MAX_MEM32 then ESLEMAX else ESNOSPC)
  else EOK

theorem memset32_s_code (dest dmax value n : Nat) :
    EV (memset32_s dest dmax value n none) (Is .mem (memset32Code dest dmax n)) := by
  by_cases h1 : dest = 0
  · simp only [memset32_s, memset32Code, h1, if_true]; exact is_failM _ (by decide)
  by_cases h2 : n = 0
  · simp only [memset32_s, memset32Code, h1, h2, if_true, if_false]; exact is_eok
  by_cases h3 : dmax > RSIZE_MAX_MEM
  · simp only [memset32_s, memset32Code, chkDmaxMemB, h1, h2, h3, if_true, if_false]; exact is_failM _ (by decide)
  by_cases h5 : n > dmax / 4
  · have h5' : 4 * n > dmax := by omega
    by_cases h6 : n > RSIZE_MAX_MEM32
    · simp only [memset32_s, memset32Code, chkDmaxMemB, Option.getD_none, h1, h2, h3, h5, h5', h6, if_true, if_false]
      exact is_report_work (q_mem_prim_set32 _ _ _) _ (by decide)
    · simp only [memset32_s, memset32Code, chkDmaxMemB, Option.getD_none, h1, h2, h3, h5, h5', h6, if_true, if_false]
      exact is_report_work (q_mem_prim_set32 _ _ _) _ (by decide)
  · have h5' : ¬ 4 * n > dmax := by omega
    simp only [memset32_s, memset32Code, chkDmaxMemB, Option.getD_none, h1, h2, h3, h5, h5', if_true, if_false]
    exact is_work_eok (q_mem_prim_set32 _ _ _)

/-- memset32_s, object size unknown: the code is `memset32Code` of the arguments -/
theorem memset32_s_meaning (dest dmax value n : Nat) (st : St) (r : Nat) (st' : St)
    (he : exec (memset32_s dest dmax value n none) st = .ok (r, st')) :
    r = memset32Code dest dmax n ∧
      ((r = EOK ∧ st'.events = st.events) ∨ (r ≠ EOK ∧ st'.events = st.events ++ [.handler .mem r])) :=
  Is.sound (memset32_s_code ..) st r st' he

theorem memset32Code_eok_iff (dest dmax n : Nat) :
    memset32Code dest dmax n = EOK ↔
      dest ≠ 0 ∧ (n = 0 ∨ (dmax ≤ RSIZE_MAX_MEM ∧ n ≤ RSIZE_MAX_MEM32 ∧ 4 * n ≤ dmax)) := by
  have e1 : ESNULLP ≠ EOK := by decide
  have e2 : ESLEMAX ≠ EOK := by decide
  have e3 : ESNOSPC ≠ EOK := by decide
  have hm : RSIZE_MAX_MEM = 4 * RSIZE_MAX_MEM32 := by decide
  unfold memset32Code
  repeat' split
  all_goals simp only [e1, e2, e3, false_iff, true_iff, not_and, not_or, ne_eq]
  all_goals omega

example : ((exec (memset16_s 100 2 7 2 none)
      { data := fun _ => 0, mapped := fun _ => true, rd := fun _ => true, wr := fun _ => true }).toOption.map
        (fun x => (x.1, x.2.events))) = some (memset16Code 100 2 2, [.handler .mem ESNOSPC]) := by decide
example : ((exec (memset32_s 100 4 7 2 none)
      { data := fun _ => 0, mapped := fun _ => true, rd := fun _ => true, wr := fun _ => true }).toOption.map
        (fun x => (x.1, x.2.events))) = some (memset32Code 100 4 2, [.handler .mem ESNOSPC]) := by decide

/-! ## memcpy_s, memmove_s -/

/-- src/mem/memcpy_s.c: `@retval EOK when operation is successful or slen = 0`, `ESNULLP when dest/src is NULL POINTER`,
`ESZEROL when dmax = 0`, `ESLEMAX when dmax/slen > RSIZE_MAX_MEM`, `ESNOSPC when dmax < slen`,
`ESOVRLP when src memory overlaps dst` (the code: `CHK_OVRLP_BUTSAME`, "overlap is disallowed, but allow dest==src" —
a function of the ADDRESSES and sizes only, `ovrlpButSame_iff`) -/
def memcpyCode (dest dmax src slen : Nat) : Nat :=
  if slen = 0 then EOK
  else if dest = 0 then ESNULLP
  else if dmax = 0 then ESZEROL
  else if dmax > RSIZE_MAX_MEM then ESLEMAX
  else if src = 0 then ESNULLP
  else if slen > dmax then (if slen > RSIZE_MAX_MEM then ESLEMAX else ESNOSPC)
  else if ovrlpButSame 1 dest dmax src slen then ESOVRLP
  else EOK

/-- `CHK_OVRLP_BUTSAME` on byte operands that do not wrap around the address space: the two regions
`[dest, dest+dmax)` and `[src, src+slen)` intersect and the pointers differ -/
theorem ovrlpButSame_iff (dest dmax src slen : Nat) (hd : dest + dmax < U64) (hs : src + slen < U64) :
    ovrlpButSame 1 dest dmax src slen = true ↔ dest ≠ src ∧ dest < src + slen ∧ src < dest + dmax := by
  simp only [ovrlpButSame, Nat.mul_one, Nat.mod_eq_of_lt hd, Nat.mod_eq_of_lt hs, Bool.or_eq_true, Bool.and_eq_true,
    decide_eq_true_eq]
  omega

theorem memcpy_s_code (dest dmax src slen : Nat) :
    EV (memcpy_s dest dmax src slen none none) (Is .mem (memcpyCode dest dmax src slen)) := by
  by_cases h1 : slen = 0
  · simp only [memcpy_s, memcpyCode, h1, if_true]; exact is_eok
  by_cases h2 : dest = 0
  · simp only [memcpy_s, memcpyCode, h1, h2, if_true, if_false]; exact is_failM _ (by decide)
  by_cases h3 : dmax = 0
  · simp only [memcpy_s, memcpyCode, h1, h2, h3, if_true, if_false]; exact is_failM _ (by decide)
  by_cases h4 : dmax > RSIZE_MAX_MEM
  · simp only [memcpy_s, memcpyCode, chkDmaxMemB, h1, h2, h3, h4, if_true, if_false]; exact is_failM _ (by decide)
  by_cases h5 : src = 0
  · simp only [memcpy_s, memcpyCode, chkDmaxMemB, h1, h2, h3, h4, h5, if_true, if_false]
    exact is_handleMemErrorB _ _ _ _ (by decide)
  by_cases h6 : slen > dmax
  · by_cases h7 : slen > RSIZE_MAX_MEM
    · simp only [memcpy_s, memcpyCode, chkDmaxMemB, h1, h2, h3, h4, h5, h6, h7, if_true, if_false]
      exact is_handleMemErrorB _ _ _ _ (by decide)
    · simp only [memcpy_s, memcpyCode, chkDmaxMemB, h1, h2, h3, h4, h5, h6, h7, if_true, if_false]
      exact is_handleMemErrorB _ _ _ _ (by decide)
  by_cases h8 : ovrlpButSame 1 dest dmax src slen = true
  · simp only [memcpy_s, memcpyCode, chkDmaxMemB, exceeds, Bool.false_eq_true, h1, h2, h3, h4, h5, h6, h8, if_true, if_false]
    exact is_clear_report (q_mem_prim_set _ _ _ _) _ (by decide)
  · simp only [memcpy_s, memcpyCode, chkDmaxMemB, exceeds, Bool.false_eq_true, h1, h2, h3, h4, h5, h6, h8, if_true, if_false]
    exact is_work_eok (q_mem_prim_move _ _ _)

/-- memcpy_s, object sizes unknown: the code is `memcpyCode` of the arguments (addresses and sizes; no memory content) -/
theorem memcpy_s_meaning (dest dmax src slen : Nat) (st : St) (r : Nat) (st' : St)
    (he : exec (memcpy_s dest dmax src slen none none) st = .ok (r, st')) :
    r = memcpyCode dest dmax src slen ∧
      ((r = EOK ∧ st'.events = st.events) ∨ (r ≠ EOK ∧ st'.events = st.events ++ [.handler .mem r])) :=
  Is.sound (memcpy_s_code ..) st r st' he

/-- EOK exactly when no documented constraint is violated (`slen ≤ RSIZE_MAX_MEM` follows) -/
theorem memcpyCode_eok_iff (dest dmax src slen : Nat) :
    memcpyCode dest dmax src slen = EOK ↔
      slen = 0 ∨ (dest ≠ 0 ∧ dmax ≠ 0 ∧ dmax ≤ RSIZE_MAX_MEM ∧ src ≠ 0 ∧ slen ≤ dmax ∧
        ovrlpButSame 1 dest dmax src slen = false) := by
  have e1 : ESNULLP ≠ EOK := by decide
  have e2 : ESLEMAX ≠ EOK := by decide
  have e3 : ESNOSPC ≠ EOK := by decide
  have e4 : ESZEROL ≠ EOK := by decide
  have e5 : ESOVRLP ≠ EOK := by decide
  unfold memcpyCode
  repeat' split
  all_goals simp only [e1, e2, e3, e4, e5, false_iff, true_iff, not_and, not_or, ne_eq, Bool.not_eq_false]
  all_goals first | omega | grind

/-- the doc comment's "regions that overlap" reading of `memcpyCode_eok_iff` for operands that do not wrap: dest == src
(a complete overlap) is NOT rejected — the code's own comment says so, the `@pre` line does not -/
theorem memcpyCode_eok_iff_regions (dest dmax src slen : Nat) (hd : dest + dmax < U64) (hs : src + slen < U64) :
    memcpyCode dest dmax src slen = EOK ↔
      slen = 0 ∨ (dest ≠ 0 ∧ dmax ≠ 0 ∧ dmax ≤ RSIZE_MAX_MEM ∧ src ≠ 0 ∧ slen ≤ dmax ∧
        (dest = src ∨ src + slen ≤ dest ∨ dest + dmax ≤ src)) := by
  rw [memcpyCode_eok_iff]
  have h := ovrlpButSame_iff dest dmax src slen hd hs
  have : ovrlpButSame 1 dest dmax src slen = false ↔ (dest = src ∨ src + slen ≤ dest ∨ dest + dmax ≤ src) := by
    rw [← Bool.not_eq_true, h]; omega
  rw [this]

/-- src/mem/memmove_s.c: as memcpy_s without the overlap line -/
def memmoveCode (dest dmax src slen : Nat) : Nat :=
  if slen = 0 then EOK
  else if dest = 0 then ESNULLP
  else if dmax = 0 then ESZEROL
  else if dmax > RSIZE_MAX_MEM then ESLEMAX
  else if src = 0 then ESNULLP
  else if slen > dmax then (if slen > RSIZE_MAX_MEM then ESLEMAX else ESNOSPC)
  else EOK

theorem memmove_s_code (dest dmax src slen : Nat) :
    EV (memmove_s dest dmax src slen none none) (Is .mem (memmoveCode dest dmax src slen)) := by
  by_cases h1 : slen = 0
  · simp only [memmove_s, memmoveCode, h1, if_true]; exact is_eok
  by_cases h2 : dest = 0
  · simp only [memmove_s, memmoveCode, h1, h2, if_true, if_false]; exact is_failM _ (by decide)
  by_cases h3 : dmax = 0
  · simp only [memmove_s, memmoveCode, h1, h2, h3, if_true, if_false]; exact is_failM _ (by decide)
  by_cases h4 : dmax > RSIZE_MAX_MEM
  · simp only [memmove_s, memmoveCode, chkDmaxMemB, h1, h2, h3, h4, if_true, if_false]; exact is_failM _ (by decide)
  by_cases h5 : src = 0
  · simp only [memmove_s, memmoveCode, chkDmaxMemB, h1, h2, h3, h4, h5, if_true, if_false]
    exact is_handleMemErrorB _ _ _ _ (by decide)
  by_cases h6 : slen > dmax
  · by_cases h7 : slen > RSIZE_MAX_MEM
    · simp only [memmove_s, memmoveCode, chkDmaxMemB, h1, h2, h3, h4, h5, h6, h7, if_true, if_false]
      exact is_handleMemErrorB _ _ _ _ (by decide)
    · simp only [memmove_s, memmoveCode, chkDmaxMemB, h1, h2, h3, h4, h5, h6, h7, if_true, if_false]
      exact is_handleMemErrorB _ _ _ _ (by decide)
  · simp only [memmove_s, memmoveCode, chkDmaxMemB, exceeds, Bool.false_eq_true, h1, h2, h3, h4, h5, h6, if_true, if_false]
    exact is_work_eok (q_mem_prim_move _ _ _)

/-- memmove_s, object sizes unknown: the code is `memmoveCode` of the arguments -/
theorem memmove_s_meaning (dest dmax src slen : Nat) (st : St) (r : Nat) (st' : St)
    (he : exec (memmove_s dest dmax src slen none none) st = .ok (r, st')) :
    r = memmoveCode dest dmax src slen ∧
      ((r = EOK ∧ st'.events = st.events) ∨ (r ≠ EOK ∧ st'.events = st.events ++ [.handler .mem r])) :=
  Is.sound (memmove_s_code ..) st r st' he

theorem memmoveCode_eok_iff (dest dmax src slen : Nat) :
    memmoveCode dest dmax src slen = EOK ↔
      slen = 0 ∨ (dest ≠ 0 ∧ dmax ≠ 0 ∧ dmax ≤ RSIZE_MAX_MEM ∧ src ≠ 0 ∧ slen ≤ dmax) := by
  have e1 : ESNULLP ≠ EOK := by decide
  have e2 : ESLEMAX ≠ EOK := by decide
  have e3 : ESNOSPC ≠ EOK := by decide
  have e4 : ESZEROL ≠ EOK := by decide
  unfold memmoveCode
  repeat' split
  all_goals simp only [e1, e2, e3, e4, false_iff, true_iff, not_and, not_or, ne_eq]
  all_goals omega

/-- non-vacuity: an overlap report of memcpy_s, and the same operands accepted by memmove_s -/
example : ((exec (memcpy_s 100 4 102 4 none none)
      { data := fun _ => 7, mapped := fun _ => true, rd := fun _ => true, wr := fun _ => true }).toOption.map
        (fun x => (x.1, x.2.events))) = some (memcpyCode 100 4 102 4, [.handler .mem ESOVRLP]) := by decide
example : ((exec (memmove_s 100 4 102 4 none none)
      { data := fun _ => 7, mapped := fun _ => true, rd := fun _ => true, wr := fun _ => true }).toOption.map
        (fun x => (x.1, x.2.events))) = some (memmoveCode 100 4 102 4, []) := by decide

/-! ## memzero16_s, memzero32_s: `len` in elements; the byte size `len * 2` / `len * 4` is computed without an
overflow check (known finding `mem-size-multiplication-wraps`) -/

/-- src/extmem/memzero16_s.c: `@retval EOK when operation is successful`, `ESNULLP when dest is NULL POINTER`,
`ESZEROL when len = ZERO`, `ESLEMAX when len > RSIZE_MAX_MEM16` -/
def memzero16Code (dest len : Nat) : Nat :=
  if dest = 0 then ESNULLP
  else if len = 0 then ESZEROL
  else if len > RSIZE_MAX_MEM16 then ESLEMAX
  else EOK

/- FULL statement, false of the code (`memzero16_s_meaning_witness`):
   ∀ dest len, EV (memzero16_s dest len none) (Is .mem (memzero16Code dest len)) -/
theorem memzero16_s_code_partial (dest len : Nat) (hl : len < 2 ^ 63) :
    EV (memzero16_s dest len none) (Is .mem (memzero16Code dest len)) := by
  have hd : (len * 2) % U64 = len * 2 := Nat.mod_eq_of_lt (by unfold U64; omega)
  have hm : RSIZE_MAX_MEM = 2 * RSIZE_MAX_MEM16 := by decide
  by_cases h1 : dest = 0
  · simp only [memzero16_s, memzero16Code, h1, if_true]; exact is_failM _ (by decide)
  by_cases h2 : len = 0
  · simp only [memzero16_s, memzero16Code, h1, h2, if_true, if_false]; exact is_failM _ (by decide)
  have h2' : ¬ len * 2 = 0 := by omega
  by_cases h3 : len > RSIZE_MAX_MEM16
  · have h3' : len * 2 > RSIZE_MAX_MEM := by omega
    simp only [memzero16_s, memzero16Code, chkDmaxMemB, hd, h1, h2, h2', h3, h3', if_true, if_false]
    exact is_failM _ (by decide)
  · have h3' : ¬ len * 2 > RSIZE_MAX_MEM := by omega
    simp only [memzero16_s, memzero16Code, chkDmaxMemB, hd, h1, h2, h2', h3, h3', if_false]
    exact is_work_eok (q_mem_prim_set16 _ _ _)

/-- memzero16_s, object size unknown, element count below 2^63: the code is `memzero16Code` of the arguments -/
theorem memzero16_s_meaning_partial (dest len : Nat) (hl : len < 2 ^ 63) (st : St) (r : Nat) (st' : St)
    (he : exec (memzero16_s dest len none) st = .ok (r, st')) :
    r = memzero16Code dest len ∧
      ((r = EOK ∧ st'.events = st.events) ∨ (r ≠ EOK ∧ st'.events = st.events ++ [.handler .mem r])) :=
  Is.sound (memzero16_s_code_partial dest len hl) st r st' he

/-- the excluded point: `memzero16_s(d, 2^63 + 1)`: `len * 2` wraps to 2, the call returns EOK without a report although
`len > RSIZE_MAX_MEM16` (doc comment: ESLEMAX) -/
theorem memzero16_s_meaning_witness :
    ((exec (memzero16_s 100 (2 ^ 63 + 1) none)
      { data := fun _ => 7, mapped := fun _ => true, rd := fun _ => true, wr := fun _ => true }).toOption.map
        (fun x => (x.1, x.2.events))) = some (EOK, []) ∧ memzero16Code 100 (2 ^ 63 + 1) = ESLEMAX := by
  decide

theorem memzero16Code_eok_iff (dest len : Nat) :
    memzero16Code dest len = EOK ↔ dest ≠ 0 ∧ len ≠ 0 ∧ len ≤ RSIZE_MAX_MEM16 := by
  have e1 : ESNULLP ≠ EOK := by decide
  have e2 : ESLEMAX ≠ EOK := by decide
  have e3 : ESZEROL ≠ EOK := by decide
  unfold memzero16Code
  repeat' split
  all_goals simp only [e1, e2, e3, false_iff, true_iff, not_and, not_or, ne_eq]
  all_goals omega

/-- src/extmem/memzero32_s.c: as memzero16_s with `RSIZE_MAX_MEM32` -/
def memzero32Code (dest len : Nat) : Nat :=
  if dest = 0 then ESNULLP
  else if len = 0 then ESZEROL
  else if len > RSIZE_MAX_MEM32 then ESLEMAX
  else EOK

/- FULL statement, false of the code (`memzero32_s_meaning_witness`):
   ∀ dest len, EV (memzero32_s dest len none) (Is .mem (memzero32Code dest len)) -/
theorem memzero32_s_code_partial (dest len : Nat) (hl : len < 2 ^ 62) :
    EV (memzero32_s dest len none) (Is .mem (memzero32Code dest len)) := by
  have hd : (len * 4) % U64 = len * 4 := Nat.mod_eq_of_lt (by unfold U64; omega)
  have hm : RSIZE_MAX_MEM = 4 * RSIZE_MAX_MEM32 := by decide
  by_cases h1 : dest = 0
  · simp only [memzero32_s, memzero32Code, h1, if_true]; exact is_failM _ (by decide)
  by_cases h2 : len = 0
  · simp only [memzero32_s, memzero32Code, h1, h2, if_true, if_false]; exact is_failM _ (by decide)
  have h2' : ¬ len * 4 = 0 := by omega
  by_cases h3 : len > RSIZE_MAX_MEM32
  · have h3' : len * 4 > RSIZE_MAX_MEM := by omega
    simp only [memzero32_s, memzero32Code, chkDmaxMemB, hd, h1, h2, h2', h3, h3', if_true, if_false]
    exact is_failM _ (by decide)
  · have h3' : ¬ len * 4 > RSIZE_MAX_MEM := by omega
    simp only [memzero32_s, memzero32Code, chkDmaxMemB, hd, h1, h2, h2', h3, h3', if_false]
    exact is_work_eok (q_mem_prim_set32 _ _ _)

/-- memzero32_s, object size unknown, element count below 2^62: the code is `memzero32Code` of the arguments -/
theorem memzero32_s_meaning_partial (dest len : Nat) (hl : len < 2 ^ 62) (st : St) (r : Nat) (st' : St)
    (he : exec (memzero32_s dest len none) st = .ok (r, st')) :
    r = memzero32Code dest len ∧
      ((r = EOK ∧ st'.events = st.events) ∨ (r ≠ EOK ∧ st'.events = st.events ++ [.handler .mem r])) :=
  Is.sound (memzero32_s_code_partial dest len hl) st r st' he

/-- the excluded point: `memzero32_s(d, 2^62 + 1)`: `len * 4` wraps to 4 → EOK, no report (doc comment: ESLEMAX) -/
theorem memzero32_s_meaning_witness :
    ((exec (memzero32_s 100 (2 ^ 62 + 1) none)
      { data := fun _ => 7, mapped := fun _ => true, rd := fun _ => true, wr := fun _ => true }).toOption.map
        (fun x => (x.1, x.2.events))) = some (EOK, []) ∧ memzero32Code 100 (2 ^ 62 + 1) = ESLEMAX := by
  decide

theorem memzero32Code_eok_iff (dest len : Nat) :
    memzero32Code dest len = EOK ↔ dest ≠ 0 ∧ len ≠ 0 ∧ len ≤ RSIZE_MAX_MEM32 := by
  have e1 : ESNULLP ≠ EOK := by decide
  have e2 : ESLEMAX ≠ EOK := by decide
  have e3 : ESZEROL ≠ EOK := by decide
  unfold memzero32Code
  repeat' split
  all_goals simp only [e1, e2, e3, false_iff, true_iff, not_and, not_or, ne_eq]
  all_goals omega

/-- non-vacuity of the partial statements: a reporting run within the hypothesis -/
example : (3 : Nat) < 2 ^ 63 ∧ ((exec (memzero16_s 0 3 none)
      { data := fun _ => 7, mapped := fun _ => true, rd := fun _ => true, wr := fun _ => true }).toOption.map
        (fun x => (x.1, x.2.events))) = some (memzero16Code 0 3, [.handler .mem ESNULLP]) := by decide

/-! ## the in-place setters `strzero_s`, `strset_s`, `strnset_s` (str handler; object size known or not)

Their codes do not depend on the cells (an unterminated `dest` is a `@pre` without a `@retval`: the loops stop after
`dmax` cells and nothing is reported).  With a KNOWN object size above RSIZE_MAX_STR the limit check is skipped
(`CHK_DEST_OVR` only; known finding `bos-known-skips-limit`): `_partial` under `BosSmall`, + witness. -/

/-- the shared `dmax` lines: `ESLEMAX when dmax > RSIZE_MAX_STR`, `EOVERFLOW when dmax > size of dest`, else `c` -/
def dmaxCode (dmax : Nat) (destbos : Bos) (c : Nat) : Nat :=
  if dmax > RSIZE_MAX_STR then ESLEMAX
  else match destbos with
    | none => c
    | some b => if dmax > b then EOVERFLOW else c

/-- a known object size is a possible one for a string (the hypothesis the proofs force) -/
def BosSmall (destbos : Bos) : Prop := ∀ b, destbos = some b → b ≤ RSIZE_MAX_STR

theorem dmaxCode_eok_iff (dmax : Nat) (destbos : Bos) (c : Nat) :
    dmaxCode dmax destbos c = EOK ↔ dmax ≤ RSIZE_MAX_STR ∧ (∀ b, destbos = some b → dmax ≤ b) ∧ c = EOK := by
  have e2 : ESLEMAX ≠ EOK := by decide
  have e3 : EOVERFLOW ≠ EOK := by decide
  unfold dmaxCode
  split
  · simp only [e2, false_iff]; omega
  · cases destbos with
    | none => simp; omega
    | some b =>
      dsimp only
      split
      · simp only [e3, false_iff]; intro ⟨_, h, _⟩; have := h b rfl; omega
      · simp only [Option.some.injEq, forall_eq']; omega

theorem is_chkDmax (dmax : Nat) (destbos : Bos) (hb : BosSmall destbos) {k : Prog Nat} {c : Nat}
    (hk : EV k (Is .str c)) : EV (chkDmax dmax destbos RSIZE_MAX_STR k) (Is .str (dmaxCode dmax destbos c)) := by
  cases destbos with
  | none =>
    by_cases h : dmax > RSIZE_MAX_STR
    · simp only [chkDmax, dmaxCode, h, if_true]; exact is_failS _ (by decide)
    · simp only [chkDmax, dmaxCode, h, if_false]; exact hk
  | some b =>
    have hb' : b ≤ RSIZE_MAX_STR := hb b rfl
    by_cases h1 : dmax > b
    · by_cases h : dmax > RSIZE_MAX_STR
      · simp only [chkDmax, dmaxCode, h, h1, if_true]; exact is_failS _ (by decide)
      · simp only [chkDmax, dmaxCode, h, h1, if_true, if_false]; exact is_failS _ (by decide)
    · have h : ¬ dmax > RSIZE_MAX_STR := by omega
      simp only [chkDmax, dmaxCode, h, h1, if_false]; exact hk

/-- src/extstr/strzero_s.c: `@retval EOK when successful operation`, `ESNULLP when dest is NULL pointer`,
`ESZEROL when dmax = 0`, `ESLEMAX when dmax > RSIZE_MAX_STR`, `EOVERFLOW when dmax > size of dest` -/
def strzeroCode (dest dmax : Nat) (destbos : Bos) : Nat :=
  if dest = 0 then ESNULLP
  else if dmax = 0 then ESZEROL
  else dmaxCode dmax destbos EOK

/- FULL statement (no `BosSmall`), false of the code: `strzero_s_meaning_witness` -/
theorem strzero_s_code_partial (cfg : Cfg) (dest dmax : Nat) (destbos : Bos) (hb : BosSmall destbos) :
    EV (strzero_s cfg dest dmax destbos) (Is .str (strzeroCode dest dmax destbos)) := by
  by_cases h1 : dest = 0
  · simp only [strzero_s, strzeroCode, h1, if_true]; exact is_failS _ (by decide)
  by_cases h2 : dmax = 0
  · simp only [strzero_s, strzeroCode, h1, h2, if_true, if_false]; exact is_failS _ (by decide)
  simp only [strzero_s, strzeroCode, h1, h2, if_false]
  refine is_chkDmax _ _ hb ?_
  exact EV.bindSilent (setLoop_silent _ _ _) (fun x _ => EV.bindSilent (slackTail_silent cfg x.1 x.2) (fun _ _ => is_eok))

/-- strzero_s, object size unknown or a possible string size: the code is `strzeroCode` of the arguments, whatever the
cells hold; reported exactly once iff ≠ EOK -/
theorem strzero_s_meaning_partial (cfg : Cfg) (dest dmax : Nat) (destbos : Bos) (hb : BosSmall destbos)
    (st : St) (r : Nat) (st' : St) (he : exec (strzero_s cfg dest dmax destbos) st = .ok (r, st')) :
    r = strzeroCode dest dmax destbos ∧
      ((r = EOK ∧ st'.events = st.events) ∨ (r ≠ EOK ∧ st'.events = st.events ++ [.handler .str r])) :=
  Is.sound (strzero_s_code_partial cfg dest dmax destbos hb) st r st' he

/-- strzero_s with the object size unknown: the FULL statement -/
theorem strzero_s_meaning (cfg : Cfg) (dest dmax : Nat) (st : St) (r : Nat) (st' : St)
    (he : exec (strzero_s cfg dest dmax none) st = .ok (r, st')) :
    r = strzeroCode dest dmax none ∧
      ((r = EOK ∧ st'.events = st.events) ∨ (r ≠ EOK ∧ st'.events = st.events ++ [.handler .str r])) :=
  strzero_s_meaning_partial cfg dest dmax none (fun _ h => by cases h) st r st' he

/-- the excluded point: a known object size above the limit and `dmax` above the limit within it: EOK, no report
(doc comment: ESLEMAX).  Run without the null-slack clearing only to keep the kernel evaluation short (the clearing of
4097 cells emits nothing either: `slackTail_silent`). -/
theorem strzero_s_meaning_witness :
    ((exec (strzero_s { slack := false } 100 (RSIZE_MAX_STR + 1) (some (RSIZE_MAX_STR + 2)))
      { data := fun _ => 0, mapped := fun _ => true, rd := fun _ => true, wr := fun _ => true }).toOption.map
        (fun x => (x.1, x.2.events))) = some (EOK, []) ∧
      strzeroCode 100 (RSIZE_MAX_STR + 1) (some (RSIZE_MAX_STR + 2)) = ESLEMAX := by
  decide

theorem strzeroCode_eok_iff (dest dmax : Nat) (destbos : Bos) :
    strzeroCode dest dmax destbos = EOK ↔
      dest ≠ 0 ∧ dmax ≠ 0 ∧ dmax ≤ RSIZE_MAX_STR ∧ ∀ b, destbos = some b → dmax ≤ b := by
  have e1 : ESNULLP ≠ EOK := by decide
  have e2 : ESZEROL ≠ EOK := by decide
  unfold strzeroCode
  split
  · simp only [e1, false_iff]; omega
  split
  · simp only [e2, false_iff]; omega
  rw [dmaxCode_eok_iff]
  simp only [and_true, ne_eq, true_and, not_false_eq_true, *]

/-- src/extstr/strset_s.c: as strzero_s plus `ESLEMAX when value > 255` (`(unsigned)value > 255`) -/
def strsetCode (dest dmax value : Nat) (destbos : Bos) : Nat :=
  if dest = 0 then ESNULLP
  else if dmax = 0 then ESZEROL
  else dmaxCode dmax destbos (if arg32 value > 255 then ESLEMAX else EOK)

theorem strset_s_code_partial (cfg : Cfg) (dest dmax value : Nat) (destbos : Bos) (hb : BosSmall destbos) :
    EV (strset_s cfg dest dmax value destbos) (Is .str (strsetCode dest dmax value destbos)) := by
  by_cases h1 : dest = 0
  · simp only [strset_s, strsetCode, h1, if_true]; exact is_failS _ (by decide)
  by_cases h2 : dmax = 0
  · simp only [strset_s, strsetCode, h1, h2, if_true, if_false]; exact is_failS _ (by decide)
  simp only [strset_s, strsetCode, h1, h2, if_false]
  refine is_chkDmax _ _ hb ?_
  by_cases h3 : arg32 value > 255
  · simp only [h3, if_true]; exact is_failS _ (by decide)
  · simp only [h3, if_false]
    exact EV.bindSilent (setLoop_silent _ _ _) (fun x _ => EV.bindSilent (slackTail_silent cfg x.1 x.2) (fun _ _ => is_eok))

/-- strset_s, object size unknown or a possible string size: the code is `strsetCode` of the arguments -/
theorem strset_s_meaning_partial (cfg : Cfg) (dest dmax value : Nat) (destbos : Bos) (hb : BosSmall destbos)
    (st : St) (r : Nat) (st' : St) (he : exec (strset_s cfg dest dmax value destbos) st = .ok (r, st')) :
    r = strsetCode dest dmax value destbos ∧
      ((r = EOK ∧ st'.events = st.events) ∨ (r ≠ EOK ∧ st'.events = st.events ++ [.handler .str r])) :=
  Is.sound (strset_s_code_partial cfg dest dmax value destbos hb) st r st' he

/-- strset_s with the object size unknown: the FULL statement -/
theorem strset_s_meaning (cfg : Cfg) (dest dmax value : Nat) (st : St) (r : Nat) (st' : St)
    (he : exec (strset_s cfg dest dmax value none) st = .ok (r, st')) :
    r = strsetCode dest dmax value none ∧
      ((r = EOK ∧ st'.events = st.events) ∨ (r ≠ EOK ∧ st'.events = st.events ++ [.handler .str r])) :=
  strset_s_meaning_partial cfg dest dmax value none (fun _ h => by cases h) st r st' he

theorem strset_s_meaning_witness :
    ((exec (strset_s { slack := false } 100 (RSIZE_MAX_STR + 1) 65 (some (RSIZE_MAX_STR + 2)))
      { data := fun _ => 0, mapped := fun _ => true, rd := fun _ => true, wr := fun _ => true }).toOption.map
        (fun x => (x.1, x.2.events))) = some (EOK, []) ∧
      strsetCode 100 (RSIZE_MAX_STR + 1) 65 (some (RSIZE_MAX_STR + 2)) = ESLEMAX := by
  decide

theorem strsetCode_eok_iff (dest dmax value : Nat) (destbos : Bos) :
    strsetCode dest dmax value destbos = EOK ↔
      dest ≠ 0 ∧ dmax ≠ 0 ∧ dmax ≤ RSIZE_MAX_STR ∧ (∀ b, destbos = some b → dmax ≤ b) ∧ arg32 value ≤ 255 := by
  have e1 : ESNULLP ≠ EOK := by decide
  have e2 : ESZEROL ≠ EOK := by decide
  have e3 : ESLEMAX ≠ EOK := by decide
  unfold strsetCode
  split
  · simp only [e1, false_iff]; omega
  split
  · simp only [e2, false_iff]; omega
  rw [dmaxCode_eok_iff]
  split
  · simp only [e3, and_false, false_iff]; omega
  · rename_i h1 h2 h3; simp only [ne_eq, h1, h2, not_false_eq_true, true_and, and_true]; have : arg32 value ≤ 255 := by omega
    simp only [this, and_true]

/-- src/extstr/strnset_s.c: as strset_s plus `ESNOSPC when n > dmax` -/
def strnsetCode (dest dmax value n : Nat) (destbos : Bos) : Nat :=
  if dest = 0 then ESNULLP
  else if dmax = 0 then ESZEROL
  else dmaxCode dmax destbos (if arg32 value > 255 then ESLEMAX else if n > dmax then ESNOSPC else EOK)

theorem strnset_s_code_partial (cfg : Cfg) (dest dmax value n : Nat) (destbos : Bos) (hb : BosSmall destbos) :
    EV (strnset_s cfg dest dmax value n destbos) (Is .str (strnsetCode dest dmax value n destbos)) := by
  by_cases h1 : dest = 0
  · simp only [strnset_s, strnsetCode, h1, if_true]; exact is_failS _ (by decide)
  by_cases h2 : dmax = 0
  · simp only [strnset_s, strnsetCode, h1, h2, if_true, if_false]; exact is_failS _ (by decide)
  simp only [strnset_s, strnsetCode, h1, h2, if_false]
  refine is_chkDmax _ _ hb ?_
  by_cases h3 : arg32 value > 255
  · simp only [h3, if_true]; exact is_failS _ (by decide)
  by_cases h4 : n > dmax
  · simp only [h3, h4, if_true, if_false]; exact is_failS _ (by decide)
  · simp only [h3, h4, if_false]
    exact EV.bindSilent (setLoop_silent _ _ _) (fun x _ => EV.bindSilent (slackTail_silent cfg x.1 _) (fun _ _ => is_eok))

/-- strnset_s, object size unknown or a possible string size: the code is `strnsetCode` of the arguments -/
theorem strnset_s_meaning_partial (cfg : Cfg) (dest dmax value n : Nat) (destbos : Bos) (hb : BosSmall destbos)
    (st : St) (r : Nat) (st' : St) (he : exec (strnset_s cfg dest dmax value n destbos) st = .ok (r, st')) :
    r = strnsetCode dest dmax value n destbos ∧
      ((r = EOK ∧ st'.events = st.events) ∨ (r ≠ EOK ∧ st'.events = st.events ++ [.handler .str r])) :=
  Is.sound (strnset_s_code_partial cfg dest dmax value n destbos hb) st r st' he

/-- strnset_s with the object size unknown: the FULL statement -/
theorem strnset_s_meaning (cfg : Cfg) (dest dmax value n : Nat) (st : St) (r : Nat) (st' : St)
    (he : exec (strnset_s cfg dest dmax value n none) st = .ok (r, st')) :
    r = strnsetCode dest dmax value n none ∧
      ((r = EOK ∧ st'.events = st.events) ∨ (r ≠ EOK ∧ st'.events = st.events ++ [.handler .str r])) :=
  strnset_s_meaning_partial cfg dest dmax value n none (fun _ h => by cases h) st r st' he

theorem strnset_s_meaning_witness :
    ((exec (strnset_s { slack := false } 100 (RSIZE_MAX_STR + 1) 65 1 (some (RSIZE_MAX_STR + 2)))
      { data := fun _ => 0, mapped := fun _ => true, rd := fun _ => true, wr := fun _ => true }).toOption.map
        (fun x => (x.1, x.2.events))) = some (EOK, []) ∧
      strnsetCode 100 (RSIZE_MAX_STR + 1) 65 1 (some (RSIZE_MAX_STR + 2)) = ESLEMAX := by
  decide

theorem strnsetCode_eok_iff (dest dmax value n : Nat) (destbos : Bos) :
    strnsetCode dest dmax value n destbos = EOK ↔
      dest ≠ 0 ∧ dmax ≠ 0 ∧ dmax ≤ RSIZE_MAX_STR ∧ (∀ b, destbos = some b → dmax ≤ b) ∧ arg32 value ≤ 255 ∧ n ≤ dmax := by
  have e1 : ESNULLP ≠ EOK := by decide
  have e2 : ESZEROL ≠ EOK := by decide
  have e3 : ESLEMAX ≠ EOK := by decide
  have e4 : ESNOSPC ≠ EOK := by decide
  unfold strnsetCode
  split
  · simp only [e1, false_iff]; omega
  split
  · simp only [e2, false_iff]; omega
  rw [dmaxCode_eok_iff]
  split
  · simp only [e3, and_false, false_iff]; omega
  split
  · simp only [e4, and_false, false_iff]; omega
  · rename_i h1 h2 h3 h4; simp only [ne_eq, h1, h2, not_false_eq_true, true_and, and_true]
    have a : arg32 value ≤ 255 := by omega
    have b : n ≤ dmax := by omega
    simp only [a, b, and_true]

/-- non-vacuity: a known-size run inside `BosSmall` that reports EOVERFLOW -/
example : BosSmall (some 4) ∧ ((exec (strnset_s {} 100 5 65 1 (some 4))
      { data := fun _ => 66, mapped := fun _ => true, rd := fun _ => true, wr := fun _ => true }).toOption.map
        (fun x => (x.1, x.2.events))) = some (strnsetCode 100 5 65 1 (some 4), [.handler .str EOVERFLOW]) :=
  ⟨fun b h => by cases h; decide, by decide⟩

/-! ## strnterminate_s (returns the length, 0 after a report), strerrorlen_s (no runtime-constraints) -/

/-- src/extstr/strnterminate_s.c has no `@retval` list (it returns the string length); its `@pre` lines, top to bottom:
`dest shall not be a null pointer`, `dmax shall not equal zero`, `dmax shall not be greater than RSIZE_MAX_STR`
(object size unknown).  The violation reported, if any: -/
def strnterminateReport (dest dmax : Nat) : Option Nat :=
  if dest = 0 then some ESNULLP
  else if dmax = 0 then some ESZEROL
  else if dmax > RSIZE_MAX_STR then some ESLEMAX
  else none

theorem strnterminate_s_code (cfg : Cfg) (dest dmax : Nat) :
    EV (strnterminate_s cfg dest dmax none) (fun r es =>
      es = (strnterminateReport dest dmax).toList.map (Event.handler .str) ∧
      (strnterminateReport dest dmax ≠ none → r = 0)) := by
  have rep : ∀ c, EV (do handlerS c; pure 0 : Prog Nat) (fun r es => es = [Event.handler .str c] ∧ r = 0) := fun c =>
    EV.bind (EV.handlerS c) (fun _ es he => by subst he; exact EV.pure _ ⟨by simp, rfl⟩)
  by_cases h1 : dest = 0
  · simp only [strnterminate_s, strnterminateReport, h1, if_true]
    exact (rep _).conseq (fun r es ⟨a, b⟩ => ⟨by simpa using a, fun _ => b⟩)
  by_cases h2 : dmax = 0
  · simp only [strnterminate_s, strnterminateReport, h1, h2, if_true, if_false]
    exact (rep _).conseq (fun r es ⟨a, b⟩ => ⟨by simpa using a, fun _ => b⟩)
  by_cases h3 : dmax > RSIZE_MAX_STR
  · simp only [strnterminate_s, strnterminateReport, h1, h2, h3, if_true, if_false]
    exact (rep _).conseq (fun r es ⟨a, b⟩ => ⟨by simpa using a, fun _ => b⟩)
  · simp only [strnterminate_s, strnterminateReport, h1, h2, h3, if_false]
    refine EV.bindSilent (ntermLoop_silent _ _ _) (fun x _ => ?_)
    exact EV.bindSilent (EV.storeP _ _) (fun _ _ => EV.pure _ ⟨by simp, fun h => absurd rfl h⟩)

/-- strnterminate_s, object size unknown: WHICH violation is reported is `strnterminateReport` of the arguments alone
(the cells decide only the length returned); a reporting call returns 0 -/
theorem strnterminate_s_meaning (cfg : Cfg) (dest dmax : Nat) (st : St) (r : Nat) (st' : St)
    (he : exec (strnterminate_s cfg dest dmax none) st = .ok (r, st')) :
    st'.events = st.events ++ (strnterminateReport dest dmax).toList.map (Event.handler .str) ∧
      (strnterminateReport dest dmax ≠ none → r = 0) := by
  obtain ⟨es, h1, h2, h3⟩ := (strnterminate_s_code cfg dest dmax).sound st he
  subst h2; exact ⟨h1, h3⟩

/-- nothing is reported exactly when no `@pre` line is violated -/
theorem strnterminateReport_none_iff (dest dmax : Nat) :
    strnterminateReport dest dmax = none ↔ dest ≠ 0 ∧ dmax ≠ 0 ∧ dmax ≤ RSIZE_MAX_STR := by
  unfold strnterminateReport
  repeat' split
  all_goals simp
  all_goals omega

example : ((exec (strnterminate_s {} 100 0 none)
      { data := fun _ => 7, mapped := fun _ => true, rd := fun _ => true, wr := fun _ => true }).toOption.map
        (fun x => (x.1, x.2.events))) = some (0, (strnterminateReport 100 0).toList.map (Event.handler .str)) := by decide

/-- strerrorlen_s (src/str/strerror_s.c) documents no runtime-constraint: for every `errnum` and every message text no
call reports anything -/
theorem strerrorlen_s_meaning (errnum msg : Nat) (st : St) (r : Nat) (st' : St)
    (he : exec (strerrorlen_s errnum msg) st = .ok (r, st')) : st'.events = st.events := by
  obtain ⟨es, h1, h2, _⟩ := (SafeC.q_strerrorlen_s errnum msg).sound st he
  subst h2; simpa using h1

end SafeC.Props.C05Meaning

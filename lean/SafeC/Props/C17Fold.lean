import SafeC.Proofs.FoldStr2
import SafeC.Proofs.FoldRoom
/-!
# C17 — `wcsfc_s` (string case folding), C locale (neither tr/az nor lt: what `SafeC.Fold.wcsfcS` models)

Property text: "... the number of characters towfc_s/wcsfc_s emit for a character equals what iswfc announces, so that a
destination sized from the announced lengths always suffices."  For `towfc_s` this is `C17.fold_count`.  For `wcsfc_s` it is
FALSE in general, because `wcsfc_s` is not the concatenation of `towfc_s` over the cells: per cell `cp` followed by `nx` it emits
(`SafeC.Fold.fcCell cp nx`, Proofs/FoldStr.lean)
* `iswfc cp > 1`: the `iswfc cp` cells of `towfc_s`, each replaced by its canonical decomposition when U+1F80 ≤ cp ≤ U+1FF4;
* cp one of U+1CBB, U+1CBC, U+1057B, U+1058B, U+10593 (`fcSpecial`): `cp` itself;
* cp = U+03A3: U+03C2 when `nx` is a space (final sigma; `nx = 0` behind the end is not one), else U+03C3;
* otherwise (5 free cells demanded): `t = _towfc_single(cp)`, canonically decomposed when `t ≥ 0xC0` (U+00C9 ⇒ `e` U+0301: two
  cells although `iswfc` announces one).

Two versions of the code are spoken about (`Fixes.foldRoom`, Models/Norm.lean): **as is** (`normFixed`: the `iswfc cp > 1` branch
copies its cells without looking at `dmax`) and **with the room check** of `fixes/wcsfc-multichar-room-check.diff` (`allFixed`: the
branch starts with `if (dmax < 5) goto too_small;`, the idiom of the single-character branch).  `current` is whichever /repo holds;
the statements about `fx` with `fx.rangeChk = true` cover both, so they survive the flip of `current`.

Statements:
* `wcsfc_model` (full, as is and repaired): every string, every `dmax`: no table index out of bounds; EOK ⇒ dest = `fcPure src`,
  `*lenp` its length, `< dmax`, every cell a code point; no write behind `dest + dmax` whenever the result fits at all, and with
  the room check never.  `wcsfc_overrun_witness`: as is, it does write behind the buffer (`ßß` into 3 cells).
* `wcsfc_multichar_cells` (full) / `wcsfc_multichar_cells_witness`: one iteration of the multi-character branch stores 1..4 cells
  (every cell value, decomposing Greek sub-branch included; any iteration on a code point: ≤ 4): 5 free cells are enough; U+1F82
  stores 4.
* `wcsfc_no_overrun_fixed` (full — the repair): with the room check, EVERY cell list (embedded terminators allowed) and EVERY
  `dmax`: no store behind `dest + dmax`, no table index out of bounds.  `wcsfc_model_fixed`: the functional statement for that code.
* `wcsfc_return_codes` (full, both): EOK, ESZEROL, ESLEMAX or ESNOSPC, never the documented negative code of `towfc_s`.
* `wcsfc_succeeds_partial` (both): 4 cells more than the result ⇒ EOK ("the result and its terminator fit ⇒ EOK" is false; the
  margin is sharp: `wcsfc_exact_fit_witness`; with the room check the multi-character foldings need it too:
  `wcsfc_exact_fit_fixed_witness` — `ß` into 3 or 4 cells, accepted as is, is refused then).
* `wcsfc_fold_then_decompose_partial`: per cell, `wcsfc_s` = `towfc_s` followed by the canonical decomposition of each cell, except
  the five code points above and the final sigma (`wcsfc_fold_then_decompose_string_partial`: whole strings);
  `wcsfc_fold_then_decompose_witness`: each of those really differs.
* `wcsfc_announced_partial`: text of `plain` cells (nothing decomposes, no sigma, none of the five): dest = concatenation of
  `towfc_s`, length = Σ max 1 (iswfc c), EOK with Σ + 4 ≤ dmax; `wcsfc_plain_tight`: `plain` is exactly the per-cell condition;
  witnesses for the unrestricted claims: `wcsfc_announced_witness_decomposes`, `_sigma`, `_sum`.
-/
namespace SafeC.Props.C17Fold
open SafeC.Norm SafeC.Gen SafeC.Fold

/-! ## the loop is `fcPure` -/

/-- `wcsfc_s(dest, dmax, src, &len)` with the range check — the code as it is and the code with the room check (`fx.foldRoom`), hence
`current` in particular —, EVERY string (no embedded terminator) and EVERY `dmax`:
no table is indexed out of bounds; whenever it returns EOK (and has not written behind `dest + dmax`: the model reports that
case with `ret = 0, overrun = true`), dest holds `fcPure src`, `*lenp` is its length, one cell is left for the terminator,
and every cell of `src` was a code point; it does not write behind `dest + dmax` whenever `fcPure src` fits into `dmax` cells;
and with the room check it never does.
(The unconditional "`overrun = false`" is false of the code as it is: `wcsfc_overrun_witness`.) -/
theorem wcsfc_model (fx : Fixes) (hfx : fx.rangeChk = true) (dmax : Nat) (src : List Nat) (h0 : ∀ c ∈ src, c ≠ 0) :
    (wcsfcS fx dmax src).oob = false ∧
    ((wcsfcS fx dmax src).ret = 0 → (wcsfcS fx dmax src).overrun = false →
      (wcsfcS fx dmax src).out = fcPure src ∧ (wcsfcS fx dmax src).len = (fcPure src).length ∧
      (fcPure src).length < dmax ∧ dmax ≤ RSIZE_MAX_WSTR ∧ ∀ c ∈ src, c ≤ 0x10FFFF) ∧
    ((fcPure src).length ≤ dmax → (wcsfcS fx dmax src).overrun = false) ∧
    (fx.foldRoom = true → (wcsfcS fx dmax src).overrun = false) :=
  wcsfcS_model fx hfx dmax src h0

example : current.rangeChk = true ∧ normFixed.rangeChk = true ∧ allFixed.rangeChk = true ∧ allFixed.foldRoom = true ∧
    (∀ c ∈ [0x41, 0xdf, 0x1f80, 0xC9, 0x3a3, 0x20, 0x1cbb], c ≠ 0) ∧
    wcsfcS current 32 [0x41, 0xdf, 0x1f80, 0xC9, 0x3a3, 0x20, 0x1cbb] =
      ⟨0, 11, [0x61, 0x73, 0x73, 0x3b1, 0x313, 0x3b9, 0x65, 0x301, 0x3c2, 0x20, 0x1cbb], false, false⟩ ∧
    wcsfcS allFixed 32 [0x41, 0xdf, 0x1f80, 0xC9, 0x3a3, 0x20, 0x1cbb] =
      ⟨0, 11, [0x61, 0x73, 0x73, 0x3b1, 0x313, 0x3b9, 0x65, 0x301, 0x3c2, 0x20, 0x1cbb], false, false⟩ ∧
    fcPure [0x41, 0xdf, 0x1f80, 0xC9, 0x3a3, 0x20, 0x1cbb] = [0x61, 0x73, 0x73, 0x3b1, 0x313, 0x3b9, 0x65, 0x301, 0x3c2, 0x20, 0x1cbb] := by
  decide +kernel

/-- the code as it is (`normFixed`: range check in, room check not): a multi-cell folding is copied without looking at `dmax`:
`ßß` into a destination of 3 cells writes 4 (and `dmax`, unsigned, wraps); with 1 cell already the first `ß` does; and
U+1F82 (4 cells) into 2 -/
theorem wcsfc_overrun_witness :
    (wcsfcS normFixed 3 [0xdf, 0xdf]).overrun = true ∧ (wcsfcS normFixed 1 [0xdf]).overrun = true ∧
    (wcsfcS normFixed 2 [0x1f82]).overrun = true ∧
    (fcPure [0xdf, 0xdf]).length = 4 ∧ (∀ c ∈ [0xdf, 0xdf], c ≠ 0) ∧ normFixed.foldRoom = false := by
  decide +kernel

/-! ## the room check -/

/-- what one iteration of the loop stores: a multi-character folding (`iswfc cp > 1`; ANY cell value `cp`, the Greek sub-branch
that decomposes the cells of `towfc_s` further included) is 1 to 4 cells; any code point, whichever branch takes it, 1 to 4.
Hence `if (dmax < 5) goto too_small;` at the top of the multi-character branch leaves room for everything the branch stores
in that iteration, and one cell more (the terminator's) — 5 is enough. -/
theorem wcsfc_multichar_cells (cp nx : Nat) :
    (1 < iswfc cp → 0 < (fcCell cp nx).length ∧ (fcCell cp nx).length ≤ 4) ∧
    (cp ≤ 0x10FFFF → 0 < (fcCell cp nx).length ∧ (fcCell cp nx).length ≤ 4) :=
  ⟨fun h => fcCell_multi_len h nx, fun h => fcCell_len nx h⟩

/-- the bound is attained: U+1F82 folds to U+1F02 U+03B9, and U+1F02 decomposes to three cells; with the room check 5 cells are
exactly what it takes (4 cells + terminator), 4 are refused without a store -/
theorem wcsfc_multichar_cells_witness :
    iswfc 0x1f82 = 2 ∧ fcCell 0x1f82 0 = [0x3b1, 0x313, 0x300, 0x3b9] ∧
    wcsfcS allFixed 5 [0x1f82] = ⟨0, 4, [0x3b1, 0x313, 0x300, 0x3b9], false, false⟩ ∧
    wcsfcS allFixed 4 [0x1f82] = ⟨ESNOSPC, 0, [], false, false⟩ := by
  decide +kernel

/-- **the repair** (`fixes/wcsfc-multichar-room-check.diff`, model `allFixed`): EVERY cell list (cells behind an embedded terminator
are not read: no hypothesis on `src`) and EVERY `dmax`: `wcsfc_s` stores nothing behind `dest + dmax` (the unsigned `dmax` never
wraps) and indexes no table out of bounds -/
theorem wcsfc_no_overrun_fixed (dmax : Nat) (src : List Nat) :
    (wcsfcS allFixed dmax src).overrun = false ∧ (wcsfcS allFixed dmax src).oob = false :=
  wcsfcS_room allFixed rfl rfl dmax src

example : wcsfcS allFixed 3 [0xdf, 0xdf] = ⟨ESNOSPC, 0, [], false, false⟩ ∧ wcsfcS allFixed 1 [0xdf] = ⟨ESNOSPC, 0, [], false, false⟩ ∧
    wcsfcS allFixed 6 [0xdf, 0xdf] = ⟨ESNOSPC, 0, [], false, false⟩ ∧ wcsfcS allFixed 7 [0xdf, 0xdf] = ⟨0, 4, [0x73, 0x73, 0x73, 0x73], false, false⟩ ∧
    wcsfcS allFixed 7 [0xdf, 0, 0xdf, 0x110000] = ⟨0, 2, [0x73, 0x73], false, false⟩ := by
  decide +kernel

/-- the code with the room check, every string and every `dmax`: never out of bounds (tables, destination); EOK ⇒ dest =
`fcPure src`, `*lenp` its length, a cell left for the terminator, `dmax` within the limit, every source cell a code point -/
theorem wcsfc_model_fixed (dmax : Nat) (src : List Nat) (h0 : ∀ c ∈ src, c ≠ 0) :
    (wcsfcS allFixed dmax src).oob = false ∧ (wcsfcS allFixed dmax src).overrun = false ∧
    ((wcsfcS allFixed dmax src).ret = 0 →
      (wcsfcS allFixed dmax src).out = fcPure src ∧ (wcsfcS allFixed dmax src).len = (fcPure src).length ∧
      (fcPure src).length < dmax ∧ dmax ≤ RSIZE_MAX_WSTR ∧ ∀ c ∈ src, c ≤ 0x10FFFF) := by
  obtain ⟨h1, h2, _, h4⟩ := wcsfcS_model allFixed rfl dmax src h0
  exact ⟨h1, h4 rfl, fun hr => h2 hr (h4 rfl)⟩

example : (∀ c ∈ [0x1f82, 0xdf, 0xfb03], c ≠ 0) ∧
    wcsfcS allFixed 14 [0x1f82, 0xdf, 0xfb03] = ⟨0, 9, [0x3b1, 0x313, 0x300, 0x3b9, 0x73, 0x73, 0x66, 0x66, 0x69], false, false⟩ := by
  decide +kernel

/-- the return values, every input, as is and with the room check: EOK, ESZEROL, ESLEMAX or ESNOSPC — never the negative code of
`towfc_s` (−ESNOTFND "when the internal implementations of iswfc() and towfc_s() are mismatched" in the documentation): where `iswfc`
announces more than one cell, `towfc_s` finds the code point in `tbl2` / `tbl3` -/
theorem wcsfc_return_codes (fx : Fixes) (hfx : fx.rangeChk = true) (dmax : Nat) (src : List Nat) (h0 : ∀ c ∈ src, c ≠ 0) :
    (wcsfcS fx dmax src).ret = 0 ∨ (wcsfcS fx dmax src).ret = ESZEROL ∨ (wcsfcS fx dmax src).ret = ESLEMAX ∨
    (wcsfcS fx dmax src).ret = ESNOSPC :=
  wcsfcS_ret fx hfx dmax src h0

example : (wcsfcS current 0 [0x41]).ret = ESZEROL ∧ (wcsfcS current 2000 [0x41]).ret = ESLEMAX ∧
    (wcsfcS current 16 [0x41, 0x110000]).ret = ESLEMAX ∧ (wcsfcS current 4 [0xdf, 0xdf]).ret = ESNOSPC ∧
    (wcsfcS current 16 [0xdf, 0xdf]).ret = 0 ∧ (wcsfcS allFixed 4 [0xdf, 0xdf]).ret = ESNOSPC ∧ (wcsfcS allFixed 16 [0xdf, 0xdf]).ret = 0 := by
  decide +kernel

/-- 4 cells more than the result (3 besides the terminator) and `wcsfc_s` succeeds, with exactly `fcPure src` — as is and with the
room check (the margin stays 4: the new test asks for the 5 free cells the single-character branch asks for anyway).  The full
statement (one cell more, for the terminator) is false: `wcsfc_exact_fit_witness`, `wcsfc_exact_fit_fixed_witness` -/
theorem wcsfc_succeeds_partial (fx : Fixes) (hfx : fx.rangeChk = true) (dmax : Nat) (src : List Nat)
    (hs : ∀ c ∈ src, c ≠ 0 ∧ c ≤ 0x10FFFF) (hmax : dmax ≤ RSIZE_MAX_WSTR)
    (hroom : (fcPure src).length + 4 ≤ dmax) :
    wcsfcS fx dmax src = ⟨0, (fcPure src).length, fcPure src, false, false⟩ :=
  wcsfcS_succeeds fx hfx dmax src hs hmax hroom

example : (∀ c ∈ [0x48, 0xC9, 0xdf], c ≠ 0 ∧ c ≤ 0x10FFFF) ∧ 9 ≤ RSIZE_MAX_WSTR ∧ (fcPure [0x48, 0xC9, 0xdf]).length + 4 ≤ 9 ∧
    fcPure [0x48, 0xC9, 0xdf] = [0x68, 0x65, 0x301, 0x73, 0x73] ∧ current.rangeChk = true ∧ allFixed.rangeChk = true := by
  decide +kernel

/-- the margin is sharp: `A` needs 1 cell + terminator, is announced as 1 cell, and is refused (ESNOSPC, `*lenp = 0`) below `dmax = 5` -/
theorem wcsfc_exact_fit_witness :
    (fcPure [0x41]).length = 1 ∧ iswfc 0x41 = 1 ∧
    (wcsfcS current 2 [0x41]).ret = ESNOSPC ∧ (wcsfcS current 3 [0x41]).ret = ESNOSPC ∧
    wcsfcS current 4 [0x41] = ⟨ESNOSPC, 0, [], false, false⟩ ∧ wcsfcS current 5 [0x41] = ⟨0, 1, [0x61], false, false⟩ := by
  decide +kernel

/-- the same for the code with the room check, where the multi-character foldings are held to the margin too: `ß` (2 cells +
terminator, announced as 2) fits into 3 cells and is accepted there by the code as it is, but refused below `dmax = 5` (ESNOSPC,
`*lenp = 0`, nothing stored) with the room check — the price of using the sibling branch's idiom; `ßß` needs 7 -/
theorem wcsfc_exact_fit_fixed_witness :
    (fcPure [0xdf]).length = 2 ∧ iswfc 0xdf = 2 ∧
    wcsfcS normFixed 3 [0xdf] = ⟨0, 2, [0x73, 0x73], false, false⟩ ∧
    wcsfcS allFixed 3 [0xdf] = ⟨ESNOSPC, 0, [], false, false⟩ ∧ wcsfcS allFixed 4 [0xdf] = ⟨ESNOSPC, 0, [], false, false⟩ ∧
    wcsfcS allFixed 5 [0xdf] = ⟨0, 2, [0x73, 0x73], false, false⟩ ∧
    wcsfcS allFixed 4 [0x41] = ⟨ESNOSPC, 0, [], false, false⟩ ∧ wcsfcS allFixed 5 [0x41] = ⟨0, 1, [0x61], false, false⟩ ∧
    (wcsfcS allFixed 6 [0xdf, 0xdf]).ret = ESNOSPC ∧ (wcsfcS allFixed 7 [0xdf, 0xdf]).ret = 0 := by
  decide +kernel

/-! ## fold, then decompose -/

/-- per cell, `wcsfc_s` emits the cells of `towfc_s`, each canonically decomposed — EVERY cell value `cp` and follower `nx`, except the
five code points copied unchanged and the capital sigma in front of a space.  (Full claim, without the two hypotheses: false,
`wcsfc_fold_then_decompose_witness`.) -/
theorem wcsfc_fold_then_decompose_partial (cp nx : Nat) (hs : fcSpecial cp = false) (h3 : ¬(cp = 0x3a3 ∧ iswspace nx = true)) :
    fcCell cp nx = (towfcCore cp).2.flatMap decompose1 :=
  fcCell_fold_decompose cp nx hs h3

example : fcSpecial 0x1f82 = false ∧ ¬(0x1f82 = 0x3a3 ∧ iswspace 0 = true) ∧
    fcCell 0x1f82 0 = [0x3b1, 0x313, 0x300, 0x3b9] ∧ (towfcCore 0x1f82).2 = [0x1f02, 0x3b9] ∧
    fcSpecial 0x3a3 = false ∧ ¬(0x3a3 = 0x3a3 ∧ iswspace 0x41 = true) ∧ fcCell 0x3a3 0x41 = [0x3c3] := by
  decide +kernel

/-- the same for a whole string without the five code points and without a capital sigma directly in front of a space: dest =
the decomposition pass of wcsnorm_s (`flatMap decompose1`, `C17.nfd_model`) over the concatenated `towfc_s` results -/
theorem wcsfc_fold_then_decompose_string_partial (src : List Nat) (hs : ∀ c ∈ src, fcSpecial c = false)
    (h3 : sigmaFinal src = false) : fcPure src = (src.flatMap fun c => (towfcCore c).2).flatMap decompose1 :=
  fcPure_fold_decompose hs h3

example : (∀ c ∈ [0x3a3, 0x41, 0x1f82, 0xC9, 0x3a3], fcSpecial c = false) ∧ sigmaFinal [0x3a3, 0x41, 0x1f82, 0xC9, 0x3a3] = false ∧
    sigmaFinal [0x41, 0x3a3, 0x20] = true ∧
    fcPure [0x3a3, 0x41, 0x1f82, 0xC9, 0x3a3] = [0x3c3, 0x61, 0x3b1, 0x313, 0x300, 0x3b9, 0x65, 0x301, 0x3c3] := by
  decide +kernel

/-- the exception list is tight: each of the five code points, whatever follows, and the sigma in front of ANY space differ -/
theorem wcsfc_fold_then_decompose_witness :
    (∀ cp nx, fcSpecial cp = true → fcCell cp nx = [cp] ∧ (towfcCore cp).2.flatMap decompose1 ≠ [cp]) ∧
    (∀ nx, iswspace nx = true → fcCell 0x3a3 nx = [0x3c2] ∧ (towfcCore 0x3a3).2.flatMap decompose1 = [0x3c3]) ∧
    (wcsfcS current 16 [0x3a3, 0x20]).out = [0x3c2, 0x20] ∧ (wcsfcS current 16 [0x1cbb]).out = [0x1cbb] ∧
    (towfcCore 0x1cbb).2 = [0x10fb] :=
  ⟨fun cp nx h => ⟨(fcCell_special h nx).1, (fcCell_special h nx).2.1⟩,
   fun _ h => ⟨(fcCell_final_sigma h).1, (fcCell_final_sigma h).2.1⟩, by decide +kernel⟩

/-! ## the announced lengths -/

/-- `plain cp`: whatever follows, `wcsfc_s` emits for `cp` exactly the cells `towfc_s` writes ... -/
theorem wcsfc_plain_cell {cp : Nat} (h : plain cp = true) (nx : Nat) : fcCell cp nx = (towfcCore cp).2 := fcCell_plain h nx

/-- ... and for no other cell value -/
theorem wcsfc_plain_tight {cp : Nat} (h : plain cp = false) : ∃ nx, fcCell cp nx ≠ (towfcCore cp).2 := plain_tight h

example : plain 0x41 = true ∧ plain 0x7a = true ∧ plain 0xdf = true ∧ plain 0x1e9e = true ∧ plain 0xfb03 = true ∧
    plain 0x416 = true ∧ plain 0x391 = true ∧ plain 0x130 = true ∧ plain 0x4e2d = true ∧
    plain 0xC9 = false ∧ plain 0x3a3 = false ∧ plain 0x1f80 = false ∧ plain 0x1cbb = false := by
  decide +kernel

/-- text of `plain` cells: dest = the concatenation of what `towfc_s` writes per cell, its length = the sum of the announced
lengths (0 announced: one cell), and a destination of that sum + 4 cells suffices.  (For arbitrary text all three fail:
`wcsfc_announced_witness_decomposes`, `wcsfc_announced_witness_sigma`, `wcsfc_announced_witness_sum`; "+ 1" instead of "+ 4":
`wcsfc_exact_fit_witness`.) -/
theorem wcsfc_announced_partial (src : List Nat) (hs : ∀ c ∈ src, c ≠ 0 ∧ c ≤ 0x10FFFF ∧ plain c = true) :
    fcPure src = src.flatMap (fun c => (towfcCore c).2) ∧
    (fcPure src).length = (src.map fun c => max 1 (iswfc c)).sum ∧
    ∀ dmax, dmax ≤ RSIZE_MAX_WSTR → (src.map fun c => max 1 (iswfc c)).sum + 4 ≤ dmax →
      wcsfcS current dmax src =
        ⟨0, (src.map fun c => max 1 (iswfc c)).sum, src.flatMap (fun c => (towfcCore c).2), false, false⟩ := by
  have e1 := fcPure_plain (src := src) (fun c hc => (hs c hc).2.2)
  have e2 : (fcPure src).length = (src.map fun c => max 1 (iswfc c)).sum := by rw [e1]; exact announced_length src
  refine ⟨e1, e2, ?_⟩
  intro dmax hmax hroom
  rw [← e2, ← e1]
  exact wcsfcS_succeeds current rfl dmax src (fun c hc => ⟨(hs c hc).1, (hs c hc).2.1⟩) hmax (by omega)

example : (∀ c ∈ [0x48, 0xdf, 0xfb03, 0x416, 0x1e9e], c ≠ 0 ∧ c ≤ 0x10FFFF ∧ plain c = true) ∧
    ([0x48, 0xdf, 0xfb03, 0x416, 0x1e9e].map fun c => max 1 (iswfc c)).sum = 9 ∧
    wcsfcS current 13 [0x48, 0xdf, 0xfb03, 0x416, 0x1e9e] = ⟨0, 9, [0x68, 0x73, 0x73, 0x66, 0x66, 0x69, 0x436, 0x73, 0x73], false, false⟩ := by
  decide +kernel

/-- `É`: announced 1, `towfc_s` writes `é`, `wcsfc_s` writes `e` U+0301 -/
theorem wcsfc_announced_witness_decomposes :
    wcsfcS current 16 [0xC9] = ⟨0, 2, [0x65, 0x301], false, false⟩ ∧ iswfc 0xC9 = 1 ∧ (towfcCore 0xC9).2 = [0xE9] := by
  decide +kernel

/-- final sigma: `towfc_s` gives U+03C3, `wcsfc_s` in front of a space U+03C2 -/
theorem wcsfc_announced_witness_sigma :
    wcsfcS current 16 [0x3a3, 0x20] = ⟨0, 2, [0x3c2, 0x20], false, false⟩ ∧ (towfcCore 0x3a3).2 = [0x3c3] ∧ (towfcCore 0x20).2 = [0x20] := by
  decide +kernel

/-- five `É`: announced 5 cells; a destination of 5 + 1 is refused, and the text `wcsfc_s` writes has 10 -/
theorem wcsfc_announced_witness_sum :
    ([0xC9, 0xC9, 0xC9, 0xC9, 0xC9].map fun c => max 1 (iswfc c)).sum = 5 ∧
    (wcsfcS current 6 [0xC9, 0xC9, 0xC9, 0xC9, 0xC9]).ret = ESNOSPC ∧
    (wcsfcS current 16 [0xC9, 0xC9, 0xC9, 0xC9, 0xC9]).ret = 0 ∧ (wcsfcS current 16 [0xC9, 0xC9, 0xC9, 0xC9, 0xC9]).len = 10 := by
  decide +kernel

#print axioms wcsfc_model
#print axioms wcsfc_overrun_witness
#print axioms wcsfc_multichar_cells
#print axioms wcsfc_multichar_cells_witness
#print axioms wcsfc_no_overrun_fixed
#print axioms wcsfc_model_fixed
#print axioms wcsfc_return_codes
#print axioms wcsfc_succeeds_partial
#print axioms wcsfc_exact_fit_witness
#print axioms wcsfc_exact_fit_fixed_witness
#print axioms wcsfc_fold_then_decompose_partial
#print axioms wcsfc_fold_then_decompose_string_partial
#print axioms wcsfc_fold_then_decompose_witness
#print axioms wcsfc_plain_cell
#print axioms wcsfc_plain_tight
#print axioms wcsfc_announced_partial
#print axioms wcsfc_announced_witness_decomposes
#print axioms wcsfc_announced_witness_sigma
#print axioms wcsfc_announced_witness_sum

end SafeC.Props.C17Fold

import SafeC.Props.C10
import SafeC.Proofs.QueryExt1
/-!
# C10, second part (2): comparisons

`strcasecmp_s strcmpfld_s wcscmp_s wcsncmp_s memcmp16_s memcmp32_s`.

Setting as in `C10.lean`.  For every function an `…_eq` theorem says what the code computes on ANY
memory contents (all sizes); the `…_partial` theorem is the property's statement under the hypothesis
the proof forces; each `…_witness` is a concrete valid call outside that hypothesis with an answer
that differs from the standard function's.
-/
namespace SafeC.Props.C10
open SafeC Gen

/-! ## strcasecmp_s

FULL statement (false of the code): *the value stored has the sign of `strcasecmp` (characters folded
with `toupper`, C locale, unsigned) restricted to the first `dmax` characters.*  When neither string
ends nor differs within `dmax` characters the cells at index `dmax` are folded and subtracted. -/

/-- what `strcasecmp_s` computes on ANY memory: the difference of the upper-cased (unsigned)
characters at `stopIdxF toUpperC` — the first index at which a string ends or the folded characters
differ, `dmax` if there is none -/
theorem strcasecmp_s_eq (dest dmax src : Nat) (st : St) (hall : AllRd st)
    (hd : dest ≠ 0) (hs : src ≠ 0) (hpos : 0 < dmax) (hle : dmax ≤ RSIZE_MAX_STR) :
    exec (strcasecmp_s dest dmax src none) st =
      .ok ((EOK, (toUpperC (st.data (dest + stopIdxF toUpperC st.data dest src dmax)) : Int) -
                 (toUpperC (st.data (src + stopIdxF toUpperC st.data dest src dmax)) : Int)), st) := by
  unfold strcasecmp_s qChkS
  have h1 : ¬ dmax = 0 := by omega
  have h2 : ¬ dmax > RSIZE_MAX_STR := by omega
  have h5 : ¬ (some src = some 0) := by simpa using hs
  simp only [hd, h1, h2, h5, if_false, exec_bind, exec_pure, strcasecmpLoop_eq hall]

/-- **strcasecmp_s, partial** (the comparison is decided inside the first `dmax` characters): the
value stored is the difference of the two upper-cased characters at the first index where a string
ends or the strings differ ignoring case — 0 iff they are equal ignoring case, `strcasecmp`'s sign
(with `toupper` folding) otherwise -/
theorem strcasecmp_s_C10_partial (dest dmax src : Nat) (st : St) (hall : AllRd st)
    (hd : dest ≠ 0) (hs : src ≠ 0) (hpos : 0 < dmax) (hle : dmax ≤ RSIZE_MAX_STR)
    (_hin : stopIdxF toUpperC st.data dest src dmax < dmax) :
    exec (strcasecmp_s dest dmax src none) st =
      .ok ((EOK, (toUpperC (st.data (dest + stopIdxF toUpperC st.data dest src dmax)) : Int) -
                 (toUpperC (st.data (src + stopIdxF toUpperC st.data dest src dmax)) : Int)), st) :=
  strcasecmp_s_eq dest dmax src st hall hd hs hpos hle

/-- `dest = "ab…"`, `src = "ac…"`, `dmax = 1`: equal within the extent, the value stored is
`'B' - 'C' = -1`.  Known finding `compare-uses-dest-dmax`. -/
theorem strcasecmp_s_outside_witness :
    exec (strcasecmp_s 100 1 200 none)
        (wMem fun a => if a = 100 then 97 else if a = 101 then 98 else if a = 200 then 97 else if a = 201 then 99 else 0) =
      .ok ((EOK, -1),
        wMem fun a => if a = 100 then 97 else if a = 101 then 98 else if a = 200 then 97 else if a = 201 then 99 else 0) := by
  rw [strcasecmp_s_eq _ _ _ _ (wMem_all _) (by decide) (by decide) (by decide) (by decide)]
  simp [wMem, stopIdxF, toUpperC]

/-- folding to UPPER case (documented) where POSIX `strcasecmp` folds to lower: `"_"` against `"a"`
gives `'_' - 'A' = 30 > 0`; with `tolower` it is `'_' - 'a' < 0`.  Known finding `strcasecmp-folds-upper`. -/
theorem strcasecmp_s_fold_witness :
    exec (strcasecmp_s 100 2 200 none) (wMem fun a => if a = 100 then 95 else if a = 200 then 97 else 0) =
      .ok ((EOK, 30), wMem fun a => if a = 100 then 95 else if a = 200 then 97 else 0) := by
  rw [strcasecmp_s_eq _ _ _ _ (wMem_all _) (by decide) (by decide) (by decide) (by decide)]
  simp [wMem, stopIdxF, toUpperC]

example : ∃ st : St, AllRd st ∧ stopIdxF toUpperC st.data 100 200 4 = 1 ∧ stopIdxF toUpperC st.data 100 200 4 < 4 :=
  ⟨wMem fun a => if a = 100 then 97 else if a = 200 then 65 else 0, wMem_all _, by decide, by decide⟩

/-! ## strcmpfld_s

FULL statement (false of the code): *the value stored is 0 when the two fields of `dmax` characters
are equal, and otherwise has the sign of the difference of the first differing pair as UNSIGNED
characters (no NUL stop: fields).*  The code subtracts plain `char`s, and when the fields are equal
it subtracts the cells at index `dmax`. -/

/-- what `strcmpfld_s` computes on ANY memory -/
theorem strcmpfld_s_eq (dest dmax src : Nat) (st : St) (hall : AllRd st)
    (hd : dest ≠ 0) (hs : src ≠ 0) (hpos : 0 < dmax) (hle : dmax ≤ RSIZE_MAX_STR) :
    exec (strcmpfld_s dest dmax src none) st =
      .ok ((EOK, schar (st.data (dest + diffIdx st.data dest src dmax)) -
                 schar (st.data (src + diffIdx st.data dest src dmax))), st) := by
  unfold strcmpfld_s qChkS
  have h1 : ¬ dmax = 0 := by omega
  have h2 : ¬ dmax > RSIZE_MAX_STR := by omega
  have h5 : ¬ (some src = some 0) := by simpa using hs
  simp only [hd, h1, h2, h5, if_false, exec_bind, exec_pure, strcmpfldLoop_eq hall]

/-- **strcmpfld_s, partial** (the fields differ, at a pair of 7-bit characters): the difference of
the first differing pair -/
theorem strcmpfld_s_C10_partial (dest dmax src : Nat) (st : St) (hall : AllRd st)
    (hd : dest ≠ 0) (hs : src ≠ 0) (hpos : 0 < dmax) (hle : dmax ≤ RSIZE_MAX_STR)
    (i : Nat) (hi : firstDiff st.data dest src dmax = some i)
    (ha : st.data (dest + i) < 128) (hb : st.data (src + i) < 128) :
    exec (strcmpfld_s dest dmax src none) st =
      .ok ((EOK, (st.data (dest + i) : Int) - (st.data (src + i) : Int)), st) := by
  rw [strcmpfld_s_eq dest dmax src st hall hd hs hpos hle]
  simp [diffIdx, hi, schar, ha, hb]

/-- signed comparison: fields `"\x80"` and `"a"`, `dmax = 1`: the value stored is negative.
Known finding `signed-char-compare`. -/
theorem strcmpfld_s_signed_witness :
    exec (strcmpfld_s 100 1 200 none) (wMem fun a => if a = 100 then 128 else if a = 200 then 97 else 0) =
      .ok ((EOK, -225), wMem fun a => if a = 100 then 128 else if a = 200 then 97 else 0) := by
  rw [strcmpfld_s_eq _ _ _ _ (wMem_all _) (by decide) (by decide) (by decide) (by decide)]
  simp [wMem, diffIdx, firstDiff, schar]

/-- equal fields `"a"`, `"a"` (`dmax = 1`) followed by `'b'` and `'c'`: the value stored is `-1`, not 0.
Known finding `compare-uses-dest-dmax`. -/
theorem strcmpfld_s_equal_witness :
    exec (strcmpfld_s 100 1 200 none)
        (wMem fun a => if a = 100 then 97 else if a = 101 then 98 else if a = 200 then 97 else if a = 201 then 99 else 0) =
      .ok ((EOK, -1),
        wMem fun a => if a = 100 then 97 else if a = 101 then 98 else if a = 200 then 97 else if a = 201 then 99 else 0) := by
  rw [strcmpfld_s_eq _ _ _ _ (wMem_all _) (by decide) (by decide) (by decide) (by decide)]
  simp [wMem, diffIdx, firstDiff, schar]

example : ∃ st : St, AllRd st ∧ firstDiff st.data 100 200 4 = some 1 ∧ st.data 101 < 128 ∧ st.data 201 < 128 :=
  ⟨wMem fun a => if a = 100 then 97 else if a = 101 then 98 else if a = 200 then 97 else 0, wMem_all _,
   by decide, by decide, by decide⟩

/-! ## wcscmp_s / wcsncmp_s

FULL statement (false of the code): *the value stored has the sign of `wcscmp` / `wcsncmp` on the
first `min dmax smax [count]` elements.*  The code subtracts, as `int`s with wrap-around, the two
elements at which its loop stopped — also when it stopped because a bound ran out. -/

/-- what `wcscmp_s` computes on ANY memory (`dmax` is tested against the NARROW limit
`RSIZE_MAX_STR`, which is above `RSIZE_MAX_WSTR`: every valid `dmax` passes) -/
theorem wcscmp_s_eq (dest dmax src smax : Nat) (st : St) (hall : AllRd st)
    (hd : dest ≠ 0) (hs : src ≠ 0) (hpos : 0 < dmax) (hle : dmax ≤ RSIZE_MAX_STR)
    (hspos : 0 < smax) (hsle : smax ≤ RSIZE_MAX_WSTR) :
    exec (wcscmp_s dest dmax src smax none none) st =
      .ok ((EOK, subS32 (st.data (dest + stopIdx st.data dest src (min dmax smax)))
                        (st.data (src + stopIdx st.data dest src (min dmax smax)))), st) := by
  unfold wcscmp_s wcscmpG
  have h1 : ¬ (dmax = 0 ∨ smax = 0) := by omega
  have h2 : ¬ dmax > RSIZE_MAX_STR := by omega
  have h3 : ¬ smax > RSIZE_MAX_WSTR := by omega
  simp only [hd, hs, h1, h2, h3, if_false, exec_bind, exec_pure, wcscmpLoop_eq hall, exec_load_all hall]
  simp [wcsBound]

theorem wcsncmp_s_eq (dest dmax src smax count : Nat) (st : St) (hall : AllRd st)
    (hd : dest ≠ 0) (hs : src ≠ 0) (hpos : 0 < dmax) (hle : dmax ≤ RSIZE_MAX_STR)
    (hspos : 0 < smax) (hsle : smax ≤ RSIZE_MAX_WSTR) :
    exec (wcsncmp_s dest dmax src smax count none none) st =
      .ok ((EOK, subS32 (st.data (dest + stopIdx st.data dest src (min dmax (min smax count))))
                        (st.data (src + stopIdx st.data dest src (min dmax (min smax count))))), st) := by
  unfold wcsncmp_s wcscmpG
  have h1 : ¬ (dmax = 0 ∨ smax = 0) := by omega
  have h2 : ¬ dmax > RSIZE_MAX_STR := by omega
  have h3 : ¬ smax > RSIZE_MAX_WSTR := by omega
  simp only [hd, hs, h1, h2, h3, if_false, exec_bind, exec_pure, wcscmpLoop_eq hall, exec_load_all hall]
  simp [wcsBound]

/-- **wcscmp_s, partial** (decided inside the first `min dmax smax` elements, and the difference of
the two deciding elements fits an `int`): their difference as signed 32-bit values — 0 iff the
strings are equal up to there, `wcscmp`'s sign otherwise -/
theorem wcscmp_s_C10_partial (dest dmax src smax : Nat) (st : St) (hall : AllRd st)
    (hd : dest ≠ 0) (hs : src ≠ 0) (hpos : 0 < dmax) (hle : dmax ≤ RSIZE_MAX_STR)
    (hspos : 0 < smax) (hsle : smax ≤ RSIZE_MAX_WSTR)
    (_hin : stopIdx st.data dest src (min dmax smax) < min dmax smax)
    (h1 : -(2^31 : Int) ≤ toS32 (st.data (dest + stopIdx st.data dest src (min dmax smax))) -
                          toS32 (st.data (src + stopIdx st.data dest src (min dmax smax))))
    (h2 : toS32 (st.data (dest + stopIdx st.data dest src (min dmax smax))) -
          toS32 (st.data (src + stopIdx st.data dest src (min dmax smax))) < 2^31) :
    exec (wcscmp_s dest dmax src smax none none) st =
      .ok ((EOK, toS32 (st.data (dest + stopIdx st.data dest src (min dmax smax))) -
                 toS32 (st.data (src + stopIdx st.data dest src (min dmax smax)))), st) := by
  rw [wcscmp_s_eq dest dmax src smax st hall hd hs hpos hle hspos hsle, subS32_exact _ _ h1 h2]

/-- **wcsncmp_s, partial**: the same over `min dmax (min smax count)` elements -/
theorem wcsncmp_s_C10_partial (dest dmax src smax count : Nat) (st : St) (hall : AllRd st)
    (hd : dest ≠ 0) (hs : src ≠ 0) (hpos : 0 < dmax) (hle : dmax ≤ RSIZE_MAX_STR)
    (hspos : 0 < smax) (hsle : smax ≤ RSIZE_MAX_WSTR)
    (_hin : stopIdx st.data dest src (min dmax (min smax count)) < min dmax (min smax count))
    (h1 : -(2^31 : Int) ≤ toS32 (st.data (dest + stopIdx st.data dest src (min dmax (min smax count)))) -
                          toS32 (st.data (src + stopIdx st.data dest src (min dmax (min smax count)))))
    (h2 : toS32 (st.data (dest + stopIdx st.data dest src (min dmax (min smax count)))) -
          toS32 (st.data (src + stopIdx st.data dest src (min dmax (min smax count)))) < 2^31) :
    exec (wcsncmp_s dest dmax src smax count none none) st =
      .ok ((EOK, toS32 (st.data (dest + stopIdx st.data dest src (min dmax (min smax count)))) -
                 toS32 (st.data (src + stopIdx st.data dest src (min dmax (min smax count))))), st) := by
  rw [wcsncmp_s_eq dest dmax src smax count st hall hd hs hpos hle hspos hsle, subS32_exact _ _ h1 h2]

/-- `L"ab…"` against `L"ac…"` over `dmax = smax = 1` element: equal within the extent, `-1` stored.
Known finding `wcscmp-bound-ignored`. -/
theorem wcscmp_s_bound_witness :
    exec (wcscmp_s 100 1 200 1 none none)
        (wMem fun a => if a = 100 then 97 else if a = 101 then 98 else if a = 200 then 97 else if a = 201 then 99 else 0) =
      .ok ((EOK, -1),
        wMem fun a => if a = 100 then 97 else if a = 101 then 98 else if a = 200 then 97 else if a = 201 then 99 else 0) := by
  rw [wcscmp_s_eq _ _ _ _ _ (wMem_all _) (by decide) (by decide) (by decide) (by decide) (by decide) (by decide)]
  simp [wMem, stopIdx]; decide

/-- `wcsncmp_s` with `count = 1` on the same strings (`dmax = smax = 4`): `wcsncmp(…, 1)` is 0, `-1` is
stored.  Known finding `wcscmp-bound-ignored`. -/
theorem wcsncmp_s_count_witness :
    exec (wcsncmp_s 100 4 200 4 1 none none)
        (wMem fun a => if a = 100 then 97 else if a = 101 then 98 else if a = 200 then 97 else if a = 201 then 99 else 0) =
      .ok ((EOK, -1),
        wMem fun a => if a = 100 then 97 else if a = 101 then 98 else if a = 200 then 97 else if a = 201 then 99 else 0) := by
  rw [wcsncmp_s_eq _ _ _ _ _ _ (wMem_all _) (by decide) (by decide) (by decide) (by decide) (by decide) (by decide)]
  simp [wMem, stopIdx]; decide

/-- `int` overflow: first elements `0x7fffffff` (= INT_MAX) and `0xffffffff` (= -1): the left string
is the GREATER one, the value stored is `INT_MIN`, negative.  Known finding `wcscmp-int-overflow`. -/
theorem wcscmp_s_overflow_witness :
    exec (wcscmp_s 100 2 200 2 none none)
        (wMem fun a => if a = 100 then 2147483647 else if a = 200 then 4294967295 else 0) =
      .ok ((EOK, -2147483648), wMem fun a => if a = 100 then 2147483647 else if a = 200 then 4294967295 else 0) := by
  rw [wcscmp_s_eq _ _ _ _ _ (wMem_all _) (by decide) (by decide) (by decide) (by decide) (by decide) (by decide)]
  simp [wMem, stopIdx]; decide

example : ∃ st : St, AllRd st ∧ stopIdx st.data 100 200 (min 4 4) < min 4 4 ∧
    toS32 (st.data (100 + stopIdx st.data 100 200 (min 4 4))) - toS32 (st.data (200 + stopIdx st.data 100 200 (min 4 4))) = 1 :=
  ⟨wMem fun a => if a = 100 then 97 else if a = 101 then 99 else if a = 200 then 97 else if a = 201 then 98 else 0,
   wMem_all _, by decide, by decide⟩

example : ∃ st : St, AllRd st ∧ stopIdx st.data 100 200 (min 4 (min 4 3)) < min 4 (min 4 3) ∧
    toS32 (st.data (100 + stopIdx st.data 100 200 (min 4 (min 4 3)))) -
      toS32 (st.data (200 + stopIdx st.data 100 200 (min 4 (min 4 3)))) = -1 :=
  ⟨wMem fun a => if a = 100 then 97 else if a = 101 then 98 else if a = 200 then 97 else if a = 201 then 99 else 0,
   wMem_all _, by decide, by decide⟩

/-! ## memcmp16_s / memcmp32_s -/

/-- **memcmp16_s, partial** (`dlen * 2 ≤ RSIZE_MAX_MEM16`: the code compares the BYTE count with the
element limit): compares the first `slen ≤ dlen` 16-bit elements; 0 if equal, otherwise the
difference of the first differing pair -/
theorem memcmp16_s_C10_partial (dest dlen src slen : Nat) (st : St) (hall : AllRd st)
    (hd : dest ≠ 0) (hs : src ≠ 0) (hpos : 0 < dlen) (hle : dlen * 2 ≤ RSIZE_MAX_MEM16)
    (hspos : 0 < slen) (hsle : slen ≤ dlen) :
    exec (memcmp16_s dest dlen src slen none none) st =
      .ok ((EOK, match firstDiff st.data dest src slen with
                 | some i => (st.data (dest+i) : Int) - (st.data (src+i) : Int) | none => 0), st) := by
  unfold memcmp16_s memcmpG memcmpChecks
  have hm : RSIZE_MAX_MEM16 < 2^64 := by decide
  have e1 : dlen * 2 % 2^64 = dlen * 2 := Nat.mod_eq_of_lt (by omega)
  have h1 : ¬ dlen = 0 := by omega
  have h2 : ¬ dlen * 2 > RSIZE_MAX_MEM16 := by omega
  have h3 : ¬ slen = 0 := by omega
  have h4 : ¬ slen > RSIZE_MAX_MEM16 := by omega
  have h5 : ¬ slen > dlen := by omega
  simp only [hd, hs, e1, h1, h2, h3, h4, h5, if_false, exec_bind, exec_pure]
  by_cases hsame : dest = src
  · subst hsame
    simp [firstDiff_self]
  · simp only [hsame, if_false, exec_bind, memcmpLoopQ_eq hall _ _ _ _ _ hsle]
    rfl

example : ∃ st : St, AllRd st ∧ firstDiff st.data 100 200 2 = some 1 ∧ (st.data 101 : Int) - (st.data 201 : Int) = -65535 :=
  ⟨wMem fun a => if a = 100 then 7 else if a = 200 then 7 else if a = 201 then 65535 else 0, wMem_all _, by decide, by decide⟩

/-- a VALID element count above half the limit is rejected with ESLEMAX (`dmax = dlen * 2` is
compared with `RSIZE_MAX_MEM16`).  Known finding `memcmp16-bytes-vs-elements` (recorded under C05). -/
theorem memcmp16_s_limit_witness (st : St) :
    (exec (memcmp16_s 100 RSIZE_MAX_MEM16 200 1 none none) st).map (·.1) = .ok (ESLEMAX, -1) := by
  unfold memcmp16_s memcmpG memcmpChecks
  simp [exec_bind, qFailM, handlerM, RSIZE_MAX_MEM16, Except.map]

/-- what `memcmp32_s` computes on ANY memory: the `uint32_t` difference of the first differing
pair converted to `int` -/
theorem memcmp32_s_eq (dest dlen src slen : Nat) (st : St) (hall : AllRd st)
    (hd : dest ≠ 0) (hs : src ≠ 0) (hpos : 0 < dlen) (hle : dlen ≤ RSIZE_MAX_MEM32)
    (hspos : 0 < slen) (hsle : slen ≤ dlen) :
    exec (memcmp32_s dest dlen src slen none none) st =
      .ok ((EOK, match firstDiff st.data dest src slen with
                 | some i => toInt32 (st.data (dest+i) + 2^32 - st.data (src+i)) | none => 0), st) := by
  unfold memcmp32_s memcmpG memcmpChecks
  have h1 : ¬ dlen = 0 := by omega
  have h2 : ¬ dlen > RSIZE_MAX_MEM32 := by omega
  have h3 : ¬ slen = 0 := by omega
  have h4 : ¬ slen > RSIZE_MAX_MEM32 := by omega
  have h5 : ¬ slen > dlen := by omega
  simp only [hd, hs, h1, h2, h3, h4, h5, if_false, exec_bind, exec_pure]
  by_cases hsame : dest = src
  · subst hsame
    simp [firstDiff_self]
  · simp only [hsame, if_false, exec_bind, memcmpLoopQ_eq hall _ _ _ _ _ hsle]
    rfl

/-- **memcmp32_s, partial** (the first differing elements are less than `2^31` apart): 0 if the
first `slen` 32-bit elements are equal, otherwise the difference of the first differing pair -/
theorem memcmp32_s_C10_partial (dest dlen src slen : Nat) (st : St) (hall : AllRd st)
    (hd : dest ≠ 0) (hs : src ≠ 0) (hpos : 0 < dlen) (hle : dlen ≤ RSIZE_MAX_MEM32)
    (hspos : 0 < slen) (hsle : slen ≤ dlen)
    (hcells : ∀ a, st.data a < 2^32)
    (hnear : ∀ i, firstDiff st.data dest src slen = some i →
      -(2^31 : Int) ≤ (st.data (dest+i) : Int) - (st.data (src+i) : Int) ∧
      (st.data (dest+i) : Int) - (st.data (src+i) : Int) < 2^31) :
    exec (memcmp32_s dest dlen src slen none none) st =
      .ok ((EOK, match firstDiff st.data dest src slen with
                 | some i => (st.data (dest+i) : Int) - (st.data (src+i) : Int) | none => 0), st) := by
  rw [memcmp32_s_eq dest dlen src slen st hall hd hs hpos hle hspos hsle]
  cases hf : firstDiff st.data dest src slen with
  | none => rfl
  | some i =>
    obtain ⟨h1, h2⟩ := hnear i hf
    simp only [toInt32_diff _ _ (hcells _) (hcells _) h1 h2]

/-- elements `0x80000000` against `0`: the left operand is the greater one, `*diff` is `INT_MIN`.
Known finding `memcmp32-unsigned-diff`. -/
theorem memcmp32_s_sign_witness :
    exec (memcmp32_s 100 1 200 1 none none) (wMem fun a => if a = 100 then 2147483648 else 0) =
      .ok ((EOK, -2147483648), wMem fun a => if a = 100 then 2147483648 else 0) := by
  rw [memcmp32_s_eq _ _ _ _ _ (wMem_all _) (by decide) (by decide) (by decide) (by decide) (by decide) (by decide)]
  simp [wMem, firstDiff]; decide

example : ∃ st : St, AllRd st ∧ (∀ a, st.data a < 2^32) ∧ firstDiff st.data 100 200 2 = some 1 :=
  ⟨wMem fun a => if a = 100 then 7 else if a = 101 then 9 else if a = 200 then 7 else 0, wMem_all _,
   fun a => by simp only [wMem]; split <;> (try split) <;> (try split) <;> omega, by decide⟩

end SafeC.Props.C10

import SafeC.Proofs.ExtOs
/-!
# C08 for `getenv_s` and `strerror_s`: after success nothing stale remains behind the terminator

Same setting as `Props/C03ExtOs.lean` (declared extents only, ARBITRARY prior dest content).  Default (null-slack) build:
after a successful `getenv_s` / a `strerror_s` whose message fits, every cell of dest from the terminator up to `dmax` is
zero.  After a truncating `strerror_s` EVERY cell of dest is determined in BOTH builds (prefix, `...`, NUL in the last
cell), so nothing stale can remain — although the inner `strncpy_s(dest, dmax, msg, 0)` of the `dmax = 4` case takes the
`slen == 0` shortcut that does not null the slack (known finding `strncpy-slen0-shortcut`): the following `strcat_s`
overwrites all four cells.
-/
namespace SafeC.Props.C08Ext
open SafeC Gen

/-- getenv_s success, null-slack build: readable name, variable set to a string of length n < dmax not overlapping dest,
arbitrary prior dest content. Returns EOK (*len = n), dest[0..n) = the value, and EVERY cell dest[n..dmax) is zero. -/
theorem getenv_s_C08 (hasLen : Bool) (dest dmax name : Nat) (destbos : Bos) (value k n : Nat) (st : St)
    (hd : dest ≠ 0) (hpos : 0 < dmax) (hle : dmax ≤ RSIZE_MAX_STR) (hbos : ∀ b, destbos = some b → dmax ≤ b)
    (hrw : RW st dest dmax) (hname : name ≠ 0) (hnm : SrcStr st name k)
    (hv : value ≠ 0) (hval : SrcStr st value n) (hn : n < dmax) (hdisj : Disjoint dest dmax value n) :
    ∃ st', exec (getenv_s { slack := true } hasLen dest dmax name destbos value) st
        = .ok ((EOK, if hasLen then some n else none), st') ∧
      (∀ i, i < n → st'.data (dest+i) = st.data (value+i)) ∧
      (∀ i, n ≤ i → i < dmax → st'.data (dest+i) = 0) := by
  obtain ⟨st', he, _, _, _, _, _, _, c3, _, c5⟩ :=
    getenv_s_ok { slack := true } hasLen dest dmax name destbos value k n st hd hpos hle hbos hrw hname hnm hv hval hn
      hdisj
  exact ⟨st', he, c3, c5 rfl⟩

/-- strerror_s, the message fits, null-slack build: msg holds the message (length n < dmax, not overlapping dest),
strerrorlen_s answers n (hlen: table agrees with the text for own codes; strlen otherwise, see strerror_s_C08_libc).
Returns EOK with no handler event, dest[0..n) = the message, and EVERY cell dest[n..dmax) is zero; frame. -/
theorem strerror_s_C08 (dest dmax errnum : Nat) (destbos : Bos) (msg dots n : Nat) (st : St)
    (hd : dest ≠ 0) (hpos : 0 < dmax) (hle : dmax ≤ RSIZE_MAX_STR) (hbos : ∀ b, destbos = some b → dmax ≤ b)
    (hrw : RW st dest dmax) (hlen : exec (strerrorlen_s errnum msg) st = .ok (n, st))
    (hm : msg ≠ 0) (hsrc : SrcStr st msg n) (hn : n < dmax) (hdisj : Disjoint dest dmax msg n) :
    ∃ st', exec (strerror_s { slack := true } dest dmax errnum destbos msg dots) st = .ok (EOK, st') ∧
      st'.events = st.events ∧ st'.strays = st.strays ∧
      (∀ i, i < n → st'.data (dest+i) = st.data (msg+i)) ∧
      (∀ i, n ≤ i → i < dmax → st'.data (dest+i) = 0) ∧
      (∀ a, ¬ (dest ≤ a ∧ a < dest + dmax) → st'.data a = st.data a) := by
  obtain ⟨st', he, _, _, _, ps, pf, pe, c3, _, c5⟩ :=
    strerror_s_fit { slack := true } dest dmax errnum destbos msg dots n st hd hpos hle hbos hrw hlen hm hsrc hn hdisj
  exact ⟨st', he, pe, ps, c3, c5 rfl, pf⟩

/-- strerror_s, message fits, errnum outside the library's own range (strerrorlen_s = libc strlen): as strerror_s_C08
with no hypothesis on strerrorlen_s. -/
theorem strerror_s_C08_libc (dest dmax errnum : Nat) (destbos : Bos) (msg dots n : Nat) (st : St)
    (hd : dest ≠ 0) (hpos : 0 < dmax) (hle : dmax ≤ RSIZE_MAX_STR) (hbos : ∀ b, destbos = some b → dmax ≤ b)
    (hrw : RW st dest dmax) (hown : isSafeclibErr errnum = false)
    (hm : msg ≠ 0) (hsrc : SrcStr st msg n) (hn : n < dmax) (hdisj : Disjoint dest dmax msg n) :
    ∃ st', exec (strerror_s { slack := true } dest dmax errnum destbos msg dots) st = .ok (EOK, st') ∧
      st'.events = st.events ∧ st'.strays = st.strays ∧
      (∀ i, i < n → st'.data (dest+i) = st.data (msg+i)) ∧
      (∀ i, n ≤ i → i < dmax → st'.data (dest+i) = 0) ∧
      (∀ a, ¬ (dest ≤ a ∧ a < dest + dmax) → st'.data a = st.data a) :=
  strerror_s_C08 dest dmax errnum destbos msg dots n st hd hpos hle hbos hrw
    (strerrorlen_s_libc_eq errnum msg n st hown hsrc (by have := RSIZE_lt_scanFuel; omega)) hm hsrc hn hdisj

/-- strerror_s, truncation, BOTH builds: strerrorlen_s answers len ≥ dmax, dmax > 3 (dmax = 4 included), the first
dmax-4 characters of msg are non-NUL, readable and away from dest (msg + (dmax-4) < dest strictly, or dest + dmax ≤ msg),
dots is the literal "...". Returns EOK, no handler event, and dest is completely determined: the first dmax-4 characters
of the message, then 46 46 46, then NUL in the last cell dest[dmax-1]; frame. -/
theorem strerror_s_C08_trunc (cfg : Cfg) (dest dmax errnum : Nat) (destbos : Bos) (msg dots len : Nat) (st : St)
    (hd : dest ≠ 0) (h3 : 3 < dmax) (hle : dmax ≤ RSIZE_MAX_STR) (hbos : ∀ b, destbos = some b → dmax ≤ b)
    (hrw : RW st dest dmax) (hlen : exec (strerrorlen_s errnum msg) st = .ok (len, st)) (hge : dmax ≤ len)
    (hm : msg ≠ 0)
    (hnz : ∀ j, j < dmax - 4 → st.data (msg+j) ≠ 0)
    (hrd : ∀ j, j < dmax - 4 → st.mapped (msg+j) = true ∧ st.rd (msg+j) = true)
    (hdisj : dest + dmax ≤ msg ∨ msg + (dmax - 4) < dest)
    (hdots : dots ≠ 0) (hds : SrcStr st dots 3) (hdd : Disjoint dest dmax dots 3)
    (h46 : st.data dots = 46 ∧ st.data (dots+1) = 46 ∧ st.data (dots+2) = 46) :
    ∃ st', exec (strerror_s cfg dest dmax errnum destbos msg dots) st = .ok (EOK, st') ∧
      st'.events = st.events ∧ st'.strays = st.strays ∧
      (∀ i, i < dmax - 4 → st'.data (dest+i) = st.data (msg+i)) ∧
      st'.data (dest + (dmax-4)) = 46 ∧ st'.data (dest + (dmax-3)) = 46 ∧ st'.data (dest + (dmax-2)) = 46 ∧
      st'.data (dest + (dmax-1)) = 0 ∧
      (∀ a, ¬ (dest ≤ a ∧ a < dest + dmax) → st'.data a = st.data a) := by
  obtain ⟨st', he, _, _, _, ps, pf, pe, c3, c4, c5, c6, c7⟩ :=
    strerror_s_trunc cfg dest dmax errnum destbos msg dots len st hd h3 hle hbos hrw hlen hge hm hnz hrd hdisj
      hdots hds hdd h46
  exact ⟨st', he, pe, ps, c3, c4, c5, c6, c7, pf⟩

/-- strerror_s truncation for an errnum outside the library's own range: msg is a readable string of length n ≥ dmax
(any n) not overlapping dest, dmax > 3. Same conclusion as strerror_s_C08_trunc, no hypothesis on strerrorlen_s. -/
theorem strerror_s_C08_trunc_libc (cfg : Cfg) (dest dmax errnum : Nat) (destbos : Bos) (msg dots n : Nat) (st : St)
    (hd : dest ≠ 0) (h3 : 3 < dmax) (hle : dmax ≤ RSIZE_MAX_STR) (hbos : ∀ b, destbos = some b → dmax ≤ b)
    (hrw : RW st dest dmax) (hown : isSafeclibErr errnum = false)
    (hm : msg ≠ 0) (hsrc : SrcStr st msg n) (hge : dmax ≤ n) (hdisj : Disjoint dest dmax msg n)
    (hdots : dots ≠ 0) (hds : SrcStr st dots 3) (hdd : Disjoint dest dmax dots 3)
    (h46 : st.data dots = 46 ∧ st.data (dots+1) = 46 ∧ st.data (dots+2) = 46) :
    ∃ st', exec (strerror_s cfg dest dmax errnum destbos msg dots) st = .ok (EOK, st') ∧
      st'.events = st.events ∧ st'.strays = st.strays ∧
      (∀ i, i < dmax - 4 → st'.data (dest+i) = st.data (msg+i)) ∧
      st'.data (dest + (dmax-4)) = 46 ∧ st'.data (dest + (dmax-3)) = 46 ∧ st'.data (dest + (dmax-2)) = 46 ∧
      st'.data (dest + (dmax-1)) = 0 ∧
      (∀ a, ¬ (dest ≤ a ∧ a < dest + dmax) → st'.data a = st.data a) := by
  obtain ⟨len, hlen, hag⟩ := strerrorlen_s_libc errnum msg n st hown hsrc
  have hge' : dmax ≤ len := by
    have := RSIZE_lt_scanFuel
    rcases hag with h | h <;> omega
  exact strerror_s_C08_trunc cfg dest dmax errnum destbos msg dots len st hd h3 hle hbos hrw hlen hge' hm
    (fun j hj => hsrc.nz j (by omega)) (fun j hj => hsrc.rd j (by omega))
    (by unfold Disjoint at hdisj; omega) hdots hds hdd h46

/-- non-vacuity: dest = 100 (8 cells holding 7), name "A" at 300, value "aa" at 200 (fits), message of 11 characters at
400 with errnum 5 (not an own code; 11 ≥ 8 > 3: truncation to "dddd..."), "..." at 500 -/
example : (100 : Nat) ≠ 0 ∧ 3 < 8 ∧ 8 ≤ RSIZE_MAX_STR ∧ RW osExSt 100 8 ∧
    (300 : Nat) ≠ 0 ∧ SrcStr osExSt 300 1 ∧ (200 : Nat) ≠ 0 ∧ SrcStr osExSt 200 2 ∧ 2 < 8 ∧ Disjoint 100 8 200 2 ∧
    isSafeclibErr 5 = false ∧ (400 : Nat) ≠ 0 ∧ SrcStr osExSt 400 11 ∧ 8 ≤ 11 ∧ Disjoint 100 8 400 11 ∧
    (500 : Nat) ≠ 0 ∧ SrcStr osExSt 500 3 ∧ Disjoint 100 8 500 3 ∧
    (osExSt.data 500 = 46 ∧ osExSt.data (500+1) = 46 ∧ osExSt.data (500+2) = 46) :=
  ⟨by decide, by decide, by decide, osExSt_rw, by decide, osExSt_str _ _ (by omega), by decide,
   osExSt_str _ _ (by omega), by decide, Or.inl (by decide), by decide, by decide, osExSt_str _ _ (by omega),
   by decide, Or.inl (by decide), by decide, osExSt_str _ _ (by omega), Or.inl (by decide), osExSt_dots⟩

end SafeC.Props.C08Ext

import SafeC.Proofs.EV
import SafeC.Models.Inplace
/-!
# C05 for the in-place family, through the `EV` event judgement

"Every constraint violation is reported exactly once, with the code returned", the *consistency*
half: for ALL arguments (null, zero, huge, object size known or not), ALL memory contents and
placements, every call that returns has appended either no event and returned EOK, or exactly one
str-handler event carrying precisely the code it returned — never two events, never a different
code, never a silent failure, never a report followed by EOK.  The statements need no hypothesis
on the state: the judgement quantifies over every value a load can return.

(The other half — *which* arguments count as violations — is decided per function by the oracle of
the correspondence run from the doc comments, and for the copy family by the theorems of `C05.lean`.)
-/
namespace SafeC.Props.C05Ev
open SafeC Gen

/-- what a proved `EV … (Once k)` means for runs: the full statement used by every theorem below -/
def Discipline (k : Kind) (p : Prog Nat) : Prop :=
  ∀ (st : St) (r : Nat) (st' : St), exec p st = .ok (r, st') →
    (r = EOK ∧ st'.events = st.events) ∨ (r ≠ EOK ∧ st'.events = st.events ++ [.handler k r])

theorem Discipline.of_EV {k : Kind} {p : Prog Nat} (h : EV p (Once k)) : Discipline k p := by
  intro st r st' he
  obtain ⟨es, h1, h2⟩ := h.sound st he
  rcases h2 with ⟨hr, hes⟩ | ⟨hr, hes⟩
  · left; subst hes; exact ⟨hr, by simpa using h1⟩
  · right; subst hes; exact ⟨hr, h1⟩

/-! ## building blocks -/

theorem failS_once (c : Nat) (hc : c ≠ EOK) : EV (failS c) (Once .str) :=
  (EV.failS c).conseq (fun r es ⟨h1, h2⟩ => by subst h1; exact Or.inr ⟨hc, h2⟩)

theorem failM_once (c : Nat) (hc : c ≠ EOK) : EV (failM c) (Once .mem) :=
  (EV.failM c).conseq (fun r es ⟨h1, h2⟩ => by subst h1; exact Or.inr ⟨hc, h2⟩)

theorem eok_once {k : Kind} : EV (pure EOK : Prog Nat) (Once k) := EV.pure _ (Or.inl ⟨rfl, rfl⟩)

/-- a silent prefix does not disturb the discipline of what follows -/
theorem after_silent {α} {k : Kind} {p : Prog α} {f : α → Prog Nat} {Q : α → Prop}
    (hp : EV.Silent p Q) (hf : ∀ x, Q x → EV (f x) (Once k)) : EV (p >>= f) (Once k) :=
  EV.bindSilent hp hf

/-- `handle_error(...)` then `return code` -/
theorem handleError_ret_once (cfg : Cfg) (d len code : Nat) (hc : code ≠ EOK) :
    EV (do handleError cfg d len code; pure code : Prog Nat) (Once .str) :=
  EV.bind (EV.handleError cfg d len code)
    (fun _ es he => by subst he; exact EV.pure _ (Or.inr ⟨hc, by simp⟩))

theorem chkDmax_once (dmax : Nat) (destbos : Bos) (max : Nat) {k : Prog Nat} (hk : EV k (Once .str)) :
    EV (chkDmax dmax destbos max k) (Once .str) := by
  unfold chkDmax
  split
  · split
    · exact failS_once _ (by decide)
    · exact hk
  · split
    · split
      · exact failS_once _ (by decide)
      · exact failS_once _ (by decide)
    · exact hk

theorem chkDmaxClearW_once (cfg : Cfg) (dest dmax : Nat) (destbos : Bos) {k : Prog Nat} (hk : EV k (Once .str)) :
    EV (chkDmaxClearW cfg dest dmax destbos k) (Once .str) := by
  unfold chkDmaxClearW
  split
  · split
    · exact failS_once _ (by decide)
    · exact hk
  · split
    · split
      · exact handleError_ret_once _ _ _ _ (by decide)
      · exact handleError_ret_once _ _ _ _ (by decide)
    · exact hk

/-! ## the loops are silent -/

theorem setLoop_silent (v k d : Nat) : EV.Silent (setLoop v k d) (fun _ => True) := by
  induction k generalizing d with
  | zero => exact EV.pure _ ⟨rfl, trivial⟩
  | succ k ih =>
    unfold setLoop
    refine EV.bindSilent (EV.loadP d) (fun c _ => ?_)
    split
    · exact EV.pure _ ⟨rfl, trivial⟩
    · exact EV.bindSilent (EV.storeP d v) (fun _ _ => ih (d+1))

theorem slackTail_silent (cfg : Cfg) (d n : Nat) : EV.Silent (slackTail cfg d n) (fun _ => True) := by
  unfold slackTail
  split
  · refine EV.bindSilent (EV.loadP d) (fun c _ => ?_)
    split
    · exact EV.memsetP 0 n d
    · exact EV.pure _ ⟨rfl, trivial⟩
  · exact EV.pure _ ⟨rfl, trivial⟩

theorem caseLoop_silent (lo hi : Nat) (f : Nat → Nat) (n d : Nat) :
    EV.Silent (caseLoop lo hi f n d) (fun _ => True) := by
  induction n generalizing d with
  | zero => exact EV.pure _ ⟨rfl, trivial⟩
  | succ n ih =>
    unfold caseLoop
    refine EV.bindSilent (EV.loadP d) (fun c _ => ?_)
    split
    · exact EV.pure _ ⟨rfl, trivial⟩
    · refine EV.bindSilent (EV.loadP d) (fun c1 _ => ?_)
      split
      · refine EV.bindSilent (EV.loadP d) (fun c2 _ => ?_)
        split
        · refine EV.bindSilent (EV.loadP d) (fun c3 _ => ?_)
          exact EV.bindSilent (EV.storeP d _) (fun _ _ => ih (d+1))
        · exact ih (d+1)
      · exact ih (d+1)

theorem ntermLoop_silent (k d c : Nat) : EV.Silent (ntermLoop k d c) (fun _ => True) := by
  induction k generalizing d c with
  | zero => exact EV.pure _ ⟨rfl, trivial⟩
  | succ k ih =>
    unfold ntermLoop
    refine EV.bindSilent (EV.loadP d) (fun v _ => ?_)
    split
    · exact ih _ _
    · exact EV.pure _ ⟨rfl, trivial⟩

theorem skipWs_silent (fuel d : Nat) : EV.Silent (skipWs fuel d) (fun _ => True) := by
  induction fuel generalizing d with
  | zero => exact EV.pure _ ⟨rfl, trivial⟩
  | succ k ih =>
    unfold skipWs
    refine EV.bindSilent (EV.loadP d) (fun v _ => ?_)
    split
    · exact ih _
    · refine EV.bindSilent (EV.loadP d) (fun v' _ => ?_)
      split
      · exact ih _
      · exact EV.pure _ ⟨rfl, trivial⟩

theorem shiftLoop_silent (fuel od d : Nat) : EV.Silent (shiftLoop fuel od d) (fun _ => True) := by
  induction fuel generalizing od d with
  | zero => exact EV.pure _ ⟨rfl, trivial⟩
  | succ k ih =>
    unfold shiftLoop
    refine EV.bindSilent (EV.loadP d) (fun v _ => ?_)
    split
    · exact EV.pure _ ⟨rfl, trivial⟩
    · refine EV.bindSilent (EV.loadP d) (fun v' _ => ?_)
      refine EV.bindSilent (EV.storeP od v') (fun _ _ => ?_)
      exact EV.bindSilent (EV.storeP d 0x20) (fun _ _ => ih _ _)

theorem stripTrailing_silent (fuel d : Nat) : EV.Silent (stripTrailing fuel d) (fun _ => True) := by
  induction fuel generalizing d with
  | zero => exact EV.pure _ ⟨rfl, trivial⟩
  | succ k ih =>
    unfold stripTrailing
    refine EV.bindSilent (EV.loadP d) (fun v _ => ?_)
    split
    · exact EV.bindSilent (EV.storeP d 0) (fun _ _ => ih _)
    · refine EV.bindSilent (EV.loadP d) (fun v' _ => ?_)
      split
      · exact EV.bindSilent (EV.storeP d 0) (fun _ _ => ih _)
      · exact EV.pure _ ⟨rfl, trivial⟩

/-- the termination scan: found (silently), or the ESUNTERM exit after exactly one report -/
theorem termScan_ev (od om n d : Nat) :
    EV (termScan od om n d) (fun r es => (r = none ∧ es = [.handler .str ESUNTERM]) ∨ (r ≠ none ∧ es = [])) := by
  induction n generalizing d with
  | zero =>
    unfold termScan
    refine EV.bindSilent (EV.loadP d) (fun c _ => ?_)
    split
    · exact EV.pure _ (Or.inr ⟨by simp, rfl⟩)
    · refine EV.bindSilent (EV.zeroLoop om od) (fun _ _ => ?_)
      exact EV.bind (EV.handlerS ESUNTERM) (fun _ es he => by subst he; exact EV.pure _ (Or.inl ⟨rfl, by simp⟩))
  | succ n ih =>
    unfold termScan
    refine EV.bindSilent (EV.loadP d) (fun c _ => ?_)
    split
    · exact EV.pure _ (Or.inr ⟨by simp, rfl⟩)
    · exact ih _

/-! ## the functions -/

theorem strset_s_ev (cfg : Cfg) (dest dmax value : Nat) (destbos : Bos) :
    EV (strset_s cfg dest dmax value destbos) (Once .str) := by
  unfold strset_s
  split
  · exact failS_once _ (by decide)
  split
  · exact failS_once _ (by decide)
  refine chkDmax_once _ _ _ ?_
  split
  · exact failS_once _ (by decide)
  refine after_silent (setLoop_silent _ _ _) (fun x _ => ?_)
  exact after_silent (slackTail_silent cfg x.1 x.2) (fun _ _ => eok_once)

theorem strnset_s_ev (cfg : Cfg) (dest dmax value n : Nat) (destbos : Bos) :
    EV (strnset_s cfg dest dmax value n destbos) (Once .str) := by
  unfold strnset_s
  split
  · exact failS_once _ (by decide)
  split
  · exact failS_once _ (by decide)
  refine chkDmax_once _ _ _ ?_
  split
  · exact failS_once _ (by decide)
  split
  · exact failS_once _ (by decide)
  refine after_silent (setLoop_silent _ _ _) (fun x _ => ?_)
  exact after_silent (slackTail_silent cfg x.1 _) (fun _ _ => eok_once)

theorem strzero_s_ev (cfg : Cfg) (dest dmax : Nat) (destbos : Bos) :
    EV (strzero_s cfg dest dmax destbos) (Once .str) := by
  unfold strzero_s
  split
  · exact failS_once _ (by decide)
  split
  · exact failS_once _ (by decide)
  refine chkDmax_once _ _ _ ?_
  refine after_silent (setLoop_silent _ _ _) (fun x _ => ?_)
  exact after_silent (slackTail_silent cfg x.1 x.2) (fun _ _ => eok_once)

theorem strtolowercase_s_ev (cfg : Cfg) (dest dmax : Nat) (destbos : Bos) :
    EV (strtolowercase_s cfg dest dmax destbos) (Once .str) := by
  unfold strtolowercase_s
  split
  · exact failS_once _ (by decide)
  split
  · exact failS_once _ (by decide)
  exact chkDmax_once _ _ _ (after_silent (caseLoop_silent _ _ _ _ _) (fun _ _ => eok_once))

theorem strtouppercase_s_ev (cfg : Cfg) (dest dmax : Nat) (destbos : Bos) :
    EV (strtouppercase_s cfg dest dmax destbos) (Once .str) := by
  unfold strtouppercase_s
  split
  · exact failS_once _ (by decide)
  split
  · exact failS_once _ (by decide)
  exact chkDmax_once _ _ _ (after_silent (caseLoop_silent _ _ _ _ _) (fun _ _ => eok_once))

theorem strljustify_s_ev (cfg : Cfg) (dest dmax : Nat) (destbos : Bos) :
    EV (strljustify_s cfg dest dmax destbos) (Once .str) := by
  unfold strljustify_s
  split
  · exact failS_once _ (by decide)
  split
  · exact failS_once _ (by decide)
  refine chkDmax_once _ _ _ ?_
  split
  · exact after_silent (EV.storeP dest 0) (fun _ _ => eok_once)
  refine after_silent (EV.loadP dest) (fun c _ => ?_)
  split
  · exact eok_once
  refine EV.bind (termScan_ev dest dmax dmax dest) (fun r es h => ?_)
  rcases h with ⟨hr, hes⟩ | ⟨hr, hes⟩
  · subst hr; subst hes
    exact EV.pure _ (Or.inr ⟨by decide, by simp⟩)
  · subst hes
    cases r with
    | none => exact absurd rfl hr
    | some e =>
      simp only [List.nil_append]
      refine after_silent (skipWs_silent _ _) (fun d _ => ?_)
      split
      · refine after_silent (shiftLoop_silent _ _ _) (fun x _ => ?_)
        exact after_silent (EV.storeP x.1 0) (fun _ _ => eok_once)
      · exact eok_once

theorem strremovews_s_ev (cfg : Cfg) (dest dmax : Nat) (destbos : Bos) :
    EV (strremovews_s cfg dest dmax destbos) (Once .str) := by
  unfold strremovews_s
  split
  · exact failS_once _ (by decide)
  split
  · exact failS_once _ (by decide)
  refine chkDmax_once _ _ _ ?_
  refine after_silent (EV.loadP dest) (fun c _ => ?_)
  split
  · exact after_silent (EV.storeP dest 0) (fun _ _ => eok_once)
  refine EV.bind (termScan_ev dest dmax dmax dest) (fun r es h => ?_)
  rcases h with ⟨hr, hes⟩ | ⟨hr, hes⟩
  · subst hr; subst hes
    exact EV.pure _ (Or.inr ⟨by decide, by simp⟩)
  · subst hes
    cases r with
    | none => exact absurd rfl hr
    | some e =>
      simp only [List.nil_append]
      refine after_silent (skipWs_silent _ _) (fun d _ => ?_)
      refine after_silent (EV.loadP d) (fun c0 _ => ?_)
      split
      · exact after_silent (EV.storeP dest 0) (fun _ _ => eok_once)
      · have tail : EV (do stripTrailing (e - 1 + 1) (e - 1); pure EOK : Prog Nat) (Once .str) :=
          after_silent (stripTrailing_silent _ _) (fun _ _ => eok_once)
        split
        · refine after_silent (EV.loadP d) (fun c _ => ?_)
          split
          · refine after_silent (shiftLoop_silent _ _ _) (fun x _ => ?_)
            exact after_silent (EV.storeP x.2 0) (fun _ _ => tail)
          · exact tail
        · exact tail

theorem wcsset_s_ev (cfg : Cfg) (dest dmax value : Nat) (destbos : Bos) :
    EV (wcsset_s cfg dest dmax value destbos) (Once .str) := by
  unfold wcsset_s
  split
  · exact failS_once _ (by decide)
  split
  · exact failS_once _ (by decide)
  split
  · exact failS_once _ (by decide)
  refine chkDmaxClearW_once _ _ _ _ ?_
  refine after_silent (setLoop_silent _ _ _) (fun x _ => ?_)
  exact after_silent (slackTail_silent cfg x.1 x.2) (fun _ _ => eok_once)

theorem wcsnset_s_ev (cfg : Cfg) (dest dmax value n : Nat) (destbos : Bos) :
    EV (wcsnset_s cfg dest dmax value n destbos) (Once .str) := by
  unfold wcsnset_s
  split
  · exact failS_once _ (by decide)
  split
  · exact failS_once _ (by decide)
  split
  · exact failS_once _ (by decide)
  refine chkDmaxClearW_once _ _ _ _ ?_
  split
  · exact handleError_ret_once _ _ _ _ (by decide)
  refine after_silent (setLoop_silent _ _ _) (fun x _ => ?_)
  exact after_silent (slackTail_silent cfg x.1 _) (fun _ _ => eok_once)

/-! ## property statements (what the judgement means for runs), one per function -/

/-- strset_s: all arguments, all memory — EOK and no event, or code ≠ EOK and exactly that one str-handler event -/
theorem strset_s_C05 (cfg : Cfg) (dest dmax value : Nat) (destbos : Bos) :
    Discipline .str (strset_s cfg dest dmax value destbos) := .of_EV (strset_s_ev ..)
/-- strnset_s: same -/
theorem strnset_s_C05 (cfg : Cfg) (dest dmax value n : Nat) (destbos : Bos) :
    Discipline .str (strnset_s cfg dest dmax value n destbos) := .of_EV (strnset_s_ev ..)
/-- strzero_s: same -/
theorem strzero_s_C05 (cfg : Cfg) (dest dmax : Nat) (destbos : Bos) :
    Discipline .str (strzero_s cfg dest dmax destbos) := .of_EV (strzero_s_ev ..)
/-- strtolowercase_s: same -/
theorem strtolowercase_s_C05 (cfg : Cfg) (dest dmax : Nat) (destbos : Bos) :
    Discipline .str (strtolowercase_s cfg dest dmax destbos) := .of_EV (strtolowercase_s_ev ..)
/-- strtouppercase_s: same -/
theorem strtouppercase_s_C05 (cfg : Cfg) (dest dmax : Nat) (destbos : Bos) :
    Discipline .str (strtouppercase_s cfg dest dmax destbos) := .of_EV (strtouppercase_s_ev ..)
/-- strljustify_s: same, including the ESUNTERM exit found only after scanning dest -/
theorem strljustify_s_C05 (cfg : Cfg) (dest dmax : Nat) (destbos : Bos) :
    Discipline .str (strljustify_s cfg dest dmax destbos) := .of_EV (strljustify_s_ev ..)
/-- strremovews_s: same -/
theorem strremovews_s_C05 (cfg : Cfg) (dest dmax : Nat) (destbos : Bos) :
    Discipline .str (strremovews_s cfg dest dmax destbos) := .of_EV (strremovews_s_ev ..)
/-- wcsset_s: same (known object size: the clearing EOVERFLOW/ESLEMAX exits report once too) -/
theorem wcsset_s_C05 (cfg : Cfg) (dest dmax value : Nat) (destbos : Bos) :
    Discipline .str (wcsset_s cfg dest dmax value destbos) := .of_EV (wcsset_s_ev ..)
/-- wcsnset_s: same -/
theorem wcsnset_s_C05 (cfg : Cfg) (dest dmax value n : Nat) (destbos : Bos) :
    Discipline .str (wcsnset_s cfg dest dmax value n destbos) := .of_EV (wcsnset_s_ev ..)

/-- non-vacuity: a run that reports (dmax = 0) and a run that succeeds -/
example : (exec (strzero_s {} 100 0 none) { data := fun _ => 7, mapped := fun _ => true, rd := fun _ => true, wr := fun _ => true }
    |>.toOption.map (fun x => (x.1, x.2.events))) = some (ESZEROL, [.handler .str ESZEROL]) := by decide
example : (exec (strzero_s {} 100 2 none) { data := fun a => if a = 101 then 0 else 7, mapped := fun _ => true, rd := fun _ => true, wr := fun _ => true }
    |>.toOption.map (fun x => (x.1, x.2.events))) = some (EOK, []) := by decide

end SafeC.Props.C05Ev

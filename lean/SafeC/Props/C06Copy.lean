import SafeC.Proofs.CatAll
import SafeC.Proofs.CatSlen0
import SafeC.Props.C06
/-!
# C06 — `strcpy_s strncpy_s strcat_s strncat_s` and the wide twins: the complete case split for EVERY placement of the source

Setting of `Props/C06Ext2.lean`: every cell mapped and readable with ARBITRARY contents, the `dmax` cells of dest
writable, usable sizes (`dest ≠ 0`, `0 < dmax ≤ RSIZE_MAX_(W)STR`, a known object size not smaller than `dmax`, a
known source size that contains `slen`); `cfg` — both slack configurations — is universally quantified.  The source
holds `m` non-NUL cells followed by a NUL, or (bounded copies) `slen = m` runs out first, at ANY address (before,
inside, behind dest).

`CpyC06`: the return code is EOK EXACTLY when the complete result including its terminator fits in `dmax` AND the
`m + 1` cells read and the `m + 1` cells written do not meet; then `dest[0..m)` are the source characters (values
before the call), `dest[m] = 0`, with null-slack `dest[m..dmax) = 0`, no handler call, nothing outside dest changed.
ESNOSPC EXACTLY when the result does not fit and the `dmax` cells that get copied do not meet; ESOVRLP otherwise
(`Props/C07Copy.lean`).  On every failure dest is cleared and the handler is called once with the code returned: never
a shortened or corrupted result reported as success.

For the bounded copies with `slen = m` the `(m+1)`-th source cell is not read, but the code treats it as if it were
(`src + m = dest` is rejected: `bounded-copy-src-ends-at-dest`, stated as `_partial` / `_witness` in `C07Copy.lean`).
`*_C06_same`: `strcpy_s(d, dmax, d)` as the code defines it (`same-pointer-shortcut`); `*_C06_slen0`: `slen = 0` as
the code defines it (`strncpy-slen0-shortcut`).  The concatenations (`CatC06`, second half of the file): the same on top
of the scan for the end of dest — EOK exactly when old length + `m` + 1 ≤ `dmax` and nothing meets, result = old dest
string ++ first `m` source characters ++ NUL.
-/
namespace SafeC.Props.C06
open SafeC Gen

/-- the conclusion shared by the four copies (`m` characters copied) -/
def CpyC06 (cfg : Cfg) (dest dmax src m : Nat) (st st' : St) (code : Nat) : Prop :=
  (code = EOK ↔ m + 1 ≤ dmax ∧ (dest + m < src ∨ src + m < dest)) ∧
  (code = ESNOSPC ↔ dmax ≤ m ∧ (dest + dmax ≤ src ∨ src + dmax ≤ dest)) ∧
  (code = EOK ∨ code = ESOVRLP ∨ code = ESNOSPC) ∧
  (code = EOK → cells st' dest m = cells st src m ∧ st'.data (dest + m) = 0 ∧
    (cfg.slack = true → ∀ i, m ≤ i → i < dmax → st'.data (dest + i) = 0) ∧
    st'.events = st.events ∧ st'.strays = st.strays ∧
    (∀ a, ¬ (dest ≤ a ∧ a < dest + dmax) → st'.data a = st.data a)) ∧
  (code ≠ EOK → st'.data dest = 0 ∧ (cfg.slack = true → ∀ i, i < dmax → st'.data (dest + i) = 0) ∧
    st'.events = st.events ++ [.handler .str code] ∧ st'.strays = st.strays ∧
    (∀ a, ¬ (dest ≤ a ∧ a < dest + dmax) → st'.data a = st.data a))

/-- the distance between two pointers -/
private theorem gap_of (dest src : Nat) :
    ∃ g, (dest < src ∧ src = dest + g) ∨ (src ≤ dest ∧ dest = src + g) := by
  by_cases h : dest < src
  · exact ⟨src - dest, Or.inl ⟨h, by omega⟩⟩
  · exact ⟨dest - src, Or.inr ⟨by omega, by omega⟩⟩

private theorem cpyC06_of_all {cfg : Cfg} {dest dmax src m g : Nat} {st st' : St} {code : Nat}
    (hg : (dest < src ∧ src = dest + g) ∨ (src ≤ dest ∧ dest = src + g))
    (h : CopyAll cfg dest dmax dest dmax src m g st st' code) : CpyC06 cfg dest dmax src m st st' code := by
  have hgm : (dest + m < src ∨ src + m < dest) ↔ m < g := by omega
  have hgd : (dest + dmax ≤ src ∨ src + dmax ≤ dest) ↔ dmax ≤ g := by omega
  by_cases hA : g ≤ m ∧ g < dmax
  · obtain ⟨hr, hp⟩ := h.hit hA.1 hA.2
    subst hr
    refine ⟨⟨fun hc => absurd hc (by decide), fun hc => by omega⟩,
      ⟨fun hc => absurd hc (by decide), fun hc => by omega⟩, Or.inr (Or.inl rfl),
      fun hc => absurd hc (by decide), fun _ => ?_⟩
    exact ⟨hp.2.2.1, hp.2.2.2.1, hp.2.1, hp.1, hp.2.2.2.2⟩
  by_cases hB : m < dmax
  · have hmg : m < g := by omega
    obtain ⟨hr, hp⟩ := h.done hB hmg
    subst hr
    refine ⟨⟨fun _ => ⟨by omega, hgm.2 hmg⟩, fun _ => rfl⟩,
      ⟨fun hc => absurd hc (by decide), fun hc => by omega⟩, Or.inl rfl, fun _ => ?_, fun hc => absurd rfl hc⟩
    obtain ⟨hm, c1, c2, c3, c4⟩ := hp
    exact ⟨cells_eq st st' dest src m c1, c2, c3, hm.events, hm.strays, c4⟩
  · obtain ⟨hr, hp⟩ := h.full (by omega) (by omega)
    subst hr
    refine ⟨⟨fun hc => absurd hc (by decide), fun hc => by omega⟩,
      ⟨fun _ => ⟨by omega, hgd.2 (by omega)⟩, fun _ => rfl⟩, Or.inr (Or.inr rfl),
      fun hc => absurd hc (by decide), fun _ => ?_⟩
    exact ⟨hp.2.2.1, hp.2.2.2.1, hp.2.1, hp.1, hp.2.2.2.2⟩

/-- **strcpy_s, every placement of a source string of length `n`** (`src ≠ dest`): EOK exactly when `n + 1 ≤ dmax`
and the `n + 1` cells read and written do not meet, then the exact result; ESNOSPC exactly when `dmax ≤ n` and the
`dmax` cells copied do not meet; ESOVRLP otherwise; every failure clears dest -/
theorem strcpy_s_C06_all (cfg : Cfg) (dest dmax src n : Nat) (destbos : Bos) (st : St)
    (hall : ∀ a, st.mapped a = true ∧ st.rd a = true)
    (hd : dest ≠ 0) (hs : src ≠ 0) (hne : dest ≠ src) (hpos : 0 < dmax) (hle : dmax ≤ RSIZE_MAX_STR)
    (hb : ∀ b, destbos = some b → dmax ≤ b)
    (hrw : RW st dest dmax)
    (hnz : ∀ j, j < n → st.data (src + j) ≠ 0) (hnul : st.data (src + n) = 0) :
    ∃ code st', exec (strcpy_s cfg dest dmax src destbos) st = .ok (code, st') ∧
      CpyC06 cfg dest dmax src n st st' code := by
  obtain ⟨g, hg⟩ := gap_of dest src
  unfold strcpy_s
  rw [strcpyG_eq_body _ cfg dest dmax src destbos hd hs hne hpos hle hb]
  obtain ⟨code, st', he, hp⟩ := cpyBody_cases cfg false dest dmax src n g 0 st hall hpos hrw hg hnz
    (Or.inl ⟨fun h => absurd h (by decide), hnul⟩)
  exact ⟨code, st', he, cpyC06_of_all hg hp⟩

/-- **wcscpy_s, every placement** (cells are `wchar_t`; a known object size is in bytes) -/
theorem wcscpy_s_C06_all (cfg : Cfg) (dest dmax src n : Nat) (destbos : Bos) (st : St)
    (hall : ∀ a, st.mapped a = true ∧ st.rd a = true)
    (hd : dest ≠ 0) (hs : src ≠ 0) (hne : dest ≠ src) (hpos : 0 < dmax) (hle : dmax ≤ RSIZE_MAX_WSTR)
    (hb : ∀ b, destbos = some b → dmax * SIZEOF_WCHAR_T ≤ b)
    (hrw : RW st dest dmax)
    (hnz : ∀ j, j < n → st.data (src + j) ≠ 0) (hnul : st.data (src + n) = 0) :
    ∃ code st', exec (wcscpy_s cfg dest dmax src destbos) st = .ok (code, st') ∧
      CpyC06 cfg dest dmax src n st st' code := by
  obtain ⟨g, hg⟩ := gap_of dest src
  rw [wcscpy_s_eq_body cfg dest dmax src destbos hd hs hne hpos hle hb]
  obtain ⟨code, st', he, hp⟩ := cpyBody_cases cfg false dest dmax src n g 0 st hall hpos hrw hg hnz
    (Or.inl ⟨fun h => absurd h (by decide), hnul⟩)
  exact ⟨code, st', he, cpyC06_of_all hg hp⟩

/-- **strcpy_s(d, dmax, d)** as the code defines it: EOK at once — nothing read, nothing written, whatever dest holds
(for a dest without a NUL in `dmax` cells this is the listed finding `same-pointer-shortcut`) -/
theorem strcpy_s_C06_same (cfg : Cfg) (dest dmax : Nat) (destbos : Bos) (st : St)
    (hd : dest ≠ 0) (hpos : 0 < dmax) (hle : dmax ≤ RSIZE_MAX_STR) (hb : ∀ b, destbos = some b → dmax ≤ b) :
    exec (strcpy_s cfg dest dmax dest destbos) st = .ok (EOK, st) := by
  unfold strcpy_s
  rw [strcpyG_same _ cfg dest dmax destbos hd hpos hle hb]; rfl

/-- the wide twin of `strcpy_s_C06_same` (cells are `wchar_t`, limit `RSIZE_MAX_WSTR`, known object sizes in bytes) -/
theorem wcscpy_s_C06_same (cfg : Cfg) (dest dmax : Nat) (destbos : Bos) (st : St)
    (hd : dest ≠ 0) (hpos : 0 < dmax) (hle : dmax ≤ RSIZE_MAX_WSTR)
    (hb : ∀ b, destbos = some b → dmax * SIZEOF_WCHAR_T ≤ b) :
    exec (wcscpy_s cfg dest dmax dest destbos) st = .ok (EOK, st) := by
  rw [wcscpy_s_same cfg dest dmax destbos hd hpos hle hb]; rfl

/-- **strncpy_s, every placement** (identical pointers included), `0 < slen`, `m = min(slen, strlen src)` characters:
EOK exactly when `m + 1 ≤ dmax` and the `m + 1` cells starting at the two pointers do not meet; then the exact
result -/
theorem strncpy_s_C06_all (cfg : Cfg) (dest dmax src slen m : Nat) (destbos srcbos : Bos) (st : St)
    (hall : ∀ a, st.mapped a = true ∧ st.rd a = true)
    (hd : dest ≠ 0) (hs : src ≠ 0) (hpos : 0 < dmax) (hle : dmax ≤ RSIZE_MAX_STR)
    (hslen : 0 < slen) (hslenle : slen ≤ RSIZE_MAX_STR)
    (hb : ∀ b, destbos = some b → dmax ≤ b) (hsb : ∀ sb, srcbos = some sb → slen ≤ sb)
    (hrw : RW st dest dmax)
    (hnz : ∀ j, j < m → st.data (src + j) ≠ 0)
    (hfin : (m < slen ∧ st.data (src + m) = 0) ∨ slen = m) :
    ∃ code st', exec (strncpy_s cfg dest dmax src slen destbos srcbos) st = .ok (code, st') ∧
      CpyC06 cfg dest dmax src m st st' code := by
  obtain ⟨g, hg⟩ := gap_of dest src
  unfold strncpy_s
  rw [strncpyG_eq_body _ cfg dest dmax src slen destbos srcbos hd hs hpos hle hslen hslenle hb hsb]
  obtain ⟨code, st', he, hp⟩ := cpyBody_cases cfg true dest dmax src m g slen st hall hpos hrw hg hnz
    (hfin.elim (fun h => Or.inl ⟨fun _ => h.1, h.2⟩) (fun h => Or.inr ⟨rfl, h⟩))
  exact ⟨code, st', he, cpyC06_of_all hg hp⟩

/-- **wcsncpy_s, every placement** -/
theorem wcsncpy_s_C06_all (cfg : Cfg) (dest dmax src slen m : Nat) (destbos srcbos : Bos) (st : St)
    (hall : ∀ a, st.mapped a = true ∧ st.rd a = true)
    (hd : dest ≠ 0) (hs : src ≠ 0) (hpos : 0 < dmax) (hle : dmax ≤ RSIZE_MAX_WSTR)
    (hslen : 0 < slen) (hslenle : slen ≤ RSIZE_MAX_WSTR)
    (hb : ∀ b, destbos = some b → dmax * SIZEOF_WCHAR_T ≤ b)
    (hsb : ∀ sb, srcbos = some sb → slen * SIZEOF_WCHAR_T ≤ sb)
    (hrw : RW st dest dmax)
    (hnz : ∀ j, j < m → st.data (src + j) ≠ 0)
    (hfin : (m < slen ∧ st.data (src + m) = 0) ∨ slen = m) :
    ∃ code st', exec (wcsncpy_s cfg dest dmax src slen destbos srcbos) st = .ok (code, st') ∧
      CpyC06 cfg dest dmax src m st st' code := by
  obtain ⟨g, hg⟩ := gap_of dest src
  rw [wcsncpy_s_eq_body cfg dest dmax src slen destbos srcbos hd hs hpos hle hslen hslenle hb hsb]
  obtain ⟨code, st', he, hp⟩ := cpyBody_cases cfg true dest dmax src m g slen st hall hpos hrw hg hnz
    (hfin.elim (fun h => Or.inl ⟨fun _ => h.1, h.2⟩) (fun h => Or.inr ⟨rfl, h⟩))
  exact ⟨code, st', he, cpyC06_of_all hg hp⟩

/-- **strncpy_s(dest, dmax, src, 0)** as the code defines it: the result is the empty string — one NUL is stored at
`dest[0]` and EOK returned; `src`, `dmax` against the limits and the object sizes are not looked at, no null-slack
zeros behind (listed: `strncpy-slen0-shortcut`) -/
theorem strncpy_s_C06_slen0 (cfg : Cfg) (dest dmax src : Nat) (destbos srcbos : Bos) (st : St)
    (hd : dest ≠ 0) (hpos : 0 < dmax) (hrw : RW st dest dmax) :
    exec (strncpy_s cfg dest dmax src 0 destbos srcbos) st = .ok (EOK, st.upd dest 0) := by
  obtain ⟨hm, hw, _⟩ := (show RW st dest (dmax - 1 + 1) by rwa [Nat.sub_add_cancel hpos]).head
  unfold strncpy_s
  rw [strncpyG_slen0 _ cfg dest dmax src destbos srcbos hd hpos]
  simp [exec_bind, exec_store_ok _ _ _ hm hw]

/-- the wide twin of `strncpy_s_C06_slen0` (cells are `wchar_t`, limit `RSIZE_MAX_WSTR`, known object sizes in bytes) -/
theorem wcsncpy_s_C06_slen0 (cfg : Cfg) (dest dmax src : Nat) (destbos srcbos : Bos) (st : St)
    (hd : dest ≠ 0) (hpos : 0 < dmax) (hrw : RW st dest dmax) :
    exec (wcsncpy_s cfg dest dmax src 0 destbos srcbos) st = .ok (EOK, st.upd dest 0) := by
  obtain ⟨hm, hw, _⟩ := (show RW st dest (dmax - 1 + 1) by rwa [Nat.sub_add_cancel hpos]).head
  rw [wcsncpy_s_slen0 cfg dest dmax src destbos srcbos hd hpos]
  simp [exec_bind, exec_store_ok _ _ _ hm hw]

/-- src = "ab" at 102 INSIDE the 5 writable cells of dest at 100 -/
def cpyExSt : St :=
  { data := fun a => if a = 102 then 97 else if a = 103 then 98 else 0
    mapped := fun _ => true, rd := fun _ => true
    wr := fun a => decide (100 ≤ a ∧ a < 105) }

/-- non-vacuity: `cpyExSt` (overlapping operands: `n = 2`, `g = 2`); for the bounded copies `slen = 1`, `m = 1` -/
example : (∀ a, cpyExSt.mapped a = true ∧ cpyExSt.rd a = true) ∧
    RW cpyExSt 100 5 ∧ (100 : Nat) ≠ 102 ∧
    (∀ j, j < 2 → cpyExSt.data (102 + j) ≠ 0) ∧ cpyExSt.data (102 + 2) = 0 ∧
    (((1 : Nat) < 1 ∧ cpyExSt.data (102 + 1) = 0) ∨ (1 : Nat) = 1) := by
  refine ⟨fun _ => ⟨rfl, rfl⟩, fun i hi => ⟨rfl, ?_, rfl⟩, by decide, ?_, by decide, Or.inr rfl⟩
  · simp [cpyExSt]; omega
  · intro j hj
    have : j = 0 ∨ j = 1 := by omega
    rcases this with h | h <;> subst h <;> decide

/-- the return code of a run -/
def cpyRet (r : Except Fault (Nat × St)) : Option Nat :=
  match r with
  | .ok (c, _) => some c
  | .error _ => none

/-- the three outcomes on `cpyExSt` (test instances of `strcpy_s_C06_all`, kernel-evaluated): source two cells behind
dest → ESOVRLP; the same string copied to a dest that ends before it → EOK; to a one-cell dest → ESNOSPC -/
example : cpyRet (exec (strcpy_s {} 100 5 102 none) cpyExSt) = some ESOVRLP ∧
    cpyRet (exec (strcpy_s {} 100 2 103 none) cpyExSt) = some EOK ∧
    cpyRet (exec (strcpy_s {} 100 1 102 none) cpyExSt) = some ESNOSPC := by
  decide

/-! ## the concatenations

dest holds a string of length `dl < dmax` (arbitrary contents behind it), the source `m` characters to append at ANY
address.  Cells read: `dest[0..dl]` (the scan) and `src[0..m]`; cells written: `dest[dl..dl+m]`. -/

/-- the conclusion shared by the four concatenations (`dl` = old length of dest, `m` characters appended) -/
def CatC06 (cfg : Cfg) (dest dmax dl src m : Nat) (st st' : St) (code : Nat) : Prop :=
  (code = EOK ↔ dl + m + 1 ≤ dmax ∧ (dest + dl + m < src ∨ src + m < dest)) ∧
  (code = ESNOSPC ↔ dmax ≤ dl + m ∧ (dest + dmax ≤ src ∨ src + dmax ≤ dest + dl)) ∧
  (code = EOK ∨ code = ESOVRLP ∨ code = ESNOSPC) ∧
  (code = EOK → cells st' dest dl = cells st dest dl ∧ cells st' (dest + dl) m = cells st src m ∧
    st'.data (dest + dl + m) = 0 ∧
    (cfg.slack = true → ∀ i, dl + m ≤ i → i < dmax → st'.data (dest + i) = 0) ∧
    st'.events = st.events ∧ st'.strays = st.strays ∧
    (∀ a, ¬ (dest ≤ a ∧ a < dest + dmax) → st'.data a = st.data a)) ∧
  (code ≠ EOK → st'.data dest = 0 ∧ (cfg.slack = true → ∀ i, i < dmax → st'.data (dest + i) = 0) ∧
    st'.events = st.events ++ [.handler .str code] ∧ st'.strays = st.strays ∧
    (∀ a, ¬ (dest ≤ a ∧ a < dest + dmax) → st'.data a = st.data a))

private theorem catC06_of_all {cfg : Cfg} {dest dmax dl src m : Nat} {st st' : St} {code : Nat}
    (hdl : dl < dmax) (h : CatAll cfg dest dmax dl src m st st' code) : CatC06 cfg dest dmax dl src m st st' code := by
  by_cases hA : (dest < src ∧ src ≤ dest + dl) ∨ (dest + dl < src ∧ src ≤ dest + dl + m ∧ src < dest + dmax) ∨
      (src ≤ dest ∧ dest ≤ src + m ∧ dest + dl < src + dmax)
  · obtain ⟨hr, hp⟩ := h.hit hA
    subst hr
    refine ⟨⟨fun hc => absurd hc (by decide), fun hc => by omega⟩,
      ⟨fun hc => absurd hc (by decide), fun hc => by omega⟩, Or.inr (Or.inl rfl),
      fun hc => absurd hc (by decide), fun _ => ?_⟩
    exact ⟨hp.2.2.1, hp.2.2.2.1, hp.2.1, hp.1, hp.2.2.2.2⟩
  by_cases hB : dl + m < dmax
  · have hfree : dest + dl + m < src ∨ src + m < dest := by omega
    obtain ⟨hr, hp⟩ := h.done hB hfree
    subst hr
    refine ⟨⟨fun _ => ⟨by omega, hfree⟩, fun _ => rfl⟩,
      ⟨fun hc => absurd hc (by decide), fun hc => by omega⟩, Or.inl rfl, fun _ => ?_, fun hc => absurd rfl hc⟩
    obtain ⟨hm, c1, c2, c3, c4⟩ := hp
    refine ⟨cells_eq st st' dest dest dl (fun i hi => c4 (dest + i) (by omega)),
      cells_eq st st' (dest + dl) src m c1, c2, ?_, hm.events, hm.strays, fun a ha => c4 a (by omega)⟩
    intro hcs i h1 h2
    have := c3 hcs (i - dl) (by omega) (by omega)
    have e : dest + dl + (i - dl) = dest + i := by omega
    rwa [e] at this
  · have hfree : dest + dmax ≤ src ∨ src + dmax ≤ dest + dl := by omega
    obtain ⟨hr, hp⟩ := h.full (by omega) hfree
    subst hr
    refine ⟨⟨fun hc => absurd hc (by decide), fun hc => by omega⟩,
      ⟨fun _ => ⟨by omega, hfree⟩, fun _ => rfl⟩, Or.inr (Or.inr rfl),
      fun hc => absurd hc (by decide), fun _ => ?_⟩
    exact ⟨hp.2.2.1, hp.2.2.2.1, hp.2.1, hp.1, hp.2.2.2.2⟩

private theorem cells_add (st : St) (p a b : Nat) : cells st p (a + b) = cells st p a ++ cells st (p + a) b := by
  induction a generalizing p with
  | zero => simp [cells]
  | succ a ih =>
    have e : a + 1 + b = (a + b) + 1 := by omega
    rw [e]
    simp only [cells, List.cons_append]
    rw [ih (p+1)]
    have e2 : p + 1 + a = p + (a + 1) := by omega
    rw [e2]

/-- the EOK clause of `CatC06` as ONE list: dest = old dest string ++ the `m` source characters ++ NUL -/
theorem catC06_result {cfg : Cfg} {dest dmax dl src m : Nat} {st st' : St} {code : Nat}
    (h : CatC06 cfg dest dmax dl src m st st' code) (hc : code = EOK) :
    cells st' dest (dl + m + 1) = cells st dest dl ++ cells st src m ++ [0] := by
  obtain ⟨h1, h2, h3, _⟩ := h.2.2.2.1 hc
  have h3' : st'.data (dest + (dl + m)) = 0 := by rw [← Nat.add_assoc]; exact h3
  rw [cells_add, cells_add, h1, h2]
  simp [cells, h3']

/-- **strcat_s, every placement of a source string of length `n`** (identical pointers included): EOK exactly when
`dl + n + 1 ≤ dmax` and the cells appended do not meet the cells read; then dest = old dest string ++ source string
++ NUL, null-slack zeros behind; ESNOSPC exactly when the result does not fit and the `dmax - dl` cells copied do not
meet; ESOVRLP otherwise; every failure clears dest -/
theorem strcat_s_C06_all (cfg : Cfg) (dest dmax src dl n : Nat) (destbos : Bos) (st : St)
    (hall : ∀ a, st.mapped a = true ∧ st.rd a = true)
    (hd : dest ≠ 0) (hs : src ≠ 0) (hpos : 0 < dmax) (hle : dmax ≤ RSIZE_MAX_STR)
    (hb : ∀ b, destbos = some b → dmax ≤ b)
    (hrw : RW st dest dmax)
    (hdl : dl < dmax) (hdnz : ∀ j, j < dl → st.data (dest + j) ≠ 0) (hdnul : st.data (dest + dl) = 0)
    (hnz : ∀ j, j < n → st.data (src + j) ≠ 0) (hnul : st.data (src + n) = 0) :
    ∃ code st', exec (strcat_s cfg dest dmax src destbos) st = .ok (code, st') ∧
      CatC06 cfg dest dmax dl src n st st' code := by
  unfold strcat_s
  rw [strcatG_eq_body _ cfg dest dmax src destbos hd hs hpos hle hb]
  obtain ⟨code, st', he, hp⟩ := catBody_cases cfg false dest dmax src dl n 0 st hall hpos hrw hdl hdnz hdnul hnz
    (Or.inl ⟨fun h => absurd h (by decide), hnul⟩)
  exact ⟨code, st', he, catC06_of_all hdl hp⟩

/-- the wide twin of `strcat_s_C06_all` (cells are `wchar_t`, limit `RSIZE_MAX_WSTR`, known object sizes in bytes) -/
theorem wcscat_s_C06_all (cfg : Cfg) (dest dmax src dl n : Nat) (destbos : Bos) (st : St)
    (hall : ∀ a, st.mapped a = true ∧ st.rd a = true)
    (hd : dest ≠ 0) (hs : src ≠ 0) (hpos : 0 < dmax) (hle : dmax ≤ RSIZE_MAX_WSTR)
    (hb : ∀ b, destbos = some b → dmax * SIZEOF_WCHAR_T ≤ b)
    (hrw : RW st dest dmax)
    (hdl : dl < dmax) (hdnz : ∀ j, j < dl → st.data (dest + j) ≠ 0) (hdnul : st.data (dest + dl) = 0)
    (hnz : ∀ j, j < n → st.data (src + j) ≠ 0) (hnul : st.data (src + n) = 0) :
    ∃ code st', exec (wcscat_s cfg dest dmax src destbos) st = .ok (code, st') ∧
      CatC06 cfg dest dmax dl src n st st' code := by
  rw [wcscat_s_eq_body cfg dest dmax src destbos hd hs hpos hle hb]
  obtain ⟨code, st', he, hp⟩ := catBody_cases cfg false dest dmax src dl n 0 st hall hpos hrw hdl hdnz hdnul hnz
    (Or.inl ⟨fun h => absurd h (by decide), hnul⟩)
  exact ⟨code, st', he, catC06_of_all hdl hp⟩

/-- **strncat_s, every placement**, `0 < slen`, `m = min(slen, strlen src)` characters appended: EOK exactly when
`dl + m + 1 ≤ dmax` and the cells appended do not meet the cells read (the `(m+1)`-th source cell counted also when
`slen = m` runs out); then dest = old dest string ++ first `m` source characters ++ NUL -/
theorem strncat_s_C06_all (cfg : Cfg) (dest dmax src slen dl m : Nat) (destbos srcbos : Bos) (st : St)
    (hall : ∀ a, st.mapped a = true ∧ st.rd a = true)
    (hd : dest ≠ 0) (hs : src ≠ 0) (hpos : 0 < dmax) (hle : dmax ≤ RSIZE_MAX_STR)
    (hslen : 0 < slen) (hslenle : slen ≤ RSIZE_MAX_STR)
    (hb : ∀ b, destbos = some b → dmax ≤ b) (hsb : ∀ sb, srcbos = some sb → slen ≤ sb)
    (hrw : RW st dest dmax)
    (hdl : dl < dmax) (hdnz : ∀ j, j < dl → st.data (dest + j) ≠ 0) (hdnul : st.data (dest + dl) = 0)
    (hnz : ∀ j, j < m → st.data (src + j) ≠ 0)
    (hfin : (m < slen ∧ st.data (src + m) = 0) ∨ slen = m) :
    ∃ code st', exec (strncat_s cfg dest dmax src slen destbos srcbos) st = .ok (code, st') ∧
      CatC06 cfg dest dmax dl src m st st' code := by
  unfold strncat_s
  rw [strncatG_eq_body _ cfg dest dmax src slen destbos srcbos hd hs hpos hle hslen hslenle hb hsb]
  obtain ⟨code, st', he, hp⟩ := catBody_cases cfg true dest dmax src dl m slen st hall hpos hrw hdl hdnz hdnul hnz
    (hfin.elim (fun h => Or.inl ⟨fun _ => h.1, h.2⟩) (fun h => Or.inr ⟨rfl, h⟩))
  exact ⟨code, st', he, catC06_of_all hdl hp⟩

/-- the wide twin of `strncat_s_C06_all` (cells are `wchar_t`, limit `RSIZE_MAX_WSTR`, known object sizes in bytes) -/
theorem wcsncat_s_C06_all (cfg : Cfg) (dest dmax src slen dl m : Nat) (destbos srcbos : Bos) (st : St)
    (hall : ∀ a, st.mapped a = true ∧ st.rd a = true)
    (hd : dest ≠ 0) (hs : src ≠ 0) (hpos : 0 < dmax) (hle : dmax ≤ RSIZE_MAX_WSTR)
    (hslen : 0 < slen) (hslenle : slen ≤ RSIZE_MAX_WSTR)
    (hb : ∀ b, destbos = some b → dmax * SIZEOF_WCHAR_T ≤ b)
    (hsb : ∀ sb, srcbos = some sb → slen * SIZEOF_WCHAR_T ≤ sb)
    (hrw : RW st dest dmax)
    (hdl : dl < dmax) (hdnz : ∀ j, j < dl → st.data (dest + j) ≠ 0) (hdnul : st.data (dest + dl) = 0)
    (hnz : ∀ j, j < m → st.data (src + j) ≠ 0)
    (hfin : (m < slen ∧ st.data (src + m) = 0) ∨ slen = m) :
    ∃ code st', exec (wcsncat_s cfg dest dmax src slen destbos srcbos) st = .ok (code, st') ∧
      CatC06 cfg dest dmax dl src m st st' code := by
  rw [wcsncat_s_eq_body cfg dest dmax src slen destbos srcbos hd hs hpos hle hslen hslenle hb hsb]
  obtain ⟨code, st', he, hp⟩ := catBody_cases cfg true dest dmax src dl m slen st hall hpos hrw hdl hdnz hdnul hnz
    (hfin.elim (fun h => Or.inl ⟨fun _ => h.1, h.2⟩) (fun h => Or.inr ⟨rfl, h⟩))
  exact ⟨code, st', he, catC06_of_all hdl hp⟩

/-- dest = "xy" in 6 writable cells at 100, src = "ab" at 104 INSIDE the room behind the dest string -/
def catExSt : St :=
  { data := fun a => if a = 100 then 120 else if a = 101 then 121 else if a = 104 then 97 else if a = 105 then 98 else 0
    mapped := fun _ => true, rd := fun _ => true
    wr := fun a => decide (100 ≤ a ∧ a < 106) }

/-- non-vacuity of the concatenation theorems: `catExSt`, `dl = 2`, `n = 2` (for the bounded ones `slen = 1`, `m = 1`) -/
example : (∀ a, catExSt.mapped a = true ∧ catExSt.rd a = true) ∧ RW catExSt 100 6 ∧
    (∀ j, j < 2 → catExSt.data (100 + j) ≠ 0) ∧ catExSt.data (100 + 2) = 0 ∧
    (∀ j, j < 2 → catExSt.data (104 + j) ≠ 0) ∧ catExSt.data (104 + 2) = 0 ∧
    (((1 : Nat) < 1 ∧ catExSt.data (104 + 1) = 0) ∨ (1 : Nat) = 1) := by
  refine ⟨fun _ => ⟨rfl, rfl⟩, fun i hi => ⟨rfl, ?_, rfl⟩, ?_, by decide, ?_, by decide, Or.inr rfl⟩
  · simp [catExSt]; omega
  · intro j hj
    have : j = 0 ∨ j = 1 := by omega
    rcases this with h | h <;> subst h <;> decide
  · intro j hj
    have : j = 0 ∨ j = 1 := by omega
    rcases this with h | h <;> subst h <;> decide

/-- test instances on `catExSt` (kernel-evaluated): "xy" ++ "ab" with the source two cells behind the terminator —
the third cell appended (the terminator) would be `src[0]`: ESOVRLP; `strncat_s(…, 1)` appends "a" and its NUL below
src: EOK -/
example : cpyRet (exec (strcat_s {} 100 6 104 none) catExSt) = some ESOVRLP ∧
    cpyRet (exec (strncat_s {} 100 6 104 1 none none) catExSt) = some EOK := by
  decide

/-! ### `slen == 0` of the bounded concatenations (the `_all` theorems above have `0 < slen`) -/

/-- the conclusion of the `slen == 0` special case: `dl` = length of the dest string, `dmax` if dest holds no NUL -/
def CatSlen0 (cfg : Cfg) (dest dmax dl : Nat) (st st' : St) (code : Nat) : Prop :=
  code = (if dl < dmax then EOK else ESZEROL) ∧
  st'.data dest = 0 ∧ (cfg.slack = true → ∀ i, i < dmax → st'.data (dest + i) = 0) ∧
  st'.events = st.events ++ [.handler .str code] ∧ st'.strays = st.strays ∧
  (∀ a, ¬ (dest ≤ a ∧ a < dest + dmax) → st'.data a = st.data a)

/-- **strncat_s(dest, dmax, src, 0)** as the code (and its man page: "analog to msvcrt") defines it: EOK when dest is
terminated within `dmax`, else ESZEROL — and in BOTH cases dest is cleared and the handler called once with the code
returned (with EOK: listed `strncat-slen0-handler-eok`); `src` is not read.  So at `slen = 0` EOK does NOT mean
"dest = old dest ++ nothing": see the witness. -/
theorem strncat_s_C06_slen0 (cfg : Cfg) (dest dmax src dl : Nat) (destbos srcbos : Bos) (st : St)
    (hall : ∀ a, st.mapped a = true ∧ st.rd a = true)
    (hd : dest ≠ 0) (hs : src ≠ 0) (hpos : 0 < dmax) (hle : dmax ≤ RSIZE_MAX_STR)
    (hb : ∀ b, destbos = some b → dmax ≤ b)
    (hrw : RW st dest dmax)
    (hdl : dl ≤ dmax) (hdnz : ∀ j, j < dl → st.data (dest + j) ≠ 0) (hdnul : dl < dmax → st.data (dest + dl) = 0) :
    ∃ code st', exec (strncat_s cfg dest dmax src 0 destbos srcbos) st = .ok (code, st') ∧
      CatSlen0 cfg dest dmax dl st st' code := by
  unfold strncat_s
  rw [strncatG_slen0_eq _ cfg dest dmax src destbos srcbos hd hs hpos hle hb]
  obtain ⟨len, he, hlen⟩ := strnlen_s_first dest dmax st hall hd hpos hle
  have e := hlen.unique hdl hdnz hdnul
  subst e
  simp only [exec_bind, he]
  obtain ⟨st', hx, hp⟩ := copyFail_cleared cfg dest dmax (if len < dmax then EOK else ESZEROL) st hrw hpos
  simp only [exec_bind] at hx
  exact ⟨_, st', hx, rfl, hp.2.2.1, hp.2.2.2.1, hp.2.1, hp.1, hp.2.2.2.2⟩

/-- the wide twin of `strncat_s_C06_slen0` (cells are `wchar_t`, limit `RSIZE_MAX_WSTR`, known object sizes in bytes) -/
theorem wcsncat_s_C06_slen0 (cfg : Cfg) (dest dmax src dl : Nat) (destbos srcbos : Bos) (st : St)
    (hall : ∀ a, st.mapped a = true ∧ st.rd a = true)
    (hd : dest ≠ 0) (hs : src ≠ 0) (hpos : 0 < dmax) (hle : dmax ≤ RSIZE_MAX_WSTR)
    (hb : ∀ b, destbos = some b → dmax * SIZEOF_WCHAR_T ≤ b)
    (hrw : RW st dest dmax)
    (hdl : dl ≤ dmax) (hdnz : ∀ j, j < dl → st.data (dest + j) ≠ 0) (hdnul : dl < dmax → st.data (dest + dl) = 0) :
    ∃ code st', exec (wcsncat_s cfg dest dmax src 0 destbos srcbos) st = .ok (code, st') ∧
      CatSlen0 cfg dest dmax dl st st' code := by
  rw [wcsncat_s_slen0_eq cfg dest dmax src destbos srcbos hd hs hpos hle hb]
  obtain ⟨len, he, hlen⟩ := wcsnlen_s_first dest dmax st hall hd hpos hle
  have e := hlen.unique hdl hdnz hdnul
  subst e
  simp only [exec_bind, he]
  obtain ⟨st', hx, hp⟩ := copyFail_cleared cfg dest dmax (if len < dmax then EOK else ESZEROL) st hrw hpos
  simp only [exec_bind] at hx
  exact ⟨_, st', hx, rfl, hp.2.2.1, hp.2.2.2.1, hp.2.1, hp.1, hp.2.2.2.2⟩

/-- the code and one cell of a run -/
def cpyObs (r : Except Fault (Nat × St)) (a : Nat) : Option (Nat × Nat) :=
  match r with
  | .ok (c, st) => some (c, st.data a)
  | .error _ => none

/-- `strncat_s(d = "xy", 6, "ab", 0)` on `catExSt`: EOK with `d[0] = 0` — success, but dest is not "xy" ++ "" (the
documented special case; `strncat(d, s, 0)` leaves `d` alone).  The conclusion of `strncat_s_C06_all` does not extend
to `slen = 0`. -/
theorem strncat_s_C06_slen0_witness :
    catExSt.data 100 ≠ 0 ∧ cpyObs (exec (strncat_s {} 100 6 104 0 none none) catExSt) 100 = some (EOK, 0) ∧
      cpyObs (exec (wcsncat_s {} 100 6 104 0 none none) catExSt) 100 = some (EOK, 0) := by
  decide

end SafeC.Props.C06

import SafeC.Proofs.Acc
import SafeC.Models.Query
import SafeC.Models.Query2
import SafeC.Models.Inplace
import SafeC.Props.C02
/-!
# C02 for the counter-bounded scans: `strnlen_s wcsnlen_s memchr_s memrchr_s memcmp_s wmemcmp_s
strnterminate_s strtolowercase_s strtouppercase_s`

Setting as in `Props/C02.lean`: ONLY the declared extents need to be mapped (`RD`: mapped and
readable; `RW` for an in-place destination). Conclusion: for ALL argument values — any sizes, any
object-size knowledge, NULL or not — and ALL contents of the declared cells the call returns (no
fault: nothing unmapped was touched) and records no stray access (`NoStray`).

Proved through the `Acc` judgement (`Proofs/Acc.lean`): every load address of the model lies in the
declared extent whatever values the loads return.  The functions whose loops test `*p` BEFORE the
counter (`while (*p && n)`) do not satisfy it — that is known finding `read-before-bound`; they are
not listed here.
-/
namespace SafeC.Props.C02
open SafeC Gen

/-- `a` lies in the `n` cells at `lo` -/
def In (lo n a : Nat) : Prop := lo ≤ a ∧ a < lo + n

/-- structural steps for programs that only branch and report -/
macro "acc_step" : tactic => `(tactic| first
  | with_reducible exact Acc.pure _ trivial
  | with_reducible exact Acc.handlerS _
  | with_reducible exact Acc.handlerM _
  | assumption
  | with_reducible apply Acc.bind
  | intro _
  | contradiction
  | dsimp only
  | split)

theorem Acc_qFailS {R W : Nat → Prop} (c : Nat) : Acc R W (qFailS c) (fun _ => True) := by unfold qFailS; repeat acc_step
theorem Acc_qFailM {R W : Nat → Prop} (c : Nat) : Acc R W (qFailM c) (fun r => r ≠ none) := by
  unfold qFailM
  exact Acc.bind (Acc.handlerM c) (fun _ _ => Acc.pure _ (by simp))
theorem Acc_failS {R W : Nat → Prop} (c : Nat) : Acc R W (failS c) (fun _ => True) := by unfold failS; repeat acc_step

/-- the checks touch no memory; they let the call proceed (`none`) only for a non-null `dest` -/
theorem Acc_qChkM {R W : Nat → Prop} (dest dmax : Nat) (b : Bos) :
    Acc R W (qChkM dest dmax b) (fun r => r = none → dest ≠ 0) := by
  unfold qChkM
  have fail : ∀ c, Acc R W (qFailM c) (fun r => r = none → dest ≠ 0) :=
    fun c => (Acc_qFailM c).conseq (fun r hr h => absurd h hr)
  split
  · exact fail _
  · rename_i hd
    split
    · exact fail _
    · split
      · split
        · exact fail _
        · exact Acc.pure _ (fun _ => hd)
      · split
        · split <;> exact fail _
        · exact Acc.pure _ (fun _ => hd)

theorem Acc_chkDmax {R W : Nat → Prop} (dmax : Nat) (b : Bos) (max : Nat) {k : Prog Nat} (hk : Acc R W k (fun _ => True)) :
    Acc R W (chkDmax dmax b max k) (fun _ => True) := by
  unfold chkDmax
  repeat (first | with_reducible exact Acc_failS _ | acc_step)

theorem RD_of (st : St) (d n : Nat) (h : RD st d n) : ∀ a, In d n a → st.mapped a = true ∧ st.rd a = true := by
  intro a ⟨h1, h2⟩
  have := h (a - d) (by omega)
  have e : d + (a - d) = a := by omega
  rwa [e] at this

/-! ### lengths -/

theorem Acc_strnlenLoop {W : Nat → Prop} (smax str count : Nat) (b : Bos) :
    Acc (In str smax) W (strnlenLoop smax str count b) (fun _ => True) := by
  induction smax generalizing str count b with
  | zero => exact Acc.pure _ trivial
  | succ n ih =>
    unfold strnlenLoop
    refine Acc.bind (Acc.loadP str ⟨Nat.le_refl _, by omega⟩) (fun c _ => ?_)
    have tail : ∀ cnt bb, Acc (In str (n+1)) W (strnlenLoop n (str+1) cnt bb) (fun _ => True) :=
      fun cnt bb => (ih (str+1) cnt bb).mono (fun a ⟨h1, h2⟩ => ⟨by omega, by omega⟩) (fun _ h => h)
    split
    · exact Acc.pure _ trivial
    · split
      · exact tail _ _
      · split
        · exact Acc.pure _ trivial
        · exact tail _ _

/-- **strnlen_s**: at most the first `smax` characters are read — all `smax`, any object-size knowledge -/
theorem strnlen_s_C02 (str smax : Nat) (b : Bos) (st : St) (hrd : str ≠ 0 → RD st str smax) :
    ∃ n st', exec (strnlen_s str smax b) st = .ok (n, st') ∧ NoStray st st' := by
  have hacc : Acc (fun a => str ≠ 0 ∧ In str smax a) (fun _ => False) (strnlen_s str smax b) (fun _ => True) := by
    unfold strnlen_s
    split
    · repeat acc_step
    · rename_i hs
      split
      · repeat acc_step
      · split
        · repeat acc_step
        · exact (Acc_strnlenLoop smax str 0 b).mono (fun a h => ⟨hs, h⟩) (fun _ h => h)
  obtain ⟨r, st', he, _, hst, _⟩ := hacc.sound st (fun a ⟨hs, h⟩ => RD_of st str smax (hrd hs) a h) (fun _ h => h.elim)
  exact ⟨r, st', he, hst⟩

theorem Acc_wcsnlenLoop {W : Nat → Prop} (smax str count : Nat) :
    Acc (In str smax) W (wcsnlenLoop smax str count) (fun _ => True) := by
  induction smax generalizing str count with
  | zero => exact Acc.pure _ trivial
  | succ n ih =>
    unfold wcsnlenLoop
    refine Acc.bind (Acc.loadP str ⟨Nat.le_refl _, by omega⟩) (fun c _ => ?_)
    split
    · exact Acc.pure _ trivial
    · exact (ih (str+1) _).mono (fun a ⟨h1, h2⟩ => ⟨by omega, by omega⟩) (fun _ h => h)

theorem Acc_wcsnlenBosLoop {W : Nat → Prop} (orig smax str count b : Nat) :
    Acc (In str smax) W (wcsnlenBosLoop orig smax str count b) (fun _ => True) := by
  induction smax generalizing str count b with
  | zero => exact Acc.pure _ trivial
  | succ n ih =>
    unfold wcsnlenBosLoop
    refine Acc.bind (Acc.loadP str ⟨Nat.le_refl _, by omega⟩) (fun c _ => ?_)
    split
    · exact Acc.pure _ trivial
    · dsimp only
      split
      · exact Acc.pure _ trivial
      · exact (ih (str+1) _ _).mono (fun a ⟨h1, h2⟩ => ⟨by omega, by omega⟩) (fun _ h => h)

/-- **wcsnlen_s** -/
theorem wcsnlen_s_C02 (str smax : Nat) (b : Bos) (st : St) (hrd : str ≠ 0 → RD st str smax) :
    ∃ n st', exec (wcsnlen_s_chk str smax b) st = .ok (n, st') ∧ NoStray st st' := by
  have hacc : Acc (fun a => str ≠ 0 ∧ In str smax a) (fun _ => False) (wcsnlen_s_chk str smax b) (fun _ => True) := by
    unfold wcsnlen_s_chk
    split
    · repeat acc_step
    · rename_i hs
      split
      · repeat acc_step
      · split
        · repeat acc_step
        · split
          · exact (Acc_wcsnlenBosLoop smax smax str 0 _).mono (fun a h => ⟨hs, h⟩) (fun _ h => h)
          · exact (Acc_wcsnlenLoop smax str 0).mono (fun a h => ⟨hs, h⟩) (fun _ h => h)
  obtain ⟨r, st', he, _, hst, _⟩ := hacc.sound st (fun a ⟨hs, h⟩ => RD_of st str smax (hrd hs) a h) (fun _ h => h.elim)
  exact ⟨r, st', he, hst⟩

/-! ### memchr / memrchr -/

theorem Acc_memchrP {W : Nat → Prop} (c n s : Nat) : Acc (In s n) W (memchrP c n s) (fun _ => True) := by
  induction n generalizing s with
  | zero => exact Acc.pure _ trivial
  | succ n ih =>
    unfold memchrP
    refine Acc.bind (Acc.loadP s ⟨Nat.le_refl _, by omega⟩) (fun v _ => ?_)
    split
    · exact Acc.pure _ trivial
    · exact (ih (s+1)).mono (fun a ⟨h1, h2⟩ => ⟨by omega, by omega⟩) (fun _ h => h)

theorem Acc_memrchrP {W : Nat → Prop} (c s n : Nat) : Acc (In s n) W (memrchrP c s n) (fun _ => True) := by
  induction n with
  | zero => exact Acc.pure _ trivial
  | succ n ih =>
    unfold memrchrP
    refine Acc.bind (Acc.loadP (s+n) ⟨by omega, by omega⟩) (fun v _ => ?_)
    split
    · exact Acc.pure _ trivial
    · exact ih.mono (fun a ⟨h1, h2⟩ => ⟨by omega, by omega⟩) (fun _ h => h)

/-- **memchr_s**: only the `dmax` declared bytes are read, for every argument combination -/
theorem memchr_s_C02 (dest dmax : Nat) (ch : Int) (b : Bos) (st : St) (hrd : dest ≠ 0 → RD st dest dmax) :
    ∃ r st', exec (memchr_s dest dmax ch b) st = .ok (r, st') ∧ NoStray st st' := by
  have hacc : Acc (fun a => dest ≠ 0 ∧ In dest dmax a) (fun _ => False) (memchr_s dest dmax ch b) (fun _ => True) := by
    unfold memchr_s
    refine Acc.bind (Acc_qChkM dest dmax b) (fun x hx => ?_)
    cases x with
    | some e => exact Acc.pure _ trivial
    | none =>
      have hd := hx rfl
      dsimp only
      split
      · repeat acc_step
      · refine Acc.bind ((Acc_memchrP _ dmax dest).mono (fun a h => ⟨hd, h⟩) (fun _ h => h)) (fun r _ => ?_)
        split <;> exact Acc.pure _ trivial
  obtain ⟨r, st', he, _, hst, _⟩ := hacc.sound st (fun a ⟨hs, h⟩ => RD_of st dest dmax (hrd hs) a h) (fun _ h => h.elim)
  exact ⟨r, st', he, hst⟩

/-- **memrchr_s** -/
theorem memrchr_s_C02 (dest dmax : Nat) (ch : Int) (b : Bos) (st : St) (hrd : dest ≠ 0 → RD st dest dmax) :
    ∃ r st', exec (memrchr_s dest dmax ch b) st = .ok (r, st') ∧ NoStray st st' := by
  have hacc : Acc (fun a => dest ≠ 0 ∧ In dest dmax a) (fun _ => False) (memrchr_s dest dmax ch b) (fun _ => True) := by
    unfold memrchr_s
    refine Acc.bind (Acc_qChkM dest dmax b) (fun x hx => ?_)
    cases x with
    | some e => exact Acc.pure _ trivial
    | none =>
      have hd := hx rfl
      dsimp only
      split
      · repeat acc_step
      · refine Acc.bind ((Acc_memrchrP _ dest dmax).mono (fun a h => ⟨hd, h⟩) (fun _ h => h)) (fun r _ => ?_)
        split <;> exact Acc.pure _ trivial
  obtain ⟨r, st', he, _, hst, _⟩ := hacc.sound st (fun a ⟨hs, h⟩ => RD_of st dest dmax (hrd hs) a h) (fun _ h => h.elim)
  exact ⟨r, st', he, hst⟩

/-! ### memcmp family -/

theorem Acc_memcmpLoopQ {W : Nat → Prop} (f : Nat → Nat → Int) (dmax slen dp sp : Nat) :
    Acc (fun a => In dp (min dmax slen) a ∨ In sp (min dmax slen) a) W (memcmpLoopQ f dmax slen dp sp) (fun _ => True) := by
  induction dmax generalizing slen dp sp with
  | zero => unfold memcmpLoopQ; exact Acc.pure _ trivial
  | succ n ih =>
    cases slen with
    | zero => unfold memcmpLoopQ; exact Acc.pure _ trivial
    | succ m =>
      unfold memcmpLoopQ
      have hmin : min (n+1) (m+1) = min n m + 1 := by omega
      refine Acc.bind (Acc.loadP dp (Or.inl ⟨Nat.le_refl _, by omega⟩)) (fun a _ => ?_)
      refine Acc.bind (Acc.loadP sp (Or.inr ⟨Nat.le_refl _, by omega⟩)) (fun b _ => ?_)
      split
      · exact Acc.pure _ trivial
      · exact (ih m (dp+1) (sp+1)).mono
          (fun a h => by rcases h with ⟨h1, h2⟩ | ⟨h1, h2⟩
                         · exact Or.inl ⟨by omega, by omega⟩
                         · exact Or.inr ⟨by omega, by omega⟩) (fun _ h => h)

/-- the shared checks touch no memory and let the call proceed only with `slen ≤ dlen` -/
theorem Acc_memcmpChecks {R W : Nat → Prop} (max dlen slen dB sB dL dL' : Nat) (db sb : Bos) :
    Acc R W (memcmpChecks max dlen slen dB sB dL dL' db sb) (fun r => r = none → slen ≤ dlen) := by
  unfold memcmpChecks
  have fail : ∀ c, Acc R W (qFailM c) (fun r => r ≠ none) := fun c => Acc_qFailM c
  have failQ : ∀ c (P : Prop), Acc R W (qFailM c) (fun r => r = none → P) :=
    fun c P => (fail c).conseq (fun r hr h => absurd h hr)
  refine Acc.bind (Q := fun _ => True) ?_ (fun x _ => ?_)
  · split
    · split
      · exact (fail _).conseq (fun _ _ => trivial)
      · exact Acc.pure _ trivial
    · split
      · split <;> exact (fail _).conseq (fun _ _ => trivial)
      · exact Acc.pure _ trivial
  · split
    · exact Acc.pure _ (by simp)
    · split
      · exact failQ _ _
      · refine Acc.bind (Q := fun _ => True) ?_ (fun y _ => ?_)
        · split
          · split
            · exact (fail _).conseq (fun _ _ => trivial)
            · exact Acc.pure _ trivial
          · split
            · split <;> exact (fail _).conseq (fun _ _ => trivial)
            · exact Acc.pure _ trivial
        · split
          · exact Acc.pure _ (by simp)
          · split
            · exact failQ _ _
            · rename_i hle
              exact Acc.pure _ (fun _ => by omega)

/-- **memcmp_s / memcmp16_s / memcmp32_s** (shared body): only the first `slen` elements of each
operand are read, and only when `slen ≤ dlen` — for every argument combination -/
theorem memcmpG_C02 (max : Nat) (f : Nat → Nat → Int) (dest dlen src slen dB sB dL dL' : Nat) (db sb : Bos) (st : St)
    (hd : dest ≠ 0 → RD st dest dlen) (hs : src ≠ 0 → RD st src slen) :
    ∃ r st', exec (memcmpG max f dest dlen src slen dB sB dL dL' db sb) st = .ok (r, st') ∧ NoStray st st' := by
  have hacc : Acc (fun a => (dest ≠ 0 ∧ In dest dlen a) ∨ (src ≠ 0 ∧ In src slen a)) (fun _ => False)
      (memcmpG max f dest dlen src slen dB sB dL dL' db sb) (fun _ => True) := by
    unfold memcmpG
    split
    · repeat acc_step
    · rename_i hdn
      split
      · repeat acc_step
      · rename_i hsn
        split
        · repeat acc_step
        · refine Acc.bind (Acc_memcmpChecks max dlen slen dB sB dL dL' db sb) (fun x hx => ?_)
          cases x with
          | some e => exact Acc.pure _ trivial
          | none =>
            have hle := hx rfl
            dsimp only
            split
            · exact Acc.pure _ trivial
            · refine Acc.bind ((Acc_memcmpLoopQ f dlen slen dest src).mono ?_ (fun _ h => h)) (fun _ _ => Acc.pure _ trivial)
              intro a h
              have hmin : min dlen slen = slen := by omega
              rw [hmin] at h
              rcases h with ⟨h1, h2⟩ | h
              · exact Or.inl ⟨hdn, h1, by omega⟩
              · exact Or.inr ⟨hsn, h⟩
  obtain ⟨r, st', he, _, hst, _⟩ := hacc.sound st
    (fun a h => by rcases h with ⟨h1, h2⟩ | ⟨h1, h2⟩
                   · exact RD_of st dest dlen (hd h1) a h2
                   · exact RD_of st src slen (hs h1) a h2)
    (fun _ h => h.elim)
  exact ⟨r, st', he, hst⟩

/-- **memcmp_s** -/
theorem memcmp_s_C02 (dest dmax src slen : Nat) (db sb : Bos) (st : St)
    (hd : dest ≠ 0 → RD st dest dmax) (hs : src ≠ 0 → RD st src slen) :
    ∃ r st', exec (memcmp_s dest dmax src slen db sb) st = .ok (r, st') ∧ NoStray st st' :=
  memcmpG_C02 _ _ dest dmax src slen _ _ _ _ db sb st hd hs

/-- **memcmp16_s** (cells are 16-bit elements) -/
theorem memcmp16_s_C02 (dest dlen src slen : Nat) (db sb : Bos) (st : St)
    (hd : dest ≠ 0 → RD st dest dlen) (hs : src ≠ 0 → RD st src slen) :
    ∃ r st', exec (memcmp16_s dest dlen src slen db sb) st = .ok (r, st') ∧ NoStray st st' :=
  memcmpG_C02 _ _ dest dlen src slen _ _ _ _ db sb st hd hs

/-- **memcmp32_s** (cells are 32-bit elements) -/
theorem memcmp32_s_C02 (dest dlen src slen : Nat) (db sb : Bos) (st : St)
    (hd : dest ≠ 0 → RD st dest dlen) (hs : src ≠ 0 → RD st src slen) :
    ∃ r st', exec (memcmp32_s dest dlen src slen db sb) st = .ok (r, st') ∧ NoStray st st' :=
  memcmpG_C02 _ _ dest dlen src slen _ _ _ _ db sb st hd hs

/-! ### in place: case mapping and strnterminate_s (dest is read AND written inside its dmax cells only) -/

theorem Acc_caseLoop (lo' hi' : Nat) (f : Nat → Nat) (dmax dest : Nat) :
    Acc (In dest dmax) (In dest dmax) (caseLoop lo' hi' f dmax dest) (fun _ => True) := by
  induction dmax generalizing dest with
  | zero => exact Acc.pure _ trivial
  | succ k ih =>
    unfold caseLoop
    have hin : In dest (k+1) dest := ⟨Nat.le_refl _, by omega⟩
    refine Acc.bind (Acc.loadP dest hin) (fun c _ => ?_)
    split
    · exact Acc.pure _ trivial
    · refine Acc.bind (Acc.loadP dest hin) (fun c1 _ => ?_)
      have tail := (ih (dest+1)).mono (R' := In dest (k+1)) (W' := In dest (k+1))
        (fun a ⟨h1, h2⟩ => ⟨by omega, by omega⟩) (fun a ⟨h1, h2⟩ => ⟨by omega, by omega⟩)
      dsimp only
      split
      · refine Acc.bind (Acc.loadP dest hin) (fun c2 _ => ?_)
        split
        · refine Acc.bind (Acc.loadP dest hin) (fun c3 _ => ?_)
          exact Acc.bind (Acc.storeP dest _ hin) (fun _ _ => tail)
        · exact tail
      · exact tail

theorem RW_of (st : St) (d n : Nat) (h : RW st d n) :
    (∀ a, In d n a → st.mapped a = true ∧ st.rd a = true) ∧ (∀ a, In d n a → st.mapped a = true ∧ st.wr a = true) := by
  constructor <;> intro a ⟨h1, h2⟩
  · have := h (a - d) (by omega); have e : d + (a - d) = a := by omega
    rw [e] at this; exact ⟨this.1, this.2.2⟩
  · have := h (a - d) (by omega); have e : d + (a - d) = a := by omega
    rw [e] at this; exact ⟨this.1, this.2.1⟩

/-- **strtolowercase_s**: reads and writes stay inside `dest[0..dmax)`, nothing else needs to be mapped -/
theorem strtolowercase_s_C02 (cfg : Cfg) (dest dmax : Nat) (b : Bos) (st : St) (hrw : dest ≠ 0 → RW st dest dmax) :
    ∃ r st', exec (strtolowercase_s cfg dest dmax b) st = .ok (r, st') ∧ NoStray st st' := by
  have hacc : Acc (fun a => dest ≠ 0 ∧ In dest dmax a) (fun a => dest ≠ 0 ∧ In dest dmax a)
      (strtolowercase_s cfg dest dmax b) (fun _ => True) := by
    unfold strtolowercase_s
    split
    · exact Acc_failS _
    · rename_i hd
      split
      · exact Acc_failS _
      · apply Acc_chkDmax
        exact Acc.bind ((Acc_caseLoop _ _ _ dmax dest).mono (fun a h => ⟨hd, h⟩) (fun a h => ⟨hd, h⟩)) (fun _ _ => Acc.pure _ trivial)
  obtain ⟨r, st', he, _, hst, _⟩ := hacc.sound st (fun a ⟨hs, h⟩ => (RW_of st dest dmax (hrw hs)).1 a h)
    (fun a ⟨hs, h⟩ => (RW_of st dest dmax (hrw hs)).2 a h)
  exact ⟨r, st', he, hst⟩

/-- **strtouppercase_s** -/
theorem strtouppercase_s_C02 (cfg : Cfg) (dest dmax : Nat) (b : Bos) (st : St) (hrw : dest ≠ 0 → RW st dest dmax) :
    ∃ r st', exec (strtouppercase_s cfg dest dmax b) st = .ok (r, st') ∧ NoStray st st' := by
  have hacc : Acc (fun a => dest ≠ 0 ∧ In dest dmax a) (fun a => dest ≠ 0 ∧ In dest dmax a)
      (strtouppercase_s cfg dest dmax b) (fun _ => True) := by
    unfold strtouppercase_s
    split
    · exact Acc_failS _
    · rename_i hd
      split
      · exact Acc_failS _
      · apply Acc_chkDmax
        exact Acc.bind ((Acc_caseLoop _ _ _ dmax dest).mono (fun a h => ⟨hd, h⟩) (fun a h => ⟨hd, h⟩)) (fun _ _ => Acc.pure _ trivial)
  obtain ⟨r, st', he, _, hst, _⟩ := hacc.sound st (fun a ⟨hs, h⟩ => (RW_of st dest dmax (hrw hs)).1 a h)
    (fun a ⟨hs, h⟩ => (RW_of st dest dmax (hrw hs)).2 a h)
  exact ⟨r, st', he, hst⟩

example : ∃ st : St, ((100 : Nat) ≠ 0 → RD st 100 5) ∧ st.mapped 105 = false :=
  ⟨{ data := fun _ => 7, mapped := fun a => decide (100 ≤ a ∧ a < 105), rd := fun a => decide (100 ≤ a ∧ a < 105), wr := fun _ => false },
   fun _ i hi => ⟨by simp; omega, by simp; omega⟩, by simp⟩

end SafeC.Props.C02

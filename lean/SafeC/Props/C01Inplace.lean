import SafeC.Proofs.WW
import SafeC.Models.Inplace
import SafeC.Props.C01
/-!
# C01 for the in-place family (`strset_s strnset_s strzero_s strtolowercase_s strtouppercase_s
strnterminate_s wcsset_s wcsnset_s`)

Same setting and conclusion as `Props/C01.lean` (`Setting`, `Holds`): every cell mapped and readable
with ARBITRARY contents, `dest[0..dmax)` writable; then for ALL arguments — any `dmax`, any value, any
`n`, object size unknown or known (whatever it is), terminated or not — the call returns, records no
stray write and leaves every cell outside `dest[0..dmax)` bit-identical.

Proved through the `WW` judgement (`Proofs/WW.lean`): every store address of the model lies in
`[dest, dest+dmax)` whatever values the loads return.
-/
namespace SafeC.Props.C01
open SafeC Gen

/-- from the `WW` judgement to the C01 conclusion -/
theorem holds_of_WW {α} {p : Prog α} {Q : α → Prop} (dest dmax : Nat) (st : St) (hs : Setting st)
    (hw : dest ≠ 0 → ∀ a, dest ≤ a → a < dest + dmax → st.wr a = true)
    (h : dest ≠ 0 → WW dest (dest + dmax) p Q) (h0 : dest = 0 → WW 0 0 p Q) :
    ∃ r st', exec p st = .ok (r, st') ∧ Holds st st' := by
  by_cases hd : dest = 0
  · obtain ⟨r, st', he, _, _, _, _, h4, h5⟩ := (h0 hd).sound st (fun a => (hs.all a).1) (fun a h1 h2 => by omega)
    refine ⟨r, st', he, ?_, ?_⟩
    · intro x hx; rcases h4 x hx with h | h
      · rw [hs.clean] at h; cases h
      · exact h
    · intro a _; exact h5 a (by omega)
  · obtain ⟨r, st', he, _, _, _, _, h4, h5⟩ := (h hd).sound st (fun a => (hs.all a).1) (hw hd)
    refine ⟨r, st', he, ?_, ?_⟩
    · intro x hx; rcases h4 x hx with h | h
      · rw [hs.clean] at h; cases h
      · exact h
    · intro a ha
      apply h5 a
      intro ⟨h1, h2⟩
      rw [hw hd a h1 h2] at ha; cases ha

theorem WW_chkDmax {lo hi : Nat} (dmax : Nat) (b : Bos) (max : Nat) {k : Prog Nat} (hk : WW lo hi k (fun _ => True)) :
    WW lo hi (chkDmax dmax b max k) (fun _ => True) := by
  unfold chkDmax
  split
  · split
    · exact WW.failS _
    · exact hk
  · split
    · split <;> exact WW.failS _
    · exact hk

theorem WW_setLoop (v k dest : Nat) :
    WW dest (dest + k) (setLoop v k dest) (fun r => r.1 + r.2 = dest + k ∧ dest ≤ r.1) := by
  induction k generalizing dest with
  | zero => exact WW.pure _ ⟨rfl, Nat.le_refl _⟩
  | succ k ih =>
    unfold setLoop
    refine WW.bind (WW.loadP dest) (fun c _ => ?_)
    split
    · exact WW.pure _ ⟨rfl, Nat.le_refl _⟩
    · refine WW.bind (WW.storeP dest v (Nat.le_refl _) (by omega)) (fun _ _ => ?_)
      exact ((ih (dest+1)).mono (by omega) (by omega)).conseq (fun r hr => ⟨by omega, by omega⟩)

theorem WW_slackTail {lo hi : Nat} (cfg : Cfg) (d n : Nat) (h1 : lo ≤ d) (h2 : d + n ≤ hi) :
    WW lo hi (slackTail cfg d n) (fun _ => True) := by
  unfold slackTail
  split
  · refine WW.bind (WW.loadP d) (fun c _ => ?_)
    split
    · exact WW.memsetP 0 n d h1 h2
    · exact WW.pure _ trivial
  · exact WW.pure _ trivial

/-! ### the narrow setters -/

theorem WW_strset_s (cfg : Cfg) (dest dmax value : Nat) (b : Bos) (lo hi : Nat)
    (h : dest ≠ 0 → lo ≤ dest ∧ dest + dmax ≤ hi) :
    WW lo hi (strset_s cfg dest dmax value b) (fun _ => True) := by
  unfold strset_s
  split
  · exact WW.failS _
  · rename_i hd
    obtain ⟨hlo, hhi⟩ := h hd
    split
    · exact WW.failS _
    · apply WW_chkDmax
      split
      · exact WW.failS _
      · refine WW.bind ((WW_setLoop _ dmax dest).mono hlo hhi) (fun r hr => ?_)
        obtain ⟨d, m⟩ := r
        exact WW.bind (WW_slackTail cfg d m (by simp at hr; omega) (by simp at hr; omega)) (fun _ _ => WW.pure _ trivial)

theorem WW_strzero_s (cfg : Cfg) (dest dmax : Nat) (b : Bos) (lo hi : Nat)
    (h : dest ≠ 0 → lo ≤ dest ∧ dest + dmax ≤ hi) :
    WW lo hi (strzero_s cfg dest dmax b) (fun _ => True) := by
  unfold strzero_s
  split
  · exact WW.failS _
  · rename_i hd
    obtain ⟨hlo, hhi⟩ := h hd
    split
    · exact WW.failS _
    · apply WW_chkDmax
      refine WW.bind ((WW_setLoop _ dmax dest).mono hlo hhi) (fun r hr => ?_)
      obtain ⟨d, m⟩ := r
      exact WW.bind (WW_slackTail cfg d m (by simp at hr; omega) (by simp at hr; omega)) (fun _ _ => WW.pure _ trivial)

theorem WW_strnset_s (cfg : Cfg) (dest dmax value n : Nat) (b : Bos) (lo hi : Nat)
    (h : dest ≠ 0 → lo ≤ dest ∧ dest + dmax ≤ hi) :
    WW lo hi (strnset_s cfg dest dmax value n b) (fun _ => True) := by
  unfold strnset_s
  split
  · exact WW.failS _
  · rename_i hd
    obtain ⟨hlo, hhi⟩ := h hd
    split
    · exact WW.failS _
    · apply WW_chkDmax
      split
      · exact WW.failS _
      · split
        · exact WW.failS _
        · rename_i hn
          refine WW.bind ((WW_setLoop _ n dest).mono hlo (by omega)) (fun r hr => ?_)
          obtain ⟨d, m⟩ := r
          simp only at hr
          exact WW.bind (WW_slackTail cfg d (dmax - (d - dest)) (by omega) (by omega)) (fun _ _ => WW.pure _ trivial)

/-- **strset_s**: all arguments, any object-size knowledge, any contents -/
theorem strset_s_C01 (cfg : Cfg) (dest dmax value : Nat) (b : Bos) (st : St) (hs : Setting st)
    (hrw : dest ≠ 0 → RW st dest dmax) :
    ∃ code st', exec (strset_s cfg dest dmax value b) st = .ok (code, st') ∧ Holds st st' :=
  holds_of_WW dest dmax st hs
    (fun hd a h1 h2 => by have := hrw hd (a - dest) (by omega); have e : dest + (a - dest) = a := by omega
                          rw [e] at this; exact this.2.1)
    (fun _ => WW_strset_s cfg dest dmax value b _ _ (fun _ => ⟨Nat.le_refl _, Nat.le_refl _⟩))
    (fun h0 => WW_strset_s cfg dest dmax value b _ _ (fun hd => absurd h0 hd))

/-- **strzero_s** -/
theorem strzero_s_C01 (cfg : Cfg) (dest dmax : Nat) (b : Bos) (st : St) (hs : Setting st)
    (hrw : dest ≠ 0 → RW st dest dmax) :
    ∃ code st', exec (strzero_s cfg dest dmax b) st = .ok (code, st') ∧ Holds st st' :=
  holds_of_WW dest dmax st hs
    (fun hd a h1 h2 => by have := hrw hd (a - dest) (by omega); have e : dest + (a - dest) = a := by omega
                          rw [e] at this; exact this.2.1)
    (fun _ => WW_strzero_s cfg dest dmax b _ _ (fun _ => ⟨Nat.le_refl _, Nat.le_refl _⟩))
    (fun h0 => WW_strzero_s cfg dest dmax b _ _ (fun hd => absurd h0 hd))

/-- **strnset_s** -/
theorem strnset_s_C01 (cfg : Cfg) (dest dmax value n : Nat) (b : Bos) (st : St) (hs : Setting st)
    (hrw : dest ≠ 0 → RW st dest dmax) :
    ∃ code st', exec (strnset_s cfg dest dmax value n b) st = .ok (code, st') ∧ Holds st st' :=
  holds_of_WW dest dmax st hs
    (fun hd a h1 h2 => by have := hrw hd (a - dest) (by omega); have e : dest + (a - dest) = a := by omega
                          rw [e] at this; exact this.2.1)
    (fun _ => WW_strnset_s cfg dest dmax value n b _ _ (fun _ => ⟨Nat.le_refl _, Nat.le_refl _⟩))
    (fun h0 => WW_strnset_s cfg dest dmax value n b _ _ (fun hd => absurd h0 hd))

/-! ### case mapping -/

theorem WW_caseLoop (lo' hi' : Nat) (f : Nat → Nat) (dmax dest : Nat) :
    WW dest (dest + dmax) (caseLoop lo' hi' f dmax dest) (fun _ => True) := by
  induction dmax generalizing dest with
  | zero => exact WW.pure _ trivial
  | succ k ih =>
    unfold caseLoop
    refine WW.bind (WW.loadP dest) (fun c _ => ?_)
    split
    · exact WW.pure _ trivial
    · refine WW.bind (WW.loadP dest) (fun c1 _ => ?_)
      have tail := (ih (dest+1)).mono (lo' := dest) (hi' := dest + (k+1)) (by omega) (by omega)
      dsimp only
      split
      · refine WW.bind (WW.loadP dest) (fun c2 _ => ?_)
        split
        · refine WW.bind (WW.loadP dest) (fun c3 _ => ?_)
          exact WW.bind (WW.storeP dest _ (Nat.le_refl _) (by omega)) (fun _ _ => tail)
        · exact tail
      · exact tail

theorem WW_strtolowercase_s (cfg : Cfg) (dest dmax : Nat) (b : Bos) (lo hi : Nat)
    (h : dest ≠ 0 → lo ≤ dest ∧ dest + dmax ≤ hi) :
    WW lo hi (strtolowercase_s cfg dest dmax b) (fun _ => True) := by
  unfold strtolowercase_s
  split
  · exact WW.failS _
  · rename_i hd
    obtain ⟨hlo, hhi⟩ := h hd
    split
    · exact WW.failS _
    · apply WW_chkDmax
      exact WW.bind ((WW_caseLoop _ _ _ dmax dest).mono hlo hhi) (fun _ _ => WW.pure _ trivial)

theorem WW_strtouppercase_s (cfg : Cfg) (dest dmax : Nat) (b : Bos) (lo hi : Nat)
    (h : dest ≠ 0 → lo ≤ dest ∧ dest + dmax ≤ hi) :
    WW lo hi (strtouppercase_s cfg dest dmax b) (fun _ => True) := by
  unfold strtouppercase_s
  split
  · exact WW.failS _
  · rename_i hd
    obtain ⟨hlo, hhi⟩ := h hd
    split
    · exact WW.failS _
    · apply WW_chkDmax
      exact WW.bind ((WW_caseLoop _ _ _ dmax dest).mono hlo hhi) (fun _ _ => WW.pure _ trivial)

/-- **strtolowercase_s** -/
theorem strtolowercase_s_C01 (cfg : Cfg) (dest dmax : Nat) (b : Bos) (st : St) (hs : Setting st)
    (hrw : dest ≠ 0 → RW st dest dmax) :
    ∃ code st', exec (strtolowercase_s cfg dest dmax b) st = .ok (code, st') ∧ Holds st st' :=
  holds_of_WW dest dmax st hs
    (fun hd a h1 h2 => by have := hrw hd (a - dest) (by omega); have e : dest + (a - dest) = a := by omega
                          rw [e] at this; exact this.2.1)
    (fun _ => WW_strtolowercase_s cfg dest dmax b _ _ (fun _ => ⟨Nat.le_refl _, Nat.le_refl _⟩))
    (fun h0 => WW_strtolowercase_s cfg dest dmax b _ _ (fun hd => absurd h0 hd))

/-- **strtouppercase_s** -/
theorem strtouppercase_s_C01 (cfg : Cfg) (dest dmax : Nat) (b : Bos) (st : St) (hs : Setting st)
    (hrw : dest ≠ 0 → RW st dest dmax) :
    ∃ code st', exec (strtouppercase_s cfg dest dmax b) st = .ok (code, st') ∧ Holds st st' :=
  holds_of_WW dest dmax st hs
    (fun hd a h1 h2 => by have := hrw hd (a - dest) (by omega); have e : dest + (a - dest) = a := by omega
                          rw [e] at this; exact this.2.1)
    (fun _ => WW_strtouppercase_s cfg dest dmax b _ _ (fun _ => ⟨Nat.le_refl _, Nat.le_refl _⟩))
    (fun h0 => WW_strtouppercase_s cfg dest dmax b _ _ (fun hd => absurd h0 hd))

/-! ### strnterminate_s -/

theorem WW_ntermLoop (lo hi k dest count : Nat) :
    WW lo hi (ntermLoop k dest count) (fun r => dest ≤ r.1 ∧ r.1 ≤ dest + k) := by
  induction k generalizing dest count with
  | zero => exact WW.pure _ ⟨Nat.le_refl _, Nat.le_refl _⟩
  | succ k ih =>
    unfold ntermLoop
    refine WW.bind (WW.loadP dest) (fun c _ => ?_)
    split
    · exact (ih (dest+1) (count+1)).conseq (fun r (hr : dest + 1 ≤ r.1 ∧ r.1 ≤ dest + 1 + k) => ⟨by omega, by omega⟩)
    · exact WW.pure _ ⟨Nat.le_refl _, Nat.le_add_right _ _⟩

theorem WW_strnterminate_s (cfg : Cfg) (dest dmax : Nat) (b : Bos) (lo hi : Nat)
    (h : dest ≠ 0 → lo ≤ dest ∧ dest + dmax ≤ hi) :
    WW lo hi (strnterminate_s cfg dest dmax b) (fun _ => True) := by
  unfold strnterminate_s
  split
  · exact WW.bind (WW.handlerS _) (fun _ _ => WW.pure _ trivial)
  · rename_i hd
    obtain ⟨hlo, hhi⟩ := h hd
    split
    · exact WW.bind (WW.handlerS _) (fun _ _ => WW.pure _ trivial)
    · rename_i hz
      have body : WW lo hi (do
          let (d, count) ← ntermLoop (dmax - 1) dest 0
          store d 0
          Pure.pure count : Prog Nat) (fun _ => True) := by
        refine WW.bind (WW_ntermLoop lo hi (dmax - 1) dest 0) (fun r hr => ?_)
        obtain ⟨d, count⟩ := r
        simp only at hr
        exact WW.bind (WW.storeP d 0 (by omega) (by omega)) (fun _ _ => WW.pure _ trivial)
      dsimp only
      split
      · split
        · exact WW.bind (WW.handlerS _) (fun _ _ => WW.pure _ trivial)
        · exact body
      · split
        · exact WW.bind (WW.handlerS _) (fun _ _ => WW.pure _ trivial)
        · exact body

/-- **strnterminate_s** -/
theorem strnterminate_s_C01 (cfg : Cfg) (dest dmax : Nat) (b : Bos) (st : St) (hs : Setting st)
    (hrw : dest ≠ 0 → RW st dest dmax) :
    ∃ n st', exec (strnterminate_s cfg dest dmax b) st = .ok (n, st') ∧ Holds st st' :=
  holds_of_WW dest dmax st hs
    (fun hd a h1 h2 => by have := hrw hd (a - dest) (by omega); have e : dest + (a - dest) = a := by omega
                          rw [e] at this; exact this.2.1)
    (fun _ => WW_strnterminate_s cfg dest dmax b _ _ (fun _ => ⟨Nat.le_refl _, Nat.le_refl _⟩))
    (fun h0 => WW_strnterminate_s cfg dest dmax b _ _ (fun hd => absurd h0 hd))

/-! ### the wide setters -/

theorem WW_chkDmaxClearW (cfg : Cfg) (dest dmax : Nat) (b : Bos) (hpos : 0 < dmax) {k : Prog Nat}
    (hk : WW dest (dest + dmax) k (fun _ => True)) :
    WW dest (dest + dmax) (chkDmaxClearW cfg dest dmax b k) (fun _ => True) := by
  unfold chkDmaxClearW
  split
  · split
    · exact WW.failS _
    · exact hk
  · rename_i bos
    have hw : SIZEOF_WCHAR_T = 4 := rfl
    split
    · rename_i hgt
      rw [hw] at hgt
      have hlen : bos / SIZEOF_WCHAR_T ≤ dmax := by rw [hw]; omega
      split
      · exact WW.bind (WW.handleError cfg dest _ _ (Nat.le_refl _) (by omega) (by omega)) (fun _ _ => WW.pure _ trivial)
      · exact WW.bind (WW.handleError cfg dest _ _ (Nat.le_refl _) (by omega) (by omega)) (fun _ _ => WW.pure _ trivial)
    · exact hk

theorem WW_wcsset_s (cfg : Cfg) (dest dmax value : Nat) (b : Bos) (hd : dest ≠ 0) :
    WW dest (dest + dmax) (wcsset_s cfg dest dmax value b) (fun _ => True) := by
  unfold wcsset_s
  simp only [hd, if_false]
  split
  · exact WW.failS _
  · rename_i hz
    split
    · exact WW.failS _
    · apply WW_chkDmaxClearW _ _ _ _ (by omega)
      refine WW.bind (WW_setLoop _ dmax dest) (fun r hr => ?_)
      obtain ⟨d, m⟩ := r
      exact WW.bind (WW_slackTail cfg d m (by simp at hr; omega) (by simp at hr; omega)) (fun _ _ => WW.pure _ trivial)

theorem WW_wcsnset_s (cfg : Cfg) (dest dmax value n : Nat) (b : Bos) (hd : dest ≠ 0) :
    WW dest (dest + dmax) (wcsnset_s cfg dest dmax value n b) (fun _ => True) := by
  unfold wcsnset_s
  simp only [hd, if_false]
  split
  · exact WW.failS _
  · rename_i hz
    split
    · exact WW.failS _
    · apply WW_chkDmaxClearW _ _ _ _ (by omega)
      split
      · exact WW.bind (WW.handleError cfg dest dmax _ (Nat.le_refl _) (Nat.le_refl _) (by omega)) (fun _ _ => WW.pure _ trivial)
      · rename_i hn
        refine WW.bind ((WW_setLoop _ n dest).mono (Nat.le_refl _) (by omega)) (fun r hr => ?_)
        obtain ⟨d, m⟩ := r
        simp only at hr
        exact WW.bind (WW_slackTail cfg d (dmax - (d - dest)) (by omega) (by omega)) (fun _ _ => WW.pure _ trivial)

theorem WW_null_dest_wcsset (cfg : Cfg) (dmax value : Nat) (b : Bos) :
    WW 0 0 (wcsset_s cfg 0 dmax value b) (fun _ => True) := by
  unfold wcsset_s; simp only [if_true]; exact WW.failS _

theorem WW_null_dest_wcsnset (cfg : Cfg) (dmax value n : Nat) (b : Bos) :
    WW 0 0 (wcsnset_s cfg 0 dmax value n b) (fun _ => True) := by
  unfold wcsnset_s; simp only [if_true]; exact WW.failS _

/-- **wcsset_s**: all arguments; a known object size smaller than `dmax` makes the call clear
`destbos / sizeof(wchar_t)` cells — still inside `dest[0..dmax)` -/
theorem wcsset_s_C01 (cfg : Cfg) (dest dmax value : Nat) (b : Bos) (st : St) (hs : Setting st)
    (hrw : dest ≠ 0 → RW st dest dmax) :
    ∃ code st', exec (wcsset_s cfg dest dmax value b) st = .ok (code, st') ∧ Holds st st' :=
  holds_of_WW dest dmax st hs
    (fun hd a h1 h2 => by have := hrw hd (a - dest) (by omega); have e : dest + (a - dest) = a := by omega
                          rw [e] at this; exact this.2.1)
    (fun hd => WW_wcsset_s cfg dest dmax value b hd)
    (fun h0 => by subst h0; exact WW_null_dest_wcsset cfg dmax value b)

/-- **wcsnset_s** -/
theorem wcsnset_s_C01 (cfg : Cfg) (dest dmax value n : Nat) (b : Bos) (st : St) (hs : Setting st)
    (hrw : dest ≠ 0 → RW st dest dmax) :
    ∃ code st', exec (wcsnset_s cfg dest dmax value n b) st = .ok (code, st') ∧ Holds st st' :=
  holds_of_WW dest dmax st hs
    (fun hd a h1 h2 => by have := hrw hd (a - dest) (by omega); have e : dest + (a - dest) = a := by omega
                          rw [e] at this; exact this.2.1)
    (fun hd => WW_wcsnset_s cfg dest dmax value n b hd)
    (fun h0 => by subst h0; exact WW_null_dest_wcsnset cfg dmax value n b)

example : ∃ st : St, Setting st ∧ ((100 : Nat) ≠ 0 → RW st 100 5) :=
  ⟨{ data := fun _ => 7, mapped := fun _ => true, rd := fun _ => true, wr := fun a => decide (100 ≤ a ∧ a < 105) },
   ⟨fun _ => ⟨rfl, rfl⟩, rfl⟩, fun _ i hi => ⟨rfl, by simp; omega, rfl⟩⟩

end SafeC.Props.C01

import SafeC.Proofs.ExtOs
/-!
# C04 for `getenv_s` and `strerror_s`: a failed call leaves no partial result in dest

Same setting as `Props/C03ExtOs.lean` (declared extents only, arbitrary prior dest content).  Every non-EOK exit on a
usable dest stores `dest[0] = 0`; with null-slack all `dmax` cells are zero; cells outside `dest[0..dmax)` are
unchanged and nothing outside the declared extents is touched.  Exactly one handler event, carrying the returned code —
except the "variable not set" exit of `getenv_s` (-1), which by design reports nothing.
-/
namespace SafeC.Props.C04Ext
open SafeC Gen

/-- getenv_s, the ESNOSPC exit: the variable is set to a string of length n ≥ dmax (no upper bound on n). Returns
ESNOSPC with *len = 0, exactly one handler event (ESNOSPC), dest[0] = 0, with null-slack all dmax cells zero; nothing
outside dest changes, no stray access. The value need not be disjoint from dest here. -/
theorem getenv_s_C04_nospc (cfg : Cfg) (hasLen : Bool) (dest dmax name : Nat) (destbos : Bos) (value k n : Nat)
    (st : St) (hd : dest ≠ 0) (hpos : 0 < dmax) (hle : dmax ≤ RSIZE_MAX_STR)
    (hbos : ∀ b, destbos = some b → dmax ≤ b) (hrw : RW st dest dmax)
    (hname : name ≠ 0) (hnm : SrcStr st name k) (hv : value ≠ 0) (hval : SrcStr st value n) (hn : dmax ≤ n) :
    ∃ st', exec (getenv_s cfg hasLen dest dmax name destbos value) st
        = .ok ((ESNOSPC, if hasLen then some 0 else none), st') ∧
      st'.events = st.events ++ [.handler .str ESNOSPC] ∧ st'.strays = st.strays ∧
      st'.data dest = 0 ∧ (cfg.slack = true → ∀ i, i < dmax → st'.data (dest+i) = 0) ∧
      (∀ a, ¬ (dest ≤ a ∧ a < dest + dmax) → st'.data a = st.data a) := by
  obtain ⟨st', he, _, _, _, ps, pf, pe, hz, hsl⟩ :=
    getenv_s_nospc cfg hasLen dest dmax name destbos value k n st hd hpos hle hbos hrw hname hnm hv hval hn
  exact ⟨st', he, pe, ps, hz, hsl, pf⟩

/-- getenv_s, the name == NULL exit on a usable dest: ESNULLP with *len = 0, exactly one handler event (ESNULLP),
dest[0] = 0, with null-slack all dmax cells zero; nothing outside dest changes, no stray access (the environment is not
consulted: value is arbitrary). -/
theorem getenv_s_C04_nullname (cfg : Cfg) (hasLen : Bool) (dest dmax : Nat) (destbos : Bos) (value : Nat) (st : St)
    (hd : dest ≠ 0) (hpos : 0 < dmax) (hle : dmax ≤ RSIZE_MAX_STR) (hbos : ∀ b, destbos = some b → dmax ≤ b)
    (hrw : RW st dest dmax) :
    ∃ st', exec (getenv_s cfg hasLen dest dmax 0 destbos value) st
        = .ok ((ESNULLP, if hasLen then some 0 else none), st') ∧
      st'.events = st.events ++ [.handler .str ESNULLP] ∧ st'.strays = st.strays ∧
      st'.data dest = 0 ∧ (cfg.slack = true → ∀ i, i < dmax → st'.data (dest+i) = 0) ∧
      (∀ a, ¬ (dest ≤ a ∧ a < dest + dmax) → st'.data a = st.data a) := by
  obtain ⟨st', he, _, _, _, ps, pf, pe, hz, hsl⟩ :=
    getenv_s_nullname cfg hasLen dest dmax destbos value st hd hpos hle hbos hrw
  exact ⟨st', he, pe, ps, hz, hsl, pf⟩

/-- getenv_s, the variable is not set (getenv returned NULL, value = 0): returns -1 (NEG1) with *len = 0 and NO handler
event; dest[0] = 0, with null-slack all dmax cells zero; nothing outside dest changes, no stray access. -/
theorem getenv_s_C04_unset (cfg : Cfg) (hasLen : Bool) (dest dmax name : Nat) (destbos : Bos) (k : Nat) (st : St)
    (hd : dest ≠ 0) (hpos : 0 < dmax) (hle : dmax ≤ RSIZE_MAX_STR) (hbos : ∀ b, destbos = some b → dmax ≤ b)
    (hrw : RW st dest dmax) (hname : name ≠ 0) (hnm : SrcStr st name k) :
    ∃ st', exec (getenv_s cfg hasLen dest dmax name destbos 0) st
        = .ok ((NEG1, if hasLen then some 0 else none), st') ∧
      st'.events = st.events ∧ st'.strays = st.strays ∧
      st'.data dest = 0 ∧ (cfg.slack = true → ∀ i, i < dmax → st'.data (dest+i) = 0) ∧
      (∀ a, ¬ (dest ≤ a ∧ a < dest + dmax) → st'.data a = st.data a) := by
  obtain ⟨st', he, _, _, _, ps, pf, pe, hz, hsl⟩ :=
    getenv_s_unset cfg hasLen dest dmax name destbos k st hd hpos hle hbos hrw hname hnm
  exact ⟨st', he, pe, ps, hz, hsl, pf⟩

/-- getenv_s, EVERY exit with a usable dest (hypotheses of C03Ext.getenv_s_C03): whenever the returned code is not EOK,
dest[0] = 0, with null-slack all dmax cells are zero, *len = 0 (if requested); in every case nothing outside
dest[0..dmax) changes and no stray access happens. -/
theorem getenv_s_C04 (cfg : Cfg) (hasLen : Bool) (dest dmax name : Nat) (destbos : Bos) (value k n : Nat) (st : St)
    (hd : dest ≠ 0) (hpos : 0 < dmax) (hle : dmax ≤ RSIZE_MAX_STR) (hbos : ∀ b, destbos = some b → dmax ≤ b)
    (hrw : RW st dest dmax) (hname : name ≠ 0 → SrcStr st name k)
    (hval : value ≠ 0 → SrcStr st value n ∧ Disjoint dest dmax value n) :
    ∃ r st', exec (getenv_s cfg hasLen dest dmax name destbos value) st = .ok (r, st') ∧
      (r.1 ≠ EOK → st'.data dest = 0 ∧ (cfg.slack = true → ∀ i, i < dmax → st'.data (dest+i) = 0) ∧
        r.2 = if hasLen then some 0 else none) ∧
      st'.strays = st.strays ∧ (∀ a, ¬ (dest ≤ a ∧ a < dest + dmax) → st'.data a = st.data a) := by
  by_cases h0 : name = 0
  · subst h0
    obtain ⟨st', he, _, _, _, ps, pf, _, hz, hsl⟩ :=
      getenv_s_nullname cfg hasLen dest dmax destbos value st hd hpos hle hbos hrw
    exact ⟨_, st', he, fun _ => ⟨hz, hsl, rfl⟩, ps, pf⟩
  · by_cases hv : value = 0
    · subst hv
      obtain ⟨st', he, _, _, _, ps, pf, _, hz, hsl⟩ :=
        getenv_s_unset cfg hasLen dest dmax name destbos k st hd hpos hle hbos hrw h0 (hname h0)
      exact ⟨_, st', he, fun _ => ⟨hz, hsl, rfl⟩, ps, pf⟩
    · obtain ⟨hsrc, hdisj⟩ := hval hv
      by_cases hn : n < dmax
      · obtain ⟨st', he, _, _, _, ps, pf, _⟩ :=
          getenv_s_ok cfg hasLen dest dmax name destbos value k n st hd hpos hle hbos hrw h0 (hname h0) hv hsrc hn hdisj
        exact ⟨_, st', he, fun h => absurd rfl h, ps, pf⟩
      · obtain ⟨st', he, _, _, _, ps, pf, _, hz, hsl⟩ :=
          getenv_s_nospc cfg hasLen dest dmax name destbos value k n st hd hpos hle hbos hrw h0 (hname h0) hv hsrc
            (by omega)
        exact ⟨_, st', he, fun _ => ⟨hz, hsl, rfl⟩, ps, pf⟩

/-- strerror_s, the ESLEMIN exit: dmax ≤ 3 and strerrorlen_s answers len ≥ dmax (the message does not fit and there is
no room for "..."): returns ESLEMIN, exactly one handler event (ESLEMIN), dest[0] = 0, with null-slack all dmax cells
zero; nothing outside dest changes, no stray access. -/
theorem strerror_s_C04_lemin (cfg : Cfg) (dest dmax errnum : Nat) (destbos : Bos) (msg dots len : Nat) (st : St)
    (hd : dest ≠ 0) (hpos : 0 < dmax) (h3 : dmax ≤ 3) (hbos : ∀ b, destbos = some b → dmax ≤ b)
    (hrw : RW st dest dmax) (hlen : exec (strerrorlen_s errnum msg) st = .ok (len, st)) (hge : dmax ≤ len) :
    ∃ st', exec (strerror_s cfg dest dmax errnum destbos msg dots) st = .ok (ESLEMIN, st') ∧
      st'.events = st.events ++ [.handler .str ESLEMIN] ∧ st'.strays = st.strays ∧
      st'.data dest = 0 ∧ (cfg.slack = true → ∀ i, i < dmax → st'.data (dest+i) = 0) ∧
      (∀ a, ¬ (dest ≤ a ∧ a < dest + dmax) → st'.data a = st.data a) := by
  obtain ⟨st', he, _, _, _, ps, pf, pe, hz, hsl⟩ :=
    strerror_s_lemin cfg dest dmax errnum destbos msg dots len st hd hpos h3 hbos hrw hlen hge
  exact ⟨st', he, pe, ps, hz, hsl, pf⟩

/-- strerror_s ESLEMIN exit for an errnum outside the library's own range: msg is a readable string of length n ≥ dmax
(any n; libc strlen decides), dmax ≤ 3. Same conclusion as strerror_s_C04_lemin without a hypothesis on strerrorlen_s. -/
theorem strerror_s_C04_lemin_libc (cfg : Cfg) (dest dmax errnum : Nat) (destbos : Bos) (msg dots n : Nat) (st : St)
    (hd : dest ≠ 0) (hpos : 0 < dmax) (h3 : dmax ≤ 3) (hbos : ∀ b, destbos = some b → dmax ≤ b)
    (hrw : RW st dest dmax) (hown : isSafeclibErr errnum = false) (hsrc : SrcStr st msg n) (hge : dmax ≤ n) :
    ∃ st', exec (strerror_s cfg dest dmax errnum destbos msg dots) st = .ok (ESLEMIN, st') ∧
      st'.events = st.events ++ [.handler .str ESLEMIN] ∧ st'.strays = st.strays ∧
      st'.data dest = 0 ∧ (cfg.slack = true → ∀ i, i < dmax → st'.data (dest+i) = 0) ∧
      (∀ a, ¬ (dest ≤ a ∧ a < dest + dmax) → st'.data a = st.data a) := by
  obtain ⟨len, hlen, hag⟩ := strerrorlen_s_libc errnum msg n st hown hsrc
  have hge' : dmax ≤ len := by
    have : 3 < scanFuel := by decide
    rcases hag with h | h <;> omega
  exact strerror_s_C04_lemin cfg dest dmax errnum destbos msg dots len st hd hpos h3 hbos hrw hlen hge'

/-- strerror_s, EVERY exit with a usable dest (hypotheses of C03Ext.strerror_s_C03): the only non-EOK exit is ESLEMIN,
and then dest[0] = 0 and with null-slack all dmax cells are zero; in every case nothing outside dest[0..dmax) changes
and no stray access happens. -/
theorem strerror_s_C04 (cfg : Cfg) (dest dmax errnum : Nat) (destbos : Bos) (msg dots n : Nat) (st : St)
    (hd : dest ≠ 0) (hpos : 0 < dmax) (hle : dmax ≤ RSIZE_MAX_STR) (hbos : ∀ b, destbos = some b → dmax ≤ b)
    (hrw : RW st dest dmax) (hlen : exec (strerrorlen_s errnum msg) st = .ok (n, st))
    (hm : msg ≠ 0) (hsrc : SrcStr st msg n) (hdisj : Disjoint dest dmax msg n)
    (hdots : dots ≠ 0) (hds : SrcStr st dots 3) (hdd : Disjoint dest dmax dots 3)
    (h46 : st.data dots = 46 ∧ st.data (dots+1) = 46 ∧ st.data (dots+2) = 46) :
    ∃ code st', exec (strerror_s cfg dest dmax errnum destbos msg dots) st = .ok (code, st') ∧
      (code = EOK ∨ code = ESLEMIN) ∧
      (code ≠ EOK → st'.data dest = 0 ∧ (cfg.slack = true → ∀ i, i < dmax → st'.data (dest+i) = 0) ∧
        st'.events = st.events ++ [.handler .str ESLEMIN]) ∧
      st'.strays = st.strays ∧ (∀ a, ¬ (dest ≤ a ∧ a < dest + dmax) → st'.data a = st.data a) := by
  obtain ⟨code, st', he, _, _, _, ps, pf, hfit, htr, hmin⟩ :=
    strerror_s_all cfg dest dmax errnum destbos msg dots n n st hd hpos hle hbos hrw hlen (Or.inl rfl) hm hsrc hdisj
      hdots hds hdd h46
  refine ⟨code, st', he, ?_, ?_, ps, pf⟩
  · by_cases hn : n < dmax
    · exact Or.inl (hfit hn).1
    · by_cases h3 : 3 < dmax
      · exact Or.inl (htr (by omega) h3).1
      · exact Or.inr (hmin (by omega) (by omega)).1
  · intro hc
    by_cases hn : n < dmax
    · exact absurd (hfit hn).1 hc
    · by_cases h3 : 3 < dmax
      · exact absurd (htr (by omega) h3).1 hc
      · obtain ⟨_, e, z, sl⟩ := hmin (by omega) (by omega)
        exact ⟨z, sl, e⟩

/-- non-vacuity: dest = 100 with dmax = 2 (two of its 8 writable cells), name "A" at 300, value "aa" at 200 (2 ≥ dmax:
ESNOSPC), message of 11 characters at 400 with errnum 5 (not an own code; dmax ≤ 3: ESLEMIN) -/
example : (100 : Nat) ≠ 0 ∧ 0 < 2 ∧ 2 ≤ RSIZE_MAX_STR ∧ RW osExSt 100 2 ∧
    (300 : Nat) ≠ 0 ∧ SrcStr osExSt 300 1 ∧ (200 : Nat) ≠ 0 ∧ SrcStr osExSt 200 2 ∧ 2 ≤ 2 ∧
    isSafeclibErr 5 = false ∧ SrcStr osExSt 400 11 ∧ 2 ≤ 11 :=
  ⟨by decide, by decide, by decide, fun i hi => osExSt_rw i (by omega), by decide, osExSt_str _ _ (by omega),
   by decide, osExSt_str _ _ (by omega), by decide, by decide, osExSt_str _ _ (by omega), by decide⟩

end SafeC.Props.C04Ext
